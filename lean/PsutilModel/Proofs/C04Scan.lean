/-
  Proofs/C04Scan.lean — lemmas about the access-granularity visit (`Model/C04Scan.lean`):
  with the FRESH zombie probe and a process that only goes alive → zombie → gone, a getter answers
  NoSuchProcess only if one of ITS OWN access instants saw the process gone, and no FileNotFoundError
  escapes; lifted to `as_dict`'s loop and to the visit.
-/
import PsutilModel.Model.C04Scan
import PsutilModel.Spec.C04Scan
namespace Psutil.C04
open Spec

@[simp] theorem tick_i (st : ScanSt) (a : Acc) : (st.tick a).i = st.i + 1 := rfl

theorem rank_ge_two {l : Life} (h : 2 ≤ l.rank) : l = .gone := by
  cases l <;> simp [Life.rank] at h ⊢

theorem rank_ge_one_cases {l : Life} (h : 1 ≤ l.rank) : l = .zombie ∨ l = .gone := by
  cases l <;> simp [Life.rank] at h ⊢

/-- ESRCH / ENOENT never come from a live process -/
theorem access_err_rank (w : ScanWorld) (i : Nat) (f : String)
    (h : w.access i f = .esrch ∨ w.access i f = .enoent) : 1 ≤ (w.life i).rank := by
  unfold ScanWorld.access at h
  cases hl : w.life i with
  | alive =>
    rw [hl] at h
    by_cases hd : w.deny f = true <;> by_cases he : w.aempty f = true <;> simp [hd, he] at h
  | zombie => simp [Life.rank]
  | gone => simp [Life.rank]

theorem isZombie_fresh_i (w : ScanWorld) (st : ScanSt) : (isZombie .fresh w st).1.i = st.i + 1 := rfl

theorem isZombie_fresh_val (w : ScanWorld) (st : ScanSt) :
    (isZombie .fresh w st).2 = (w.life st.i == .zombie) := by
  show (w.access st.i statFile == Rd.ok && w.life st.i == Life.zombie) = _
  unfold ScanWorld.access
  cases hl : w.life st.i <;> simp

/-- what a getter (or `wrap_exceptions`) guarantees between the states `st` and `st'` -/
def Sound (w : ScanWorld) (st st' : ScanSt) (g : GRes) : Prop :=
  st.i ≤ st'.i ∧ (g = .nsp → ∃ i, st.i ≤ i ∧ i < st'.i ∧ w.life i = .gone) ∧ g ≠ .fnf

theorem Sound.of_tick {w : ScanWorld} {st st' : ScanSt} {g : GRes} (a : Acc)
    (h : Sound w (st.tick a) st' g) : Sound w st st' g := by
  obtain ⟨h1, h2, h3⟩ := h
  refine ⟨by simp at h1; omega, ?_, h3⟩
  intro hg
  obtain ⟨i, hi1, hi2, hi3⟩ := h2 hg
  exact ⟨i, by simp at hi1; omega, hi2, hi3⟩

theorem Sound.plain {w : ScanWorld} {st st' : ScanSt} {g : GRes} (hi : st.i ≤ st'.i)
    (h1 : g ≠ .nsp) (h2 : g ≠ .fnf) : Sound w st st' g :=
  ⟨hi, fun h => absurd h h1, h2⟩

theorem isZombie_fresh_eq (w : ScanWorld) (st : ScanSt) :
    isZombie .fresh w st = (st.tick (.rd statFile (w.access st.i statFile)), w.life st.i == .zombie) := by
  have h := isZombie_fresh_val w st
  exact Prod.ext rfl h

theorem classify_sound (w : ScanWorld) (hm : OneWay w.life) (st : ScanSt) (r : Rd)
    (h : r = .esrch ∨ r = .enoent → 1 ≤ (w.life st.i).rank) :
    Sound w st (classify .fresh w st r).1 (classify .fresh w st r).2 := by
  cases r with
  | ok => exact Sound.plain (Nat.le_refl _) (by simp [classify]) (by simp [classify])
  | empty => exact Sound.plain (Nat.le_refl _) (by simp [classify]) (by simp [classify])
  | eacces => exact Sound.plain (Nat.le_refl _) (by simp [classify]) (by simp [classify])
  | esrch =>
    have hr := h (Or.inl rfl)
    simp only [classify, isZombie_fresh_eq]
    rcases rank_ge_one_cases hr with hz | hg
    · simp only [hz]
      exact Sound.plain (by simp) (by simp) (by simp)
    · simp only [hg]
      refine ⟨by simp, ?_, by simp⟩
      intro _
      exact ⟨st.i, Nat.le_refl _, by simp, hg⟩
  | enoent =>
    have hr := h (Or.inr rfl)
    simp only [classify, isZombie_fresh_eq, tick_i]
    rcases rank_ge_one_cases hr with hz | hg
    · simp only [hz]
      exact Sound.plain (by simp) (by simp) (by simp)
    · have hnext : w.life (st.i + 1) = .gone := by
        apply rank_ge_two
        have := hm st.i (st.i + 1) (by omega)
        rw [hg] at this
        simpa [Life.rank] using this
      simp only [hg, hnext]
      refine ⟨by simp; omega, ?_, by simp⟩
      intro _
      exact ⟨st.i, Nat.le_refl _, by simp; omega, hg⟩

/-- the hypothesis of `classify_sound` for the outcome of the access made at instant `j ≤ st.i` -/
theorem err_rank_later (w : ScanWorld) (hm : OneWay w.life) (j k : Nat) (hjk : j ≤ k) (f : String) :
    w.access j f = .esrch ∨ w.access j f = .enoent → 1 ≤ (w.life k).rank := by
  intro h
  have h1 := access_err_rank w j f h
  have h2 := hm j k hjk
  omega

theorem getter_memo_hit (p : Probe) (w : ScanWorld) (st : ScanSt) (f : String) (l : Life)
    (h : cacheGet st.cache f = some l) : getter p w st (.memo f) = (st, .val) := by
  simp [getter, h]

theorem getter_memo_miss (p : Probe) (w : ScanWorld) (st : ScanSt) (f : String)
    (h : cacheGet st.cache f = none) :
    getter p w st (.memo f) =
      if (w.access st.i f == Rd.ok || w.access st.i f == Rd.empty) = true then
        ({ st.tick (.rd f (w.access st.i f)) with cache := (f, w.life st.i) :: (st.tick (.rd f (w.access st.i f))).cache }, .val)
      else classify p w (st.tick (.rd f (w.access st.i f))) (w.access st.i f) := by
  simp [getter, h]

theorem zres_cases (b : Bool) : (if b = true then GRes.zombie else GRes.val) ≠ .nsp
    ∧ (if b = true then GRes.zombie else GRes.val) ≠ .fnf := by
  cases b <;> simp

theorem getter_sound (w : ScanWorld) (hm : OneWay w.life) (st : ScanSt) (s : Src) :
    Sound w st (getter .fresh w st s).1 (getter .fresh w st s).2 := by
  cases s with
  | obj => exact Sound.plain (Nat.le_refl _) (by simp [getter]) (by simp [getter])
  | other => exact Sound.plain (Nat.le_refl _) (by simp [getter]) (by simp [getter])
  | memo f =>
    cases hc : cacheGet st.cache f with
    | some l =>
      rw [getter_memo_hit _ w st f l hc]
      exact Sound.plain (Nat.le_refl _) (by simp) (by simp)
    | none =>
      rw [getter_memo_miss _ w st f hc]
      by_cases hr : (w.access st.i f == Rd.ok || w.access st.i f == Rd.empty) = true
      · rw [if_pos hr]
        exact Sound.plain (by simp) (by simp) (by simp)
      · rw [if_neg hr]
        apply Sound.of_tick (.rd f (w.access st.i f))
        apply classify_sound w hm
        simpa using err_rank_later w hm st.i (st.i + 1) (by omega) f
  | read f =>
    show Sound w st (classify .fresh w (st.tick (.rd f (w.access st.i f))) (w.access st.i f)).1
      (classify .fresh w (st.tick (.rd f (w.access st.i f))) (w.access st.i f)).2
    apply Sound.of_tick (.rd f (w.access st.i f))
    apply classify_sound w hm
    simpa using err_rank_later w hm st.i (st.i + 1) (by omega) f
  | readProbe f =>
    by_cases hr : (w.access st.i f == Rd.empty) = true
    · have : getter .fresh w st (.readProbe f) =
          ((isZombie .fresh w (st.tick (.rd f (w.access st.i f)))).1,
            if (isZombie .fresh w (st.tick (.rd f (w.access st.i f)))).2 = true then .zombie else .val) := by
        simp [getter, hr]
      rw [this]
      exact Sound.plain (by simp [isZombie_fresh_eq]; omega) (zres_cases _).1 (zres_cases _).2
    · have : getter .fresh w st (.readProbe f) =
          classify .fresh w (st.tick (.rd f (w.access st.i f))) (w.access st.i f) := by
        simp [getter, hr]
      rw [this]
      apply Sound.of_tick (.rd f (w.access st.i f))
      apply classify_sound w hm
      simpa using err_rank_later w hm st.i (st.i + 1) (by omega) f
  | link f =>
    by_cases hr : (w.access st.i f == Rd.esrch || w.access st.i f == Rd.enoent) = true
    · by_cases hex : (w.life (st.i + 1) != Life.gone) = true
      · have : getter .fresh w st (.link f) =
            ((isZombie .fresh w ((st.tick (.rd f (w.access st.i f))).tick (.ex true))).1,
              if (isZombie .fresh w ((st.tick (.rd f (w.access st.i f))).tick (.ex true))).2 = true then .zombie else .val) := by
          simp [getter, hr, hex]
        rw [this]
        exact Sound.plain (by simp [isZombie_fresh_eq]; omega) (zres_cases _).1 (zres_cases _).2
      · have : getter .fresh w st (.link f) =
            classify .fresh w ((st.tick (.rd f (w.access st.i f))).tick (.ex false)) (w.access st.i f) := by
          simp [getter, hr, hex]
        rw [this]
        apply Sound.of_tick (.rd f (w.access st.i f))
        apply Sound.of_tick (.ex false)
        apply classify_sound w hm
        have := err_rank_later w hm st.i (st.i + 2) (by omega) f
        simpa using this
    · have : getter .fresh w st (.link f) =
          classify .fresh w (st.tick (.rd f (w.access st.i f))) (w.access st.i f) := by
        simp [getter, hr]
      rw [this]
      apply Sound.of_tick (.rd f (w.access st.i f))
      apply classify_sound w hm
      intro h
      exfalso
      apply hr
      rcases h with h | h <;> simp [h]

theorem scanLoop_sound (srcs : List (String × Src)) (w : ScanWorld) (hm : OneWay w.life) :
    ∀ (names : List String) (st : ScanSt) (acc : List (String × Bool)),
      st.i ≤ (scanLoop .fresh srcs w st names acc).1.i
      ∧ ((scanLoop .fresh srcs w st names acc).2 = .nsp →
          ∃ i, st.i ≤ i ∧ i < (scanLoop .fresh srcs w st names acc).1.i ∧ w.life i = .gone)
      ∧ (scanLoop .fresh srcs w st names acc).2 ≠ .fnf := by
  intro names
  induction names with
  | nil => intro st acc; simp [scanLoop]
  | cons nm rest ih =>
    intro st acc
    obtain ⟨g1, g2, g3⟩ := getter_sound w hm st (srcOf srcs nm)
    unfold scanLoop
    simp only []
    cases hg : (getter Probe.fresh w st (srcOf srcs nm)).2 with
    | val =>
      simp only []
      obtain ⟨i1, i2, i3⟩ := ih (getter Probe.fresh w st (srcOf srcs nm)).1 (acc ++ [(nm, false)])
      refine ⟨by omega, ?_, i3⟩
      intro h
      obtain ⟨i, a, b, c⟩ := i2 h
      exact ⟨i, by omega, b, c⟩
    | ad =>
      simp only []
      obtain ⟨i1, i2, i3⟩ := ih (getter Probe.fresh w st (srcOf srcs nm)).1 (acc ++ [(nm, true)])
      refine ⟨by omega, ?_, i3⟩
      intro h
      obtain ⟨i, a, b, c⟩ := i2 h
      exact ⟨i, by omega, b, c⟩
    | zombie =>
      simp only []
      obtain ⟨i1, i2, i3⟩ := ih (getter Probe.fresh w st (srcOf srcs nm)).1 (acc ++ [(nm, true)])
      refine ⟨by omega, ?_, i3⟩
      intro h
      obtain ⟨i, a, b, c⟩ := i2 h
      exact ⟨i, by omega, b, c⟩
    | nsp =>
      simp only []
      exact ⟨g1, fun _ => g2 hg, by simp⟩
    | fnf => exact absurd hg g3

theorem scanLoop_keys (p : Probe) (srcs : List (String × Src)) (w : ScanWorld) :
    ∀ (names : List String) (st : ScanSt) (acc items : List (String × Bool)),
      (scanLoop p srcs w st names acc).2 = .dict items → items.map (·.1) = acc.map (·.1) ++ names := by
  intro names
  induction names with
  | nil =>
    intro st acc items h
    simp [scanLoop] at h
    simp [h]
  | cons nm rest ih =>
    intro st acc items h
    unfold scanLoop at h
    simp only [] at h
    cases hg : (getter p w st (srcOf srcs nm)).2 with
    | val => rw [hg] at h; simp only [] at h; rw [ih _ _ _ h]; simp
    | ad => rw [hg] at h; simp only [] at h; rw [ih _ _ _ h]; simp
    | zombie => rw [hg] at h; simp only [] at h; rw [ih _ _ _ h]; simp
    | nsp => rw [hg] at h; simp at h
    | fnf => rw [hg] at h; simp at h

/-- `as_dict` started at state `st` (any cache, any instant): the three clauses at once -/
theorem scan_visit_ok (srcs : List (String × Src)) (w : ScanWorld) (hm : OneWay w.life)
    (names : List String) (st : ScanSt) :
    VisitOk w.life (scanLoop .fresh srcs w st names []).1.i names (scanLoop .fresh srcs w st names []).2.visit := by
  obtain ⟨_, h2, h3⟩ := scanLoop_sound srcs w hm names st []
  cases hr : (scanLoop .fresh srcs w st names []).2 with
  | dict items =>
    have := scanLoop_keys .fresh srcs w names st [] items hr
    simpa [ScanOut.visit, VisitOk] using this
  | nsp =>
    obtain ⟨i, _, b, c⟩ := h2 hr
    exact ⟨i, b, c⟩
  | fnf => exact absurd hr h3

/-! ## a process that does not change during the visit: the one-step abstraction of `Model/C04.lean` -/

def steady (l : Life) (zres : String → Rd) (gesrch : Nat → Bool) (deny aempty : String → Bool) : ScanWorld :=
  ⟨fun _ => l, zres, gesrch, deny, aempty⟩

theorem steady_oneWay (l : Life) (zres : String → Rd) (gesrch : Nat → Bool) (deny aempty : String → Bool) :
    OneWay (steady l zres gesrch deny aempty).life := by
  intro i j _; exact Nat.le_refl _

/-- a getter that looks at the process -/
def Src.looks : Src → Bool
  | .obj => false
  | .other => false
  | _ => true

theorem classify_gone (p : Probe) (w : ScanWorld) (hg : ∀ i, w.life i = .gone) (st : ScanSt) (hc : st.cache = [])
    (r : Rd) (hr : r = .esrch ∨ r = .enoent) : (classify p w st r).2 = .nsp := by
  have hacc : ∀ i f, w.access i f ≠ .ok := by
    intro i f; unfold ScanWorld.access; rw [hg i]; by_cases h : w.gesrch i = true <;> simp [h]
  have hz : (isZombie p w st).2 = false := by
    cases p with
    | fresh =>
      show (w.access st.i statFile == Rd.ok && w.life st.i == Life.zombie) = false
      rw [hg]; simp
    | memo =>
      unfold isZombie
      simp only [hc, cacheGet]
      have := hacc st.i statFile
      simp [this]
  rcases hr with h | h <;> subst h
  · simp [classify, hz]
  · simp [classify, hz, hg]

theorem getter_gone (p : Probe) (w : ScanWorld) (hg : ∀ i, w.life i = .gone) (st : ScanSt) (hc : st.cache = [])
    (s : Src) (hs : s.looks = true) : (getter p w st s).2 = .nsp := by
  have herr : ∀ i f, w.access i f = .esrch ∨ w.access i f = .enoent := by
    intro i f; unfold ScanWorld.access; rw [hg i]; by_cases h : w.gesrch i = true <;> simp [h]
  have hne : ∀ i f, (w.access i f == Rd.ok || w.access i f == Rd.empty) = false := by
    intro i f; rcases herr i f with h | h <;> simp [h]
  cases s with
  | obj => simp [Src.looks] at hs
  | other => simp [Src.looks] at hs
  | memo f =>
    unfold getter
    simp only [hc, cacheGet, hne]
    exact classify_gone p w hg _ (by simp [ScanSt.tick, hc]) _ (herr _ _)
  | read f =>
    unfold getter
    exact classify_gone p w hg _ (by simp [ScanSt.tick, hc]) _ (herr _ _)
  | readProbe f =>
    unfold getter
    have : (w.access st.i f == Rd.empty) = false := by rcases herr st.i f with h | h <;> simp [h]
    simp only [this]
    exact classify_gone p w hg _ (by simp [ScanSt.tick, hc]) _ (herr _ _)
  | link f =>
    unfold getter
    have : (w.access st.i f == Rd.esrch || w.access st.i f == Rd.enoent) = true := by
      rcases herr st.i f with h | h <;> simp [h]
    simp only [this, hg]
    exact classify_gone p w hg _ (by simp [ScanSt.tick, hc]) _ (herr _ _)

theorem scanLoop_gone (p : Probe) (srcs : List (String × Src)) (w : ScanWorld) (hg : ∀ i, w.life i = .gone) :
    ∀ (names : List String) (st : ScanSt) (acc : List (String × Bool)), st.cache = [] →
      (scanLoop p srcs w st names acc).2 =
        if names.any (fun nm => (srcOf srcs nm).looks) then .nsp else .dict (acc ++ names.map fun nm => (nm, false)) := by
  intro names
  induction names with
  | nil => intro st acc _; simp [scanLoop]
  | cons nm rest ih =>
    intro st acc hc
    unfold scanLoop
    simp only []
    by_cases hl : (srcOf srcs nm).looks = true
    · rw [getter_gone p w hg st hc _ hl]
      simp [hl]
    · have hl' : (srcOf srcs nm).looks = false := by simpa using hl
      have hget : getter p w st (srcOf srcs nm) = (st, .val) := by
        cases hs : srcOf srcs nm <;> simp [hs, Src.looks] at hl' <;> simp [getter]
      rw [hget]
      simp only []
      rw [ih st _ hc]
      simp [hl']

end Psutil.C04
