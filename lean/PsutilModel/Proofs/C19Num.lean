/-
  Proofs/C19Num.lean — round 2: blanks/newlines around a number, negative figures, the
  battery-selection rule.
-/
import PsutilModel.Proofs.C19
import PsutilModel.Proofs.C19Battery
import Mathlib.Tactic.Linarith
namespace Psutil.C19
open Spec

/-! ### blanks around the content of a file -/

def AllWs (t : Bytes) : Prop := ∀ c ∈ t, isWs c = true

theorem lstripWs_allWs (t : Bytes) (h : AllWs t) : lstripWs t = [] := by
  induction t with
  | nil => rfl
  | cons c cs ih =>
    have hc : isWs c = true := h c (by simp)
    simp only [lstripWs, hc, if_true]
    exact ih (fun x hx => h x (by simp [hx]))

theorem lstripWs_append_ws (pre t : Bytes) (h : AllWs pre) : lstripWs (pre ++ t) = lstripWs t := by
  induction pre with
  | nil => rfl
  | cons c cs ih =>
    have hc : isWs c = true := h c (by simp)
    simp only [List.cons_append, lstripWs, hc, if_true]
    exact ih (fun x hx => h x (by simp [hx]))

/-- `lstrip` of `s ++ post` with blank `post`: the blanks survive only behind a non-blank -/
theorem lstripWs_append_post (s post : Bytes) (h : AllWs post) :
    lstripWs (s ++ post) = if lstripWs s = [] then [] else lstripWs s ++ post := by
  induction s with
  | nil => simp [lstripWs, lstripWs_allWs post h]
  | cons c cs ih =>
    by_cases hc : isWs c = true
    · simp only [List.cons_append, lstripWs, hc, if_true]
      exact ih
    · simp [lstripWs, hc]

theorem rstripWs_append_ws (t post : Bytes) (h : AllWs post) : rstripWs (t ++ post) = rstripWs t := by
  unfold rstripWs
  rw [List.reverse_append, lstripWs_append_ws _ _ (fun c hc => h c (by simpa using hc))]

/-- **`strip()` does not see blanks/newlines around the content** -/
theorem stripWs_pad (pre s post : Bytes) (h1 : AllWs pre) (h2 : AllWs post) :
    stripWs (pre ++ s ++ post) = stripWs s := by
  unfold stripWs
  rw [List.append_assoc, lstripWs_append_ws _ _ h1, lstripWs_append_post s post h2]
  split
  · rename_i he; rw [he]
  · exact rstripWs_append_ws _ _ h2

theorem pyInt_pad (pre s post : Bytes) (h1 : AllWs pre) (h2 : AllWs post) :
    pyInt? (pre ++ s ++ post) = pyInt? s := by
  unfold pyInt?; rw [stripWs_pad pre s post h1 h2]

theorem pyFloat_pad (pre s post : Bytes) (h1 : AllWs pre) (h2 : AllWs post) :
    pyFloat? (pre ++ s ++ post) = pyFloat? s := by
  unfold pyFloat?; rw [stripWs_pad pre s post h1 h2]

/-- `pad pre post f`: the same file with blanks/newlines before and after its content -/
def pad (pre post : Bytes) : FileState → FileState
  | .content b => .content (pre ++ b ++ post)
  | f => f

theorem multiBcat_pad (pre post : Bytes) (h1 : AllWs pre) (h2 : AllWs post) (fs : List FileState) :
    multiBcat (fs.map (pad pre post)) = multiBcat fs := by
  induction fs with
  | nil => rfl
  | cons f fs ih =>
    cases f with
    | absent => simpa [multiBcat, pad, FileState.readOpt] using ih
    | unreadable => simpa [multiBcat, pad, FileState.readOpt] using ih
    | content b =>
      simp only [List.map_cons, multiBcat, pad, FileState.readOpt, pyInt_pad pre b post h1 h2,
        stripWs_pad pre b post h1 h2]

theorem fileInt_pad (pre post : Bytes) (h1 : AllWs pre) (h2 : AllWs post) (f : FileState) :
    fileInt (pad pre post f) = fileInt f := by
  cases f with
  | content b => simp only [fileInt, pad, FileState.readOpt, Option.map_some, pyInt_pad pre b post h1 h2]
  | _ => rfl

theorem fileNum_pad (pre post : Bytes) (h1 : AllWs pre) (h2 : AllWs post) (f : FileState) :
    fileNum (pad pre post f) = fileNum f := by
  cases f with
  | content b => simp only [fileNum, pad, FileState.readOpt, Option.bind_some, pyFloat_pad pre b post h1 h2]
  | _ => rfl

theorem fileText_pad (pre post : Bytes) (h1 : AllWs pre) (h2 : AllWs post) (f : FileState) :
    fileText (pad pre post f) = fileText f := by
  cases f with
  | content b => simp only [fileText, pad, FileState.readOpt, Option.getD_some, stripWs_pad pre b post h1 h2]
  | _ => rfl

/-! ### negative figures -/

theorem floor_nonneg' (q : Rat) (h : 0 ≤ q) : 0 ≤ q.floor := by
  rw [Rat.le_floor_iff]; exact_mod_cast h

theorem truncRat_nonpos (q : Rat) (h : q ≤ 0) : truncRat q ≤ 0 := by
  unfold truncRat
  split
  · rename_i h0
    have : q = 0 := le_antisymm h h0
    subst this
    have : ((0 : Int) : Rat).floor = 0 := Rat.floor_intCast 0
    simpa using this.le
  · rename_i h0
    have hq : 0 ≤ -q := by linarith
    have := floor_nonneg' (-q) hq
    omega

theorem truncRat_nonneg (q : Rat) (h : 0 ≤ q) : 0 ≤ truncRat q := by
  unfold truncRat
  simp only [h, if_true]
  exact floor_nonneg' q h

/-! ### the battery-selection rule -/

/-- some supply carries a battery name ⇒ there IS a first battery (the order is total) -/
theorem firstBattery_exists (ss : List Supply) (h : ∃ s ∈ ss, isBatteryName s.name = true) :
    ∃ b, firstBattery ss = some b := by
  obtain ⟨s, hs, hn⟩ := h
  unfold firstBattery
  simp only
  have hmem : s ∈ ss.filter (fun s => isBatteryName s.name) := List.mem_filter.mpr ⟨hs, hn⟩
  cases hl : ss.filter (fun s => isBatteryName s.name) with
  | nil => rw [hl] at hmem; cases hmem
  | cons b bs =>
    -- the supply named `lexMin` satisfies the predicate
    have hm := lexMin_mem b.name (bs.map (·.name))
    have hle := lexMin_le b.name (bs.map (·.name))
    have : ∃ m ∈ b :: bs, m.name = lexMin b.name (bs.map (·.name)) := by
      rw [← List.map_cons (f := fun (x : Supply) => x.name), List.mem_map] at hm
      obtain ⟨m, hm1, hm2⟩ := hm
      exact ⟨m, hm1, hm2⟩
    obtain ⟨m, hm1, hm2⟩ := this
    have hp : (b :: bs).all (fun b' => lexLe m.name b'.name) = true := by
      rw [List.all_eq_true]
      intro x hx
      rw [hm2]
      exact hle x.name (by rw [← List.map_cons (f := fun (x : Supply) => x.name)]; exact List.mem_map_of_mem hx)
    generalize hL : b :: bs = L at hm1 hp
    cases hf : L.find? (fun x => L.all fun b' => lexLe x.name b'.name) with
    | some r => exact ⟨r, rfl⟩
    | none =>
      rw [List.find?_eq_none] at hf
      exact absurd hp (hf m hm1)

end Psutil.C19
