/-
  Proofs/C10Lock.lean — the sampling lock as an object (Model/C10Lock.lean):
  * `InvX`: a thread inside a sampling section holds that section's lock object (any policy);
  * `InvO` (policy `static (fun _ => l0)`): every lock object in any thread's hand is `l0`, and the
    ghost `outer` only ever names a thread that is between its platform call and the return of
    `wrap_numbers`;
  * hence the ghost is `none` whenever a thread samples, and the embedded `Sys` of every reachable
    state is reachable in `Model/C10Conc` with `sampleUnderLock = true` (`Reach`).
-/
import PsutilModel.Proofs.C10Sample
import PsutilModel.Model.C10Lock
namespace Psutil.C10

theorem setL_same (f : Nat → LPC) (t : Nat) (v : LPC) : setL f t v t = v := by simp [setL]
theorem setL_other (f : Nat → LPC) (t u : Nat) (v : LPC) (h : u ≠ t) : setL f t v u = f u := by
  simp [setL, h]
theorem setH_same (f : Nat → Option Nat) (l : Nat) (v : Option Nat) : setH f l v l = v := by simp [setH]
theorem setH_other (f : Nat → Option Nat) (l k : Nat) (v : Option Nat) (h : k ≠ l) : setH f l v k = f k := by
  simp [setH, h]

/-- a thread inside a sampling section holds that section's lock object -/
def InvX (s : LSys) : Prop := ∀ t l, secLock (s.lpc t) = some l → s.holder l = some t

theorem invX_init : InvX LSys.init := by intro t l h; simp [LSys.init, secLock] at h

/-- `plainInner` touches neither the lock objects nor the threads' positions in the section -/
theorem plainInner_frame (c : Cfg) (s s' : LSys) (a : Act) (h : plainInner c s a = some s') :
    s'.lpc = s.lpc ∧ s'.holder = s.holder ∧ s'.table = s.table ∧ stepC c.inside s.sys a = some s'.sys := by
  unfold plainInner at h
  split at h
  · rename_i sys' hs
    simp only [Option.some.injEq] at h; subst h
    exact ⟨rfl, rfl, rfl, hs⟩
  · cases h

theorem secLock_afterWrap (p : LPC) : secLock (afterWrap p) = secLock p := by
  cases p <;> rfl

theorem stepL_invX (c : Cfg) (pol : LockPolicy) (s s' : LSys) (a : LAct) (hi : InvX s)
    (h : stepL c pol s a = some s') : InvX s' := by
  -- every case: the acting thread `t` gets a new `lpc`, the others keep theirs
  have other : ∀ (t : Nat) (v : LPC) (hold : Nat → Option Nat), (∀ l, secLock v = some l → hold l = some t) →
      (∀ u l, u ≠ t → secLock (s.lpc u) = some l → hold l = some u) →
      ∀ u l, secLock (setL s.lpc t v u) = some l → hold l = some u := by
    intro t v hold ht ho u l hu
    by_cases e : u = t
    · subst e; rw [setL_same] at hu; exact ht l hu
    · rw [setL_other _ _ _ _ e] at hu; exact ho u l e hu
  cases a with
  | lookup t n =>
    simp only [stepL] at h
    split at h
    · cases pol with
      | static lockOf =>
        simp only [Option.some.injEq] at h; subst h
        exact other t _ s.holder (by intro l hl; simp [secLock] at hl) (fun u l _ hu => hi u l hu)
      | lazy =>
        simp only at h
        split at h <;> (simp only [Option.some.injEq] at h; subst h)
        · exact other t _ s.holder (by intro l hl; simp [secLock] at hl) (fun u l _ hu => hi u l hu)
        · exact other t _ s.holder (by intro l hl; simp [secLock] at hl) (fun u l _ hu => hi u l hu)
    · cases h
  | create t =>
    simp only [stepL] at h
    split at h
    · simp only [Option.some.injEq] at h; subst h
      exact other t _ s.holder (by intro l hl; simp [secLock] at hl) (fun u l _ hu => hi u l hu)
    · cases h
  | enter t =>
    simp only [stepL] at h
    split at h
    · rename_i n l hp
      split at h
      · rename_i hh
        simp only [Option.some.injEq] at h; subst h
        refine other t _ _ ?_ ?_
        · intro l' hl'
          simp only [secLock, Option.some.injEq] at hl'; subst hl'
          exact setH_same _ _ _
        · intro u l' hne hu
          have := hi u l' hu
          by_cases e : l' = l
          · subst e; rw [hh] at this; cases this
          · show setH s.holder l (some t) l' = some u
            rw [setH_other _ _ _ _ e]; exact this
      · cases h
    · cases h
  | sample t raw =>
    simp only [stepL] at h
    split at h
    · rename_i n l hp
      split at h
      · simp only [Option.some.injEq] at h; subst h
        refine other t _ s.holder ?_ (fun u l _ hu => hi u l hu)
        intro l' hl'
        simp only [secLock, Option.some.injEq] at hl'; subst hl'
        exact hi t l (by rw [hp]; rfl)
      · cases h
    · cases h
  | leave t =>
    simp only [stepL] at h
    split at h
    · rename_i n l hp
      simp only [Option.some.injEq] at h; subst h
      refine other t _ _ (by intro l' hl'; simp [secLock] at hl') ?_
      intro u l' hne hu
      have hu' := hi u l' hu
      by_cases e : l' = l
      · subst e
        have ht := hi t l' (by rw [hp]; rfl)
        rw [ht] at hu'; simp only [Option.some.injEq] at hu'; exact absurd hu'.symm hne
      · show setH s.holder l none l' = some u
        rw [setH_other _ _ _ _ e]; exact hu'
    · cases h
  | inner a =>
    cases a with
    | sample t n raw => simp [stepL] at h
    | wantClear t n =>
      simp only [stepL] at h
      split at h
      · obtain ⟨h1, h2, _, _⟩ := plainInner_frame c s s' _ h
        intro u l hu; rw [h1] at hu; rw [h2]; exact hi u l hu
      · cases h
    | acquire t =>
      simp only [stepL] at h
      obtain ⟨h1, h2, _, _⟩ := plainInner_frame c s s' _ h
      intro u l hu; rw [h1] at hu; rw [h2]; exact hi u l hu
    | load t =>
      simp only [stepL] at h
      obtain ⟨h1, h2, _, _⟩ := plainInner_frame c s s' _ h
      intro u l hu; rw [h1] at hu; rw [h2]; exact hi u l hu
    | store t =>
      simp only [stepL] at h
      obtain ⟨h1, h2, _, _⟩ := plainInner_frame c s s' _ h
      intro u l hu; rw [h1] at hu; rw [h2]; exact hi u l hu
    | release t =>
      simp only [stepL] at h
      split at h
      · rename_i s1 hs1
        obtain ⟨h1, h2, _, _⟩ := plainInner_frame c s s1 _ hs1
        simp only [Option.some.injEq] at h; subst h
        simp only [h2]
        refine other t _ s.holder ?_ (fun u l _ hu => hi u l hu)
        intro l hl; rw [secLock_afterWrap] at hl; exact hi t l hl
      · cases h

/-! ### one shared, statically created lock object -/

/-- the lock object a thread has in hand (acquired or not) -/
def lockIn : LPC → Option Nat
  | .got _ l => some l
  | .crit _ l => some l
  | .fed _ l => some l
  | .done _ l => some l
  | _ => none

def isFed : LPC → Bool
  | .fed _ _ => true
  | _ => false

structure InvO (l0 : Nat) (s : LSys) : Prop where
  one : ∀ t l, lockIn (s.lpc t) = some l → l = l0
  ghost : ∀ u, s.sys.outer = some u → isFed (s.lpc u) = true
  /-- a lookup never misses: the object exists before any call -/
  nomiss : ∀ t n, s.lpc t ≠ .missed n

theorem invO_init (l0 : Nat) : InvO l0 LSys.init :=
  ⟨by intro t l h; simp [LSys.init, lockIn] at h, by intro u h; simp [LSys.init, Sys.init] at h,
   by intro t n h; simp [LSys.init] at h⟩

theorem secLock_lockIn (p : LPC) (l : Nat) (h : secLock p = some l) : lockIn p = some l := by
  cases p <;> simp_all [secLock, lockIn]

/-- what an action of `Model/C10Conc` other than `sample` does to the ghost -/
theorem stepC_outer (c : Cfg) (s s' : Sys) (a : Act) (h : stepC c s a = some s') :
    match a with
    | .sample _ _ _ => True
    | .release t => s'.outer = relOuter s t
    | _ => s'.outer = s.outer := by
  cases a with
  | sample t n raw => trivial
  | wantClear t n =>
    simp only [stepC] at h
    split at h
    · simp only [Option.some.injEq] at h; subst h; rfl
    · cases h
  | acquire t =>
    simp only [stepC] at h
    split at h
    · split at h
      · simp only [Option.some.injEq] at h; subst h; rfl
      · cases h
    · cases h
  | load t =>
    simp only [stepC] at h
    split at h
    · simp only [Option.some.injEq] at h; subst h; rfl
    · split at h
      · cases h
      · simp only [Option.some.injEq] at h; subst h; rfl
    · cases h
  | store t =>
    simp only [stepC] at h
    split at h
    · simp only [Option.some.injEq] at h; subst h; rfl
    · cases h
  | release t =>
    simp only [stepC] at h
    split at h
    · simp only [Option.some.injEq] at h; subst h; rfl
    · simp only [Option.some.injEq] at h; subst h; rfl
    · cases h

/-- with one static lock object, nobody is between platform call and `wrap_numbers`' return when a
    thread that holds the lock is about to sample -/
theorem outer_none_at_crit (l0 : Nat) (s : LSys) (hx : InvX s) (ho : InvO l0 s) (t : Nat) (n : Name) (l : Nat)
    (hp : s.lpc t = .crit n l) : s.sys.outer = none := by
  cases hout : s.sys.outer with
  | none => rfl
  | some u =>
    exfalso
    have hf := ho.ghost u hout
    have hl : l = l0 := ho.one t l (by rw [hp]; rfl)
    have ht : s.holder l = some t := hx t l (by rw [hp]; rfl)
    cases hpu : s.lpc u with
    | fed n' l' =>
      have hl' : l' = l0 := ho.one u l' (by rw [hpu]; rfl)
      have hu : s.holder l' = some u := hx u l' (by rw [hpu]; rfl)
      rw [hl', ← hl, ht] at hu
      simp only [Option.some.injEq] at hu
      subst hu
      rw [hp] at hpu; cases hpu
    | out => rw [hpu] at hf; cases hf
    | missed _ => rw [hpu] at hf; cases hf
    | got _ _ => rw [hpu] at hf; cases hf
    | crit _ _ => rw [hpu] at hf; cases hf
    | done _ _ => rw [hpu] at hf; cases hf

/-- unguarded sampling = sampling under the lock of `Model/C10Conc` when the ghost is `none` -/
theorem sampleFree_eq (c : Cfg) (s : Sys) (t : Nat) (n : Name) (raw : Raw) (h : s.outer = none) :
    sampleFree s t n raw = stepC c.inside s (.sample t n raw) := by
  unfold sampleFree
  simp only [stepC, Cfg.inside, h, Option.isSome_none, Bool.and_false, Bool.false_eq_true, if_false, if_true]
  cases s.pc t <;> rfl

theorem stepL_invO (c : Cfg) (l0 : Nat) (s s' : LSys) (a : LAct) (hx : InvX s) (hi : InvO l0 s)
    (h : stepL c (.static fun _ => l0) s a = some s') : InvO l0 s' := by
  have one' : ∀ (t : Nat) (v : LPC), (∀ l, lockIn v = some l → l = l0) →
      ∀ u l, lockIn (setL s.lpc t v u) = some l → l = l0 := by
    intro t v hv u l hu
    by_cases e : u = t
    · subst e; rw [setL_same] at hu; exact hv l hu
    · rw [setL_other _ _ _ _ e] at hu; exact hi.one u l hu
  -- the ghost is unchanged and the acting thread was not `fed` before
  have ghost' : ∀ (t : Nat) (v : LPC), isFed (s.lpc t) = false →
      ∀ u, s.sys.outer = some u → isFed (setL s.lpc t v u) = true := by
    intro t v hnf u hu
    have := hi.ghost u hu
    by_cases e : u = t
    · subst e; rw [hnf] at this; cases this
    · rw [setL_other _ _ _ _ e]; exact this
  have nm' : ∀ (t : Nat) (v : LPC), (∀ n, v ≠ .missed n) → ∀ u n, setL s.lpc t v u ≠ .missed n := by
    intro t v hv u n
    by_cases e : u = t
    · subst e; rw [setL_same]; exact hv n
    · rw [setL_other _ _ _ _ e]; exact hi.nomiss u n
  cases a with
  | lookup t n =>
    simp only [stepL] at h
    split at h
    · rename_i hp _
      simp only [Option.some.injEq] at h; subst h
      exact ⟨one' t _ (by intro l hl; simp only [lockIn, Option.some.injEq] at hl; exact hl.symm),
             ghost' t _ (by rw [hp]; rfl), nm' t _ (by intro n hn; cases hn)⟩
    · cases h
  | create t =>
    simp only [stepL] at h
    split at h
    · rename_i n hp
      -- never enabled under the static policy: no thread has missed a lookup
      exact absurd hp (hi.nomiss t n)
    · cases h
  | enter t =>
    simp only [stepL] at h
    split at h
    · rename_i n l hp
      split at h
      · simp only [Option.some.injEq] at h; subst h
        exact ⟨one' t _ (by intro l' hl'; simp only [lockIn, Option.some.injEq] at hl'; subst hl'
                            exact hi.one t l (by rw [hp]; rfl)),
               ghost' t _ (by rw [hp]; rfl), nm' t _ (by intro n hn; cases hn)⟩
      · cases h
    · cases h
  | sample t raw =>
    simp only [stepL] at h
    split at h
    · rename_i n l hp
      split at h
      · rename_i sys' hs
        simp only [Option.some.injEq] at h; subst h
        refine ⟨one' t _ (by intro l' hl'; simp only [lockIn, Option.some.injEq] at hl'; subst hl'
                             exact hi.one t l (by rw [hp]; rfl)), ?_, nm' t _ (by intro n hn; cases hn)⟩
        intro u hu
        simp only [sampleFree] at hs
        split at hs
        · simp only [Option.some.injEq] at hs; subst hs
          simp only [Option.some.injEq] at hu; subst hu
          show isFed (setL s.lpc _ (LPC.fed n l) _) = true
          rw [setL_same]; rfl
        · cases hs
      · cases h
    · cases h
  | leave t =>
    simp only [stepL] at h
    split at h
    · rename_i n l hp
      simp only [Option.some.injEq] at h; subst h
      exact ⟨one' t _ (by intro l' hl'; simp [lockIn] at hl'), ghost' t _ (by rw [hp]; rfl),
             nm' t _ (by intro n hn; cases hn)⟩
    · cases h
  | inner a =>
    cases a with
    | sample t n raw => simp [stepL] at h
    | wantClear t n =>
      simp only [stepL] at h
      split at h
      · obtain ⟨h1, _, _, h4⟩ := plainInner_frame c s s' _ h
        have := stepC_outer _ _ _ _ h4
        simp only at this
        exact ⟨by rw [h1]; exact hi.one, by rw [h1, this]; exact hi.ghost, by rw [h1]; exact hi.nomiss⟩
      · cases h
    | acquire t =>
      simp only [stepL] at h
      obtain ⟨h1, _, _, h4⟩ := plainInner_frame c s s' _ h
      have := stepC_outer _ _ _ _ h4
      simp only at this
      exact ⟨by rw [h1]; exact hi.one, by rw [h1, this]; exact hi.ghost, by rw [h1]; exact hi.nomiss⟩
    | load t =>
      simp only [stepL] at h
      obtain ⟨h1, _, _, h4⟩ := plainInner_frame c s s' _ h
      have := stepC_outer _ _ _ _ h4
      simp only at this
      exact ⟨by rw [h1]; exact hi.one, by rw [h1, this]; exact hi.ghost, by rw [h1]; exact hi.nomiss⟩
    | store t =>
      simp only [stepL] at h
      obtain ⟨h1, _, _, h4⟩ := plainInner_frame c s s' _ h
      have := stepC_outer _ _ _ _ h4
      simp only at this
      exact ⟨by rw [h1]; exact hi.one, by rw [h1, this]; exact hi.ghost, by rw [h1]; exact hi.nomiss⟩
    | release t =>
      simp only [stepL] at h
      split at h
      · rename_i s1 hs1
        obtain ⟨h1, _, _, h4⟩ := plainInner_frame c s s1 _ hs1
        have hout := stepC_outer _ _ _ _ h4
        simp only at hout
        simp only [Option.some.injEq] at h; subst h
        refine ⟨one' t _ ?_, ?_, nm' t _ ?_⟩
        rotate_left 2
        · intro n hn
          have := hi.nomiss t
          cases hp : s.lpc t <;> simp_all [afterWrap]
        · intro l hl
          have : lockIn (s.lpc t) = some l := by
            cases hp : s.lpc t <;> simp_all [afterWrap, lockIn]
          exact hi.one t l this
        · intro u hu
          simp only [hout, relOuter] at hu
          by_cases e : s.sys.outer = some t
          · simp [e] at hu
          · simp only [e, if_false] at hu
            have hne : u ≠ t := by intro e'; subst e'; exact e hu
            show isFed (setL s.lpc t (afterWrap (s.lpc t)) u) = true
            rw [setL_other _ _ _ _ hne]; exact hi.ghost u hu
      · cases h

/-! ### every run with one static lock object is a run of `Model/C10Conc` with the sample under the lock -/

/-- reachable in `Model/C10Conc` with `sampleUnderLock = true` -/
def Reach (c : Cfg) (s : Sys) : Prop := ∃ b, runC c.inside Sys.init b = some s

theorem runC_snoc (c : Cfg) (b : List Act) (a : Act) : ∀ s : Sys,
    runC c s (b ++ [a]) = (runC c s b).bind fun s' => stepC c s' a := by
  induction b with
  | nil =>
    intro s
    simp only [List.nil_append, runC, Option.bind_some]
    cases stepC c s a <;> rfl
  | cons x xs ih =>
    intro s
    simp only [List.cons_append, runC]
    cases stepC c s x with
    | none => rfl
    | some s1 => exact ih s1

theorem reach_step (c : Cfg) (s s' : Sys) (a : Act) (hr : Reach c s) (h : stepC c.inside s a = some s') :
    Reach c s' := by
  obtain ⟨b, hb⟩ := hr
  exact ⟨b ++ [a], by rw [runC_snoc, hb]; exact h⟩

theorem stepL_reach (c : Cfg) (l0 : Nat) (s s' : LSys) (a : LAct) (hx : InvX s) (ho : InvO l0 s)
    (hr : Reach c s.sys) (h : stepL c (.static fun _ => l0) s a = some s') : Reach c s'.sys := by
  cases a with
  | lookup t n =>
    simp only [stepL] at h
    split at h
    · simp only [Option.some.injEq] at h; subst h; exact hr
    · cases h
  | create t =>
    simp only [stepL] at h
    split at h
    · simp only [Option.some.injEq] at h; subst h; exact hr
    · cases h
  | enter t =>
    simp only [stepL] at h
    split at h
    · split at h
      · simp only [Option.some.injEq] at h; subst h; exact hr
      · cases h
    · cases h
  | sample t raw =>
    simp only [stepL] at h
    split at h
    · rename_i n l hp
      split at h
      · rename_i sys' hs
        simp only [Option.some.injEq] at h; subst h
        rw [sampleFree_eq c s.sys t n raw (outer_none_at_crit l0 s hx ho t n l hp)] at hs
        exact reach_step c s.sys sys' _ hr hs
      · cases h
    · cases h
  | leave t =>
    simp only [stepL] at h
    split at h
    · simp only [Option.some.injEq] at h; subst h; exact hr
    · cases h
  | inner a =>
    cases a with
    | sample t n raw => simp [stepL] at h
    | wantClear t n =>
      simp only [stepL] at h
      split at h
      · exact reach_step c _ _ _ hr (plainInner_frame c s s' _ h).2.2.2
      · cases h
    | acquire t =>
      simp only [stepL] at h
      exact reach_step c _ _ _ hr (plainInner_frame c s s' _ h).2.2.2
    | load t =>
      simp only [stepL] at h
      exact reach_step c _ _ _ hr (plainInner_frame c s s' _ h).2.2.2
    | store t =>
      simp only [stepL] at h
      exact reach_step c _ _ _ hr (plainInner_frame c s s' _ h).2.2.2
    | release t =>
      simp only [stepL] at h
      split at h
      · rename_i s1 hs1
        simp only [Option.some.injEq] at h; subst h
        exact reach_step c _ _ _ hr (plainInner_frame c s s1 _ hs1).2.2.2
      · cases h

theorem runL_invX (c : Cfg) (pol : LockPolicy) (acts : List LAct) : ∀ s s' : LSys, InvX s →
    runL c pol s acts = some s' → InvX s' := by
  induction acts with
  | nil => intro s s' hi h; simp only [runL, Option.some.injEq] at h; exact h ▸ hi
  | cons a as ih =>
    intro s s' hi h
    simp only [runL] at h
    split at h
    · cases h
    · rename_i s1 h1
      exact ih s1 s' (stepL_invX c pol s s1 a hi h1) h

theorem runL_static (c : Cfg) (l0 : Nat) (acts : List LAct) : ∀ s s' : LSys, InvX s → InvO l0 s → Reach c s.sys →
    runL c (.static fun _ => l0) s acts = some s' → InvX s' ∧ InvO l0 s' ∧ Reach c s'.sys := by
  induction acts with
  | nil => intro s s' hx ho hr h; simp only [runL, Option.some.injEq] at h; exact h ▸ ⟨hx, ho, hr⟩
  | cons a as ih =>
    intro s s' hx ho hr h
    simp only [runL] at h
    split at h
    · cases h
    · rename_i s1 h1
      exact ih s1 s' (stepL_invX c _ s s1 a hx h1) (stepL_invO c l0 s s1 a hx ho h1)
        (stepL_reach c l0 s s1 a hx ho hr h1) h

theorem reach_init (c : Cfg) : Reach c LSys.init.sys := ⟨[], rfl⟩

end Psutil.C10
