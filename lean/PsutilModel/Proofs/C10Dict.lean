/-
  Proofs/C10Dict.lean — the concrete-dict model (Model/C10Dict.lean) refines the model of
  Model/C10.lean; invariant: `reminder_keys` = support of `reminders`.
-/
import PsutilModel.Proofs.C10
import PsutilModel.Model.C10Dict
namespace Psutil.C10

section dict
variable {α β : Type} [BEq α] [LawfulBEq α]

theorem lookup_dset (d : List (α × β)) (k k' : α) (v : β) :
    (dset d k v).lookup k' = if k' == k then some v else d.lookup k' := by
  induction d with
  | nil => simp [dset, List.lookup]; split <;> simp_all
  | cons e es ih =>
    obtain ⟨a, b⟩ := e
    simp only [dset]
    by_cases h : k == a
    · have hk : k = a := eq_of_beq h
      subst hk
      simp only [h, if_true, List.lookup]
      by_cases h2 : k' == k <;> simp [h2]
    · simp only [h, Bool.false_eq_true, if_false, List.lookup]
      by_cases h2 : k' == a
      · have hk : k' = a := eq_of_beq h2
        subst hk
        have : (k' == k) = false := by
          cases h3 : k' == k
          · rfl
          · have := eq_of_beq h3; subst this; simp at h
        simp [this]
      · simp only [h2, ih]

theorem lookup_ddel (d : List (α × β)) (k k' : α) :
    (ddel d k).lookup k' = if k' == k then none else d.lookup k' := by
  induction d with
  | nil => simp [ddel]
  | cons e es ih =>
    obtain ⟨a, b⟩ := e
    unfold ddel at ih ⊢
    simp only [List.filter_cons]
    by_cases h : k == a
    · have hk : k = a := eq_of_beq h
      subst hk
      simp only [h, Bool.not_true, Bool.false_eq_true, if_false, ih, List.lookup]
      by_cases h2 : k' == k <;> simp [h2]
    · simp only [h, Bool.not_false, if_true, List.lookup, ih]
      by_cases h2 : k' == a
      · have hk : k' = a := eq_of_beq h2
        subst hk
        have : (k' == k) = false := by
          cases h3 : k' == k
          · rfl
          · have := eq_of_beq h3; subst this; simp at h
        simp [this]
      · simp only [h2]

end dict


/-! ### `reminders` read as a function, `reminder_keys` read as a relation -/

theorem remGet_dset (d : RemD) (p q : RemKey) (v : Nat) :
    remGet (dset d p v) q = if q = p then v else remGet d q := by
  simp only [remGet, lookup_dset]
  by_cases h : q = p <;> simp [h]

theorem remGet_ddel (d : RemD) (p q : RemKey) :
    remGet (ddel d p) q = if q = p then 0 else remGet d q := by
  simp only [remGet, lookup_ddel]
  by_cases h : q = p <;> simp [h]

theorem lookup_append_single {α β : Type} [BEq α] (d : List (α × β)) (k k' : α) (v : β) :
    (d ++ [(k, v)]).lookup k' = match d.lookup k' with
      | some x => some x
      | none => if k' == k then some v else none := by
  induction d with
  | nil => simp [List.lookup]; split <;> simp_all
  | cons e es ih =>
    obtain ⟨a, b⟩ := e
    simp only [List.cons_append, List.lookup]
    cases h : k' == a
    · simp only [ih]
    · rfl

theorem remGet_ddTouch (d : RemD) (p q : RemKey) : remGet (ddTouch d p) q = remGet d q := by
  unfold ddTouch
  split
  · rfl
  · rename_i hn
    simp only [remGet, lookup_append_single]
    cases hq : d.lookup q with
    | some x => rfl
    | none =>
      by_cases h : q = p <;> simp [h]

theorem rkMem_dset (rk : RemK) (k k' : Key) (ps : List RemKey) (p : RemKey) :
    rkMem (dset rk k ps) k' p = if k' = k then ps.contains p else rkMem rk k' p := by
  simp only [rkMem, lookup_dset]
  by_cases h : k' = k <;> simp [h]

theorem rkMem_ddel (rk : RemK) (k k' : Key) (p : RemKey) :
    rkMem (ddel rk k) k' p = if k' = k then false else rkMem rk k' p := by
  simp only [rkMem, lookup_ddel]
  by_cases h : k' = k <;> simp [h]

theorem rkMem_rkAdd (cfg : Cfg) (ha : cfg.rkAccumulate = true) (rk : RemK) (k k' : Key) (q p : RemKey) :
    rkMem (rkAdd cfg rk k q) k' p = (rkMem rk k' p || (decide (k' = k) && decide (p = q))) := by
  simp only [rkAdd, ha, if_true]
  cases hl : rk.lookup k with
  | none =>
    simp only [rkMem_dset]
    by_cases h : k' = k
    · subst h; simp [rkMem, hl]
    · simp [h]
  | some ps =>
    simp only
    by_cases hc : ps.contains q = true
    · simp only [hc, if_true]
      by_cases h : k' = k
      · subst h
        by_cases hp : p = q
        · subst hp; simp [rkMem, hl]; simpa [List.contains_eq_mem] using hc
        · simp [hp]
      · simp [h]
    · simp only [hc, Bool.false_eq_true, if_false, rkMem_dset]
      by_cases h : k' = k
      · subst h; simp [rkMem, hl, List.contains_eq_mem, List.mem_append]
      · simp [h]

/-- `reminder_keys[name][k]` holds exactly the remkeys `(k, i)` whose reminder is not 0 -/
def Supp (d : RemD) (rk : RemK) : Prop :=
  ∀ k p, rkMem rk k p = (decide (p.1 = k) && decide (remGet d p ≠ 0))

/-- the sets are sets (no element twice) -/
def RkNodup (rk : RemK) : Prop := ∀ k ps, rk.lookup k = some ps → ps.Nodup

structure CInv (d : RemD) (rk : RemK) : Prop where
  supp : Supp d rk
  nodup : RkNodup rk

theorem cinv_empty : CInv [] [] :=
  ⟨fun k p => by simp [rkMem, remGet], fun k ps h => by simp at h⟩

theorem rkNodup_rkAdd (cfg : Cfg) (rk : RemK) (k : Key) (q : RemKey) (h : RkNodup rk) :
    RkNodup (rkAdd cfg rk k q) := by
  intro k' ps' hl
  unfold rkAdd at hl
  split at hl
  · split at hl
    · rename_i ps hps
      split at hl
      · exact h k' ps' hl
      · rename_i hc
        rw [lookup_dset] at hl
        split at hl
        · simp only [Option.some.injEq] at hl
          subst hl
          have hn := h k ps hps
          have hq : q ∉ ps := by simpa [List.contains_eq_mem] using hc
          exact List.nodup_append.mpr ⟨hn, by simp, by
            intro a ha b hb; simp only [List.mem_singleton] at hb; subst hb; intro e; subst e; exact hq ha⟩
        · exact h k' ps' hl
    · rw [lookup_dset] at hl
      split at hl
      · simp only [Option.some.injEq] at hl; subst hl; simp
      · exact h k' ps' hl
  · rw [lookup_dset] at hl
    split at hl
    · simp only [Option.some.injEq] at hl; subst hl; simp
    · exact h k' ps' hl

theorem rkNodup_ddel (rk : RemK) (k : Key) (h : RkNodup rk) : RkNodup (ddel rk k) := by
  intro k' ps hl
  rw [lookup_ddel] at hl
  split at hl
  · cases hl
  · exact h k' ps hl


/-! ### `_remove_dead_reminders` -/

theorem delAll_spec : ∀ (ps : List RemKey) (d : RemD), ps.Nodup → (∀ p ∈ ps, remGet d p ≠ 0) →
    ∃ d', delAll d ps = some d' ∧ ∀ q, remGet d' q = if q ∈ ps then 0 else remGet d q
  | [], d, _, _ => ⟨d, rfl, by simp⟩
  | p :: ps, d, hn, hz => by
    have hp : remGet d p ≠ 0 := hz p (by simp)
    have hl : ∃ x, d.lookup p = some x := by
      cases h : d.lookup p with
      | none => simp [remGet, h] at hp
      | some x => exact ⟨x, rfl⟩
    obtain ⟨x, hx⟩ := hl
    simp only [List.nodup_cons] at hn
    obtain ⟨d', hd', hq⟩ := delAll_spec ps (ddel d p) hn.2 (by
      intro q hqm
      rw [remGet_ddel]
      have : q ≠ p := fun e => hn.1 (e ▸ hqm)
      simp only [this, if_false]
      exact hz q (by simp [hqm]))
    refine ⟨d', by simp [delAll, hx, hd'], ?_⟩
    intro q
    rw [hq, remGet_ddel]
    by_cases h1 : q = p <;> by_cases h2 : q ∈ ps <;> simp [h1, h2]

theorem supp_mem {d : RemD} {rk : RemK} (h : Supp d rk) {g : Key} {ps : List RemKey}
    (hl : rk.lookup g = some ps) (q : RemKey) : q ∈ ps ↔ (q.1 = g ∧ remGet d q ≠ 0) := by
  have := h g q
  simp only [rkMem, hl, List.contains_eq_mem] at this
  constructor
  · intro hm
    have : (decide (q.1 = g) && decide (remGet d q ≠ 0)) = true := by rw [← this]; simpa using hm
    simpa using this
  · intro ⟨h1, h2⟩
    have h3 : decide (q ∈ ps) = true := by rw [this]; simp [h1, h2]
    simpa using h3

theorem supp_none {d : RemD} {rk : RemK} (h : Supp d rk) {g : Key}
    (hl : rk.lookup g = none) (q : RemKey) (hq : q.1 = g) : remGet d q = 0 := by
  have := h g q
  simp only [rkMem, hl, hq, decide_true, Bool.true_and] at this
  by_cases hz : remGet d q = 0
  · exact hz
  · simp [hz] at this

theorem removeDead_spec : ∀ (gs : List Key) (d : RemD) (rk : RemK), CInv d rk →
    ∃ d' rk', removeDead d rk gs = some (d', rk') ∧ CInv d' rk' ∧
      ∀ q, remGet d' q = if q.1 ∈ gs then 0 else remGet d q
  | [], d, rk, hi => ⟨d, rk, rfl, hi, by simp⟩
  | g :: gs, d, rk, hi => by
    cases hl : rk.lookup g with
    | none =>
      obtain ⟨d', rk', h1, h2, h3⟩ := removeDead_spec gs d rk hi
      refine ⟨d', rk', by simp [removeDead, hl, h1], h2, ?_⟩
      intro q
      rw [h3]
      by_cases hg : q.1 = g
      · have := supp_none hi.supp hl q hg
        by_cases hm : q.1 ∈ gs <;> simp [hg, this]
      · simp [hg]
    | some ps =>
      have hmem := supp_mem hi.supp hl
      obtain ⟨d1, hd1, hq1⟩ := delAll_spec ps d (hi.nodup g ps hl) (fun p hp => ((hmem p).mp hp).2)
      have hq1' : ∀ q, remGet d1 q = if q.1 = g then 0 else remGet d q := by
        intro q
        rw [hq1]
        by_cases hg : q.1 = g
        · by_cases hz : remGet d q = 0
          · by_cases hm : q ∈ ps <;> simp [hm, hg, hz]
          · have : q ∈ ps := (hmem q).mpr ⟨hg, hz⟩
            simp [this, hg]
        · have : q ∉ ps := fun hm => hg ((hmem q).mp hm).1
          simp [this, hg]
      have hi1 : CInv d1 (ddel rk g) := by
        refine ⟨?_, rkNodup_ddel rk g hi.nodup⟩
        intro k p
        rw [rkMem_ddel, hq1' p]
        by_cases hk : k = g
        · subst hk
          by_cases hp : p.1 = k <;> simp [hp]
        · simp only [hk, if_false, hi.supp k p]
          by_cases hp : p.1 = k
          · subst hp
            simp [hk]
          · simp [hp]
      obtain ⟨d', rk', h1, h2, h3⟩ := removeDead_spec gs d1 (ddel rk g) hi1
      refine ⟨d', rk', by simp [removeDead, hl, hd1, h1], h2, ?_⟩
      intro q
      rw [h3, hq1']
      by_cases hg : q.1 = g <;> by_cases hm : q.1 ∈ gs <;> simp [hg, hm]


/-! ### the main loop of `run` -/

theorem wrapped_pos (cfg : Cfg) (hs : cfg.strictLess = true) {x ov : Nat}
    (h : wrapped cfg x ov = true) : ov ≠ 0 := by
  simp only [wrapped, hs, if_true, decide_eq_true_eq] at h
  omega

/-- one field: `if input_value < old_value: …` and the defaultdict read of `bits.append` -/
theorem field_step (cfg : Cfg) (hs : cfg.strictLess = true) (ha : cfg.rkAccumulate = true)
    (k : Key) (i x ov : Nat) (d : RemD) (rk : RemK) (hi : CInv d rk) :
    CInv (ddTouch (if wrapped cfg x ov then dset d (k, i) (remGet d (k, i) + ov) else d) (k, i))
        (if wrapped cfg x ov then rkAdd cfg rk k (k, i) else rk)
      ∧ ∀ q, remGet (ddTouch (if wrapped cfg x ov then dset d (k, i) (remGet d (k, i) + ov) else d) (k, i)) q
          = if q = (k, i) then remGet d q + (if wrapped cfg x ov then ov else 0) else remGet d q := by
  cases hw : wrapped cfg x ov with
  | false =>
    simp only [Bool.false_eq_true, if_false, remGet_ddTouch, Nat.add_zero, ite_self, implies_true, and_true]
    exact ⟨fun k' p => by rw [remGet_ddTouch]; exact hi.supp k' p, hi.nodup⟩
  | true =>
    have hov := wrapped_pos cfg hs hw
    have hq : ∀ q, remGet (ddTouch (dset d (k, i) (remGet d (k, i) + ov)) (k, i)) q
        = if q = (k, i) then remGet d q + ov else remGet d q := by
      intro q
      rw [remGet_ddTouch, remGet_dset]
      by_cases h : q = (k, i) <;> simp [h]
    simp only [if_true]
    refine ⟨⟨?_, rkNodup_rkAdd cfg rk k (k, i) hi.nodup⟩, hq⟩
    intro k' p
    rw [rkMem_rkAdd cfg ha, hq p, hi.supp k' p]
    by_cases hp : p = (k, i)
    · subst hp
      by_cases hk : k' = k
      · subst hk; simp; omega
      · have hk' : ¬ k = k' := fun e => hk e.symm
        simp [hk, hk']
    · simp [hp]

theorem fieldsLoop_spec (cfg : Cfg) (hs : cfg.strictLess = true) (ha : cfg.rkAccumulate = true)
    (k : Key) (o : List Nat) :
    ∀ (xs : List Nat) (i : Nat) (d : RemD) (rk : RemK), i + xs.length ≤ o.length → CInv d rk →
      ∃ d' rk', fieldsLoop cfg k o i xs d rk
          = (d', rk', some (xs.mapIdx fun j x => x + remGet d' (k, i + j))) ∧ CInv d' rk' ∧
        ∀ qk qi, remGet d' (qk, qi) = if qk = k ∧ i ≤ qi ∧ qi < i + xs.length then
            remGet d (qk, qi)
              + (if wrapped cfg (xs.getD (qi - i) 0) (tupleAt o qi) then tupleAt o qi else 0)
          else remGet d (qk, qi)
  | [], i, d, rk, _, hi => by
    refine ⟨d, rk, by simp [fieldsLoop], hi, ?_⟩
    intro qk qi
    have : ¬ (qk = k ∧ i ≤ qi ∧ qi < i + ([] : List Nat).length) := by
      simp only [List.length_nil]; omega
    rw [if_neg this]
  | x :: xs, i, d, rk, hlen, hi => by
    have hio : i < o.length := by simp only [List.length_cons] at hlen; omega
    have hoi : o[i]? = some o[i] := List.getElem?_eq_getElem hio
    have hta : tupleAt o i = o[i] := by simp [tupleAt, hio]
    obtain ⟨hi1, hq1⟩ := field_step cfg hs ha k i x o[i] d rk hi
    obtain ⟨d', rk', heq, hi', hq'⟩ := fieldsLoop_spec cfg hs ha k o xs (i + 1) _ _
      (by simp only [List.length_cons] at hlen; omega) hi1
    have hsame : remGet d' (k, i)
        = remGet (if wrapped cfg x o[i] then dset d (k, i) (remGet d (k, i) + o[i]) else d) (k, i) := by
      rw [hq' k i]
      have : ¬ (k = k ∧ i + 1 ≤ i ∧ i < i + 1 + xs.length) := by omega
      rw [if_neg this, remGet_ddTouch]
    refine ⟨d', rk', ?_, hi', ?_⟩
    · simp only [fieldsLoop, hoi, heq, List.mapIdx_cons, Nat.add_zero, hsame]
      have hf : (fun j x => x + remGet d' (k, i + 1 + j)) = (fun j x => x + remGet d' (k, i + (j + 1))) := by
        funext j y
        have : i + 1 + j = i + (j + 1) := by omega
        rw [this]
      rw [hf]
    · intro qk qi
      have hcl : (x :: xs).length = xs.length + 1 := rfl
      rw [hq' qk qi, hq1 (qk, qi)]
      by_cases hk : qk = k
      · rcases Nat.lt_trichotomy qi i with hlt | he | hgt
        · have c1 : ¬ (qk = k ∧ i + 1 ≤ qi ∧ qi < i + 1 + xs.length) := by omega
          have c2 : ¬ (qk = k ∧ i ≤ qi ∧ qi < i + (x :: xs).length) := by omega
          have c3 : ¬ ((qk, qi) = (k, i)) := by intro e; injection e with _ e; omega
          rw [if_neg c1, if_neg c2, if_neg c3]
        · have c1 : ¬ (qk = k ∧ i + 1 ≤ qi ∧ qi < i + 1 + xs.length) := by omega
          have c2 : (qk = k ∧ i ≤ qi ∧ qi < i + (x :: xs).length) := ⟨hk, by omega, by omega⟩
          have c3 : (qk, qi) = (k, i) := by rw [hk, he]
          have h0 : qi - i = 0 := by omega
          rw [if_neg c1, if_pos c2, if_pos c3, h0, List.getD_cons_zero, he, hta]
        · have c3 : ¬ ((qk, qi) = (k, i)) := by intro e; injection e with _ e; omega
          have hsub : qi - i = (qi - (i + 1)) + 1 := by omega
          by_cases hr : qi < i + 1 + xs.length
          · have c1 : (qk = k ∧ i + 1 ≤ qi ∧ qi < i + 1 + xs.length) := ⟨hk, by omega, hr⟩
            have c2 : (qk = k ∧ i ≤ qi ∧ qi < i + (x :: xs).length) := ⟨hk, by omega, by omega⟩
            rw [if_pos c1, if_pos c2, if_neg c3, hsub, List.getD_cons_succ]
          · have c1 : ¬ (qk = k ∧ i + 1 ≤ qi ∧ qi < i + 1 + xs.length) := by omega
            have c2 : ¬ (qk = k ∧ i ≤ qi ∧ qi < i + (x :: xs).length) := by
              simp only [List.length_cons]; omega
            rw [if_neg c1, if_neg c2, if_neg c3]
      · have c1 : ¬ (qk = k ∧ i + 1 ≤ qi ∧ qi < i + 1 + xs.length) := fun h => hk h.1
        have c2 : ¬ (qk = k ∧ i ≤ qi ∧ qi < i + (x :: xs).length) := fun h => hk h.1
        have c3 : ¬ ((qk, qi) = (k, i)) := by intro e; injection e with e _; exact hk e
        rw [if_neg c1, if_neg c2, if_neg c3]


theorem lookup_none_of_not_mem (r : Raw) (k : Key) (h : k ∉ r.map (·.1)) : r.lookup k = none := by
  induction r with
  | nil => rfl
  | cons e es ih =>
    obtain ⟨a, b⟩ := e
    simp only [List.map_cons, List.mem_cons, not_or] at h
    have hb : (k == a) = false := by simpa using h.1
    simp only [List.lookup, hb]
    exact ih h.2

theorem lookup_cons_eq (r : Raw) (k qk : Key) (v : List Nat) :
    List.lookup qk ((k, v) :: r) = if qk = k then some v else r.lookup qk := by
  by_cases h : qk = k
  · subst h; simp [List.lookup]
  · have hb : (qk == k) = false := by simpa using h
    simp [List.lookup, hb, h]

theorem keysLoop_spec (cfg : Cfg) (hs : cfg.strictLess = true) (ha : cfg.rkAccumulate = true)
    (old : Raw) :
    ∀ (rest : Raw) (d : RemD) (rk : RemK), NodupKeys rest →
      (∀ kv ∈ rest, ∀ o, old.lookup kv.1 = some o → kv.2.length ≤ o.length) → CInv d rk →
      ∃ d' rk', keysLoop cfg old rest d rk
          = (d', rk', some (outOf old rest fun k i => remGet d' (k, i))) ∧ CInv d' rk' ∧
        ∀ qk qi, remGet d' (qk, qi) =
          match rest.lookup qk, old.lookup qk with
          | some v, some o =>
            if qi < v.length then
              remGet d (qk, qi) + (if wrapped cfg (tupleAt v qi) (tupleAt o qi) then tupleAt o qi else 0)
            else remGet d (qk, qi)
          | _, _ => remGet d (qk, qi)
  | [], d, rk, _, _, hi => ⟨d, rk, by simp [keysLoop, outOf], hi, by intro qk qi; simp [List.lookup]⟩
  | (k, v) :: rest, d, rk, hn, hw, hi => by
    have hn' : k ∉ rest.map (·.1) ∧ NodupKeys rest := by
      unfold NodupKeys at hn ⊢
      rw [List.map_cons, List.nodup_cons] at hn
      exact hn
    have hrk : rest.lookup k = none := lookup_none_of_not_mem rest k hn'.1
    have hw' : ∀ kv ∈ rest, ∀ o, old.lookup kv.1 = some o → kv.2.length ≤ o.length :=
      fun kv hm => hw kv (List.mem_cons_of_mem _ hm)
    cases hl : old.lookup k with
    | none =>
      obtain ⟨d', rk', heq, hi', hq'⟩ := keysLoop_spec cfg hs ha old rest d rk hn'.2 hw' hi
      refine ⟨d', rk', by simp [keysLoop, hl, heq, outOf], hi', ?_⟩
      intro qk qi
      rw [hq' qk qi, lookup_cons_eq]
      by_cases hk : qk = k
      · subst hk; simp [hl, hrk]
      · simp [hk]
    | some o =>
      obtain ⟨d1, rk1, heq1, hi1, hq1⟩ := fieldsLoop_spec cfg hs ha k o v 0 d rk
        (by have := hw (k, v) (by simp) o hl; simp only at this; omega) hi
      obtain ⟨d', rk', heq, hi', hq'⟩ := keysLoop_spec cfg hs ha old rest d1 rk1 hn'.2 hw' hi1
      have hsame : ∀ i, remGet d' (k, i) = remGet d1 (k, i) := by
        intro i; rw [hq' k i, hrk]
      refine ⟨d', rk', ?_, hi', ?_⟩
      · simp only [keysLoop, hl, heq1, heq, outOf, List.map_cons, Nat.zero_add, hsame]
      · intro qk qi
        rw [hq' qk qi, lookup_cons_eq]
        by_cases hk : qk = k
        · subst hk
          simp only [hrk, if_true, hl, hq1 qk qi, Nat.zero_le, true_and, Nat.zero_add, Nat.sub_zero]
          rfl
        · have h1 : remGet d1 (qk, qi) = remGet d (qk, qi) := by
            rw [hq1 qk qi]
            have : ¬ (qk = k ∧ 0 ≤ qi ∧ qi < 0 + v.length) := fun h => hk h.1
            rw [if_neg this]
          simp only [hk, if_false, h1]


/-! ### `run` on the dicts refines `run` on the abstract state -/

theorem lookup_isSome_of_mem (r : Raw) (k : Key) (h : k ∈ r.map (·.1)) : ∃ v, r.lookup k = some v := by
  cases hl : r.lookup k with
  | some v => exact ⟨v, rfl⟩
  | none =>
    exfalso
    induction r with
    | nil => simp at h
    | cons e es ih =>
      obtain ⟨a, b⟩ := e
      simp only [List.lookup] at hl
      split at hl
      · cases hl
      · rename_i hb
        have hne : k ≠ a := by simpa using hb
        simp only [List.map_cons, List.mem_cons] at h
        rcases h with h | h
        · exact hne h
        · exact ih h hl

theorem mem_goneKeys (old input : Raw) (k : Key) :
    k ∈ goneKeys old input ↔ (∃ o, old.lookup k = some o) ∧ input.lookup k = none := by
  simp only [goneKeys, List.mem_filter, Option.isNone_iff_eq_none]
  constructor
  · intro ⟨h1, h2⟩; exact ⟨lookup_isSome_of_mem old k h1, h2⟩
  · intro ⟨⟨o, ho⟩, h2⟩
    exact ⟨List.mem_map.mpr ⟨(k, o), mem_of_lookup ho, rfl⟩, h2⟩

/-- the three entries of a `name` are there together, and `reminder_keys` = support of `reminders` -/
inductive CInvW : CWN → Prop
  | empty : CInvW {}
  | full (old : Raw) (d : RemD) (rk : RemK) : CInv d rk → CInvW ⟨some old, some d, some rk⟩

theorem CInvW.split {w : CWN} (h : CInvW w) :
    w = {} ∨ ∃ old d rk, w = ⟨some old, some d, some rk⟩ ∧ CInv d rk := by
  cases h with
  | empty => exact Or.inl rfl
  | full old d rk hi => exact Or.inr ⟨old, d, rk, rfl, hi⟩

/-- configuration under which the concrete dicts behave like the abstract total function -/
def Cfg.DictGood (c : Cfg) : Prop := c.rkAccumulate = true

theorem crun_sim (cfg : Cfg) (hs : cfg.strictLess = true) (ha : cfg.DictGood) (w : CWN) (hw : CInvW w)
    (input : Raw) (hn : NodupKeys input) (n : Nat) (hwi : RawW n input)
    (hwo : ∀ old, w.cache = some old → RawW n old) :
    (crun cfg w input).2 = .out (.dict (run cfg (absW w) input).2)
      ∧ absW (crun cfg w input).1 = (run cfg (absW w) input).1 ∧ CInvW (crun cfg w input).1 := by
  cases hw with
  | empty =>
    refine ⟨by simp [crun, run, absW], ?_, ?_⟩
    · simp only [crun, run, absW]
      simp [remGet]
    · simp only [crun]
      exact CInvW.full input [] [] cinv_empty
  | full old d rk hi =>
    have hwold : RawW n old := hwo old rfl
    obtain ⟨d0, rk0, h0, hi0, hq0⟩ := removeDead_spec (goneKeys old input) d rk hi
    obtain ⟨d1, rk1, h1, hi1, hq1⟩ := keysLoop_spec cfg hs ha old input d0 rk0 hn (by
      intro kv hm o ho
      have a := hwi kv hm
      have b := hwold _ (mem_of_lookup ho)
      simp only at b
      omega) hi0
    have hrem : (fun k i => remGet d1 (k, i)) = remAfter cfg old input (fun k i => remGet d (k, i)) := by
      funext k i
      rw [hq1 k i]
      simp only [remAfter]
      cases hli : input.lookup k with
      | none =>
        cases hlo : old.lookup k with
        | none =>
          simp only [hq0 (k, i)]
          have : k ∉ goneKeys old input := by rw [mem_goneKeys]; simp [hlo]
          simp [this]
        | some o =>
          simp only [hq0 (k, i)]
          have : k ∈ goneKeys old input := by rw [mem_goneKeys]; exact ⟨⟨o, hlo⟩, hli⟩
          simp [this]
      | some v =>
        have hng : k ∉ goneKeys old input := by rw [mem_goneKeys]; simp [hli]
        have h00 : remGet d0 (k, i) = remGet d (k, i) := by rw [hq0 (k, i)]; simp [hng]
        cases hlo : old.lookup k with
        | none => simp only [h00]
        | some o =>
          simp only [h00]
          have hv : v.length = n := hwi _ (mem_of_lookup hli)
          have ho : o.length = n := hwold _ (mem_of_lookup hlo)
          by_cases hlt : i < v.length
          · simp only [hlt, if_true]
            by_cases hwr : wrapped cfg (tupleAt v i) (tupleAt o i) = true <;> simp [hwr]
          · have e1 : v[i]? = none := List.getElem?_eq_none (by omega)
            have e2 : o[i]? = none := List.getElem?_eq_none (by omega)
            have t1 : tupleAt v i = 0 := by simp [tupleAt, e1]
            have t2 : tupleAt o i = 0 := by simp [tupleAt, e2]
            simp [hlt, t1, t2, wrapped, hs]
    have hrun : run cfg (absW ⟨some old, some d, some rk⟩) input
        = (⟨some input, fun k i => remGet d1 (k, i)⟩, outOf old input (fun k i => remGet d1 (k, i))) := by
      rw [hrem]; rfl
    refine ⟨?_, ?_, ?_⟩
    · simp only [crun, h0, h1, hrun]
    · rw [hrun]
      simp only [crun, h0, h1, absW]
    · simp only [crun, h0, h1]
      exact CInvW.full input d1 rk1 hi1


/-! ### whole state, whole histories -/

def CInvSt (s : CSt) : Prop := ∀ n, CInvW (s.get n)

theorem absSt_get (s : CSt) (n : Name) : (absSt s).get n = absW (s.get n) := by cases n <;> rfl

theorem absSt_set (s : CSt) (n : Name) (w : CWN) : absSt (s.set n w) = (absSt s).set n (absW w) := by
  cases n <;> rfl

theorem cget_set_same (s : CSt) (n : Name) (x : CWN) : (s.set n x).get n = x := by cases n <;> rfl

theorem cget_set_other (s : CSt) (n m : Name) (x : CWN) (h : m ≠ n) : (s.set n x).get m = s.get m := by
  cases n <;> cases m <;> first | rfl | exact absurd rfl h

theorem cinvSt_set (s : CSt) (n : Name) (x : CWN) (hs : CInvSt s) (hx : CInvW x) : CInvSt (s.set n x) := by
  intro m
  by_cases h : m = n
  · subst h; rw [cget_set_same]; exact hx
  · rw [cget_set_other _ _ _ _ h]; exact hs m

theorem absW_empty : absW {} = WN.init := rfl

theorem cinvSt_init : CInvSt CSt.init := by intro n; cases n <;> exact CInvW.empty

/-- one `_WrapNumbers`-level operation on the concrete dicts = the same operation on the abstract
    state (same return value, abstraction commutes, invariant kept) -/
theorem cstep_sim (c : Cfg) (hg : c.Good) (ha : c.DictGood) (w : Name → Nat) (cs : CSt)
    (sn : Name → List Raw) (op : Op) (hw : OpW w op) (hi : InvSt w (absSt cs) sn) (hc : CInvSt cs) :
    (cstep c cs op).2 = .out (step c (absSt cs) op).2
      ∧ absSt (cstep c cs op).1 = (step c (absSt cs) op).1 ∧ CInvSt (cstep c cs op).1 := by
  have hslot := slot_good c hg
  obtain ⟨he, hs, _⟩ := hg
  cases op with
  | clearAll => exact ⟨rfl, rfl, cinvSt_init⟩
  | clear m =>
    refine ⟨rfl, ?_, ?_⟩
    · simp only [cstep, step, absSt_set, absW_empty]
    · exact cinvSt_set _ _ _ hc CInvW.empty
  | call m nowrap raw =>
    obtain ⟨hwr, hnd⟩ := hw
    cases nowrap with
    | false =>
      simp only [cstep, step, Bool.and_false, Bool.not_false, Bool.and_true, Bool.false_eq_true, if_false]
      split <;> exact ⟨rfl, rfl, hc⟩
    | true =>
      have hwo : ∀ old, (cs.get m).cache = some old → RawW (w m) old := by
        intro old ho
        have h1 : ((absSt cs).get m).cache = some old := by rw [absSt_get]; exact ho
        have hhead : (sn m).head? = some old := by rw [← (hi.inv m).cache]; exact h1
        exact hi.width m old (List.mem_of_mem_head? hhead)
      obtain ⟨h1, h2, h3⟩ := crun_sim c hs ha (cs.get m) (hc m) raw hnd (w m) hwr hwo
      have hstep : step c (absSt cs) (.call m true raw)
          = ((absSt cs).set m (run c (absW (cs.get m)) raw).1,
             if raw.isEmpty then .none else .dict (run c (absW (cs.get m)) raw).2) := by
        simp only [step, he, hslot, Bool.and_self, Bool.not_true, Bool.and_false,
          Bool.false_eq_true, if_false, if_true, absSt_get]
        cases hcache : (absW (cs.get m)).cache with
        | none => rfl
        | some old =>
          have hold : RawW (w m) old := hwo old hcache
          simp [widthMismatch_false hold hwr]
      rw [hstep]
      simp only [cstep, he, hslot, Bool.and_self, Bool.not_true, Bool.and_false,
        Bool.false_eq_true, if_false, if_true]
      refine ⟨?_, ?_, ?_⟩
      · rw [h1]; simp only [cshapeEmpty]; split <;> rfl
      · rw [absSt_set, h2]
      · exact cinvSt_set _ _ _ hc h3

theorem crunAll_sim (c : Cfg) (hg : c.Good) (ha : c.DictGood) (w : Name → Nat) (h : List Op) :
    ∀ (cs : CSt) (sn : Name → List Raw), (∀ op ∈ h, OpW w op) → InvSt w (absSt cs) sn → CInvSt cs →
      absSt (crunAll c cs h) = runAll c (absSt cs) h ∧ CInvSt (crunAll c cs h) := by
  induction h with
  | nil => intro cs sn _ _ hc; exact ⟨rfl, hc⟩
  | cons op ops ih =>
    intro cs sn hw hi hc
    obtain ⟨_, h2, h3⟩ := cstep_sim c hg ha w cs sn op (hw op (by simp)) hi hc
    have hi' := step_inv c hg w (absSt cs) sn op (hw op (by simp)) hi
    rw [← h2] at hi'
    obtain ⟨i1, i2⟩ := ih _ _ (fun o ho => hw o (by simp [ho])) hi' h3
    simp only [crunAll, runAll]
    rw [i1, h2]
    exact ⟨rfl, i2⟩

theorem absSt_init : absSt CSt.init = St.init := rfl

end Psutil.C10
