/-
  Proofs/C18Priv.lean — round 3: the complete system calls (permission tests), the failure tests
  of the native setters, the sizing loop of the affinity getter and the OverflowError branch of
  `cpu_affinity_set`:  for a permitted caller, under `Cfg.Good`, `stepX` is the call of the proof
  layer (`stepXo`: `step` + the context-dependent set form of `cpu_affinity`).
-/
import PsutilModel.Proofs.C18Ctx
namespace Psutil.C18
open Spec

/-! ### the sizing loop -/

theorem sysSchedGetaffinity_err {k : Kernel} {pid : Nat} {e : Errno} (h : sysSchedGetaffinity k pid = .error e) :
    e = .ESRCH := by
  unfold sysSchedGetaffinity at h
  split at h
  · cases h; rfl
  · cases h

/-- the mask is large enough: the loop returns what the kernel reports -/
theorem affGetLoop_fits (l : AffLoop) (hr : l.retry = 0) (k : Kernel) (pid f n errno : Nat)
    (h : k.ncpu ≤ cpuAllocBits n) :
    affGetLoop .sentinelOnly l k pid (f + 1) n errno = ofSys (sysSchedGetaffinity k pid) := by
  unfold affGetLoop
  have hlen : sysSchedGetaffinityLen k pid (cpuAllocBits n) = sysSchedGetaffinity k pid := by
    unfold sysSchedGetaffinityLen; rw [if_neg (by omega)]
  simp only [hlen]
  cases hs : sysSchedGetaffinity k pid with
  | ok m => simp [libcCall, callFailed, ofSys]
  | error e =>
    have := sysSchedGetaffinity_err hs
    subst this
    simp [libcCall, callFailed, ofSys, errnoCode, nerrOfErrno, retryOn, hr]

/-- the mask is too small: EINVAL, one more round with twice as many CPUs -/
theorem affGetLoop_small (i : Nat) (k : Kernel) (pid f n errno : Nat)
    (h : cpuAllocBits n < k.ncpu) (hn : n ≤ intMaxHalf) :
    affGetLoop .sentinelOnly ⟨i, 0, 2, 0⟩ k pid (f + 1) n errno =
      affGetLoop .sentinelOnly ⟨i, 0, 2, 0⟩ k pid f (n * 2 + 0) 22 := by
  conv => lhs; unfold affGetLoop
  have hlen : sysSchedGetaffinityLen k pid (cpuAllocBits n) = .error .EINVAL := by
    unfold sysSchedGetaffinityLen; rw [if_pos h]
  have hn' : ¬ n > intMaxHalf := by omega
  simp [hlen, libcCall, callFailed, errnoCode, nerrOfErrno, retryOn, hn']

/-- under a good configuration, on every kernel with at most 1024 possible CPU ids, the native
    getter with its sizing loop returns exactly what `sched_getaffinity` reports -/
theorem cextAffinityGetL_eq (c : Cfg) (hg : c.Good) (k : Kernel) (pid e : Nat) (hn : k.ncpu ≤ 1024) :
    cextAffinityGetL c.affGet c.affLoop k pid e = cextAffinityGet k pid := by
  unfold cextAffinityGetL cextAffinityGet
  rw [hg.affGet, hg.affLoop]
  generalize (if c.affGet.clears = true then 0 else e) = e0
  show affGetLoop .sentinelOnly ⟨64, 0, 2, 0⟩ k pid (39 + 1) 64 e0 = _
  have a64 : cpuAllocBits 64 = 64 := by decide
  have a128 : cpuAllocBits 128 = 128 := by decide
  have a256 : cpuAllocBits 256 = 256 := by decide
  have a512 : cpuAllocBits 512 = 512 := by decide
  have a1024 : cpuAllocBits 1024 = 1024 := by decide
  by_cases h1 : k.ncpu ≤ 64
  · exact affGetLoop_fits _ rfl k pid _ _ _ (by omega)
  rw [affGetLoop_small 64 k pid 39 64 e0 (by omega) (by decide)]
  by_cases h2 : k.ncpu ≤ 128
  · exact affGetLoop_fits _ rfl k pid 38 128 _ (by omega)
  rw [show (64 * 2 + 0 : Nat) = 128 from rfl, affGetLoop_small 64 k pid 38 128 22 (by omega) (by decide)]
  by_cases h3 : k.ncpu ≤ 256
  · exact affGetLoop_fits _ rfl k pid 37 256 _ (by omega)
  rw [show (128 * 2 + 0 : Nat) = 256 from rfl, affGetLoop_small 64 k pid 37 256 22 (by omega) (by decide)]
  by_cases h4 : k.ncpu ≤ 512
  · exact affGetLoop_fits _ rfl k pid 36 512 _ (by omega)
  rw [show (256 * 2 + 0 : Nat) = 512 from rfl, affGetLoop_small 64 k pid 36 512 22 (by omega) (by decide)]
  exact affGetLoop_fits _ rfl k pid 35 1024 _ (by omega)

/-! ### permitted callers: the complete system calls are the rules of Model §1 -/

theorem permNice_none {k : Kernel} {pid : Nat} {st : PState} (hpid : pid ≠ 0) (hst : k.procs pid = some st) (v : Int)
    (hv : -20 ≤ v ∧ v ≤ 19) (h : Spec.permitted k st (.nice (some v)) = true) : permNice k pid v = none := by
  have hc : clampNice v = v := by
    unfold clampNice
    rw [if_neg (by omega), if_neg (by omega)]
  simp only [Spec.permitted, Bool.and_eq_true, Bool.or_eq_true, Bool.not_eq_true', decide_eq_true_eq] at h
  simp only [permNice, resolve_pid k hpid, hst, hc, canNice, rlimitNice]
  obtain ⟨h1, h2⟩ := h
  have e1 : (st.foreign && !k.capNice) = false := by
    rcases h1 with h | h <;> simp [h]
  rw [e1]
  simp only [Bool.false_eq_true, if_false]
  have e2 : (decide (v < st.nice) && !(k.capNice || decide (20 - v ≤ ((st.rlimits 13).1 : Int)))) = false := by
    rcases h2 with (h | h) | h
    · simp [h]
    · have : ¬ v < st.nice := by omega
      simp [this]
    · simp [h]
  rw [e2]; rfl

theorem permAffinity_none {k : Kernel} {pid : Nat} {st : PState} (hpid : pid ≠ 0) (hst : k.procs pid = some st)
    (h : (!st.foreign || k.capNice) = true) : permAffinity k pid = none := by
  simp only [permAffinity, resolve_pid k hpid, hst]
  have e1 : (st.foreign && !k.capNice) = false := by
    simp only [Bool.or_eq_true, Bool.not_eq_true'] at h
    rcases h with h | h <;> simp [h]
  rw [e1]; rfl

theorem permPrlimit_none {k : Kernel} {pid : Nat} {st : PState} (hpid : pid ≠ 0) (hst : k.procs pid = some st)
    (h : (!st.foreign || k.capResource) = true) : permPrlimit k pid = none := by
  simp only [permPrlimit, resolve_pid k hpid, hst]
  have e1 : (st.foreign && !k.capResource) = false := by
    simp only [Bool.or_eq_true, Bool.not_eq_true'] at h
    rcases h with h | h <;> simp [h]
  rw [e1]; rfl

theorem permIoprio_none {k : Kernel} {pid : Nat} {st : PState} (hpid : pid ≠ 0) (hst : k.procs pid = some st)
    (v : Nat) (h1 : (!st.foreign || k.capNice) = true) (h2 : k.capNice = true ∨ ioprioClassOf v ≠ 1) :
    permIoprio k pid v = none := by
  unfold permIoprio
  split
  · rfl
  · have e0 : (ioprioClassOf v == 1 && !k.capNice) = false := by
      rcases h2 with h | h
      · simp [h]
      · simp [h]
    rw [e0]
    simp only [Bool.false_eq_true, if_false, resolve_pid k hpid, hst]
    have e1 : (st.foreign && !k.capNice) = false := by
      simp only [Bool.or_eq_true, Bool.not_eq_true'] at h1
      rcases h1 with h | h <;> simp [h]
    rw [e1]; rfl

/-! ### a gone process: the permission tests do not object, the rule answers ESRCH -/

theorem permNice_gone {k : Kernel} {pid : Nat} (hpid : pid ≠ 0) (h : k.procs pid = none) (v : Int) :
    permNice k pid v = none := by simp [permNice, resolve_pid k hpid, h]

theorem permAffinity_gone {k : Kernel} {pid : Nat} (hpid : pid ≠ 0) (h : k.procs pid = none) :
    permAffinity k pid = none := by simp [permAffinity, resolve_pid k hpid, h]

theorem permPrlimit_gone {k : Kernel} {pid : Nat} (hpid : pid ≠ 0) (h : k.procs pid = none) :
    permPrlimit k pid = none := by simp [permPrlimit, resolve_pid k hpid, h]

/-! ### the native setters -/

theorem checkedCall_true (k : Kernel) (r : Except Errno Kernel) : checkedCall true k r = ofSys r := by
  cases r <;> rfl

/-- the native layer never answers OverflowError for a list of C longs -/
theorem cpuSetOfSeq_allLong_err {l : List Int} (hl : AllLong l) {e : NErr} (h : cpuSetOfSeq l = .error e) :
    e = .valueError := by
  by_cases hm : (-1 : Int) ∈ l
  · rw [cpuSetOfSeq_minus1 hl hm] at h; cases h; rfl
  · obtain ⟨m, hm', _⟩ := cpuSetOfSeq_ok hl hm
    rw [hm'] at h; cases h

theorem cextAffinitySetP_eq (k : Kernel) (pid : Nat) (l : List Int) (hp : permAffinity k pid = none) :
    cextAffinitySetP true k pid l = cextAffinitySet k pid l := by
  unfold cextAffinitySetP cextAffinitySet
  cases cpuSetOfSeq l with
  | error e => rfl
  | ok m => simp only [sysSchedSetaffinityP, hp, checkedCall_true]

theorem cextAffinitySet_not_overflow {k : Kernel} {pid : Nat} {l : List Int} (hl : AllLong l) :
    cextAffinitySet k pid l ≠ .error .overflowError := by
  unfold cextAffinitySet
  cases hs : cpuSetOfSeq l with
  | error e =>
    have := cpuSetOfSeq_allLong_err hl hs
    subst this
    simp
  | ok m =>
    simp only
    cases sysSchedSetaffinity k pid m <;> simp [ofSys]

/-- `cpu_affinity_set` as the driver runs it is the proof layer's `cpuAffinitySetWith` when the native
    setter tests its return value, the caller is permitted, and no OverflowError can reach the
    `except` clause that would catch it -/
theorem cpuAffinitySetP_eq_With (c : Cfg) (elig : Option (List Nat)) (k : Kernel) (pid : Nat) (l : List Int)
    (hchk : c.affSetChecks = true) (hp : permAffinity k pid = none)
    (h : c.overflowValueError = false ∨ AllLong l) :
    cpuAffinitySetP c elig k pid l = cpuAffinitySetWith c.einvalValueError elig k pid l := by
  unfold cpuAffinitySetP cpuAffinitySetWith
  rw [hchk, cextAffinitySetP_eq k pid l hp]
  cases hn : cextAffinitySet k pid l with
  | ok k' => rfl
  | error e =>
    have hov : ¬ (c.overflowValueError = true ∧ e = .overflowError) := by
      rintro ⟨h1, h2⟩
      rcases h with h | h
      · rw [h] at h1; cases h1
      · subst h2; exact cextAffinitySet_not_overflow h hn
    simp only [hov, or_false]

/-! ### the proof layer's call in a context: `step`, and the set form of `cpu_affinity` with the
    cached status file and the EINVAL fall-through -/

def affSetXo (c : Cfg) (k : Kernel) (pid : Nat) (x : Ctx) (cpus : List Int) : Out × Kernel :=
  let elig := getEligibleCpusX k pid x.statusMask
  if cpus.isEmpty then
    if c.emptyAsksCount then
      cpuAffinitySetWith c.einvalValueError elig k pid (dedup c ((List.range k.statCpus).map Int.ofNat))
    else match c.emptyAsksAll with
    | some n => cpuAffinitySetWith c.einvalValueError elig k pid (dedup c ((List.range n).map Int.ofNat))
    | none =>
      match elig with
      | none => (.exc (.noSuchProcess pid), k)
      | some el => cpuAffinitySetWith c.einvalValueError elig k pid (dedup c (el.map Int.ofNat))
  else cpuAffinitySetWith c.einvalValueError elig k pid (dedup c cpus)

def stepXo (c : Cfg) (k : Kernel) (pid : Nat) (x : Ctx) : Req → Out × Kernel
  | .cpuAffinity (some cpus) => affSetXo c k pid x cpus
  | req => step c k pid req

theorem allLong_range (n : Nat) (hn : n ≤ 1024) : AllLong ((List.range n).map Int.ofNat) := by
  intro v hv
  simp only [List.mem_map, List.mem_range] at hv
  obtain ⟨m, hm, rfl⟩ := hv
  simp [fitsCLong]; omega

/-- **the bridge**: for a permitted caller, under a good configuration, on a kernel with at most
    1024 CPU ids, `stepX` (complete system calls, errno protocol, failure tests, sizing loop,
    OverflowError branch) is `stepXo` — unless an OverflowError would be caught. -/
theorem stepX_eq_stepXo (c : Cfg) (hg : c.Good) (k : Kernel) (pid : Nat) (st : PState) (x : Ctx) (req : Req)
    (hpid : pid ≠ 0) (hst : k.procs pid = some st) (hn : k.ncpu ≤ 1024)
    (hperm : Spec.permitted k st req = true)
    (hv : ∀ v, req = .nice (some v) → -20 ≤ v ∧ v ≤ 19)
    (hio : ∀ cls value, req = .ionice (some cls) value →
      (0 ≤ cls ∧ cls ≤ 3 ∧ 0 ≤ value.getD 0 ∧ value.getD 0 ≤ 7) ∨
      (value.getD 0 < 0 ∨ value.getD 0 > 7))
    (hlong : c.overflowValueError = false ∨ ∀ cpus, req = .cpuAffinity (some cpus) → AllLong cpus) :
    stepX c k pid x req = stepXo c k pid x req := by
  cases req with
  | nice v =>
    cases v with
    | none => exact niceGetX_eq c hg k pid _
    | some v =>
      have hp := permNice_none hpid hst v (hv v rfl) hperm
      simp only [stepX, stepXo, step, niceSetX, niceSet, cextSetpriorityP, cextSetpriority, sysSetpriorityP, hp,
        hg.setChecks.1, checkedCall_true]
  | ionice cls v =>
    cases cls with
    | none =>
      cases v with
      | none => exact ioniceGetX_eq c hg k pid _
      | some v => simp only [stepX, stepXo, step, ioniceGetX_eq c hg]
    | some cls =>
      simp only [Spec.permitted, Bool.and_eq_true, Bool.or_eq_true, decide_eq_true_eq] at hperm
      simp only [stepX, stepXo, step, ioniceSetX, ioniceSet, hg.dflt, hg.lo, hg.hi, hg.noval]
      by_cases hA : v.getD 0 ≠ 0 ∧ ([0, 3] : List Int).contains cls = true
      · simp only [if_pos hA]
      · by_cases hB : v.getD 0 < 0 ∨ v.getD 0 > 7
        · simp only [if_neg hA, if_pos hB]
        · simp only [if_neg hA, if_neg hB]
          rcases hio cls v rfl with ⟨c0, c3, l0, l7⟩ | hbad
          · have hfit : (fitsCInt cls && fitsCInt (v.getD 0)) = true := by simp [fitsCInt]; omega
            have hneg : ¬ (cls < 0 ∨ v.getD 0 < 0) := by omega
            have hnr := inNativeRange hg ⟨c0, c3⟩ ⟨l0, l7⟩
            have hd : (v.getD 0).toNat < 8192 := by omega
            have hlt : cls.toNat * 8192 + (v.getD 0).toNat < 2147483648 := by omega
            have hcl : ioprioClassOf (cls.toNat * 8192 + (v.getD 0).toNat) = cls.toNat :=
              classOf_eq _ _ (by omega) hd
            have hp : permIoprio k pid (cls.toNat * 8192 + (v.getD 0).toNat) = none :=
              permIoprio_none hpid hst _ (by simpa using hperm.1) (by
                rcases hperm.2 with h | h
                · exact Or.inl h
                · right; rw [hcl]; omega)
            have heq : cextIoprioSetP c.ioprioSetChecks 13 c.nativeRange c.nativeRangeEinval k pid cls (v.getD 0) =
                cextIoprioSet 13 c.nativeRange c.nativeRangeEinval k pid cls (v.getD 0) := by
              simp only [cextIoprioSetP, cextIoprioSet, hfit, Bool.not_true, Bool.false_eq_true, if_false, hnr, hneg,
                pack_eq _ _ hd, hlt, if_true, sysIoprioSetP, hp, hg.setChecks.2.1, checkedCall_true]
            rw [hg.shift, heq]
          · exact absurd hbad hB
  | cpuAffinity cpus =>
    cases cpus with
    | none =>
      simp only [stepX, stepXo, cpuAffinityX, step, cpuAffinity, cextAffinityGetL_eq c hg k pid _ hn]
    | some l =>
      have hp := permAffinity_none hpid hst (by simpa [Spec.permitted] using hperm)
      have hl : c.overflowValueError = false ∨ AllLong l := by
        rcases hlong with h | h
        · exact Or.inl h
        · exact Or.inr (h l rfl)
      simp only [stepX, stepXo, cpuAffinityX, affSetXo, hg.count, hg.empty, Bool.false_eq_true, if_false]
      split
      · exact cpuAffinitySetP_eq_With c _ k pid _ hg.setChecks.2.2 hp
          (Or.inr (allLong_dedup c (allLong_range 1024 (Nat.le_refl _))))
      · refine cpuAffinitySetP_eq_With c _ k pid _ hg.setChecks.2.2 hp ?_
        rcases hl with h | h
        · exact Or.inl h
        · exact Or.inr (allLong_dedup c h)
  | rlimit res l =>
    have hp := permPrlimit_none hpid hst (by simpa [Spec.permitted] using hperm)
    simp only [stepX, stepXo, step, rlimitLX, rlimitL, pyPrlimitGetP, pyPrlimitGet, pyPrlimitSetP, pyPrlimitSet,
      sysPrlimitGetP, sysPrlimitSetP, hp]

end Psutil.C18
