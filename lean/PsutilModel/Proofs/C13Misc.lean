/-
  Proofs/C13Misc.lean — statm round trip, memory_percent, grouped keys.
-/
import PsutilModel.Proofs.C13Round
import PsutilModel.Proofs.C13Group
namespace Psutil.C13
open Psutil Psutil.C13.Spec

/-! ### statm -/

theorem joinWith_noNL (fs : List Bytes) (h : ∀ f ∈ fs, 10 ∉ f) : 10 ∉ joinWith [32] fs := by
  induction fs with
  | nil => simp [joinWith]
  | cons f t ih =>
    cases t with
    | nil => simpa [joinWith] using h f (by simp)
    | cons g t' =>
      have ih' := ih (fun x hx => h x (by simp [hx]))
      intro hm
      simp only [joinWith, List.mem_append, List.mem_singleton] at hm
      rcases hm with (hm | hm) | hm
      · exact h f (by simp) hm
      · omega
      · exact ih' hm

theorem statm_roundtrip (c : Cfg) (hg : c.Good) (pagesize : Nat) (r : Statm) :
    memoryInfo c pagesize (renderStatm r) = .ok (specMemInfo pagesize r) := by
  unfold memoryInfo renderStatm
  have hnl : 10 ∉ joinWith [32] (r.cols.map renderDec) := by
    apply joinWith_noNL
    intro f hf
    obtain ⟨n, _, rfl⟩ := List.mem_map.mp hf
    exact noNL_of_noWs (renderDec_noWs n)
  rw [readline_append _ [] hnl]
  have hsplit : splitWs (joinWith [32] (r.cols.map renderDec)) = r.cols.map renderDec := by
    apply splitWs_join 32 (by decide)
    intro f hf
    obtain ⟨n, _, rfl⟩ := List.mem_map.mp hf
    exact ⟨renderDec_ne_nil n, renderDec_noWs n⟩
  rw [hsplit, hg.statmTake, hg.statmOrder, hg.statmFixedScale]
  simp [Statm.cols, parseDec_renderDec, specMemInfo]

/-! ### memory_percent -/

theorem lookup_zip_mem (ks : List String) (vs : List Nat) (k : String) (v : Nat)
    (h : (ks.zip vs).lookup k = some v) : k ∈ ks := by
  induction ks generalizing vs with
  | nil => simp [List.lookup] at h
  | cons a t ih =>
    cases vs with
    | nil => simp [List.lookup] at h
    | cons b vs' =>
      simp only [List.zip_cons_cons, List.lookup] at h
      cases hk : (k == a) with
      | true => have : k = a := by simpa using hk
                simp [this]
      | false =>
        simp only [hk] at h
        exact List.mem_cons_of_mem _ (ih vs' h)

theorem lookup_zip_prefix (ks₁ ks₂ : List String) (vs₁ vs₂ : List Nat) (k : String)
    (hlen : vs₁.length = ks₁.length) (hk : k ∈ ks₁) :
    ((ks₁ ++ ks₂).zip (vs₁ ++ vs₂)).lookup k = (ks₁.zip vs₁).lookup k := by
  induction ks₁ generalizing vs₁ with
  | nil => cases hk
  | cons a t ih =>
    cases vs₁ with
    | nil => simp at hlen
    | cons b vs' =>
      simp only [List.cons_append, List.zip_cons_cons, List.lookup]
      cases hka : (k == a) with
      | true => rfl
      | false =>
        have hne : k ≠ a := by simpa using hka
        have hk' : k ∈ t := by
          rcases List.mem_cons.mp hk with h | h
          · exact absurd h hne
          · exact h
        exact ih vs' (by simpa using hlen) hk'

theorem specPercent_eq (v : Nat) (total : Int) : specPercent v total = (v : Rat) / (total : Rat) * 100 := by
  unfold specPercent
  simp only [Rat.div_def]
  rw [Rat.mul_comm ((v : Rat) * (total : Rat)⁻¹) 100, Rat.mul_assoc]

theorem percent_value (c : Cfg) (hg : c.Good) (memtype : String) (vals : List Nat) (u p s : Nat)
    (hlen : vals.length = 7) (cached : Option Int) (vm : Int) (v : Nat)
    (hv : (pfullmemNames.zip (vals ++ [u, p, s])).lookup memtype = some v)
    (total : Int) (htot : total = (match cached with | some t => if t = 0 then vm else t | none => vm))
    (hpos : total > 0) :
    memoryPercent c memtype (.ok vals) (.ok (vals ++ [u, p, s])) cached vm = .ok (specPercent v total) := by
  subst htot
  have hmem : pfullmemNames.contains memtype = true :=
    List.contains_iff_mem.mpr (lookup_zip_mem _ _ _ _ hv)
  unfold memoryPercent
  rw [hg.pfullmemFields, hg.pmemFields, specPercent_eq]
  simp only [hmem, Bool.not_true, Bool.false_eq_true, if_false]
  by_cases hp : pmemNames.contains memtype = true
  · have hv' : (pmemNames.zip vals).lookup memtype = some v := by
      rw [← lookup_zip_prefix pmemNames ["uss", "pss", "swap"] vals [u, p, s] memtype
        (by simpa [pmemNames] using hlen) (List.contains_iff_mem.mp hp)]
      exact hv
    simp only [hp, if_true, hv']
    exact if_pos hpos
  · simp only [hp, Bool.false_eq_true, if_false, hv]
    exact if_pos hpos

theorem bad_memtype (c : Cfg) (hg : c.Good) (memtype : String) (info full : Res (List Nat))
    (cached : Option Int) (vm : Int) (h : memtype ∉ pfullmemNames) :
    memoryPercent c memtype info full cached vm = .error .valueError := by
  unfold memoryPercent
  rw [hg.pfullmemFields]
  have : pfullmemNames.contains memtype = false := by
    cases hc : pfullmemNames.contains memtype with
    | false => rfl
    | true => exact absurd (List.contains_iff_mem.mp hc) h
  simp only [this, Bool.not_false, if_true]

/-! ### grouped: one row per distinct path -/

theorem groupStep_keys (d : List GRow) (r : Row) :
    (groupStep d r).map (·.1) = if (d.lookup r.path).isSome then d.map (·.1) else d.map (·.1) ++ [r.path] := by
  unfold groupStep
  cases h : (d.lookup r.path).isSome
  · simp
  · simp only [if_true, List.map_map]
    apply List.map_congr_left
    intro g _
    simp only [Function.comp]
    split <;> rfl

theorem lookup_none_not_mem (d : List GRow) (q : Bytes) (h : (d.lookup q).isSome = false) :
    q ∉ d.map (·.1) := by
  induction d with
  | nil => simp
  | cons g t ih =>
    obtain ⟨gk, gv⟩ := g
    simp only [List.lookup] at h
    cases hq : (q == gk) with
    | true => simp [hq] at h
    | false =>
      simp only [hq] at h
      have hne : q ≠ gk := by simpa using hq
      simp only [List.map_cons, List.mem_cons, not_or]
      exact ⟨hne, ih h⟩

theorem grouped_nodup (rows : List Row) : ((grouped rows).map (·.1)).Nodup := by
  induction rows using rev_induction with
  | h0 => simp [grouped]
  | hs rows r ih =>
    rw [grouped_snoc, groupStep_keys]
    cases h : ((grouped rows).lookup r.path).isSome
    · simp only [Bool.false_eq_true, if_false]
      rw [List.nodup_append]
      refine ⟨ih, by simp, ?_⟩
      intro a ha b hb
      simp only [List.mem_singleton] at hb
      subst hb
      intro e
      subst e
      exact lookup_none_not_mem _ _ h ha
    · simpa using ih

end Psutil.C13
