/-
  Proofs/C13Full.lean — `_parse_smaps` (three regexes, line-anchored) and `_parse_smaps_rollup`
  over rendered content: uss / pss / swap are the sums over all mappings.
-/
import PsutilModel.Proofs.C13Misc
namespace Psutil.C13
open Psutil Psutil.C13.Spec

/-! ### prefixes -/

theorem prefix_key_beq (k key rest : Bytes) (hk : 58 ∉ k) (hkey : 58 ∉ key) :
    (k ++ [58]).isPrefixOf (key ++ 58 :: rest) = (k == key) := by
  induction k generalizing key with
  | nil =>
    cases key with
    | nil => simp [List.isPrefixOf]
    | cons c t =>
      have : c ≠ 58 := fun e => hkey (by simp [e])
      have h2 : (58 == c) = false := by simpa using fun e => this e.symm
      simp [List.isPrefixOf, h2]
  | cons a k' ih =>
    have ha : a ≠ 58 := fun e => hk (by simp [e])
    cases key with
    | nil =>
      have h2 : (a == 58) = false := by simpa using ha
      simp [List.isPrefixOf, h2]
    | cons c t =>
      have ih' := ih t (fun m => hk (by simp [m])) (fun m => hkey (by simp [m]))
      simp only [List.cons_append, List.isPrefixOf, ih']
      by_cases hac : a = c
      · subst hac; simp
      · have h1 : (a == c) = false := by simpa using hac
        simp [h1, hac]

theorem prefix_nocolon (p key rest : Bytes) (hp : 58 ∉ p) :
    p.isPrefixOf (key ++ 58 :: rest) = p.isPrefixOf key := by
  induction p generalizing key with
  | nil => simp [List.isPrefixOf]
  | cons a p' ih =>
    have ha : a ≠ 58 := fun e => hp (by simp [e])
    cases key with
    | nil =>
      have h2 : (a == 58) = false := by simpa using ha
      simp [List.isPrefixOf, h2]
    | cons c t =>
      simp only [List.cons_append, List.isPrefixOf, ih t (fun m => hp (by simp [m]))]

/-! ### `\s+(\d+)` on the value part of a key line -/

def valuePart (e : KV) : Bytes :=
  List.replicate (gap e.key (renderDec e.val).length) 32 ++ renderDec e.val ++ (if e.kb then unitKb else [])

theorem kvLine_eq (e : KV) : kvLine e = e.key ++ 58 :: valuePart e := by
  simp [kvLine, valuePart]

theorem takeWhile_digits (ds rest : Bytes) (hd : ∀ c ∈ ds, isDigit c = true)
    (hr : rest = [] ∨ ∃ t, rest = 32 :: t) : (ds ++ rest).takeWhile isDigit = ds := by
  induction ds with
  | nil =>
    rcases hr with h | ⟨t, h⟩
    · simp [h]
    · simp [h, isDigit]
  | cons c t ih =>
    have hc := hd c (by simp)
    simp [List.takeWhile, hc, ih (fun x hx => hd x (by simp [hx]))]

theorem wsDigits_valuePart (e : KV) : wsDigits (valuePart e) = some e.val := by
  obtain ⟨g, hg⟩ := gap_pos e.key (renderDec e.val).length
  unfold valuePart
  rw [hg, List.replicate_succ]
  simp only [List.cons_append, wsDigits]
  have sp : isWs 32 = true := by decide
  simp only [sp, if_true]
  rw [List.append_assoc, lstripWs_spaces]
  obtain ⟨c, r, hcr, hc⟩ := tok_head (renderDec_tok e.val)
  have hl : lstripWs (renderDec e.val ++ (if e.kb then unitKb else []))
      = renderDec e.val ++ (if e.kb then unitKb else []) := by
    rw [hcr]; exact lstripWs_cons_nonws c _ hc
  rw [hl, takeWhile_digits _ _ (renderDec_isDigit e.val) (unit_noWs_tail e.kb)]
  have hne : (renderDec e.val).isEmpty = false := by
    rw [hcr]; rfl
  simp [hne, parseDec_renderDec]

theorem valuePart_nocolon (e : KV) : 58 ∉ valuePart e := by
  unfold valuePart
  intro hm
  simp only [List.mem_append, List.mem_replicate] at hm
  rcases hm with (hm | hm) | hm
  · omega
  · have := renderDec_isDigit e.val 58 hm
    simp [isDigit] at this
  · cases e.kb <;> simp [unitKb] at hm

theorem colonSuffixes_nocolon (s : Bytes) (h : 58 ∉ s) : colonSuffixes s = [] := by
  induction s with
  | nil => rfl
  | cons c t ih =>
    have hc : c ≠ 58 := fun e => h (by simp [e])
    simp [colonSuffixes, hc, ih (fun m => h (by simp [m]))]

theorem colonSuffixes_one (k rest : Bytes) (hk : 58 ∉ k) (hr : 58 ∉ rest) :
    colonSuffixes (k ++ 58 :: rest) = [rest] := by
  induction k with
  | nil => simp [colonSuffixes, colonSuffixes_nocolon rest hr]
  | cons c t ih =>
    have hc : c ≠ 58 := fun e => hk (by simp [e])
    simp [colonSuffixes, hc, ih (fun m => hk (by simp [m]))]

/-! ### the three extractors on a key line -/

theorem matchKey_kvLine (k : Bytes) (hk : 58 ∉ k) (e : KV) (he : 58 ∉ e.key) :
    matchKey (k ++ [58]) (kvLine e) = if k == e.key then some e.val else none := by
  unfold matchKey startsWith
  rw [kvLine_eq, prefix_key_beq k e.key _ hk he]
  by_cases h : k = e.key
  · rw [h]
    simp only [beq_self_eq_true, if_true]
    rw [show (e.key ++ 58 :: valuePart e) = (e.key ++ [58]) ++ valuePart e by simp, List.drop_left]
    exact wsDigits_valuePart e
  · have : (k == e.key) = false := by simpa using h
    simp [this]

theorem matchPrivate_kvLine (e : KV) (he : 58 ∉ e.key) :
    matchPrivate (kvLine e) = if startsWith kPrivate e.key then some e.val else none := by
  unfold matchPrivate startsWith
  rw [kvLine_eq, prefix_nocolon kPrivate e.key _ (by decide)]
  by_cases h : kPrivate.isPrefixOf e.key = true
  · simp only [h, if_true]
    obtain ⟨k', hk'⟩ := List.isPrefixOf_iff_prefix.mp h
    have hk'c : 58 ∉ k' := fun m => he (by rw [← hk']; simp [m])
    rw [← hk', List.append_assoc, List.drop_left,
      colonSuffixes_one k' _ hk'c (valuePart_nocolon e)]
    simp [wsDigits_valuePart]
  · simp [h]

theorem sumMatches_append (f : Bytes → Option Nat) (a b : List Bytes) :
    sumMatches f (a ++ b) = sumMatches f a + sumMatches f b := by
  simp [sumMatches, List.sum_append]

theorem sumMatches_cons (f : Bytes → Option Nat) (a : Bytes) (b : List Bytes) :
    sumMatches f (a :: b) = (f a).getD 0 + sumMatches f b := by
  simp [sumMatches]

/-- an extractor that ignores header and VmFlags lines -/
structure Ignores (f : Bytes → Option Nat) : Prop where
  header : ∀ m : Mapping, f (headerLine m) = none
  flags : ∀ fs, f (flagsLine fs) = none
  body : ∀ fs, f (flagsBody fs) = none

def kvSum (f : Bytes → Option Nat) (m : Mapping) : Nat := (m.kv.map fun e => (f (kvLine e)).getD 0).sum

theorem sumMatches_kvs (f : Bytes → Option Nat) (kvs : List KV) :
    sumMatches f (kvs.map kvLine) = (kvs.map fun e => (f (kvLine e)).getD 0).sum := by
  simp [sumMatches, List.map_map, Function.comp_def]

theorem sumMatches_restLines (f : Bytes → Option Nat) (hf : Ignores f) (m : Mapping) (ms : List Mapping) :
    sumMatches f (restLines m ms) = ((m :: ms).map (kvSum f)).sum := by
  induction ms generalizing m with
  | nil =>
    simp only [restLines, tailLinesLast, sumMatches_append, sumMatches_kvs, flagLinesLast]
    cases m.flags with
    | none => simp [sumMatches, kvSum]
    | some fs => simp [sumMatches, kvSum, hf.body fs]
  | cons m2 ms' ih =>
    simp only [restLines, tailLines, sumMatches_append, sumMatches_cons, sumMatches_kvs, flagLines, ih m2,
      hf.header m2]
    cases m.flags with
    | none => simp [sumMatches, kvSum]
    | some fs => simp [sumMatches, kvSum, hf.flags fs]

/-! ### header / VmFlags lines match nothing -/

def hexc (c : Nat) : Prop := (48 ≤ c ∧ c ≤ 57) ∨ (97 ≤ c ∧ c ≤ 102)

theorem hexPad_hexc (w n : Nat) : ∀ c ∈ hexPad w n, hexc c := by
  intro c hc
  unfold hexPad at hc
  simp only [List.mem_append, List.mem_replicate] at hc
  rcases hc with ⟨_, rfl⟩ | hc
  · left; omega
  · refine renderRadix_chars hexLower n hexc ?_ c hc
    intro d hd
    have hd' : d < 16 := hd
    show hexc (if d < 10 then 48 + d else 87 + d)
    unfold hexc
    by_cases h : d < 10
    · simp only [h, if_true]; omega
    · simp only [h, if_false]; omega

theorem headerLine_head (m : Mapping) : ∃ c t, headerLine m = c :: t ∧ hexc c := by
  obtain ⟨c, r, hcr, _⟩ := tok_head (hexPad_tok 8 m.lo)
  have hc : hexc c := hexPad_hexc 8 m.lo c (by rw [hcr]; simp)
  unfold headerLine headerCore addrStr
  rw [hcr]
  cases m.path with
  | none => exact ⟨c, _, by simp; rfl, hc⟩
  | some p => exact ⟨c, _, by simp; rfl, hc⟩

theorem startsWith_head_ne (a c : Nat) (p t : Bytes) (h : a ≠ c) : startsWith (a :: p) (c :: t) = false := by
  have : (a == c) = false := by simpa using h
  simp [startsWith, List.isPrefixOf, this]

theorem ignores_of_prefix (f : Bytes → Option Nat) (a : Nat) (p : Bytes) (ha : a = 80 ∨ a = 83)
    (hf : ∀ l, startsWith (a :: p) l = false → f l = none) : Ignores f := by
  refine ⟨?_, ?_, ?_⟩
  · intro m
    obtain ⟨c, t, hct, hc⟩ := headerLine_head m
    apply hf
    rw [hct]
    apply startsWith_head_ne
    unfold hexc at hc
    omega
  · intro fs
    apply hf
    have : flagsLine fs = 86 :: ([109, 70, 108, 97, 103, 115, 58] ++ [32] ++ fs.flatMap (· ++ [32])) := by
      simp [flagsLine, vmFlagsLabel]
    rw [this]
    apply startsWith_head_ne
    omega
  · intro fs
    apply hf
    have : flagsBody fs = 86 :: ([109, 70, 108, 97, 103, 115, 58] ++ [32] ++ joinWith [32] fs) := by
      simp [flagsBody, vmFlagsLabel]
    rw [this]
    apply startsWith_head_ne
    omega

theorem ignores_matchKey_pss : Ignores (matchKey kPss) :=
  ignores_of_prefix _ 80 [115, 115, 58] (Or.inl rfl) (by
    intro l h
    have : startsWith kPss l = false := h
    simp [matchKey, this])

theorem ignores_matchKey_swap : Ignores (matchKey kSwap) :=
  ignores_of_prefix _ 83 [119, 97, 112, 58] (Or.inr rfl) (by
    intro l h
    have : startsWith kSwap l = false := h
    simp [matchKey, this])

theorem ignores_matchPrivate : Ignores matchPrivate :=
  ignores_of_prefix _ 80 [114, 105, 118, 97, 116, 101] (Or.inl rfl) (by
    intro l h
    have : startsWith kPrivate l = false := h
    simp [matchPrivate, this])

/-! ### sums over the key lines of one mapping -/

theorem sum_zero_of_forall {α : Type} (l : List α) (f : α → Nat) (h : ∀ x ∈ l, f x = 0) :
    (l.map f).sum = 0 := by
  induction l with
  | nil => rfl
  | cons a t ih =>
    simp only [List.map_cons, List.sum_cons, h a (by simp), ih (fun x hx => h x (by simp [hx]))]

theorem sum_key_get (kvs : List KV) (k : Bytes) (hnd : (kvs.map (·.key)).Nodup) :
    (kvs.map fun e => if k == e.key then e.val else 0).sum
      = ((kvs.find? (fun e => e.key == k)).map (·.val)).getD 0 := by
  induction kvs with
  | nil => rfl
  | cons e t ih =>
    simp only [List.map_cons, List.nodup_cons] at hnd
    simp only [List.map_cons, List.sum_cons, List.find?]
    by_cases h : e.key = k
    · have hzero : (t.map fun e' => if k == e'.key then e'.val else 0).sum = 0 := by
        apply sum_zero_of_forall
        intro e' he'
        have hne : k ≠ e'.key := by
          intro heq
          apply hnd.1
          rw [h, heq]
          exact List.mem_map_of_mem (f := (·.key)) he'
        have hb : (k == e'.key) = false := by simpa using hne
        rw [if_neg (by simp [hb])]
      have hb1 : (e.key == k) = true := by simpa using h
      have hb2 : (k == e.key) = true := by simpa using h.symm
      rw [hzero]
      simp [hb1, hb2]
    · have hb : (e.key == k) = false := by simpa using h
      have hb' : (k == e.key) = false := by simpa using fun e' => h e'.symm
      simp only [hb, hb', Bool.false_eq_true, if_false, Nat.zero_add]
      exact ih hnd.2

theorem sum_map_add3 {α : Type} (l : List α) (f g h : α → Nat) :
    (l.map fun x => f x + g x + h x).sum = (l.map f).sum + (l.map g).sum + (l.map h).sum := by
  induction l with
  | nil => rfl
  | cons a t ih => simp only [List.map_cons, List.sum_cons, ih]; omega

theorem private_split (e : KV) (hw : wfKV e = true) :
    (if startsWith kPrivate e.key then e.val else 0)
      = (if bPrivateClean == e.key then e.val else 0) + (if bPrivateDirty == e.key then e.val else 0)
        + (if bPrivateHugetlb == e.key then e.val else 0) := by
  unfold wfKV at hw
  simp only [Bool.and_eq_true, Bool.or_eq_true, Bool.not_eq_true'] at hw
  obtain ⟨⟨_, hp⟩, _⟩ := hw
  have a1 : startsWith kPrivate bPrivateClean = true := by decide
  have a2 : startsWith kPrivate bPrivateDirty = true := by decide
  have a3 : startsWith kPrivate bPrivateHugetlb = true := by decide
  have d12 : (bPrivateClean == bPrivateDirty) = false := by decide
  have d13 : (bPrivateClean == bPrivateHugetlb) = false := by decide
  have d21 : (bPrivateDirty == bPrivateClean) = false := by decide
  have d23 : (bPrivateDirty == bPrivateHugetlb) = false := by decide
  have d31 : (bPrivateHugetlb == bPrivateClean) = false := by decide
  have d32 : (bPrivateHugetlb == bPrivateDirty) = false := by decide
  by_cases h1 : e.key = bPrivateClean
  · rw [h1]; simp [a1, d21, d31]
  · by_cases h2 : e.key = bPrivateDirty
    · rw [h2]; simp [a2, d12, d32]
    · by_cases h3 : e.key = bPrivateHugetlb
      · rw [h3]; simp [a3, d13, d23]
      · have hnot : [bPrivateClean, bPrivateDirty, bPrivateHugetlb].contains e.key = false := by
          simp [h1, h2, h3]
        have hs : startsWith kPrivate e.key = false := by
          rcases hp with hp | hp
          · exact hp
          · rw [hnot] at hp; exact absurd hp (by decide)
        have b1 : (bPrivateClean == e.key) = false := by simpa using fun e' => h1 e'.symm
        have b2 : (bPrivateDirty == e.key) = false := by simpa using fun e' => h2 e'.symm
        have b3 : (bPrivateHugetlb == e.key) = false := by simpa using fun e' => h3 e'.symm
        simp [hs, b1, b2, b3]

theorem wfKV_nocolon {e : KV} (h : wfKV e = true) : 58 ∉ e.key := (wfKey_tok (wfKV_key h)).2

theorem kvSum_key (k : Bytes) (hk : 58 ∉ k) (m : Mapping) (hkv : ∀ e ∈ m.kv, wfKV e = true)
    (hnd : (m.kv.map (·.key)).Nodup) : kvSum (matchKey (k ++ [58])) m = m.get k := by
  unfold kvSum
  rw [get_eq_find, ← sum_key_get m.kv k hnd]
  congr 1
  apply List.map_congr_left
  intro e he
  rw [matchKey_kvLine k hk e (wfKV_nocolon (hkv e he))]
  split <;> rfl

theorem kvSum_private (m : Mapping) (hkv : ∀ e ∈ m.kv, wfKV e = true)
    (hnd : (m.kv.map (·.key)).Nodup) :
    kvSum matchPrivate m = m.get bPrivateClean + m.get bPrivateDirty + m.get bPrivateHugetlb := by
  unfold kvSum
  rw [get_eq_find, get_eq_find, get_eq_find, ← sum_key_get m.kv _ hnd, ← sum_key_get m.kv _ hnd,
    ← sum_key_get m.kv _ hnd, ← sum_map_add3]
  congr 1
  apply List.map_congr_left
  intro e he
  rw [matchPrivate_kvLine e (wfKV_nocolon (hkv e he)), ← private_split e (hkv e he)]
  split <;> rfl

/-! ### _parse_smaps on a rendered file -/

theorem parseSmapsLines_rendered (c : Cfg) (hg : c.Good) {strips : Bool} (K : List Bytes) (hK : K ≠ [])
    (hnd : K.Nodup) (m : Mapping) (ms : List Mapping) (hw : ∀ x ∈ m :: ms, WfM strips K x) :
    parseSmapsLines c (renderSmaps (m :: ms)) = specFull (m :: ms) := by
  obtain ⟨_, hsplit⟩ := smaps_lines K hK m ms hw
  unfold parseSmapsLines
  rw [hsplit, hg.smapsFactor]
  simp only [List.drop_succ_cons, List.drop_zero]
  rw [sumMatches_restLines _ ignores_matchPrivate, sumMatches_restLines _ ignores_matchKey_pss,
    sumMatches_restLines _ ignores_matchKey_swap]
  have hx : ∀ x ∈ m :: ms, (x.kv.map (·.key)).Nodup ∧ ∀ e ∈ x.kv, wfKV e = true := by
    intro x hx
    refine ⟨?_, (hw x hx).kv⟩
    rw [(hw x hx).keys]; exact hnd
  have e1 : (m :: ms).map (kvSum matchPrivate)
      = (m :: ms).map fun x => x.get bPrivateClean + x.get bPrivateDirty + x.get bPrivateHugetlb :=
    List.map_congr_left fun x hxm => kvSum_private x (hx x hxm).2 (hx x hxm).1
  have e2 : (m :: ms).map (kvSum (matchKey kPss)) = (m :: ms).map (·.get bPss) :=
    List.map_congr_left fun x hxm => kvSum_key bPss (by decide) x (hx x hxm).2 (hx x hxm).1
  have e3 : (m :: ms).map (kvSum (matchKey kSwap)) = (m :: ms).map (·.get bSwap) :=
    List.map_congr_left fun x hxm => kvSum_key bSwap (by decide) x (hx x hxm).2 (hx x hxm).1
  rw [e1, e2, e3]
  simp only [specFull, Nat.mul_comm]

/-! ### _parse_smaps_rollup on the rendered roll-up -/

def kPrivate_ : Bytes := [80, 114, 105, 118, 97, 116, 101, 95]

theorem splitWsGo_skip (w : Nat) (rest : Bytes) (hw : isWs w = true) :
    splitWsGo (w :: rest) [] = splitWsGo rest [] := by
  simp [splitWsGo, hw]

theorem splitWsGo_spaces (n : Nat) (rest : Bytes) :
    splitWsGo (List.replicate n 32 ++ rest) [] = splitWsGo rest [] := by
  induction n with
  | zero => simp
  | succ n ih => rw [List.replicate_succ, List.cons_append, splitWsGo_skip 32 _ (by decide), ih]

theorem splitWs_kvLine (e : KV) (hk : wfKey e.key = true) :
    ∃ rest, splitWs (kvLine e) = (e.key ++ [58]) :: renderDec e.val :: rest := by
  obtain ⟨htok, _⟩ := wfKey_tok hk
  obtain ⟨g, hg⟩ := gap_pos e.key (renderDec e.val).length
  have sp : isWs 32 = true := by decide
  have hshape : kvLine e = (e.key ++ [58]) ++ 32 :: (List.replicate g 32
      ++ (renderDec e.val ++ (if e.kb then unitKb else []))) := by
    rw [kvLine_eq]; unfold valuePart; rw [hg, List.replicate_succ]; simp
  unfold splitWs
  rw [hshape, splitWsGo_token _ _ [] htok.2, List.append_nil,
    splitWsGo_ws 32 _ _ sp (by simpa using htok.1), List.reverse_reverse, splitWsGo_spaces,
    splitWsGo_token _ _ [] (renderDec_noWs e.val), List.append_nil]
  rcases unit_noWs_tail e.kb with h | ⟨t, h⟩
  · rw [h]
    have hne : (renderDec e.val).reverse ≠ [] := by simpa using renderDec_ne_nil e.val
    cases hr : (renderDec e.val).reverse with
    | nil => exact absurd hr hne
    | cons a as =>
      have : renderDec e.val = (a :: as).reverse := by rw [← hr]; simp
      exact ⟨[], by simp [splitWsGo, this]⟩
  · rw [h, splitWsGo_ws 32 _ _ sp (by simpa using renderDec_ne_nil e.val), List.reverse_reverse]
    exact ⟨_, rfl⟩

theorem secondInt_kvLine (e : KV) (hk : wfKey e.key = true) : secondInt (kvLine e) = .ok e.val := by
  obtain ⟨rest, h⟩ := splitWs_kvLine e hk
  simp [secondInt, h, parseDec_renderDec]

/-- one iteration of the roll-up loop on a key line -/
def rstep (acc : Full) (e : KV) : Full :=
  if startsWith kPrivate_ e.key then { acc with uss := acc.uss + e.val * 1024 }
  else if bPss == e.key then { acc with pss := e.val * 1024 }
  else if bSwap == e.key then { acc with swap := e.val * 1024 }
  else acc

theorem rollupStep_kvLine (c : Cfg) (hg : c.Good) (acc : Full) (e : KV) (hk : wfKey e.key = true) :
    rollupStep c acc (kvLine e) = .ok (rstep acc e) := by
  have hc := (wfKey_tok hk).2
  unfold rollupStep rstep
  rw [hg.rollupPrivate, hg.rollupPss, hg.rollupSwap, hg.rollupFactor, secondInt_kvLine e hk]
  have h1 : startsWith [80, 114, 105, 118, 97, 116, 101, 95] (kvLine e) = startsWith kPrivate_ e.key := by
    unfold startsWith; rw [kvLine_eq]; exact prefix_nocolon _ _ _ (by decide)
  have h2 : startsWith kPss (kvLine e) = (bPss == e.key) := by
    unfold startsWith; rw [kvLine_eq]; exact prefix_key_beq bPss e.key _ (by decide) hc
  have h3 : startsWith kSwap (kvLine e) = (bSwap == e.key) := by
    unfold startsWith; rw [kvLine_eq]; exact prefix_key_beq bSwap e.key _ (by decide) hc
  rw [h1, h2, h3]
  cases startsWith kPrivate_ e.key <;> cases (bPss == e.key) <;> cases (bSwap == e.key) <;> rfl

theorem rollupLoop_kvs (c : Cfg) (hg : c.Good) (kvs : List KV) (acc : Full)
    (hk : ∀ e ∈ kvs, wfKey e.key = true) :
    rollupLoop c (kvs.map kvLine) acc = .ok (kvs.foldl rstep acc) := by
  induction kvs generalizing acc with
  | nil => rfl
  | cons e t ih =>
    simp only [List.map_cons, rollupLoop, rollupStep_kvLine c hg acc e (hk e (by simp)), List.foldl_cons]
    exact ih _ (fun x hx => hk x (by simp [hx]))

theorem fold_uss (kvs : List KV) (acc : Full) :
    (kvs.foldl rstep acc).uss
      = acc.uss + 1024 * (kvs.map fun e => if startsWith kPrivate_ e.key then e.val else 0).sum := by
  induction kvs generalizing acc with
  | nil => simp
  | cons e t ih =>
    simp only [List.foldl_cons, List.map_cons, List.sum_cons, ih]
    unfold rstep
    cases startsWith kPrivate_ e.key <;> cases (bPss == e.key) <;> cases (bSwap == e.key) <;>
      simp <;> omega

theorem fold_pss (kvs : List KV) (acc : Full) (hnd : (kvs.map (·.key)).Nodup) :
    (kvs.foldl rstep acc).pss
      = match kvs.find? (fun e => e.key == bPss) with | some e => e.val * 1024 | none => acc.pss := by
  induction kvs generalizing acc with
  | nil => rfl
  | cons e t ih =>
    simp only [List.map_cons, List.nodup_cons] at hnd
    simp only [List.foldl_cons, List.find?]
    rw [ih _ hnd.2]
    by_cases h : e.key = bPss
    · have hnone := find_none_of_not_mem t bPss (by rw [← h]; exact hnd.1)
      have hb : (e.key == bPss) = true := by simpa using h
      rw [hnone, hb]
      simp only [rstep, h]
      rfl
    · have hb : (e.key == bPss) = false := by simpa using h
      have hb' : (bPss == e.key) = false := by simpa using fun e' => h e'.symm
      rw [hb]
      simp only
      cases t.find? (fun e => e.key == bPss) with
      | some e' => rfl
      | none =>
        simp only [rstep, hb']
        cases startsWith kPrivate_ e.key <;> cases (bSwap == e.key) <;> rfl

theorem fold_swap (kvs : List KV) (acc : Full) (hnd : (kvs.map (·.key)).Nodup) :
    (kvs.foldl rstep acc).swap
      = match kvs.find? (fun e => e.key == bSwap) with | some e => e.val * 1024 | none => acc.swap := by
  induction kvs generalizing acc with
  | nil => rfl
  | cons e t ih =>
    simp only [List.map_cons, List.nodup_cons] at hnd
    simp only [List.foldl_cons, List.find?]
    rw [ih _ hnd.2]
    by_cases h : e.key = bSwap
    · have hnone := find_none_of_not_mem t bSwap (by rw [← h]; exact hnd.1)
      have hb : (e.key == bSwap) = true := by simpa using h
      rw [hnone, hb]
      simp only [rstep, h]
      rfl
    · have hb : (e.key == bSwap) = false := by simpa using h
      have hb' : (bSwap == e.key) = false := by simpa using fun e' => h e'.symm
      rw [hb]
      simp only
      cases t.find? (fun e => e.key == bSwap) with
      | some e' => rfl
      | none =>
        simp only [rstep, hb']
        cases startsWith kPrivate_ e.key <;> cases (bPss == e.key) <;> rfl

/-! ### the roll-up file agrees with the per-mapping listing -/

def mkRoll (ms : List Mapping) (k : Bytes) : KV := ⟨k, total ms k, true⟩

theorem renderRollup_eq (K : List Bytes) (ms : List Mapping) :
    ∃ lo hi, renderRollup K ms = unlines (rollupHeader lo hi :: (K.map (mkRoll ms)).map kvLine) := by
  refine ⟨(ms.head?.map (·.lo)).getD 0, (ms.getLast?.map (·.hi)).getD 0, ?_⟩
  unfold renderRollup
  simp only [List.map_map, Function.comp_def, mkRoll]

theorem rollupHeader_noNL (lo hi : Nat) : 10 ∉ rollupHeader lo hi :=
  (lineOK_headerLine (rollupMapping lo hi) (by
    intro p hp
    have : p = [91, 114, 111, 108, 108, 117, 112, 93] := by
      simp only [rollupMapping, Option.some.injEq] at hp; exact hp.symm
    rw [this]; decide)).1

theorem rollupHeader_head (lo hi : Nat) : ∃ c t, rollupHeader lo hi = c :: t ∧ hexc c :=
  headerLine_head (rollupMapping lo hi)

theorem rollupStep_header (c : Cfg) (hg : c.Good) (acc : Full) (lo hi : Nat) :
    rollupStep c acc (rollupHeader lo hi) = .ok acc := by
  obtain ⟨ch, t, hct, hc⟩ := rollupHeader_head lo hi
  unfold rollupStep
  rw [hg.rollupPrivate, hg.rollupPss, hg.rollupSwap, hct]
  unfold hexc at hc
  rw [startsWith_head_ne 80 ch _ t (by omega), show kPss = 80 :: [115, 115, 58] from rfl,
    startsWith_head_ne 80 ch _ t (by omega), show kSwap = 83 :: [119, 97, 112, 58] from rfl,
    startsWith_head_ne 83 ch _ t (by omega)]
  rfl

theorem find_mkRoll (ms : List Mapping) (K : List Bytes) (k0 : Bytes) :
    (K.map (mkRoll ms)).find? (fun e => e.key == k0) = if k0 ∈ K then some (mkRoll ms k0) else none := by
  induction K with
  | nil => simp
  | cons k t ih =>
    simp only [List.map_cons, List.find?, List.mem_cons]
    by_cases h : k = k0
    · subst h; simp [mkRoll]
    · have hb : ((mkRoll ms k).key == k0) = false := by simpa [mkRoll] using h
      rw [hb, ih]
      have : (k0 = k ∨ k0 ∈ t) ↔ k0 ∈ t := ⟨fun o => o.elim (fun e => absurd e.symm h) id, Or.inr⟩
      simp only [this]

theorem sum_pick (K : List Bytes) (hnd : K.Nodup) (k0 : Bytes) (f : Bytes → Nat) :
    (K.map fun k => if k0 == k then f k else 0).sum = if k0 ∈ K then f k0 else 0 := by
  induction K with
  | nil => simp
  | cons k t ih =>
    simp only [List.nodup_cons] at hnd
    simp only [List.map_cons, List.sum_cons, List.mem_cons, ih hnd.2]
    by_cases h : k0 = k
    · subst h
      simp [hnd.1]
    · have hb : (k0 == k) = false := by simpa using h
      simp [hb, h]

def special : List Bytes := [bPrivateClean, bPrivateDirty, bPrivateHugetlb, bPss, bSwap]

theorem wfKV_special_kb {e : KV} (h : wfKV e = true) (hs : e.key ∈ special) : e.kb = true := by
  unfold wfKV at h
  simp only [Bool.and_eq_true, Bool.or_eq_true, Bool.not_eq_true'] at h
  rcases h.2 with h2 | h2
  · have : special.contains e.key = true := List.contains_iff_mem.mpr hs
    unfold special at this
    rw [this] at h2
    exact absurd h2 (by decide)
  · exact h2

theorem total_absent {strips : Bool} (m : Mapping) (ms : List Mapping)
    (hw : ∀ x ∈ m :: ms, WfM strips (m.kv.map (·.key)) x) (k0 : Bytes) (hs : k0 ∈ special)
    (hk : k0 ∉ rollupKeysOf (m :: ms)) : total (m :: ms) k0 = 0 := by
  have hnot : k0 ∉ m.kv.map (·.key) := by
    intro hm
    obtain ⟨e, he, hek⟩ := List.mem_map.mp hm
    apply hk
    unfold rollupKeysOf
    have hkb : e.kb = true := wfKV_special_kb ((hw m (by simp)).kv e he) (by rw [hek]; exact hs)
    exact List.mem_map.mpr ⟨e, List.mem_filter.mpr ⟨he, hkb⟩, hek⟩
  unfold total
  apply sum_zero_of_forall
  intro x hx
  have : k0 ∉ x.kv.map (·.key) := by rw [(hw x hx).keys]; exact hnot
  rw [get_eq_find, find_none_of_not_mem x.kv k0 this]
  rfl

theorem startsWith_private_ (k : Bytes) (h : startsWith kPrivate k = false) : startsWith kPrivate_ k = false := by
  cases hp : startsWith kPrivate_ k with
  | false => rfl
  | true =>
    have h1 : kPrivate_ <+: k := List.isPrefixOf_iff_prefix.mp hp
    have h2 : kPrivate <+: kPrivate_ := ⟨[95], rfl⟩
    have h3 : startsWith kPrivate k = true := List.isPrefixOf_iff_prefix.mpr (h2.trans h1)
    rw [h] at h3
    exact absurd h3 (by decide)

theorem private_split_ (e : KV) (hw : wfKV e = true) :
    (if startsWith kPrivate_ e.key then e.val else 0)
      = (if bPrivateClean == e.key then e.val else 0) + (if bPrivateDirty == e.key then e.val else 0)
        + (if bPrivateHugetlb == e.key then e.val else 0) := by
  rw [← private_split e hw]
  cases hp : startsWith kPrivate e.key with
  | false => simp [startsWith_private_ e.key hp]
  | true =>
    -- the key is one of the three documented ones, all of which start with `Private_`
    unfold wfKV at hw
    simp only [Bool.and_eq_true, Bool.or_eq_true, Bool.not_eq_true'] at hw
    rcases hw.1.2 with h | h
    · rw [hp] at h; exact absurd h (by decide)
    · simp only [List.contains_cons, List.contains_nil, Bool.or_false, Bool.or_eq_true, beq_iff_eq] at h
      rcases h with h | h | h
      · rw [h, show startsWith kPrivate_ bPrivateClean = true from by decide]
      · rw [h, show startsWith kPrivate_ bPrivateDirty = true from by decide]
      · rw [h, show startsWith kPrivate_ bPrivateHugetlb = true from by decide]

theorem wfKV_mkRoll {e : KV} (h : wfKV e = true) (hkb : e.kb = true) (v : Nat) : wfKV ⟨e.key, v, true⟩ = true := by
  unfold wfKV at h ⊢
  simp only [hkb] at h
  exact h


theorem rollup_parse (c : Cfg) (hg : c.Good) (K : List Bytes) (ms : List Mapping)
    (hkeys : ∀ e ∈ K.map (mkRoll ms), wfKey e.key = true) :
    parseSmapsRollup c (renderRollup K ms) = .ok ((K.map (mkRoll ms)).foldl rstep ⟨0, 0, 0⟩) := by
  obtain ⟨lo, hi, hren⟩ := renderRollup_eq K ms
  have hnl : ∀ l ∈ rollupHeader lo hi :: (K.map (mkRoll ms)).map kvLine, 10 ∉ l := by
    intro l hl
    rcases List.mem_cons.mp hl with h | h
    · rw [h]; exact rollupHeader_noNL lo hi
    · obtain ⟨e, he, rfl⟩ := List.mem_map.mp h
      exact (lineOK_kvLine e (hkeys e he)).1
  unfold parseSmapsRollup
  rw [hren, linesOf_unlines _ hnl]
  show (match rollupStep c ⟨0, 0, 0⟩ (rollupHeader lo hi) with
    | .ok acc' => rollupLoop c ((K.map (mkRoll ms)).map kvLine) acc'
    | .error e => .error e) = _
  rw [rollupStep_header c hg]
  exact rollupLoop_kvs c hg _ _ hkeys

theorem full_ext (a b : Full) (h1 : a.uss = b.uss) (h2 : a.pss = b.pss) (h3 : a.swap = b.swap) : a = b := by
  cases a; cases b; simp_all

theorem pick_total (all : List Mapping) (K : List Bytes)
    (habs : ∀ k0 ∈ special, k0 ∉ K → total all k0 = 0) (k0 : Bytes) (hs : k0 ∈ special) :
    (if k0 ∈ K then total all k0 else 0) = total all k0 := by
  by_cases hk : k0 ∈ K
  · rw [if_pos hk]
  · rw [if_neg hk, habs k0 hs hk]

theorem fold_rollup_uss (all : List Mapping) (K : List Bytes) (hKnd : K.Nodup)
    (hwf : ∀ e ∈ K.map (mkRoll all), wfKV e = true)
    (habs : ∀ k0 ∈ special, k0 ∉ K → total all k0 = 0) :
    ((K.map (mkRoll all)).map fun e => if startsWith kPrivate_ e.key then e.val else 0).sum
      = (all.map fun x => x.get bPrivateClean + x.get bPrivateDirty + x.get bPrivateHugetlb).sum := by
  have hsplit : ∀ e ∈ K.map (mkRoll all),
      (if startsWith kPrivate_ e.key then e.val else 0)
        = (if bPrivateClean == e.key then e.val else 0) + (if bPrivateDirty == e.key then e.val else 0)
          + (if bPrivateHugetlb == e.key then e.val else 0) :=
    fun e he => private_split_ e (hwf e he)
  rw [List.map_congr_left hsplit, sum_map_add3, sum_map_add3]
  have h1 : ((K.map (mkRoll all)).map fun e => if bPrivateClean == e.key then e.val else 0)
      = K.map fun k => if bPrivateClean == k then total all k else 0 := by
    rw [List.map_map]; rfl
  have h2 : ((K.map (mkRoll all)).map fun e => if bPrivateDirty == e.key then e.val else 0)
      = K.map fun k => if bPrivateDirty == k then total all k else 0 := by
    rw [List.map_map]; rfl
  have h3 : ((K.map (mkRoll all)).map fun e => if bPrivateHugetlb == e.key then e.val else 0)
      = K.map fun k => if bPrivateHugetlb == k then total all k else 0 := by
    rw [List.map_map]; rfl
  rw [h1, h2, h3, sum_pick K hKnd bPrivateClean (total all), sum_pick K hKnd bPrivateDirty (total all),
    sum_pick K hKnd bPrivateHugetlb (total all),
    pick_total all K habs bPrivateClean (by decide), pick_total all K habs bPrivateDirty (by decide),
    pick_total all K habs bPrivateHugetlb (by decide)]
  rfl

theorem map_key_mkRoll (all : List Mapping) (K : List Bytes) : (K.map (mkRoll all)).map (·.key) = K := by
  induction K with
  | nil => rfl
  | cons k t ih => simp only [List.map_cons, ih]; rfl

theorem fold_rollup_spec (all : List Mapping) (K : List Bytes) (hKnd : K.Nodup)
    (hwf : ∀ e ∈ K.map (mkRoll all), wfKV e = true)
    (habs : ∀ k0 ∈ special, k0 ∉ K → total all k0 = 0) :
    (K.map (mkRoll all)).foldl rstep ⟨0, 0, 0⟩ = specFull all := by
  have hndRoll : ((K.map (mkRoll all)).map (·.key)).Nodup := by
    rw [map_key_mkRoll]
    exact hKnd
  apply full_ext
  · rw [fold_uss, fold_rollup_uss all K hKnd hwf habs]
    simp only [specFull, Nat.zero_add]
  · rw [fold_pss _ _ hndRoll, find_mkRoll]
    by_cases hk : bPss ∈ K
    · rw [if_pos hk]
      show total all bPss * 1024 = 1024 * total all bPss
      exact Nat.mul_comm _ _
    · rw [if_neg hk]
      show 0 = 1024 * total all bPss
      rw [habs bPss (by decide) hk]
  · rw [fold_swap _ _ hndRoll, find_mkRoll]
    by_cases hk : bSwap ∈ K
    · rw [if_pos hk]
      show total all bSwap * 1024 = 1024 * total all bSwap
      exact Nat.mul_comm _ _
    · rw [if_neg hk]
      show 0 = 1024 * total all bSwap
      rw [habs bSwap (by decide) hk]

end Psutil.C13
