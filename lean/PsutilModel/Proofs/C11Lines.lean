/-
  Proofs/C11Lines.lean — a line rendered by the kernel-side renderers is parsed back by
  `process_inet` / `process_unix` into exactly the promised tuple.
-/
import PsutilModel.Proofs.C11Hex
import PsutilModel.Proofs.C11Split
set_option linter.unusedSimpArgs false
namespace Psutil.C11
open Spec

/-- the errno values the code tells apart by name / by exception class -/
def namedErrnos : List Errno := [.enoent, .esrch, .einval, .enametoolong, .eacces, .eperm]
def knownErrnoNames : List String := namedErrnos.map Errno.name
def knownClasses : List String := ["FileNotFoundError", "ProcessLookupError", "PermissionError"]

/-- the configuration under which the full statements hold (every field is a translator fact;
    `littleEndian` is deliberately unconstrained: the theorems hold on both kinds of host) -/
structure Cfg.Good (c : Cfg) : Prop where
  afInet : c.afInet = 2
  afInet6 : c.afInet6 = 10
  afUnix : c.afUnix = 1
  sockStream : c.sockStream = 1
  connNone : c.connNone = "NONE"
  statuses : (List.range' 1 11).all (fun st => c.tcpStatuses.lookup (hexW 2 st) == stateName st) = true
  inodesExtend : c.inodesExtend = true
  unixPathRest : c.unixPathRest = true
  inetN : c.inetN = 10
  iLaddr : c.iLaddr = 1
  iRaddr : c.iRaddr = 2
  iStatus : c.iStatus = 3
  iInode : c.iInode = 9
  unixN : c.unixN = 7
  uType : c.uType = 4
  uInode : c.uInode = 6
  /-- the host's Python can format IPv6 addresses (`Cfg.NoV6` in Proofs/C11NoV6.lean is the other case) -/
  ntop6 : c.ntop6Fails = false
  /-- get_proc_inodes steps over a failing `readlink` exactly for the "descriptor is not there (any more)"
      errnos of the specification (ENOENT, ESRCH, EINVAL, ENAMETOOLONG) and re-raises EACCES / EPERM … -/
  linkSkip : namedErrnos.all (fun e => linkSkips c e == errVanished e) = true
  /-- … and its clauses mention no other errno name and no wider class (so anything else is re-raised) -/
  linkSkipNamed : (c.linkSkipErrnos.all knownErrnoNames.contains && c.linkSkipClasses.all knownClasses.contains) = true
  /-- get_all_inodes `continue`s exactly when `get_proc_inodes` fails with an errno that means "process gone or
      not ours" (ENOENT, ESRCH, EACCES, EPERM), whether it comes from `listdir` or from a re-raised `readlink` … -/
  allSkip : namedErrnos.all (fun e => allCaught c (Exc.ofErrno e) == errUnlistable e) = true
  /-- … and names no wider class (EIO, EMFILE, ENOMEM … propagate) -/
  allSkipNamed : c.allSkipClasses.all knownClasses.contains = true
  /-- `_Ipv6UnsupportedError`: raised by decode_address when `supports_ipv6()` is false, and the line is skipped -/
  v6RaiseUnsupported : c.v6RaiseUnsupported = true
  v6SkipLine : c.v6SkipLine = true
  /-- decode_address: the IPv4 string is byte-reversed on a little-endian host only, the IPv6 words are swapped on a
      little-endian host only (translator fact `ntopCalls`: the second argument of each of the four `inet_ntop` calls) -/
  v4RevLE : c.v4RevLE = true
  v4RevBE : c.v4RevBE = false
  v6SwapLE : c.v6SwapLE = true
  v6SwapBE : c.v6SwapBE = false
  ntopKnown : c.ntopKnown = true

theorem Cfg.Good.status {c : Cfg} (hg : c.Good) (st : Nat) (h1 : 1 ≤ st) (h2 : st ≤ 11) :
    c.tcpStatuses.lookup (hexW 2 st) = stateName st := by
  have := List.all_eq_true.mp hg.statuses st (by rw [List.mem_range'_1]; omega)
  simpa using this

/-! ### tokens -/

/-- a token: non-empty and free of whitespace -/
def OKTok (t : Bytes) : Prop := t ≠ [] ∧ NoWs t

theorem noWs_append {a b : Bytes} (ha : NoWs a) (hb : NoWs b) : NoWs (a ++ b) := by
  intro c hc
  rcases List.mem_append.mp hc with h | h
  · exact ha c h
  · exact hb c h

theorem noWs_hexW (w n : Nat) : NoWs (hexW w n) := fun c hc => isHex_notWs (hexW_isHex w n c hc)

theorem okTok_hexW (w n : Nat) : OKTok (hexW (w + 1) n) :=
  ⟨by intro h; have := hexW_length (w + 1) n; rw [h] at this; simp at this, noWs_hexW _ _⟩

theorem okTok_dec (n : Nat) : OKTok (renderDec n) := ⟨renderDec_ne_nil n, renderDec_noWs n⟩

theorem okTok_decColon (n : Nat) : OKTok (renderDec n ++ [58]) :=
  ⟨by simp, noWs_append (renderDec_noWs n) (by intro c hc; simp at hc; subst hc; decide)⟩

theorem noWs_renderWords (le : Bool) (ip : Bytes) : NoWs (renderWords le ip) :=
  fun c hc => isHex_notWs (renderWords_isHex le _ ip (Nat.le_refl _) c hc)

theorem okTok_endpoint (le : Bool) (ip : Bytes) (port : Nat) : OKTok (renderEndpoint le ip port) := by
  refine ⟨by simp [renderEndpoint], ?_⟩
  unfold renderEndpoint
  apply noWs_append (noWs_renderWords le ip)
  intro c hc
  rcases List.mem_cons.mp hc with h | h
  · subst h; decide
  · exact noWs_hexW 4 port c h

theorem okTok_queues (a b : Nat) : OKTok (hexW 8 a ++ 58 :: hexW 8 b) := by
  refine ⟨by simp, ?_⟩
  apply noWs_append (noWs_hexW 8 a)
  intro c hc
  rcases List.mem_cons.mp hc with h | h
  · subst h; decide
  · exact noWs_hexW 8 b c h

theorem fieldsOK_inet (le tcp : Bool) (sl : Nat) (s : Sock) : FieldsOK (inetFields le tcp sl s) := by
  have l1 : OKTok (lit "00:00000000") := by refine ⟨by decide, ?_⟩; unfold NoWs; decide
  have l2 : OKTok (lit "00000000") := by refine ⟨by decide, ?_⟩; unfold NoWs; decide
  have l3 : OKTok (lit "0") := by refine ⟨by decide, ?_⟩; unfold NoWs; decide
  have l4 : OKTok (lit "1") := by refine ⟨by decide, ?_⟩; unfold NoWs; decide
  have l5 : OKTok (lit "0000000000000000") := by refine ⟨by decide, ?_⟩; unfold NoWs; decide
  have l6 : OKTok (lit "100") := by refine ⟨by decide, ?_⟩; unfold NoWs; decide
  have l7 : OKTok (lit "10") := by refine ⟨by decide, ?_⟩; unfold NoWs; decide
  have l8 : OKTok (lit "2") := by refine ⟨by decide, ?_⟩; unfold NoWs; decide
  have h1 := okTok_decColon sl
  have h2 := okTok_endpoint le s.lip s.lport
  have h3 := okTok_endpoint le s.rip s.rport
  have h4 := okTok_hexW 1 s.state
  have h5 := okTok_queues s.txq s.rxq
  have h6 := okTok_dec s.uid
  have h7 := okTok_dec s.inode
  unfold OKTok at *
  cases tcp <;>
    simp only [FieldsOK, inetFields, List.cons_append, List.nil_append, List.mem_cons, List.not_mem_nil,
      or_false, forall_eq_or_imp, forall_eq, Bool.false_eq_true, if_false, if_true] <;>
    simp only [h1, h2, h3, h4, h5, h6, h7, l1, l2, l3, l4, l5, l6, l7, l8, and_self, not_false_eq_true, ne_eq]

theorem padsOK_inet (le tcp : Bool) (sl : Nat) (s : Sock) : PadsOK (inetFields le tcp sl s).tail := by
  cases tcp <;>
    simp only [PadsOK, inetFields, List.cons_append, List.nil_append, List.tail_cons, List.mem_cons,
      List.not_mem_nil, or_false, forall_eq_or_imp, forall_eq, Bool.false_eq_true, if_false, if_true] <;>
    omega

theorem tailOK_replicate (k : Nat) : TailOK (List.replicate k 32) := by
  cases k with
  | zero => left; rfl
  | succ k => right; exact ⟨32, List.replicate k 32, by simp [List.replicate_succ], isWs_32⟩

theorem splitWsGo_replicate (k : Nat) : splitWsGo (List.replicate k 32) [] = [] := by
  have := splitWsGo_pad k []
  simpa [splitWsGo] using this

/-- `line.split()` of a rendered tcp/udp line gives exactly its fields -/
theorem splitWs_inetLine (le tcp : Bool) (sl : Nat) (s : Sock) :
    splitWs (inetLine le tcp sl s) = (inetFields le tcp sl s).map (·.2) := by
  unfold inetLine padRight
  have hf := fieldsOK_inet le tcp sl s
  have hp := padsOK_inet le tcp sl s
  generalize hk : lineWidth s.fam tcp - (fieldsLine (inetFields le tcp sl s)).length = k
  match hfs : inetFields le tcp sl s, hf, hp with
  | [], _, _ => cases tcp <;> simp [inetFields] at hfs
  | f :: fs, hf, hp =>
    rw [splitWs_fields f fs hf (by simpa using hp) _ (tailOK_replicate k), splitWsGo_replicate]
    simp

/-! ### `decode_address` undoes the kernel's rendering -/

theorem decode_v4 (c : Cfg) (hg : c.Good) (ip : Bytes) (hl : ip.length = 4) (hb : ∀ b ∈ ip, b < 256)
    (port : Nat) (hp : port < 65536) :
    decodeAddress c (renderEndpoint c.littleEndian ip port) 2 = .ok (endpoint ip port) := by
  unfold decodeAddress
  rw [splitOn_endpoint]
  simp only [parseHex_hexW4 port hp]
  cases port with
  | zero => simp [endpoint]
  | succ p =>
    simp only [b16decode_renderWords c.littleEndian 1 ip (by omega) hb, hg.afInet, if_true]
    match ip, hl with
    | [b0, b1, b2, b3], _ =>
      cases hle : c.littleEndian <;> simp [perWord, swap32, endpoint, Cfg.v4Rev, hle, hg.v4RevLE, hg.v4RevBE]

theorem decode_v6 (c : Cfg) (hg : c.Good) (ip : Bytes) (hl : ip.length = 16) (hb : ∀ b ∈ ip, b < 256)
    (port : Nat) (hp : port < 65536) :
    decodeAddress c (renderEndpoint c.littleEndian ip port) 10 = .ok (endpoint ip port) := by
  unfold decodeAddress
  rw [splitOn_endpoint]
  simp only [parseHex_hexW4 port hp]
  cases port with
  | zero => simp [endpoint]
  | succ p =>
    have h4 : ip.length = 4 * 4 := by omega
    simp only [b16decode_renderWords c.littleEndian 4 ip h4 hb, hg.afInet]
    have hne : ¬ (10 = 2) := by decide
    simp only [hne, if_false]
    cases hle : c.littleEndian
    · simp [perWord, hl, endpoint, hg.ntop6, Cfg.v6Swap, hle, hg.v6SwapBE]
    · simp [perWord, swap32_length 4 ip h4, swap32_swap32 4 ip h4, hl, endpoint, hg.ntop6, Cfg.v6Swap, hle, hg.v6SwapLE]

theorem stateName_some (st : Nat) (h1 : 1 ≤ st) (h2 : st ≤ 11) : ∃ n, stateName st = some n := by
  match st, h1, h2 with
  | 1, _, _ | 2, _, _ | 3, _, _ | 4, _, _ | 5, _, _ | 6, _, _ | 7, _, _ | 8, _, _ | 9, _, _
  | 10, _, _ | 11, _, _ => exact ⟨_, rfl⟩

/-- the promised tuple for `s` with the owner fields filled in -/
def rowFor (s : Sock) (pid : Option Nat) (fd : Int) : Row := { baseRow s with pid := pid, fd := fd }

def IsInet (s : Sock) : Prop := s.fam = .inet4 ∨ s.fam = .inet6

/-- one rendered tcp/udp line is parsed into exactly the promised tuple (owner from the inode map) -/
theorem processInetLine_render (c : Cfg) (hg : c.Good) (s : Sock) (hi : IsInet s) (hwf : s.WF) (sl : Nat)
    (inodes : Inodes) (fp : Option Nat) :
    processInetLine c s.fam.num s.typ inodes fp (inetLine c.littleEndian (s.typ == 1) sl s) =
      match pidFd inodes (renderDec s.inode) with
      | .error e => .error e
      | .ok (pid, fd) => if filteredOut fp pid then .ok none else .ok (some (rowFor s pid fd)) := by
  unfold processInetLine
  rw [splitWs_inetLine]
  have hlen : ¬ ((inetFields c.littleEndian (s.typ == 1) sl s).map (·.2)).length < c.inetN := by
    rw [hg.inetN]; cases (s.typ == 1) <;> simp [inetFields]
  have e1 : ((inetFields c.littleEndian (s.typ == 1) sl s).map (·.2))[c.iLaddr]? =
      some (renderEndpoint c.littleEndian s.lip s.lport) := by rw [hg.iLaddr]; simp [inetFields]
  have e2 : ((inetFields c.littleEndian (s.typ == 1) sl s).map (·.2))[c.iRaddr]? =
      some (renderEndpoint c.littleEndian s.rip s.rport) := by rw [hg.iRaddr]; simp [inetFields]
  have e3 : ((inetFields c.littleEndian (s.typ == 1) sl s).map (·.2))[c.iStatus]? =
      some (hexW 2 s.state) := by rw [hg.iStatus]; simp [inetFields]
  have e4 : ((inetFields c.littleEndian (s.typ == 1) sl s).map (·.2))[c.iInode]? =
      some (renderDec s.inode) := by rw [hg.iInode]; simp [inetFields]
  simp only [hlen, if_false, e1, e2, e3, e4]
  cases hpf : pidFd inodes (renderDec s.inode) with
  | error e => rfl
  | ok pf =>
    obtain ⟨pid, fd⟩ := pf
    simp only []
    cases hfo : filteredOut fp pid with
    | true => simp
    | false =>
      simp only [Bool.false_eq_true, if_false]
      -- both endpoints decode, the status is the state's name
      have hdec : ∃ (hlp : s.lport < 65536) (hrp : s.rport < 65536) (ht : s.typ = 1 ∨ s.typ = 2),
          (s.typ = 1 → 1 ≤ s.state ∧ s.state ≤ 11) ∧
          decodeAddress c (renderEndpoint c.littleEndian s.lip s.lport) s.fam.num = .ok (endpoint s.lip s.lport) ∧
          decodeAddress c (renderEndpoint c.littleEndian s.rip s.rport) s.fam.num = .ok (endpoint s.rip s.rport) := by
        rcases hi with h | h
        · simp only [Sock.WF, h] at hwf
          obtain ⟨a1, a2, a3, a4, a5, a6, a7, a8⟩ := hwf
          exact ⟨a5, a6, a7, a8, by rw [h]; exact decode_v4 c hg _ a1 a3 _ a5, by rw [h]; exact decode_v4 c hg _ a2 a4 _ a6⟩
        · simp only [Sock.WF, h] at hwf
          obtain ⟨a1, a2, a3, a4, a5, a6, a7, a8⟩ := hwf
          exact ⟨a5, a6, a7, a8, by rw [h]; exact decode_v6 c hg _ a1 a3 _ a5, by rw [h]; exact decode_v6 c hg _ a2 a4 _ a6⟩
      obtain ⟨_, _, ht, hst, hl, hr⟩ := hdec
      rw [hl, hr, hg.sockStream, hg.connNone]
      have hfam : baseRow s = ⟨0, s.fam.num, s.typ, endpoint s.lip s.lport, endpoint s.rip s.rport,
          (if s.typ = 1 then (stateName s.state).getD "" else "NONE"), none⟩ := by
        rcases hi with h | h <;> simp [baseRow, h]
      rcases ht with ht | ht
      · obtain ⟨h1, h2⟩ := hst ht
        obtain ⟨nm, hnm⟩ := stateName_some s.state h1 h2
        simp [ht, hg.status s.state h1 h2, hnm, rowFor, hfam]
      · simp [ht, rowFor, hfam]

/-! ### `process_unix` on a rendered line -/

theorem fieldsOK_unix (s : Sock) : FieldsOK (unixFields s) := by
  have l1 : OKTok (lit "0000000000000000:") := by refine ⟨by decide, ?_⟩; unfold NoWs; decide
  have h1 := okTok_hexW 7 s.refcnt
  have h2 := okTok_hexW 7 0
  have h3 := okTok_hexW 7 s.flags
  have h4 := okTok_hexW 3 s.typ
  have h5 := okTok_hexW 1 s.state
  have h6 := okTok_dec s.inode
  unfold OKTok at *
  simp only [FieldsOK, unixFields, List.mem_cons, List.not_mem_nil, or_false, forall_eq_or_imp, forall_eq]
  simp only [h1, h2, h3, h4, h5, h6, l1, and_self, not_false_eq_true, ne_eq]

theorem padsOK_unix (s : Sock) : PadsOK (unixFields s).tail := by
  simp only [PadsOK, unixFields, List.tail_cons, List.mem_cons, List.not_mem_nil, or_false,
    forall_eq_or_imp, forall_eq]
  omega

/-- what follows the seven fields of a unix line -/
def unixTail (s : Sock) : Bytes :=
  match s.path with
  | some p => 32 :: p
  | none => []

theorem unixLine_eq (s : Sock) : unixLine s = fieldsLine (unixFields s) ++ unixTail s := rfl

theorem tailOK_unix (s : Sock) : TailOK (unixTail s) := by
  unfold unixTail
  cases s.path with
  | none => left; rfl
  | some p => right; exact ⟨32, p, rfl, isWs_32⟩

theorem unixPairs_ok (c : Cfg) (line : Bytes) (tokens : List Bytes) (typeTok : Bytes) (fp : Option Nat)
    (path : Bytes) (t : Nat) (hpath : unixPath c line tokens = .ok path) (ht : parseDec? typeTok = some t) :
    ∀ pairs : List (Option Nat × Int), unixPairs c line tokens typeTok fp pairs =
      .ok ((pairs.filter (fun p => !filteredOut fp p.1)).map
        (fun p => ⟨p.2, c.afUnix, t, .path path, .path [], c.connNone, p.1⟩)) := by
  intro pairs
  induction pairs with
  | nil => rfl
  | cons p ps ih =>
    obtain ⟨pid, fd⟩ := p
    unfold unixPairs
    cases hf : filteredOut fp pid with
    | true => simp [ih, hf]
    | false => simp [hpath, ht, ih, hf]

theorem parseDec_type (t : Nat) (h : t ≤ 9) : parseDec? (hexW 4 t) = some t := by
  have : t = 0 ∨ t = 1 ∨ t = 2 ∨ t = 3 ∨ t = 4 ∨ t = 5 ∨ t = 6 ∨ t = 7 ∨ t = 8 ∨ t = 9 := by omega
  rcases this with h | h | h | h | h | h | h | h | h | h <;> subst h <;> decide

/-- one rendered unix line is parsed into exactly the promised tuples, one per visible owner -/
theorem processUnixLine_render (c : Cfg) (hg : c.Good) (s : Sock) (hu : s.fam = .unix) (hwf : s.WF)
    (inodes : Inodes) (fp : Option Nat) :
    processUnixLine c inodes fp (unixLine s) =
      .ok (((ownerPairs inodes (renderDec s.inode)).filter (fun p => !filteredOut fp p.1)).map
        (fun p => rowFor s p.1 p.2)) := by
  simp only [Sock.WF, hu] at hwf
  obtain ⟨htyp, _⟩ := hwf
  have hf := fieldsOK_unix s
  have hp := padsOK_unix s
  have htoks : splitWs (unixLine s) = (unixFields s).map (·.2) ++ splitWsGo (unixTail s) [] := by
    rw [unixLine_eq]
    match hfs : unixFields s, hf, hp with
    | [], _, _ => simp [unixFields] at hfs
    | f :: fs, hf, hp =>
      rw [splitWs_fields f fs hf (by simpa using hp) _ (tailOK_unix s)]
      simp
  have hmax : (splitWsMax 6 (unixLine s))[6]? = some (renderDec s.inode ++ unixTail s) := by
    rw [unixLine_eq]
    have hf' : FieldsOK ((0, lit "0000000000000000:") :: (unixFields s).tail) := by simpa [unixFields] using hf
    have := splitWsMax_fields (unixFields s).tail (0, lit "0000000000000000:") hf' hp (unixTail s)
    simp only [unixFields, List.tail_cons, List.length_cons, List.length_nil] at this
    simp only [unixFields]
    rw [this]
    simp [List.dropLast, List.getLast]
  have hpath : unixPath c (unixLine s) (splitWs (unixLine s)) = .ok (s.path.getD []) := by
    unfold unixPath
    simp only [hg.unixPathRest, if_true, hmax]
    have h32 : 32 ∉ renderDec s.inode := renderDec_not_mem s.inode 32 (by decide)
    unfold unixTail
    cases s.path with
    | none => simp [afterFirstSpace_none _ h32]
    | some p => simp [afterFirstSpace_append _ p h32]
  unfold processUnixLine
  simp only [htoks]
  have hlen : ¬ ((unixFields s).map (·.2) ++ splitWsGo (unixTail s) []).length < c.unixN := by
    rw [hg.unixN]; simp [unixFields]
  have e1 : ((unixFields s).map (·.2) ++ splitWsGo (unixTail s) [])[c.uType]? = some (hexW 4 s.typ) := by
    rw [hg.uType]; simp [unixFields]
  have e2 : ((unixFields s).map (·.2) ++ splitWsGo (unixTail s) [])[c.uInode]? = some (renderDec s.inode) := by
    rw [hg.uInode]; simp [unixFields]
  simp only [hlen, if_false, e1, e2]
  rw [← htoks]
  have := unixPairs_ok c (unixLine s) (splitWs (unixLine s)) (hexW 4 s.typ) fp (s.path.getD []) s.typ hpath
    (parseDec_type s.typ htyp) (ownerPairs inodes (renderDec s.inode))
  rw [this]
  simp [rowFor, baseRow, hu, hg.afUnix, hg.connNone, Fam.num]

end Psutil.C11
