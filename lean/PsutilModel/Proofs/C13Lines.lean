/-
  Proofs/C13Lines.lean — how `split(None, 5)` cuts the lines the kernel prints for a mapping.
-/
import PsutilModel.Proofs.C13Text
namespace Psutil.C13
open Psutil Psutil.C13.Spec

theorem eq_nil_or_snoc (l : List α) : l = [] ∨ ∃ L b, l = L ++ [b] := by
  rcases List.eq_nil_or_concat l with h | ⟨L, b, h⟩
  · exact Or.inl h
  · exact Or.inr ⟨L, b, by simpa [List.concat_eq_append] using h⟩

/-- a token: non-empty, no blank -/
def Tok (t : Bytes) : Prop := t ≠ [] ∧ NoWs t

/-- neither a blank nor a colon -/
def plain (c : Nat) : Prop := isWs c = false ∧ c ≠ 58

theorem hexLower_plain : ∀ d, d < hexLower.base → plain (hexLower.chr d) := by
  show ∀ d, d < 16 → plain (if d < 10 then 48 + d else 87 + d)
  intro d hd
  unfold plain isWs
  by_cases h : d < 10
  · simp only [h, if_true, Bool.or_eq_false_iff, beq_eq_false_iff_ne, Bool.and_eq_false_iff,
      decide_eq_false_iff_not]
    omega
  · simp only [h, if_false, Bool.or_eq_false_iff, beq_eq_false_iff_ne, Bool.and_eq_false_iff,
      decide_eq_false_iff_not]
    omega

theorem hexPad_plain (w n : Nat) : ∀ c ∈ hexPad w n, plain c := by
  intro c hc
  unfold hexPad at hc
  simp only [List.mem_append, List.mem_replicate] at hc
  rcases hc with ⟨_, rfl⟩ | hc
  · exact ⟨by decide, by decide⟩
  · exact renderRadix_chars hexLower n plain hexLower_plain c hc

theorem hexPad_ne_nil (w n : Nat) : hexPad w n ≠ [] := by
  unfold hexPad
  intro h
  have := List.append_eq_nil_iff.mp h
  exact renderRadixAux_ne_nil hexLower n [] this.2

theorem hexPad_tok (w n : Nat) : Tok (hexPad w n) :=
  ⟨hexPad_ne_nil w n, fun c hc => (hexPad_plain w n c hc).1⟩

theorem renderDec_tok (n : Nat) : Tok (renderDec n) := ⟨renderDec_ne_nil n, renderDec_noWs n⟩

theorem tok_append {a b : Bytes} (ha : Tok a) (hb : NoWs b) : Tok (a ++ b) :=
  ⟨by intro h; exact ha.1 (List.append_eq_nil_iff.mp h).1,
   fun c hc => by rcases List.mem_append.mp hc with h | h; exact ha.2 c h; exact hb c h⟩

theorem addr_tok (m : Mapping) : Tok (addrStr m) := by
  unfold addrStr
  rw [List.append_assoc]
  apply tok_append (hexPad_tok 8 m.lo)
  intro c hc
  rcases List.mem_append.mp hc with h | h
  · simp only [List.mem_singleton] at h; subst h; decide
  · exact (hexPad_plain 8 m.hi c h).1

theorem endsWith_snoc (x : Bytes) (c : Nat) : endsWith [58] (x ++ [c]) = (58 == c) := by
  simp [endsWith, List.isPrefixOf]

theorem addr_no_colon_end (m : Mapping) : endsWith [58] (addrStr m) = false := by
  unfold addrStr
  rcases eq_nil_or_snoc (hexPad 8 m.hi) with h | ⟨L, b, h⟩
  · exact absurd h (hexPad_ne_nil 8 m.hi)
  · have hb : plain b := hexPad_plain 8 m.hi b (by rw [h]; simp)
    rw [h, ← List.append_assoc, endsWith_snoc]
    have : b ≠ 58 := hb.2
    simp only [beq_eq_false_iff_ne, ne_eq]
    exact fun e => this e.symm

theorem perms_tok (m : Mapping) : Tok (permsStr m) := by
  refine ⟨by simp [permsStr], ?_⟩
  intro c hc
  simp only [permsStr, List.mem_cons, List.not_mem_nil, or_false] at hc
  rcases hc with h | h | h | h <;> subst h <;> split <;> decide

theorem dev_tok (m : Mapping) : Tok (devStr m) := by
  unfold devStr
  rw [List.append_assoc]
  apply tok_append (hexPad_tok 2 m.maj)
  intro c hc
  rcases List.mem_append.mp hc with h | h
  · simp only [List.mem_singleton] at h; subst h; decide
  · exact (hexPad_plain 2 m.min c h).1

/-! ### header line -/

theorem split_five (n : Nat) (a b c d e tail : Bytes) (ha : Tok a) (hb : Tok b) (hc : Tok c) (hd : Tok d)
    (he : Tok e) :
    splitWsN (n + 5) (a ++ [32] ++ b ++ [32] ++ c ++ [32] ++ d ++ [32] ++ e ++ 32 :: tail)
      = a :: b :: c :: d :: e :: splitWsN n (32 :: tail) := by
  have sp : isWs 32 = true := by decide
  simp only [List.append_assoc, List.cons_append, List.nil_append]
  rw [show n + 5 = n + 4 + 1 from rfl, splitWsN_tok (n + 4) a _ 32 ha.1 ha.2 sp, splitWsN_ws _ 32 _ sp,
    show n + 4 = n + 3 + 1 from rfl, splitWsN_tok (n + 3) b _ 32 hb.1 hb.2 sp, splitWsN_ws _ 32 _ sp,
    show n + 3 = n + 2 + 1 from rfl, splitWsN_tok (n + 2) c _ 32 hc.1 hc.2 sp, splitWsN_ws _ 32 _ sp,
    show n + 2 = n + 1 + 1 from rfl, splitWsN_tok (n + 1) d _ 32 hd.1 hd.2 sp, splitWsN_ws _ 32 _ sp,
    splitWsN_tok n e _ 32 he.1 he.2 sp]

theorem split_header_anon (m : Mapping) (h : m.path = none) :
    splitWsN 5 (headerLine m)
      = [addrStr m, permsStr m, hexPad 8 m.off, devStr m, renderDec m.ino] := by
  unfold headerLine headerCore
  simp only [h]
  have := split_five 0 (addrStr m) (permsStr m) (hexPad 8 m.off) (devStr m) (renderDec m.ino) []
    (addr_tok m) (perms_tok m) (hexPad_tok 8 m.off) (dev_tok m) (renderDec_tok m.ino)
  simp only [Nat.zero_add] at this
  rw [show addrStr m ++ [32] ++ permsStr m ++ [32] ++ hexPad 8 m.off ++ [32] ++ devStr m ++ [32]
      ++ renderDec m.ino ++ [32] = addrStr m ++ [32] ++ permsStr m ++ [32] ++ hexPad 8 m.off ++ [32]
      ++ devStr m ++ [32] ++ renderDec m.ino ++ 32 :: [] by simp]
  rw [this, splitWsN_ws 0 32 [] (by decide), splitWsN_nil]

theorem split_header_path (m : Mapping) (p : Bytes) (h : m.path = some p) (c : Nat) (t : Bytes)
    (hs : shownName p m.deleted = c :: t) (hc : isWs c = false) :
    splitWsN 5 (headerLine m)
      = [addrStr m, permsStr m, hexPad 8 m.off, devStr m, renderDec m.ino, shownName p m.deleted] := by
  unfold headerLine headerCore
  simp only [h]
  generalize hk : (72 - (addrStr m ++ [32] ++ permsStr m ++ [32] ++ hexPad 8 m.off ++ [32] ++ devStr m
    ++ [32] ++ renderDec m.ino ++ [32]).length) = k
  have := split_five 0 (addrStr m) (permsStr m) (hexPad 8 m.off) (devStr m) (renderDec m.ino)
    (List.replicate k 32 ++ [32] ++ shownName p m.deleted)
    (addr_tok m) (perms_tok m) (hexPad_tok 8 m.off) (dev_tok m) (renderDec_tok m.ino)
  simp only [Nat.zero_add] at this
  rw [show addrStr m ++ [32] ++ permsStr m ++ [32] ++ hexPad 8 m.off ++ [32] ++ devStr m ++ [32]
      ++ renderDec m.ino ++ [32] ++ List.replicate k 32 ++ [32] ++ shownName p m.deleted
      = addrStr m ++ [32] ++ permsStr m ++ [32] ++ hexPad 8 m.off ++ [32]
      ++ devStr m ++ [32] ++ renderDec m.ino ++ 32 :: (List.replicate k 32 ++ [32] ++ shownName p m.deleted)
      by simp]
  rw [this, splitWsN_ws 0 32 _ (by decide), List.append_assoc, splitWsN_spaces,
    List.singleton_append, splitWsN_ws 0 32 _ (by decide), hs, splitWsN_zero c t hc]

/-! ### key line -/

theorem gap_pos (key : Bytes) (n : Nat) : ∃ g, gap key n = g + 1 := by
  unfold gap
  by_cases h : key.length + 1 < 16
  · simp only [h, if_true]
    exact ⟨16 - (key.length + 1) - 1 + (24 - (key.length + 1) - (16 - (key.length + 1)) - n), by omega⟩
  · simp only [h, if_false]
    exact ⟨24 - (key.length + 1) - 1 - n, by omega⟩

theorem wfKey_tok {k : Bytes} (h : wfKey k = true) : Tok (k ++ [58]) ∧ 58 ∉ k := by
  unfold wfKey at h
  simp only [Bool.and_eq_true, Bool.not_eq_true', List.all_eq_true, bne_iff_ne, ne_eq] at h
  obtain ⟨hne, hall⟩ := h
  have hk : NoWs k := fun c hc => (hall c hc).1
  refine ⟨⟨by simp, ?_⟩, fun hm => (hall 58 hm).2 rfl⟩
  intro c hc
  rcases List.mem_append.mp hc with h | h
  · exact hk c h
  · simp only [List.mem_singleton] at h; subst h; decide

theorem unit_noWs_tail (kb : Bool) :
    (if kb then unitKb else []) = [] ∨ ∃ t, (if kb then unitKb else []) = 32 :: t := by
  cases kb
  · left; rfl
  · right; exact ⟨[107, 66], rfl⟩

theorem split_kvLine (e : KV) (hk : wfKey e.key = true) :
    ∃ rest, splitWsN 5 (kvLine e) = (e.key ++ [58]) :: renderDec e.val :: rest := by
  obtain ⟨htok, _⟩ := wfKey_tok hk
  obtain ⟨g, hg⟩ := gap_pos e.key (renderDec e.val).length
  unfold kvLine
  simp only [hg, List.replicate_succ]
  have sp : isWs 32 = true := by decide
  rw [show e.key ++ [58] ++ 32 :: List.replicate g 32 ++ renderDec e.val ++ (if e.kb = true then unitKb else [])
      = (e.key ++ [58]) ++ 32 :: (List.replicate g 32 ++ (renderDec e.val ++ (if e.kb = true then unitKb else [])))
      by simp]
  rw [splitWsN_tok 4 _ _ 32 htok.1 htok.2 sp, splitWsN_ws _ 32 _ sp, splitWsN_spaces]
  rcases unit_noWs_tail e.kb with h | ⟨t, h⟩
  · rw [h, List.append_nil, splitWsN_tok_end 3 _ (renderDec_ne_nil _) (renderDec_noWs _)]
    exact ⟨[], rfl⟩
  · rw [h, splitWsN_tok 3 _ _ 32 (renderDec_ne_nil _) (renderDec_noWs _) sp]
    exact ⟨_, rfl⟩

theorem endsWith_key (k : Bytes) : endsWith [58] (k ++ [58]) = true := by
  rw [endsWith_snoc]; rfl

theorem rstripWs_kvLine (e : KV) : rstripWs (kvLine e) = kvLine e := by
  unfold kvLine
  cases hkb : e.kb
  · simp only [Bool.false_eq_true, if_false, List.append_nil]
    rcases eq_nil_or_snoc (renderDec e.val) with h | ⟨L, b, h⟩
    · exact absurd h (renderDec_ne_nil _)
    · have hb : isWs b = false := renderDec_noWs e.val b (by rw [h]; simp)
      rw [h, ← List.append_assoc]
      exact rstripWs_snoc_nonws _ b hb
  · simp only [if_true, unitKb]
    rw [show e.key ++ [58] ++ List.replicate (gap e.key (renderDec e.val).length) 32 ++ renderDec e.val ++ [32, 107, 66]
        = (e.key ++ [58] ++ List.replicate (gap e.key (renderDec e.val).length) 32 ++ renderDec e.val ++ [32, 107]) ++ [66]
        by simp]
    exact rstripWs_snoc_nonws _ 66 (by decide)

theorem kvLine_ne (e : KV) (hk : wfKey e.key = true) : kvLine e ≠ [] := by
  unfold kvLine
  have := (wfKey_tok hk).1.1
  intro h
  simp at h

/-! ### VmFlags line -/

def flagsBody (fs : List Bytes) : Bytes := vmFlagsLabel ++ [32] ++ joinWith [32] fs

theorem wfFlags_spec {fs : List Bytes} (h : wfFlags fs = true) :
    fs ≠ [] ∧ ∀ f ∈ fs, Tok f ∧ parseDec? f = none := by
  unfold wfFlags at h
  simp only [Bool.and_eq_true, Bool.not_eq_true', List.all_eq_true] at h
  obtain ⟨hne, hall⟩ := h
  refine ⟨by intro e; simp [e] at hne, ?_⟩
  intro f hf
  obtain ⟨hfne, hlow⟩ := hall f hf
  have hlow' : ∀ c ∈ f, 97 ≤ c ∧ c ≤ 122 := by
    intro c hc
    have := hlow c hc
    simpa [isLower] using this
  refine ⟨⟨by intro e; simp [e] at hfne, ?_⟩, ?_⟩
  · intro c hc
    have := hlow' c hc
    simp only [isWs, Bool.or_eq_false_iff, beq_eq_false_iff_ne, Bool.and_eq_false_iff,
      decide_eq_false_iff_not]
    omega
  · cases f with
    | nil => simp at hfne
    | cons c cs =>
      have := hlow' c (by simp)
      have hv : decimal.val c = none := by
        show (if 48 ≤ c ∧ c ≤ 57 then some (c - 48) else none) = none
        have : ¬ (48 ≤ c ∧ c ≤ 57) := by omega
        simp [this]
      simp [parseDec?, parseRadix?, parseRadixAux, hv]

theorem rstripWs_tok {f : Bytes} (h : Tok f) : rstripWs f = f := by
  rcases eq_nil_or_snoc f with e | ⟨L, b, e⟩
  · exact absurd e h.1
  · have hb : isWs b = false := h.2 b (by rw [e]; simp)
    rw [e]
    exact rstripWs_snoc_nonws L b hb

theorem joinWith_ne_nil (fs : List Bytes) (hne : fs ≠ []) (h : ∀ f ∈ fs, Tok f) : joinWith [32] fs ≠ [] := by
  cases fs with
  | nil => exact absurd rfl hne
  | cons f t =>
    have hf := (h f (by simp)).1
    cases t with
    | nil => simpa [joinWith] using hf
    | cons g t' => simp [joinWith, hf]

theorem rstripWs_flatMap (fs : List Bytes) (hne : fs ≠ []) (h : ∀ f ∈ fs, Tok f) :
    rstripWs (fs.flatMap (· ++ [32])) = joinWith [32] fs := by
  induction fs with
  | nil => exact absurd rfl hne
  | cons f t ih =>
    cases t with
    | nil =>
      simp only [List.flatMap_cons, List.flatMap_nil, List.append_nil, joinWith]
      rw [rstripWs_snoc_ws f 32 (by decide), rstripWs_tok (h f (by simp))]
    | cons g t' =>
      have ih' := ih (by simp) (fun x hx => h x (by simp [hx]))
      have hne' : rstripWs ((g :: t').flatMap (· ++ [32])) ≠ [] := by
        rw [ih']; exact joinWith_ne_nil _ (by simp) (fun x hx => h x (by simp [hx]))
      rw [List.flatMap_cons, rstripWs_append _ _ hne', ih']
      simp [joinWith]

theorem rstripWs_flagsLine (fs : List Bytes) (hw : wfFlags fs = true) :
    rstripWs (flagsLine fs) = flagsBody fs := by
  obtain ⟨hne, hall⟩ := wfFlags_spec hw
  have htok : ∀ f ∈ fs, Tok f := fun f hf => (hall f hf).1
  unfold flagsLine flagsBody
  have hq : rstripWs (fs.flatMap (· ++ [32])) ≠ [] := by
    rw [rstripWs_flatMap fs hne htok]; exact joinWith_ne_nil fs hne htok
  rw [rstripWs_append _ _ hq, rstripWs_flatMap fs hne htok]

theorem label_tok : Tok vmFlagsLabel := by
  refine ⟨by decide, ?_⟩
  intro c hc
  simp only [vmFlagsLabel, List.mem_cons, List.not_mem_nil, or_false] at hc
  rcases hc with h | h | h | h | h | h | h | h <;> subst h <;> decide

theorem split_flagsLine (fs : List Bytes) (hw : wfFlags fs = true) :
    ∃ f1 rest, splitWsN 5 (flagsLine fs) = vmFlagsLabel :: f1 :: rest ∧ parseDec? f1 = none := by
  obtain ⟨hne, hall⟩ := wfFlags_spec hw
  cases fs with
  | nil => exact absurd rfl hne
  | cons f t =>
    obtain ⟨hf, hp⟩ := hall f (by simp)
    have sp : isWs 32 = true := by decide
    refine ⟨f, splitWsN 3 (32 :: t.flatMap (· ++ [32])), ?_, hp⟩
    unfold flagsLine
    rw [show vmFlagsLabel ++ [32] ++ (f :: t).flatMap (· ++ [32])
        = vmFlagsLabel ++ 32 :: (f ++ 32 :: t.flatMap (· ++ [32])) by simp]
    rw [splitWsN_tok 4 _ _ 32 label_tok.1 label_tok.2 sp, splitWsN_ws _ 32 _ sp,
      splitWsN_tok 3 _ _ 32 hf.1 hf.2 sp]

theorem split_flagsBody (fs : List Bytes) (hw : wfFlags fs = true) :
    ∃ f1 rest, splitWsN 5 (flagsBody fs) = vmFlagsLabel :: f1 :: rest ∧ parseDec? f1 = none := by
  obtain ⟨hne, hall⟩ := wfFlags_spec hw
  cases fs with
  | nil => exact absurd rfl hne
  | cons f t =>
    obtain ⟨hf, hp⟩ := hall f (by simp)
    have sp : isWs 32 = true := by decide
    unfold flagsBody
    cases t with
    | nil =>
      refine ⟨f, [], ?_, hp⟩
      rw [show vmFlagsLabel ++ [32] ++ joinWith [32] [f] = vmFlagsLabel ++ 32 :: f by simp [joinWith]]
      rw [splitWsN_tok 4 _ _ 32 label_tok.1 label_tok.2 sp, splitWsN_ws _ 32 _ sp,
        splitWsN_tok_end 3 f hf.1 hf.2]
    | cons g t' =>
      refine ⟨f, splitWsN 3 (32 :: joinWith [32] (g :: t')), ?_, hp⟩
      rw [show vmFlagsLabel ++ [32] ++ joinWith [32] (f :: g :: t')
          = vmFlagsLabel ++ 32 :: (f ++ 32 :: joinWith [32] (g :: t')) by simp [joinWith]]
      rw [splitWsN_tok 4 _ _ 32 label_tok.1 label_tok.2 sp, splitWsN_ws _ 32 _ sp,
        splitWsN_tok 3 _ _ 32 hf.1 hf.2 sp]

end Psutil.C13
