/-
  Proofs/C12Round3.lean — helper lemmas for the round-3 theorems of Props/C12.lean: inversion lemmas that
  turn an answer of the model back into a statement about the WORLD (branch-free invariants of exe()), and the
  exact description of where the specification is silent.
-/
import PsutilModel.Proofs.C12Front
namespace Psutil.C12
open Spec

/-! ### inversion: what an answer of the model says about the world -/

/-- `cmdline()` returned a list: `/proc/<pid>` exists, the file was readable, and the list is the documented
    reading of its bytes (`[]` for the empty file) -/
theorem cmdline_ok_inv (w : World) (l : List Bytes) (h : cmdline good w = .ok l) :
    w.dirExists = true ∧ ∃ d, w.cmdline = .data d ∧ ((d = [] ∧ l = []) ∨ (d ≠ [] ∧ l = args d)) := by
  cases hd : w.dirExists with
  | false => rw [cmdline_gone w hd] at h; cases h
  | true =>
    refine ⟨rfl, ?_⟩
    cases hc : w.cmdline with
    | data d =>
      refine ⟨d, rfl, ?_⟩
      rw [cmdline_data w d hd hc] at h
      unfold cmdlineOf at h
      by_cases he : d = []
      · left
        simp only [he, if_true] at h
        cases hz : Spec.zombie w <;> simp [hz] at h
        exact ⟨he, h⟩
      · right
        simp only [he, if_false] at h
        cases h
        exact ⟨he, rfl⟩
    | err e =>
      rw [cmdline_err w e hd hc] at h
      cases e <;> simp only [wrap] at h <;> (try split at h) <;> (try split at h) <;> cases h

/-- "is `a0` an absolute path to an executable regular file" as the property says it -/
def Guessable (w : World) (a0 : Bytes) : Prop :=
  a0.head? = some 47 ∧ 0 ∉ a0 ∧ w.fs a0 = .file true

/-- the guess succeeded with something other than the fallback: it is `argv[0]` of the readable, non-empty
    cmdline file, and an absolute path to an executable regular file -/
def GuessedFromCmdline (w : World) (p : Bytes) : Prop :=
  w.dirExists = true ∧ ∃ d rest, w.cmdline = .data d ∧ d ≠ [] ∧ args d = p :: rest ∧ Guessable w p

theorem guessIt_ok_inv (w : World) (fb : Res Bytes) (p : Bytes) (h : guessIt good w fb = .ok p) :
    fb = .ok p ∨ GuessedFromCmdline w p := by
  unfold guessIt at h
  cases hc : cmdline good w with
  | error e => simp [hc] at h
  | ok l =>
    cases l with
    | nil => simp only [hc] at h; exact Or.inl h
    | cons a0 rest =>
      simp only [hc] at h
      by_cases hcond : (isAbs a0 && isFile w.fs a0 && xOk w.fs a0) = true
      · simp only [hcond, if_true] at h
        cases h
        right
        obtain ⟨hdir, d, hd, hx⟩ := cmdline_ok_inv w _ hc
        rcases hx with ⟨_, hx⟩ | ⟨hne, hx⟩
        · cases hx
        · exact ⟨hdir, d, rest, hd, hne, hx.symm, (guess_cond w.fs p).1 hcond⟩
      · simp only [hcond] at h
        exact Or.inl h

theorem guessable_ne_nil (w : World) (p : Bytes) (h : Guessable w p) : p ≠ [] := by
  intro hp; subst hp; simp [Guessable] at h

/-- the native `exe()` returned a string: `/proc/<pid>` exists and either the link was readable and this is its
    documented clean-up, or the kernel withheld the link (ENOENT/ESRCH), the process is not a known zombie, and
    the string is `''` -/
theorem procExe_ok_inv (w : World) (l : LinkSt) (p : Bytes) (h : wrap w (readlinkRaw good w l) = .ok p) :
    w.dirExists = true ∧
      ((∃ t, l = .target t ∧ linkClean w.fs t = some p)
       ∨ (∃ e, l = .err e ∧ e ≠ .eacces ∧ Spec.zombie w = false ∧ p = [])) := by
  cases hd : w.dirExists with
  | false =>
    simp [readlinkRaw, effLink, hd, wrap, isZombie_gone w hd, statThere_gone w hd] at h
  | true =>
    refine ⟨rfl, ?_⟩
    cases l with
    | target t =>
      left
      refine ⟨t, rfl, ?_⟩
      simp only [readlinkRaw, effLink, hd, if_true, readlinkClean_eq] at h
      cases hl : linkClean w.fs t with
      | none => simp [hl, wrap] at h
      | some q => simp [hl, wrap] at h; rw [h]
    | err e =>
      right
      refine ⟨e, rfl, ?_⟩
      cases e with
      | eacces => simp [readlinkRaw, effLink, hd, wrap] at h
      | enoent =>
        cases hz : Spec.zombie w <;> simp [readlinkRaw, effLink, hd, wrap, isZombie_eq w hd, hz] at h
        exact ⟨by decide, rfl, h⟩
      | esrch =>
        cases hz : Spec.zombie w <;> simp [readlinkRaw, effLink, hd, wrap, isZombie_eq w hd, hz] at h
        exact ⟨by decide, rfl, h⟩

/-- EACCES on the link: AccessDenied, whatever else the world says -/
theorem link_eacces (w : World) (l : LinkSt) (hd : w.dirExists = true) (hl : l = .err .eacces) :
    wrap w (readlinkRaw good w l) = .error .accessDenied := by
  subst hl; simp [readlinkRaw, effLink, hd, wrap]

/-- the link is withheld from a known zombie: ZombieProcess -/
theorem link_withheld_zombie (w : World) (e : Err) (hd : w.dirExists = true) (hz : Spec.zombie w = true)
    (he : e ≠ .eacces) : wrap w (readlinkRaw good w (.err e)) = .error .zombieProcess := by
  cases e with
  | eacces => exact absurd rfl he
  | enoent => simp [readlinkRaw, effLink, hd, wrap, isZombie_eq w hd, hz]
  | esrch => simp [readlinkRaw, effLink, hd, wrap, isZombie_eq w hd, hz]

/-- the link is withheld and the process is not a known zombie — including `stat` missing or unreadable —:
    `''` -/
theorem link_withheld_not_zombie (w : World) (e : Err) (hd : w.dirExists = true) (hz : Spec.zombie w = false)
    (he : e ≠ .eacces) : wrap w (readlinkRaw good w (.err e)) = .ok [] := by
  cases e with
  | eacces => exact absurd rfl he
  | enoent => simp [readlinkRaw, effLink, hd, wrap, isZombie_eq w hd, hz]
  | esrch => simp [readlinkRaw, effLink, hd, wrap, isZombie_eq w hd, hz]

/-! ### one uncached exe(): what is returned, what is remembered (no specification involved) -/

/-- whatever the configuration: the object remembers nothing but the string it has just returned -/
theorem exe_remembers_returned (c : Cfg) (w : World) (st : St) (v : Bytes)
    (h : (exe c w st).1.exeCache = some v) : (exe c w st).2 = .ok v ∨ st.exeCache = some v := by
  obtain ⟨cache⟩ := st
  cases cache with
  | some e => right; simpa [exe] using h
  | none =>
    left
    simp only [exe] at h ⊢
    cases hp : procExe c w with
    | error e =>
      simp only [hp] at h
      by_cases he : e ∈ c.exeGuessOn <;> simp [he] at h
    | ok e =>
      simp only [hp] at h ⊢
      by_cases hem : e.isEmpty = true
      · simp only [hem, if_true] at h ⊢
        cases hg : guessIt c w (.ok e) with
        | error x =>
          simp only [hg] at h ⊢
          by_cases hx : x ∈ c.exeGuessSwallows <;> simp [hx] at h ⊢
          exact h
        | ok g => simp only [hg] at h ⊢; simpa using h
      · simp only [hem] at h ⊢
        simpa using h

/-- one uncached `exe()` that returns a string -/
theorem exe_ok_inv (w : World) (p : Bytes) (h : (exe good w ⟨none⟩).2 = .ok p) :
    (p ≠ [] ∧ procExe good w = .ok p) ∨ GuessedFromCmdline w p
      ∨ (p = [] ∧ procExe good w = .ok []) := by
  simp only [exe] at h
  cases hp : procExe good w with
  | error e =>
    simp only [hp] at h
    cases e <;> simp at h
    rcases guessIt_ok_inv w _ p h with hfb | hg
    · cases hfb
    · exact Or.inr (Or.inl hg)
  | ok e =>
    simp only [hp] at h
    by_cases hem : e.isEmpty = true
    · have he : e = [] := (isEmpty_iff_nil e).1 hem
      subst he
      simp only [List.isEmpty_nil, if_true] at h
      cases hg : guessIt good w (.ok []) with
      | error x =>
        simp only [hg] at h
        cases x <;> simp at h
        exact Or.inr (Or.inr ⟨h, rfl⟩)
      | ok g =>
        simp only [hg] at h
        have hgp : g = p := by simpa using h
        subst hgp
        rcases guessIt_ok_inv w _ g hg with hfb | hgc
        · cases hfb; exact Or.inr (Or.inr ⟨rfl, rfl⟩)
        · exact Or.inr (Or.inl hgc)
    · simp only [hem] at h
      have hep : e = p := by simpa using h
      subst hep
      left
      exact ⟨fun hn => hem (by simp [hn]), rfl⟩

/-! ### where the specification is silent -/

/-- ENOENT on a single file below `/proc/<pid>` of a process that is not a known zombie and whose `stat` is
    still there (the code re-raises a bare FileNotFoundError: C03's subject) -/
def SilentFile (w : World) (f : FileSt) : Prop :=
  w.dirExists = true ∧ f = .err .enoent ∧ Spec.zombie w = false ∧ w.statExists = true

/-- the ` (deleted)` path cannot be examined (its `stat` is denied: PermissionError), or the link is withheld while `stat` of
    the process is missing / unreadable (live or not? unknown) -/
def SilentLink (w : World) (l : LinkSt) : Prop :=
  w.dirExists = true ∧
    ((∃ t, l = .target t ∧ (stripDeleted (t.takeWhile (· != 0))).isSome = true
        ∧ (w.fs (t.takeWhile (· != 0))).isDenied = true)
     ∨ (∃ e, l = .err e ∧ e ≠ .eacces ∧ (w.statExists = false ∨ w.statReadable = false)))

/-- name() has to look at a cmdline file the specification does not speak about -/
def SilentName (w : World) : Prop :=
  w.statExists = true ∧ w.statReadable = true ∧ 15 ≤ w.comm.length ∧ SilentFile w w.cmdline

/-- the native answer of exe() is `''` or AccessDenied, so that the front end consults `cmdline()` -/
def ExeAsksCmdline (w : World) : Prop :=
  Spec.link w w.exe = some (.ok []) ∨ Spec.link w w.exe = some (.error .accessDenied)

theorem fileErr_none_iff (w : World) (e : Err) :
    fileErr w e = none ↔ (e = .enoent ∧ Spec.zombie w = false ∧ w.statExists = true) := by
  cases e <;> cases hz : Spec.zombie w <;> cases hs : w.statExists <;> simp [fileErr, hz, hs]

theorem cmdline_none_iff (w : World) : Spec.cmdline w = none ↔ SilentFile w w.cmdline := by
  unfold Spec.cmdline SilentFile
  cases hd : w.dirExists
  · simp
  · cases hc : w.cmdline with
    | data d => simp
    | err e => simp [fileErr_none_iff]

theorem environ_none_iff (w : World) : Spec.environ w = none ↔ SilentFile w w.environ := by
  unfold Spec.environ SilentFile
  cases hd : w.dirExists
  · simp
  · cases hc : w.environ with
    | data d => simp
    | err e => simp [fileErr_none_iff]

theorem linkClean_none_iff (fs : Bytes → FsEnt) (t : Bytes) :
    linkClean fs t = none ↔ ((stripDeleted (t.takeWhile (· != 0))).isSome = true
      ∧ (fs (t.takeWhile (· != 0))).isDenied = true) := by
  unfold linkClean
  cases hsd : stripDeleted (t.takeWhile (· != 0)) with
  | none => simp [hsd]
  | some q =>
    cases hfs : fs (t.takeWhile (· != 0)) with
    | unstatable en cls => cases cls <;> simp [hsd, hfs, named, FsEnt.isDenied]
    | _ => simp [hsd, hfs, named, FsEnt.isDenied]

theorem link_none_iff (w : World) (l : LinkSt) : Spec.link w l = none ↔ SilentLink w l := by
  unfold Spec.link SilentLink
  cases hd : w.dirExists
  · simp
  · cases l with
    | target t => simp [linkClean_none_iff]
    | err e =>
      cases e <;> cases hs : w.statExists <;> cases hr : w.statReadable <;> cases hz : w.zombie <;>
        simp [Spec.zombie, hs, hr, hz]

theorem guessOf_none_iff (w : World) : Spec.guessOf w = none ↔ SilentFile w w.cmdline := by
  rw [← cmdline_none_iff]
  unfold Spec.guessOf
  cases hc : Spec.cmdline w with
  | none => simp
  | some r =>
    cases r with
    | error e => simp
    | ok l => cases l <;> simp

theorem name_none_iff (w : World) : Spec.name w = none ↔ (w.dirExists = true ∧ SilentName w) := by
  unfold Spec.name SilentName
  rw [← cmdline_none_iff]
  cases hd : w.dirExists <;> cases hs : w.statExists <;> cases hr : w.statReadable <;> simp
  by_cases hl : w.comm.length < commMax
  · have : ¬ 15 ≤ w.comm.length := by unfold commMax at hl; omega
    simp [hl, this]
  · have : 15 ≤ w.comm.length := by unfold commMax at hl; omega
    simp only [hl, if_false, this, true_and]
    cases hc : Spec.cmdline w with
    | none => simp
    | some r =>
      cases r with
      | ok l => simp
      | error e => cases e <;> simp

theorem exeOnce_none_iff (w : World) :
    Spec.exeOnce w = none ↔ (SilentLink w w.exe ∨ (ExeAsksCmdline w ∧ SilentFile w w.cmdline)) := by
  rw [← link_none_iff, ← guessOf_none_iff]
  unfold Spec.exeOnce ExeAsksCmdline
  cases hl : Spec.link w w.exe with
  | none => simp
  | some r =>
    cases r with
    | ok p =>
      by_cases hp : p = []
      · subst hp
        cases hg : Spec.guessOf w with
        | none => simp
        | some g =>
          cases g with
          | path q => simp
          | nothing => simp
          | fails e => cases e <;> simp
      · simp [hp]
    | error e =>
      cases e with
      | accessDenied =>
        cases hg : Spec.guessOf w with
        | none => simp
        | some g => cases g <;> simp
      | noSuchProcess => simp
      | zombieProcess => simp
      | fileNotFound => simp
      | osError en => simp

/-- the situations about which the specification says nothing, call by call -/
def Silent (w : World) : Call → Prop
  | .cmdline => SilentFile w w.cmdline
  | .environ => SilentFile w w.environ
  | .cwd => SilentLink w w.cwd
  | .exe => SilentLink w w.exe ∨ (ExeAsksCmdline w ∧ SilentFile w w.cmdline)
  | .name => w.dirExists = true ∧ SilentName w
  | .username => False
  | .terminal => False

theorem call_nil_none_iff (w : World) (c : Call) : Spec.call [] w c = none ↔ Silent w c := by
  cases c with
  | cmdline => simp [Spec.call, Silent, cmdline_none_iff]
  | environ => simp [Spec.call, Silent, environ_none_iff]
  | cwd => simp [Spec.call, Silent, Spec.cwd, link_none_iff]
  | exe => simp [Spec.call, Silent, Spec.exeAfter, Spec.exeMemory, exeOnce_none_iff]
  | name => simp [Spec.call, Silent, name_none_iff]
  | username => unfold Spec.call Spec.username Silent; cases w.dirExists <;> simp
  | terminal =>
    unfold Spec.call Spec.terminal Silent
    cases w.dirExists <;> cases w.statExists <;> cases w.statReadable <;> simp

/-- a silent world among earlier `exe()` calls is the only way the memory of the specification can be unknown -/
theorem exeMemory_none (ws : List World) (h : Spec.exeMemory ws = none) :
    ∃ w' ∈ ws, Spec.exeOnce w' = none := by
  induction ws with
  | nil => simp [Spec.exeMemory] at h
  | cons w ws ih =>
    simp only [Spec.exeMemory] at h
    cases ho : Spec.exeOnce w with
    | none => exact ⟨w, by simp, ho⟩
    | some rr =>
      obtain ⟨r, rem⟩ := rr
      simp only [ho] at h
      cases r with
      | error e =>
        obtain ⟨w', hm, hw⟩ := ih h
        exact ⟨w', by simp [hm], hw⟩
      | ok v =>
        cases rem with
        | true => simp at h
        | false =>
          obtain ⟨w', hm, hw⟩ := ih h
          exact ⟨w', by simp [hm], hw⟩

end Psutil.C12
