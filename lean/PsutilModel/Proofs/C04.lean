/-
  Proofs/C04.lean — helper lemmas for C04: insertion sort, the `dict` primitives, the kernel's
  lookup functions, frame lemmas of the model's sub-steps.
-/
import PsutilModel.Model.C04
import PsutilModel.Spec.C04
namespace Psutil.C04

/-! ## sorting -/

theorem mem_insertBy {α : Type} (key : α → Nat) (x a : α) (l : List α) :
    a ∈ insertBy key x l ↔ a = x ∨ a ∈ l := by
  induction l with
  | nil => simp [insertBy]
  | cons y ys ih =>
    simp only [insertBy]
    split
    · simp
    · simp only [List.mem_cons, ih]
      constructor
      · rintro (h | h | h) <;> simp [h]
      · rintro (h | h | h) <;> simp [h]

theorem mem_sortBy {α : Type} (key : α → Nat) (a : α) (l : List α) : a ∈ sortBy key l ↔ a ∈ l := by
  induction l with
  | nil => simp [sortBy]
  | cons x xs ih => simp [sortBy, mem_insertBy, ih]

theorem insertBy_map {α : Type} (key : α → Nat) (x : α) (l : List α) :
    (insertBy key x l).map key = insertBy id (key x) (l.map key) := by
  induction l with
  | nil => simp [insertBy]
  | cons y ys ih =>
    simp only [insertBy, List.map_cons, id]
    split <;> simp [ih]

theorem sortBy_map {α : Type} (key : α → Nat) (l : List α) :
    (sortBy key l).map key = sortNat (l.map key) := by
  induction l with
  | nil => simp [sortBy, sortNat]
  | cons x xs ih =>
    simp only [sortBy, sortNat, List.map_cons, insertBy_map] at *
    rw [ih]

theorem insertNat_sorted (x : Nat) (l : List Nat) (h : l.Pairwise (· < ·)) (hx : x ∉ l) :
    (insertBy id x l).Pairwise (· < ·) := by
  induction l with
  | nil => simp [insertBy]
  | cons y ys ih =>
    simp only [insertBy, id]
    have hy := List.pairwise_cons.mp h
    have hne : x ≠ y := fun e => hx (by simp [e])
    split
    · rename_i hle
      have hlt : x < y := by omega
      refine List.pairwise_cons.mpr ⟨?_, h⟩
      intro a ha
      cases ha with
      | head => exact hlt
      | tail _ hm => exact Nat.lt_trans hlt (hy.1 a hm)
    · rename_i hle
      have hx' : x ∉ ys := fun hm => hx (by simp [hm])
      refine List.pairwise_cons.mpr ⟨?_, ih hy.2 hx'⟩
      intro a ha
      rcases (mem_insertBy id x a ys).mp ha with h1 | h1
      · subst h1; omega
      · exact hy.1 a h1

theorem sortNat_sorted (l : List Nat) (h : l.Nodup) : (sortNat l).Pairwise (· < ·) := by
  induction l with
  | nil => simp [sortNat, sortBy]
  | cons x xs ih =>
    have hn := List.nodup_cons.mp h
    simp only [sortNat, sortBy]
    apply insertNat_sorted
    · exact ih hn.2
    · intro hm
      exact hn.1 ((mem_sortBy id x xs).mp hm)

theorem mem_sortNat (a : Nat) (l : List Nat) : a ∈ sortNat l ↔ a ∈ l := mem_sortBy id a l

/-- two strictly ascending lists with the same members are equal -/
theorem eq_of_sorted_mem : ∀ {l1 l2 : List Nat}, l1.Pairwise (· < ·) → l2.Pairwise (· < ·) →
    (∀ a, a ∈ l1 ↔ a ∈ l2) → l1 = l2
  | [], [], _, _, _ => rfl
  | [], b :: u, _, _, h => by have := (h b).mpr (by simp); simp at this
  | a :: t, [], _, _, h => by have := (h a).mp (by simp); simp at this
  | a :: t, b :: u, h1, h2, h => by
    have p1 := List.pairwise_cons.mp h1
    have p2 := List.pairwise_cons.mp h2
    have hab : a = b := by
      have ha : a ∈ b :: u := (h a).mp (by simp)
      have hb : b ∈ a :: t := (h b).mpr (by simp)
      rcases List.mem_cons.mp ha with e | hu
      · exact e
      · rcases List.mem_cons.mp hb with e | ht
        · exact e.symm
        · have := p2.1 a hu; have := p1.1 b ht; omega
    subst hab
    congr 1
    apply eq_of_sorted_mem p1.2 p2.2
    intro x
    constructor
    · intro hx
      have : x ∈ a :: u := (h x).mp (by simp [hx])
      rcases List.mem_cons.mp this with e | hu
      · have := p1.1 x hx; omega
      · exact hu
    · intro hx
      have : x ∈ a :: t := (h x).mpr (by simp [hx])
      rcases List.mem_cons.mp this with e | ht
      · have := p2.1 x hx; omega
      · exact ht

theorem sorted_nodup {l : List Nat} (h : l.Pairwise (· < ·)) : l.Nodup := by
  unfold List.Nodup
  exact h.imp (fun hlt => by omega)

/-! ## kernel lookups -/

theorem findProc_some {k : Kernel} {n : Nat} {p : Proc} (h : k.findProc n = some p) :
    p ∈ k.procs ∧ p.pid = n := by
  unfold Kernel.findProc at h
  have h1 := List.mem_of_find?_eq_some h
  have h2 := List.find?_some h
  exact ⟨h1, by simpa using h2⟩

theorem findProc_none {k : Kernel} {n : Nat} (h : k.findProc n = none) :
    ∀ p ∈ k.procs, p.pid ≠ n := by
  unfold Kernel.findProc at h
  intro p hp e
  have := List.find?_eq_none.mp h p hp
  simp [e] at this

theorem findThr_some {k : Kernel} {n : Nat} {t : Thr} (h : k.findThr n = some t) :
    t ∈ k.thrs ∧ t.tid = n := by
  unfold Kernel.findThr at h
  have h1 := List.mem_of_find?_eq_some h
  have h2 := List.find?_some h
  exact ⟨h1, by simpa using h2⟩

theorem mem_listdir {k : Kernel} {n : Nat} : n ∈ k.listdir ↔ ∃ p ∈ k.procs, p.pid = n := by
  simp [Kernel.listdir]

theorem findProc_isSome_iff {k : Kernel} {n : Nat} : (k.findProc n).isSome ↔ n ∈ k.listdir := by
  rw [mem_listdir]
  cases h : k.findProc n with
  | none =>
    simp only [Option.isSome_none, Bool.false_eq_true, false_iff]
    rintro ⟨p, hp, e⟩
    exact findProc_none h p hp e
  | some p =>
    have := findProc_some h
    simp only [Option.isSome_some, true_iff]
    exact ⟨p, this.1, this.2⟩

/-! ## dict primitives -/

theorem PMap.get_remove_ne (m : PMap) (p q : Nat) (h : q ≠ p) : (m.remove p).get q = m.get q := by
  induction m with
  | nil => rfl
  | cons e es ih =>
    simp only [PMap.remove, List.filter_cons]
    by_cases he : e.1 = p
    · have hq : e.1 ≠ q := by rw [he]; exact fun x => h x.symm
      simp only [he, beq_self_eq_true, Bool.not_true, Bool.false_eq_true, if_false]
      simp only [PMap.get, he]
      rw [if_neg (by rw [he] at hq; exact hq)]
      exact ih
    · have : (e.1 == p) = false := by simpa using he
      simp only [this, Bool.not_false, if_true, PMap.get]
      split
      · rfl
      · exact ih

theorem PMap.get_remove_self (m : PMap) (p : Nat) : (m.remove p).get p = none := by
  induction m with
  | nil => rfl
  | cons e es ih =>
    simp only [PMap.remove, List.filter_cons]
    by_cases he : e.1 = p
    · simp only [he, beq_self_eq_true, Bool.not_true, Bool.false_eq_true, if_false]; exact ih
    · have : (e.1 == p) = false := by simpa using he
      simp only [this, Bool.not_false, if_true, PMap.get, he, if_false]
      exact ih

theorem PMap.has_iff_get (m : PMap) (p : Nat) : m.has p = (m.get p).isSome := by
  induction m with
  | nil => rfl
  | cons e es ih =>
    simp only [PMap.has, List.any_cons, PMap.get]
    by_cases he : e.1 = p
    · simp [he]
    · have : (e.1 == p) = false := by simpa using he
      simp only [this, Bool.false_or, he, if_false]
      exact ih

theorem PMap.get_append_single (m : PMap) (p r q : Nat) :
    (m ++ [(p, r)]).get q = match m.get q with | some x => some x | none => if p = q then some r else none := by
  induction m with
  | nil => simp [PMap.get]
  | cons e es ih =>
    simp only [List.cons_append, PMap.get]
    split
    · rfl
    · exact ih

theorem PMap.get_set_self (m : PMap) (p r : Nat) : (m.set p r).get p = some r := by
  unfold PMap.set
  split
  · rename_i hh
    induction m with
    | nil => simp [PMap.has] at hh
    | cons e es ih =>
      simp only [List.map_cons, PMap.get]
      by_cases he : e.1 = p
      · simp [he]
      · have hb : (e.1 == p) = false := by simpa using he
        simp only [hb, Bool.false_eq_true, if_false, he]
        apply ih
        simpa [PMap.has, hb] using hh
  · rename_i hh
    rw [PMap.get_append_single]
    have : m.get p = none := by
      have := PMap.has_iff_get m p
      cases hg : m.get p with
      | none => rfl
      | some x => rw [hg] at this; simp [this] at hh
    simp [this]

theorem PMap.get_set_ne (m : PMap) (p r q : Nat) (h : q ≠ p) : (m.set p r).get q = m.get q := by
  unfold PMap.set
  split
  · rename_i hh
    clear hh
    induction m with
    | nil => rfl
    | cons e es ih =>
      simp only [List.map_cons, PMap.get]
      by_cases he : e.1 = p
      · have hq : ¬ p = q := fun x => h x.symm
        simp only [he, beq_self_eq_true, if_true, hq, if_false]
        exact ih
      · have hb : (e.1 == p) = false := by simpa using he
        simp only [hb, Bool.false_eq_true, if_false]
        split
        · rfl
        · exact ih
  · rw [PMap.get_append_single]
    have hq : ¬ p = q := fun x => h x.symm
    cases m.get q <;> simp [hq]

theorem removeAll_eq_filter (m : PMap) (ps : List Nat) :
    removeAll m ps = m.filter fun e => !ps.contains e.1 := by
  induction ps generalizing m with
  | nil =>
    simp only [removeAll, List.foldl_nil, List.contains_nil, Bool.not_false]
    induction m with
    | nil => rfl
    | cons e es ih => simp only [List.filter_cons, if_true]; rw [← ih]
  | cons p ps ih =>
    simp only [removeAll, List.foldl_cons] at *
    rw [ih]
    simp only [PMap.remove, List.filter_filter]
    congr 1
    funext e
    simp only [List.contains_cons]
    cases h1 : (e.1 == p) <;> simp [Bool.and_comm]

theorem PMap.remove_of_get_none (m : PMap) (p : Nat) (h : m.get p = none) : m.remove p = m := by
  induction m with
  | nil => rfl
  | cons e es ih =>
    simp only [PMap.get] at h
    split at h
    · cases h
    · rename_i he
      have hb : (e.1 == p) = false := by simpa using he
      simp only [PMap.remove, List.filter_cons, hb, Bool.not_false, if_true]
      congr 1
      exact ih h

theorem PMap.mem_keys_iff (m : PMap) (p : Nat) : p ∈ m.keys ↔ (m.get p).isSome := by
  induction m with
  | nil => simp [PMap.keys, PMap.get]
  | cons e es ih =>
    simp only [PMap.keys, List.map_cons, List.mem_cons, PMap.get] at *
    by_cases he : e.1 = p
    · simp [he]
    · simp only [he, if_false]
      rw [← ih]
      constructor
      · rintro (h | h)
        · exact absurd h.symm he
        · exact h
      · intro h; exact Or.inr h

end Psutil.C04

namespace Psutil.C04

/-! ## well-formed process tables -/

/-- one entry per PID, thread ids are not PIDs and differ from their group leader's id, every id
    fits `pid_t` -/
structure Kernel.WF (k : Kernel) : Prop where
  nodup : k.listdir.Nodup
  thrNotProc : ∀ t ∈ k.thrs, k.findProc t.tid = none
  thrTgid : ∀ t ∈ k.thrs, t.tgid ≠ t.tid
  bound : ∀ p ∈ k.procs, p.pid ≤ pidTMax

theorem Kernel.empty_wf : Kernel.empty.WF :=
  ⟨by simp [Kernel.empty, Kernel.listdir], by simp [Kernel.empty], by simp [Kernel.empty],
   by simp [Kernel.empty]⟩

theorem findProc_filter_ne (k : Kernel) (pid n : Nat) :
    (List.find? (fun p : Proc => p.pid == n) (k.procs.filter fun p => !(p.pid == pid)))
      = if n = pid then none else k.findProc n := by
  unfold Kernel.findProc
  induction k.procs with
  | nil => simp
  | cons p ps ih =>
    simp only [List.filter_cons]
    by_cases hp : p.pid = pid
    · simp only [hp, beq_self_eq_true, Bool.not_true, Bool.false_eq_true, if_false, ih, List.find?_cons]
      by_cases hn : n = pid
      · simp [hn]
      · have : (pid == n) = false := by simpa using fun e => hn e.symm
        simp [hn, this]
    · have hb : (p.pid == pid) = false := by simpa using hp
      simp only [hb, Bool.not_false, if_true, List.find?_cons]
      by_cases hpn : p.pid = n
      · have : n ≠ pid := by rw [← hpn]; exact hp
        simp [hpn, this]
      · have hb2 : (p.pid == n) = false := by simpa using hpn
        simp only [hb2]
        exact ih

theorem Kernel.apply_wf (k : Kernel) (e : KEv) (h : k.WF) : (k.apply e).WF := by
  cases e with
  | spawn p =>
    simp only [Kernel.apply]
    split
    · exact h
    · rename_i hc
      simp only [Bool.or_eq_true, decide_eq_true_eq, not_or, Bool.not_eq_true] at hc
      obtain ⟨hu, hb⟩ := hc
      simp only [Kernel.used, Bool.or_eq_false_iff] at hu
      have hnp : k.findProc p.pid = none := by
        cases hf : k.findProc p.pid with
        | none => rfl
        | some x => rw [hf] at hu; simp at hu
      have hnt : k.findThr p.pid = none := by
        cases hf : k.findThr p.pid with
        | none => rfl
        | some x => rw [hf] at hu; simp at hu
      refine ⟨?_, ?_, h.thrTgid, ?_⟩
      · simp only [Kernel.listdir, List.map_append, List.map_cons, List.map_nil]
        have hnd := h.nodup
        simp only [Kernel.listdir] at hnd
        rw [List.nodup_append]
        refine ⟨hnd, by simp, ?_⟩
        intro a ha b hb' e
        simp only [List.mem_singleton] at hb'
        subst hb'
        obtain ⟨q, hq, hqe⟩ := List.mem_map.mp ha
        exact findProc_none hnp q hq (by rw [hqe, e])
      · intro t ht
        have h0 := h.thrNotProc t ht
        simp only [Kernel.findProc, List.find?_append, List.find?_cons, List.find?_nil] at h0 ⊢
        rw [h0]
        simp only [Option.none_or]
        by_cases he : p.pid = t.tid
        · exfalso
          unfold Kernel.findThr at hnt
          have := List.find?_eq_none.mp hnt t ht
          simp [he] at this
        · have : (p.pid == t.tid) = false := by simpa using he
          simp [this]
      · intro q hq
        simp only [List.mem_append, List.mem_singleton] at hq
        rcases hq with hq | hq
        · exact h.bound q hq
        · subst hq; omega
  | exit pid =>
    simp only [Kernel.apply]
    refine ⟨?_, ?_, ?_, ?_⟩
    · simp only [Kernel.listdir]
      have hnd := h.nodup
      simp only [Kernel.listdir] at hnd
      have := List.Pairwise.sublist (List.Sublist.map (fun p : Proc => p.pid) (List.filter_sublist (l := k.procs) (p := fun p => !(p.pid == pid)))) hnd
      exact this
    · intro t ht
      have ht' := (List.mem_filter.mp ht).1
      have h0 := h.thrNotProc t ht'
      simp only [Kernel.findProc]
      rw [findProc_filter_ne]
      split
      · rfl
      · exact h0
    · intro t ht
      exact h.thrTgid t (List.mem_filter.mp ht).1
    · intro q hq
      exact h.bound q (List.mem_filter.mp hq).1
  | zombie pid =>
    simp only [Kernel.apply]
    have hmap : (k.procs.map fun p => if p.pid == pid then { p with zombie := true } else p).map (·.pid)
        = k.procs.map (·.pid) := by
      rw [List.map_map]
      apply List.map_congr_left
      intro p _
      simp only [Function.comp]
      split <;> rfl
    refine ⟨?_, ?_, h.thrTgid, ?_⟩
    · simp only [Kernel.listdir, hmap]; exact h.nodup
    · intro t ht
      have h0 := h.thrNotProc t ht
      cases hf : Kernel.findProc { procs := k.procs.map fun p => if p.pid == pid then { p with zombie := true } else p, thrs := k.thrs } t.tid with
      | none => rfl
      | some q =>
        exfalso
        have := findProc_some hf
        obtain ⟨q0, hq0, e0⟩ := List.mem_map.mp this.1
        have hq0pid : q0.pid = t.tid := by
          rw [← this.2, ← e0]; split <;> rfl
        exact findProc_none h0 q0 hq0 hq0pid
    · intro q hq
      obtain ⟨q0, hq0, e0⟩ := List.mem_map.mp hq
      have : q.pid = q0.pid := by rw [← e0]; split <;> rfl
      rw [this]; exact h.bound q0 hq0
  | thread t =>
    simp only [Kernel.apply]
    split
    · exact h
    · rename_i hc
      simp only [Bool.or_eq_true, decide_eq_true_eq, not_or, Bool.not_eq_true, Bool.not_eq_eq_eq_not,
        Bool.not_true, Bool.not_false] at hc
      obtain ⟨⟨hu, _⟩, hg⟩ := hc
      simp only [Kernel.used, Bool.or_eq_false_iff] at hu
      have hnp : k.findProc t.tid = none := by
        cases hf : k.findProc t.tid with
        | none => rfl
        | some x => rw [hf] at hu; simp at hu
      refine ⟨h.nodup, ?_, ?_, h.bound⟩
      · intro t' ht'
        simp only [List.mem_append, List.mem_singleton] at ht'
        rcases ht' with ht' | ht'
        · exact h.thrNotProc t' ht'
        · subst ht'; exact hnp
      · intro t' ht'
        simp only [List.mem_append, List.mem_singleton] at ht'
        rcases ht' with ht' | ht'
        · exact h.thrTgid t' ht'
        · subst ht'
          intro e
          rw [e] at hg
          rw [hnp] at hg
          simp at hg

theorem Kernel.applyAll_wf (k : Kernel) (evs : List KEv) (h : k.WF) : (k.applyAll evs).WF := by
  induction evs generalizing k with
  | nil => exact h
  | cons e es ih => exact ih _ (Kernel.apply_wf k e h)

end Psutil.C04
