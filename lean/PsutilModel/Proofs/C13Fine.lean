/-
  Proofs/C13Fine.lean — one process, both files: `/proc/pid/smaps` and `/proc/pid/smaps_rollup`
  rendered from the same list of mappings with the kernel's fine-grained PSS; what
  `_parse_smaps_rollup` and `_parse_smaps` make of them.
-/
import PsutilModel.Proofs.C13Regex
import PsutilModel.Proofs.C13Rollup
namespace Psutil.C13
open Psutil Psutil.C13.Spec

/-! ### `setVal` changes one value and nothing else -/

theorem setVal_keys (kv : List KV) (k : Bytes) (v : Nat) : (setVal kv k v).map (·.key) = kv.map (·.key) := by
  unfold setVal
  rw [List.map_map]
  apply List.map_congr_left
  intro e _
  simp only [Function.comp]
  split <;> rfl

theorem setVal_kb (kv : List KV) (k : Bytes) (v : Nat) : (setVal kv k v).map (·.kb) = kv.map (·.kb) := by
  unfold setVal
  rw [List.map_map]
  apply List.map_congr_left
  intro e _
  simp only [Function.comp]
  split <;> rfl

theorem kvGet_setVal_ne (kv : List KV) (k k' : Bytes) (v : Nat) (h : k' ≠ k) :
    kvGet (setVal kv k v) k' = kvGet kv k' := by
  unfold kvGet setVal
  induction kv with
  | nil => rfl
  | cons e t ih =>
    simp only [List.map_cons, List.find?_cons]
    by_cases hk : e.key = k
    · subst hk
      have h2 : (e.key == k') = false := beq_false_of_ne (fun h' => h h'.symm)
      simp only [beq_self_eq_true, if_true, h2]
      exact ih
    · have h1 : (e.key == k) = false := beq_false_of_ne hk
      simp only [h1, Bool.false_eq_true, if_false]
      cases (e.key == k')
      · exact ih
      · rfl

theorem kvGet_setVal_eq (kv : List KV) (k : Bytes) (v : Nat) :
    kvGet (setVal kv k v) k = (kvGet kv k).map (fun _ => v) := by
  unfold kvGet setVal
  induction kv with
  | nil => rfl
  | cons e t ih =>
    simp only [List.map_cons, List.find?_cons]
    by_cases hk : e.key = k
    · subst hk
      simp only [beq_self_eq_true, if_true]
      rfl
    · have h1 : (e.key == k) = false := beq_false_of_ne hk
      simp only [h1, Bool.false_eq_true, if_false]
      exact ih

theorem filter_setVal (kv : List KV) (k : Bytes) (v : Nat) (p : Bytes → Bool) (hk : p k = false) :
    ((setVal kv k v).filter fun e => p e.key).map (·.val) = (kv.filter fun e => p e.key).map (·.val) := by
  unfold setVal
  induction kv with
  | nil => rfl
  | cons e t ih =>
    simp only [List.map_cons, List.filter_cons]
    by_cases he : e.key = k
    · subst he
      simp only [beq_self_eq_true, if_true, hk, Bool.false_eq_true, if_false]
      exact ih
    · have h1 : (e.key == k) = false := beq_false_of_ne he
      simp only [h1, Bool.false_eq_true, if_false]
      cases p e.key
      · simpa using ih
      · simp only [if_true, List.map_cons]
        rw [ih]

theorem wfRollupRec_setVal (kvs : List KV) (k : Bytes) (v : Nat) (h : wfRollupRec kvs = true) :
    wfRollupRec (setVal kvs k v) = true := by
  unfold wfRollupRec at h ⊢
  simp only [Bool.and_eq_true, List.all_eq_true, decide_eq_true_eq] at h ⊢
  refine ⟨?_, by rw [setVal_keys]; exact h.2⟩
  intro e he
  obtain ⟨e0, he0, rfl⟩ := List.mem_map.mp he
  have := h.1 e0 he0
  split <;> exact this

/-- replacing the value of the `Pss` line changes the promised pss and nothing else -/
theorem specFullRollup_setVal_pss (kvs : List KV) (v : Nat) :
    specFullRollup (setVal kvs bPss v)
      = { uss := (specFullRollup kvs).uss
          pss := 1024 * ((kvGet kvs bPss).map fun _ => v).getD 0
          swap := (specFullRollup kvs).swap } := by
  apply full_ext
  · show 1024 * _ = 1024 * _
    rw [filter_setVal kvs bPss v (fun key => startsWith bPrivate_ key) (by decide)]
  · show 1024 * _ = 1024 * _
    rw [kvGet_setVal_eq]
  · show 1024 * _ = 1024 * _
    rw [kvGet_setVal_ne kvs bPss bSwap v (by decide)]

/-! ### the field-wise-sum roll-up promises what the per-mapping listing promises -/

theorem rollupSums_spec (c : Cfg) (hg : c.Good) (ms : List Mapping) (hne : ms ≠ [])
    (hwf : wfSmaps false ms = true) :
    wfRollupRec (rollupSums ms) = true ∧ specFullRollup (rollupSums ms) = specFull ms := by
  have hag := rollup_agrees c hg ms hne hwf
  cases ms with
  | nil => exact absurd rfl hne
  | cons m ms' =>
    have hwf0 := hwf
    unfold wfSmaps keysOf at hwf
    simp only [Bool.and_eq_true, Bool.not_eq_true', decide_eq_true_eq, List.all_eq_true] at hwf
    obtain ⟨⟨hne', hnd⟩, hall⟩ := hwf
    have hK : m.kv.map (·.key) ≠ [] := by
      intro e; rw [e] at hne'; simp at hne'
    have hw : ∀ x ∈ m :: ms', WfM false (m.kv.map (·.key)) x := fun x hx => wfMapping_spec (hall x hx)
    have hKnd : (rollupKeysOf (m :: ms')).Nodup := by
      unfold rollupKeysOf
      exact List.Nodup.sublist ((List.filter_sublist).map _) hnd
    have hkeys : ∀ e ∈ rollupSums (m :: ms'), wfKey e.key = true := by
      intro e he
      obtain ⟨k, hk, rfl⟩ := List.mem_map.mp he
      obtain ⟨e0, he0, hek⟩ := List.mem_map.mp hk
      have := (List.mem_filter.mp he0).1
      show wfKey k = true
      rw [← hek]
      exact wfKV_key ((hw m (by simp)).kv e0 this)
    have hwr : wfRollupRec (rollupSums (m :: ms')) = true := by
      unfold wfRollupRec
      simp only [Bool.and_eq_true, List.all_eq_true, decide_eq_true_eq]
      refine ⟨hkeys, ?_⟩
      have : (rollupSums (m :: ms')).map (·.key) = rollupKeysOf (m :: ms') := by
        unfold rollupSums
        rw [List.map_map]
        exact List.map_id'' (fun _ => rfl) _
      rw [this]
      exact hKnd
    refine ⟨hwr, ?_⟩
    rw [parseSmaps_rendered c hg _ hK hnd m ms' hw] at hag
    have hren : renderRollup (rollupKeysOf (m :: ms')) (m :: ms')
        = renderRollupRec (((m :: ms').head?.map (·.lo)).getD 0) (((m :: ms').getLast?.map (·.hi)).getD 0)
            (rollupSums (m :: ms')) := by
      unfold renderRollup renderRollupRec rollupSums
      simp only [List.map_map, Function.comp_def]
    rw [hren, rollup_record c hg _ _ _ hwr] at hag
    exact Except.ok.inj hag

/-! ### the shown mappings -/

theorem get_setVal (kv : List KV) (k : Bytes) (v : Nat) (hk : k ∈ kv.map (·.key)) :
    ((((setVal kv k v).find? fun e => e.key == k).map (·.val)).getD 0) = v := by
  have := kvGet_setVal_eq kv k v
  unfold kvGet at this
  rw [this]
  obtain ⟨e, he, hek⟩ := List.mem_map.mp hk
  cases hf : kv.find? (fun e => e.key == k) with
  | none =>
    have := List.find?_eq_none.mp hf e he
    simp [hek] at this
  | some e' => rfl

theorem shown_pss (f : FineMapping) (hk : bPss ∈ f.shown.kv.map (·.key)) :
    f.shown.get bPss = f.fine / pssUnit := by
  unfold Mapping.get FineMapping.shown
  apply get_setVal
  have : f.shown.kv.map (·.key) = f.m.kv.map (·.key) := setVal_keys _ _ _
  rw [← this]
  exact hk

theorem sum_shown_pss (fms : List FineMapping) (h : ∀ f ∈ fms, bPss ∈ f.shown.kv.map (·.key)) :
    ((shownAll fms).map (·.get bPss)).sum = pssListed (fines fms) := by
  unfold shownAll fines pssListed
  induction fms with
  | nil => rfl
  | cons f t ih =>
    simp only [List.map_cons, List.sum_cons]
    rw [shown_pss f (h f (by simp)), ih (fun g hg => h g (by simp [hg]))]

/-- **both sources, one process**: what the API promises from the roll-up of `fms` is what it
    promises from the listing, except that pss is the fine sum truncated once -/
theorem fine_two_sources (c : Cfg) (hg : c.Good) (fms : List FineMapping) (hne : fms ≠ [])
    (hwf : wfSmaps false (shownAll fms) = true) (hp : bPss ∈ keysOf (shownAll fms)) :
    wfRollupRec (rollupKVsFine fms) = true
      ∧ specFullRollup (rollupKVsFine fms)
          = { uss := (specFull (shownAll fms)).uss, pss := 1024 * pssRolled (fines fms),
              swap := (specFull (shownAll fms)).swap }
      ∧ (specFull (shownAll fms)).pss = 1024 * pssListed (fines fms) := by
  have hne' : shownAll fms ≠ [] := by
    intro e; exact hne (List.map_eq_nil_iff.mp e)
  obtain ⟨hwr, hspec⟩ := rollupSums_spec c hg (shownAll fms) hne' hwf
  have hwf0 := hwf
  unfold wfSmaps at hwf
  simp only [Bool.and_eq_true, Bool.not_eq_true', decide_eq_true_eq, List.all_eq_true] at hwf
  obtain ⟨_, hall⟩ := hwf
  have hkeysAll : ∀ x ∈ shownAll fms, x.kv.map (·.key) = keysOf (shownAll fms) :=
    fun x hx => (wfMapping_spec (hall x hx)).keys
  have hkvAll : ∀ x ∈ shownAll fms, ∀ e ∈ x.kv, wfKV e = true :=
    fun x hx => (wfMapping_spec (hall x hx)).kv
  refine ⟨wfRollupRec_setVal _ _ _ hwr, ?_, ?_⟩
  · unfold rollupKVsFine
    rw [specFullRollup_setVal_pss, hspec]
    -- the `Pss` line is among the roll-up's lines: it carries a unit
    have hin : (kvGet (rollupSums (shownAll fms)) bPss).isSome = true := by
      cases hs : shownAll fms with
      | nil => exact absurd hs hne'
      | cons m ms' =>
        have hm : m ∈ shownAll fms := by rw [hs]; simp
        have hkm : bPss ∈ m.kv.map (·.key) := by
          rw [hkeysAll m hm]; exact hp
        obtain ⟨e, he, hek⟩ := List.mem_map.mp hkm
        have hkb : e.kb = true := wfKV_special_kb (hkvAll m hm e he) (by rw [hek]; decide)
        have hmem : bPss ∈ rollupKeysOf (m :: ms') := by
          unfold rollupKeysOf
          exact List.mem_map.mpr ⟨e, List.mem_filter.mpr ⟨he, hkb⟩, hek⟩
        unfold kvGet rollupSums
        rw [Option.isSome_map, List.find?_isSome]
        exact ⟨⟨bPss, total (m :: ms') bPss, true⟩, List.mem_map.mpr ⟨bPss, hmem, rfl⟩, by simp⟩
    cases hg' : kvGet (rollupSums (shownAll fms)) bPss with
    | none => rw [hg'] at hin; cases hin
    | some _ => rfl
  · show 1024 * _ = 1024 * _
    rw [sum_shown_pss]
    intro f hf
    have hx : f.shown ∈ shownAll fms := List.mem_map.mpr ⟨f, hf, rfl⟩
    rw [hkeysAll _ hx]
    exact hp

end Psutil.C13
