/-
  Proofs/C07Hist.lean — the dictionary logic of the front ends: every call touches only the
  entry of its own (function, variant, thread), and that entry is the sample the history-defined
  specification says (helper lemmas for the history theorems of Props/C07.lean).
-/
import PsutilModel.Model.C07
import PsutilModel.Spec.C07
namespace Psutil.C07
open Spec

theorem slot_id (c : Cfg) (hd : c.dictsDistinct = true) (f : Fam) : slot c f = f := by
  simp [slot, hd]

theorem set_same (s : St) (f : Fam) (t : Tid) (v : Stored) : (s.set f t v) f t = some v := by
  simp [St.set]

theorem set_other (s : St) (f f' : Fam) (t t' : Tid) (v : Stored) (h : ¬ (f' = f ∧ t' = t)) :
    (s.set f t v) f' t' = s f' t' := by
  simp [St.set, h]

/-- the reference sample the code picks (`last.get(tid) or …`, or nothing when blocking) -/
def refOf (s : St) (c : Call) (f : Fam) : Option Stored :=
  if c.blocking then none else usable (s f c.tid)

theorem step_unfold (e : Env) (s : St) (c : Call) :
    step e s c =
      if c.negative then (s, .exc .valueError 0)
      else
        match refOf s c (slot e.cfg c.fam) with
        | some t1 =>
          match c.reads with
          | [] => (s, .starved)
          | r :: _ => finish e s c t1 r 1
        | none =>
          match c.reads with
          | [] => (s, .starved)
          | r0 :: rest =>
            match sample e c.percpu r0 with
            | .error x => (s, .exc x 1)
            | .ok t1 =>
              match rest with
              | [] => (s, .starved)
              | r1 :: _ => finish e s c t1 r1 2 := by
  unfold step refOf usable
  rfl

theorem finish_state (e : Env) (s : St) (c : Call) (t1 : Stored) (r : Bytes) (n : Nat) :
    (finish e s c t1 r n).1 =
      match sample e c.percpu r with
      | .error _ => s
      | .ok t2 => s.set (slot e.cfg c.fam) c.tid t2 := by
  unfold finish
  cases sample e c.percpu r with
  | error x => rfl
  | ok t2 =>
    simp only
    cases calcStored e c.fn t1 t2 <;> rfl

/-- the state after a call, entry by entry -/
theorem step_entry (e : Env) (hd : e.cfg.dictsDistinct = true) (s : St) (c : Call)
    (fam : Fam) (tid : Tid) :
    (step e s c).1 fam tid = prevStep (sample e) fam tid (s fam tid) c := by
  rw [step_unfold]
  unfold prevStep taken refOf
  simp only [slot_id e.cfg hd]
  by_cases hk : c.fam = fam ∧ c.tid = tid
  · obtain ⟨rfl, rfl⟩ := hk
    simp only [and_self, if_true]
    by_cases hn : c.negative = true
    · simp [hn]
    · simp only [hn, Bool.false_eq_true, if_false]
      cases href : (if c.blocking = true then none else usable (s c.fam c.tid)) with
      | some t1 =>
        simp only
        cases hr : c.reads with
        | nil => simp
        | cons r rest =>
          simp only [finish_state, slot_id e.cfg hd]
          cases sample e c.percpu r with
          | error x => simp [Except.toOption]
          | ok t2 => simp [Except.toOption, set_same]
      | none =>
        simp only
        cases hr : c.reads with
        | nil => simp
        | cons r0 rest =>
          simp only
          cases h0 : sample e c.percpu r0 with
          | error x => cases rest <;> simp [h0]
          | ok t1 =>
            cases rest with
            | nil => simp
            | cons r1 rest' =>
              simp only [finish_state, slot_id e.cfg hd]
              cases sample e c.percpu r1 with
              | error x => simp [Except.toOption, h0]
              | ok t2 => simp [Except.toOption, set_same, h0]
  · simp only [hk, if_false]
    by_cases hn : c.negative = true
    · simp [hn]
    · simp only [hn, Bool.false_eq_true, if_false]
      have hset : ∀ v, (s.set c.fam c.tid v) fam tid = s fam tid := by
        intro v
        apply set_other
        intro h
        exact hk ⟨h.1.symm, h.2.symm⟩
      cases (if c.blocking = true then none else usable (s c.fam c.tid)) with
      | some t1 =>
        simp only
        cases c.reads with
        | nil => rfl
        | cons r rest =>
          simp only [finish_state, slot_id e.cfg hd]
          cases sample e c.percpu r <;> simp [hset]
      | none =>
        simp only
        cases c.reads with
        | nil => rfl
        | cons r0 rest =>
          simp only
          cases sample e c.percpu r0 with
          | error x => rfl
          | ok t1 =>
            cases rest with
            | nil => rfl
            | cons r1 rest' =>
              simp only [finish_state, slot_id e.cfg hd]
              cases sample e c.percpu r1 <;> simp [hset]

/-- after any history, every dictionary entry is the sample the specification remembers -/
theorem runAll_entry (e : Env) (hd : e.cfg.dictsDistinct = true) (h : List Call) :
    ∀ (s : St) (fam : Fam) (tid : Tid),
      (runAll e s h) fam tid = h.foldl (prevStep (sample e) fam tid) (s fam tid) := by
  induction h with
  | nil => intro s fam tid; rfl
  | cons c cs ih =>
    intro s fam tid
    simp only [runAll, List.foldl_cons]
    rw [ih, step_entry e hd]

theorem finish_out (e : Env) (s : St) (c : Call) (t1 : Stored) (r : Bytes) (n : Nat) :
    (finish e s c t1 r n).2 =
      match sample e c.percpu r with
      | .error x => .exc x n
      | .ok t2 =>
        match calcStored e c.fn t1 t2 with
        | .error x => .exc x n
        | .ok v => .ok v n := by
  unfold finish
  cases sample e c.percpu r with
  | error x => rfl
  | ok t2 =>
    simp only
    cases calcStored e c.fn t1 t2 <;> rfl

/-- the value a call returns depends on the state only through its own entry -/
theorem step_out_ref (e : Env) (hd : e.cfg.dictsDistinct = true) (s : St) (c : Call) :
    (step e s c).2 = expectedRef (sample e) (calcStored e) (s c.fam c.tid) c := by
  rw [step_unfold]
  unfold expectedRef refOf
  simp only [slot_id e.cfg hd]
  by_cases hn : c.negative = true
  · simp [hn]
  · simp only [hn, Bool.false_eq_true, if_false]
    cases (if c.blocking = true then none else usable (s c.fam c.tid)) with
    | some t1 =>
      simp only
      cases c.reads with
      | nil => rfl
      | cons r rest => rw [finish_out]; rfl
    | none =>
      simp only
      cases c.reads with
      | nil => rfl
      | cons r0 rest =>
        simp only
        cases sample e c.percpu r0 with
        | error x => rfl
        | ok t1 =>
          cases rest with
          | nil => rfl
          | cons r1 rest' => rw [finish_out]; rfl

theorem step_out (e : Env) (hd : e.cfg.dictsDistinct = true) (s : St) (c : Call) (h : List Call)
    (hs : s c.fam c.tid = prev (sample e) c.fam c.tid h) :
    (step e s c).2 = expected (sample e) (calcStored e) h c := by
  rw [step_out_ref e hd, hs]
  rfl

/-- the state the module-level code leaves behind is the specification's "sample taken at import" -/
theorem importState_entry (e : Env) (tid0 : Tid) (r0 r1 : Bytes) (fam : Fam) (tid : Tid) :
    importState e tid0 r0 r1 fam tid = importSample (sample e) tid0 r0 r1 fam tid := by
  unfold importState importSample
  cases hp : fam.percpu with
  | true =>
    simp only [if_true]
    cases sample e true r1 with
    | error x => by_cases ht : tid = tid0 <;> simp [Except.toOption, ht]
    | ok v => by_cases ht : tid = tid0 <;> simp [Except.toOption, ht]
  | false =>
    simp only [Bool.false_eq_true, if_false]
    cases sample e false r0 with
    | error x => by_cases ht : tid = tid0 <;> simp [Except.toOption, ht]
    | ok v => by_cases ht : tid = tid0 <;> simp [Except.toOption, ht]

/-! ### threads and their identifiers -/

theorem prevStep_reTid (rd : Bool → Bytes → PRes Stored) (ident : Tid → Tid) (fam : Fam) (tid : Tid)
    (p : Option Stored) (c : Call) (hinj : ident c.tid = ident tid → c.tid = tid) :
    prevStep rd fam (ident tid) p (reTid ident c) = prevStep rd fam tid p c := by
  unfold prevStep
  have hk : ((reTid ident c).fam = fam ∧ (reTid ident c).tid = ident tid) ↔ (c.fam = fam ∧ c.tid = tid) := by
    simp only [reTid, Call.fam]
    constructor
    · intro h; exact ⟨h.1, hinj h.2⟩
    · intro h; exact ⟨h.1, by rw [h.2]⟩
  have ht : ∀ r, taken rd (reTid ident c) r = taken rd c r := by intro r; rfl
  by_cases h : c.fam = fam ∧ c.tid = tid
  · rw [if_pos (hk.mpr h), if_pos h, ht]
  · rw [if_neg (fun x => h (hk.mp x)), if_neg h]

theorem prev_reTid (rd : Bool → Bytes → PRes Stored) (ident : Tid → Tid) (fam : Fam) (tid : Tid)
    (h : List Call) (hinj : ∀ a ∈ h, ident a.tid = ident tid → a.tid = tid) :
    ∀ p, (h.map (reTid ident)).foldl (prevStep rd fam (ident tid)) p = h.foldl (prevStep rd fam tid) p := by
  induction h with
  | nil => intro p; rfl
  | cons a as ih =>
    intro p
    simp only [List.map_cons, List.foldl_cons]
    rw [prevStep_reTid rd ident fam tid p a (hinj a (by simp))]
    exact ih (fun x hx => hinj x (by simp [hx])) _

/-! ### other threads -/

theorem step_other_tid (e : Env) (s : St) (c : Call) (fam : Fam) (tid : Tid) (h : c.tid ≠ tid) :
    (step e s c).1 fam tid = s fam tid := by
  rw [step_unfold]
  have hset : ∀ v, (s.set (slot e.cfg c.fam) c.tid v) fam tid = s fam tid := by
    intro v
    apply set_other
    intro hh
    exact h hh.2.symm
  by_cases hn : c.negative = true
  · simp [hn]
  · simp only [hn, Bool.false_eq_true, if_false]
    cases refOf s c (slot e.cfg c.fam) with
    | some t1 =>
      simp only
      cases c.reads with
      | nil => rfl
      | cons r rest =>
        simp only [finish_state]
        cases sample e c.percpu r <;> simp [hset]
    | none =>
      simp only
      cases c.reads with
      | nil => rfl
      | cons r0 rest =>
        simp only
        cases sample e c.percpu r0 with
        | error x => rfl
        | ok t1 =>
          cases rest with
          | nil => rfl
          | cons r1 rest' =>
            simp only [finish_state]
            cases sample e c.percpu r1 <;> simp [hset]

/-- two states that agree on thread `tid`'s entries give the same answer to a call of `tid`
    and still agree afterwards -/
theorem step_congr (e : Env) (s s' : St) (c : Call)
    (hag : ∀ fam, s fam c.tid = s' fam c.tid) :
    (step e s c).2 = (step e s' c).2 ∧ ∀ fam, (step e s c).1 fam c.tid = (step e s' c).1 fam c.tid := by
  rw [step_unfold, step_unfold]
  have href : refOf s c (slot e.cfg c.fam) = refOf s' c (slot e.cfg c.fam) := by
    simp [refOf, hag]
  rw [href]
  have hset : ∀ v fam, (s.set (slot e.cfg c.fam) c.tid v) fam c.tid
      = (s'.set (slot e.cfg c.fam) c.tid v) fam c.tid := by
    intro v fam
    simp [St.set, hag]
  by_cases hn : c.negative = true
  · simp [hn, hag]
  · simp only [hn, Bool.false_eq_true, if_false]
    cases refOf s' c (slot e.cfg c.fam) with
    | some t1 =>
      simp only
      cases c.reads with
      | nil => exact ⟨rfl, hag⟩
      | cons r rest =>
        rw [finish_state, finish_out, finish_state, finish_out]
        cases sample e c.percpu r with
        | error x => exact ⟨rfl, hag⟩
        | ok t2 => exact ⟨rfl, hset t2⟩
    | none =>
      simp only
      cases c.reads with
      | nil => exact ⟨rfl, hag⟩
      | cons r0 rest =>
        simp only
        cases sample e c.percpu r0 with
        | error x => exact ⟨rfl, hag⟩
        | ok t1 =>
          cases rest with
          | nil => exact ⟨rfl, hag⟩
          | cons r1 rest' =>
            rw [finish_state, finish_out, finish_state, finish_out]
            cases sample e c.percpu r1 with
            | error x => exact ⟨rfl, hag⟩
            | ok t2 => exact ⟨rfl, hset t2⟩

/-- the outputs of thread `tid`'s calls, in order -/
def outputsOf (e : Env) (tid : Tid) (s : St) : List Call → List Out
  | [] => []
  | c :: cs =>
    if c.tid = tid then (step e s c).2 :: outputsOf e tid (step e s c).1 cs
    else outputsOf e tid (step e s c).1 cs

theorem outputsOf_filter (e : Env) (tid : Tid) (h : List Call) :
    ∀ (s s' : St), (∀ fam, s fam tid = s' fam tid) →
      outputsOf e tid s h = outputs e s' (h.filter fun c => decide (c.tid = tid)) := by
  induction h with
  | nil => intro s s' _; rfl
  | cons c cs ih =>
    intro s s' hag
    by_cases hc : c.tid = tid
    · subst hc
      obtain ⟨ho, hst⟩ := step_congr e s s' c hag
      simp only [outputsOf, if_true, List.filter_cons, decide_true, outputs, ho]
      congr 1
      exact ih _ _ hst
    · simp only [outputsOf, hc, if_false, List.filter_cons, decide_false, Bool.false_eq_true]
      apply ih
      intro fam
      rw [step_other_tid e s c fam tid hc]
      exact hag fam

/-! ### the same at the granularity of dictionary accesses -/

theorem mstep_other (s : MSt) (t i : Tid) (op : MOp) (h : t ≠ i) :
    (mstep s t op).last i = s.last i ∧ (mstep s t op).loc i = s.loc i := by
  have hi : ¬ i = t := fun e => h e.symm
  cases op with
  | getLast => simp [mstep, MSt.setLoc, hi]
  | sampleT1 v =>
    simp only [mstep]
    cases (s.loc t).t1 <;> simp [MSt.setLoc, hi]
  | forceT1 v => simp [mstep, MSt.setLoc, hi]
  | store v => simp [mstep, hi]
  | load => simp [mstep, MSt.setLoc, hi]

theorem mstep_congr (s s' : MSt) (t : Tid) (op : MOp)
    (hl : s.last t = s'.last t) (hc : s.loc t = s'.loc t) :
    (mstep s t op).last t = (mstep s' t op).last t ∧ (mstep s t op).loc t = (mstep s' t op).loc t := by
  cases op with
  | getLast => simp [mstep, MSt.setLoc, hl, hc]
  | sampleT1 v =>
    simp only [mstep, hc]
    cases (s'.loc t).t1 <;> simp [MSt.setLoc, hl, hc]
  | forceT1 v => simp [mstep, MSt.setLoc, hl, hc]
  | store v => simp [mstep, hc]
  | load => simp [mstep, MSt.setLoc, hl, hc]

/-- thread `i`'s view (its dictionary entry and its private variables) after any interleaving
    equals its view after running only its own steps -/
theorem mrun_project (i : Tid) (sched : List (Tid × MOp)) :
    ∀ (s s' : MSt), s.last i = s'.last i → s.loc i = s'.loc i →
      (mrun s sched).last i = (mrun s' (sched.filter fun p => decide (p.1 = i))).last i ∧
      (mrun s sched).loc i = (mrun s' (sched.filter fun p => decide (p.1 = i))).loc i := by
  induction sched with
  | nil => intro s s' hl hc; exact ⟨hl, hc⟩
  | cons p rest ih =>
    intro s s' hl hc
    obtain ⟨t, op⟩ := p
    by_cases ht : t = i
    · subst ht
      obtain ⟨a, b⟩ := mstep_congr s s' t op hl hc
      simp only [mrun, List.filter_cons, decide_true, if_true]
      exact ih _ _ a b
    · obtain ⟨a, b⟩ := mstep_other s t i op ht
      simp only [mrun, List.filter_cons, ht, decide_false, Bool.false_eq_true, if_false]
      exact ih _ _ (a.trans hl) (b.trans hc)

/-- the accesses of one call in program order -/
def program (blocking : Bool) (first new : Stored) : List MOp :=
  if blocking then [.forceT1 first, .store new, .load]
  else [.getLast, .sampleT1 first, .store new, .load]

/-- running a call's accesses back to back yields exactly the reference sample and the new
    sample the call-level model compares (`refOf … or first`, `new`) -/
theorem mrun_program (s : MSt) (t : Tid) (blocking : Bool) (first new : Stored) :
    let s' := mrun s ((program blocking first new).map fun op => (t, op))
    s'.last t = some new ∧ (s'.loc t).t2 = some new ∧
      (s'.loc t).t1 = some (if blocking then first else (usable (s.last t)).getD first) := by
  cases blocking with
  | true => simp [program, mrun, mstep, MSt.setLoc]
  | false =>
    simp only [program, Bool.false_eq_true, if_false, List.map_cons, List.map_nil, mrun]
    cases hl : s.last t with
    | none => simp [mstep, MSt.setLoc, hl, usable]
    | some v =>
      by_cases hv : v.truthy = true
      · simp [mstep, MSt.setLoc, hl, usable, hv]
      · simp [mstep, MSt.setLoc, hl, usable, hv]

/-! ### `Process.cpu_percent` -/

theorem pset_same (s : PSt) (o : Nat) (v : PLast) : (s.set o v) o = some v := by simp [PSt.set]

theorem pset_other (s : PSt) (o o' : Nat) (v : PLast) (h : o' ≠ o) : (s.set o v) o' = s o' := by
  simp [PSt.set, h]

/-- a call on one `Process` object never touches another object's samples -/
theorem pstep_other (c : Cfg) (tck : Nat) (s : PSt) (p : PCall) (o : Nat) (h : p.obj ≠ o) :
    (pstep c tck s p).1 o = s o := by
  have ho : o ≠ p.obj := fun e => h e.symm
  unfold pstep
  split
  · rfl
  · split
    · rfl
    · simp only
      split
      · split
        · simp [pset_other _ _ _ _ ho]
        · rfl
      · split
        · split <;> simp [pset_other _ _ _ _ ho]
        · rfl

/-- the state after a `Process.cpu_percent` call, object by object -/
theorem pstep_same (c : Cfg) (tck : Nat) (s : PSt) (p : PCall) :
    (pstep c tck s p).1 p.obj =
      match ptaken p with
      | some (w, u, st) => some ⟨procStamp c (numCpus p.ncpuRaw) w, procSecs tck u, procSecs tck st⟩
      | none => s p.obj := by
  unfold pstep ptaken
  by_cases hn : p.negative = true
  · simp [hn]
  by_cases hv : p.vanishes = true
  · simp [hn, hv]
  · simp only [hn, hv, Bool.false_eq_true, if_false]
    by_cases hb : p.blocking = true
    · simp only [hb, if_true]
      cases p.timer with
      | nil => rfl
      | cons t1 ts =>
        cases ts with
        | nil => cases p.times <;> rfl
        | cons t2 ts' =>
          cases p.times with
          | nil => rfl
          | cons a as =>
            cases as with
            | nil => rfl
            | cons b bs => simp [pset_same]
    · simp only [hb, Bool.false_eq_true, if_false]
      cases p.timer with
      | nil => rfl
      | cons t2 ts =>
        cases p.times with
        | nil => rfl
        | cons a as =>
          simp only
          cases s p.obj <;> simp [pset_same]

/-- `mapPairs` works pair by pair: entry `k` of the result is `f` of the two `k`-th samples -/
theorem mapPairs_get {β : Type} (f : Sample → Sample → PRes β) :
    ∀ (as bs : List Sample) (vs : List β), mapPairs f as bs = .ok vs →
      vs.length = min as.length bs.length ∧
      ∀ k (hk : k < vs.length) (ha : k < as.length) (hb : k < bs.length), f as[k] bs[k] = .ok vs[k] := by
  intro as
  induction as with
  | nil => intro bs vs h; simp [mapPairs] at h; subst h; simp
  | cons a as ih =>
    intro bs vs h
    cases bs with
    | nil => simp [mapPairs] at h; subst h; simp
    | cons b bs =>
      simp only [mapPairs] at h
      cases hf : f a b with
      | error x => simp [hf] at h
      | ok v =>
        cases hm : mapPairs f as bs with
        | error x => simp [hf, hm] at h
        | ok vs' =>
          simp only [hf, hm, Except.ok.injEq] at h
          subst h
          obtain ⟨hl, hk⟩ := ih bs vs' hm
          refine ⟨by simp [hl, Nat.succ_min_succ], ?_⟩
          intro k hk' ha hb
          cases k with
          | zero => simpa using hf
          | succ j =>
            simp only [List.getElem_cons_succ]
            exact hk j (by simpa using hk') (by simpa using ha) (by simpa using hb)

end Psutil.C07
