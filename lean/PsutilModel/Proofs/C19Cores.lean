/- Proofs/C19Cores.lean — helper lemmas for `cpu_count(logical=False)`: distinct sibling lists
   (topology files), the kernel's cpulist format, and the /proc/cpuinfo package fallback. -/
import PsutilModel.Proofs.C19Text
import PsutilModel.Spec.C19Cores
namespace Psutil.C19
open Spec

/-! ### number of distinct elements -/

theorem distinct_filter_ne {α : Type} [BEq α] [LawfulBEq α] [DecidableEq α] (a : α) (l : List α) :
    distinctCount (l.filter fun b => !b == a) + (if a ∈ l then 1 else 0) = distinctCount l := by
  induction l with
  | nil => simp [distinctCount]
  | cons x xs ih =>
    by_cases hx : x = a
    · subst hx
      simp only [List.filter_cons, beq_self_eq_true, Bool.not_true, Bool.false_eq_true, if_false,
        List.mem_cons, true_or, if_true, distinctCount]
      by_cases hm : x ∈ xs
      · simp only [hm, if_true] at ih ⊢; exact ih
      · simp only [hm, if_false] at ih ⊢; omega
    · have hb : (!x == a) = true := by simp [hx]
      have hmem : x ∈ xs.filter (fun b => !b == a) ↔ x ∈ xs := by
        simp [List.mem_filter, hx]
      have ha : a ∈ x :: xs ↔ a ∈ xs := by
        simp only [List.mem_cons]
        constructor
        · rintro (h | h)
          · exact absurd h.symm hx
          · exact h
        · exact Or.inr
      simp only [List.filter_cons, hb, if_true, distinctCount, hmem, ha]
      by_cases hm : x ∈ xs <;> simp only [hm, if_true, if_false] <;> omega

/-- `len(set(l))`: the first-occurrence list `eraseDups` has as many elements as there are distinct values -/
theorem eraseDups_length {α : Type} [BEq α] [LawfulBEq α] [DecidableEq α] (l : List α) :
    l.eraseDups.length = distinctCount l := by
  generalize hn : l.length = n
  induction n using Nat.strong_induction_on generalizing l with
  | _ n ih =>
    cases l with
    | nil => simp [distinctCount]
    | cons a as =>
      rw [List.eraseDups_cons, List.length_cons]
      have hlen : (as.filter fun b => !b == a).length < n := by
        have := List.length_filter_le (fun b => !b == a) as
        simp only [List.length_cons] at hn
        omega
      rw [ih _ hlen _ rfl]
      have := distinct_filter_ne a as
      simp only [distinctCount]
      by_cases hm : a ∈ as <;> simp only [hm, if_true, if_false] at this ⊢ <;> omega

theorem distinctCount_map {α β : Type} [DecidableEq α] [DecidableEq β] (f : α → β) (l : List α)
    (hinj : ∀ a ∈ l, ∀ b ∈ l, f a = f b → a = b) : distinctCount (l.map f) = distinctCount l := by
  induction l with
  | nil => rfl
  | cons x xs ih =>
    have ih' := ih (fun a ha b hb => hinj a (by simp [ha]) b (by simp [hb]))
    have hmem : f x ∈ xs.map f ↔ x ∈ xs := by
      constructor
      · intro h
        obtain ⟨y, hy, hfy⟩ := List.mem_map.mp h
        have := hinj y (by simp [hy]) x (by simp) hfy
        rw [← this]; exact hy
      · exact fun h => List.mem_map.mpr ⟨x, h, rfl⟩
    simp only [List.map_cons, distinctCount, hmem, ih']

theorem distinctCount_eq_zero {α : Type} [DecidableEq α] (l : List α) : distinctCount l = 0 ↔ l = [] := by
  constructor
  · intro h
    cases l with
    | nil => rfl
    | cons x xs =>
      exfalso
      induction xs generalizing x with
      | nil => simp [distinctCount] at h
      | cons y ys ih =>
        simp only [distinctCount] at h ih
        by_cases hx : x ∈ y :: ys
        · simp only [hx, if_true] at h
          exact ih y h
        · simp only [hx, if_false] at h
          omega
  · rintro rfl; rfl

/-! ### method #1: the topology files -/

theorem readAll_ok (files : List FileState) (h : files.all (fun f => f.readOpt.isSome) = true) :
    readAll files = .ok (files.map fileText) := by
  induction files with
  | nil => rfl
  | cons f fs ih =>
    simp only [List.all_cons, Bool.and_eq_true] at h
    have ih' := ih h.2
    cases f with
    | absent => simp [FileState.readOpt] at h
    | unreadable => simp [FileState.readOpt] at h
    | content b => simp [readAll, FileState.read, ih', fileText, FileState.readOpt]

theorem readAll_error (files : List FileState) (h : files.all (fun f => f.readOpt.isSome) = false) :
    readAll files = .error .osError := by
  induction files with
  | nil => simp at h
  | cons f fs ih =>
    cases f with
    | absent => simp [readAll, FileState.read]
    | unreadable => simp [readAll, FileState.read]
    | content b =>
      have : fs.all (fun f => f.readOpt.isSome) = false := by
        simpa [List.all_cons, FileState.readOpt] using h
      simp [readAll, FileState.read, ih this]

/-! ### the kernel's files for an assignment of CPUs to cores -/

theorem coreSiblings_inj (coreOf : List Nat) (c c' : Nat) (hc : c ∈ coreOf)
    (h : coreSiblings coreOf c = coreSiblings coreOf c') : c = c' := by
  obtain ⟨i, hi, hget⟩ := List.getElem_of_mem hc
  have hmem : i ∈ coreSiblings coreOf c := by
    simp only [coreSiblings, List.mem_filter, List.mem_range, beq_iff_eq]
    exact ⟨hi, by rw [List.getElem?_eq_getElem hi, hget]⟩
  rw [h] at hmem
  simp only [coreSiblings, List.mem_filter, List.mem_range, beq_iff_eq] at hmem
  rw [List.getElem?_eq_getElem hi, hget] at hmem
  exact Option.some.inj hmem.2

theorem kernelTopology_readable (fmt : List Nat → Bytes) (coreOf : List Nat) :
    (kernelTopology fmt coreOf).all (fun f => f.readOpt.isSome) = true := by
  simp [kernelTopology, FileState.readOpt]

theorem kernelTopology_texts (fmt : List Nat → Bytes) (hws : ∀ s, NoWs (fmt s)) (coreOf : List Nat) :
    (kernelTopology fmt coreOf).map fileText = coreOf.map fun c => fmt (coreSiblings coreOf c) := by
  simp only [kernelTopology, List.map_map]
  apply List.map_congr_left
  intro c _
  simp [fileText, FileState.readOpt, stripWs_nl _ (hws _)]

/-- distinct files = distinct cores, for every injective whitespace-free format of CPU sets -/
theorem kernelTopology_distinct (fmt : List Nat → Bytes) (hws : ∀ s, NoWs (fmt s))
    (hinj : ∀ s s', fmt s = fmt s' → s = s') (coreOf : List Nat) :
    distinctCount ((kernelTopology fmt coreOf).map fileText) = distinctCount coreOf := by
  rw [kernelTopology_texts fmt hws]
  apply distinctCount_map
  intro a ha b _ hab
  exact coreSiblings_inj coreOf a b ha (hinj _ _ hab)

/-! ### method #2: the packages of a kernel-format /proc/cpuinfo -/

theorem lower_digits (s : Bytes) (h : ∀ c ∈ s, isDigit c = true) : lower s = s := by
  unfold lower
  induction s with
  | nil => rfl
  | cons c cs ih =>
    have hc := h c (by simp)
    simp only [isDigit, Bool.and_eq_true, decide_eq_true_eq] at hc
    have : ¬ (65 ≤ c ∧ c ≤ 90) := by omega
    simp only [List.map_cons, this, if_false]
    rw [ih (fun x hx => h x (by simp [hx]))]

theorem lower_renderDec (n : Nat) : lower (renderDec n) = renderDec n :=
  lower_digits _ (renderDec_isDigit n)

/-- a line `<literal><decimal>` whose literal starts with a non-blank is not touched by `strip()` -/
theorem stripWs_lit_dec (pre : Bytes) (c : Nat) (cs : Bytes) (hpre : pre = c :: cs) (hc : isWs c = false) (n : Nat) :
    stripWs (pre ++ renderDec n) = pre ++ renderDec n := by
  cases hr : (renderDec n).reverse with
  | nil =>
    have : renderDec n = [] := by simpa using hr
    exact absurd this (renderDec_ne_nil n)
  | cons d ds =>
    have hd : isWs d = false := by
      apply renderDec_noWs n
      have : d ∈ (renderDec n).reverse := by rw [hr]; simp
      simpa using this
    apply stripWs_ends _ c (cs ++ renderDec n) (by rw [hpre]; simp) hc d (ds ++ pre.reverse) _ hd
    simp [hr]

theorem pyInt_sp_renderDec (n : Nat) : pyInt? (32 :: renderDec n) = some (n : Int) := by
  have hs : stripWs (32 :: renderDec n) = renderDec n := by
    unfold stripWs
    have : lstripWs (32 :: renderDec n) = lstripWs (renderDec n) := by simp [lstripWs, isWs]
    rw [this, lstripWs_noWs _ (renderDec_noWs n)]
    unfold rstripWs
    rw [lstripWs_noWs _ (noWs_reverse _ (renderDec_noWs n))]
    simp
  have := pyInt_renderDec n
  unfold pyInt? at this ⊢
  rw [hs]
  rw [stripWs_noWs _ (renderDec_noWs n)] at this
  exact this

def linePhys (p : Nat) : Bytes := ([112, 104, 121, 115, 105, 99, 97, 108, 32, 105, 100] : Bytes) ++ tabColon ++ renderDec p
def lineCores (p : Nat) : Bytes := ([99, 112, 117, 32, 99, 111, 114, 101, 115] : Bytes) ++ tabColon ++ renderDec p

theorem norm_phys (p : Nat) : lower (stripWs (linePhys p)) = linePhys p := by
  unfold linePhys
  rw [stripWs_lit_dec _ 112 ([104, 121, 115, 105, 99, 97, 108, 32, 105, 100] ++ tabColon) (by simp [tabColon]) (by decide)]
  rw [lower_append, lower_renderDec]
  rfl

theorem norm_cores (p : Nat) : lower (stripWs (lineCores p)) = lineCores p := by
  unfold lineCores
  rw [stripWs_lit_dec _ 99 ([112, 117, 32, 99, 111, 114, 101, 115] ++ tabColon) (by simp [tabColon]) (by decide)]
  rw [lower_append, lower_renderDec]
  rfl


theorem coresScan_skip (l : Bytes) (ls : List Bytes) (m : List (Int × Int)) (cur : List (Bytes × Int))
    (h1 : lower (stripWs l) ≠ []) (h2 : kPhysicalId.isPrefixOf (lower (stripWs l)) = false)
    (h3 : kCpuCores.isPrefixOf (lower (stripWs l)) = false) :
    coresScan (l :: ls) m cur = coresScan ls m cur := by
  simp [coresScan, h1, h2, h3]

theorem scan_proc (n : Nat) (ls : List Bytes) (m : List (Int × Int)) (cur : List (Bytes × Int)) :
    coresScan ((([112, 114, 111, 99, 101, 115, 115, 111, 114] : Bytes) ++ tabColon ++ renderDec n) :: ls) m cur
      = coresScan ls m cur := by
  have hs : lower (stripWs (([112, 114, 111, 99, 101, 115, 115, 111, 114] : Bytes) ++ tabColon ++ renderDec n))
      = ([112, 114, 111, 99, 101, 115, 115, 111, 114] : Bytes) ++ tabColon ++ renderDec n := by
    rw [stripWs_lit_dec _ 112 ([114, 111, 99, 101, 115, 115, 111, 114] ++ tabColon) (by simp [tabColon]) (by decide)]
    rw [lower_append, lower_renderDec]
    rfl
  apply coresScan_skip <;> rw [hs] <;> simp [tabColon, kPhysicalId, kCpuCores, List.isPrefixOf]

theorem scan_model (ls : List Bytes) (m : List (Int × Int)) (cur : List (Bytes × Int)) :
    coresScan ((([109, 111, 100, 101, 108, 32, 110, 97, 109, 101] : Bytes) ++ tabColon ++
        ([70, 97, 107, 101, 32, 67, 80, 85, 32, 64, 32, 50, 46, 52, 48, 71, 72, 122] : Bytes)) :: ls) m cur
      = coresScan ls m cur := by
  apply coresScan_skip <;> decide

theorem scan_mhz (a mm : Nat) (ls : List Bytes) (m : List (Int × Int)) (cur : List (Bytes × Int)) :
    coresScan ((([99, 112, 117, 32, 77, 72, 122] : Bytes) ++ [9] ++ tabColon ++ renderDec a ++ [46] ++ pad3 mm) :: ls) m cur
      = coresScan ls m cur := by
  have hstrip : stripWs (([99, 112, 117, 32, 77, 72, 122] : Bytes) ++ [9] ++ tabColon ++ renderDec a ++ [46] ++ pad3 mm)
      = ([99, 112, 117, 32, 77, 72, 122] : Bytes) ++ [9] ++ tabColon ++ renderDec a ++ [46] ++ pad3 mm := by
    apply stripWs_ends _ 99 ([112, 117, 32, 77, 72, 122] ++ [9] ++ tabColon ++ renderDec a ++ [46] ++ pad3 mm) (by simp)
      (by decide) (48 + mm % 10)
      ([48 + mm / 10 % 10, 48 + mm / 100 % 10] ++ [46] ++ (renderDec a).reverse ++ tabColon.reverse ++ [9] ++ [122, 72, 77, 32, 117, 112, 99])
    · simp [pad3, tabColon]
    · simp only [isWs, Bool.or_eq_false_iff, beq_eq_false_iff_ne, Bool.and_eq_false_iff, decide_eq_false_iff_not]
      omega
  apply coresScan_skip <;> rw [hstrip] <;> simp [lower, tabColon, kPhysicalId, kCpuCores, List.isPrefixOf]

theorem scan_phys (p : Nat) (ls : List Bytes) (m : List (Int × Int)) (cur : List (Bytes × Int)) :
    coresScan (linePhys p :: ls) m cur = coresScan ls m (assocSet cur kPhysicalId (p : Int)) := by
  have hsplit : splitTabColon (linePhys p) = some (kPhysicalId, 32 :: renderDec p) := by
    simp [linePhys, tabColon, splitTabColon, kPhysicalId]
  have hne : linePhys p ≠ [] := by simp [linePhys]
  have hpre : kPhysicalId.isPrefixOf (linePhys p) = true := by simp [linePhys, kPhysicalId, List.isPrefixOf]
  rw [coresScan]
  simp only [norm_phys, hne, if_false, hpre, Bool.true_or, if_true, hsplit, pyInt_sp_renderDec]

theorem scan_cores (p : Nat) (ls : List Bytes) (m : List (Int × Int)) (cur : List (Bytes × Int)) :
    coresScan (lineCores p :: ls) m cur = coresScan ls m (assocSet cur kCpuCores (p : Int)) := by
  have hsplit : splitTabColon (lineCores p) = some (kCpuCores, 32 :: renderDec p) := by
    simp [lineCores, tabColon, splitTabColon, kCpuCores]
  have hne : lineCores p ≠ [] := by simp [lineCores]
  have hpre : kCpuCores.isPrefixOf (lineCores p) = true := by simp [lineCores, kCpuCores, List.isPrefixOf]
  rw [coresScan]
  simp only [norm_cores, hne, if_false, hpre, Bool.or_true, if_true, hsplit, pyInt_sp_renderDec]

theorem scan_block (b : CpuBlock) (ls : List Bytes) (m : List (Int × Int)) :
    coresScan (blockLines b ++ ls) m [] = coresScan ls (assocSet m (b.physicalId : Int) (b.cores : Int)) [] := by
  have e : blockLines b ++ ls =
      (([112, 114, 111, 99, 101, 115, 115, 111, 114] : Bytes) ++ tabColon ++ renderDec b.processor) ::
      (([109, 111, 100, 101, 108, 32, 110, 97, 109, 101] : Bytes) ++ tabColon ++
        ([70, 97, 107, 101, 32, 67, 80, 85, 32, 64, 32, 50, 46, 52, 48, 71, 72, 122] : Bytes)) ::
      (([99, 112, 117, 32, 77, 72, 122] : Bytes) ++ [9] ++ tabColon ++ renderDec b.mhzInt ++ [46] ++ pad3 b.mhzMilli) ::
      linePhys b.physicalId :: lineCores b.cores :: [] :: ls := rfl
  rw [e, scan_proc, scan_model, scan_mhz, scan_phys, scan_cores]
  rw [coresScan]
  simp [stripWs, lstripWs, rstripWs, lower, assocSet, List.lookup, kPhysicalId, kCpuCores]

theorem scan_blocks (bs : List CpuBlock) (m : List (Int × Int)) :
    coresScan (bs.flatMap blockLines) m []
      = .ok (bs.foldl (fun m b => assocSet m (b.physicalId : Int) (b.cores : Int)) m) := by
  induction bs generalizing m with
  | nil => rfl
  | cons b bs ih =>
    rw [List.flatMap_cons, scan_block, ih]
    rfl


theorem nodup_eraseDups {α : Type} [BEq α] [LawfulBEq α] (l : List α) : l.eraseDups.Nodup := by
  generalize hn : l.length = n
  induction n using Nat.strong_induction_on generalizing l with
  | _ n ih =>
    cases l with
    | nil => simp
    | cons a as =>
      rw [List.eraseDups_cons, List.nodup_cons]
      have hlen : (as.filter fun b => !b == a).length < n := by
        have := List.length_filter_le (fun b => !b == a) as
        simp only [List.length_cons] at hn
        omega
      refine ⟨?_, ih _ hlen _ rfl⟩
      rw [List.mem_eraseDups]
      simp [List.mem_filter]

def lastCores (bs : List CpuBlock) (i : Nat) : Int :=
  match (bs.filter (·.physicalId == i)).getLast? with
  | some b => (b.cores : Int)
  | none => 0

theorem lastCores_snoc (pre : List CpuBlock) (b : CpuBlock) (q : Nat) :
    lastCores (pre ++ [b]) q = if b.physicalId = q then (b.cores : Int) else lastCores pre q := by
  unfold lastCores
  rw [List.filter_append]
  by_cases h : b.physicalId = q
  · simp [h]
  · simp [h]

/-- the mapping `{physical id: cpu cores}` after the blocks `bs` -/
def target (bs : List CpuBlock) : List (Int × Int) :=
  ((bs.map (·.physicalId)).eraseDups).map fun (p : Nat) => ((p : Int), lastCores bs p)

theorem assocSet_map_not_mem (h : Nat → Int) (l : List Nat) (p : Nat) (v : Int) (hp : p ∉ l) :
    assocSet (l.map fun (q : Nat) => ((q : Int), h q)) (p : Int) v = (l.map fun (q : Nat) => ((q : Int), h q)) ++ [((p : Int), v)] := by
  induction l with
  | nil => rfl
  | cons q qs ih =>
    have hq : q ≠ p := fun e => hp (by simp [e])
    have hqi : ((q : Int) == (p : Int)) = false := by simp [hq]
    simp only [List.map_cons, assocSet, hqi, Bool.false_eq_true, if_false, List.cons_append]
    rw [ih (fun m => hp (by simp [m]))]

theorem assocSet_map_mem (h : Nat → Int) (l : List Nat) (p : Nat) (v : Int) (hn : l.Nodup) (hp : p ∈ l) :
    assocSet (l.map fun (q : Nat) => ((q : Int), h q)) (p : Int) v
      = l.map fun (q : Nat) => ((q : Int), if q = p then v else h q) := by
  induction l with
  | nil => simp at hp
  | cons q qs ih =>
    rw [List.nodup_cons] at hn
    by_cases hq : q = p
    · subst hq
      simp only [List.map_cons, assocSet, beq_self_eq_true, if_true]
      congr 1
      apply List.map_congr_left
      intro x hx
      have : x ≠ q := fun e => hn.1 (e ▸ hx)
      simp [this]
    · have hqi : ((q : Int) == (p : Int)) = false := by simp [hq]
      have hp' : p ∈ qs := by
        rcases List.mem_cons.mp hp with e | e
        · exact absurd e.symm hq
        · exact e
      simp only [List.map_cons, assocSet, hqi, Bool.false_eq_true, if_false, hq]
      rw [ih hn.2 hp']

theorem target_snoc (pre : List CpuBlock) (b : CpuBlock) :
    assocSet (target pre) (b.physicalId : Int) (b.cores : Int) = target (pre ++ [b]) := by
  unfold target
  rw [List.map_append, List.eraseDups_append]
  by_cases hm : b.physicalId ∈ pre.map (·.physicalId)
  · have hrem : ([b].map (·.physicalId)).removeAll (pre.map (·.physicalId)) = [] := by
      simp only [List.removeAll, List.map_cons, List.map_nil, List.filter_cons, List.filter_nil]
      simp [hm]
    rw [hrem]
    simp only [List.eraseDups_nil, List.append_nil]
    rw [assocSet_map_mem _ _ _ _ (nodup_eraseDups _) (List.mem_eraseDups.mpr hm)]
    apply List.map_congr_left
    intro q _
    rw [lastCores_snoc]
    by_cases hq : q = b.physicalId
    · simp [hq]
    · have : ¬ b.physicalId = q := fun e => hq e.symm
      simp [hq, this]
  · have hrem : ([b].map (·.physicalId)).removeAll (pre.map (·.physicalId)) = [b.physicalId] := by
      simp only [List.removeAll, List.map_cons, List.map_nil, List.filter_cons, List.filter_nil]
      simp [hm]
    rw [hrem]
    have he : [b.physicalId].eraseDups = [b.physicalId] := by simp [List.eraseDups_cons]
    rw [he, assocSet_map_not_mem _ _ _ _ (fun h => hm (List.mem_eraseDups.mp h)), List.map_append]
    congr 1
    · apply List.map_congr_left
      intro q hq
      rw [lastCores_snoc]
      have : ¬ b.physicalId = q := fun e => hm (e ▸ List.mem_eraseDups.mp hq)
      simp [this]
    · simp [lastCores_snoc]

theorem fold_target (rest pre : List CpuBlock) :
    rest.foldl (fun m b => assocSet m (b.physicalId : Int) (b.cores : Int)) (target pre) = target (pre ++ rest) := by
  induction rest generalizing pre with
  | nil => simp
  | cons b rest ih =>
    rw [List.foldl_cons, target_snoc, ih]
    simp

theorem sum_target (bs : List CpuBlock) : ((target bs).map (·.2)).foldl (· + ·) 0 = coresOf bs := by
  unfold target coresOf lastCores
  simp only [List.map_map]
  rfl


theorem target_nil : target [] = [] := rfl

/-- method #2 on a kernel-format /proc/cpuinfo: the mapping built by the scan -/
theorem coresScan_render (bs : List CpuBlock) :
    coresScan (linesOf (renderCpuinfo bs)) [] [] = .ok (target bs) := by
  rw [linesOf_renderCpuinfo, scan_blocks]
  have := fold_target bs []
  rw [target_nil] at this
  rw [this]
  simp

/-! ### `cpu_count_cores()` / `cpu_count(logical=False)` against the specification -/

theorem countOut_model (s : Int) :
    (match (if s = 0 then Except.ok none else Except.ok (some s) : Res (Option Int)) with
      | .error e => (Except.error e : Res (Option Int))
      | .ok none => .ok none
      | .ok (some n) => if n < 1 then .ok none else .ok (some n)) = .ok (countOut s) := by
  unfold countOut
  by_cases h : s = 0
  · subst h; simp
  · simp only [h, if_false]
    split <;> rfl

theorem cpuCountCores_refines (t : CountTree) (blocks : List CpuBlock) (v : Option Int)
    (hci : (topologyFiles t = [] → t.cpuinfo = .content (renderCpuinfo blocks)))
    (h : countCores t blocks = some v) : cpuCount false t = .ok v := by
  unfold countCores at h
  generalize hf : topologyFiles t = files at h hci
  have hf' : (if t.coreCpus.isEmpty then t.siblings else t.coreCpus) = files := hf
  by_cases hall : files.all (fun f => f.readOpt.isSome) = true
  · simp only [hall, if_true] at h
    have hread := readAll_ok _ hall
    simp only [cpuCount, Bool.false_eq_true, if_false, cpuCountCoresPlat, hf', hread, eraseDups_length]
    by_cases hd : distinctCount (files.map fileText) = 0
    · have hnil : files = [] := by
        have := (distinctCount_eq_zero _).mp hd
        simpa using this
      simp only [hd, ne_eq, not_true_eq_false, if_false, Option.some.injEq] at h
      simp only [hd, ne_eq, not_true_eq_false, if_false, hci hnil, FileState.read, coresScan_render, sum_target]
      rw [← h]
      exact countOut_model _
    · simp only [ne_eq, hd, not_false_eq_true, if_true, Option.some.injEq] at h
      simp only [ne_eq, hd, not_false_eq_true, if_true]
      rw [← h]
      unfold countOut
      split <;> rfl
  · simp [hall] at h


/-! ### the kernel's cpulist format can be read back: it is injective and free of blanks -/

def expandRun (r : Nat × Nat) : List Nat := List.range' r.1 (r.2 - r.1 + 1)

theorem runs_eq_nil (s : List Nat) (h : runs s = []) : s = [] := by
  cases s with
  | nil => rfl
  | cons a rest =>
    simp only [runs] at h
    split at h
    · split at h <;> simp at h
    · simp at h

theorem runs_wf (s : List Nat) : ∀ r ∈ runs s, r.1 ≤ r.2 := by
  induction s with
  | nil => simp [runs]
  | cons a rest ih =>
    intro r hr
    simp only [runs] at hr
    split at hr
    · rename_i b e rs heq
      have hbe : b ≤ e := ih (b, e) (by rw [heq]; simp)
      split at hr
      · rename_i hb
        rcases List.mem_cons.mp hr with h | h
        · subst h; simp only; omega
        · exact ih r (by rw [heq]; simp [h])
      · rcases List.mem_cons.mp hr with h | h
        · subst h; simp
        · exact ih r (by rw [heq]; exact h)
    · simp only [List.mem_singleton] at hr
      subst hr; simp

theorem expand_runs (s : List Nat) : (runs s).flatMap expandRun = s := by
  induction s with
  | nil => simp [runs]
  | cons a rest ih =>
    have hwf := runs_wf rest
    simp only [runs]
    split
    · rename_i b e rs heq
      rw [heq] at ih hwf
      have hbe : b ≤ e := hwf (b, e) (by simp)
      split
      · rename_i hb
        subst hb
        simp only [List.flatMap_cons] at ih ⊢
        rw [← ih]
        simp only [expandRun]
        have e1 : e - a + 1 = (e - (a + 1) + 1) + 1 := by omega
        rw [e1, List.range'_succ]
        simp
      · simp only [List.flatMap_cons] at ih ⊢
        rw [ih]
        simp [expandRun]
    · rename_i heq
      have := runs_eq_nil rest heq
      subst this
      simp [expandRun]

def parseRun? (f : Bytes) : Option (Nat × Nat) :=
  match splitOn 45 f with
  | [x] => (parseDec? x).map fun n => (n, n)
  | [x, y] =>
    match parseDec? x, parseDec? y with
    | some a, some b => some (a, b)
    | _, _ => none
  | _ => none

theorem parseRun_render (r : Nat × Nat) : parseRun? (renderRun r) = some r := by
  obtain ⟨a, e⟩ := r
  unfold parseRun? renderRun
  by_cases h : a = e
  · subst h
    simp only [if_true]
    rw [splitOn_noSep 45 _ (renderDec_not_mem a 45 (by decide))]
    simp [parseDec_renderDec]
  · simp only [h, if_false]
    rw [List.append_assoc, List.singleton_append, splitOn_append 45 _ _ (renderDec_not_mem a 45 (by decide)),
      splitOn_noSep 45 _ (renderDec_not_mem e 45 (by decide))]
    simp [parseDec_renderDec]

theorem renderRun_chars (r : Nat × Nat) : ∀ c ∈ renderRun r, isDigit c = true ∨ c = 45 := by
  intro c hc
  unfold renderRun at hc
  split at hc
  · exact Or.inl (renderDec_isDigit _ c hc)
  · simp only [List.mem_append, List.mem_singleton] at hc
    rcases hc with (hc | hc) | hc
    · exact Or.inl (renderDec_isDigit _ c hc)
    · exact Or.inr hc
    · exact Or.inl (renderDec_isDigit _ c hc)

theorem renderRun_ne_nil (r : Nat × Nat) : renderRun r ≠ [] := by
  unfold renderRun
  split
  · exact renderDec_ne_nil _
  · simp

/-- reading a cpulist back -/
def decodeCpuList (b : Bytes) : List Nat :=
  if b = [] then [] else ((splitOn 44 b).filterMap parseRun?).flatMap expandRun

theorem joinWith_nil (sep : Bytes) : joinWith sep [] = [] := by simp [joinWith]

theorem decode_cpuList (s : List Nat) : decodeCpuList (cpuList s) = s := by
  unfold decodeCpuList cpuList
  cases hs : s with
  | nil => simp [runs, joinWith]
  | cons a rest =>
    rw [← hs]
    have hne : runs s ≠ [] := fun h => by have := runs_eq_nil s h; rw [hs] at this; cases this
    have hfne : (runs s).map renderRun ≠ [] := by simpa using hne
    have hjne : joinWith [44] ((runs s).map renderRun) ≠ [] := by
      cases hr : runs s with
      | nil => exact absurd hr hne
      | cons r rs =>
        obtain ⟨tl, htl⟩ := joinWith_cons_prefix [44] (renderRun r) (rs.map renderRun)
        simp only [List.map_cons, htl]
        intro h
        exact renderRun_ne_nil r (List.append_eq_nil_iff.mp h).1
    simp only [hjne, if_false]
    rw [splitOn_join 44 _ hfne]
    · rw [List.filterMap_map]
      have : (runs s).filterMap (parseRun? ∘ renderRun) = runs s := by
        have hc : (parseRun? ∘ renderRun) = (some : Nat × Nat → Option (Nat × Nat)) := by
          funext r; exact parseRun_render r
        rw [hc]; simp
      rw [this, expand_runs]
    · intro f hf
      obtain ⟨r, _, rfl⟩ := List.mem_map.mp hf
      intro h44
      rcases renderRun_chars r 44 h44 with h | h
      · simp [isDigit] at h
      · cases h

theorem cpuList_inj (s s' : List Nat) (h : cpuList s = cpuList s') : s = s' := by
  rw [← decode_cpuList s, ← decode_cpuList s', h]

theorem cpuList_noWs (s : List Nat) : NoWs (cpuList s) := by
  intro c hc
  unfold cpuList at hc
  rcases mem_joinWith c [44] _ hc with h | ⟨f, hf, hcf⟩
  · simp only [List.mem_singleton] at h; subst h; decide
  · obtain ⟨r, _, rfl⟩ := List.mem_map.mp hf
    rcases renderRun_chars r c hcf with h | h
    · exact isDigit_not_ws c h
    · subst h; decide

end Psutil.C19
