/- Proofs/C03TablesR.lean — the exhaustive runs (`decide +kernel`) for the source WITH the is_running() repair
   (`lenient := true`), both values of HAS_PROC_SMAPS_ROLLUP. Statements: see Proofs/C03Tables.lean / Props/C03.lean. -/
import PsutilModel.Proofs.C03Tables
namespace Psutil.C03
open Spec

set_option maxRecDepth 100000 in
theorem leaks_r (r : Bool) : ∀ x ∈ twoDenialLeaks, LeakHolds ⟨r, true⟩ x := by
  cases r <;> decide +kernel

set_option maxRecDepth 100000 in
theorem bounded_r (r : Bool) : ∀ nm ∈ twoDenialBounded, BoundedSafe ⟨r, true⟩ w0 nm 12 := by
  cases r <;> decide +kernel

end Psutil.C03
