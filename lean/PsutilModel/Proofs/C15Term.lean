/-
  Proofs/C15Term.lean — `wait_procs` with a timeout comes back: an explicit bound on the fuel
  (number of `while alive:` passes, and iterations of each inner `wait`) after which the model
  cannot end in `outOfFuel`/`hang`.

  Potential of the while loop (a rational, decreasing by ≥ 1 per pass that goes on):
      Φ = |alive| + max(0, deadline − now)·|alive| + [0 < timeout] + [now < deadline]
  a pass either breaks (third term drops), or finds somebody gone (first term drops), or — every
  wait timing out — advances the clock by the first slice: the whole rest of the deadline (fourth
  term drops) or ≥ 1/|alive| (second term drops by ≥ 1).
-/
import PsutilModel.Proofs.C15Procs
namespace Psutil.C15
open Spec

theorem not_running_of_endedBy {env : Env} {t : Rat} (h : endedBy env t) : env.running t = false := by
  unfold Env.running Env.pidExists
  rcases h with h | h
  · simp [h]
  · cases hk : env.kind with
    | neverExisted => rfl
    | nonChild =>
      cases hx : env.exitAt with
      | none => simp [hx] at h
      | some e => simp only [hx] at h; simp [Env.ended, hx, h]
    | child st =>
      cases hx : env.exitAt with
      | none => simp [hx] at h
      | some e => simp only [hx] at h; simp [Env.ended, hx, h]

section
variable {c : Cfg} (hg : c.Good)
include hg

/-- a `proc.wait(t)` with enough fuel comes back; when it raises TimeoutExpired, `t` has passed -/
theorem procWait_comesBack (env : Env) (t : Rat) (fuel : Nat) (now : Rat) (p : PObj) (ht : 0 ≤ t)
    (hf : t * 10000 + 1 ≤ (fuel : Rat)) :
    (procWait c env (some t) fuel now p).out ≠ .outOfFuel ∧
    (procWait c env (some t) fuel now p).out ≠ .hang ∧
    (∀ a b, (procWait c env (some t) fuel now p).out = .timeout a b →
      now + t ≤ (procWait c env (some t) fuel now p).now) := by
  have hneg : negative (some t) = false := by simp [negative]; linarith
  cases hx : p.exitcode with
  | some v =>
    rw [procWait_cached env (some t) fuel now p v hx hneg]
    cases v <;> simp [Outcome.ofValue]
  | none =>
    rw [procWait_fresh env (some t) fuel now p hx hneg]
    simp only
    have h1 : 1 ≤ fuel := by
      have : (1 : Rat) ≤ fuel := by linarith
      exact_mod_cast this
    refine ⟨waitPid_terminates hg env p.pid (some t) fuel now p.nWait t rfl h1 ?_,
      waitPid_noHang hg env p.pid (some t) fuel now p.nWait t rfl, fun a b h => ?_⟩
    · simp only [Spec.i0]; linarith
    · obtain ⟨e1, _, e3, _⟩ := waitPid_timeoutSound hg env p.pid (some t) fuel now p.nWait a b h
      cases e1; exact e3

variable (envOf : Nat → Env) (hasCb : Bool) (fuel : Nat) (input : List Nat)

/-- one `check_gone` with enough fuel: the only exception that can escape is ValueError (a
    non-termination status word); otherwise the process is now in `gone`, or the slice has passed -/
theorem checkGone_progress (w : WP) (pid : Nat) (t : Rat) (ht : 0 ≤ t)
    (hf : t * 10000 + 1 ≤ (fuel : Rat)) (hi : Inv envOf hasCb input w) :
    (∀ o, checkGone c envOf hasCb fuel w pid t = .error o → o = .valueError) ∧
    (∀ w', checkGone c envOf hasCb fuel w pid t = .ok w' → pid ∈ w'.gone ∨ w.now + t ≤ w'.now) := by
  have hc : ∀ v, ({ w.objs pid with pid := pid } : PObj).exitcode = some v →
      RightVal (envOf pid) v ∧ endedBy (envOf pid) w.now := fun v hv => hi.cache pid v hv
  obtain ⟨c1, c2, c3⟩ :=
    procWait_comesBack hg (envOf pid) t fuel w.now { w.objs pid with pid := pid } ht hf
  generalize hr : procWait c (envOf pid) (some t) fuel w.now { w.objs pid with pid := pid } = r at c1 c2 c3
  obtain ⟨_, _, _, f4, _, f6, _, _⟩ :=
    procWait_facts hg (envOf pid) t fuel w.now { w.objs pid with pid := pid } ht hc r hr
  rw [checkGone_eq c envOf hasCb fuel w pid t r hr]
  cases ho : r.out with
  | timeout a b =>
    simp only
    exact ⟨fun o h => (by cases h), fun w' h => (by cases h; exact Or.inr (c3 a b ho))⟩
  | code cc =>
    simp only
    refine ⟨fun o h => (by cases h), fun w' h => ?_⟩
    cases h; left; simp only [markGone_eq]; split <;> simp_all
  | none =>
    simp only
    have hnr : (envOf pid).running r.now = false := not_running_of_endedBy (f4 none (f6 ho)).2
    simp only [hnr, Bool.false_eq_true, if_false]
    refine ⟨fun o h => (by cases h), fun w' h => ?_⟩
    cases h; left; simp only [markGone_eq]; split <;> simp_all
  | valueError => simp only; exact ⟨fun o h => (by cases h; rfl), fun w' h => (by cases h)⟩
  | hang => exact absurd ho c2
  | outOfFuel => exact absurd ho c1

/-- no pass lets `outOfFuel`/`hang` escape, as long as every slice fits the inner fuel -/
theorem passT_errors (deadline maxT B : Rat) (hB : B * 10000 + 1 ≤ (fuel : Rat)) :
    ∀ (l : List Nat) (w : WP) (tmo : Rat) (o : Outcome), Inv envOf hasCb input w → l.Nodup →
      (∀ q ∈ l, q ∉ w.gone ∧ q ∈ input) → deadline - w.now ≤ B →
      passT c envOf hasCb fuel deadline maxT l w tmo = .error o → o = .valueError := by
  intro l
  induction l with
  | nil => intro w tmo o _ _ _ _ h; simp [passT] at h
  | cons pid rest ih =>
    intro w tmo o hi hnd hl hb h
    simp only [passT] at h
    by_cases hbreak : rmin (deadline - w.now) maxT ≤ 0
    · simp only [hbreak, if_true] at h; cases h
    · simp only [hbreak, if_false] at h
      have htpos : 0 ≤ rmin (deadline - w.now) maxT := le_of_lt (lt_of_not_ge hbreak)
      have hfit : rmin (deadline - w.now) maxT * 10000 + 1 ≤ (fuel : Rat) := by
        have := rmin_le_left (deadline - w.now) maxT
        nlinarith
      obtain ⟨p1, _⟩ := checkGone_progress hg envOf hasCb fuel input w pid _ htpos hfit hi
      cases hcg : checkGone c envOf hasCb fuel w pid (rmin (deadline - w.now) maxT) with
      | error o' =>
        rw [hcg] at h; simp only [Except.error.injEq] at h; subst h; exact p1 o' hcg
      | ok w1 =>
        rw [hcg] at h; simp only at h
        obtain ⟨hn, hin⟩ := hl pid (by simp)
        obtain ⟨i1, _, s2, t1, _, _⟩ :=
          checkGone_step hg envOf hasCb fuel input w w1 pid _ htpos hi hn hin hcg
        have hnd' := (List.nodup_cons.1 hnd)
        have hl' : ∀ q ∈ rest, q ∉ w1.gone ∧ q ∈ input := by
          intro q hq
          refine ⟨fun hq1 => ?_, (hl q (by simp [hq])).2⟩
          rcases s2 q hq1 with h' | h'
          · exact (hl q (by simp [hq])).1 h'
          · subst h'; exact hnd'.1 hq
        exact ih w1 _ o i1 hnd'.2 hl' (by linarith) h

theorem passN_errors (t : Rat) (ht : 0 ≤ t) (hf : t * 10000 + 1 ≤ (fuel : Rat)) :
    ∀ (l : List Nat) (w : WP) (o : Outcome), Inv envOf hasCb input w → l.Nodup →
      (∀ q ∈ l, q ∉ w.gone ∧ q ∈ input) →
      passN c envOf hasCb fuel t l w = .error o → o = .valueError := by
  intro l
  induction l with
  | nil => intro w o _ _ _ h; simp [passN] at h
  | cons pid rest ih =>
    intro w o hi hnd hl h
    simp only [passN] at h
    obtain ⟨p1, _⟩ := checkGone_progress hg envOf hasCb fuel input w pid t ht hf hi
    cases hcg : checkGone c envOf hasCb fuel w pid t with
    | error o' =>
        rw [hcg] at h; simp only [Except.error.injEq] at h; subst h; exact p1 o' hcg
    | ok w1 =>
      rw [hcg] at h; simp only at h
      obtain ⟨hn, hin⟩ := hl pid (by simp)
      obtain ⟨i1, _, s2, _, _, _⟩ := checkGone_step hg envOf hasCb fuel input w w1 pid t ht hi hn hin hcg
      have hnd' := (List.nodup_cons.1 hnd)
      have hl' : ∀ q ∈ rest, q ∉ w1.gone ∧ q ∈ input := by
        intro q hq
        refine ⟨fun hq1 => ?_, (hl q (by simp [hq])).2⟩
        rcases s2 q hq1 with h' | h'
        · exact (hl q (by simp [hq])).1 h'
        · subst h'; exact hnd'.1 hq
      exact ih w1 o i1 hnd'.2 hl' h

/-- what a completed pass over a non-empty list achieved -/
theorem passT_progress (deadline maxT B : Rat) (hB : B * 10000 + 1 ≤ (fuel : Rat))
    (pid : Nat) (rest : List Nat) (w w' : WP) (tmo tmo' : Rat) (hi : Inv envOf hasCb input w)
    (hnd : (pid :: rest).Nodup) (hl : ∀ q ∈ pid :: rest, q ∉ w.gone ∧ q ∈ input)
    (hd : w.now < deadline + Spec.cap) (hb : deadline - w.now ≤ B)
    (h : passT c envOf hasCb fuel deadline maxT (pid :: rest) w tmo = .ok (w', tmo')) :
    tmo' ≤ 0 ∨ (∃ q ∈ pid :: rest, q ∈ w'.gone) ∨
    (0 < rmin (deadline - w.now) maxT ∧ w.now + rmin (deadline - w.now) maxT ≤ w'.now) := by
  simp only [passT] at h
  by_cases hbreak : rmin (deadline - w.now) maxT ≤ 0
  · simp only [hbreak, if_true] at h
    simp only [Except.ok.injEq, Prod.mk.injEq] at h
    left; rw [← h.2]; exact hbreak
  · simp only [hbreak, if_false] at h
    have htpos : 0 < rmin (deadline - w.now) maxT := lt_of_not_ge hbreak
    have hfit : rmin (deadline - w.now) maxT * 10000 + 1 ≤ (fuel : Rat) := by
      have := rmin_le_left (deadline - w.now) maxT
      nlinarith
    obtain ⟨_, p2⟩ := checkGone_progress hg envOf hasCb fuel input w pid _ (le_of_lt htpos) hfit hi
    cases hcg : checkGone c envOf hasCb fuel w pid (rmin (deadline - w.now) maxT) with
    | error o' => rw [hcg] at h; cases h
    | ok w1 =>
      rw [hcg] at h; simp only at h
      obtain ⟨hn, hin⟩ := hl pid (by simp)
      obtain ⟨i1, _, s2, _, t2, _⟩ :=
        checkGone_step hg envOf hasCb fuel input w w1 pid _ (le_of_lt htpos) hi hn hin hcg
      have hd1 : w1.now < deadline + Spec.cap := by
        have := rmin_le_left (deadline - w.now) maxT
        linarith
      have hnd' := (List.nodup_cons.1 hnd)
      have hl' : ∀ q ∈ rest, q ∉ w1.gone ∧ q ∈ input := by
        intro q hq
        refine ⟨fun hq1 => ?_, (hl q (by simp [hq])).2⟩
        rcases s2 q hq1 with h' | h'
        · exact (hl q (by simp [hq])).1 h'
        · subst h'; exact hnd'.1 hq
      obtain ⟨_, u1, _, u3, _⟩ :=
        passT_inv hg envOf hasCb fuel input deadline maxT rest w1 w' _ tmo' i1 hnd'.2 hl' hd1 h
      rcases p2 w1 hcg with hgone | htime
      · right; left; exact ⟨pid, by simp, u1 pid hgone⟩
      · right; right; exact ⟨htpos, le_trans htime u3⟩

end

/-! ### the potential -/

/-- Φ (see the header) -/
def potential (deadline : Rat) (w : WP) (alive : List Nat) (tmo : Rat) : Rat :=
  (alive.length : Rat) + rmax 0 (deadline - w.now) * (alive.length : Rat) +
  (if 0 < tmo then 1 else 0) + (if w.now < deadline then 1 else 0)

theorem potential_nonneg (deadline : Rat) (w : WP) (alive : List Nat) (tmo : Rat) :
    0 ≤ potential deadline w alive tmo := by
  unfold potential
  have h1 : (0 : Rat) ≤ alive.length := Nat.cast_nonneg _
  have h2 : (0 : Rat) ≤ rmax 0 (deadline - w.now) := le_rmax_left _ _
  have h3 : (0 : Rat) ≤ (if 0 < tmo then 1 else 0) := by split <;> norm_num
  have h4 : (0 : Rat) ≤ (if w.now < deadline then 1 else 0) := by split <;> norm_num
  have := mul_nonneg h2 h1
  linarith

theorem length_stillAlive_le (alive gone : List Nat) : (stillAlive alive gone).length ≤ alive.length := by
  unfold stillAlive; exact List.length_filter_le _ _

theorem length_stillAlive_lt {alive gone : List Nat} {q : Nat} (h1 : q ∈ alive) (h2 : q ∈ gone) :
    (stillAlive alive gone).length < alive.length := by
  unfold stillAlive
  apply List.length_filter_lt_length_iff_exists.2
  exact ⟨q, h1, by simp [h2]⟩

section
variable {c : Cfg} (hg : c.Good) (envOf : Nat → Env) (hasCb : Bool) (fuel : Nat) (input : List Nat)
variable (order : Nat → List Nat → List Nat) (hperm : ∀ k l, (order k l).Perm l)
include hg hperm

/-- the while loop with a timeout cannot run out of passes once `k` exceeds the potential -/
theorem whileT_terminates (hs : 1 ≤ c.sliceN) (deadline B : Rat) (hB : B * 10000 + 1 ≤ (fuel : Rat)) :
    ∀ (k : Nat) (alive : List Nat) (w : WP) (tmo : Rat) (o : Outcome),
      LInv envOf hasCb input w alive → w.now < deadline + Spec.cap → deadline - w.now ≤ B →
      potential deadline w alive tmo < (k : Rat) →
      whileT c envOf hasCb fuel order deadline k alive w tmo = .error o → o = .valueError := by
  intro k
  induction k with
  | zero =>
    intro alive w tmo o _ _ _ hp _
    have := potential_nonneg deadline w alive tmo
    simp at hp; linarith
  | succ k ih =>
    intro alive w tmo o hl hd hb hp h
    simp only [whileT] at h
    by_cases he : alive.isEmpty = true
    · simp only [he, if_true] at h; cases h
    · simp only [he, Bool.false_eq_true, if_false] at h
      by_cases ht : tmo ≤ 0
      · simp only [ht, if_true] at h; cases h
      · simp only [ht, if_false] at h
        have htpos : 0 < tmo := lt_of_not_ge ht
        obtain ⟨hnd, hmem⟩ := order_ok envOf hasCb input hl (hperm w.calls.length alive)
        cases hp' : passT c envOf hasCb fuel deadline (maxTimeout c alive) (order w.calls.length alive) w tmo with
        | error o' =>
          rw [hp'] at h; simp only [Except.error.injEq] at h; subst h
          exact passT_errors hg envOf hasCb fuel input deadline _ B hB _ w tmo o' hl.1 hnd hmem hb hp'
        | ok r =>
          obtain ⟨w1, tmo1⟩ := r
          rw [hp'] at h; simp only at h
          obtain ⟨i1, s1, _, t1, d1⟩ :=
            passT_inv hg envOf hasCb fuel input deadline _ _ w w1 tmo tmo1 hl.1 hnd hmem hd hp'
          have hl1 := linv_next envOf hasCb input hl i1 s1
          -- the order list is non-empty because alive is
          have hne : alive ≠ [] := by intro e; rw [e] at he; simp at he
          have hlen : (order w.calls.length alive).length = alive.length :=
            (hperm w.calls.length alive).length_eq
          obtain ⟨pid, rest, hcons⟩ : ∃ pid rest, order w.calls.length alive = pid :: rest := by
            cases ho : order w.calls.length alive with
            | nil => rw [ho] at hlen; simp at hlen; exact absurd (List.eq_nil_of_length_eq_zero hlen.symm) hne
            | cons a b => exact ⟨a, b, rfl⟩
          rw [hcons] at hp' hnd hmem
          have prog := passT_progress hg envOf hasCb fuel input deadline _ B hB pid rest w w1 tmo tmo1
            hl.1 hnd hmem hd hb hp'
          -- potential drops by at least one
          have hn1 : (1 : Rat) ≤ alive.length := by
            have : 1 ≤ alive.length := by
              cases alive with
              | nil => exact absurd rfl hne
              | cons a b => simp
            exact_mod_cast this
          have hlen' : ((stillAlive alive w1.gone).length : Rat) ≤ alive.length := by
            exact_mod_cast length_stillAlive_le alive w1.gone
          have hmono : rmax 0 (deadline - w1.now) ≤ rmax 0 (deadline - w.now) := by
            unfold rmax; split <;> split <;> linarith
          have hr0 : 0 ≤ rmax 0 (deadline - w1.now) := le_rmax_left _ _
          have hr0' : 0 ≤ rmax 0 (deadline - w.now) := le_rmax_left _ _
          have hl0 : (0 : Rat) ≤ (stillAlive alive w1.gone).length := Nat.cast_nonneg _
          have hprod : rmax 0 (deadline - w1.now) * ((stillAlive alive w1.gone).length : Rat) ≤
              rmax 0 (deadline - w.now) * (alive.length : Rat) :=
            mul_le_mul hmono hlen' hl0 hr0'
          have hind2 : (if w1.now < deadline then (1 : Rat) else 0) ≤ (if w.now < deadline then 1 else 0) := by
            split <;> split <;> first | linarith | norm_num
          have hind1 : (if 0 < tmo1 then (1 : Rat) else 0) ≤ 1 := by split <;> norm_num
          have hdrop : potential deadline w1 (stillAlive alive w1.gone) tmo1 ≤
              potential deadline w alive tmo - 1 := by
            unfold potential
            simp only [htpos, if_true]
            rcases prog with hbrk | ⟨q, hq, hqg⟩ | ⟨hsl, hadv⟩
            · -- the pass broke: the `0 < timeout` indicator drops
              have : ¬ (0 < tmo1) := not_lt.2 hbrk
              simp only [this, if_false]
              linarith
            · -- somebody is newly gone: |alive| drops
              have hq' : q ∈ alive := (hperm w.calls.length alive).mem_iff.1 (by rw [hcons]; exact hq)
              have : ((stillAlive alive w1.gone).length : Rat) + 1 ≤ alive.length := by
                exact_mod_cast length_stillAlive_lt hq' hqg
              linarith
            · -- every wait timed out: the clock advanced by the first slice
              by_cases hdl : w1.now < deadline
              · -- still before the deadline: the slice was 1/|alive| (or more), second term drops by ≥ 1
                have hmax : (1 : Rat) / alive.length ≤ maxTimeout c alive := by
                  unfold maxTimeout
                  have : (1 : Rat) ≤ c.sliceN := by exact_mod_cast hs
                  apply div_le_div_of_nonneg_right this
                  exact Nat.cast_nonneg _
                have hslice : (1 : Rat) / alive.length ≤ rmin (deadline - w.now) (maxTimeout c alive) ∨
                    deadline - w.now ≤ rmin (deadline - w.now) (maxTimeout c alive) := by
                  unfold rmin; split
                  · right; exact le_refl _
                  · left; exact hmax
                rcases hslice with hs1 | hs2
                · have hadv' : w.now + 1 / (alive.length : Rat) ≤ w1.now := by linarith
                  have e1 : rmax 0 (deadline - w1.now) = deadline - w1.now := by
                    unfold rmax; split
                    · rfl
                    · linarith
                  have e2 : rmax 0 (deadline - w.now) = deadline - w.now := by
                    unfold rmax; split
                    · rfl
                    · linarith
                  have hpos : (0 : Rat) < alive.length := by linarith
                  have hkey : (deadline - w1.now) * (alive.length : Rat) ≤
                      (deadline - w.now) * (alive.length : Rat) - 1 := by
                    have : (deadline - w1.now) ≤ (deadline - w.now) - 1 / (alive.length : Rat) := by linarith
                    calc (deadline - w1.now) * (alive.length : Rat)
                        ≤ ((deadline - w.now) - 1 / (alive.length : Rat)) * (alive.length : Rat) :=
                          mul_le_mul_of_nonneg_right this (le_of_lt hpos)
                      _ = (deadline - w.now) * (alive.length : Rat) - 1 := by
                          rw [sub_mul, one_div, inv_mul_cancel₀ (ne_of_gt hpos)]
                  have hprod' : rmax 0 (deadline - w1.now) * ((stillAlive alive w1.gone).length : Rat) ≤
                      (deadline - w.now) * (alive.length : Rat) - 1 := by
                    rw [e1]
                    have h0 : 0 ≤ deadline - w1.now := by linarith
                    calc (deadline - w1.now) * ((stillAlive alive w1.gone).length : Rat)
                        ≤ (deadline - w1.now) * (alive.length : Rat) := mul_le_mul_of_nonneg_left hlen' h0
                      _ ≤ _ := hkey
                  rw [e2]
                  linarith
                · -- the slice was the whole rest: the deadline has been reached — contradiction
                  linarith
              · -- the deadline has passed: the `now < deadline` indicator drops
                have hwd : w.now < deadline := by
                  have := rmin_le_left (deadline - w.now) (maxTimeout c alive)
                  linarith
                simp only [hdl, hwd, if_false, if_true]
                linarith
          have hb1 : deadline - w1.now ≤ B := by linarith
          have hp1 : potential deadline w1 (stillAlive alive w1.gone) tmo1 < (k : Rat) := by
            have : ((k + 1 : Nat) : Rat) = (k : Rat) + 1 := by push_cast; ring
            rw [this] at hp
            linarith
          exact ih _ w1 tmo1 o hl1 d1 hb1 hp1 h

/-- `wait_procs(procs, timeout=τ)` comes back: with `fuel > N + τ·N + 2` passes (N distinct
    processes) and `fuel ≥ τ/0.0001 + 1` iterations per wait, the run cannot end in outOfFuel or hang;
    the only exception that can escape is ValueError (a non-termination status word) -/
theorem waitProcs_terminates (hs : 1 ≤ c.sliceN) (procs : List Nat) (τ : Rat) (w : WP) (hτ : 0 ≤ τ)
    (hf : Fresh envOf w)
    (h1 : ((dedup procs).length : Rat) + τ * ((dedup procs).length : Rat) + 2 < (fuel : Rat))
    (h2 : τ * 10000 + 1 ≤ (fuel : Rat)) (o : Outcome)
    (h : waitProcs c envOf procs (some τ) hasCb order fuel w = .error o) : o = .valueError := by
  obtain ⟨hg0, hcb0, hs0, hc0⟩ := hf
  have hl0 : LInv envOf hasCb (dedup procs) w (dedup procs) := by
    refine ⟨⟨by rw [hg0]; simp, by rw [hcb0, hg0]; simp, by rw [hg0]; simp, by rw [hg0]; simp, hc0,
        by rw [hs0]; simp, by rw [hs0, hcb0]; simp⟩,
      nodup_dedup procs, fun q => by rw [hg0]; simp⟩
  have hneg : negative (some τ) = false := by simp [negative]; linarith
  unfold waitProcs at h
  simp only [hneg, Bool.false_eq_true, if_false] at h
  have hd0 : w.now < w.now + τ + Spec.cap := by linarith [cap_pos]
  cases hw : whileT c envOf hasCb fuel order (w.now + τ) fuel (dedup procs) w τ with
  | error o' =>
    rw [hw] at h; simp only [Except.error.injEq] at h; subst h
    refine whileT_terminates hg envOf hasCb fuel (dedup procs) order hperm hs (w.now + τ) τ h2
      fuel _ w τ o' hl0 hd0 (by linarith) ?_ hw
    unfold potential
    have e : rmax 0 (w.now + τ - w.now) = τ := by
      unfold rmax; split <;> linarith
    rw [e]
    have i1 : (if 0 < τ then (1 : Rat) else 0) ≤ 1 := by split <;> norm_num
    have i2 : (if w.now < w.now + τ then (1 : Rat) else 0) ≤ 1 := by split <;> norm_num
    linarith
  | ok r =>
    obtain ⟨w1, alive1⟩ := r
    rw [hw] at h; simp only at h
    obtain ⟨l1, _, _⟩ := whileT_inv hg envOf hasCb fuel (dedup procs) order hperm (w.now + τ)
      fuel _ w τ w1 alive1 hl0 hd0 hw
    unfold lastAttempt at h
    by_cases he : alive1.isEmpty = true
    · simp only [he, if_true] at h; cases h
    · simp only [he, Bool.false_eq_true, if_false] at h
      obtain ⟨hnd, hmem⟩ := order_ok envOf hasCb (dedup procs) l1 (hperm w1.calls.length alive1)
      cases hp : passN c envOf hasCb fuel 0 (order w1.calls.length alive1) w1 with
      | error o' =>
        rw [hp] at h; simp only [Except.error.injEq] at h; subst h
        have h3 : (0 : Rat) * 10000 + 1 ≤ (fuel : Rat) := by nlinarith
        exact passN_errors hg envOf hasCb fuel (dedup procs) 0 (le_refl _) h3 _ w1 o' l1.1 hnd hmem hp
      | ok w2 => rw [hp] at h; cases h

end

end Psutil.C15
