/-
  Proofs/C16Conc2.lean — invariants of the two-level small-step model (Model/C16Conc2.lean),
  preserved by EVERY enabled action of every thread and by every world change. Core Lean only.

  DInv (data): every entry of every dict (front-end or platform) is a content its source really had,
  read not earlier than the lock acquisition `ep d` of the block that created the dict; the two
  attributes, when present, belong to the CURRENT block (`ep d = bstart`). The second fact needs the
  lock protocol (LInv): only the lock owner touches the attributes, and when the lock is free both
  are absent — so a value found in the platform dict by a thread that already holds a front-end dict
  `d` is never older than `d`'s block.
-/
import PsutilModel.Model.C16Conc2
namespace Psutil.C16.Conc2

/-- `e` is a content source `g` really had, at instant `e.tr ≤ now` -/
def EVs (s : St) (g : Nat) (e : Entry) : Prop := e.tr ≤ s.now ∧ s.hist e.tr g = e.val

/-- dict `d` existed at instant `t0` of the call started at `cs` -/
def DOK (s : St) (cs d t0 : Nat) : Prop := cs ≤ t0 ∧ t0 ≤ s.now ∧ d < s.nextId ∧ s.born d ≤ t0

def FDOK (c : CCfg2) (s : St) (g cs : Nat) (fd : Option (Nat × Nat × Nat)) : Prop :=
  ∀ f d t0, fd = some (f, d, t0) → c.fsrc f = g ∧ DOK s cs d t0

def HowInv (s : St) (cs : Nat) (e : Entry) : How → Prop
  | .computed => cs ≤ e.tr
  | .hitP d t0 => DOK s cs d t0 ∧ s.ep d ≤ e.tr
  | .hitF d t0 => DOK s cs d t0 ∧ s.ep d ≤ e.tr

def TInv (c : CCfg2) (s : St) : PC → Prop
  | .idle => True
  | .f0 f g cs => c.fsrc f = g ∧ cs ≤ s.now
  | .f1 f g cs d t0 => c.fsrc f = g ∧ DOK s cs d t0
  | .p0 g cs fd => cs ≤ s.now ∧ FDOK c s g cs fd
  | .p1 g cs fd pd t0 => FDOK c s g cs fd ∧ DOK s cs pd t0 ∧
      (∀ f d t, fd = some (f, d, t) → s.ep d ≤ s.ep pd)
  | .p2 g cs fd od => cs ≤ s.now ∧ FDOK c s g cs fd ∧ (∀ pd t0, od = some (pd, t0) → DOK s cs pd t0)
  | .p4 g cs fd pd e => FDOK c s g cs fd ∧ EVs s g e ∧ cs ≤ e.tr ∧ pd < s.nextId ∧ s.ep pd ≤ e.tr ∧
      (∀ f d t, fd = some (f, d, t) → s.ep d ≤ e.tr)
  | .f4 f g cs d e how => c.fsrc f = g ∧ EVs s g e ∧ d < s.nextId ∧ s.ep d ≤ e.tr ∧ HowInv s cs e how
  | .ret g cs e how => EVs s g e ∧ HowInv s cs e how
  | .retErr _ _ => True

structure DInv (c : CCfg2) (s : St) : Prop where
  bstartLe : s.bstart ≤ s.now
  dicts : ∀ d, d < s.nextId → s.born d ≤ s.now ∧ s.ep d ≤ s.born d ∧ s.ep d ≤ s.bstart
  attrF : ∀ d, s.attrF = some d → d < s.nextId ∧ s.ep d = s.bstart
  attrP : ∀ d, s.attrP = some d → d < s.nextId ∧ s.ep d = s.bstart
  ents : ∀ d key e, s.ents d key = some e → d < s.nextId ∧ EVs s (c.srcOf key) e ∧ s.ep d ≤ e.tr
  thr : ∀ i, TInv c s (s.thr i).pc

/-- `s'` extends `s`: time does not go back, the past of the history is kept, more dicts, old
    dicts keep their ghost instants -/
structure Ext (s s' : St) : Prop where
  now : s.now ≤ s'.now
  hist : ∀ t, t ≤ s.now → s'.hist t = s.hist t
  next : s.nextId ≤ s'.nextId
  born : ∀ d, d < s.nextId → s'.born d = s.born d
  ep : ∀ d, d < s.nextId → s'.ep d = s.ep d

theorem EVs_ext {s s' : St} (h : Ext s s') {g : Nat} {e : Entry} (he : EVs s g e) : EVs s' g e := by
  obtain ⟨h1, h2⟩ := he
  exact ⟨Nat.le_trans h1 h.now, by rw [h.hist _ h1]; exact h2⟩

theorem DOK_ext {s s' : St} (h : Ext s s') {cs d t0 : Nat} (hd : DOK s cs d t0) : DOK s' cs d t0 := by
  obtain ⟨a, b, c', d'⟩ := hd
  exact ⟨a, Nat.le_trans b h.now, Nat.lt_of_lt_of_le c' h.next, by rw [h.born _ c']; exact d'⟩

theorem FDOK_ext {c : CCfg2} {s s' : St} (h : Ext s s') {g cs : Nat} {fd : Option (Nat × Nat × Nat)}
    (hf : FDOK c s g cs fd) : FDOK c s' g cs fd :=
  fun f d t0 e => ⟨(hf f d t0 e).1, DOK_ext h (hf f d t0 e).2⟩

theorem HowInv_ext {s s' : St} (h : Ext s s') {cs : Nat} {e : Entry} {how : How} (hh : HowInv s cs e how) :
    HowInv s' cs e how := by
  cases how with
  | computed => exact hh
  | hitP d t0 => exact ⟨DOK_ext h hh.1, by rw [h.ep _ hh.1.2.2.1]; exact hh.2⟩
  | hitF d t0 => exact ⟨DOK_ext h hh.1, by rw [h.ep _ hh.1.2.2.1]; exact hh.2⟩

theorem TInv_ext {c : CCfg2} {s s' : St} (h : Ext s s') {pc : PC} (hp : TInv c s pc) : TInv c s' pc := by
  cases pc with
  | idle => trivial
  | f0 f g cs => exact ⟨hp.1, Nat.le_trans hp.2 h.now⟩
  | f1 f g cs d t0 => exact ⟨hp.1, DOK_ext h hp.2⟩
  | p0 g cs fd => exact ⟨Nat.le_trans hp.1 h.now, FDOK_ext h hp.2⟩
  | p1 g cs fd pd t0 =>
    obtain ⟨a, b, c'⟩ := hp
    refine ⟨FDOK_ext h a, DOK_ext h b, fun f d t e => ?_⟩
    rw [h.ep _ (a f d t e).2.2.2.1, h.ep _ b.2.2.1]
    exact c' f d t e
  | p2 g cs fd od =>
    obtain ⟨a, b, c'⟩ := hp
    exact ⟨Nat.le_trans a h.now, FDOK_ext h b, fun pd t0 e => DOK_ext h (c' pd t0 e)⟩
  | p4 g cs fd pd e =>
    obtain ⟨a, b, c', d', e', f'⟩ := hp
    refine ⟨FDOK_ext h a, EVs_ext h b, c', Nat.lt_of_lt_of_le d' h.next, ?_, fun f d t hfd => ?_⟩
    · rw [h.ep _ d']; exact e'
    · rw [h.ep _ (a f d t hfd).2.2.2.1]; exact f' f d t hfd
  | f4 f g cs d e how =>
    obtain ⟨a, b, c', d', e'⟩ := hp
    exact ⟨a, EVs_ext h b, Nat.lt_of_lt_of_le c' h.next, by rw [h.ep _ c']; exact d', HowInv_ext h e'⟩
  | ret g cs e how => exact ⟨EVs_ext h hp.1, HowInv_ext h hp.2⟩
  | retErr g cs => trivial

theorem Ext.refl (s : St) : Ext s s := ⟨Nat.le_refl _, fun _ _ => rfl, Nat.le_refl _, fun _ _ => rfl, fun _ _ => rfl⟩

/-- assembling the data invariant after a step that replaces thread `tid` -/
theorem dinv_upd {c : CCfg2} {s s' : St} (tid : Nat) (t' : Thread) (hI : DInv c s)
    (hthr : s'.thr = fun i => if i = tid then t' else s.thr i)
    (hext : Ext s s')
    (hb : s'.bstart ≤ s'.now)
    (hd : ∀ d, d < s'.nextId → s'.born d ≤ s'.now ∧ s'.ep d ≤ s'.born d ∧ s'.ep d ≤ s'.bstart)
    (hF : ∀ d, s'.attrF = some d → d < s'.nextId ∧ s'.ep d = s'.bstart)
    (hP : ∀ d, s'.attrP = some d → d < s'.nextId ∧ s'.ep d = s'.bstart)
    (he : ∀ d key e, s'.ents d key = some e → d < s'.nextId ∧ EVs s' (c.srcOf key) e ∧ s'.ep d ≤ e.tr)
    (hnew : TInv c s' t'.pc) : DInv c s' := by
  refine ⟨hb, hd, hF, hP, he, fun i => ?_⟩
  rw [hthr]
  by_cases hi : i = tid
  · simp only [hi, if_true]; exact hnew
  · simp only [hi, if_false]; exact TInv_ext hext (hI.thr i)

theorem dinv_setPc {c : CCfg2} {s : St} (tid : Nat) (pc' : PC) (hI : DInv c s) (hnew : TInv c s pc') :
    DInv c (setPc s tid pc') :=
  dinv_upd tid { s.thr tid with pc := pc' } hI rfl
    ⟨Nat.le_refl _, fun _ _ => rfl, Nat.le_refl _, fun _ _ => rfl, fun _ _ => rfl⟩ hI.bstartLe hI.dicts hI.attrF hI.attrP hI.ents hnew

theorem dinv_setPh {c : CCfg2} {s : St} (tid : Nat) (ph' : Phase) (hI : DInv c s) :
    DInv c (setPh s tid ph') :=
  dinv_upd tid { s.thr tid with ph := ph' } hI rfl
    ⟨Nat.le_refl _, fun _ _ => rfl, Nat.le_refl _, fun _ _ => rfl, fun _ _ => rfl⟩ hI.bstartLe hI.dicts hI.attrF hI.attrP hI.ents
    (hI.thr tid)

theorem dinv_popTo {c : CCfg2} {s : St} (tid : Nat) (ph' : Phase) (rest : List Bool) (hI : DInv c s) :
    DInv c (popTo s tid ph' rest) :=
  dinv_upd tid { s.thr tid with ph := ph', stack := rest } hI rfl
    ⟨Nat.le_refl _, fun _ _ => rfl, Nat.le_refl _, fun _ _ => rfl, fun _ _ => rfl⟩ hI.bstartLe hI.dicts hI.attrF hI.attrP hI.ents
    (hI.thr tid)

theorem dinv_pushTest {c : CCfg2} {s : St} (tid : Nat) (b : Bool) (hI : DInv c s) : DInv c (pushTest s tid b) :=
  dinv_upd tid { s.thr tid with ph := .test, stack := b :: (s.thr tid).stack } hI rfl
    ⟨Nat.le_refl _, fun _ _ => rfl, Nat.le_refl _, fun _ _ => rfl, fun _ _ => rfl⟩ hI.bstartLe hI.dicts hI.attrF hI.attrP hI.ents
    (hI.thr tid)

/-- `cache[key] = e` into an existing dict -/
theorem dinv_store {c : CCfg2} {s : St} (d : Nat) (key : Key) (e : Entry) (hI : DInv c s)
    (hd : d < s.nextId) (hev : EVs s (c.srcOf key) e) (hep : s.ep d ≤ e.tr) : DInv c (store s d key e) := by
  refine ⟨hI.bstartLe, hI.dicts, hI.attrF, hI.attrP, ?_, hI.thr⟩
  intro d' key' e' he
  have he' : (if d' = d then (fun k => if k = key then some e else s.ents d k) else s.ents d') key' = some e' := he
  by_cases h1 : d' = d
  · subst h1
    simp only [if_true] at he'
    by_cases h2 : key' = key
    · subst h2
      simp only [if_true, Option.some.injEq] at he'
      subst he'
      exact ⟨hd, hev, hep⟩
    · simp only [h2, if_false] at he'
      exact hI.ents d' key' e' he'
  · simp only [h1, if_false] at he'
    exact hI.ents d' key' e' he'

theorem dinv_storeM {c : CCfg2} {s : St} (d : Nat) (key : Key) (e : Entry) (hI : DInv c s)
    (hd : d < s.nextId) (hev : EVs s (c.srcOf key) e) (hep : s.ep d ≤ e.tr) : DInv c (storeM c s d key e) := by
  unfold storeM
  split
  · exact hI
  · exact dinv_store d key e hI hd hev hep

theorem ext_storeM (c : CCfg2) (s : St) (d : Nat) (key : Key) (e : Entry) : Ext s (storeM c s d key e) := by
  unfold storeM
  split <;> exact ⟨Nat.le_refl _, fun _ _ => rfl, Nat.le_refl _, fun _ _ => rfl, fun _ _ => rfl⟩

theorem ext_act (s : St) (tid : Nat) (l : Lvl) : Ext s (actSt s tid l) := by
  have hb : ∀ d, d < s.nextId → (if d = s.nextId then s.now else s.born d) = s.born d := by
    intro d hd; have : d ≠ s.nextId := Nat.ne_of_lt hd; simp [this]
  have he : ∀ d, d < s.nextId → (if d = s.nextId then s.bstart else s.ep d) = s.ep d := by
    intro d hd; have : d ≠ s.nextId := Nat.ne_of_lt hd; simp [this]
  cases l <;> exact ⟨Nat.le_refl _, fun _ _ => rfl, Nat.le_succ _, hb, he⟩

/-- `obj._cache = {}`: a fresh, empty dict of the current block becomes the attribute -/
theorem dinv_act {c : CCfg2} {s : St} (tid : Nat) (l : Lvl) (hI : DInv c s) : DInv c (actSt s tid l) := by
  have hext := ext_act s tid l
  have hnow : (actSt s tid l).now = s.now := by cases l <;> rfl
  have hbs : (actSt s tid l).bstart = s.bstart := by cases l <;> rfl
  have hnx : (actSt s tid l).nextId = s.nextId + 1 := by cases l <;> rfl
  have hborn : (actSt s tid l).born = fun d => if d = s.nextId then s.now else s.born d := by cases l <;> rfl
  have hep : (actSt s tid l).ep = fun d => if d = s.nextId then s.bstart else s.ep d := by cases l <;> rfl
  have hents : (actSt s tid l).ents = fun d => if d = s.nextId then (fun _ => none) else s.ents d := by
    cases l <;> rfl
  have hthr : (actSt s tid l).thr = s.thr := by cases l <;> rfl
  have hat : ∀ d, (d = s.nextId ∨ (d < s.nextId ∧ s.ep d = s.bstart)) →
      d < (actSt s tid l).nextId ∧ (actSt s tid l).ep d = (actSt s tid l).bstart := by
    intro d hd
    rw [hnx, hep, hbs]
    cases hd with
    | inl h => subst h; simp
    | inr h =>
      have : d ≠ s.nextId := Nat.ne_of_lt h.1
      simp only [this, if_false]; exact ⟨by omega, h.2⟩
  refine ⟨by rw [hnow, hbs]; exact hI.bstartLe, ?_, ?_, ?_, ?_, fun i => by rw [hthr]; exact TInv_ext hext (hI.thr i)⟩
  · intro d hd
    rw [hnx] at hd
    rw [hborn, hep, hnow, hbs]
    by_cases h : d = s.nextId
    · simp only [h, if_true]; exact ⟨Nat.le_refl _, hI.bstartLe, Nat.le_refl _⟩
    · simp only [h, if_false]; exact hI.dicts d (by omega)
  · intro d hd
    apply hat
    cases l with
    | front => left; have : some s.nextId = some d := hd; simp only [Option.some.injEq] at this; omega
    | proc => right; exact hI.attrF d hd
  · intro d hd
    apply hat
    cases l with
    | front => right; exact hI.attrP d hd
    | proc => left; have : some s.nextId = some d := hd; simp only [Option.some.injEq] at this; omega
  · intro d key e he
    rw [hents] at he
    by_cases h : d = s.nextId
    · simp [h] at he
    · simp only [h, if_false] at he
      obtain ⟨a, b, c'⟩ := hI.ents d key e he
      refine ⟨by rw [hnx]; omega, EVs_ext hext b, ?_⟩
      rw [hep]; simp only [h, if_false]; exact c'

theorem dinv_del {c : CCfg2} {s : St} (l : Lvl) (hI : DInv c s) : DInv c (delAttr s l) := by
  cases l with
  | front => exact ⟨hI.bstartLe, hI.dicts, fun _ h => by simp [delAttr] at h, hI.attrP, hI.ents, hI.thr⟩
  | proc => exact ⟨hI.bstartLe, hI.dicts, hI.attrF, fun _ h => by simp [delAttr] at h, hI.ents, hI.thr⟩

theorem dinv_lock {c : CCfg2} {s : St} (l : Option Nat) (hI : DInv c s) : DInv c { s with lock := l } :=
  ⟨hI.bstartLe, hI.dicts, hI.attrF, hI.attrP, hI.ents, hI.thr⟩

/-- the platform level delivered `e` -/
theorem dinv_afterProc {c : CCfg2} {s : St} (tid g cs : Nat) (fd : Option (Nat × Nat × Nat)) (e : Entry)
    (how : How) (hI : DInv c s) (hfd : FDOK c s g cs fd) (hev : EVs s g e) (hh : HowInv s cs e how)
    (hep : ∀ f d t, fd = some (f, d, t) → s.ep d ≤ e.tr) : DInv c (afterProc s tid g cs fd e how) := by
  unfold afterProc
  split
  · rename_i f d t
    obtain ⟨a, b⟩ := hfd f d t rfl
    exact dinv_setPc tid _ hI ⟨a, hev, b.2.2.1, hep f d t rfl, hh⟩
  · exact dinv_setPc tid _ hI ⟨hev, hh⟩

/-- every bytecode of a public call preserves the data invariant -/
theorem cstep_dinv {c : CCfg2} {s s1 : St} (tid : Nat) (hI : DInv c s)
    (hN : ∀ g, s.hist s.now g = s.ver g) (h : cstep c s tid (s.thr tid).pc = some s1) : DInv c s1 := by
  have hT := hI.thr tid
  generalize (s.thr tid).pc = pc at h hT
  cases pc with
  | idle => simp [cstep] at h
  | f0 f g cs =>
    simp only [cstep] at h
    obtain ⟨a, b⟩ := hT
    split at h
    · rename_i d hd
      split at h
      · simp only [Option.some.injEq] at h; subst h
        exact dinv_setPc tid _ hI ⟨b, fun _ _ _ hh => by cases hh⟩
      · simp only [Option.some.injEq] at h; subst h
        obtain ⟨x, _⟩ := hI.attrF d hd
        exact dinv_setPc tid _ hI ⟨a, b, Nat.le_refl _, x, (hI.dicts d x).1⟩
    · simp only [Option.some.injEq] at h; subst h
      exact dinv_setPc tid _ hI ⟨b, fun _ _ _ hh => by cases hh⟩
  | f1 f g cs d t0 =>
    simp only [cstep] at h
    obtain ⟨a, b⟩ := hT
    split at h
    · rename_i e he
      simp only [Option.some.injEq] at h; subst h
      obtain ⟨_, y, z⟩ := hI.ents d _ e he
      have y' : EVs s g e := by rw [← a]; exact y
      exact dinv_setPc tid _ hI ⟨y', b, z⟩
    · simp only [Option.some.injEq] at h; subst h
      refine dinv_setPc tid _ hI ⟨Nat.le_trans b.1 b.2.1, fun f' d' t' hh => ?_⟩
      simp only [Option.some.injEq, Prod.mk.injEq] at hh
      obtain ⟨rfl, rfl, rfl⟩ := hh
      exact ⟨a, b⟩
  | p0 g cs fd =>
    simp only [cstep] at h
    obtain ⟨a, b⟩ := hT
    split at h
    · split at h
      · rename_i pd hpd
        split at h
        · simp only [Option.some.injEq] at h; subst h
          exact dinv_setPc tid _ hI ⟨a, b, fun _ _ hh => by cases hh⟩
        · simp only [Option.some.injEq] at h; subst h
          obtain ⟨x, y⟩ := hI.attrP pd hpd
          refine dinv_setPc tid _ hI ⟨b, ⟨a, Nat.le_refl _, x, (hI.dicts pd x).1⟩, fun f d t hh => ?_⟩
          rw [y]; exact (hI.dicts d (b f d t hh).2.2.2.1).2.2
      · simp only [Option.some.injEq] at h; subst h
        exact dinv_setPc tid _ hI ⟨a, b, fun _ _ hh => by cases hh⟩
    · simp only [Option.some.injEq] at h; subst h
      exact dinv_setPc tid _ hI ⟨a, b, fun _ _ hh => by cases hh⟩
  | p1 g cs fd pd t0 =>
    simp only [cstep] at h
    obtain ⟨a, b, c'⟩ := hT
    split at h
    · rename_i e he
      simp only [Option.some.injEq] at h; subst h
      obtain ⟨_, y, z⟩ := hI.ents pd _ e he
      exact dinv_afterProc tid g cs fd e _ hI a y ⟨b, z⟩ (fun f d t hh => Nat.le_trans (c' f d t hh) z)
    · simp only [Option.some.injEq] at h; subst h
      refine dinv_setPc tid _ hI ⟨Nat.le_trans b.1 b.2.1, a, fun pd' t' hh => ?_⟩
      simp only [Option.some.injEq, Prod.mk.injEq] at hh
      obtain ⟨rfl, rfl⟩ := hh
      exact b
  | p2 g cs fd od =>
    simp only [cstep] at h
    obtain ⟨a, b, c'⟩ := hT
    split at h
    · simp only [Option.some.injEq] at h; subst h
      exact dinv_setPc tid _ hI trivial
    · have hev : EVs s g ⟨s.ver g, s.now⟩ := ⟨Nat.le_refl _, hN g⟩
      have hfd : ∀ f d t, fd = some (f, d, t) → s.ep d ≤ s.now := fun f d t hh =>
        Nat.le_trans (hI.dicts d (b f d t hh).2.2.2.1).2.2 hI.bstartLe
      split at h
      · rename_i pd t0
        simp only [Option.some.injEq] at h; subst h
        have hp := c' pd t0 rfl
        exact dinv_setPc tid _ hI ⟨b, hev, a, hp.2.2.1, Nat.le_trans (hI.dicts pd hp.2.2.1).2.2 hI.bstartLe, hfd⟩
      · simp only [Option.some.injEq] at h; subst h
        exact dinv_afterProc tid g cs fd _ _ hI b hev a hfd
  | p4 g cs fd pd e =>
    simp only [cstep] at h
    obtain ⟨a, b, c', d', e', f'⟩ := hT
    simp only [Option.some.injEq] at h; subst h
    have hI' : DInv c (storeM c s pd (.src g) e) := dinv_storeM pd (.src g) e hI d' b e'
    have hx := ext_storeM c s pd (.src g) e
    refine dinv_afterProc tid g cs fd e _ hI' (FDOK_ext hx a) (EVs_ext hx b) c' (fun f d t hfd => ?_)
    rw [hx.ep _ (a f d t hfd).2.2.2.1]; exact f' f d t hfd
  | f4 f g cs d e how =>
    simp only [cstep] at h
    obtain ⟨a, b, c', d', e'⟩ := hT
    simp only [Option.some.injEq] at h; subst h
    have hI' : DInv c (storeM c s d (.fn f) e) := dinv_storeM d (.fn f) e hI c' (by show EVs s (c.fsrc f) e; rw [a]; exact b) d'
    have hx := ext_storeM c s d (.fn f) e
    exact dinv_setPc tid _ hI' ⟨EVs_ext hx b, HowInv_ext hx e'⟩
  | ret g cs e how =>
    simp only [cstep, Option.some.injEq] at h; subst h
    exact dinv_setPc tid _ hI trivial
  | retErr g cs =>
    simp only [cstep, Option.some.injEq] at h; subst h
    exact dinv_setPc tid _ hI trivial

/-- every bytecode of `oneshot()`'s enter/exit preserves the data invariant -/
theorem ostep_dinv {c : CCfg2} {s s1 : St} (tid : Nat) (hI : DInv c s)
    (h : ostep c s tid (s.thr tid).ph = some s1) : DInv c s1 := by
  generalize (s.thr tid).ph = ph at h
  cases ph with
  | test =>
    simp only [ostep] at h
    split at h <;> (simp only [Option.some.injEq] at h; subst h; exact dinv_setPh tid _ hI)
  | act rest =>
    cases rest with
    | nil => simp only [ostep, Option.some.injEq] at h; subst h; exact dinv_setPh tid _ hI
    | cons l rest =>
      simp only [ostep, Option.some.injEq] at h; subst h
      exact dinv_setPh tid _ (dinv_act tid l hI)
  | deact rest =>
    cases rest with
    | nil => simp only [ostep, Option.some.injEq] at h; subst h; exact dinv_setPh tid _ hI
    | cons l rest =>
      simp only [ostep] at h
      split at h
      · simp only [Option.some.injEq] at h; subst h
        exact dinv_setPh tid _ (dinv_del l hI)
      · simp only [Option.some.injEq] at h; subst h
        exact dinv_setPh tid _ hI
  | release =>
    simp only [ostep] at h
    split at h
    · simp only [Option.some.injEq] at h; subst h
      exact dinv_setPh tid _ (dinv_lock _ hI)
    · simp only [Option.some.injEq] at h; subst h
      exact dinv_popTo tid _ _ hI
  | out => simp [ostep] at h
  | inBlock => simp [ostep] at h
  | inNoop => simp [ostep] at h
  | oerr => simp [ostep] at h

/- ------------------------------------------------------------------ lock protocol -/

/-- a no-op level is never the outermost one -/
def stackOK : List Bool → Prop
  | [] => True
  | [b] => b = true
  | _ :: b :: rest => stackOK (b :: rest)

theorem stackOK_push_true {st : List Bool} (h : stackOK st) : stackOK (true :: st) := by
  cases st with
  | nil => rfl
  | cons b r => exact h

theorem stackOK_push_false {st : List Bool} (h : stackOK st) (hne : st ≠ []) : stackOK (false :: st) := by
  cases st with
  | nil => exact absurd rfl hne
  | cons b r => exact h

theorem stackOK_tail {b : Bool} {st : List Bool} (h : stackOK (b :: st)) : stackOK st := by
  cases st with
  | nil => trivial
  | cons b' r => exact h

theorem stackOK_false_ne {st : List Bool} (h : stackOK (false :: st)) : st ≠ [] := by
  cases st with
  | nil => cases h
  | cons b r => simp

def OwnerOK (dg : Bool) (aF aP : Option Nat) (stack : List Bool) : Phase → Prop
  | .out => False
  | .test => stack = [] → aF = none ∧ aP = none
  | .act _ => True
  | .inBlock => True
  | .inNoop => stack ≠ []
  | .deact rest => (Lvl.front ∉ rest → aF = none) ∧ (Lvl.proc ∉ rest → aP = none)
  | .release => stack = [] → aF = none ∧ aP = none
  | .oerr => dg = false

structure LInv (c : CCfg2) (s : St) : Prop where
  own : ∀ i, (s.thr i).ph ≠ .out → s.lock = some i
  free : s.lock = none → s.attrF = none ∧ s.attrP = none
  owner : ∀ i, s.lock = some i → OwnerOK c.delGuard s.attrF s.attrP (s.thr i).stack (s.thr i).ph
  stk : ∀ i, stackOK (s.thr i).stack

/-- a step that touches neither the lock, nor the attributes, nor any phase or stack -/
theorem linv_congr {c : CCfg2} {s s' : St} (h : LInv c s) (hl : s'.lock = s.lock) (hF : s'.attrF = s.attrF)
    (hP : s'.attrP = s.attrP) (hph : ∀ i, (s'.thr i).ph = (s.thr i).ph)
    (hst : ∀ i, (s'.thr i).stack = (s.thr i).stack) : LInv c s' := by
  refine ⟨fun i hi => ?_, fun hn => ?_, fun i hi => ?_, fun i => ?_⟩
  · rw [hl]; rw [hph] at hi; exact h.own i hi
  · rw [hl] at hn; rw [hF, hP]; exact h.free hn
  · rw [hl] at hi; rw [hF, hP, hph, hst]; exact h.owner i hi
  · rw [hst]; exact h.stk i

theorem ph_setPc (s : St) (tid : Nat) (pc : PC) (i : Nat) : ((setPc s tid pc).thr i).ph = (s.thr i).ph := by
  show (if i = tid then { s.thr tid with pc := pc } else s.thr i).ph = (s.thr i).ph
  by_cases h : i = tid
  · subst h; simp
  · simp [h]

theorem st_setPc (s : St) (tid : Nat) (pc : PC) (i : Nat) : ((setPc s tid pc).thr i).stack = (s.thr i).stack := by
  show (if i = tid then { s.thr tid with pc := pc } else s.thr i).stack = (s.thr i).stack
  by_cases h : i = tid
  · subst h; simp
  · simp [h]

theorem linv_setPc {c : CCfg2} {s : St} (tid : Nat) (pc : PC) (h : LInv c s) : LInv c (setPc s tid pc) :=
  linv_congr h rfl rfl rfl (ph_setPc s tid pc) (st_setPc s tid pc)

theorem linv_store {c : CCfg2} {s : St} (d : Nat) (key : Key) (e : Entry) (h : LInv c s) : LInv c (store s d key e) :=
  linv_congr h rfl rfl rfl (fun _ => rfl) (fun _ => rfl)

theorem linv_storeM {c : CCfg2} {s : St} (d : Nat) (key : Key) (e : Entry) (h : LInv c s) :
    LInv c (storeM c s d key e) := by
  unfold storeM
  split
  · exact h
  · exact linv_store d key e h

theorem linv_afterProc {c : CCfg2} {s : St} (tid g cs : Nat) (fd : Option (Nat × Nat × Nat)) (e : Entry) (how : How)
    (h : LInv c s) : LInv c (afterProc s tid g cs fd e how) := by
  unfold afterProc; split <;> exact linv_setPc tid _ h

theorem cstep_linv {c : CCfg2} {s s1 : St} (tid : Nat) (pc : PC) (hI : LInv c s)
    (h : cstep c s tid pc = some s1) : LInv c s1 := by
  cases pc with
  | idle => simp [cstep] at h
  | f0 f g cs =>
    simp only [cstep] at h
    split at h
    · split at h <;> (simp only [Option.some.injEq] at h; subst h; exact linv_setPc tid _ hI)
    · simp only [Option.some.injEq] at h; subst h; exact linv_setPc tid _ hI
  | f1 f g cs d t0 =>
    simp only [cstep] at h
    split at h <;> (simp only [Option.some.injEq] at h; subst h; exact linv_setPc tid _ hI)
  | p0 g cs fd =>
    simp only [cstep] at h
    split at h
    · split at h
      · split at h <;> (simp only [Option.some.injEq] at h; subst h; exact linv_setPc tid _ hI)
      · simp only [Option.some.injEq] at h; subst h; exact linv_setPc tid _ hI
    · simp only [Option.some.injEq] at h; subst h; exact linv_setPc tid _ hI
  | p1 g cs fd pd t0 =>
    simp only [cstep] at h
    split at h
    · simp only [Option.some.injEq] at h; subst h; exact linv_afterProc tid g cs fd _ _ hI
    · simp only [Option.some.injEq] at h; subst h; exact linv_setPc tid _ hI
  | p2 g cs fd od =>
    simp only [cstep] at h
    split at h
    · simp only [Option.some.injEq] at h; subst h; exact linv_setPc tid _ hI
    · split at h
      · simp only [Option.some.injEq] at h; subst h; exact linv_setPc tid _ hI
      · simp only [Option.some.injEq] at h; subst h; exact linv_afterProc tid g cs fd _ _ hI
  | p4 g cs fd pd e =>
    simp only [cstep, Option.some.injEq] at h; subst h
    exact linv_afterProc tid g cs fd _ _ (linv_storeM pd _ e hI)
  | f4 f g cs d e how =>
    simp only [cstep, Option.some.injEq] at h; subst h
    exact linv_setPc tid _ (linv_storeM d _ e hI)
  | ret g cs e how => simp only [cstep, Option.some.injEq] at h; subst h; exact linv_setPc tid _ hI
  | retErr g cs => simp only [cstep, Option.some.injEq] at h; subst h; exact linv_setPc tid _ hI

/-- the lock owner `tid` moves to phase `ph'` (lock kept or just taken); the stacks of the other threads are kept -/
theorem linv_owner {c : CCfg2} {s s' : St} (tid : Nat) (ph' : Phase) (h : LInv c s)
    (hl' : s'.lock = some tid) (hl : s.lock = some tid ∨ s.lock = none)
    (hph : ∀ i, (s'.thr i).ph = if i = tid then ph' else (s.thr i).ph)
    (hst : ∀ i, i ≠ tid → (s'.thr i).stack = (s.thr i).stack)
    (hsk : stackOK (s'.thr tid).stack)
    (hok : OwnerOK c.delGuard s'.attrF s'.attrP (s'.thr tid).stack ph') : LInv c s' := by
  refine ⟨fun i hi => ?_, fun hn => ?_, fun i hi => ?_, fun i => ?_⟩
  · by_cases e : i = tid
    · rw [e]; exact hl'
    · rw [hph] at hi; simp only [e, if_false] at hi
      have := h.own i hi
      cases hl with
      | inl hl => rw [hl] at this; simp only [Option.some.injEq] at this; exact absurd this.symm e
      | inr hl => rw [hl] at this; cases this
  · rw [hl'] at hn; cases hn
  · rw [hl'] at hi; simp only [Option.some.injEq] at hi; subst hi
    rw [hph]; simp only [if_true]; exact hok
  · by_cases e : i = tid
    · rw [e]; exact hsk
    · rw [hst i e]; exact h.stk i

theorem ph_setPh (s : St) (tid : Nat) (ph : Phase) (i : Nat) :
    ((setPh s tid ph).thr i).ph = if i = tid then ph else (s.thr i).ph := by
  show (if i = tid then { s.thr tid with ph := ph } else s.thr i).ph = _
  by_cases h : i = tid
  · subst h; simp
  · simp [h]

theorem st_setPh (s : St) (tid : Nat) (ph : Phase) (i : Nat) : ((setPh s tid ph).thr i).stack = (s.thr i).stack := by
  show (if i = tid then { s.thr tid with ph := ph } else s.thr i).stack = _
  by_cases h : i = tid
  · subst h; simp
  · simp [h]

theorem ph_popTo (s : St) (tid : Nat) (ph : Phase) (rest : List Bool) (i : Nat) :
    ((popTo s tid ph rest).thr i).ph = if i = tid then ph else (s.thr i).ph := by
  show (if i = tid then { s.thr tid with ph := ph, stack := rest } else s.thr i).ph = _
  by_cases h : i = tid
  · subst h; simp
  · simp [h]

theorem st_popTo (s : St) (tid : Nat) (ph : Phase) (rest : List Bool) (i : Nat) :
    ((popTo s tid ph rest).thr i).stack = if i = tid then rest else (s.thr i).stack := by
  show (if i = tid then { s.thr tid with ph := ph, stack := rest } else s.thr i).stack = _
  by_cases h : i = tid
  · subst h; simp
  · simp [h]

theorem ph_pushTest (s : St) (tid : Nat) (b : Bool) (i : Nat) :
    ((pushTest s tid b).thr i).ph = if i = tid then .test else (s.thr i).ph := by
  show (if i = tid then { s.thr tid with ph := Phase.test, stack := b :: (s.thr tid).stack } else s.thr i).ph = _
  by_cases h : i = tid
  · subst h; simp
  · simp [h]

theorem st_pushTest (s : St) (tid : Nat) (b : Bool) (i : Nat) :
    ((pushTest s tid b).thr i).stack = if i = tid then b :: (s.thr tid).stack else (s.thr i).stack := by
  show (if i = tid then { s.thr tid with ph := Phase.test, stack := b :: (s.thr tid).stack } else s.thr i).stack = _
  by_cases h : i = tid
  · subst h; simp
  · simp [h]

theorem mem_of_not_mem_tail {l x : Lvl} {rest : List Lvl} (h : x ∉ rest) (hne : x ≠ l) : x ∉ l :: rest := by
  intro hm
  cases hm with
  | head => exact hne rfl
  | tail _ hm => exact h hm

/-- what the theorems need of the extracted facts: every level is deactivated on exit -/
def CCfg2.Covers (c : CCfg2) : Prop := Lvl.front ∈ c.deactSeq ∧ Lvl.proc ∈ c.deactSeq

theorem ostep_linv {c : CCfg2} {s s1 : St} (tid : Nat) (hI : LInv c s)
    (h : ostep c s tid (s.thr tid).ph = some s1) : LInv c s1 := by
  have hown := hI.own tid
  have hownr := hI.owner tid
  have hsk := hI.stk tid
  generalize hph : (s.thr tid).ph = ph at h hown hownr
  cases ph with
  | out => simp [ostep] at h
  | inBlock => simp [ostep] at h
  | inNoop => simp [ostep] at h
  | oerr => simp [ostep] at h
  | test =>
    have hl := hown (by simp)
    have hok := hownr hl
    simp only [ostep] at h
    split at h
    · rename_i d hd
      simp only [Option.some.injEq] at h; subst h
      refine linv_owner tid _ hI hl (Or.inl hl) (ph_setPh s tid _) (fun i _ => st_setPh s tid _ i)
        (by rw [st_setPh]; exact hsk) ?_
      rw [st_setPh]
      intro hs
      have := (hok hs).1
      have hd' : s.attrF = some d := hd
      rw [this] at hd'; cases hd'
    · simp only [Option.some.injEq] at h; subst h
      exact linv_owner tid _ hI hl (Or.inl hl) (ph_setPh s tid _) (fun i _ => st_setPh s tid _ i)
        (by rw [st_setPh]; exact hsk) trivial
  | act rest =>
    have hl := hown (by simp)
    cases rest with
    | nil =>
      simp only [ostep, Option.some.injEq] at h; subst h
      exact linv_owner tid _ hI hl (Or.inl hl) (ph_setPh s tid _) (fun i _ => st_setPh s tid _ i)
        (by rw [st_setPh]; exact hsk) trivial
    | cons l rest =>
      simp only [ostep, Option.some.injEq] at h; subst h
      have hthr : (actSt s tid l).thr = s.thr := by cases l <;> rfl
      have hlk : (actSt s tid l).lock = s.lock := by cases l <;> rfl
      refine linv_owner tid (.act rest) hI (by show (actSt s tid l).lock = some tid; rw [hlk]; exact hl) (Or.inl hl)
        (fun i => ?_) (fun i _ => ?_) ?_ trivial
      · rw [ph_setPh]; rw [hthr]
      · rw [st_setPh]; rw [hthr]
      · rw [st_setPh]; rw [hthr]; exact hsk
  | deact rest =>
    have hl := hown (by simp)
    have hok := hownr hl
    cases rest with
    | nil =>
      simp only [ostep, Option.some.injEq] at h; subst h
      exact linv_owner tid _ hI hl (Or.inl hl) (ph_setPh s tid _) (fun i _ => st_setPh s tid _ i)
        (by rw [st_setPh]; exact hsk) (fun _ => ⟨hok.1 (by simp), hok.2 (by simp)⟩)
    | cons l rest =>
      simp only [ostep] at h
      split at h
      · simp only [Option.some.injEq] at h; subst h
        have hthr : (delAttr s l).thr = s.thr := by cases l <;> rfl
        refine linv_owner tid (.deact rest) hI (by cases l <;> exact hl) (Or.inl hl) (fun i => ?_) (fun i _ => ?_) ?_ ?_
        · rw [ph_setPh]; rw [hthr]
        · rw [st_setPh]; rw [hthr]
        · rw [st_setPh]; rw [hthr]; exact hsk
        · cases l with
          | front =>
            exact ⟨fun _ => rfl, fun hn => hok.2 (mem_of_not_mem_tail hn (by decide))⟩
          | proc =>
            exact ⟨fun hn => hok.1 (mem_of_not_mem_tail hn (by decide)), fun _ => rfl⟩
      · rename_i hnone
        simp only [Option.some.injEq] at h; subst h
        refine linv_owner tid _ hI hl (Or.inl hl) (ph_setPh s tid _) (fun i _ => st_setPh s tid _ i)
          (by rw [st_setPh]; exact hsk) ?_
        cases hg : c.delGuard
        · exact rfl
        · simp only [if_true]
          cases l with
          | front =>
            exact ⟨fun _ => hnone, fun hn => hok.2 (mem_of_not_mem_tail hn (by decide))⟩
          | proc =>
            exact ⟨fun hn => hok.1 (mem_of_not_mem_tail hn (by decide)), fun _ => hnone⟩
  | release =>
    have hl := hown (by simp)
    have hok := hownr hl
    simp only [ostep] at h
    split at h
    · rename_i hs
      simp only [Option.some.injEq] at h; subst h
      refine ⟨fun i hi => ?_, fun _ => hok hs, fun i hi => (by cases hi), fun i => ?_⟩
      · rw [ph_setPh] at hi
        by_cases e : i = tid
        · simp [e] at hi
        · simp only [e, if_false] at hi
          have := hI.own i hi
          rw [hl] at this; simp only [Option.some.injEq] at this
          exact absurd this.symm e
      · rw [st_setPh]; exact hI.stk i
    · rename_i b rest hs
      simp only [Option.some.injEq] at h; subst h
      rw [hs] at hsk
      refine linv_owner tid _ hI hl (Or.inl hl) (ph_popTo s tid _ rest) (fun i hi => ?_) ?_ ?_
      · rw [st_popTo]; simp [hi]
      · rw [st_popTo]; simp only [if_true]; exact stackOK_tail hsk
      · rw [st_popTo]; simp only [if_true]
        cases b with
        | true => trivial
        | false => exact stackOK_false_ne hsk

/- ------------------------------------------------------------------ both together -/

structure Inv (c : CCfg2) (s : St) : Prop where
  d : DInv c s
  l : LInv c s
  histNow : ∀ g, s.hist s.now g = s.ver g

theorem tstep_inv {c : CCfg2} (hc : c.Covers) {s s1 : St} (tid : Nat) (ch : Choice) (hI : Inv c s)
    (h : tstep c s tid ch = some s1) : DInv c s1 ∧ LInv c s1 := by
  cases ch with
  | call ff g =>
    simp only [tstep] at h
    split at h
    · split at h
      · rename_i f
        split at h
        · rename_i hf
          simp only [Option.some.injEq] at h; subst h
          exact ⟨dinv_setPc tid _ hI.d ⟨hf, Nat.le_refl _⟩, linv_setPc tid _ hI.l⟩
        · cases h
      · simp only [Option.some.injEq] at h; subst h
        exact ⟨dinv_setPc tid _ hI.d ⟨Nat.le_refl _, fun _ _ _ hh => by cases hh⟩, linv_setPc tid _ hI.l⟩
    · cases h
  | acquire =>
    simp only [tstep] at h
    split at h
    · rename_i hcnd
      obtain ⟨_, hph, hlk⟩ := hcnd
      simp only [Option.some.injEq] at h; subst h
      obtain ⟨hF, hP⟩ := hI.l.free hlk
      constructor
      · refine dinv_setPh tid _ ⟨Nat.le_refl _, fun d hd => ?_, fun d hd => ?_, fun d hd => ?_, hI.d.ents, hI.d.thr⟩
        · obtain ⟨a, b, c'⟩ := hI.d.dicts d hd
          exact ⟨a, b, Nat.le_trans c' hI.d.bstartLe⟩
        · have : s.attrF = some d := hd
          rw [hF] at this; cases this
        · have : s.attrP = some d := hd
          rw [hP] at this; cases this
      · refine linv_owner tid .test hI.l rfl (Or.inr hlk) (fun i => ?_) (fun i _ => ?_) ?_ (fun _ => ⟨hF, hP⟩)
        · rw [ph_setPh]
        · rw [st_setPh]
        · rw [st_setPh]; exact hI.l.stk tid
    · split at h
      · rename_i hcnd
        obtain ⟨_, hlk, hph⟩ := hcnd
        simp only [Option.some.injEq] at h; subst h
        refine ⟨dinv_pushTest tid true hI.d, linv_owner tid .test hI.l hlk (Or.inl hlk) (ph_pushTest s tid true)
          (fun i hi => ?_) ?_ ?_⟩
        · rw [st_pushTest]; simp [hi]
        · rw [st_pushTest]; simp only [if_true]; exact stackOK_push_true (hI.l.stk tid)
        · rw [st_pushTest]; simp only [if_true]; intro hh; cases hh
      · split at h
        · rename_i hcnd
          obtain ⟨_, hlk, hph⟩ := hcnd
          simp only [Option.some.injEq] at h; subst h
          have hne : (s.thr tid).stack ≠ [] := by
            have := hI.l.owner tid hlk
            rw [hph] at this; exact this
          refine ⟨dinv_pushTest tid false hI.d, linv_owner tid .test hI.l hlk (Or.inl hlk) (ph_pushTest s tid false)
            (fun i hi => ?_) ?_ ?_⟩
          · rw [st_pushTest]; simp [hi]
          · rw [st_pushTest]; simp only [if_true]; exact stackOK_push_false (hI.l.stk tid) hne
          · rw [st_pushTest]; simp only [if_true]; intro hh; cases hh
        · cases h
  | beginExit =>
    simp only [tstep] at h
    split at h
    · have hown := hI.l.own tid
      have hownr := hI.l.owner tid
      generalize (s.thr tid).ph = ph at h hown hownr
      cases ph with
      | inBlock =>
        simp only [Option.some.injEq] at h; subst h
        have hl := hown (by simp)
        exact ⟨dinv_setPh tid _ hI.d, linv_owner tid _ hI.l hl (Or.inl hl) (ph_setPh s tid _)
          (fun i _ => st_setPh s tid _ i) (by rw [st_setPh]; exact hI.l.stk tid)
          ⟨fun hn => absurd hc.1 hn, fun hn => absurd hc.2 hn⟩⟩
      | inNoop =>
        simp only [Option.some.injEq] at h; subst h
        have hl := hown (by simp)
        have hne : (s.thr tid).stack ≠ [] := hownr hl
        exact ⟨dinv_setPh tid _ hI.d, linv_owner tid _ hI.l hl (Or.inl hl) (ph_setPh s tid _)
          (fun i _ => st_setPh s tid _ i) (by rw [st_setPh]; exact hI.l.stk tid)
          (by rw [st_setPh]; exact fun hh => absurd hh hne)⟩
      | out => cases h
      | test => cases h
      | act r => cases h
      | deact r => cases h
      | release => cases h
      | oerr => cases h
    · cases h
  | step =>
    simp only [tstep] at h
    split at h
    · exact ⟨ostep_dinv tid hI.d h, ostep_linv tid hI.l h⟩
    · exact ⟨cstep_dinv tid hI.d hI.histNow h, cstep_linv tid _ hI.l h⟩

theorem ext_tick (s : St) : Ext s (tick s) := by
  refine ⟨Nat.le_succ _, fun t ht => ?_, Nat.le_refl _, fun _ _ => rfl, fun _ _ => rfl⟩
  show (if t = s.now + 1 then s.ver else s.hist t) = s.hist t
  have : t ≠ s.now + 1 := by omega
  simp [this]

theorem dinv_tick {c : CCfg2} {s : St} (hI : DInv c s) : DInv c (tick s) := by
  have hext := ext_tick s
  refine ⟨Nat.le_succ_of_le hI.bstartLe, fun d hd => ?_, hI.attrF, hI.attrP, fun d key e he => ?_,
    fun i => TInv_ext hext (hI.thr i)⟩
  · obtain ⟨a, b, c'⟩ := hI.dicts d hd
    exact ⟨Nat.le_succ_of_le a, b, c'⟩
  · obtain ⟨a, b, c'⟩ := hI.ents d key e he
    exact ⟨a, EVs_ext hext b, c'⟩

theorem histNow_tick (s : St) : ∀ g, (tick s).hist (tick s).now g = s.ver g := by
  intro g
  show (if s.now + 1 = s.now + 1 then s.ver else s.hist (s.now + 1)) g = s.ver g
  simp

theorem inv_init (c : CCfg2) : Inv c St.init := by
  refine ⟨⟨Nat.le_refl _, fun d hd => absurd hd (Nat.not_lt_zero _), fun d hd => ?_, fun d hd => ?_,
    fun d k e he => ?_, fun i => trivial⟩, ⟨fun i hi => ?_, fun _ => ⟨rfl, rfl⟩, fun i hi => ?_, fun i => trivial⟩, fun g => rfl⟩
  · simp [St.init] at hd
  · simp [St.init] at hd
  · simp [St.init] at he
  · simp [St.init] at hi
  · simp [St.init] at hi

theorem dinv_world {c : CCfg2} {s : St} (ver : Nat → Nat) (denied : Nat → Bool) (hI : DInv c s) :
    DInv c { s with ver := ver, denied := denied } :=
  ⟨hI.bstartLe, hI.dicts, hI.attrF, hI.attrP, hI.ents, hI.thr⟩

theorem step_inv {c : CCfg2} (hc : c.Covers) {s s' : St} (a : Action) (hI : Inv c s)
    (h : step c s a = some s') : Inv c s' := by
  cases a with
  | thr tid ch =>
    simp only [step, Option.map_eq_some_iff] at h
    obtain ⟨s1, h1, rfl⟩ := h
    obtain ⟨hd, hl⟩ := tstep_inv hc tid ch hI h1
    exact ⟨dinv_tick hd, linv_congr hl rfl rfl rfl (fun _ => rfl) (fun _ => rfl), histNow_tick s1⟩
  | setVer g v =>
    simp only [step, Option.some.injEq] at h; subst h
    exact ⟨dinv_tick (dinv_world _ _ hI.d), linv_congr hI.l rfl rfl rfl (fun _ => rfl) (fun _ => rfl), histNow_tick _⟩
  | setDenied g b =>
    simp only [step, Option.some.injEq] at h; subst h
    exact ⟨dinv_tick (dinv_world _ _ hI.d), linv_congr hI.l rfl rfl rfl (fun _ => rfl) (fun _ => rfl), histNow_tick _⟩

theorem reach_inv {c : CCfg2} (hc : c.Covers) {s : St} (h : Reach c s) : Inv c s := by
  induction h with
  | init => exact inv_init c
  | step a _ hs ih => exact step_inv hc a ih hs

theorem reach_runD {c : CCfg2} (as : List Action) : ∀ {s : St}, Reach c s → Reach c (runD c s as) := by
  induction as with
  | nil => intro s h; exact h
  | cons a as ih =>
    intro s h
    simp only [runD]
    cases hs : step c s a with
    | none => exact ih h
    | some s' => exact ih (Reach.step a h hs)

/-- the interval form for two levels: the returned value is what source `g` held at an instant
    `t ≤ now` with either `t` inside the call, or the value came out of a dict (front-end or
    platform) that existed at an instant `t0` of the call, and `t` is not older than the moment the
    block that created that dict took the lock -/
def IntervalForm (s : St) (g cs : Nat) (e : Entry) (how : How) : Prop :=
  ∃ t, t ≤ s.now ∧ s.hist t g = e.val ∧
    (cs ≤ t ∨ ∃ d t0, (how = .hitP d t0 ∨ how = .hitF d t0) ∧ cs ≤ t0 ∧ t0 ≤ s.now ∧ s.born d ≤ t0 ∧
      s.ep d ≤ s.born d ∧ s.ep d ≤ t)

def LiteralForm (s : St) (g cs : Nat) (e : Entry) : Prop :=
  ∃ t, cs ≤ t ∧ t ≤ s.now ∧ s.hist t g = e.val

theorem intervalOK_of {s : St} {g cs : Nat} {e : Entry} {how : How} (h : IntervalForm s g cs e how) :
    intervalOK s g cs e how = true := by
  obtain ⟨t, h1, h2, h3⟩ := h
  unfold intervalOK
  rw [List.any_eq_true]
  refine ⟨t, List.mem_range.mpr (by omega), ?_⟩
  simp only [Bool.and_eq_true, beq_iff_eq, Bool.or_eq_true, decide_eq_true_eq]
  refine ⟨h2, ?_⟩
  cases h3 with
  | inl h => exact Or.inl h
  | inr h =>
    obtain ⟨d, t0, hw, a, b, c, _, d'⟩ := h
    right
    cases hw with
    | inl hw => subst hw; simp only [Bool.and_eq_true, decide_eq_true_eq]; exact ⟨⟨⟨a, b⟩, c⟩, d'⟩
    | inr hw => subst hw; simp only [Bool.and_eq_true, decide_eq_true_eq]; exact ⟨⟨⟨a, b⟩, c⟩, d'⟩

theorem literalOK_of {s : St} {g cs : Nat} {e : Entry} (h : LiteralForm s g cs e) :
    literalOK s g cs e = true := by
  obtain ⟨t, h1, h2, h3⟩ := h
  unfold literalOK
  rw [List.any_eq_true]
  refine ⟨t, List.mem_range.mpr (by omega), ?_⟩
  simp only [Bool.and_eq_true, beq_iff_eq, decide_eq_true_eq]
  exact ⟨h1, h3⟩

end Psutil.C16.Conc2
