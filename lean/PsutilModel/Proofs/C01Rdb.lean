/-
  Proofs/C01Rdb.lean — the reuse guard over histories with unreadable `/proc/pid/stat` files, for EVERY object
  (known start or `_ident = (pid, None)`): the guard lets an object through only if the PID is held and, when the
  object's start is unknown, the holder's stat file is unreadable right now.  Hence: as soon as the stat file of
  the PID's current holder can be opened (or the PID is free), an object whose own incarnation is gone is refused —
  whatever was or was not readable when the object was built, whatever was asked in between.
  Used by `C01_recycled_raises_NSP_readable` (Props/C01.lean).
-/
import PsutilModel.Proofs.C01Hid
namespace Psutil.C01
open Spec

/-- **what passing the guard means, in ANY state** (no invariant needed; only the `_gone` test of the guard):
    the PID is held by somebody, and an object without a start time (`_ident = (pid, None)`) gets through only
    while the holder's stat file cannot be opened (`None == None`). -/
theorem guard_pass_shape {c : Cfg} (hg : c.goneRaises = true) {k : Kernel} (ps : Ps) {o : PObj}
    (hpass : (raiseIfPidReusedO c k ps o).2.2 = false) :
    ∃ x, k.find o.pid = some x ∧ (o.ident = none → k.isHidden o.pid = true) := by
  rw [raise_eq] at hpass
  by_cases hr : o.reused = true
  · rw [if_pos hr] at hpass; cases hpass
  · rw [if_neg hr] at hpass
    simp only [Bool.not_eq_true] at hr
    by_cases hgo : o.gone = true
    · have hrun : isRunningO c k ps o = (ps, o, false) := by simp [isRunningO, hgo]
      rw [hrun] at hpass
      simp [hr, hgo, hg] at hpass
    · simp only [Bool.not_eq_true] at hgo
      cases hf : k.find o.pid with
      | none =>
        have hrun : isRunningO c k ps o = (ps, { o with gone := true }, false) := by
          simp [isRunningO, hgo, hr, mkObj, hf]
        rw [hrun] at hpass
        simp [hr, hg] at hpass
      | some x =>
        refine ⟨x, rfl, fun hid => ?_⟩
        cases hh : k.isHidden o.pid with
        | true => rfl
        | false =>
          have hrun : (isRunningO c k ps o).2.2 = false ∧ (isRunningO c k ps o).2.1.reused = true := by
            simp [isRunningO, hgo, hr, mkObj, hf, hh, hid]
          simp [hrun.1, hrun.2] at hpass

/-- found under its PID with the object's ghost start = the object's own incarnation is in the table -/
theorem listed_of_find {k : Kernel} {o : PObj} {x : Inst} (hf : k.find o.pid = some x) (hs : x.start = o.ghost) :
    Listed k o :=
  ⟨x, List.mem_of_find?_eq_some hf, by simpa using List.find?_some hf, hs⟩

/-- **a signal / setter through an object whose incarnation lost the PID, when the stat file of the PID opens**
    (weak invariant: histories with unreadable phases): NoSuchProcess, no effect — for objects with a known start
    and for `(pid, None)` objects alike. -/
theorem method_refuses_readable {c : Cfg} (hg : c.Good) {k : Kernel} {ps : Ps}
    (hst : ∀ x ∈ k.procs, x.stamp = x.start)
    (hnz : ∀ B, ps.bootTime = some B → BtOK c.createNoneTest B) {o : PObj} (hok : ObjOK2 c.clk k ps.bootTime o)
    {call : Call} {r : MRes} (hm : method c k ps o call = some r) (hec : isEffectCall call = true)
    (hdead : ¬ Listed k o) (hread : StatOpens k o.pid) :
    r.eff = none ∧ r.out = .exc (.noSuchProcess o.pid) := by
  have hraise : (raiseIfPidReusedO c k ps o).2.2 = true := by
    cases hgf : (raiseIfPidReusedO c k ps o).2.2 with
    | true => rfl
    | false =>
      exfalso
      obtain ⟨x, hf, hnone⟩ := guard_pass_shape hg.goneRaises ps hgf
      cases hv : o.ident with
      | none =>
        rcases hread with hfree | hvis
        · rw [hf] at hfree; cases hfree
        · rw [hnone hv] at hvis; cases hvis
      | some v =>
        exact hdead (listed_of_find hf
          (guard_known hg.toBootGood hg.goneRaises ps hnz hok hv hf (hst x (List.mem_of_find?_eq_some hf)) hgf))
  have hguard : ∀ has, has = true → (guardedO c has k ps o).2.2 = true := by
    intro has hh; subst hh; simpa [guardedO] using hraise
  cases call <;> simp [isEffectCall] at hec <;>
    simp only [method, Option.some.injEq] at hm <;> subst hm
  · rw [signalM_eq, if_pos (hguard _ hg.guardSignal)]; exact ⟨rfl, rfl⟩
  · rw [setterM_eq, if_pos (hguard _ (guardOf_good hg _))]; exact ⟨rfl, rfl⟩

theorem statOpensB_iff (k : Kernel) (pid : Nat) : statOpensB k pid = true ↔ StatOpens k pid := by
  simp [statOpensB, StatOpens]

end Psutil.C01
