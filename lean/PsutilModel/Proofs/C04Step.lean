/-
  Proofs/C04Step.lean — every operation keeps the invariant; how an operation changes what a
  generator may still yield (`pending`).
-/
import PsutilModel.Proofs.C04Safety
namespace Psutil.C04

theorem applyMid_frame (s : St) (mid : List KEv) :
    (s.applyMid mid).gens = s.gens ∧ (s.applyMid mid).pmap = s.pmap ∧ (s.applyMid mid).k = s.k.applyAll mid := by
  simp [St.applyMid]

theorem Inv.applyMid {s : St} (h : Inv s) (mid : List KEv) : Inv (s.applyMid mid) :=
  ⟨by simpa [St.applyMid] using Kernel.applyAll_wf s.k mid h.kernel, by simpa [St.applyMid] using h.pmap,
   by simpa [St.applyMid] using h.gens⟩

theorem pending_congr {s s' : St} {g : Nat} (h : s'.gens[g]? = s.gens[g]?) : pending s' g = pending s g := by
  simp [pending, h]

/-- the possible results of `next(g)` -/
def NextOut (cfg : Cfg) (s : St) (g : Nat) (out : Out) : Prop :=
  out = .stop
  ∨ (out = .exc "ValueError" ∧ ∃ gen l, s.gens[g]? = some gen ∧ gen.attrs = .names l ∧ l.all cfg.validNames.contains = false)
  ∨ (out = .exc "IndexError" ∧ s.k.listdir = [])
  ∨ (out = .badArg ∧ s.gens[g]? = none)
  ∨ ∃ r p info, out = .yield r p info

theorem genNext_step (cfg : Cfg) (s : St) (g : Nat) (mid : List KEv) (hi : Inv s) :
    Inv (genNext cfg s g mid).1
    ∧ (∀ g', g' ≠ g → (genNext cfg s g mid).1.gens[g']? = s.gens[g']?)
    ∧ (genNext cfg s g mid).1.gens.length = s.gens.length
    ∧ (∀ l, pending s g = some l → ∃ l', pending (genNext cfg s g mid).1 g = some l' ∧ ∀ q ∈ l', q ∈ l)
    ∧ (∀ r p info, (genNext cfg s g mid).2 = .yield r p info →
        ∃ rest, pending (genNext cfg s g mid).1 g = some rest ∧ (∀ q ∈ rest, p < q)
          ∧ (∀ l, pending s g = some l → p ∈ l))
    ∧ NextOut cfg s g (genNext cfg s g mid).2 := by
  unfold genNext
  cases hg : s.gens[g]? with
  | none =>
    simp only
    refine ⟨hi.applyMid mid, fun g' _ => by simp [St.applyMid], by simp [St.applyMid], ?_, ?_, ?_⟩
    · intro l hl; simp [pending, hg] at hl
    · intro r p info h; cases h
    · exact Or.inr (Or.inr (Or.inr (Or.inl ⟨rfl, hg⟩)))
  | some gen =>
    simp only
    have hok := hi.gens g gen hg
    cases hst : gen.st with
    | done =>
      simp only
      refine ⟨hi.applyMid mid, fun g' _ => by simp [St.applyMid], by simp [St.applyMid], ?_, ?_, Or.inl rfl⟩
      · intro l hl
        refine ⟨l, ?_, fun q hq => hq⟩
        rw [← hl]; exact pending_congr (by simp [St.applyMid])
      · intro r p info h; cases h
    | running pm todo listed =>
      simp only
      simp only [GenOK, hst] at hok
      have him := hi.applyMid mid
      have vs := visit_step cfg gen.attrs g listed todo (s.applyMid mid) pm gen him.kernel him.pmap
        (fun i gen' _ h => him.gens i gen' h) (by simpa [St.applyMid] using hg) hok.1 hok.2.1 hok.2.2
      obtain ⟨v1, v2, v3, _, v5, v6, _, v8⟩ := vs
      have hpend : pending s g = some (todoPids todo) := by simp [pending, hg, hst]
      refine ⟨v1, fun g' h => by rw [v2 g' h]; simp [St.applyMid], by rw [v3]; simp [St.applyMid], ?_, ?_, ?_⟩
      · intro l hl
        rw [hpend] at hl
        simp only [Option.some.injEq] at hl
        subst hl
        exact v5
      · intro r p info ho
        obtain ⟨pm', rest, pre, h1, h2, _, h4, _⟩ := v6 r p info ho
        refine ⟨todoPids rest, by simp [pending, h1], h4, ?_⟩
        intro l hl
        rw [hpend] at hl
        simp only [Option.some.injEq] at hl
        subst hl
        rw [h2]; simp
      · rcases v8 with h | ⟨h, l, hl1, hl2⟩ | h
        · exact Or.inl h
        · exact Or.inr (Or.inl ⟨h, gen, l, hg, hl1, hl2⟩)
        · exact Or.inr (Or.inr (Or.inr (Or.inr h)))
    | fresh =>
      simp only
      have pr := prologue_res cfg s hi.kernel.nodup hi.pmap
      have hpend : pending s g = none := by simp [pending, hg, hst]
      cases hp : prologue cfg s with
      | mk s1 res =>
        rw [hp] at pr
        simp only at pr
        obtain ⟨p1, p2, p3, _, p5⟩ := pr
        cases res with
        | none =>
          simp only at p5 ⊢
          refine ⟨?_, ?_, ?_, ?_, ?_, ?_⟩
          · refine ⟨?_, ?_, ?_⟩
            · simp only [St.applyMid, St.setGen]
              rw [p2]; exact Kernel.applyAll_wf s.k mid hi.kernel
            · simp only [St.applyMid, St.setGen]; rw [p3]; exact hi.pmap
            · intro i gen' hgi
              by_cases hig : i = g
              · subst hig
                have : (s1.setGen i GSt.done).gens[i]? = some { gen with st := .done } := by
                  rw [setGen_get_self, p1, hg]; rfl
                simp only [St.applyMid] at hgi
                rw [this] at hgi
                simp only [Option.some.injEq] at hgi
                subst hgi
                simp [GenOK]
              · simp only [St.applyMid] at hgi
                rw [setGen_get_ne _ _ _ _ hig, p1] at hgi
                exact hi.gens i gen' hgi
          · intro g' h; simp only [St.applyMid]; rw [setGen_get_ne _ _ _ _ h, p1]
          · simp only [St.applyMid]; rw [setGen_length, p1]
          · intro l hl; rw [hpend] at hl; cases hl
          · intro r p info h; cases h
          · exact Or.inr (Or.inr (Or.inl ⟨rfl, p5⟩))
        | some x =>
          obtain ⟨pm, todo, listed⟩ := x
          simp only at p5 ⊢
          obtain ⟨_, _, q3, q4, q5, _⟩ := p5
          have hwf1 : (s1.applyMid mid).k.WF := by
            simp only [St.applyMid]; rw [p2]; exact Kernel.applyAll_wf s.k mid hi.kernel
          have vs := visit_step cfg gen.attrs g listed todo (s1.applyMid mid) pm gen hwf1
            (by simp only [St.applyMid]; rw [p3]; exact hi.pmap)
            (fun i gen' _ h => hi.gens i gen' (by simpa [St.applyMid, p1] using h))
            (by simpa [St.applyMid, p1] using hg) q3 q4 q5
          obtain ⟨v1, v2, v3, _, _, v6, _, v8⟩ := vs
          refine ⟨v1, fun g' h => by rw [v2 g' h]; simp [St.applyMid, p1], by rw [v3]; simp [St.applyMid, p1], ?_, ?_, ?_⟩
          · intro l hl; rw [hpend] at hl; cases hl
          · intro r p info ho
            obtain ⟨pm', rest, pre, h1, _, _, h4, _⟩ := v6 r p info ho
            refine ⟨todoPids rest, by simp [pending, h1], h4, ?_⟩
            intro l hl; rw [hpend] at hl; cases hl
          · rcases v8 with h | ⟨h, l, hl1, hl2⟩ | h
            · exact Or.inl h
            · exact Or.inr (Or.inl ⟨h, gen, l, hg, hl1, hl2⟩)
            · exact Or.inr (Or.inr (Or.inr (Or.inr h)))

theorem isRunningObj_inv {s : St} (hi : Inv s) (r : Ref) (o : PObj) : Inv (isRunningObj s r o).1 := by
  have := isRunningObj_frame s r o
  exact ⟨by rw [this.2.1]; exact hi.kernel, by rw [this.2.2]; exact hi.pmap, by rw [this.1]; exact hi.gens⟩

/-- every operation keeps the invariant and can only shrink what a generator may still yield -/
theorem step_inv (cfg : Cfg) (s : St) (op : Op) (hi : Inv s) :
    Inv (step cfg s op).1
    ∧ ∀ g l, pending s g = some l → ∃ l', pending (step cfg s op).1 g = some l' ∧ ∀ q ∈ l', q ∈ l := by
  have same : ∀ {s' : St}, s'.gens = s.gens →
      ∀ g l, pending s g = some l → ∃ l', pending s' g = some l' ∧ ∀ q ∈ l', q ∈ l := by
    intro s' hgens g l hl
    exact ⟨l, by rw [← hl]; exact pending_congr (by rw [hgens]), fun q hq => hq⟩
  cases op with
  | kev e =>
    simp only [step]
    exact ⟨⟨Kernel.apply_wf s.k e hi.kernel, hi.pmap, hi.gens⟩, same rfl⟩
  | pids =>
    have hc := pidsCall_res s
    simp only [step]
    cases hp : pidsCall s with
    | mk s' res =>
      rw [hp] at hc
      obtain ⟨h1, h2, h3, _⟩ := hc
      have hinv : Inv s' := ⟨by rw [h2]; exact hi.kernel, by rw [h3]; exact hi.pmap, by rw [h1]; exact hi.gens⟩
      cases res <;> exact ⟨hinv, same h1⟩
  | pidExists n =>
    simp only [step, pidExists]
    split
    · exact ⟨hi, same rfl⟩
    · split
      · have hc := pidsCall_res s
        cases hp : pidsCall s with
        | mk s' res =>
          rw [hp] at hc
          obtain ⟨h1, h2, h3, _⟩ := hc
          have hinv : Inv s' := ⟨by rw [h2]; exact hi.kernel, by rw [h3]; exact hi.pmap, by rw [h1]; exact hi.gens⟩
          cases res <;> exact ⟨hinv, same h1⟩
      · split <;> exact ⟨hi, same rfl⟩
  | iter attrs =>
    simp only [step]
    refine ⟨⟨hi.kernel, hi.pmap, ?_⟩, ?_⟩
    · intro i gen hg
      simp only at hg
      by_cases hlt : i < s.gens.length
      · rw [List.getElem?_append_left hlt] at hg
        exact hi.gens i gen hg
      · rw [List.getElem?_append_right (by omega)] at hg
        cases hidx : i - s.gens.length with
        | zero => rw [hidx] at hg; simp only [List.getElem?_cons_zero, Option.some.injEq] at hg; subst hg; simp [GenOK]
        | succ k => rw [hidx] at hg; simp at hg
    · intro g l hl
      have hlt : g < s.gens.length := by
        simp only [pending] at hl
        cases hg : s.gens[g]? with
        | none => rw [hg] at hl; cases hl
        | some x => exact (List.getElem?_eq_some_iff.mp hg).1
      refine ⟨l, ?_, fun q hq => hq⟩
      rw [← hl]
      apply pending_congr
      simp only
      exact List.getElem?_append_left hlt
  | next g' mid =>
    simp only [step]
    have gs := genNext_step cfg s g' mid hi
    obtain ⟨g1, g2, _, g4, _⟩ := gs
    refine ⟨g1, ?_⟩
    intro g l hl
    by_cases hgg : g = g'
    · subst hgg; exact g4 l hl
    · exact ⟨l, by rw [← hl]; exact pending_congr (g2 g hgg), fun q hq => hq⟩
  | close g' =>
    simp only [step, genClose]
    cases hg : s.gens[g']? with
    | none => exact ⟨hi, same rfl⟩
    | some gen =>
      simp only
      have hdone : ∀ (s0 : St), s0.gens = s.gens → ∀ g l, pending s g = some l →
          ∃ l', pending (s0.setGen g' .done) g = some l' ∧ ∀ q ∈ l', q ∈ l := by
        intro s0 hs0 g l hl
        by_cases hgg : g = g'
        · subst hgg
          refine ⟨[], ?_, by intro q hq; cases hq⟩
          simp [pending, setGen_get_self, hs0, hg]
        · exact ⟨l, by rw [← hl]; exact pending_congr (by rw [setGen_get_ne _ _ _ _ hgg, hs0]), fun q hq => hq⟩
      have hgens : ∀ (s0 : St), s0.gens = s.gens → ∀ (i : Nat) (gen' : Gen), (s0.setGen g' .done).gens[i]? = some gen' → GenOK gen' := by
        intro s0 hs0 i gen' hgi
        by_cases hig : i = g'
        · subst hig
          rw [setGen_get_self, hs0, hg] at hgi
          simp only [Option.map_some, Option.some.injEq] at hgi
          subst hgi; simp [GenOK]
        · rw [setGen_get_ne _ _ _ _ hig, hs0] at hgi
          exact hi.gens i gen' hgi
      cases hst : gen.st with
      | fresh =>
        simp only
        exact ⟨⟨hi.kernel, hi.pmap, hgens s rfl⟩, hdone s rfl⟩
      | running pm todo listed =>
        simp only
        have hok := hi.gens g' gen hg
        simp only [GenOK, hst] at hok
        refine ⟨⟨hi.kernel, hok.2.2, ?_⟩, ?_⟩
        · exact fun i gen' h => hgens s rfl i gen' h
        · exact fun g l hl => hdone s rfl g l hl
      | done => simp only; exact ⟨hi, same rfl⟩
  | cacheClear =>
    simp only [step]
    exact ⟨⟨hi.kernel, by simp [NodupKeys, PMap.keys], hi.gens⟩, same rfl⟩
  | isRunning r =>
    simp only [step]
    cases ho : s.objs[r]? with
    | none => exact ⟨hi, same rfl⟩
    | some o =>
      simp only
      exact ⟨isRunningObj_inv hi r o, same (isRunningObj_frame s r o).1⟩

theorem init_inv (k : Kernel) (h : k.WF) : Inv (St.init k) :=
  ⟨h, by simp [St.init, NodupKeys, PMap.keys], by simp [St.init]⟩

theorem runAll_inv (cfg : Cfg) (h : List Op) : ∀ s, Inv s → Inv (runAll cfg s h) := by
  induction h with
  | nil => intro s hi; exact hi
  | cons op ops ih => intro s hi; exact ih _ (step_inv cfg s op hi).1


/-- the PIDs generator `g` has still to visit as the property sees it: all listed PIDs in
    ascending order if it has not started yet -/
def remaining (s : St) (g : Nat) : Option (List Nat) :=
  match s.gens[g]? with
  | some gen =>
    match gen.st with
    | .running _ todo _ => some (todoPids todo)
    | .done => some []
    | .fresh => some (sortNat s.k.listdir)
  | none => none

/-- completeness of one `next(g)`: it yields the first remaining PID that has not vanished -/
theorem genNext_complete (cfg : Cfg) (s : St) (hd : cfg.drainFirst = true ∨ s.flagged = []) (g : Nat) (mid : List KEv)
    (hi : Inv s) (gen : Gen) (hg : s.gens[g]? = some gen) (hnr : NoReuse cfg gen.attrs)
    (l : List Nat) (hl : remaining s g = some l) :
    (∀ r p info, (genNext cfg s g mid).2 = .yield r p info →
      ∃ pre rest, l = pre ++ p :: rest ∧ remaining (genNext cfg s g mid).1 g = some rest
        ∧ ∀ q ∈ pre, (s.k.applyAll mid).statStart q = none)
    ∧ ((genNext cfg s g mid).2 = .stop →
        remaining (genNext cfg s g mid).1 g = some [] ∧ ∀ q ∈ l, (s.k.applyAll mid).statStart q = none) := by
  unfold genNext
  rw [hg]
  simp only
  have hok := hi.gens g gen hg
  cases hst : gen.st with
  | done =>
    simp only
    simp only [remaining, hg, hst, Option.some.injEq] at hl
    subst hl
    refine ⟨fun r p info h => (by cases h), fun _ => ⟨by simp [remaining, St.applyMid, hg, hst], by intro q hq; cases hq⟩⟩
  | running pm todo listed =>
    simp only
    simp only [GenOK, hst] at hok
    simp only [remaining, hg, hst, Option.some.injEq] at hl
    subst hl
    have him := hi.applyMid mid
    have vs := visit_step cfg gen.attrs g listed todo (s.applyMid mid) pm gen him.kernel him.pmap
      (fun i gen' _ h => him.gens i gen' h) (by simpa [St.applyMid] using hg) hok.1 hok.2.1 hok.2.2
    obtain ⟨_, _, _, _, _, v6, v7, _⟩ := vs
    refine ⟨?_, ?_⟩
    · intro r p info ho
      obtain ⟨pm', rest, pre, h1, h2, _, _, h5⟩ := v6 r p info ho
      exact ⟨pre, todoPids rest, h2, by simp [remaining, h1], h5 hnr⟩
    · intro ho
      obtain ⟨h1, h2⟩ := v7 ho
      exact ⟨by simp [remaining, h1], h2 hnr⟩
  | fresh =>
    simp only
    simp only [remaining, hg, hst, Option.some.injEq] at hl
    have pr := prologue_res cfg s hi.kernel.nodup hi.pmap
    cases hp : prologue cfg s with
    | mk s1 res =>
      rw [hp] at pr
      simp only at pr
      obtain ⟨p1, p2, p3, _, p5⟩ := pr
      cases res with
      | none =>
        simp only
        exact ⟨fun r p info h => (by cases h), fun h => (by cases h)⟩
      | some x =>
        obtain ⟨pm, todo, listed⟩ := x
        simp only at p5 ⊢
        obtain ⟨q1, _, q3, q4, q5, _, _, q8⟩ := p5
        have hwf1 : (s1.applyMid mid).k.WF := by
          simp only [St.applyMid]; rw [p2]; exact Kernel.applyAll_wf s.k mid hi.kernel
        have vs := visit_step cfg gen.attrs g listed todo (s1.applyMid mid) pm gen hwf1
          (by simp only [St.applyMid]; rw [p3]; exact hi.pmap)
          (fun i gen' _ h => hi.gens i gen' (by simpa [St.applyMid, p1] using h))
          (by simpa [St.applyMid, p1] using hg) q3 q4 q5
        obtain ⟨_, _, _, _, _, v6, v7, _⟩ := vs
        have htodo : todoPids todo = l := by rw [(q8 hd).1, q1, hl]
        have hkk : (s1.applyMid mid).k = s.k.applyAll mid := by simp [St.applyMid, p2]
        refine ⟨?_, ?_⟩
        · intro r p info ho
          obtain ⟨pm', rest, pre, h1, h2, _, _, h5⟩ := v6 r p info ho
          refine ⟨pre, todoPids rest, by rw [← htodo, h2], by simp [remaining, h1], ?_⟩
          rw [← hkk]; exact h5 hnr
        · intro ho
          obtain ⟨h1, h2⟩ := v7 ho
          refine ⟨by simp [remaining, h1], ?_⟩
          rw [← hkk, ← htodo]; exact h2 hnr

end Psutil.C04
