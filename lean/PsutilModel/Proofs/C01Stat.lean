/-
  Proofs/C01Stat.lean — the bytes of `/proc/<pid>/stat` (Model/C01Stat.lean):
  * round trip: psutil's reader, in the shape `StatCfg.Good` (last `)`, two bytes further, whitespace split, field 19
    = starttime, field 0 = state), recovers starttime and the zombie state from a kernel-rendered line WHATEVER BYTES
    the comm field holds (`readStat_statLine`);
  * hence the kernel as psutil reads it IS the kernel (`view_good`), a psutil call over the bytes is the call of
    Model/C01.lean on the kernel's truth (`stepB_good`), and every byte-level history runs as its erasure
    (`runB_toSt`) — which carries every theorem of Props/C01.lean over to histories in which each incarnation shows
    any comm and any other fields, and may rewrite them while it lives.
-/
import PsutilModel.Model.C01Stat
import PsutilModel.Proofs.C01Step
namespace Psutil.C01
open Psutil

/-- the reader shape under which the round trip holds -/
structure StatCfg.Good (sc : StatCfg) : Prop where
  search : sc.search = .rfind
  needle : sc.needle = [41]
  skip : sc.skip = 2
  ctimeIdx : sc.ctimeIdx = 19
  statusIdx : sc.statusIdx = 0

instance (sc : StatCfg) : Decidable sc.Good :=
  decidable_of_iff (sc.search = .rfind ∧ sc.needle = [41] ∧ sc.skip = 2 ∧ sc.ctimeIdx = 19 ∧ sc.statusIdx = 0)
    ⟨fun ⟨a, b, c, d, e⟩ => ⟨a, b, c, d, e⟩, fun ⟨a, b, c, d, e⟩ => ⟨a, b, c, d, e⟩⟩

/-! ### tokens -/

/-- a kernel token: non-empty, no whitespace, no `)` -/
def Tok (t : Bytes) : Prop := t ≠ [] ∧ NoWs t ∧ 41 ∉ t

theorem tok_renderDec (n : Nat) : Tok (renderDec n) :=
  ⟨renderDec_ne_nil n, renderDec_noWs n, renderDec_not_mem n 41 (by decide)⟩

theorem tok_renderInt (i : Int) : Tok (renderInt i) := by
  unfold renderInt
  split
  · refine ⟨by simp, ?_, ?_⟩
    · intro c hc
      rcases List.mem_cons.1 hc with rfl | hc
      · decide
      · exact renderDec_noWs _ c hc
    · intro hm
      rcases List.mem_cons.1 hm with h | h
      · exact absurd h (by decide)
      · exact renderDec_not_mem _ 41 (by decide) h
  · exact tok_renderDec _

theorem tok_stateTok (z : Bool) (l : Nat) (hl : isWs l = false ∧ l ≠ 41) : Tok (stateTok z l) := by
  unfold stateTok
  cases z
  · refine ⟨by simp, ?_, ?_⟩
    · intro c hc; simp at hc; subst hc; exact hl.1
    · simp; exact fun h => hl.2 h.symm
  · refine ⟨by simp, ?_, by simp⟩
    intro c hc; simp at hc; subst hc; decide

theorem not_mem_joinWith (c : Nat) (hc : c ≠ 32) : ∀ (fs : List Bytes), (∀ f ∈ fs, c ∉ f) →
    c ∉ joinWith [32] fs := by
  intro fs
  induction fs with
  | nil => intro _; simp [joinWith]
  | cons f fs ih =>
    intro h
    cases fs with
    | nil => simpa [joinWith] using h f (by simp)
    | cons g gs =>
      simp only [joinWith, List.mem_append, List.mem_singleton, not_or]
      exact ⟨⟨h f (by simp), hc⟩, ih (fun x hx => h x (List.mem_cons_of_mem _ hx))⟩

theorem splitWsGo_trailing (w : Nat) (hw : isWs w = true) : ∀ (s cur : Bytes),
    splitWsGo (s ++ [w]) cur = splitWsGo s cur := by
  intro s
  induction s with
  | nil => intro cur; cases cur <;> simp [splitWsGo, hw]
  | cons c cs ih =>
    intro cur
    simp only [List.cons_append, splitWsGo]
    split
    · split <;> simp [ih]
    · exact ih _

theorem drop_len_add_two (p : Bytes) (a b : Nat) (rest : Bytes) :
    (p ++ a :: b :: rest).drop (p.length + 2) = rest := by
  induction p with
  | nil => simp
  | cons x xs ih =>
    have : (x :: xs).length + 2 = (xs.length + 2) + 1 := by simp only [List.length_cons] <;> omega
    rw [this, List.cons_append, List.drop_succ_cons]
    exact ih

theorem statTail_tok (x : InstB) (hl : isWs x.aux.letter = false ∧ x.aux.letter ≠ 41) : ∀ f ∈ statTail x, Tok f := by
  intro f hf
  unfold statTail at hf
  rcases List.mem_cons.1 hf with rfl | hf
  · exact tok_stateTok _ _ hl
  rcases List.mem_cons.1 hf with rfl | hf
  · exact tok_renderDec _
  rcases List.mem_append.1 hf with hf | hf
  · obtain ⟨i, _, rfl⟩ := List.mem_map.1 hf; exact tok_renderInt i
  rcases List.mem_cons.1 hf with rfl | hf
  · exact tok_renderDec _
  · obtain ⟨i, _, rfl⟩ := List.mem_map.1 hf; exact tok_renderInt i

/-! ### the round trip -/

/-- after the LAST `)` the reader sees exactly the kernel's fields — for ANY comm -/
theorem fields_statLine {sc : StatCfg} (hg : sc.Good) (x : InstB)
    (hl : isWs x.aux.letter = false ∧ x.aux.letter ≠ 41) :
    splitWs (pyFrom (statLine x) (locate sc (statLine x) + sc.skip)) = statTail x := by
  have htok := statTail_tok x hl
  have hdata : statLine x
      = (renderDec x.pid ++ [32, 40] ++ x.comm) ++ 41 :: 32 :: (joinWith [32] (statTail x) ++ [10]) := by
    unfold statLine; simp
  have hnot : 41 ∉ 32 :: (joinWith [32] (statTail x) ++ [10]) := by
    simp only [List.mem_cons, List.mem_append, not_or]
    exact ⟨by decide, not_mem_joinWith 41 (by decide) _ (fun f hf => (htok f hf).2.2), by decide, by simp⟩
  have hr := rfindIdx?_last 41 (renderDec x.pid ++ [32, 40] ++ x.comm) _ hnot
  have hloc : locate sc (statLine x) = ((renderDec x.pid ++ [32, 40] ++ x.comm).length : Int) := by
    unfold locate
    rw [hg.needle, hg.search, hdata]
    simp only [hr]
  rw [hloc, hg.skip]
  unfold pyFrom
  have hnn : (0 : Int) ≤ ((renderDec x.pid ++ [32, 40] ++ x.comm).length : Int) + ((2 : Nat) : Int) := by omega
  rw [if_pos hnn]
  have htn : (((renderDec x.pid ++ [32, 40] ++ x.comm).length : Int) + ((2 : Nat) : Int)).toNat
      = (renderDec x.pid ++ [32, 40] ++ x.comm).length + 2 := by omega
  rw [htn, hdata, drop_len_add_two]
  unfold splitWs
  rw [splitWsGo_trailing 10 (by decide)]
  exact splitWs_join 32 (by decide) _ (fun f hf => ⟨(htok f hf).1, (htok f hf).2.1⟩)

theorem stateTok_isZ (z : Bool) (l : Nat) (hl : l ≠ 90) : (stateTok z l == [90]) = z := by
  cases z <;> simp [stateTok, hl]

/-- **the reader recovers starttime and the zombie state from the kernel's line, whatever the comm** -/
theorem readStat_statLine {sc : StatCfg} (hg : sc.Good) (x : InstB) (hwf : x.aux.WF) :
    readStat sc (statLine x) = .ok x.stamp x.zombie := by
  unfold readStat
  simp only [fields_statLine hg x hwf.letterTok]
  have hlen : ¬ (statTail x).length ≤ statNeeds := by
    simp [statTail, statNeeds, hwf.pre]; have := hwf.post; omega
  have h19 : (statTail x)[19]? = some (renderDec x.stamp) := by
    unfold statTail
    have : 19 = (17 + 1) + 1 := rfl
    rw [this, List.getElem?_cons_succ, List.getElem?_cons_succ, List.getElem?_append_right (by simp [hwf.pre])]
    simp [hwf.pre]
  have h0 : (statTail x)[0]? = some (stateTok x.zombie x.aux.letter) := rfl
  rw [if_neg hlen, hg.ctimeIdx, hg.statusIdx, h19, h0]
  simp [parseDec_renderDec, stateTok_isZ _ _ hwf.letterNotZ]

/-! ### the kernel as psutil reads it is the kernel -/

def KernelB.WF (k : KernelB) : Prop := ∀ x ∈ k.procs, x.aux.WF

def KEvB.WF : KEvB → Prop
  | .spawn _ _ aux | .spawnSameTick _ _ aux | .rewrite _ _ aux => aux.WF
  | _ => True

def EvB.WF : EvB → Prop
  | .k e => e.WF
  | .c _ => True

/-- every stat line of the history is in the kernel's format (proc(5)); the comm fields are unconstrained -/
def HistWF (h : List EvB) : Prop := ∀ e ∈ h, e.WF

instance : DecidablePred KEvB.WF := fun e => by cases e <;> simp only [KEvB.WF] <;> infer_instance
instance : DecidablePred EvB.WF := fun e => by cases e <;> simp only [EvB.WF] <;> infer_instance
instance (h : List EvB) : Decidable (HistWF h) := by unfold HistWF; infer_instance

theorem viewInst_good {sc : StatCfg} (hg : sc.Good) (x : InstB) (hwf : x.aux.WF) :
    viewInst sc x = some x.forget := by
  simp [viewInst, readStat_statLine hg x hwf, InstB.forget]

theorem viewProcs_good {sc : StatCfg} (hg : sc.Good) : ∀ (l : List InstB), (∀ x ∈ l, x.aux.WF) →
    viewProcs sc l = some (l.map InstB.forget)
  | [], _ => rfl
  | x :: xs, h => by
    simp [viewProcs, viewInst_good hg x (h x (by simp)), viewProcs_good hg xs (fun y hy => h y (by simp [hy]))]

/-- **view_good.** Under the good reader the kernel psutil sees is the kernel's truth -/
theorem view_good {sc : StatCfg} (hg : sc.Good) (k : KernelB) (hk : k.WF) : view sc k = some k.forget := by
  simp [view, viewProcs_good hg k.procs hk, KernelB.forget]

theorem forget_find (k : KernelB) (pid : Nat) : k.forget.find pid = (k.find pid).map InstB.forget := by
  simp only [Kernel.find, KernelB.find, KernelB.forget]
  induction k.procs with
  | nil => rfl
  | cons x xs ih =>
    simp only [List.map_cons, List.find?_cons]
    have : (x.forget.pid == pid) = (x.pid == pid) := rfl
    rw [this]
    cases x.pid == pid <;> simp [ih]

/-- kernel events commute with forgetting the bytes -/
theorem forget_apply (k : KernelB) (e : KEvB) : (k.apply e).forget = k.forget.apply e.erase := by
  cases e with
  | spawn pid comm aux =>
    simp only [KernelB.apply, Kernel.apply, KEvB.erase, forget_find]
    cases k.find pid <;> simp [KernelB.forget, InstB.forget]
  | spawnSameTick pid comm aux =>
    simp only [KernelB.apply, Kernel.apply, KEvB.erase, forget_find]
    cases k.find pid <;> simp [KernelB.forget, InstB.forget]
  | rewrite pid comm aux =>
    simp only [KernelB.apply, Kernel.apply, KEvB.erase, KernelB.forget, List.map_map, Nat.add_zero]
    congr 1
    apply List.map_congr_left
    intro x _
    simp only [Function.comp]
    split <;> rfl
  | exit pid =>
    simp only [KernelB.apply, Kernel.apply, KEvB.erase, KernelB.forget, List.map_map]
    congr 1
    apply List.map_congr_left
    intro x _
    simp only [Function.comp, InstB.forget]
    split <;> simp_all
  | reap pid =>
    simp only [KernelB.apply, Kernel.apply, KEvB.erase, KernelB.forget]
    congr 1
    rw [List.filter_map]
    rfl
  | tick n => rfl
  | setBtime b => rfl
  | perm pid e => cases e <;> rfl
  | hide pid on => cases on <;> rfl

theorem KernelB.WF.apply {k : KernelB} (hk : k.WF) (e : KEvB) (he : e.WF) : (k.apply e).WF := by
  cases e with
  | spawn pid comm aux =>
    simp only [KernelB.apply]
    cases k.find pid with
    | some _ => exact hk
    | none =>
      intro x hx
      rcases List.mem_cons.1 hx with rfl | hx
      · exact he
      · exact hk x hx
  | spawnSameTick pid comm aux =>
    simp only [KernelB.apply]
    cases k.find pid with
    | some _ => exact hk
    | none =>
      intro x hx
      rcases List.mem_cons.1 hx with rfl | hx
      · exact he
      · exact hk x hx
  | rewrite pid comm aux =>
    intro x hx
    simp only [KernelB.apply, List.mem_map] at hx
    obtain ⟨y, hy, rfl⟩ := hx
    split
    · exact he
    · exact hk y hy
  | exit pid =>
    intro x hx
    simp only [KernelB.apply, List.mem_map] at hx
    obtain ⟨y, hy, rfl⟩ := hx
    split
    · exact hk y hy
    · exact hk y hy
  | reap pid =>
    intro x hx
    simp only [KernelB.apply, List.mem_filter] at hx
    exact hk x hx.1
  | tick n => exact hk
  | setBtime b => exact hk
  | perm pid e => cases e <;> exact hk
  | hide pid on => cases on <;> exact hk

/-! ### calls and histories over the bytes -/

/-- psutil calls never change the kernel -/
theorem stepc_kern (c : Cfg) (s : St) (call : Call) : (step c s (.c call)).1.kern = s.kern := by
  cases htg : call.target with
  | none => exact (step_no_target c s htg).2
  | some i =>
    cases ho : s.ps.objs[i]? with
    | none => rw [step_bad_index c s htg ho]
    | some o =>
      obtain ⟨r, hm⟩ := method_some c s.kern s.ps o htg
      rw [step_method c s htg ho hm]

/-- **stepB_good.** With the good reader, a psutil call over kernel-formatted stat bytes — whatever the comm
    fields hold — is the call of Model/C01.lean on the kernel's truth: same outcome, same effects, same objects -/
theorem stepB_good {sc : StatCfg} (hg : sc.Good) (cfg : Cfg) (s : StB) (hk : s.kern.WF) (call : Call) :
    (stepB sc cfg s (.c call)).2 = some (step cfg s.toSt (.c call)).2
    ∧ (stepB sc cfg s (.c call)).1.toSt = (step cfg s.toSt (.c call)).1
    ∧ (stepB sc cfg s (.c call)).1.kern = s.kern := by
  simp only [stepB, view_good hg s.kern hk]
  refine ⟨rfl, ?_, trivial⟩
  have hkern := stepc_kern cfg s.toSt call
  simp only [StB.toSt] at hkern ⊢
  generalize step cfg ⟨s.kern.forget, s.ps, s.log⟩ (.c call) = r at hkern ⊢
  obtain ⟨⟨k, ps, log⟩, out⟩ := r
  simp only at hkern ⊢
  rw [hkern]

theorem stepB_kernel_event (sc : StatCfg) (cfg : Cfg) (s : StB) (e : KEvB) :
    (stepB sc cfg s (.k e)).1.toSt = (step cfg s.toSt (.k e.erase)).1
    ∧ (stepB sc cfg s (.k e)).1.kern = s.kern.apply e := by
  simp [stepB, step, StB.toSt, forget_apply]

theorem stepB_wf {sc : StatCfg} (cfg : Cfg) (s : StB) (hk : s.kern.WF) (e : EvB) (he : e.WF) :
    (stepB sc cfg s e).1.kern.WF := by
  cases e with
  | k ke => exact hk.apply ke he
  | c call =>
    simp only [stepB]
    cases view sc s.kern <;> exact hk

/-- **runB_toSt.** Every byte-level history runs as its erasure -/
theorem runB_toSt {sc : StatCfg} (hg : sc.Good) (cfg : Cfg) (h : List EvB) : ∀ (s : StB), s.kern.WF → HistWF h →
    (runB sc cfg s h).toSt = run cfg s.toSt (h.map EvB.erase) ∧ (runB sc cfg s h).kern.WF := by
  induction h with
  | nil => intro s hk _; exact ⟨rfl, hk⟩
  | cons e es ih =>
    intro s hk hwf
    have he := hwf e List.mem_cons_self
    have hrest : HistWF es := fun x hx => hwf x (List.mem_cons_of_mem _ hx)
    have hk' := stepB_wf (sc := sc) cfg s hk e he
    obtain ⟨h1, h2⟩ := ih _ hk' hrest
    refine ⟨?_, h2⟩
    simp only [runB, List.map_cons, run]
    rw [h1]
    congr 1
    cases e with
    | k ke => exact (stepB_kernel_event sc cfg s ke).1
    | c call => exact (stepB_good hg cfg s hk call).2.1

theorem init_wf (b0 : Nat) : (StB.init b0).kern.WF := fun x hx => by simp [StB.init] at hx

theorem init_toSt (b0 : Nat) : (StB.init b0).toSt = St.init b0 := rfl

/-- one-digit numbers as the kernel prints them (for concrete witnesses) -/
theorem renderDec_small (n : Nat) (h : n < 10) : renderDec n = [48 + n] := by
  unfold renderDec renderRadix
  rw [renderRadixAux]
  simp [decimal, h]

end Psutil.C01
