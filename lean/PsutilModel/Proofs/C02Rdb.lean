/-
  Proofs/C02Rdb.lean — `is_running()` and `==` over histories with unreadable `/proc/pid/stat` files, for EVERY object
  (known start or `_ident = (pid, None)`), in any state satisfying the weak invariant of Proofs/C01Hid.lean.
  Reuses C01's machinery (`ObjOK2`, `StatOpens`, `listed_of_find`); used by `C02_not_running_after_gone_readable` and
  `C02_eq_any_readability` (Props/C02.lean).
-/
import PsutilModel.Proofs.C01Rdb
namespace Psutil.C01
open Spec

/-- **is_running() of an object whose incarnation left the table, when the stat file of its PID opens**: False —
    whatever was or was not readable when the object was built (a `(pid, None)` object meets a fresh `(pid, t)`,
    an object with a known start meets another start or nobody). -/
theorem isRunning_false_readable {c : Cfg} (hc : c.BootGood) {k : Kernel} (ps : Ps)
    (hst : ∀ x ∈ k.procs, x.stamp = x.start)
    (hnz : ∀ B, ps.bootTime = some B → BtOK c.createNoneTest B) {o : PObj} (hok : ObjOK2 c.clk k ps.bootTime o)
    (hdead : ¬ Listed k o) (hread : StatOpens k o.pid) : (isRunningO c k ps o).2.2 = false := by
  unfold isRunningO
  split
  · rfl
  · simp only [mkObj]
    cases hf : k.find o.pid with
    | none => rfl
    | some x =>
      have hh : k.isHidden o.pid = false := by
        rcases hread with h | h
        · rw [hf] at h; cases h
        · exact h
      simp only [hh, Bool.false_eq_true, if_false]
      cases hv : o.ident with
      | none => simp
      | some v =>
        obtain ⟨B, hB, hvB⟩ := hok.ident_eq v hv
        rw [bootForCreate_some hc hB (hnz B hB)]
        have hne : x.start ≠ o.ghost := fun hs => hdead (listed_of_find hf hs)
        have hsx := hst x (List.mem_of_find?_eq_some hf)
        have hd : (some v : Option Nat) ≠ some (x.stamp + c.clk * B) := by
          rw [hsx, hvB]; intro h; injection h with h; omega
        simp [hd]

/-- **what a True `==` means when stat files may have been unreadable** (weak invariant): same PID, and as soon as
    one of the two objects has a start time, the same process start. -/
theorem eq_true_shape {clk : Nat} {k : Kernel} {bt : Option Nat} {a b : PObj}
    (ha : ObjOK2 clk k bt a) (hb : ObjOK2 clk k bt b)
    (he : (a.pid == b.pid && a.ident == b.ident) = true) :
    a.pid = b.pid ∧ a.ident = b.ident ∧ (a.ident ≠ none ∨ b.ident ≠ none → a.ghost = b.ghost) := by
  simp only [Bool.and_eq_true, beq_iff_eq] at he
  obtain ⟨hp, hi⟩ := he
  refine ⟨hp, hi, fun hk => ?_⟩
  cases hva : a.ident with
  | none =>
    rw [hva] at hi
    rcases hk with hk | hk
    · exact absurd hva hk
    · exact absurd hi.symm hk
  | some v =>
    obtain ⟨B, hB, e1⟩ := ha.ident_eq v hva
    obtain ⟨B', hB', e2⟩ := hb.ident_eq v (by rw [← hi]; exact hva)
    rw [hB] at hB'
    cases hB'
    omega

end Psutil.C01
