/- Proofs/C06Ext.lean — helper lemmas for the C06 theorems about the code around the parsers
   (terminal map, boot time + create time, threads() listing). -/
import PsutilModel.Proofs.C06
import PsutilModel.Model.C06Ext
import PsutilModel.Spec.C06Ext
namespace Psutil.C06
open Spec

/-- the configuration of the surrounding code for which the theorems hold, EXCEPT the `S_ISCHR`
    test of get_terminal_map and the way create_time() chooses its boot time, which `XCfg.Good` pins on
    top (the lemmas below say what holds for either value of `tmapChecksChr`; Props/C06.lean says what
    holds for the `or` setting of `createBoot`) -/
structure XCfg.GoodBase (x : XCfg) : Prop where
  tmapGlobs : x.tmapGlobs = ["/dev/tty*", "/dev/pts/*"]
  tmapSkipsVanished : x.tmapSkipsVanished = true
  tmapMemoized : x.tmapMemoized = true
  btimeKey : x.btimeKey = Spec.keyBtime
  btimeIdx : x.btimeIdx = 1
  threadsSorts : x.threadsSorts = true
  threadsSkipsVanished : x.threadsSkipsVanished = true
  threadsChecksAlive : x.threadsChecksAlive = true
  threadsSkipsEsrch : x.threadsSkipsEsrch = true
  threadsHitStartsFalse : x.threadsHitStartsFalse = true
  nameExtendMin : x.nameExtendMin = Spec.commMax
  nameExtendChecksPrefix : x.nameExtendChecksPrefix = true

/-- the configuration of the code as it is (since 9df9f82 only character devices enter the terminal map;
    since 29257b1 create_time() uses whatever BOOT_TIME is pinned, 0.0 included) -/
structure XCfg.Good (x : XCfg) : Prop extends XCfg.GoodBase x where
  tmapChecksChr : x.tmapChecksChr = true
  createBoot : x.createBoot = .isNotNone

/-! ## which cached boot time create_time() accepts -/

theorem cachedBoot_none (x : XCfg) : cachedBoot x none = none := by
  unfold cachedBoot; cases x.createBoot <;> rfl

theorem cachedBoot_isNotNone (x : XCfg) (h : x.createBoot = .isNotNone) (c : Option Rat) : cachedBoot x c = c := by
  unfold cachedBoot; rw [h]

theorem cachedBoot_or_zero (x : XCfg) (h : x.createBoot = .or) : cachedBoot x (some 0) = none := by
  unfold cachedBoot; rw [h]; simp

theorem cachedBoot_or_nonzero (x : XCfg) (h : x.createBoot = .or) (b : Rat) (hb : b ≠ 0) :
    cachedBoot x (some b) = some b := by
  unfold cachedBoot; rw [h]; simp [hb]

/-! ## terminal map -/

/-- `os.stat(path)` of a node: a non-device still has an `st_rdev` (0 for files and directories) -/
def statOf : NodeKind → StatOut
  | .vanished => .notFound
  | .chr r => .node true r
  | .other r => .node false r

/-- what the globs + os.stat show of a /dev listing -/
def osView (l : List (Bytes × NodeKind)) : List (Bytes × StatOut) := l.map fun e => (e.1, statOf e.2)

theorem tmap_inv (x : XCfg) (hs : x.tmapSkipsVanished = true) (l : List (Bytes × NodeKind)) :
    ∀ (seen : List (Bytes × NodeKind)) (acc : TMap),
      (x.tmapChecksChr = true ∨ AllDevices l) →
      (∀ nr, TerminalOk seen nr (acc.lookup nr)) →
      ∃ m, getTerminalMap x (osView l) acc = .ok m ∧ ∀ nr, TerminalOk (seen ++ l) nr (m.lookup nr) := by
  induction l with
  | nil => intro seen acc _ h; exact ⟨acc, rfl, by simpa using h⟩
  | cons e l ih =>
    intro seen acc hok h
    obtain ⟨p, k⟩ := e
    have hok' : x.tmapChecksChr = true ∨ AllDevices l := by
      rcases hok with h1 | h1
      · exact Or.inl h1
      · exact Or.inr (fun e he => h1 e (by simp [he]))
    -- the invariant after skipping a non-terminal entry
    have skip : ∀ k', (∀ r, k' ≠ NodeKind.chr r) →
        ∀ nr, TerminalOk (seen ++ [(p, k')]) nr (acc.lookup nr) := by
      intro k' hk nr
      have := h nr
      unfold TerminalOk IsTerminalOf at this ⊢
      cases hl : acc.lookup nr with
      | some q => rw [hl] at this; simp only [List.mem_append, List.mem_singleton]; exact Or.inl this
      | none =>
        rw [hl] at this
        intro q hq
        simp only [List.mem_append, List.mem_singleton, Prod.mk.injEq] at hq
        rcases hq with hq | ⟨_, hq⟩
        · exact this q hq
        · exact hk nr hq.symm
    -- the invariant after storing a character device
    have store : ∀ r, ∀ nr, TerminalOk (seen ++ [(p, NodeKind.chr r)]) nr (((r, p) :: acc).lookup nr) := by
      intro r nr
      have := h nr
      unfold TerminalOk IsTerminalOf at this ⊢
      by_cases hr : nr = r
      · subst hr; simp [List.lookup]
      · have hb : (nr == r) = false := by simp [hr]
        simp only [List.lookup, hb]
        cases hl : acc.lookup nr with
        | some q => rw [hl] at this; simp only [List.mem_append, List.mem_singleton]; exact Or.inl this
        | none =>
          rw [hl] at this
          intro q hq
          simp only [List.mem_append, List.mem_singleton, Prod.mk.injEq, NodeKind.chr.injEq] at hq
          rcases hq with hq | ⟨_, hq⟩
          · exact this q hq
          · exact hr hq
    cases k with
    | vanished =>
      obtain ⟨m, hm, hinv⟩ := ih (seen ++ [(p, NodeKind.vanished)]) acc hok'
        (skip _ (by intro r; simp))
      refine ⟨m, ?_, by simpa using hinv⟩
      simp [osView, statOf, getTerminalMap, hs] at hm ⊢
      exact hm
    | chr r =>
      obtain ⟨m, hm, hinv⟩ := ih (seen ++ [(p, NodeKind.chr r)]) ((r, p) :: acc) hok' (store r)
      refine ⟨m, ?_, by simpa using hinv⟩
      simp [osView, statOf, getTerminalMap] at hm ⊢
      exact hm
    | other r =>
      rcases hok with h1 | h1
      · obtain ⟨m, hm, hinv⟩ := ih (seen ++ [(p, NodeKind.other r)]) acc hok'
          (skip _ (by intro r'; simp))
        refine ⟨m, ?_, by simpa using hinv⟩
        simp [osView, statOf, getTerminalMap, h1] at hm ⊢
        exact hm
      · exact absurd rfl (h1 (p, NodeKind.other r) (by simp) r)

theorem lookup_tmapToInt (m : TMap) (nr : Nat) : (tmapToInt m).lookup (nr : Int) = m.lookup nr := by
  induction m with
  | nil => rfl
  | cons a as ih =>
    by_cases h : nr = a.1
    · subst h; simp [tmapToInt, List.lookup]
    · have h1 : (nr == a.1) = false := by simp [h]
      have h2 : ((nr : Int) == (a.1 : Int)) = false := by
        simp only [beq_eq_false_iff_ne, ne_eq]; intro e; exact h (by exact_mod_cast e)
      simp only [tmapToInt, List.map_cons, List.lookup, h1, h2]
      exact ih

/-! ## boot time -/

theorem stripWs_noop (s : Bytes) (h1 : ∀ c, s.head? = some c → isWs c = false)
    (h2 : ∀ c, s.getLast? = some c → isWs c = false) : stripWs s = s := by
  cases s with
  | nil => simp [stripWs, rstripWs, lstripWs]
  | cons a t =>
    have ha : isWs a = false := h1 a rfl
    unfold stripWs
    rw [lstripWs_of_head ha]
    unfold rstripWs
    cases hr : (a :: t).reverse with
    | nil => simp at hr
    | cons z u =>
      have hz : (a :: t) = u.reverse ++ [z] := by
        have := congrArg List.reverse hr
        simpa using this
      have hzws : isWs z = false := h2 z (by rw [hz]; simp)
      rw [lstripWs_of_head hzws, ← hr]
      simp

theorem bootTimeLines_skip (x : XCfg) (pre rest : List Bytes)
    (h : ∀ l ∈ pre, startsWith x.btimeKey l = false) :
    bootTimeLines x (pre ++ rest) = bootTimeLines x rest := by
  induction pre with
  | nil => rfl
  | cons l ls ih =>
    have hl := h l (by simp)
    simp only [List.cons_append, bootTimeLines, hl]
    exact ih (fun y hy => h y (by simp [hy]))

theorem keyBtime_tokOk : keyBtime ≠ [] ∧ NoWs keyBtime := by
  refine ⟨by decide, ?_⟩
  intro c hc
  simp only [keyBtime, List.mem_cons, List.not_mem_nil, or_false] at hc
  rcases hc with h | h | h | h | h <;> subst h <;> decide

theorem btimeLine_fields (n : Nat) :
    splitWs (stripWs (btimeLine n)) = [keyBtime, renderDec n] := by
  have hne := renderDec_ne_nil n
  have hstrip : stripWs (btimeLine n) = btimeLine n := by
    apply stripWs_noop
    · intro c hc
      simp [btimeLine, keyBtime] at hc
      subst hc; decide
    · intro c hc
      have hcat : ∃ pre z, renderDec n = pre ++ [z] := by
        cases hr : (renderDec n).reverse with
        | nil => simp at hr; exact absurd hr hne
        | cons z u => exact ⟨u.reverse, z, by have := congrArg List.reverse hr; simpa using this⟩
      obtain ⟨pre, z, hz⟩ := hcat
      have hl : btimeLine n = (keyBtime ++ [32] ++ pre) ++ [z] := by simp [btimeLine, hz]
      rw [hl, List.getLast?_concat] at hc
      have hcz : z = c := by simpa using hc
      subst hcz
      exact renderDec_noWs n z (by rw [hz]; simp)
  rw [hstrip]
  have : btimeLine n = joinWith [32] [keyBtime, renderDec n] := by simp [btimeLine, joinWith]
  rw [this]
  apply splitWs_join 32 (by decide)
  intro f hf
  simp only [List.mem_cons, List.not_mem_nil, or_false] at hf
  rcases hf with h | h
  · subst h; exact keyBtime_tokOk
  · subst h; exact ⟨hne, renderDec_noWs n⟩

theorem bootTime_render (x : XCfg) (hg : x.GoodBase) (w : ProcStatW) (hwf : w.WF) :
    bootTime x (renderProcStat w) = .ok (w.btime : Rat) := by
  unfold bootTime renderProcStat
  have hno10 : ∀ f ∈ w.pre ++ [btimeLine w.btime] ++ w.post ++ [[]], 10 ∉ f := by
    intro f hf
    simp only [List.mem_append, List.mem_singleton] at hf
    rcases hf with ((hf | hf) | hf) | hf
    · exact hwf.1 f (by simp [hf])
    · subst hf
      intro h10
      simp only [btimeLine, keyBtime, List.mem_append] at h10
      rcases h10 with (h | h) | h
      · revert h; decide
      · revert h; decide
      · exact renderDec_not_mem w.btime 10 (by decide) h
    · exact hwf.1 f (by simp [hf])
    · subst hf; simp
  rw [splitOn_join 10 _ (by simp) hno10]
  rw [List.append_assoc, List.append_assoc, bootTimeLines_skip x w.pre _ (by
    intro l hl; rw [hg.btimeKey]; exact hwf.2 l hl)]
  have hsw : startsWith x.btimeKey (btimeLine w.btime) = true := by
    rw [hg.btimeKey]; simp [startsWith, btimeLine]
  simp only [List.cons_append, bootTimeLines, hsw, if_true, btimeLine_fields,
    hg.btimeIdx]
  simp [getField, bind, Except.bind, pyFloat_renderDec]

/-! ## threads(): string order of the tids -/

theorem lexLE_total : ∀ a b : Bytes, (lexLE a b || lexLE b a) = true := by
  intro a
  induction a with
  | nil => intro b; simp [lexLE]
  | cons x xs ih =>
    intro b
    cases b with
    | nil => simp [lexLE]
    | cons y ys =>
      have := ih ys
      simp only [lexLE, Bool.or_eq_true, Bool.and_eq_true, decide_eq_true_eq, beq_iff_eq] at this ⊢
      rcases Nat.lt_trichotomy x y with h | h | h
      · exact Or.inl (Or.inl h)
      · subst h
        rcases this with h' | h'
        · exact Or.inl (Or.inr ⟨rfl, h'⟩)
        · exact Or.inr (Or.inr ⟨rfl, h'⟩)
      · exact Or.inr (Or.inl h)

theorem lexLE_trans : ∀ a b c : Bytes, lexLE a b = true → lexLE b c = true → lexLE a c = true := by
  intro a
  induction a with
  | nil => intro b c _ _; simp [lexLE]
  | cons x xs ih =>
    intro b c hab hbc
    cases b with
    | nil => simp [lexLE] at hab
    | cons y ys =>
      cases c with
      | nil => simp [lexLE] at hbc
      | cons z zs =>
        simp only [lexLE, Bool.or_eq_true, Bool.and_eq_true, decide_eq_true_eq, beq_iff_eq] at hab hbc ⊢
        rcases hab with h1 | ⟨h1, h1'⟩
        · rcases hbc with h2 | ⟨h2, _⟩
          · exact Or.inl (by omega)
          · exact Or.inl (by omega)
        · rcases hbc with h2 | ⟨h2, h2'⟩
          · exact Or.inl (by omega)
          · exact Or.inr ⟨by omega, ih ys zs h1' h2'⟩

theorem lexLE_eq_strLE : ∀ a b : Bytes, lexLE a b = Spec.strLE a b := by
  intro a
  induction a with
  | nil => intro b; cases b <;> rfl
  | cons x xs ih =>
    intro b
    cases b with
    | nil => rfl
    | cons y ys => simp only [lexLE, Spec.strLE, ih ys]

/-! ## threads(): the scan -/

/-- what opening the thread's stat file gives: its record, or gone -/
def fileOf : Option StatRec → TaskFile
  | none => .vanished
  | some r => .content (renderStat r)

theorem fileOf_none : fileOf none = .vanished := rfl
theorem fileOf_some (r : StatRec) : fileOf (some r) = .content (renderStat r) := rfl

def toOut (v : ThreadV) : ThreadOut := ⟨v.id, v.userTime, v.systemTime⟩

/-- … with the SIGNAL by which a thread that ended shows: `esrch = false` FileNotFoundError when
    its stat file is opened (ENOENT), `esrch = true` ProcessLookupError from `open`/`read` (ESRCH) -/
def fileOfS (esrch : Bool) : Option StatRec → TaskFile
  | none => if esrch then .esrch else .vanished
  | some r => .content (renderStat r)

theorem fileOfS_false (o : Option StatRec) : fileOfS false o = fileOf o := by cases o <;> rfl
theorem fileOfS_none_false : fileOfS false none = .vanished := rfl
theorem fileOfS_none_true : fileOfS true none = .esrch := rfl
theorem fileOfS_some (e : Bool) (r : StatRec) : fileOfS e (some r) = .content (renderStat r) := rfl

theorem scan_render_sig (c : Cfg) (hg : c.Good) (x : XCfg) (hx : x.threadsSkipsVanished = true)
    (he : x.threadsSkipsEsrch = true) (tck : Nat) (htck : 0 < tck) (sig : Nat → Bool)
    (recs : Nat → Option StatRec) (hwf : ∀ t r, recs t = some r → r.WF ∧ r.pid = t) :
    ∀ order : List Nat,
      threadsScan c x tck (order.map fun t => (t, fileOfS (sig t) (recs t)))
        = .ok ((Spec.threadsValue tck order recs).map toOut, order.any fun t => (recs t).isNone) := by
  intro order
  induction order with
  | nil => rfl
  | cons t ts ih =>
    cases hr : recs t with
    | none =>
      cases hs : sig t with
      | false =>
        simp only [List.map_cons, hr, hs, fileOfS_none_false, threadsScan, hx, if_true, ih, Except.map,
          Spec.threadsValue, List.filterMap_cons, Option.map_none, List.any_cons, Option.isNone_none,
          Bool.true_or]
      | true =>
        simp only [List.map_cons, hr, hs, fileOfS_none_true, threadsScan, he, if_true, ih, Except.map,
          Spec.threadsValue, List.filterMap_cons, Option.map_none, List.any_cons, Option.isNone_none,
          Bool.true_or]
    | some r =>
      obtain ⟨hw, hp⟩ := hwf t r hr
      have h1 := threadOne_render c hg tck htck r hw
      rw [hp] at h1
      simp only [List.map_cons, hr, fileOfS_some, threadsScan, h1, ih, bind, Except.bind, pure, Except.pure,
        Spec.threadsValue, List.filterMap_cons, Option.map_some, List.any_cons, Option.isNone_some,
        Bool.false_or, toOut, threadView, hp]

theorem scan_render (c : Cfg) (hg : c.Good) (x : XCfg) (hx : x.threadsSkipsVanished = true) (tck : Nat)
    (htck : 0 < tck)
    (recs : Nat → Option StatRec) (hwf : ∀ t r, recs t = some r → r.WF ∧ r.pid = t) :
    ∀ order : List Nat,
      threadsScan c x tck (order.map fun t => (t, fileOf (recs t)))
        = .ok ((Spec.threadsValue tck order recs).map toOut, order.any fun t => (recs t).isNone) := by
  intro order
  induction order with
  | nil => rfl
  | cons t ts ih =>
    cases hr : recs t with
    | none =>
      simp only [List.map_cons, hr, fileOf_none, threadsScan, hx, if_true, ih, Except.map,
        Spec.threadsValue, List.filterMap_cons, Option.map_none, List.any_cons, Option.isNone_none,
        Bool.true_or]
    | some r =>
      obtain ⟨hw, hp⟩ := hwf t r hr
      have h1 := threadOne_render c hg tck htck r hw
      rw [hp] at h1
      simp only [List.map_cons, hr, fileOf_some, threadsScan, h1, ih, bind, Except.bind, pure, Except.pure,
        Spec.threadsValue, List.filterMap_cons, Option.map_some, List.any_cons, Option.isNone_some,
        Bool.false_or, toOut, threadView, hp]

/-! ## status tokens: `\d+` accepts non-empty runs of ASCII digits and nothing else -/

theorem spanDigits_spec : ∀ s : Bytes,
    (spanDigits s).1 ++ (spanDigits s).2 = s ∧ (∀ c ∈ (spanDigits s).1, isDigit c = true)
      ∧ (∀ c, (spanDigits s).2.head? = some c → isDigit c = false) := by
  intro s
  induction s with
  | nil => simp [spanDigits]
  | cons c cs ih =>
    by_cases h : isDigit c = true
    · simp only [spanDigits, h, if_true, List.cons_append, ih.1, List.mem_cons, true_and]
      refine ⟨?_, ih.2.2⟩
      intro d hd
      rcases hd with hd | hd
      · subst hd; exact h
      · exact ih.2.1 d hd
    · have h' : isDigit c = false := by simpa using h
      simp [spanDigits, h']

/-- every group of a match of `(\t(\d+)){n}` is a non-empty run of ASCII digits that follows a
    tab, and the run is maximal (`\d+` is greedy and what follows is not a digit) -/
theorem matchGroups_tokens : ∀ (n : Nat) (s : Bytes) (gs : List Bytes) (r : Bytes),
    matchGroups n s = some (gs, r) →
      gs.length = n ∧ (∀ g ∈ gs, g ≠ [] ∧ ∀ c ∈ g, isDigit c = true)
        ∧ s = (gs.map fun g => 9 :: g).flatten ++ r
        ∧ (n ≠ 0 → ∀ c, r.head? = some c → isDigit c = false) := by
  intro n
  induction n with
  | zero =>
    intro s gs r h
    simp only [matchGroups, Option.some.injEq, Prod.mk.injEq] at h
    obtain ⟨h1, h2⟩ := h
    subst h1; subst h2
    simp
  | succ n ih =>
    intro s gs r h
    cases s with
    | nil => simp [matchGroups] at h
    | cons c cs =>
      by_cases hc : c = 9
      · subst hc
        simp only [matchGroups] at h
        obtain ⟨hsp, hdig, hrest⟩ := spanDigits_spec cs
        by_cases he : (spanDigits cs).1.isEmpty = true
        · simp [he] at h
        · have he' : (spanDigits cs).1.isEmpty = false := by simpa using he
          simp only [he', Bool.false_eq_true, if_false] at h
          cases hm : matchGroups n (spanDigits cs).2 with
          | none => simp [hm] at h
          | some p =>
            obtain ⟨ds, r'⟩ := p
            simp only [hm, Option.some.injEq, Prod.mk.injEq] at h
            obtain ⟨h1, h2⟩ := h
            subst h1; subst h2
            obtain ⟨il, ig, is, ir⟩ := ih _ _ _ hm
            refine ⟨by simp [il], ?_, ?_, ?_⟩
            · intro g hg
              simp only [List.mem_cons] at hg
              rcases hg with hg | hg
              · subst hg
                exact ⟨by intro e; rw [e] at he'; simp at he', hdig⟩
              · exact ig g hg
            · simp only [List.map_cons, List.flatten_cons, List.cons_append, List.append_assoc]
              rw [← is, hsp]
            · intro _ c hc
              by_cases hn : n = 0
              · subst hn
                simp only [matchGroups, Option.some.injEq, Prod.mk.injEq] at hm
                rw [← hm.2] at hc
                exact hrest c hc
              · exact ir hn c hc
      · have : matchGroups (n + 1) (c :: cs) = none := by
          unfold matchGroups
          split
          · rename_i heq; simp at heq
          · rename_i heq; simp only [List.cons.injEq] at heq; exact absurd heq.1 hc
          · rfl
        rw [this] at h; simp at h

theorem decOf_digits (g : Bytes) (hne : g ≠ []) (hd : ∀ c ∈ g, isDigit c = true) :
    ∃ n, decOf g = .ok n := by
  have aux : ∀ (g : Bytes) (acc : Nat), (∀ c ∈ g, isDigit c = true) →
      ∃ n, parseRadixAux decimal g acc = some n := by
    intro g
    induction g with
    | nil => intro acc _; exact ⟨acc, rfl⟩
    | cons c cs ih =>
      intro acc h
      have hc := h c (by simp)
      simp only [isDigit, Bool.and_eq_true, decide_eq_true_eq] at hc
      have hv : decimal.val c = some (c - 48) := by simp [decimal, hc]
      simp only [parseRadixAux, hv]
      exact ih _ (fun d hd' => h d (by simp [hd']))
  cases g with
  | nil => exact absurd rfl hne
  | cons c cs =>
    obtain ⟨n, hn⟩ := aux (c :: cs) 0 hd
    exact ⟨n, by simp [decOf, parseDec?, parseRadix?, hn]⟩

/-- every element `re.findall` returns is a list of `n` digit groups -/
theorem findAllGo_tokens (anch : Bool) (key : Bytes) (n : Nat) : ∀ (s : Bytes) (skip : Nat) (atStart : Bool),
    ∀ gs ∈ findAllGo anch key n skip atStart s,
      gs.length = n ∧ ∀ g ∈ gs, g ≠ [] ∧ ∀ c ∈ g, isDigit c = true := by
  intro s
  induction s with
  | nil => intro skip atStart gs h; cases skip <;> simp [findAllGo] at h
  | cons c cs ih =>
    intro skip atStart gs h
    cases skip with
    | succ k => simp only [findAllGo] at h; exact ih _ _ gs h
    | zero =>
      simp only [findAllGo] at h
      by_cases ha : (anch && !atStart) = true
      · simp only [ha, if_true] at h; exact ih _ _ gs h
      · simp only [ha, Bool.false_eq_true, if_false] at h
        cases hm : matchAt key n (c :: cs) with
        | none => rw [hm] at h; exact ih _ _ gs h
        | some p =>
          obtain ⟨g0, r⟩ := p
          rw [hm] at h
          simp only [List.mem_cons] at h
          rcases h with h | h
          · subst h
            unfold matchAt at hm
            cases hd : dropPrefix? key (c :: cs) with
            | none => simp [hd] at hm
            | some rest =>
              simp only [hd] at hm
              obtain ⟨h1, h2, _, _⟩ := matchGroups_tokens n rest gs r hm
              exact ⟨h1, h2⟩
          · exact ih _ _ gs h

end Psutil.C06
