/-
  Proofs/C01Inv.lean — the state invariant of the identity machine and what every psutil call does
  to it.  Shared by Props/C01.lean and Props/C02.lean.
-/
import PsutilModel.Proofs.C01
namespace Psutil.C01
variable {nt : Bool}
open Spec

/-- the part of the configuration identity (C02) rests on -/
structure Cfg.BootGood (c : Cfg) : Prop where
  once : c.bootWriteOnce = true
  cache : c.createUsesCache = true

/-- the configuration under which C01 holds in full -/
structure Cfg.Good (c : Cfg) : Prop extends Cfg.BootGood c where
  goneRaises : c.goneRaises = true
  guardSignal : c.guardSignal = true
  guardNice : c.guardNice = true
  guardIonice : c.guardIonice = true
  guardRlimit : c.guardRlimit = true
  guardAffinity : c.guardAffinity = true
  pid0Refused : c.pid0Refused = true
  rlimitPid0Refused : c.rlimitPid0Refused = true
  negRejected : c.negRejected = true
  sigStop : c.sigStop = SIGSTOP
  sigCont : c.sigCont = SIGCONT
  sigTerm : c.sigTerm = SIGTERM
  sigKill : c.sigKill = SIGKILL
  affinityAll : c.affinityAll = CPU_SETSIZE

/-! ### invariant -/

/-- one object against the kernel, for the frozen boot time `B` -/
structure ObjOK (clk : Nat) (k : Kernel) (B : Nat) (o : PObj) : Prop where
  ghost_lt : o.ghost < k.clock
  ident_eq : o.ident = some (o.ghost + clk * B)
  ctime_eq : o.ctime = o.ident
  dead : (o.gone || o.reused) = true → k.owner o.pid ≠ some o.ghost
  nohide : k.hidden = []
  stamps : ∀ x ∈ k.procs, x.stamp = x.start

/-- one stamp per incarnation survives every event a history may contain (`spawnSameTick` is not one) -/
theorem stamps_apply {k : Kernel} (e : KEv) (he : ∀ p, e ≠ .spawnSameTick p) (h : ∀ x ∈ k.procs, x.stamp = x.start) :
    ∀ x ∈ (k.apply e).procs, x.stamp = x.start := by
  cases e with
  | spawn p =>
    simp only [Kernel.apply]; split
    · exact h
    · intro x hx
      rcases List.mem_cons.1 hx with rfl | hx
      · rfl
      · exact h x hx
  | exit p =>
    intro x hx
    simp only [Kernel.apply, List.mem_map] at hx
    obtain ⟨y, hy, rfl⟩ := hx
    have := h y hy
    split <;> exact this
  | reap p => exact fun x hx => h x (List.mem_filter.1 hx).1
  | tick n => exact h
  | setBtime b => exact h
  | perm p e => rw [(apply_perm_rest k p e).1]; exact h
  | hide p b => rw [(apply_hide_rest k p b).1]; exact h
  | spawnSameTick p => exact absurd rfl (he p)

theorem hidden_apply {k : Kernel} (e : KEv) (he : e.OK nt) (h : k.hidden = []) : (k.apply e).hidden = [] := by
  cases e with
  | spawn p => simp only [Kernel.apply]; split <;> exact h
  | exit p => exact h
  | reap p => exact h
  | tick n => exact h
  | setBtime b => exact h
  | perm p e => rw [(apply_perm_rest k p e).2.2.2]; exact h
  | hide p b =>
    simp only [KEv.OK] at he
    subst he
    simp [Kernel.apply, h]
  | spawnSameTick p => exact he.elim

theorem isHidden_false {k : Kernel} (h : k.hidden = []) (pid : Nat) : k.isHidden pid = false := by
  simp [Kernel.isHidden, h]

structure PInv (nt : Bool) (clk : Nat) (k : Kernel) (ps : Ps) : Prop where
  boot_nz : ∀ B, ps.bootTime = some B → BtOK nt B
  objs : ∀ o ∈ ps.objs, ∃ B, ps.bootTime = some B ∧ ObjOK clk k B o
  /-- every entry of process_iter's cache points at an object of that PID -/
  pmap : ∀ e ∈ ps.pmap, ∃ o, ps.objs[e.2]? = some o ∧ o.pid = e.1

theorem ObjOK.apply {clk : Nat} {k : Kernel} {B : Nat} {o : PObj} (h : ObjOK clk k B o) (e : KEv) (he : e.OK nt) :
    ObjOK clk (k.apply e) B o :=
  ⟨Nat.lt_of_lt_of_le h.ghost_lt (clock_mono k e), h.ident_eq, h.ctime_eq,
   fun hd => dead_stays_dead k e o.pid o.ghost h.ghost_lt (h.dead hd), hidden_apply e he h.nohide, stamps_apply e (fun p hp => by subst hp; exact he) h.stamps⟩

theorem PInv.apply {clk : Nat} {k : Kernel} {ps : Ps} (h : PInv nt clk k ps) (e : KEv) (he : e.OK nt) :
    PInv nt clk (k.apply e) ps :=
  ⟨h.boot_nz, fun o ho => let ⟨B, hb, hok⟩ := h.objs o ho; ⟨B, hb, hok.apply e he⟩, h.pmap⟩

/-! ### boot time -/

theorem bootTimeCall_some {c : Cfg} (hc : c.BootGood) {k : Kernel} {ps : Ps} {B : Nat}
    (h : ps.bootTime = some B) : bootTimeCall c k ps = (ps, k.btime) := by
  simp [bootTimeCall, hc.once, h]

theorem bootTimeCall_none {c : Cfg} {k : Kernel} {ps : Ps}
    (h : ps.bootTime = none) : bootTimeCall c k ps = ({ ps with bootTime := some k.btime }, k.btime) := by
  simp [bootTimeCall, h]

theorem bootForCreate_some {c : Cfg} (hc : c.BootGood) {k : Kernel} {ps : Ps} {B : Nat}
    (h : ps.bootTime = some B) (hnz : BtOK c.createNoneTest B) : bootForCreate c k ps = (ps, B) := by
  simp [bootForCreate, hc.cache, h, hnz]

theorem bootForCreate_none {c : Cfg} (hc : c.BootGood) {k : Kernel} {ps : Ps}
    (h : ps.bootTime = none) :
    bootForCreate c k ps = ({ ps with bootTime := some k.btime }, k.btime) := by
  simp [bootForCreate, hc.cache, h, bootTimeCall_none h]

/-! ### object evolution -/

/-- what a call may change in an object: only the sticky flags, and only upwards -/
structure Evolves (o o' : PObj) : Prop where
  pid : o'.pid = o.pid
  ghost : o'.ghost = o.ghost
  ident : o'.ident = o.ident
  ctime : o'.ctime = o.ctime
  gone : o.gone = true → o'.gone = true
  reused : o.reused = true → o'.reused = true

theorem Evolves.refl (o : PObj) : Evolves o o := ⟨rfl, rfl, rfl, rfl, id, id⟩

theorem Evolves.trans {a b c : PObj} (h1 : Evolves a b) (h2 : Evolves b c) : Evolves a c :=
  ⟨h2.pid.trans h1.pid, h2.ghost.trans h1.ghost, h2.ident.trans h1.ident, h2.ctime.trans h1.ctime,
   fun h => h2.gone (h1.gone h), fun h => h2.reused (h1.reused h)⟩

/-- what a method call may change in the module state: not the boot time, not the objects, not
    process_iter's cache (only `_pids_reused`) -/
structure PsSame (ps ps' : Ps) : Prop where
  boot : ps'.bootTime = ps.bootTime
  objs : ps'.objs = ps.objs
  pmap : ps'.pmap = ps.pmap

theorem PsSame.refl (ps : Ps) : PsSame ps ps := ⟨rfl, rfl, rfl⟩

/-! ### `is_running()` -/

structure IsRunningSpec (clk : Nat) (k : Kernel) (B : Nat) (ps : Ps) (o : PObj) (r : Ps × PObj × Bool) : Prop where
  same : PsSame ps r.1
  evo : Evolves o r.2.1
  ok : ObjOK clk k B r.2.1
  iff : r.2.2 = true ↔ k.owner o.pid = some o.ghost
  flag : r.2.2 = false → (r.2.1.gone || r.2.1.reused) = true
  keep : r.2.2 = true → r.2.1 = o

theorem isRunningO_spec {c : Cfg} (hc : c.BootGood) {k : Kernel} {ps : Ps} {B : Nat} {o : PObj}
    (hb : ps.bootTime = some B) (hnz : BtOK c.createNoneTest B) (hok : ObjOK c.clk k B o) :
    IsRunningSpec c.clk k B ps o (isRunningO c k ps o) := by
  unfold isRunningO
  by_cases hflag : (o.gone || o.reused) = true
  · rw [if_pos hflag]
    refine ⟨PsSame.refl _, Evolves.refl _, hok, ?_, ?_, ?_⟩
    · simp only [Bool.false_eq_true, false_iff]; exact hok.dead hflag
    · intro _; exact hflag
    · intro h; cases h
  · rw [if_neg hflag]
    simp only [Bool.or_eq_true, not_or, Bool.not_eq_true] at hflag
    cases hf : k.find o.pid with
    | none =>
      simp only [mkObj, hf]
      refine ⟨PsSame.refl _, ⟨rfl, rfl, rfl, rfl, fun _ => rfl, id⟩, { hok with dead := ?_ }, ?_, ?_, ?_⟩
      · intro _; simp [Kernel.owner, hf]
      · simp [Kernel.owner, hf]
      · intro _; rfl
      · intro h; cases h
    | some x =>
      simp only [mkObj, hf, bootForCreate_some hc hb hnz, isHidden_false hok.nohide, Bool.false_eq_true, if_false,
        hok.stamps x (List.mem_of_find?_eq_some hf)]
      by_cases hid : o.ident = some (x.start + c.clk * B)
      · rw [if_neg (by simpa using hid)]
        have hx : x.start = o.ghost := by
          have := hok.ident_eq; rw [hid] at this; simp only [Option.some.injEq] at this; omega
        refine ⟨PsSame.refl _, Evolves.refl _, hok, ?_, ?_, ?_⟩
        · simp [Kernel.owner, hf, hx]
        · intro h; cases h
        · intro _; rfl
      · rw [if_pos (by simpa using hid)]
        have hx : x.start ≠ o.ghost := by
          intro e; apply hid; rw [hok.ident_eq, e]
        refine ⟨⟨rfl, rfl, rfl⟩, ⟨rfl, rfl, rfl, rfl, fun _ => rfl, fun _ => rfl⟩,
          { hok with dead := ?_ }, ?_, ?_, ?_⟩
        · intro _; simp [Kernel.owner, hf, hx]
        · simp [Kernel.owner, hf, hx]
        · intro _; rfl
        · intro h; cases h

/-! ### `_raise_if_pid_reused()` -/

theorem raise_eq (c : Cfg) (k : Kernel) (ps : Ps) (o : PObj) :
    raiseIfPidReusedO c k ps o =
      if o.reused then (ps, o, true)
      else if !(isRunningO c k ps o).2.2 && (isRunningO c k ps o).2.1.reused then
        ((isRunningO c k ps o).1, (isRunningO c k ps o).2.1, true)
      else if c.goneRaises && (isRunningO c k ps o).2.1.gone then
        ((isRunningO c k ps o).1, (isRunningO c k ps o).2.1, true)
      else ((isRunningO c k ps o).1, (isRunningO c k ps o).2.1, false) := rfl

theorem signalM_eq (c : Cfg) (k : Kernel) (ps : Ps) (o : PObj) (m : SigMethod) :
    signalM c k ps o m =
      if (guardedO c c.guardSignal k ps o).2.2 then
        ⟨(guardedO c c.guardSignal k ps o).1, (guardedO c c.guardSignal k ps o).2.1, none, .exc (.noSuchProcess o.pid)⟩
      else if o.pid == 0 && c.pid0Refused then
        ⟨(guardedO c c.guardSignal k ps o).1, (guardedO c c.guardSignal k ps o).2.1, none, .exc .valueError⟩
      else
        match k.find o.pid with
        | none => ⟨(guardedO c c.guardSignal k ps o).1, { (guardedO c c.guardSignal k ps o).2.1 with gone := true },
                    none, .exc (.noSuchProcess o.pid)⟩
        | some x => ⟨(guardedO c c.guardSignal k ps o).1, (guardedO c c.guardSignal k ps o).2.1,
                    some (.kill, o.pid, [(sigOf c m : Int)], some x.start, k.refusal o.pid),
                    outOf o.pid (k.refusal o.pid)⟩ := rfl

theorem setterM_eq (c : Cfg) (k : Kernel) (ps : Ps) (o : PObj) (kind : SetKind) (args : List Int) :
    setterM c k ps o kind args =
      if (guardedO c (guardOf c kind) k ps o).2.2 then
        ⟨(guardedO c (guardOf c kind) k ps o).1, (guardedO c (guardOf c kind) k ps o).2.1, none,
          .exc (.noSuchProcess o.pid)⟩
      else
        match setterArgs c o.pid kind args with
        | none => ⟨(guardedO c (guardOf c kind) k ps o).1, (guardedO c (guardOf c kind) k ps o).2.1, none,
                    .exc .valueError⟩
        | some a =>
          match k.find o.pid with
          | none => ⟨(guardedO c (guardOf c kind) k ps o).1, (guardedO c (guardOf c kind) k ps o).2.1, none,
                      .exc (.noSuchProcess o.pid)⟩
          | some x => ⟨(guardedO c (guardOf c kind) k ps o).1, (guardedO c (guardOf c kind) k ps o).2.1,
                      some (.set kind, o.pid, a, some x.start, k.refusal o.pid), outOf o.pid (k.refusal o.pid)⟩ := rfl

theorem ppidM_eq (c : Cfg) (k : Kernel) (ps : Ps) (o : PObj) :
    ppidM c k ps o =
      if (guardedO c c.guardPpid k ps o).2.2 then
        ⟨(guardedO c c.guardPpid k ps o).1, (guardedO c c.guardPpid k ps o).2.1, none, .exc (.noSuchProcess o.pid)⟩
      else
        match k.find o.pid with
        | none => ⟨(guardedO c c.guardPpid k ps o).1, (guardedO c c.guardPpid k ps o).2.1, none,
                    .exc (.noSuchProcess o.pid)⟩
        | some _ => ⟨(guardedO c c.guardPpid k ps o).1, (guardedO c c.guardPpid k ps o).2.1, none,
                    if k.isHidden o.pid then .exc (.accessDenied o.pid) else .unit⟩ := rfl

/-- what every guard / method keeps -/
structure Keeps (clk : Nat) (k : Kernel) (B : Nat) (ps : Ps) (o : PObj) (ps' : Ps) (o' : PObj) : Prop where
  same : PsSame ps ps'
  evo : Evolves o o'
  ok : ObjOK clk k B o'

theorem raise_keeps {c : Cfg} (hc : c.BootGood) {k : Kernel} {ps : Ps} {B : Nat} {o : PObj}
    (hb : ps.bootTime = some B) (hnz : BtOK c.createNoneTest B) (hok : ObjOK c.clk k B o) :
    Keeps c.clk k B ps o (raiseIfPidReusedO c k ps o).1 (raiseIfPidReusedO c k ps o).2.1 := by
  have hs := isRunningO_spec hc hb hnz hok
  rw [raise_eq]
  by_cases hr : o.reused = true
  · rw [if_pos hr]; exact ⟨PsSame.refl _, Evolves.refl _, hok⟩
  · rw [if_neg hr]
    split
    · exact ⟨hs.same, hs.evo, hs.ok⟩
    · split <;> exact ⟨hs.same, hs.evo, hs.ok⟩

/-- with the `_gone` test in place, the guard lets exactly the live incarnation through -/
theorem raise_false_iff {c : Cfg} (hc : c.BootGood) (hg : c.goneRaises = true) {k : Kernel} {ps : Ps}
    {B : Nat} {o : PObj} (hb : ps.bootTime = some B) (hnz : BtOK c.createNoneTest B) (hok : ObjOK c.clk k B o) :
    (raiseIfPidReusedO c k ps o).2.2 = false ↔ k.owner o.pid = some o.ghost := by
  have hs := isRunningO_spec hc hb hnz hok
  rw [raise_eq]
  by_cases hr : o.reused = true
  · rw [if_pos hr]
    simp only [Bool.true_eq_false, false_iff]
    exact hok.dead (by simp [hr])
  · rw [if_neg hr]
    cases hrun : (isRunningO c k ps o).2.2 with
    | true =>
      have hkeep := hs.keep hrun
      have halive := hs.iff.1 hrun
      have hgone : o.gone = false := by
        cases hgo : o.gone with
        | false => rfl
        | true => exact absurd halive (hok.dead (by simp [hgo]))
      rw [hkeep]
      simp [hgone, halive]
    | false =>
      have hflag := hs.flag hrun
      have hdead : k.owner o.pid ≠ some o.ghost := fun h => by
        have := hs.iff.2 h; rw [hrun] at this; cases this
      cases hre : (isRunningO c k ps o).2.1.reused with
      | true => simp [hdead]
      | false =>
        have hgo : (isRunningO c k ps o).2.1.gone = true := by simpa [hre] using hflag
        simp [hgo, hg, hdead]

theorem guarded_keeps {c : Cfg} (hc : c.BootGood) (has : Bool) {k : Kernel} {ps : Ps} {B : Nat} {o : PObj}
    (hb : ps.bootTime = some B) (hnz : BtOK c.createNoneTest B) (hok : ObjOK c.clk k B o) :
    Keeps c.clk k B ps o (guardedO c has k ps o).1 (guardedO c has k ps o).2.1 := by
  unfold guardedO
  cases has with
  | true => simpa using raise_keeps hc hb hnz hok
  | false => exact ⟨PsSame.refl _, Evolves.refl _, hok⟩

theorem guarded_false_iff {c : Cfg} (hc : c.BootGood) (hg : c.goneRaises = true) {k : Kernel} {ps : Ps}
    {B : Nat} {o : PObj} (hb : ps.bootTime = some B) (hnz : BtOK c.createNoneTest B) (hok : ObjOK c.clk k B o) :
    (guardedO c true k ps o).2.2 = false ↔ k.owner o.pid = some o.ghost := by
  simpa [guardedO] using raise_false_iff hc hg hb hnz hok

/-! ### methods -/

theorem Keeps.setGone {clk : Nat} {k : Kernel} {B : Nat} {ps ps' : Ps} {o o' : PObj}
    (h : Keeps clk k B ps o ps' o') (hf : k.find o.pid = none) :
    Keeps clk k B ps o ps' { o' with gone := true } :=
  ⟨h.same, ⟨h.evo.pid, h.evo.ghost, h.evo.ident, h.evo.ctime, fun _ => rfl, h.evo.reused⟩,
   ⟨h.ok.ghost_lt, h.ok.ident_eq, h.ok.ctime_eq, fun _ => by
      show k.owner o'.pid ≠ some o'.ghost
      rw [h.evo.pid]; simp [Kernel.owner, hf], h.ok.nohide, h.ok.stamps⟩⟩

theorem signalM_keeps {c : Cfg} (hc : c.BootGood) {k : Kernel} {ps : Ps} {B : Nat} {o : PObj}
    (hb : ps.bootTime = some B) (hnz : BtOK c.createNoneTest B) (hok : ObjOK c.clk k B o) (m : SigMethod) :
    Keeps c.clk k B ps o (signalM c k ps o m).ps (signalM c k ps o m).o := by
  have hk := guarded_keeps hc c.guardSignal hb hnz hok
  rw [signalM_eq]
  split
  · exact hk
  · split
    · exact hk
    · split
      · rename_i hf; exact hk.setGone hf
      · exact hk

theorem setterM_keeps {c : Cfg} (hc : c.BootGood) {k : Kernel} {ps : Ps} {B : Nat} {o : PObj}
    (hb : ps.bootTime = some B) (hnz : BtOK c.createNoneTest B) (hok : ObjOK c.clk k B o) (kind : SetKind) (args : List Int) :
    Keeps c.clk k B ps o (setterM c k ps o kind args).ps (setterM c k ps o kind args).o := by
  have hk := guarded_keeps hc (guardOf c kind) hb hnz hok
  rw [setterM_eq]
  split
  · exact hk
  · split
    · exact hk
    · split <;> exact hk

theorem ppidM_keeps {c : Cfg} (hc : c.BootGood) {k : Kernel} {ps : Ps} {B : Nat} {o : PObj}
    (hb : ps.bootTime = some B) (hnz : BtOK c.createNoneTest B) (hok : ObjOK c.clk k B o) :
    Keeps c.clk k B ps o (ppidM c k ps o).ps (ppidM c k ps o).o := by
  have hk := guarded_keeps hc c.guardPpid hb hnz hok
  rw [ppidM_eq]
  split
  · exact hk
  · split <;> exact hk

theorem method_keeps {c : Cfg} (hc : c.BootGood) {k : Kernel} {ps : Ps} {B : Nat} {o : PObj}
    (hb : ps.bootTime = some B) (hnz : BtOK c.createNoneTest B) (hok : ObjOK c.clk k B o) {call : Call} {r : MRes}
    (hm : method c k ps o call = some r) : Keeps c.clk k B ps o r.ps r.o := by
  cases call <;> simp only [method, Option.some.injEq, reduceCtorEq] at hm
  · subst hm
    have hs := isRunningO_spec hc hb hnz hok
    exact ⟨hs.same, hs.evo, hs.ok⟩
  · subst hm; exact signalM_keeps hc hb hnz hok _
  · subst hm; exact setterM_keeps hc hb hnz hok _ _
  · subst hm; exact ppidM_keeps hc hb hnz hok
  · subst hm
    have hct : o.ctime = some (o.ghost + c.clk * B) := hok.ctime_eq.trans hok.ident_eq
    simp only [createTimeM, hct]
    exact ⟨PsSame.refl _, Evolves.refl _, hok⟩
  · subst hm; exact ⟨PsSame.refl _, Evolves.refl _, hok⟩

end Psutil.C01
