/-
  Proofs/C13Round.lean — from the rendered file to the splitter: every rendered line is free of
  newlines and starts with a non-blank, so `read().strip().split(b'\n')` gives the lines back.
-/
import PsutilModel.Proofs.C13Maps
namespace Psutil.C13
open Psutil Psutil.C13.Spec

/-- a line the file-level `strip()`/`split('\n')` cannot damage -/
def LineOK (l : Bytes) : Prop := 10 ∉ l ∧ ∃ c t, l = c :: t ∧ isWs c = false

theorem noNL_of_noWs {t : Bytes} (h : NoWs t) : 10 ∉ t := by
  intro hm
  have := h 10 hm
  simp [isWs] at this

theorem not_mem_of_contains_false {p : Bytes} (h : p.contains 10 = false) : 10 ∉ p := by
  intro hm
  have : p.contains 10 = true := by simpa using hm
  rw [h] at this
  exact Bool.noConfusion this

theorem mem_shownName {c : Nat} {p : Bytes} {d : Bool} (h : c ∈ shownName p d) :
    c ∈ p ∨ c ∈ deletedMarker := by
  cases d
  · left; simpa [shownName] using h
  · simpa [shownName] using h

theorem tok_head {t : Bytes} (h : Tok t) : ∃ c r, t = c :: r ∧ isWs c = false := by
  cases t with
  | nil => exact absurd rfl h.1
  | cons c r => exact ⟨c, r, rfl, h.2 c (by simp)⟩

theorem rstripWs_ne_of_head (c : Nat) (t : Bytes) (h : isWs c = false) : rstripWs (c :: t) ≠ [] := by
  unfold rstripWs
  rw [List.reverse_cons, lstripWs_snoc_nonws _ c h]
  simp

theorem lineOK_kvLine (e : KV) (hk : wfKey e.key = true) : LineOK (kvLine e) := by
  obtain ⟨htok, _⟩ := wfKey_tok hk
  refine ⟨?_, ?_⟩
  · unfold kvLine
    intro hm
    simp only [List.mem_append, List.mem_replicate] at hm
    rcases hm with ((hm | hm) | hm) | hm
    · exact noNL_of_noWs htok.2 (List.mem_append.mpr hm)
    · omega
    · exact noNL_of_noWs (renderDec_noWs e.val) hm
    · cases e.kb <;> simp [unitKb] at hm
  · obtain ⟨c, r, hcr, hc⟩ := tok_head htok
    refine ⟨c, r ++ (List.replicate (gap e.key (renderDec e.val).length) 32 ++ renderDec e.val
      ++ (if e.kb then unitKb else [])), ?_, hc⟩
    unfold kvLine
    rw [hcr]
    simp

theorem lineOK_flagsLine (fs : List Bytes) (hw : wfFlags fs = true) : LineOK (flagsLine fs) := by
  obtain ⟨_, hall⟩ := wfFlags_spec hw
  refine ⟨?_, ⟨86, [109, 70, 108, 97, 103, 115, 58] ++ [32] ++ fs.flatMap (· ++ [32]), by simp [flagsLine, vmFlagsLabel], by decide⟩⟩
  unfold flagsLine
  intro hm
  simp only [List.mem_append, List.mem_flatMap, List.mem_singleton] at hm
  rcases hm with (hm | hm) | ⟨f, hf, hm | hm⟩
  · exact noNL_of_noWs label_tok.2 hm
  · omega
  · exact noNL_of_noWs (hall f hf).1.2 hm
  · omega

theorem lineOK_headerLine (m : Mapping)
    (hp : ∀ p, m.path = some p → p.contains 10 = false) : LineOK (headerLine m) := by
  have hcore : 10 ∉ headerCore m := by
    unfold headerCore
    intro hm
    simp only [List.mem_append, List.mem_singleton] at hm
    rcases hm with (((((((hm | hm) | hm) | hm) | hm) | hm) | hm) | hm) | hm
    · exact noNL_of_noWs (addr_tok m).2 hm
    · omega
    · exact noNL_of_noWs (perms_tok m).2 hm
    · omega
    · exact noNL_of_noWs (hexPad_tok 8 m.off).2 hm
    · omega
    · exact noNL_of_noWs (dev_tok m).2 hm
    · omega
    · exact noNL_of_noWs (renderDec_noWs m.ino) hm
  refine ⟨?_, ?_⟩
  · unfold headerLine
    cases hpath : m.path with
    | none =>
      simp only
      intro hm
      simp only [List.mem_append, List.mem_singleton] at hm
      rcases hm with hm | hm
      · exact hcore hm
      · omega
    | some p =>
      simp only
      intro hm
      simp only [List.mem_append, List.mem_singleton, List.mem_replicate] at hm
      rcases hm with (((hm | hm) | hm) | hm) | hm
      · exact hcore hm
      · omega
      · omega
      · omega
      · have hpn := hp p hpath
        rcases mem_shownName hm with h | h
        · exact not_mem_of_contains_false hpn h
        · simp [deletedMarker] at h
  · obtain ⟨c, r, hcr, hc⟩ := tok_head (hexPad_tok 8 m.lo)
    unfold headerLine headerCore addrStr
    rw [hcr]
    cases m.path with
    | none => exact ⟨c, _, by simp; rfl, hc⟩
    | some p => exact ⟨c, _, by simp; rfl, hc⟩

theorem wfPath_noNL {strips : Bool} {p : Bytes} {deleted : Bool} (h : wfPath strips p deleted = true) :
    p.contains 10 = false := by
  unfold wfPath at h
  cases p with
  | nil => simp at h
  | cons c t =>
    simp only [Bool.and_eq_true, Bool.not_eq_true'] at h
    exact h.1.2

theorem lineOK_mapping {strips : Bool} {K : List Bytes} (m : Mapping) (hw : WfM strips K m) :
    ∀ l ∈ mappingLines m, LineOK l := by
  intro l hl
  unfold mappingLines at hl
  simp only [List.mem_cons, List.mem_append, List.mem_map] at hl
  rcases hl with hl | ⟨e, he, hl⟩ | hl
  · rw [hl]; exact lineOK_headerLine m (fun p hp => wfPath_noNL (hw.path p hp))
  · rw [← hl]; exact lineOK_kvLine e (wfKV_key (hw.kv e he))
  · cases hf : m.flags with
    | none => simp [hf] at hl
    | some fs =>
      simp only [hf, List.mem_singleton] at hl
      rw [hl]; exact lineOK_flagsLine fs (hw.flags fs hf)

/-- `_read_smaps_file().split(b'\n')` on a rendered file: the lines, the last one right-stripped -/
theorem smaps_lines {strips : Bool} (K : List Bytes) (hK : K ≠ []) (m : Mapping) (ms : List Mapping)
    (hw : ∀ x ∈ m :: ms, WfM strips K x) :
    (readSmaps (renderSmaps (m :: ms))).isEmpty = false
      ∧ splitOn 10 (readSmaps (renderSmaps (m :: ms))) = headerLine m :: restLines m ms := by
  have hlines : ∀ l ∈ (m :: ms).flatMap mappingLines, LineOK l := by
    intro l hl
    obtain ⟨x, hx, hlx⟩ := List.mem_flatMap.mp hl
    exact lineOK_mapping x (hw x hx) l hlx
  have hkv : ∀ x ∈ m :: ms, x.kv ≠ [] := by
    intro x hx h
    have := (hw x hx).keys
    rw [h] at this
    exact hK this.symm
  have hfl : ∀ x ∈ m :: ms, ∀ fs, x.flags = some fs → wfFlags fs = true := fun x hx => (hw x hx).flags
  have hne : (m :: ms).flatMap mappingLines ≠ [] := by
    simp [List.flatMap_cons, mappingLines_eq]
  have hlast : ∀ l, ((m :: ms).flatMap mappingLines).getLast? = some l → rstripWs l ≠ [] := by
    intro l hl
    obtain ⟨_, c0, t, hct, hc0⟩ := hlines l (List.mem_of_getLast? hl)
    rw [hct]; exact rstripWs_ne_of_head c0 t hc0
  have hsplit := splitOn_rstrip_unlines _ hne (fun l hl => (hlines l hl).1) hlast
  have hnonempty := rstripWs_unlines_ne _ hne hlast
  -- the file starts with a non-blank
  obtain ⟨_, c0, t0, hct0, hc0⟩ := hlines (headerLine m) (by simp [List.flatMap_cons, mappingLines_eq])
  have hfile : ∃ t, unlines ((m :: ms).flatMap mappingLines) = c0 :: t := by
    rw [List.flatMap_cons, mappingLines_eq, List.cons_append, unlines_cons, hct0]
    exact ⟨_, rfl⟩
  obtain ⟨tf, htf⟩ := hfile
  unfold readSmaps renderSmaps
  rw [htf, stripWs_of_head_nonws c0 tf hc0, ← htf]
  have hemp : (rstripWs (unlines ((m :: ms).flatMap mappingLines))).isEmpty = false := by
    cases h : rstripWs (unlines ((m :: ms).flatMap mappingLines)) with
    | nil => exact absurd h hnonempty
    | cons a b => rfl
  exact ⟨hemp, by rw [hsplit, modLast_lines m ms hkv hfl]⟩

/-- `memory_maps` on a rendered file = the splitter on the lines (last one right-stripped) -/
theorem memoryMaps_eq_blocks (c : Cfg) (probe : Bytes → Probe) (zombie : Bool) {strips : Bool}
    (K : List Bytes) (hK : K ≠ []) (m : Mapping) (ms : List Mapping)
    (hw : ∀ x ∈ m :: ms, WfM strips K x) :
    memoryMaps c probe zombie (renderSmaps (m :: ms))
      = blocks c probe (restLines m ms) (headerLine m) [] := by
  obtain ⟨hemp, hsplit⟩ := smaps_lines K hK m ms hw
  unfold memoryMaps
  simp only [hemp, Bool.false_eq_true, if_false, hsplit]

end Psutil.C13
