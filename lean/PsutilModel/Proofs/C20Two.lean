/-
  Proofs/C20Two.lean — the table behind `C20_two_faults_within_spec` (kept out of Props so that
  each file builds in well under a minute).
-/
import PsutilModel.Proofs.C20Faults
namespace Psutil.C20

/-- second faulted call of a method that went on in `mode` after `call1`: outcome within the
    specification's allowed set for a failure of `call2` -/
def secondOK (p : Platform) (m : Method) (mode : Mode) (call1 call2 : String) (e2 : Err) (env : Env) : Bool :=
  Spec.allowed p m.name (Spec.recoverable p m.name call2) e2 env (second cfg p m mode call1 call2 e2 env).1
    || zombieDeviation p e2 env (second cfg p m mode call1 call2 e2 env).1

def row2OK (p : Platform) (row : String × Nat × String × String × List String) : Bool :=
  match methodOf? p row.1, Mode.ofTag? row.2.2.2.1 with
  | some m, some mode =>
    row.2.2.2.2.all fun call2 => (sweptErrs p).all fun e2 => (sweptEnvs row.2.1).all fun env =>
      secondOK p m mode row.2.2.1 call2 e2 env
  | _, _ => false

theorem two_faults_table : ∀ p ∈ Platform.all, ∀ row ∈ traces2Of p, row2OK p row = true := by
  decide +kernel

end Psutil.C20
