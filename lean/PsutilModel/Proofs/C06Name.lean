/- Proofs/C06Name.lean — helper lemmas of the audit-driven round: the public `Process.name()`,
   rounding of the tick quotients, call histories of create_time()/boot_time(), Python's string order. -/
import PsutilModel.Proofs.C06Ext
import Mathlib.Tactic.Ring
import Mathlib.Tactic.Linarith
import Mathlib.Tactic.Positivity
import Mathlib.Algebra.Order.AbsoluteValue.Basic
namespace Psutil.C06
open Spec

/-! ## `os.path.basename` of a rendered path -/

theorem pyBasename_render (p : ExePath) (h : p.WF) : pyBasename p.render = p.base := by
  unfold pyBasename ExePath.render
  cases hd : p.dir with
  | none =>
    simp only [pyRfind, rfindIdx?_none 47 p.base h, pyFrom]
    have : pyIdx p.base.length ((-1 : Int) + 1) = 0 := by simp [pyIdx]
    rw [this]; rfl
  | some d =>
    have e : d ++ [47] ++ p.base = d ++ 47 :: p.base := by simp
    simp only [e, pyRfind_last 47 d p.base h, pyFrom, pyIdx_ofNat_add_one]
    have hle : d.length + 1 ≤ (d ++ 47 :: p.base).length := by simp
    rw [Nat.min_eq_left hle]
    have e2 : d ++ 47 :: p.base = (d ++ [47]) ++ p.base := by simp
    rw [e2, List.drop_left' (by simp)]

theorem publicName_spec (x : XCfg) (hx : x.GoodBase) (comm : Bytes) (arg0 : Option ExePath)
    (hp : ∀ p, arg0 = some p → p.WF) :
    publicName x comm (arg0.map ExePath.render) = Spec.publicName comm arg0 := by
  unfold publicName Spec.publicName
  rw [hx.nameExtendMin, hx.nameExtendChecksPrefix]
  cases arg0 with
  | none => simp
  | some p =>
    simp only [Option.map_some, pyBasename_render p (hp p rfl), Bool.not_true, Bool.false_or,
      List.isPrefixOf_iff_prefix]
    by_cases h1 : commMax ≤ comm.length <;> by_cases h2 : comm <+: p.base <;> simp [h1, h2]

/-! ## rounding: two correctly rounded operations -/

/-- `q(1+δ₁)(1+δ₂)` is within `(2u + u²)·q` of `q` when `|δᵢ| ≤ u` -/
theorem two_roundings (q u d1 d2 : Rat) (hq : 0 ≤ q) (h1 : |d1| ≤ u) (h2 : |d2| ≤ u) :
    |q * (1 + d1) * (1 + d2) - q| ≤ (2 * u + u * u) * q := by
  have hu : 0 ≤ u := le_trans (abs_nonneg d1) h1
  have e : q * (1 + d1) * (1 + d2) - q = q * (d1 + d2 + d1 * d2) := by ring
  rw [e, abs_mul, abs_of_nonneg hq, mul_comm]
  apply mul_le_mul_of_nonneg_right _ hq
  calc |d1 + d2 + d1 * d2| ≤ |d1 + d2| + |d1 * d2| := abs_add_le _ _
    _ ≤ (|d1| + |d2|) + |d1| * |d2| := by rw [abs_mul]; linarith [abs_add_le d1 d2]
    _ ≤ (u + u) + u * u := by
        have := mul_le_mul h1 h2 (abs_nonneg d2) hu
        linarith
    _ = 2 * u + u * u := by ring

/-- `fl(fl(ticks) / tck)`: the integer token converted to a double (relative error δ₁), then one
    correctly rounded division (δ₂) -/
theorem tick_quotient_rounding (ticks tck : Nat) (u d1 d2 : Rat) (h1 : |d1| ≤ u) (h2 : |d2| ≤ u) :
    |(ticks : Rat) * (1 + d1) / tck * (1 + d2) - (ticks : Rat) / tck|
      ≤ (2 * u + u * u) * ((ticks : Rat) / tck) := by
  have e : (ticks : Rat) * (1 + d1) / tck * (1 + d2) = (ticks : Rat) / tck * (1 + d1) * (1 + d2) := by ring
  rw [e]
  exact two_roundings _ u d1 d2 (div_nonneg (Nat.cast_nonneg _) (Nat.cast_nonneg _)) h1 h2

/-- `fl(fl(fl(start) / tck) + bt)` with `bt` exactly representable: three roundings -/
theorem create_time_rounding (start tck : Nat) (b u d1 d2 d3 : Rat) (hb : 0 ≤ b)
    (h1 : |d1| ≤ u) (h2 : |d2| ≤ u) (h3 : |d3| ≤ u) :
    |((start : Rat) * (1 + d1) / tck * (1 + d2) + b) * (1 + d3) - ((start : Rat) / tck + b)|
      ≤ (3 * u + 3 * (u * u) + u * u * u) * ((start : Rat) / tck + b) := by
  have hu : 0 ≤ u := le_trans (abs_nonneg d1) h1
  have hq : (0 : Rat) ≤ (start : Rat) / tck := div_nonneg (Nat.cast_nonneg _) (Nat.cast_nonneg _)
  have he := tick_quotient_rounding start tck u d1 d2 h1 h2
  generalize hE : (start : Rat) * (1 + d1) / tck * (1 + d2) - (start : Rat) / tck = e at he
  generalize (start : Rat) / tck = q at *
  have e1 : (start : Rat) * (1 + d1) / tck * (1 + d2) = q + e := by rw [← hE]; ring
  rw [e1]
  have e2 : (q + e + b) * (1 + d3) - (q + b) = e * (1 + d3) + (q + b) * d3 := by ring
  rw [e2]
  have a1 : |e * (1 + d3)| ≤ (2 * u + u * u) * q * (1 + u) := by
    rw [abs_mul]
    have : |1 + d3| ≤ 1 + u := (abs_add_le 1 d3).trans (by rw [abs_one]; linarith)
    exact mul_le_mul he this (abs_nonneg _) (by positivity)
  have a2 : |(q + b) * d3| ≤ (q + b) * u := by
    rw [abs_mul, abs_of_nonneg (by linarith : 0 ≤ q + b)]
    exact mul_le_mul_of_nonneg_left h3 (by linarith)
  have hub : 0 ≤ u * b := mul_nonneg hu hb
  have huub : 0 ≤ u * u * b := mul_nonneg (mul_nonneg hu hu) hb
  have huuub : 0 ≤ u * u * u * b := mul_nonneg (mul_nonneg (mul_nonneg hu hu) hu) hb
  calc |e * (1 + d3) + (q + b) * d3| ≤ |e * (1 + d3)| + |(q + b) * d3| := abs_add_le _ _
    _ ≤ (2 * u + u * u) * q * (1 + u) + (q + b) * u := add_le_add a1 a2
    _ ≤ (3 * u + 3 * (u * u) + u * u * u) * (q + b) := by nlinarith [hub, huub, huuub]

/-! ## Python's `<=` on ASCII strings is the lexicographic order of the code points -/

theorem strLE_iff_not_lex : ∀ a b : Bytes, Spec.strLE a b = true ↔ ¬ List.Lex (· < ·) b a := by
  intro a
  induction a with
  | nil => intro b; simp only [Spec.strLE, true_iff]; intro h; cases h
  | cons x xs ih =>
    intro b
    cases b with
    | nil => simp only [Spec.strLE, Bool.false_eq_true, false_iff, not_not]; exact List.Lex.nil
    | cons y ys =>
      simp only [Spec.strLE, Bool.or_eq_true, decide_eq_true_eq, Bool.and_eq_true, beq_iff_eq, ih ys]
      constructor
      · rintro (h | ⟨h, h'⟩) hl
        · cases hl with
          | rel hr => omega
          | cons hc => omega
        · cases hl with
          | rel hr => omega
          | cons hc => exact h' hc
      · intro hn
        by_cases hxy : x < y
        · exact Or.inl hxy
        · by_cases he : x = y
          · refine Or.inr ⟨he, fun hl => hn ?_⟩
            subst he; exact List.Lex.cons hl
          · exact absurd (List.Lex.rel (by omega)) hn

end Psutil.C06
