/-
  Proofs/C08Arith.lean — arithmetic behind C08: the float computation of the fallback estimate
  (done by the model in half-byte units) equals the kernel formula in exact rationals, including
  `int()` truncation of a negative value; `usage_percent` rounds the exact quotient.
-/
import Mathlib.Tactic.Linarith
import Mathlib.Algebra.Order.Field.Rat
import Mathlib.Data.Rat.Floor
import Mathlib.Tactic.Ring
import Mathlib.Tactic.NormNum
import PsutilModel.Proofs.C08
namespace Psutil.C08
open Spec

theorem truncRat_half (n : Int) : truncRat ((n : ℚ) / 2) = Int.tdiv n 2 := by
  unfold truncRat
  have hfl : ∀ m : Int, ((m : ℚ) / 2).floor = m / 2 := by
    intro m
    have h := Rat.floor_intCast_div_natCast m 2
    have e : ((m : ℚ) / 2).floor = ⌊(m : ℚ) / 2⌋ := rfl
    rw [e]
    simpa using h
  by_cases h : 0 ≤ n
  · have h' : (0 : ℚ) ≤ (n : ℚ) / 2 := by
      have : (0 : ℚ) ≤ n := by exact_mod_cast h
      linarith
    rw [if_pos h', hfl, Int.tdiv_eq_ediv_of_nonneg h]
  · have h' : ¬ (0 : ℚ) ≤ (n : ℚ) / 2 := by
      have : (n : ℚ) < 0 := by exact_mod_cast (not_le.mp h)
      intro hc; linarith
    rw [if_neg h']
    have : -((n : ℚ) / 2) = ((-n : ℤ) : ℚ) / 2 := by push_cast; ring
    rw [this, hfl, Int.tdiv_eq_ediv]
    have hs : (2 : Int).sign = 1 := rfl
    rw [hs]
    split <;> omega

theorem min_half (a w : ℕ) : min ((a : ℚ) / 2) (w : ℚ) = ((min a (2 * w) : ℕ) : ℚ) / 2 := by
  rcases le_total a (2 * w) with h | h
  · have hq : (a : ℚ) / 2 ≤ w := by
      have : (a : ℚ) ≤ 2 * w := by exact_mod_cast h
      linarith
    rw [min_eq_left hq, Nat.min_eq_left h]
  · have hq : (w : ℚ) ≤ (a : ℚ) / 2 := by
      have : (2 * w : ℚ) ≤ a := by exact_mod_cast h
      linarith
    rw [min_eq_right hq, Nat.min_eq_right h]
    push_cast; ring

theorem kernelEstimate_halves (free wm af inf sr : ℕ) :
    kernelEstimate free wm af inf sr = ((availHalves free wm (af + inf) sr : ℤ) : ℚ) / 2 := by
  unfold kernelEstimate availHalves
  have h1 := min_half (af + inf) wm
  have h2 := min_half sr wm
  push_cast at h1 h2 ⊢
  simp only [h1, h2]
  ring

theorem calc_trunc (free wm af inf sr : ℕ) :
    Int.tdiv (availHalves free wm (af + inf) sr) 2 = truncRat (kernelEstimate free wm af inf sr) := by
  rw [kernelEstimate_halves, truncRat_half]


/-! ### usage_percent -/

theorem rhe_cases (n : ℤ) (d : ℕ) :
    (roundHalfEvenDiv n d = n / (d : ℤ) ∧ 2 * (n % (d : ℤ)) ≤ d)
    ∨ (roundHalfEvenDiv n d = n / (d : ℤ) + 1 ∧ (d : ℤ) ≤ 2 * (n % (d : ℤ))) := by
  unfold roundHalfEvenDiv
  simp only
  split
  · left; exact ⟨rfl, by omega⟩
  · split
    · right; exact ⟨rfl, by omega⟩
    · split
      · left; exact ⟨rfl, by omega⟩
      · right; exact ⟨rfl, by omega⟩

theorem rhe_close (n : ℤ) (d : ℕ) (hd : 0 < d) :
    (roundHalfEvenDiv n d : ℚ) - (n : ℚ) / d ≤ 1 / 2 ∧ (n : ℚ) / d - (roundHalfEvenDiv n d : ℚ) ≤ 1 / 2 := by
  have hdz : (0 : ℤ) < d := by exact_mod_cast hd
  have hdq : (0 : ℚ) < d := by exact_mod_cast hd
  have hdiv : (d : ℤ) * (n / d) + n % d = n := Int.mul_ediv_add_emod n d
  have hr0 : 0 ≤ n % (d : ℤ) := Int.emod_nonneg _ (ne_of_gt hdz)
  have hr1 : n % (d : ℤ) < d := Int.emod_lt_of_pos _ hdz
  have hq : (n : ℚ) / d = ((n / (d : ℤ) : ℤ) : ℚ) + ((n % (d : ℤ) : ℤ) : ℚ) / d := by
    have : (n : ℚ) = (d : ℚ) * ((n / (d : ℤ) : ℤ) : ℚ) + ((n % (d : ℤ) : ℤ) : ℚ) := by exact_mod_cast hdiv.symm
    rw [this]
    field_simp
  have hr0q : (0 : ℚ) ≤ ((n % (d : ℤ) : ℤ) : ℚ) / d := by
    apply div_nonneg _ hdq.le
    exact_mod_cast hr0
  have hr1q : ((n % (d : ℤ) : ℤ) : ℚ) / d ≤ 1 := by
    rw [div_le_one hdq]
    exact_mod_cast hr1.le
  rcases rhe_cases n d with ⟨he, hle⟩ | ⟨he, hle⟩
  · have : ((n % (d : ℤ) : ℤ) : ℚ) / d ≤ 1 / 2 := by
      rw [div_le_iff₀ hdq]
      have : (2 : ℚ) * ((n % (d : ℤ) : ℤ) : ℚ) ≤ d := by exact_mod_cast hle
      linarith
    rw [he, hq]
    constructor <;> linarith
  · have : (1 : ℚ) / 2 ≤ ((n % (d : ℤ) : ℤ) : ℚ) / d := by
      rw [le_div_iff₀ hdq]
      have : (d : ℚ) ≤ 2 * ((n % (d : ℤ) : ℤ) : ℚ) := by exact_mod_cast hle
      linarith
    rw [he, hq]
    push_cast
    constructor <;> linarith

theorem rhe_range (n : ℤ) (d : ℕ) (S : ℤ) (hd : 0 < d) (h0 : 0 ≤ n) (h1 : n ≤ S * d) :
    0 ≤ roundHalfEvenDiv n d ∧ roundHalfEvenDiv n d ≤ S := by
  have hdz : (0 : ℤ) < d := by exact_mod_cast hd
  have hdiv : (d : ℤ) * (n / d) + n % d = n := Int.mul_ediv_add_emod n d
  have hr0 : 0 ≤ n % (d : ℤ) := Int.emod_nonneg _ (ne_of_gt hdz)
  have hr1 : n % (d : ℤ) < d := Int.emod_lt_of_pos _ hdz
  have hq0 : 0 ≤ n / (d : ℤ) := Int.ediv_nonneg h0 hdz.le
  have hqS : n / (d : ℤ) ≤ S := Int.ediv_le_of_le_mul hdz h1
  rcases rhe_cases n d with ⟨he, hle⟩ | ⟨he, hle⟩
  · rw [he]; exact ⟨hq0, hqS⟩
  · rw [he]
    refine ⟨by omega, ?_⟩
    by_contra hc
    have hqeq : n / (d : ℤ) = S := by omega
    rw [hqeq] at hdiv
    have : n % (d : ℤ) ≤ 0 := by nlinarith
    omega

/-- `usage_percent(used, total, round_=1)` is the exact quotient rounded to one decimal -/
theorem usagePercent_isRound1 (used : ℤ) (total : ℕ) :
    IsRound1 (if total = 0 then 0 else (used : ℚ) / total * 100)
      ((usagePercentScaled 100 used total 1 : ℤ) / 10) := by
  unfold usagePercentScaled
  by_cases ht : total = 0
  · simp only [ht, if_true]
    exact ⟨⟨0, by simp⟩, by norm_num, by norm_num⟩
  · simp only [ht, if_false]
    have hd : 0 < total := Nat.pos_of_ne_zero ht
    have hdq : (0 : ℚ) < total := by exact_mod_cast hd
    obtain ⟨h1, h2⟩ := rhe_close (used * (100 : ℕ) * 10 ^ 1) total hd
    have he : (((used * (100 : ℕ) * 10 ^ 1 : ℤ)) : ℚ) / total = (used : ℚ) / total * 100 * 10 := by
      push_cast; ring
    rw [he] at h1 h2
    refine ⟨⟨_, rfl⟩, ?_, ?_⟩ <;> linarith

theorem usagePercent_range (used : ℤ) (total : ℕ) (h0 : 0 ≤ used) (h1 : used ≤ total) :
    0 ≤ usagePercentScaled 100 used total 1 ∧ usagePercentScaled 100 used total 1 ≤ 1000 := by
  unfold usagePercentScaled
  by_cases ht : total = 0
  · simp [ht]
  · simp only [ht, if_false]
    have hd : 0 < total := Nat.pos_of_ne_zero ht
    apply rhe_range _ _ 1000 hd
    · positivity
    · have : used * ((100 : ℕ) : ℤ) * 10 ^ 1 = 1000 * used := by push_cast; ring
      rw [this]; nlinarith

end Psutil.C08
