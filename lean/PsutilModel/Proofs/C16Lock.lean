/-
  Proofs/C16Lock.lean — the lock / nesting-test protocol of `oneshot()` in the small-step model:
  only the lock owner touches the `_cache` attribute, so when the lock is free the attribute is
  absent, two threads are never inside blocks at once, and a (non-nested) enter never takes the
  "already inside" branch of `hasattr(self, "_cache")` because of another thread's cache.
-/
import PsutilModel.Model.C16Conc
namespace Psutil.C16.Conc

def special : PC → Bool
  | .test | .act _ | .deact _ | .release => true
  | _ => false

def ownerish (t : Thread) : Bool := t.mode != .out || special t.pc

/-- what the lock owner's thread looks like, depending on where it stands -/
def OwnerOK (c : CCfg) (attr : Option Nat) (t : Thread) : Prop :=
  match t.pc with
  | .test => attr = none ∧ t.mode = .out
  | .act _ => t.mode = .out
  | .deact k => t.mode = .inReal ∧ (k < c.nDeact → attr = none)
  | .release => attr = none ∧ t.mode = .inReal
  | _ => t.mode = .inReal

structure LInv (c : CCfg) (lock attr : Option Nat) (thr : Nat → Thread) : Prop where
  own : ∀ i, ownerish (thr i) = true → lock = some i
  free : lock = none → attr = none
  ownerPc : ∀ i, lock = some i → OwnerOK c attr (thr i)
  noNoop : ∀ i, (thr i).mode ≠ .inNoop

def upd (thr : Nat → Thread) (tid : Nat) (t : Thread) : Nat → Thread := fun i => if i = tid then t else thr i

theorem upd_same (thr : Nat → Thread) (tid : Nat) (t : Thread) : upd thr tid t tid = t := by simp [upd]
theorem upd_other (thr : Nat → Thread) {tid i : Nat} (t : Thread) (h : i ≠ tid) : upd thr tid t i = thr i := by
  simp [upd, h]

theorem ownerOK_plain {c : CCfg} {attr : Option Nat} {pc : PC} {m : Mode} (h : special pc = false) :
    OwnerOK c attr ⟨pc, m⟩ ↔ m = .inReal := by
  cases pc <;> simp_all [OwnerOK, special]

/-- a step between two non-special pcs that keeps the thread's mode and the globals -/
theorem linv_move {c : CCfg} {lock attr : Option Nat} {thr : Nat → Thread} (tid : Nat) (pc' : PC)
    (h : LInv c lock attr thr) (hpc : special (thr tid).pc = false) (hpc' : special pc' = false) :
    LInv c lock attr (upd thr tid { thr tid with pc := pc' }) := by
  refine ⟨fun i hi => ?_, h.free, fun i hi => ?_, fun i => ?_⟩
  · by_cases e : i = tid
    · subst e
      rw [upd_same] at hi
      apply h.own
      simp only [ownerish, hpc', Bool.or_false] at hi
      simp [ownerish, hi]
    · rw [upd_other _ _ e] at hi; exact h.own i hi
  · by_cases e : i = tid
    · subst e
      rw [upd_same]
      have := h.ownerPc i hi
      have e1 : thr i = ⟨(thr i).pc, (thr i).mode⟩ := rfl
      rw [e1, ownerOK_plain hpc] at this
      exact (ownerOK_plain hpc').mpr this
    · rw [upd_other _ _ e]; exact h.ownerPc i hi
  · by_cases e : i = tid
    · subst e; rw [upd_same]; exact h.noNoop i
    · rw [upd_other _ _ e]; exact h.noNoop i

/-- generic re-assembly when thread `tid` (the owner after the step, or nobody) is replaced -/
theorem linv_owner_step {c : CCfg} {lock attr attr' : Option Nat} {thr : Nat → Thread} (tid : Nat) (t' : Thread)
    (h : LInv c lock attr thr) (hl : lock = some tid) (hok : OwnerOK c attr' t') (hm : t'.mode ≠ .inNoop) :
    LInv c (some tid) attr' (upd thr tid t') := by
  refine ⟨fun i hi => ?_, (fun hn => by cases hn), fun i hi => ?_, fun i => ?_⟩
  · by_cases e : i = tid
    · rw [e]
    · rw [upd_other _ _ e] at hi
      have := h.own i hi
      rw [hl] at this; exact this
  · simp only [Option.some.injEq] at hi
    subst hi
    rw [upd_same]; exact hok
  · by_cases e : i = tid
    · subst e; rw [upd_same]; exact hm
    · rw [upd_other _ _ e]; exact h.noNoop i

def St.linv (c : CCfg) (s : St) : Prop := LInv c s.lock s.attr s.thr

theorem setPc_thr (s : St) (tid : Nat) (pc : PC) :
    (setPc s tid pc).thr = upd s.thr tid { s.thr tid with pc := pc } := rfl
theorem setThr_thr (s : St) (tid : Nat) (t : Thread) : (setThr s tid t).thr = upd s.thr tid t := rfl

theorem tstep_linv {c : CCfg} (hnd : 1 ≤ c.nDeact) {s s1 : St} (tid : Nat) (ch : Choice)
    (hI : s.linv c) (h : tstep c s tid ch = some s1) : s1.linv c := by
  unfold St.linv at hI ⊢
  unfold tstep at h
  split at h
  · -- idle, call
    rename_i f hpc
    simp only [Option.some.injEq] at h; subst h
    exact linv_move tid _ hI (by rw [hpc]; rfl) rfl
  · -- idle, acquire
    rename_i hpc
    split at h
    · rename_i hc
      obtain ⟨hm, hl⟩ := hc
      simp only [Option.some.injEq] at h; subst h
      show LInv c (some tid) s.attr (upd s.thr tid { s.thr tid with pc := .test })
      refine ⟨fun i hi => ?_, (fun hn => by cases hn), fun i hi => ?_, fun i => ?_⟩
      · by_cases e : i = tid
        · rw [e]
        · rw [upd_other _ _ e] at hi
          have := hI.own i hi
          rw [hl] at this; cases this
      · simp only [Option.some.injEq] at hi
        subst hi
        rw [upd_same]
        exact ⟨hI.free hl, hm⟩
      · by_cases e : i = tid
        · subst e; rw [upd_same]; exact hI.noNoop i
        · rw [upd_other _ _ e]; exact hI.noNoop i
    · simp at h
  · -- idle, beginExit
    rename_i hpc
    split at h
    · rename_i hm
      simp only [Option.some.injEq] at h; subst h
      have hl : s.lock = some tid := hI.own tid (by simp [ownerish, hm])
      have := linv_owner_step (attr' := s.attr) tid { s.thr tid with pc := .deact c.nDeact } hI hl
        (by simp only [OwnerOK]; exact ⟨hm, fun hk => absurd hk (Nat.lt_irrefl _)⟩) (by simp [hm])
      show LInv c s.lock s.attr (upd s.thr tid { s.thr tid with pc := .deact c.nDeact })
      rw [hl]; exact this
    · rename_i hm
      exact absurd hm (hI.noNoop tid)
    · simp at h
  · -- test
    rename_i hpc
    have hl : s.lock = some tid := hI.own tid (by simp [ownerish, hpc, special])
    have hok := hI.ownerPc tid hl
    have e1 : s.thr tid = ⟨(s.thr tid).pc, (s.thr tid).mode⟩ := rfl
    rw [e1, hpc] at hok
    simp only [OwnerOK] at hok
    split at h
    · rename_i d hd
      rw [hok.1] at hd; cases hd
    · simp only [Option.some.injEq] at h; subst h
      have := linv_owner_step (attr' := s.attr) tid { s.thr tid with pc := .act c.nAct } hI hl
        (by simp only [OwnerOK]; exact hok.2) (by simp [hok.2])
      show LInv c s.lock s.attr (upd s.thr tid { s.thr tid with pc := .act c.nAct })
      rw [hl]; exact this
  · -- act (k+1)
    rename_i k hpc
    have hl : s.lock = some tid := hI.own tid (by simp [ownerish, hpc, special])
    have hok := hI.ownerPc tid hl
    have e1 : s.thr tid = ⟨(s.thr tid).pc, (s.thr tid).mode⟩ := rfl
    rw [e1, hpc] at hok
    simp only [OwnerOK] at hok
    simp only [Option.some.injEq] at h; subst h
    have := linv_owner_step (attr' := some s.nextId) tid { s.thr tid with pc := .act k } hI hl
      (by simp only [OwnerOK]; exact hok) (by simp [hok])
    show LInv c s.lock (some s.nextId) (upd s.thr tid { s.thr tid with pc := .act k })
    rw [hl]; exact this
  · -- act 0
    rename_i hpc
    have hl : s.lock = some tid := hI.own tid (by simp [ownerish, hpc, special])
    simp only [Option.some.injEq] at h; subst h
    have := linv_owner_step (attr' := s.attr) tid ⟨.idle, .inReal⟩ hI hl (by simp [OwnerOK]) (by simp)
    show LInv c s.lock s.attr (upd s.thr tid ⟨.idle, .inReal⟩)
    rw [hl]; exact this
  · -- deact (k+1)
    rename_i k hpc
    have hl : s.lock = some tid := hI.own tid (by simp [ownerish, hpc, special])
    have hok := hI.ownerPc tid hl
    have e1 : s.thr tid = ⟨(s.thr tid).pc, (s.thr tid).mode⟩ := rfl
    rw [e1, hpc] at hok
    simp only [OwnerOK] at hok
    split at h
    · simp only [Option.some.injEq] at h; subst h
      have := linv_owner_step (attr' := none) tid { s.thr tid with pc := .deact k } hI hl
        (by simp [OwnerOK, hok.1]) (by simp [hok.1])
      show LInv c s.lock none (upd s.thr tid { s.thr tid with pc := .deact k })
      rw [hl]; exact this
    · rename_i hnone
      simp only [Option.some.injEq] at h; subst h
      have := linv_owner_step (attr' := s.attr) tid
        { s.thr tid with pc := (if c.delGuard then PC.deact k else PC.err) } hI hl
        (by cases c.delGuard <;> simp [OwnerOK, hok.1, hnone]) (by simp [hok.1])
      show LInv c s.lock s.attr (upd s.thr tid { s.thr tid with pc := (if c.delGuard then PC.deact k else PC.err) })
      rw [hl]; exact this
  · -- deact 0
    rename_i hpc
    have hl : s.lock = some tid := hI.own tid (by simp [ownerish, hpc, special])
    have hok := hI.ownerPc tid hl
    have e1 : s.thr tid = ⟨(s.thr tid).pc, (s.thr tid).mode⟩ := rfl
    rw [e1, hpc] at hok
    simp only [OwnerOK] at hok
    simp only [Option.some.injEq] at h; subst h
    have := linv_owner_step (attr' := s.attr) tid { s.thr tid with pc := .release } hI hl
      (by simp only [OwnerOK]; exact ⟨hok.2 (by omega), hok.1⟩) (by simp [hok.1])
    show LInv c s.lock s.attr (upd s.thr tid { s.thr tid with pc := .release })
    rw [hl]; exact this
  · -- release
    rename_i hpc
    have hl : s.lock = some tid := hI.own tid (by simp [ownerish, hpc, special])
    have hok := hI.ownerPc tid hl
    have e1 : s.thr tid = ⟨(s.thr tid).pc, (s.thr tid).mode⟩ := rfl
    rw [e1, hpc] at hok
    simp only [OwnerOK] at hok
    simp only [Option.some.injEq] at h; subst h
    show LInv c none s.attr (upd s.thr tid ⟨.idle, .out⟩)
    refine ⟨fun i hi => ?_, fun _ => hok.1, (fun i hi => by cases hi), fun i => ?_⟩
    · by_cases e : i = tid
      · subst e; rw [upd_same] at hi; simp [ownerish, special] at hi
      · rw [upd_other _ _ e] at hi
        have := hI.own i hi
        rw [hl] at this
        simp only [Option.some.injEq] at this
        exact absurd this.symm e
    · by_cases e : i = tid
      · subst e; rw [upd_same]; simp
      · rw [upd_other _ _ e]; exact hI.noNoop i
  · -- w0
    rename_i f cs hpc
    split at h
    · split at h <;>
      · simp only [Option.some.injEq] at h; subst h
        exact linv_move tid _ hI (by rw [hpc]; rfl) rfl
    · simp only [Option.some.injEq] at h; subst h
      exact linv_move tid _ hI (by rw [hpc]; rfl) rfl
  · -- w1
    rename_i f cs d t0 hpc
    split at h <;>
    · simp only [Option.some.injEq] at h; subst h
      exact linv_move tid _ hI (by rw [hpc]; rfl) rfl
  · -- w2
    rename_i f cs od hpc
    split at h
    · simp only [Option.some.injEq] at h; subst h
      exact linv_move tid _ hI (by rw [hpc]; rfl) rfl
    · split at h
      · simp only [Option.some.injEq] at h; subst h
        exact linv_move tid _ hI (by rw [hpc]; rfl) rfl
      · simp only [Option.some.injEq] at h; subst h
        exact linv_move tid _ hI (by rw [hpc]; rfl) (by cases c.storeReloads <;> rfl)
  · -- w3
    rename_i f cs e hpc
    split at h
    · simp only [Option.some.injEq] at h; subst h
      exact linv_move tid _ hI (by rw [hpc]; rfl) rfl
    · simp only [Option.some.injEq] at h; subst h
      exact linv_move tid _ hI (by rw [hpc]; rfl) (by cases c.storeGuard <;> rfl)
  · -- w4
    rename_i f cs d e hpc
    simp only [Option.some.injEq] at h; subst h
    exact linv_move tid _ hI (by rw [hpc]; rfl) rfl
  · -- ret
    rename_i hpc
    simp only [Option.some.injEq] at h; subst h
    exact linv_move tid _ hI (by rw [hpc]; rfl) rfl
  · -- retErr
    rename_i hpc
    simp only [Option.some.injEq] at h; subst h
    exact linv_move tid _ hI (by rw [hpc]; rfl) rfl
  · simp at h

theorem linv_init (c : CCfg) : St.init.linv c := by
  refine ⟨fun i hi => ?_, fun _ => rfl, fun i hi => ?_, fun i => ?_⟩
  · simp [St.init, ownerish, special] at hi
  · simp [St.init] at hi
  · simp [St.init]

theorem step_linv {c : CCfg} (hnd : 1 ≤ c.nDeact) {s s' : St} (a : Action) (hI : s.linv c)
    (h : step c s a = some s') : s'.linv c := by
  cases a with
  | thr tid ch =>
    simp only [step, Option.map_eq_some_iff] at h
    obtain ⟨s1, h1, rfl⟩ := h
    exact (tstep_linv hnd tid ch hI h1 : s1.linv c)
  | setVer f v => simp only [step, Option.some.injEq] at h; subst h; exact hI
  | setDenied f b => simp only [step, Option.some.injEq] at h; subst h; exact hI

theorem reach_linv {c : CCfg} (hnd : 1 ≤ c.nDeact) {s : St} (h : Reach c s) : s.linv c := by
  induction h with
  | init => exact linv_init c
  | step a _ hs ih => exact step_linv hnd a ih hs

end Psutil.C16.Conc
