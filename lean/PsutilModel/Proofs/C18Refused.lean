/-
  Proofs/C18Refused.lean — the get forms under a refusal (seeded round 5, C18-7): helper lemmas for
  `C18_refused_get_is_honest`.
-/
import PsutilModel.Proofs.C18Py
import PsutilModel.Proofs.C18Who
import PsutilModel.Proofs.C18Num
import PsutilModel.Spec.C18Refused
import PsutilModel.Model.C18Alt
namespace Psutil.C18
open Spec

/-- a get form that the caller is not permitted to make is `rlimit(res)` on a process of another user
    by a caller without CAP_SYS_RESOURCE, `res` one of the sixteen RLIMIT_* -/
theorem refusedGet_inv {k : Kernel} {pid : Nat} {st : PState} {req : Req} {as : List Out}
    (h : Spec.refusedGetAnswers k pid st req = some as) :
    ∃ res : Int, req = .rlimit res none ∧ 0 ≤ res ∧ res < 16 ∧ st.foreign = true ∧ k.capResource = false ∧
      .exc (.accessDenied pid) ∈ as := by
  unfold Spec.refusedGetAnswers at h
  cases req with
  | nice v => cases v <;> simp [Spec.isGetReq, Spec.permitted] at h
  | ionice a b => cases a <;> cases b <;> simp [Spec.isGetReq, Spec.permitted] at h
  | cpuAffinity l => cases l <;> simp [Spec.isGetReq, Spec.permitted] at h
  | rlimit res l =>
    cases l with
    | some _ => simp [Spec.isGetReq] at h
    | none =>
      by_cases hr : 0 ≤ res ∧ res < 16
      · simp only [Spec.isGetReq, Spec.permitted, Bool.true_and] at h
        by_cases hp : (!(!st.foreign || k.capResource)) = true
        · rw [if_pos hp] at h
          have hf : st.foreign = true ∧ k.capResource = false := by
            cases hfo : st.foreign <;> cases hc : k.capResource <;> simp [hfo, hc] at hp ⊢
          refine ⟨res, rfl, hr.1, hr.2, hf.1, hf.2, ?_⟩
          simp only [Spec.expect, hr, and_self, if_true] at h
          split at h
          · simp only [Option.some.injEq] at h
            rw [← h]; simp
          · cases h
        · rw [if_neg hp] at h; cases h
      · simp [Spec.isGetReq, Spec.expect, hr] at h

/-- the code as it is passes the refusal on and changes nothing -/
theorem stepPy_refused_get (c : Cfg) {k : Kernel} {pid : Nat} {st : PState} (x : Ctx) (rs : Scalar)
    (hpid : pid ≠ 0) (hst : k.procs pid = some st) (h0 : 0 ≤ rs.val) (h16 : rs.val < 16)
    (hf : st.foreign = true) (hc : k.capResource = false) :
    stepPy c k pid x (.rlimit rs none) = (.exc (.accessDenied pid), k) := by
  rw [stepPy_alive c hst]
  show rlimitLX c k pid rs.val none = _
  have hfit : fitsCInt rs.val = true := by simp [fitsCInt]; omega
  have hng : ¬ (rs.val < 0 ∨ rs.val ≥ 16) := by omega
  simp [rlimitLX, hpid, pyPrlimitGetP, resourceCheck, hfit, hng, sysPrlimitGetP, permPrlimit, resolve_pid k hpid,
    hst, hf, hc, wrapExc]

theorem refused_get_honest (c : Cfg) (k : Kernel) (pid : Nat) (st : PState) (x : Ctx) (r : PyReq) (as : List Out)
    (hpid : pid ≠ 0) (hst : k.procs pid = some st) (h : Spec.refusedGetAnswersPy k pid st r = some as) :
    (stepPy c k pid x r).1 ∈ as ∧ (stepPy c k pid x r).2 = k := by
  obtain ⟨res, hreq, h0, h16, hf, hc, hmem⟩ := refusedGet_inv h
  cases r with
  | nice v => cases v <;> cases hreq
  | ionice a b => cases a <;> cases b <;> cases hreq
  | cpuAffinity l =>
    cases l with
    | none => cases hreq
    | some p => cases p; cases hreq
  | rlimit rs l =>
    cases l with
    | some p => cases p; cases hreq
    | none =>
      have hv : rs.val = res := by simpa [PyReq.erase] using hreq
      rw [stepPy_refused_get c x rs hpid hst (hv ▸ h0) (hv ▸ h16) hf hc]
      exact ⟨hmem, rfl⟩

/-- without an alternative source the get form IS the code as it is -/
theorem rlimitGetAlt_none (c : Cfg) (k : Kernel) (pid : Nat) (res : Int) :
    rlimitGetAlt none c k pid res = rlimitLX c k pid res none := by
  unfold rlimitGetAlt
  split <;> simp_all [altAnswer]

theorem stepPyA_none (bits : Nat) (c : Cfg) (rt : Routing) (og : Origin) (k : Kernel) (pid : Nat) (x : Ctx) (r : PyReq) :
    stepPyA none bits c rt og k pid x r = stepPyN bits c rt og k pid x r := by
  unfold stepPyA
  split <;> simp_all [altAnswer]

/-- answering a refused get from the resource's own row of `/proc/<pid>/limits` is honest -/
theorem refused_get_own_row_honest (c : Cfg) {bits : Nat} {rt : Routing} (hb : bits = 64) (hrt : rt = Routing.direct)
    (og : Origin) (k : Kernel) (pid : Nat) (st : PState) (x : Ctx) (rs : Scalar) (as : List Out)
    (hpid : pid ≠ 0) (hst : k.procs pid = some st)
    (h : Spec.refusedGetAnswersPy k pid st (.rlimit rs none) = some as) :
    (stepPyA altIdentity bits c rt og k pid x (.rlimit rs none)).1 ∈ as ∧
      (stepPyA altIdentity bits c rt og k pid x (.rlimit rs none)).2 = k := by
  subst hb; subst hrt
  obtain ⟨res, hreq, h0, h16, hf, hc, _⟩ := refusedGet_inv h
  have hv : rs.val = res := by simpa [PyReq.erase] using hreq
  subst hv
  have hstep : stepPyN 64 c Routing.direct og k pid x (.rlimit rs none) = (.exc (.accessDenied pid), k) := by
    rw [stepPyN_long, stepPyW_direct]; exact stepPy_refused_get c x rs hpid hst h0 h16 hf hc
  obtain ⟨n, hn, hn16⟩ : ∃ n : Nat, rs.val = n ∧ n < 16 := ⟨rs.val.toNat, by omega, by omega⟩
  have hrow : (List.range 16)[rs.val.toNat]? = some n := by
    rw [hn]; simp [hn16]
  unfold Spec.refusedGetAnswersPy Spec.refusedGetAnswers at h
  simp only [PyReq.erase, Spec.isGetReq, Spec.permitted, hf, hc, Bool.true_and] at h
  simp only [Spec.expect, hn] at h
  have hr : (0 : Int) ≤ (n : Int) ∧ (n : Int) < 16 := by omega
  simp only [hr, and_self, if_true, Int.toNat_natCast] at h
  unfold stepPyA
  rw [hstep]
  simp only [altAnswer, altIdentity, hrow, procLimitsRow, hst, Option.map_some]
  cases hs : Spec.limitToPy (st.rlimits n).1 with
  | none => simp [hs] at h
  | some s' =>
    cases hh : Spec.limitToPy (st.rlimits n).2 with
    | none => simp [hs, hh] at h
    | some h' =>
      simp [hs, hh] at h
      have e1 := ofU64_of_limitToPy hs
      have e2 := ofU64_of_limitToPy hh
      show Out.ok (Val.limits (ofU64 (st.rlimits n).1) (ofU64 (st.rlimits n).2)) ∈ as ∧ True
      rw [← h, e1, e2]
      simp

end Psutil.C18
