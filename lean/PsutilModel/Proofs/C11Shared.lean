/-
  Proofs/C11Shared.lean — the inode map is ONE dict shared by all the tables of a query (seeded round 5).

  `Model/C11.lean` has two transcriptions of the table loop of `retrieve`: the functions that read the map
  (`processInetLine`, `processUnixLine`, `retrieveEntries`, `retrieveE`, `netConnectionsE`) and the functions that
  thread it through every line of every table (`…S`, what the driver runs), in which a lookup may create the key it
  misses. Here: when both lookups are membership-guarded (`Cfg.LookupGood`, the code as it is) the dict is never
  changed and the two transcriptions agree on EVERY file system — so every theorem about the reading functions
  is a theorem about the threaded ones, whatever inode numbers the tables share.
-/
import PsutilModel.Model.C11
namespace Psutil.C11

/-- both lookups are of the `if inode in inodes:` kind -/
structure Cfg.LookupGood (c : Cfg) : Prop where
  inet : c.inetLookup = .guarded
  unix : c.unixLookup = .guarded
  /-- what `inodes` is created as in get_all_inodes / get_proc_inodes is a dict the model knows -/
  initKnown : c.inodesInitKnown = true

theorem lookupS_guarded (d : Bool) (m : Inodes) (k : Bytes) :
    lookupS .guarded d m k = .ok (m, m.lookup k) := by
  unfold lookupS
  cases m.lookup k <;> rfl

theorem inetOwner_guarded (m : Inodes) (k : Bytes) : inetOwner .guarded (m.lookup k) = pidFd m k := by
  unfold inetOwner pidFd
  cases h : m.lookup k with
  | none => rfl
  | some l =>
    cases l with
    | nil => rfl
    | cons a t => rfl

theorem unixOwnerPairs_lookup (m : Inodes) (k : Bytes) : unixOwnerPairs (m.lookup k) = ownerPairs m k := by
  unfold unixOwnerPairs ownerPairs
  cases m.lookup k <;> rfl

/-- one tcp/udp line: the dict comes back as it went in, the row is the one of the reading transcription -/
theorem processInetLineS_eq (c : Cfg) (hg : c.inetLookup = .guarded) (family type : Nat) (d : Bool) (m : Inodes)
    (fp : Option Nat) (line : Bytes) :
    processInetLineS c family type d m fp line = (processInetLine c family type m fp line).map fun r => (m, r) := by
  unfold processInetLineS processInetLine
  simp only [hg, lookupS_guarded, inetOwner_guarded]
  split
  · rfl
  · split
    · rename_i laddr raddr status inode _ _ _ _
      cases hp : pidFd m inode with
      | error e => rfl
      | ok pf =>
        obtain ⟨pid, fd⟩ := pf
        simp only []
        split
        · rfl
        · split
          · rfl
          · split
            · unfold v6Skip; split <;> rfl
            · rfl
            · split
              · unfold v6Skip; split <;> rfl
              · rfl
              · rfl
    · rfl

theorem processInetLinesS_eq (c : Cfg) (hg : c.inetLookup = .guarded) (family type : Nat) (d : Bool) (m : Inodes)
    (fp : Option Nat) (lines : List Bytes) :
    processInetLinesS c family type d fp m lines = (processInetLines c family type m fp lines).map fun r => (m, r) := by
  induction lines with
  | nil => rfl
  | cons line rest ih =>
    unfold processInetLinesS processInetLines
    rw [processInetLineS_eq c hg]
    cases processInetLine c family type m fp line with
    | error e => rfl
    | ok r =>
      simp only [Except.map]
      rw [ih]
      cases processInetLines c family type m fp rest <;> rfl

theorem processInetS_eq (c : Cfg) (hg : c.inetLookup = .guarded) (name : String) (content : Option Bytes)
    (family type : Nat) (d : Bool) (m : Inodes) (fp : Option Nat) :
    processInetS c name content family type d m fp = (processInet c name content family type m fp).map fun r => (m, r) := by
  unfold processInetS processInet
  cases content with
  | none =>
    simp only []
    split <;> rfl
  | some b => exact processInetLinesS_eq c hg family type d m fp _

theorem processUnixLineS_eq (c : Cfg) (hg : c.unixLookup = .guarded) (d : Bool) (m : Inodes) (fp : Option Nat)
    (line : Bytes) :
    processUnixLineS c d m fp line = (processUnixLine c m fp line).map fun r => (m, r) := by
  unfold processUnixLineS processUnixLine
  simp only [hg, lookupS_guarded, unixOwnerPairs_lookup]
  split
  · split <;> rfl
  · split
    · rename_i typeTok inode _ _
      cases unixPairs c line (splitWs line) typeTok fp (ownerPairs m inode) <;> rfl
    · rfl

theorem processUnixLinesS_eq (c : Cfg) (hg : c.unixLookup = .guarded) (d : Bool) (m : Inodes) (fp : Option Nat)
    (lines : List Bytes) :
    processUnixLinesS c d fp m lines = (processUnixLines c m fp lines).map fun r => (m, r) := by
  induction lines with
  | nil => rfl
  | cons line rest ih =>
    unfold processUnixLinesS processUnixLines
    rw [processUnixLineS_eq c hg]
    cases processUnixLine c m fp line with
    | error e => rfl
    | ok r =>
      simp only [Except.map]
      rw [ih]
      cases processUnixLines c m fp rest <;> rfl

theorem processUnixS_eq (c : Cfg) (hg : c.unixLookup = .guarded) (content : Option Bytes) (d : Bool) (m : Inodes)
    (fp : Option Nat) :
    processUnixS c content d m fp = (processUnix c content m fp).map fun r => (m, r) := by
  unfold processUnixS processUnix
  cases content with
  | none => rfl
  | some b => exact processUnixLinesS_eq c hg d m fp _

/-- one table: the dict is unchanged, the rows are those of the reading transcription (`procs` is not looked at) -/
theorem entryRowsS_eq (c : Cfg) (hg : c.LookupGood) (fs : ProcFs) (d : Bool) (m : Inodes) (pid : Option Nat)
    (e : TEntry) :
    entryRowsS c fs.net d m pid e = (entryRows c fs m pid e).map fun r => (m, r) := by
  unfold entryRowsS entryRows
  split
  · cases e.2.2 with
    | none => rfl
    | some t => exact processInetS_eq c hg.inet _ _ _ _ d m pid
  · exact processUnixS_eq c hg.unix _ d m pid

/-- **frame property of the table loop.** Every table of `tmap[kind]` sees the dict exactly as `get_all_inodes` /
    `get_proc_inodes` built it: what an earlier table looked up does not matter. -/
theorem retrieveEntriesS_eq (c : Cfg) (hg : c.LookupGood) (fs : ProcFs) (d : Bool) (pid : Option Nat) (m : Inodes)
    (es : List TEntry) (ret : List Row) :
    retrieveEntriesS c fs.net d pid m es ret = retrieveEntries c fs m pid es ret := by
  induction es generalizing ret with
  | nil => rfl
  | cons e es ih =>
    unfold retrieveEntriesS retrieveEntries
    rw [entryRowsS_eq c hg]
    cases entryRows c fs m pid e with
    | error x => rfl
    | ok rows => simp only [Except.map]; exact ih _

theorem retrieveES_eq (c : Cfg) (hg : c.LookupGood) (fs : ProcFsE) (kind : String) (pid : Option Nat) :
    retrieveES c fs kind pid = retrieveE c fs kind pid := by
  unfold retrieveES retrieveE
  simp only []
  split
  · rfl
  · split
    · rfl
    · split
      · rfl
      · exact retrieveEntriesS_eq c hg ⟨fs.net, []⟩ _ pid _ _ []

/-- the functions the driver runs are the functions the theorems are about — on EVERY file system -/
theorem netConnectionsES_eq (c : Cfg) (hg : c.LookupGood) (fs : ProcFsE) (kind : String) (pid : Option Nat) :
    netConnectionsES c fs kind pid = netConnectionsE c fs kind pid := by
  unfold netConnectionsES netConnectionsE
  split
  · rfl
  · cases pid with
    | none => exact retrieveES_eq c hg fs kind none
    | some p =>
      simp only []
      rw [retrieveES_eq c hg fs kind (some p)]

end Psutil.C11
