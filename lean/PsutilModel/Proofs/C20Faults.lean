/-
  Proofs/C20Faults.lean — definitions and the table behind `C20_method_faults_within_spec_current`
  (the big `decide`s are kept out of Props so that each file builds in well under a minute).
-/
import PsutilModel.Proofs.C20
namespace Psutil.C20

def nameWrapped (p : Platform) (n : String) : Bool :=
  match methodOf? p n with
  | some m => m.wrapped
  | none => false

/-- the two Windows repairs (fixes/C20-win-ppid-wrap, fixes/C20-win-memory-maps-wrap) as a
    configuration of the model: `fixed = true` is the repaired code (`ppid` carries
    `wrap_exceptions`, the per-mapping loop of `memory_maps` sits inside the converting `try`),
    `fixed = false` the code before the repairs. Everything else is the generated configuration. -/
def variantCfg (fixed : Bool) : Cfg := { cfg with winMapsLoopGuarded := fixed }

def variantMethod (fixed : Bool) (p : Platform) (m : Method) : Method :=
  if p == .windows && m.name == "ppid" then
    { m with decorators := if fixed then ["wrap_exceptions"] else [] }
  else m

/-- within the specification — pure `Spec.allowed`, nothing tolerated -/
def faultStrictOKc (c : Cfg) (p : Platform) (m : Method) (call : String) (e : Err) (env : Env) : Bool :=
  Spec.allowed p m.name (Spec.recoverable p m.name call) e env (methodFault c p m call e env false).1

/-- the one outcome tolerated outside the specification: finding C20-sunos-aix-exists-means-zombie —
    in the region `Spec.knownZombieDeviation` (Solaris / AIX, "no such process" failure, process not a
    zombie but still there) the decorator's ZombieProcess(pid, name, ppid), and nothing else -/
def zombieDeviation (p : Platform) (e : Err) (env : Env) (o : Outcome) : Bool :=
  Spec.knownZombieDeviation p.family e env && o == .zombie env.pid true

/-- `tol = false`: the specification, nothing else; `tol = true`: plus the known deviation -/
def faultOKt (tol : Bool) (c : Cfg) (p : Platform) (m : Method) (call : String) (e : Err) (env : Env) : Bool :=
  faultStrictOKc c p m call e env || (tol && zombieDeviation p e env (methodFault c p m call e env false).1)

def faultOKc (c : Cfg) (p : Platform) (m : Method) (call : String) (e : Err) (env : Env) : Bool :=
  faultOKt true c p m call e env

def faultOK (p : Platform) (m : Method) (call : String) (e : Err) (env : Env) : Bool :=
  faultOKc cfg p m call e env

/-- outside Solaris / AIX nothing is tolerated: the tolerant judgement IS the strict one -/
theorem faultOKt_strict_of_family (tol : Bool) (c : Cfg) (p : Platform) (m : Method) (call : String) (e : Err) (env : Env)
    (h1 : p.family ≠ .sunos) (h2 : p.family ≠ .aix) :
    faultOKt tol c p m call e env = faultStrictOKc c p m call e env := by
  simp [faultOKt, zombieDeviation, Spec.knownZombieDeviation, h1, h2]

/-- the two call sites recorded as known findings (findings/C20.json) — each one only as long as
    the translator sees the unrepaired shape in the current source -/
def knownFinding (p : Platform) (meth call : String) : Bool :=
  p == .windows &&
    ((meth == "ppid" && call == "ppid_map" && !nameWrapped .windows "ppid") ||
     (meth == "memory_maps" && call == "QueryDosDevice" && !cfg.winMapsLoopGuarded))

/-- one row of the generated traces under configuration `c`, methods seen through `mt` -/
def traceRowOKt (tol : Bool) (c : Cfg) (mt : Platform → Method → Method) (excl : Platform → String → String → Bool)
    (p : Platform) (row : String × Nat × List String) : Bool :=
  match methodOf? p row.1 with
  | none => false
  | some m =>
    row.2.2.all fun call =>
      excl p row.1 call ||
      (sweptErrs p).all fun e => (sweptEnvs row.2.1).all fun env => faultOKt tol c p (mt p m) call e env

/-- the tolerant judgement (known deviation C20-sunos-aix-exists-means-zombie accepted in its region) -/
def traceRowOKc (c : Cfg) (mt : Platform → Method → Method) (excl : Platform → String → String → Bool)
    (p : Platform) (row : String × Nat × List String) : Bool :=
  traceRowOKt true c mt excl p row

/-- the strict judgement: `Spec.allowed` only, no call site excluded, nothing tolerated -/
def traceRowStrict (p : Platform) (row : String × Nat × List String) : Bool :=
  traceRowOKt false cfg (fun _ m => m) (fun _ _ _ => false) p row

theorem traceRowOKt_strict_of_family (tol : Bool) (c : Cfg) (mt : Platform → Method → Method)
    (excl : Platform → String → String → Bool) (p : Platform) (row : String × Nat × List String)
    (h1 : p.family ≠ .sunos) (h2 : p.family ≠ .aix) :
    traceRowOKt tol c mt excl p row = traceRowOKt false c mt excl p row := by
  unfold traceRowOKt
  cases methodOf? p row.1 with
  | none => rfl
  | some m => simp [faultOKt_strict_of_family _ c p _ _ _ _ h1 h2]

def traceRowOK (strict : Bool) (p : Platform) (row : String × Nat × List String) : Bool :=
  traceRowOKc cfg (fun _ m => m) (fun p m c => !strict && knownFinding p m c) p row

theorem faults_table_current :
    ∀ p ∈ Platform.all, ∀ row ∈ tracesOf p, traceRowOK false p row = true := by
  decide +kernel

end Psutil.C20
