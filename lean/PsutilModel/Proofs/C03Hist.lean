/-
  Proofs/C03Hist.lean — histories on one object: a call that starts once the process is gone answers
  `Spec.GoneAnswer` (NoSuchProcess(pid); is_running() → False), whatever the object's `_gone` / `_pid_reused`
  flags are, provided exe() has not been memoised (`_exe is None`: documented exemption), and leaves `_exe` unset.
-/
import PsutilModel.Proofs.C03Gone
import PsutilModel.Model.C03Hist
import PsutilModel.Spec.C03Hist
namespace Psutil.C03
open Spec

/-- a history call started at a counter ≥ k0 returns an outcome satisfying `ans`; `_exe` stays unset, the oneshot
    cache untouched, the counter does not decrease -/
def HGone (p : Nat) (h : HCall) (ans : Except PyExc Val → Prop) : Prop :=
  ∀ f c s k0, Adm c → PGone c p k0 → k0 ≤ s.k → s.cache.active = false → f.exe = none →
    ∃ out f' s', h f c s = (.ok (out, f'), s') ∧ ans out ∧ f'.exe = none ∧ s'.cache = s.cache ∧ s.k ≤ s'.k

theorem reify_gone {p : Nat} {m : M Val} (h : GoneNSP p m) : HGone p (reify m) (IsNSP p) := by
  intro f c s k0 ha hg hk hc hf
  obtain ⟨s', hr, hc', hk'⟩ := h c s k0 ha hg hk hc
  exact ⟨.error (.nsp p), f, s', by simp only [reify, hr], by simp [IsNSP], hf, hc', hk'⟩

variable (r : Host)

/-- is_running() on a gone process answers False and leaves `_gone` or `_pid_reused` set -/
theorem isRunningH_gone (o : Obj) (f : Flags) (c : Ctx) (s : St) (k0 : Nat) (ha : Adm c) (hg : PGone c o.pid k0)
    (hk : k0 ≤ s.k) (hc : s.cache.active = false) :
    ∃ f' s', Fe.isRunningH (goodCfg r) o f c s = (.ok (false, f'), s') ∧ (f'.gone = true ∨ f'.reused = true) ∧
      f'.exe = f.exe ∧ s'.cache = s.cache ∧ s.k ≤ s'.k := by
  unfold Fe.isRunningH
  by_cases hfl : (f.gone || f.reused) = true
  · simp only [hfl, ↓reduceIte]
    exact ⟨f, s, rfl, by simpa using hfl, rfl, rfl, Nat.le_refl _⟩
  · simp only [hfl, Bool.false_eq_true, ↓reduceIte]
    obtain ⟨s1, hr, hc1, hk1⟩ := isRunning_gone r o c s k0 ha hg hk hc
    simp only [bind_eq, M.bind, hr, pure_eq, M.pure]
    exact ⟨_, s1, rfl, Or.inl rfl, rfl, hc1, hk1⟩

/-- `_raise_if_pid_reused` on a gone process raises NoSuchProcess(pid), whatever the flags -/
theorem raiseIfPidReusedH_gone (o : Obj) (f : Flags) (c : Ctx) (s : St) (k0 : Nat) (ha : Adm c)
    (hg : PGone c o.pid k0) (hk : k0 ≤ s.k) (hc : s.cache.active = false) :
    ∃ f' s', Fe.raiseIfPidReusedH (goodCfg r) o f c s = (.ok (some (.nsp o.pid), f'), s') ∧
      f'.exe = f.exe ∧ s'.cache = s.cache ∧ s.k ≤ s'.k := by
  unfold Fe.raiseIfPidReusedH
  by_cases hre : f.reused = true
  · simp only [hre, ↓reduceIte, bind_eq, M.bind, pure_eq, M.pure]
    exact ⟨f, s, rfl, rfl, rfl, Nat.le_refl _⟩
  · obtain ⟨f1, s1, hr, hfl, hexe, hc1, hk1⟩ := isRunningH_gone r o f c s k0 ha hg hk hc
    simp only [hre, Bool.false_eq_true, ↓reduceIte, bind_eq, M.bind, hr, pure_eq, M.pure, Bool.not_false, Bool.true_and]
    have hgd : (goodCfg r).goneGuard = true := rfl
    by_cases h1 : f1.reused = true
    · simp only [h1, ↓reduceIte]
      exact ⟨f1, s1, rfl, hexe, hc1, hk1⟩
    · have hgone : f1.gone = true := by
        rcases hfl with h | h
        · exact h
        · exact absurd h h1
      simp only [h1, Bool.false_eq_true, ↓reduceIte, hgd, hgone, Bool.and_self]
      exact ⟨f1, s1, rfl, hexe, hc1, hk1⟩

theorem guarded_gone (o : Obj) (body : M Val) : HGone o.pid (Fe.guarded (goodCfg r) o body) (IsNSP o.pid) := by
  intro f c s k0 ha hg hk hc hf
  obtain ⟨f1, s1, hr, hexe, hc1, hk1⟩ := raiseIfPidReusedH_gone r o f c s k0 ha hg hk hc
  unfold Fe.guarded
  simp only [bind_eq, M.bind, hr, pure_eq, M.pure]
  exact ⟨.error (.nsp o.pid), f1, s1, rfl, by simp [IsNSP], by rw [hexe, hf], hc1, hk1⟩

theorem exeH_gone (o : Obj) : HGone o.pid (Fe.exeH (goodCfg r) o) (IsNSP o.pid) := by
  intro f c s k0 ha hg hk hc hf
  have hbody : GoneNSP o.pid
      (tryCatch
        (do let nonempty ← Plat.exe (goodCfg r) o.pid
            let v ← (if nonempty then pure Val.str
                     else
                       tryCatch (Fe.guessIt (goodCfg r) o (some .estr))
                         (fun e => if catches (goodCfg r).exeGuessCatch e then some (pure .estr) else none))
            pure (v, true))
        (fun e => if catches (goodCfg r).exeCatch e
                  then some (do let v ← Fe.guessIt (goodCfg r) o none; pure (v, false)) else none)) :=
    tryCatch_nsp (bind_nsp _ (exe_gone r o.pid)) (by rfl)
  obtain ⟨s1, hr, hc1, hk1⟩ := hbody c s k0 ha hg hk hc
  unfold Fe.exeH
  simp only [hf]
  rw [hr]
  exact ⟨.error (.nsp o.pid), f, s1, rfl, by simp [IsNSP], hf, hc1, hk1⟩

/-- the history call for `nm` is modelled and, on a gone process, answers `GoneAnswer` -/
def HGoneOK (o : Obj) (nm : String) : Prop :=
  ∃ h, Fe.methodH (goodCfg r) o nm = some h ∧ HGone o.pid h (GoneAnswer o.pid nm)

theorem hgone_is_running (o : Obj) : HGoneOK r o "is_running" := by
  refine ⟨_, rfl, ?_⟩
  intro f c s k0 ha hg hk hc hf
  obtain ⟨f1, s1, hr, _, hexe, hc1, hk1⟩ := isRunningH_gone r o f c s k0 ha hg hk hc
  simp only [bind_eq, M.bind, hr, pure_eq, M.pure]
  exact ⟨.ok (.bool false), f1, s1, rfl, by simp [GoneAnswer], by rw [hexe, hf], hc1, hk1⟩

theorem hgone_of_nsp {o : Obj} {nm : String} {h : HCall} (hne : nm ≠ "is_running")
    (hh : HGone o.pid h (IsNSP o.pid)) : HGone o.pid h (GoneAnswer o.pid nm) := by
  intro f c s k0 ha hg hk hc hf
  obtain ⟨out, f', s', hr, hans, rest⟩ := hh f c s k0 ha hg hk hc hf
  exact ⟨out, f', s', hr, by simpa [GoneAnswer, hne] using hans, rest⟩

theorem hgone_ppid (o : Obj) : HGoneOK r o "ppid" :=
  ⟨_, rfl, hgone_of_nsp (by decide) (guarded_gone r o _)⟩
theorem hgone_children (o : Obj) : HGoneOK r o "children" :=
  ⟨_, rfl, hgone_of_nsp (by decide) (guarded_gone r o _)⟩
theorem hgone_children_recursive (o : Obj) : HGoneOK r o "children_recursive" :=
  ⟨_, rfl, hgone_of_nsp (by decide) (guarded_gone r o _)⟩
theorem hgone_exe (o : Obj) : HGoneOK r o "exe" :=
  ⟨_, rfl, hgone_of_nsp (by decide) (exeH_gone r o)⟩

/-- a query that does not depend on the attributes: the call of `Fe.method`, reified -/
theorem hgone_generic (o : Obj) (nm : String)
    (hm : Fe.methodH (goodCfg r) o nm = (Fe.method (goodCfg r) o nm).map reify) (hne : nm ≠ "is_running")
    (hg : GoneOK r o nm) : HGoneOK r o nm := by
  obtain ⟨m, hmm, hgm⟩ := hg
  exact ⟨reify m, by rw [hm, hmm]; rfl, hgone_of_nsp hne (reify_gone hgm)⟩

/-- the history calls covered: is_running() and the queries of `goneCovered` -/
def histCovered : List String := "is_running" :: goneCovered

theorem hgone_all (o : Obj) : ∀ nm ∈ histCovered, HGoneOK r o nm :=
  show ∀ nm ∈ ["is_running", "children", "ppid", "name", "exe", "cmdline", "status", "username", "cwd", "nice", "uids", "gids", "terminal", "num_fds", "io_counters", "ionice", "cpu_affinity", "cpu_num", "environ", "num_ctx_switches", "num_threads", "threads", "cpu_times", "cpu_percent", "memory_info", "memory_full_info", "memory_percent", "memory_maps", "open_files", "net_connections", "children_recursive", "connections"], HGoneOK r o nm from
  List.forall_mem_cons.2 ⟨hgone_is_running r o,
  List.forall_mem_cons.2 ⟨hgone_children r o,
  List.forall_mem_cons.2 ⟨hgone_ppid r o,
  List.forall_mem_cons.2 ⟨hgone_generic r o "name" rfl (by decide) (gone_name r o),
  List.forall_mem_cons.2 ⟨hgone_exe r o,
  List.forall_mem_cons.2 ⟨hgone_generic r o "cmdline" rfl (by decide) (gone_cmdline r o),
  List.forall_mem_cons.2 ⟨hgone_generic r o "status" rfl (by decide) (gone_status r o),
  List.forall_mem_cons.2 ⟨hgone_generic r o "username" rfl (by decide) (gone_username r o),
  List.forall_mem_cons.2 ⟨hgone_generic r o "cwd" rfl (by decide) (gone_cwd r o),
  List.forall_mem_cons.2 ⟨hgone_generic r o "nice" rfl (by decide) (gone_nice r o),
  List.forall_mem_cons.2 ⟨hgone_generic r o "uids" rfl (by decide) (gone_uids r o),
  List.forall_mem_cons.2 ⟨hgone_generic r o "gids" rfl (by decide) (gone_gids r o),
  List.forall_mem_cons.2 ⟨hgone_generic r o "terminal" rfl (by decide) (gone_terminal r o),
  List.forall_mem_cons.2 ⟨hgone_generic r o "num_fds" rfl (by decide) (gone_num_fds r o),
  List.forall_mem_cons.2 ⟨hgone_generic r o "io_counters" rfl (by decide) (gone_io_counters r o),
  List.forall_mem_cons.2 ⟨hgone_generic r o "ionice" rfl (by decide) (gone_ionice r o),
  List.forall_mem_cons.2 ⟨hgone_generic r o "cpu_affinity" rfl (by decide) (gone_cpu_affinity r o),
  List.forall_mem_cons.2 ⟨hgone_generic r o "cpu_num" rfl (by decide) (gone_cpu_num r o),
  List.forall_mem_cons.2 ⟨hgone_generic r o "environ" rfl (by decide) (gone_environ r o),
  List.forall_mem_cons.2 ⟨hgone_generic r o "num_ctx_switches" rfl (by decide) (gone_num_ctx_switches r o),
  List.forall_mem_cons.2 ⟨hgone_generic r o "num_threads" rfl (by decide) (gone_num_threads r o),
  List.forall_mem_cons.2 ⟨hgone_generic r o "threads" rfl (by decide) (gone_threads r o),
  List.forall_mem_cons.2 ⟨hgone_generic r o "cpu_times" rfl (by decide) (gone_cpu_times r o),
  List.forall_mem_cons.2 ⟨hgone_generic r o "cpu_percent" rfl (by decide) (gone_cpu_percent r o),
  List.forall_mem_cons.2 ⟨hgone_generic r o "memory_info" rfl (by decide) (gone_memory_info r o),
  List.forall_mem_cons.2 ⟨hgone_generic r o "memory_full_info" rfl (by decide) (gone_memory_full_info r o),
  List.forall_mem_cons.2 ⟨hgone_generic r o "memory_percent" rfl (by decide) (gone_memory_percent r o),
  List.forall_mem_cons.2 ⟨hgone_generic r o "memory_maps" rfl (by decide) (gone_memory_maps r o),
  List.forall_mem_cons.2 ⟨hgone_generic r o "open_files" rfl (by decide) (gone_open_files r o),
  List.forall_mem_cons.2 ⟨hgone_generic r o "net_connections" rfl (by decide) (gone_net_connections r o),
  List.forall_mem_cons.2 ⟨hgone_children_recursive r o,
  List.forall_mem_cons.2 ⟨hgone_generic r o "connections" rfl (by decide) (gone_connections r o),
  (fun _ h => nomatch h)⟩⟩⟩⟩⟩⟩⟩⟩⟩⟩⟩⟩⟩⟩⟩⟩⟩⟩⟩⟩⟩⟩⟩⟩⟩⟩⟩⟩⟩⟩⟩⟩

end Psutil.C03
