/-
  Proofs/C03Value.lean — "the call returns a WELL-FORMED value" (seeded round 5, C03-5).

  `Ret S m`: every value `m` can return satisfies `S` — from ANY context (any world, any state sequence of the
  process, any number of refused accesses: a superset of the admissible plans, in particular every "refusal at one
  access, then alive → zombie → gone at later accesses of the same call") and from any start state.  The value clause
  needs no hypothesis on the plan: which OBJECT a method hands back is decided by its control flow alone, and the
  lemmas below follow that control flow (bind / try-except / if), so a branch that hands back an exception object
  makes the lemma of that method unprovable.
-/
import PsutilModel.Proofs.C03Front
namespace Psutil.C03
open Spec

def Ret {α : Type} (S : α → Prop) (m : M α) : Prop :=
  ∀ c s a s', m c s = (.ok a, s') → S a

theorem ret_pure {α : Type} {S : α → Prop} {a : α} (h : S a) : Ret S (pure a : M α) := by
  intro c s a' s' hr
  cases hr
  exact h

theorem ret_throw {α : Type} {S : α → Prop} {e : PyExc} : Ret S (throw e : M α) := by
  intro c s a' s' hr
  cases hr

/-- sequencing with an intermediate fact about the first result -/
theorem ret_bind' {α β : Type} {Q : α → Prop} {S : β → Prop} {m : M α} {f : α → M β}
    (hm : Ret Q m) (hf : ∀ a, Q a → Ret S (f a)) : Ret S (m >>= f) := by
  intro c s b s' hr
  simp only [bind_eq, M.bind] at hr
  rcases hm' : m c s with ⟨res, s1⟩
  rw [hm'] at hr
  cases res with
  | error e => cases hr
  | ok a => exact hf a (hm c s a s1 hm') c s1 b s' hr

theorem ret_any {α : Type} (m : M α) : Ret (fun _ => True) m := fun _ _ _ _ _ => trivial

theorem ret_bind {α β : Type} {S : β → Prop} {m : M α} {f : α → M β} (hf : ∀ a, Ret S (f a)) : Ret S (m >>= f) :=
  ret_bind' (ret_any m) (fun a _ => hf a)

theorem ret_tryCatch {α : Type} {S : α → Prop} {m : M α} {h : PyExc → Option (M α)}
    (hm : Ret S m) (hh : ∀ e m', h e = some m' → Ret S m') : Ret S (tryCatch m h) := by
  intro c s a s' hr
  unfold tryCatch at hr
  rcases hm' : m c s with ⟨res, s1⟩
  rw [hm'] at hr
  cases res with
  | ok a' =>
    cases hr
    exact hm c s a s' hm'
  | error e =>
    simp only at hr
    cases hh' : h e with
    | none => rw [hh'] at hr; cases hr
    | some m' => rw [hh'] at hr; exact hh e m' hh' c s1 a s' hr

theorem ret_weaken {α : Type} {S S' : α → Prop} {m : M α} (hm : Ret S m) (h : ∀ a, S a → S' a) : Ret S' m :=
  fun c s a s' hr => h a (hm c s a s' hr)

/-! ## the front-end getters: the value each can return is the documented one -/

/-- a concrete shape is the documented one: by evaluation (the shape may mention variables — list lengths, pids) -/
local macro "wf" : tactic => `(tactic| (show WellFormedB _ _ = true; rfl))

/-- no documented result is an exception object -/
theorem wellFormed_not_exc {nm : String} {v : Val} (h : WellFormed nm v) : v.isExc = false := by
  cases v <;> first | rfl | (simp [WellFormed, WellFormedB] at h)

variable (cf : Cfg)

theorem name_ret (o : Obj) : Ret (WellFormed "name") (Fe.name cf o) := by
  unfold Fe.name
  refine ret_bind fun long => ?_
  cases long
  · exact ret_pure (by wf)
  · exact ret_bind fun _ => ret_pure (by wf)

/-- guess_it(fallback): with no handler that ends in `return fallback` around `self.cmdline()` and the re-raising tail,
    it returns the guessed path (a str) or the fallback VALUE it was given — never the AccessDenied instance -/
theorem guessIt_ret (hg : cf.guessClauses = []) (ht : cf.guessTailRaises = true) (o : Obj) (fb : Option Val) :
    Ret (fun v => v = .str ∨ fb = some v) (Fe.guessIt cf o fb) := by
  unfold Fe.guessIt
  dsimp only
  rw [tryCatch_no_handler _ _ (fun e => by simp [Fe.clauseOf, hg])]
  refine ret_bind' (Q := fun r => r.isSome = true) (ret_bind fun x => ret_pure rfl) (fun r hr => ?_)
  cases r with
  | none => cases hr
  | some x =>
    obtain ⟨n, g⟩ := x
    dsimp only
    split
    · exact ret_pure (Or.inl rfl)
    · cases fb with
      | none => simp only [ht, if_true]; exact ret_throw
      | some v => exact ret_pure (Or.inr rfl)

theorem exe_ret (hg : cf.guessClauses = []) (ht : cf.guessTailRaises = true) (o : Obj) :
    Ret (WellFormed "exe") (Fe.exe cf o) := by
  unfold Fe.exe
  refine ret_tryCatch (ret_bind fun ne => ?_) (fun e m' h => ?_)
  · cases ne
    · refine ret_tryCatch (ret_weaken (guessIt_ret cf hg ht o (some .estr)) (fun v hv => ?_)) (fun e m' h => ?_)
      · rcases hv with hv | hv
        · subst hv; wf
        · cases hv; wf
      · split at h
        · cases h; exact ret_pure (by wf)
        · cases h
    · exact ret_pure (by wf)
  · split at h
    · cases h
      refine ret_weaken (guessIt_ret cf hg ht o none) (fun v hv => ?_)
      rcases hv with hv | hv
      · subst hv; wf
      · cases hv
    · cases h

theorem status_ret (o : Obj) : Ret (WellFormed "status") (Fe.status cf o) := by
  unfold Fe.status
  refine ret_tryCatch (ret_bind fun _ => ret_pure (by wf)) (fun e m' h => ?_)
  split at h
  · cases h; exact ret_pure (by wf)
  · cases h

/-- the getter `nm` is modelled and can only return the documented shape of `nm` -/
def GetterRet (o : Obj) (nm : String) : Prop :=
  ∃ m, Fe.getter cf o nm = some m ∧ Ret (WellFormed nm) m

section
variable (hg : cf.guessClauses = []) (ht : cf.guessTailRaises = true)
include hg ht

theorem getter_ret (o : Obj) : ∀ nm ∈ getterNames, GetterRet cf o nm :=
  show ∀ nm ∈ ["pid", "ppid", "name", "exe", "cmdline", "status", "username", "create_time", "cwd", "nice", "uids", "gids", "terminal", "num_fds", "io_counters", "ionice", "cpu_affinity", "cpu_num", "environ", "num_ctx_switches", "num_threads", "threads", "cpu_times", "cpu_percent", "memory_info", "memory_full_info", "memory_percent", "memory_maps", "open_files", "net_connections"], GetterRet cf o nm from
  List.forall_mem_cons.2 ⟨⟨_, rfl, ret_pure (by wf)⟩,
    List.forall_mem_cons.2 ⟨⟨_, rfl, ret_bind fun _ => ret_pure (by wf)⟩,
    List.forall_mem_cons.2 ⟨⟨_, rfl, name_ret cf o⟩,
    List.forall_mem_cons.2 ⟨⟨_, rfl, exe_ret cf hg ht o⟩,
    List.forall_mem_cons.2 ⟨⟨_, rfl, ret_bind fun x => by obtain ⟨n, g⟩ := x; exact ret_pure (by wf)⟩,
    List.forall_mem_cons.2 ⟨⟨_, rfl, status_ret cf o⟩,
    List.forall_mem_cons.2 ⟨⟨_, rfl, ret_bind fun _ => ret_pure (by wf)⟩,
    List.forall_mem_cons.2 ⟨⟨_, rfl, ret_bind fun _ => ret_pure (by wf)⟩,
    List.forall_mem_cons.2 ⟨⟨_, rfl, ret_bind fun b => by cases b <;> exact ret_pure (by wf)⟩,
    List.forall_mem_cons.2 ⟨⟨_, rfl, ret_bind fun _ => ret_pure (by wf)⟩,
    List.forall_mem_cons.2 ⟨⟨_, rfl, ret_bind fun _ => ret_pure (by wf)⟩,
    List.forall_mem_cons.2 ⟨⟨_, rfl, ret_bind fun _ => ret_pure (by wf)⟩,
    List.forall_mem_cons.2 ⟨⟨_, rfl, ret_bind fun _ => ret_pure (by wf)⟩,
    List.forall_mem_cons.2 ⟨⟨_, rfl, ret_bind fun _ => ret_pure (by wf)⟩,
    List.forall_mem_cons.2 ⟨⟨_, rfl, ret_bind fun _ => ret_pure (by wf)⟩,
    List.forall_mem_cons.2 ⟨⟨_, rfl, ret_bind fun _ => ret_pure (by wf)⟩,
    List.forall_mem_cons.2 ⟨⟨_, rfl, ret_bind fun _ => ret_pure (by wf)⟩,
    List.forall_mem_cons.2 ⟨⟨_, rfl, ret_bind fun _ => ret_pure (by wf)⟩,
    List.forall_mem_cons.2 ⟨⟨_, rfl, ret_bind fun _ => ret_pure (by wf)⟩,
    List.forall_mem_cons.2 ⟨⟨_, rfl, ret_bind fun _ => ret_pure (by wf)⟩,
    List.forall_mem_cons.2 ⟨⟨_, rfl, ret_bind fun _ => ret_pure (by wf)⟩,
    List.forall_mem_cons.2 ⟨⟨_, rfl, ret_bind fun _ => ret_pure (by wf)⟩,
    List.forall_mem_cons.2 ⟨⟨_, rfl, ret_bind fun _ => ret_pure (by wf)⟩,
    List.forall_mem_cons.2 ⟨⟨_, rfl, ret_bind fun _ => ret_pure (by wf)⟩,
    List.forall_mem_cons.2 ⟨⟨_, rfl, ret_bind fun _ => ret_pure (by wf)⟩,
    List.forall_mem_cons.2 ⟨⟨_, rfl, ret_bind fun _ => ret_pure (by wf)⟩,
    List.forall_mem_cons.2 ⟨⟨_, rfl, ret_bind fun _ => ret_pure (by wf)⟩,
    List.forall_mem_cons.2 ⟨⟨_, rfl, ret_bind fun _ => ret_pure (by wf)⟩,
    List.forall_mem_cons.2 ⟨⟨_, rfl, ret_bind fun _ => ret_pure (by wf)⟩,
    List.forall_mem_cons.2 ⟨⟨_, rfl, ret_bind fun _ => ret_pure (by wf)⟩,
    (fun _ h => nomatch h)⟩⟩⟩⟩⟩⟩⟩⟩⟩⟩⟩⟩⟩⟩⟩⟩⟩⟩⟩⟩⟩⟩⟩⟩⟩⟩⟩⟩⟩⟩

/-! ## as_dict / process_iter: no stored value is an exception object -/

theorem asDictLoop_ret (o : Obj) (explicit : Bool) : ∀ (attrs : List String) (n : Nat) (ad : List String),
    (∀ nm ∈ attrs, nm ∈ getterNames) →
    Ret (fun x => x.2.2 = []) (Fe.asDictLoop cf o explicit attrs n ad []) := by
  intro attrs
  induction attrs with
  | nil => intro n ad _; unfold Fe.asDictLoop; exact ret_pure rfl
  | cons nm rest ih =>
    intro n ad hall
    have hrest : ∀ nm ∈ rest, nm ∈ getterNames := fun x hx => hall x (List.mem_cons_of_mem _ hx)
    obtain ⟨g, hgg, hret⟩ := getter_ret cf hg ht o nm (hall nm (List.mem_cons_self ..))
    unfold Fe.asDictLoop
    rw [hgg]
    simp only
    refine ret_bind' (Q := fun r => r ≠ some (some true)) ?_ (fun r hr => ?_)
    · refine ret_tryCatch (ret_bind' hret (fun v hv => ret_pure ?_)) (fun e m' h => ?_)
      · rw [wellFormed_not_exc hv]; simp
      · split at h
        · cases h; exact ret_pure (by simp)
        · split at h
          · split at h
            · split at h
              · cases h; exact ret_throw
              · cases h; exact ret_pure (by simp)
            · split at h
              · cases h; exact ret_pure (by simp)
              · cases h; exact ret_throw
          · cases h
    · match r, hr with
      | none, _ => exact ih _ _ hrest
      | some none, _ => exact ih _ _ hrest
      | some (some false), _ => simpa using ih _ _ hrest
      | some (some true), hr => exact absurd rfl hr

theorem asDictOf_ret (o : Obj) (explicit : Bool) (attrs : List String) (hall : ∀ nm ∈ attrs, nm ∈ getterNames) :
    Ret (fun x => x.2.2 = []) (Fe.asDictOf cf o explicit attrs) := by
  unfold Fe.asDictOf
  refine ret_bind fun entered => ?_
  refine ret_bind' (Q := fun r => ∀ v, r = .ok v → v.2.2 = []) ?_ (fun r hr => ret_bind fun _ => ?_)
  · refine ret_tryCatch (ret_bind' (asDictLoop_ret cf hg ht o explicit attrs 0 [] hall) (fun v hv => ret_pure ?_))
      (fun e m' h => ?_)
    · intro v' h; cases h; exact hv
    · cases h; exact ret_pure (fun v h => by cases h)
  · cases r with
    | ok v => exact ret_pure (hr v rfl)
    | error e => exact ret_throw

theorem iterLoop_ret (attrs : List String) (hall : ∀ nm ∈ attrs, nm ∈ getterNames) :
    ∀ qs : List Nat, Ret (fun l => ∀ x ∈ l, x.2.2.2 = []) (Fe.iterLoop cf attrs qs) := by
  intro qs
  induction qs with
  | nil => unfold Fe.iterLoop; exact ret_pure (fun _ h => nomatch h)
  | cons q qs ih =>
    unfold Fe.iterLoop
    refine ret_bind' (Q := fun r => ∀ x, r = some x → x.2.2.2 = []) ?_ (fun r hr => ret_bind' ih (fun more hm => ?_))
    · refine ret_tryCatch (ret_bind fun pr => ret_bind' (asDictOf_ret cf hg ht pr true attrs hall) (fun x hx => ?_))
        (fun e m' h => ?_)
      · obtain ⟨n, ad, bad⟩ := x
        exact ret_pure (fun y hy => by cases hy; exact hx)
      · split at h
        · cases h; exact ret_pure (fun y hy => by cases hy)
        · cases h
    · cases r with
      | none => exact ret_pure hm
      | some x =>
        refine ret_pure (fun y hy => ?_)
        rcases List.mem_cons.1 hy with h | h
        · subst h; exact hr _ rfl
        · exact hm y h

end

/-! ## the other public calls -/

/-- `Fe.method` dispatches every getter name unchanged -/
theorem method_eq_getter (o : Obj) : ∀ nm ∈ getterNames, Fe.method cf o nm = Fe.getter cf o nm :=
  show ∀ nm ∈ ["pid", "ppid", "name", "exe", "cmdline", "status", "username", "create_time", "cwd", "nice", "uids", "gids", "terminal", "num_fds", "io_counters", "ionice", "cpu_affinity", "cpu_num", "environ", "num_ctx_switches", "num_threads", "threads", "cpu_times", "cpu_percent", "memory_info", "memory_full_info", "memory_percent", "memory_maps", "open_files", "net_connections"], Fe.method cf o nm = Fe.getter cf o nm from
    List.forall_mem_cons.2 ⟨rfl,
    List.forall_mem_cons.2 ⟨rfl,
    List.forall_mem_cons.2 ⟨rfl,
    List.forall_mem_cons.2 ⟨rfl,
    List.forall_mem_cons.2 ⟨rfl,
    List.forall_mem_cons.2 ⟨rfl,
    List.forall_mem_cons.2 ⟨rfl,
    List.forall_mem_cons.2 ⟨rfl,
    List.forall_mem_cons.2 ⟨rfl,
    List.forall_mem_cons.2 ⟨rfl,
    List.forall_mem_cons.2 ⟨rfl,
    List.forall_mem_cons.2 ⟨rfl,
    List.forall_mem_cons.2 ⟨rfl,
    List.forall_mem_cons.2 ⟨rfl,
    List.forall_mem_cons.2 ⟨rfl,
    List.forall_mem_cons.2 ⟨rfl,
    List.forall_mem_cons.2 ⟨rfl,
    List.forall_mem_cons.2 ⟨rfl,
    List.forall_mem_cons.2 ⟨rfl,
    List.forall_mem_cons.2 ⟨rfl,
    List.forall_mem_cons.2 ⟨rfl,
    List.forall_mem_cons.2 ⟨rfl,
    List.forall_mem_cons.2 ⟨rfl,
    List.forall_mem_cons.2 ⟨rfl,
    List.forall_mem_cons.2 ⟨rfl,
    List.forall_mem_cons.2 ⟨rfl,
    List.forall_mem_cons.2 ⟨rfl,
    List.forall_mem_cons.2 ⟨rfl,
    List.forall_mem_cons.2 ⟨rfl,
    List.forall_mem_cons.2 ⟨rfl,
    (fun _ h => nomatch h)⟩⟩⟩⟩⟩⟩⟩⟩⟩⟩⟩⟩⟩⟩⟩⟩⟩⟩⟩⟩⟩⟩⟩⟩⟩⟩⟩⟩⟩⟩


theorem isRunning_ret (o : Obj) : Ret (WellFormed "is_running") (do let (r, _) ← Fe.isRunning cf o; pure (Val.bool r)) :=
  ret_bind fun x => by obtain ⟨a, b⟩ := x; exact ret_pure (by wf)

theorem children_ret (o : Obj) : Ret (WellFormed "children") (Fe.children cf o) := by
  unfold Fe.children
  exact ret_bind fun _ => ret_bind fun _ => ret_bind fun _ => ret_pure (by wf)

theorem childrenRec_ret (o : Obj) : Ret (WellFormed "children_recursive") (Fe.childrenRec cf o) := by
  unfold Fe.childrenRec Fe.childrenRecFuel
  exact ret_bind fun _ => ret_bind fun _ => ret_bind fun _ => ret_pure (by wf)

theorem parent_ret (o : Obj) : Ret (WellFormed "parent") (Fe.parent cf o) := by
  unfold Fe.parent
  refine ret_bind fun pids => ?_
  split
  · exact ret_throw
  · split
    · exact ret_bind fun _ => ret_pure (by wf)
    · refine ret_bind fun pp => ret_bind fun ct => ret_tryCatch (ret_bind fun par => ret_bind fun pt => ?_) (fun e m' h => ?_)
      · split <;> exact ret_pure (by wf)
      · split at h
        · cases h; exact ret_pure (by wf)
        · cases h

theorem parents_ret (o : Obj) : Ret (WellFormed "parents") (Fe.parents cf o) := by
  unfold Fe.parents Fe.parentsFuel
  refine ret_bind fun lowest => ret_bind fun r => ?_
  split
  · exact ret_pure (by wf)
  · split
    · exact ret_pure (by wf)
    · exact ret_bind fun _ => ret_bind fun _ => ret_pure (by wf)

end Psutil.C03
