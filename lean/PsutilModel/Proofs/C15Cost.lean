/-
  Proofs/C15Cost.lean — `wait_pid` when every system call (`_timer`, `os.waitpid`, `_pid_exists`,
  `_sleep`) takes up to δ of virtual time more than it should (`waitPidC`, Model/C15R2.lean):
    * with δ = 0 it is `waitPid` (`waitPidC_zero`);
    * never early, TimeoutExpired never before the deadline — unchanged;
    * every return happens before  start + timeout + 40 ms + 5·δ;
    * TimeoutExpired ⇒ the process was still alive δ before the raise instant.
-/
import PsutilModel.Proofs.C15Wait
import PsutilModel.Model.C15R2
namespace Psutil.C15
open Spec

@[simp] theorem CSt.sys_now (cost : Nat → Rat) (s : CSt) : (s.sys cost).now = s.now + cost s.nSys := rfl
@[simp] theorem CSt.sys_interval (cost : Nat → Rat) (s : CSt) : (s.sys cost).interval = s.interval := rfl
@[simp] theorem CSt.sys_nWait (cost : Nat → Rat) (s : CSt) : (s.sys cost).nWait = s.nWait := rfl
@[simp] theorem CSt.sys_sleeps (cost : Nat → Rat) (s : CSt) : (s.sys cost).sleeps = s.sleeps := rfl
@[simp] theorem CSt.waited_now (cost : Nat → Rat) (s : CSt) : (s.waited cost).now = s.now + cost s.nSys := rfl
@[simp] theorem CSt.waited_interval (cost : Nat → Rat) (s : CSt) : (s.waited cost).interval = s.interval := rfl
@[simp] theorem CSt.waited_nWait (cost : Nat → Rat) (s : CSt) : (s.waited cost).nWait = s.nWait + 1 := rfl
@[simp] theorem CSt.adv_now (c : Cfg) (cost : Nat → Rat) (s : CSt) :
    (s.advance c cost).now = s.now + cost s.nSys + s.interval := rfl
@[simp] theorem CSt.adv_nWait (c : Cfg) (cost : Nat → Rat) (s : CSt) : (s.advance c cost).nWait = s.nWait := rfl

/-! ### zero cost = the model of Model/C15.lean -/

section
variable (c : Cfg) (env : Env) (pid : Nat) (timeout : Option Rat) (stopAt : Rat)

def zc : Nat → Rat := fun _ => 0

theorem sys_zero_toSt (s : CSt) : (s.sys zc).toSt = s.toSt := by
  simp [CSt.toSt, CSt.sys, zc]

theorem adv_zero_toSt (s : CSt) : (s.advance c zc).toSt = s.toSt.advance c := by
  simp [CSt.toSt, CSt.advance, St.advance, zc]

theorem sleepStepC_zero (s : CSt) :
    ((sleepStepC c zc pid timeout stopAt s).1, (sleepStepC c zc pid timeout stopAt s).2.toSt) =
      sleepStep c pid timeout stopAt s.toSt := by
  unfold sleepStepC sleepStep
  cases timeout with
  | none => simp [adv_zero_toSt]
  | some τ =>
    simp only
    have e1 : (s.sys zc).now = s.toSt.now := by simp [CSt.toSt, zc]
    have e2 : ((s.advance c zc).sys zc).now = (s.toSt.advance c).now := by
      simp [CSt.toSt, St.advance, zc]
    by_cases hcb : c.checkBeforeSleep = true
    · simp only [hcb, if_true, e1]
      by_cases hp : pastDeadline c s.toSt.now stopAt = true
      · simp only [hp, if_true, sys_zero_toSt]
      · simp only [hp, Bool.false_eq_true, if_false]
        rw [adv_zero_toSt, sys_zero_toSt]
    · simp only [hcb, Bool.false_eq_true, if_false, e2]
      by_cases hp : pastDeadline c (s.toSt.advance c).now stopAt = true
      · simp only [hp, if_true]; rw [sys_zero_toSt, adv_zero_toSt]
      · simp only [hp, Bool.false_eq_true, if_false]; rw [sys_zero_toSt, adv_zero_toSt]

theorem pollNonChildC_zero : ∀ (fuel : Nat) (s : CSt),
    ((pollNonChildC c zc env pid timeout stopAt fuel s).1,
     (pollNonChildC c zc env pid timeout stopAt fuel s).2.toSt) =
      pollNonChild c env pid timeout stopAt fuel s.toSt := by
  intro fuel
  induction fuel with
  | zero => intro s; rfl
  | succ n ih =>
    intro s
    unfold pollNonChildC pollNonChild
    have e1 : (s.sys zc).now = s.toSt.now := by simp [CSt.toSt, zc]
    simp only [e1]
    by_cases he : env.pidExists s.toSt.now = true
    · simp only [he, if_true]
      have hs := sleepStepC_zero c pid timeout stopAt (s.sys zc)
      rw [sys_zero_toSt] at hs
      rw [← hs]
      cases hx : (sleepStepC c zc pid timeout stopAt (s.sys zc)).1 with
      | some o =>
        have : sleepStepC c zc pid timeout stopAt (s.sys zc) =
            (some o, (sleepStepC c zc pid timeout stopAt (s.sys zc)).2) := by rw [← hx]
        rw [this]
      | none =>
        have : sleepStepC c zc pid timeout stopAt (s.sys zc) =
            (none, (sleepStepC c zc pid timeout stopAt (s.sys zc)).2) := by rw [← hx]
        rw [this]; simp only; exact ih _
    · simp only [he, Bool.false_eq_true, if_false, sys_zero_toSt]

theorem toSt_now (s : CSt) : s.toSt.now = s.now := rfl
theorem toSt_nWait (s : CSt) : s.toSt.nWait = s.nWait := rfl

theorem waited_zero_toSt (s : CSt) : (s.waited zc).toSt = { s.toSt with nWait := s.toSt.nWait + 1 } := by
  simp [CSt.toSt, CSt.waited, CSt.sys, zc]

/-- body of one iteration of `waitLoop`, the state after the waitpid call abstracted -/
def stepBody (n k : Nat) (s1 : St) : Outcome × St :=
  if env.eintr k then
    match sleepStep c pid timeout stopAt s1 with
    | (some o, s') => (o, s')
    | (none, s') => waitLoop c env pid timeout stopAt n s'
  else
    match env.kind with
    | .child st =>
      match timeout with
      | some _ =>
        if env.ended s1.now then (decode st, s1)
        else
          match sleepStep c pid timeout stopAt s1 with
          | (some o, s') => (o, s')
          | (none, s') => waitLoop c env pid timeout stopAt n s'
      | none =>
        match env.exitAt with
        | some e => (decode st, { s1 with now := rmax s1.now e })
        | none => (.hang, s1)
    | _ => pollNonChild c env pid timeout stopAt (n + 1) s1

def stepBodyC (n k : Nat) (s1 : CSt) : Outcome × CSt :=
  if env.eintr k then
    match sleepStepC c zc pid timeout stopAt s1 with
    | (some o, s') => (o, s')
    | (none, s') => waitLoopC c zc env pid timeout stopAt n s'
  else
    match env.kind with
    | .child st =>
      match timeout with
      | some _ =>
        if env.ended s1.now then (decode st, s1)
        else
          match sleepStepC c zc pid timeout stopAt s1 with
          | (some o, s') => (o, s')
          | (none, s') => waitLoopC c zc env pid timeout stopAt n s'
      | none =>
        match env.exitAt with
        | some e => (decode st, { s1 with now := rmax s1.now e })
        | none => (.hang, s1)
    | _ => pollNonChildC c zc env pid timeout stopAt (n + 1) s1

theorem waitLoop_step (n : Nat) (s : St) :
    waitLoop c env pid timeout stopAt (n + 1) s =
      stepBody c env pid timeout stopAt n s.nWait { s with nWait := s.nWait + 1 } := by
  rw [waitLoop]; rfl

theorem waitLoopC_step (n : Nat) (s : CSt) :
    waitLoopC c zc env pid timeout stopAt (n + 1) s =
      stepBodyC c env pid timeout stopAt n s.nWait (s.waited zc) := by
  rw [waitLoopC]; rfl

theorem waitLoopC_zero : ∀ (fuel : Nat) (s : CSt),
    ((waitLoopC c zc env pid timeout stopAt fuel s).1,
     (waitLoopC c zc env pid timeout stopAt fuel s).2.toSt) =
      waitLoop c env pid timeout stopAt fuel s.toSt := by
  intro fuel
  induction fuel with
  | zero => intro s; rfl
  | succ n ih =>
    intro s
    have key : ∀ (s1 : CSt),
        (((match sleepStepC c zc pid timeout stopAt s1 with
            | (some o, s') => ((o, s') : Outcome × CSt)
            | (none, s') => waitLoopC c zc env pid timeout stopAt n s')).1,
         ((match sleepStepC c zc pid timeout stopAt s1 with
            | (some o, s') => ((o, s') : Outcome × CSt)
            | (none, s') => waitLoopC c zc env pid timeout stopAt n s')).2.toSt) =
        (match sleepStep c pid timeout stopAt s1.toSt with
          | (some o, s') => (o, s')
          | (none, s') => waitLoop c env pid timeout stopAt n s') := by
      intro s1
      have hs := sleepStepC_zero c pid timeout stopAt s1
      rw [← hs]
      cases hx : (sleepStepC c zc pid timeout stopAt s1).1 with
      | some o =>
        have : sleepStepC c zc pid timeout stopAt s1 = (some o, (sleepStepC c zc pid timeout stopAt s1).2) := by
          rw [← hx]
        rw [this]
      | none =>
        have : sleepStepC c zc pid timeout stopAt s1 = (none, (sleepStepC c zc pid timeout stopAt s1).2) := by
          rw [← hx]
        rw [this]; simp only; exact ih _
    have body : ∀ (k : Nat) (s1 : CSt),
        ((stepBodyC c env pid timeout stopAt n k s1).1, (stepBodyC c env pid timeout stopAt n k s1).2.toSt) =
          stepBody c env pid timeout stopAt n k s1.toSt := by
      intro k s1
      unfold stepBodyC stepBody
      by_cases hi : env.eintr k = true
      · simp only [hi, if_true]
        exact key s1
      · simp only [hi, Bool.false_eq_true, if_false]
        cases hk : env.kind with
        | child st =>
          simp only
          cases ht : timeout with
          | some τ =>
            simp only
            have hnow : s1.toSt.now = s1.now := rfl
            rw [hnow]
            by_cases he : env.ended s1.now = true
            · simp only [he, if_true]
            · simp only [he, Bool.false_eq_true, if_false]
              rw [← ht]; exact key s1
          | none =>
            simp only
            cases env.exitAt with
            | some e => rfl
            | none => rfl
        | nonChild =>
          simp only
          exact pollNonChildC_zero c env pid timeout stopAt (n + 1) s1
        | neverExisted =>
          simp only
          exact pollNonChildC_zero c env pid timeout stopAt (n + 1) s1
    rw [waitLoopC_step, waitLoop_step, body, waited_zero_toSt]
    rfl

/-- with system calls that cost nothing the costed model IS the model every other theorem is about -/
theorem waitPidC_zero (fuel : Nat) (now : Rat) (nWait nSys : Nat) :
    ((waitPidC c zc env pid timeout fuel now nWait nSys).1,
     (waitPidC c zc env pid timeout fuel now nWait nSys).2.toSt) = waitPid c env pid timeout fuel now nWait := by
  unfold waitPidC waitPid
  by_cases hp : pid = 0
  · simp [hp, CSt.toSt]
  · simp only [hp, if_false]
    cases timeout with
    | some τ =>
      simp only
      have := waitLoopC_zero c env pid (some τ) (now + τ) fuel ((⟨now, c.i0, nWait, nSys, []⟩ : CSt).sys zc)
      simp only [CSt.sys_now, zc, add_zero] at this ⊢
      rw [this, sys_zero_toSt]
      simp [CSt.toSt]
    | none =>
      simp only
      have := waitLoopC_zero c env pid none now fuel (⟨now, c.i0, nWait, nSys, []⟩ : CSt)
      rw [this]
      simp [CSt.toSt]

end

/-! ### system calls that take up to δ -/

section
variable {c : Cfg} (hg : c.Good) (cost : Nat → Rat) (δ : Rat) (hc : ∀ k, 0 ≤ cost k ∧ cost k ≤ δ)
  (env : Env) (pid : Nat) (timeout : Option Rat) (stopAt : Rat)
include hg hc

omit hg in
theorem delta_nonneg : 0 ≤ δ := le_trans (hc 0).1 (hc 0).2

omit hc in
theorem advC_interval (s : CSt) : (s.advance c cost).interval ≤ Spec.cap := by
  simp only [CSt.advance, hg.factor_eq, hg.cap_eq]
  exact rmin_le_right _ _

omit hc in
/-- `sleep()`: either it raises right after its clock reading, or the reading was before the
    deadline and it sleeps -/
theorem sleepStepC_cases (s : CSt) :
    (∃ τ, timeout = some τ ∧ stopAt ≤ (s.sys cost).now ∧
        sleepStepC c cost pid timeout stopAt s = (some (.timeout τ pid), s.sys cost)) ∨
    ((∀ τ, timeout = some τ → (s.sys cost).now < stopAt) ∧
      ((timeout = none ∧ sleepStepC c cost pid timeout stopAt s = (none, s.advance c cost)) ∨
       (timeout.isSome = true ∧ sleepStepC c cost pid timeout stopAt s = (none, (s.sys cost).advance c cost)))) := by
  cases timeout with
  | none => right; exact ⟨by simp, Or.inl ⟨rfl, rfl⟩⟩
  | some τ =>
    by_cases h : stopAt ≤ (s.sys cost).now
    · left
      have h' : stopAt ≤ s.now + cost s.nSys := h
      exact ⟨τ, rfl, h, by simp [sleepStepC, hg.check, pastDeadline, hg.ge, h']⟩
    · right
      refine ⟨fun _ _ => lt_of_not_ge h, Or.inr ⟨rfl, ?_⟩⟩
      simp only [sleepStepC, hg.check, if_true, pastDeadline, hg.ge]
      have : ¬ stopAt ≤ s.now + cost s.nSys := by simpa using h
      simp [this]

/-- what one run of the polling loops guarantees (`B` = bound, given a timeout) -/
def CGood (env : Env) (pid : Nat) (timeout : Option Rat) (stopAt δ : Rat) (strict : Bool) (r : Outcome × CSt) : Prop :=
  (timeout.isSome = true → r.2.now < stopAt + Spec.cap + 4 * δ) ∧
  (∀ cc, r.1 = .code cc → isChild env ∧ endedBy env r.2.now) ∧
  (r.1 = .none → ¬ isChild env ∧ endedBy env r.2.now) ∧
  (∀ sec p, r.1 = .timeout sec p → timeout = some sec ∧ p = pid ∧ stopAt ≤ r.2.now ∧
      ((strict = true ∨ env.eintr (r.2.nWait - 1) = false) → ¬ endedBy env (r.2.now - δ)))

theorem pollNonChildC_good (hk : ∀ st, env.kind ≠ .child st) : ∀ (fuel : Nat) (s : CSt),
    (timeout.isSome = true → s.now < stopAt + Spec.cap + 2 * δ) → s.interval ≤ Spec.cap →
    CGood env pid timeout stopAt δ true (pollNonChildC c cost env pid timeout stopAt fuel s) := by
  have hδ := delta_nonneg cost δ hc
  have hnc : ¬ isChild env := fun h => by obtain ⟨st, h⟩ := isChild_iff.1 h; exact hk st h
  intro fuel
  induction fuel with
  | zero =>
    intro s hB _
    refine ⟨fun h => ?_, fun _ h => (by cases h), fun h => (by cases h), fun _ _ h => (by cases h)⟩
    have := hB h
    show s.now < _
    linarith
  | succ n ih =>
    intro s hB hi
    unfold pollNonChildC
    have h1 := hc s.nSys
    by_cases he : env.pidExists (s.sys cost).now = true
    · simp only [he, if_true]
      have h2 := hc (s.sys cost).nSys
      rcases sleepStepC_cases hg cost pid timeout stopAt (s.sys cost) with ⟨τ, ht, hd, e⟩ | ⟨hlt, e⟩
      · rw [e]
        refine ⟨fun h => ?_, fun _ h => (by cases h), fun h => (by cases h), fun sec p h => ?_⟩
        · have := hB h
          simp only [CSt.sys_now, CSt.waited_now] at this ⊢
          linarith
        · cases h
          refine ⟨ht, rfl, hd, fun _ hen => ?_⟩
          have : endedBy env (s.sys cost).now := by
            refine endedBy_mono hen ?_
            simp only [CSt.sys_now, CSt.waited_now]; linarith
          exact not_endedBy_of_exists he this
      · rcases e with ⟨htn, e⟩ | ⟨hts, e⟩
        · rw [e]
          exact ih _ (fun h => by rw [htn] at h; cases h) (advC_interval hg cost _)
        · rw [e]
          refine ih _ (fun _ => ?_) (advC_interval hg cost _)
          obtain ⟨τ, hτ⟩ := Option.isSome_iff_exists.1 hts
          have := hlt τ hτ
          have h3 := hc ((s.sys cost).sys cost).nSys
          simp only [CSt.adv_now, CSt.sys_now, CSt.sys_interval, CSt.waited_now, CSt.waited_interval] at this ⊢
          linarith
    · have he' : env.pidExists (s.sys cost).now = false := by simpa using he
      simp only [he', Bool.false_eq_true, if_false]
      refine ⟨fun h => ?_, fun _ h => (by cases h), fun _ => ⟨hnc, endedBy_of_not_exists he'⟩,
        fun _ _ h => (by cases h)⟩
      have := hB h
      simp only [CSt.sys_now, CSt.waited_now]
      linarith

theorem waitLoopC_good : ∀ (fuel : Nat) (s : CSt),
    (timeout.isSome = true → s.now < stopAt + Spec.cap + δ) → s.interval ≤ Spec.cap →
    CGood env pid timeout stopAt δ false (waitLoopC c cost env pid timeout stopAt fuel s) := by
  have hδ := delta_nonneg cost δ hc
  intro fuel
  induction fuel with
  | zero =>
    intro s hB _
    refine ⟨fun h => ?_, fun _ h => (by cases h), fun h => (by cases h), fun _ _ h => (by cases h)⟩
    have := hB h
    show s.now < _
    linarith
  | succ n ih =>
    intro s hB hi
    unfold waitLoopC
    have h1 := hc s.nSys
    -- what `sleep()` does after a waitpid answer that does not end the loop; `alive` = that answer
    -- showed the process alive (nothing is known after an interrupted call)
    have after : ∀ (alive : Prop), (alive → ¬ endedBy env (s.now + cost s.nSys)) →
        (¬ alive → env.eintr s.nWait = true) →
        CGood env pid timeout stopAt δ false
          (match sleepStepC c cost pid timeout stopAt (s.waited cost) with
            | (some o, s') => ((o, s') : Outcome × CSt)
            | (none, s') => waitLoopC c cost env pid timeout stopAt n s') := by
      intro alive hal hnal
      have h2 := hc ((s.waited cost) : CSt).nSys
      rcases sleepStepC_cases hg cost pid timeout stopAt (s.waited cost)
        with ⟨τ, ht, hd, e⟩ | ⟨hlt, e⟩
      · rw [e]
        refine ⟨fun h => ?_, fun _ h => (by cases h), fun h => (by cases h), fun sec p h => ?_⟩
        · have := hB h
          simp only [CSt.sys_now, CSt.waited_now] at this ⊢
          linarith
        · cases h
          refine ⟨ht, rfl, hd, fun hs hen => ?_⟩
          by_cases ha : alive
          · refine hal ha (endedBy_mono hen ?_)
            simp only [CSt.sys_now, CSt.waited_now]; linarith
          · have := hnal ha
            rcases hs with hs | hs
            · cases hs
            · simp only [CSt.sys_nWait, CSt.waited_nWait, Nat.add_sub_cancel] at hs
              rw [this] at hs; cases hs
      · rcases e with ⟨htn, e⟩ | ⟨hts, e⟩
        · rw [e]
          exact ih _ (fun h => by rw [htn] at h; cases h) (advC_interval hg cost _)
        · rw [e]
          refine ih _ (fun _ => ?_) (advC_interval hg cost _)
          obtain ⟨τ, hτ⟩ := Option.isSome_iff_exists.1 hts
          have := hlt τ hτ
          have h3 := hc (((s.waited cost) : CSt).sys cost).nSys
          simp only [CSt.adv_now, CSt.sys_now, CSt.sys_interval, CSt.waited_now, CSt.waited_interval] at this ⊢
          linarith
    by_cases hie : env.eintr s.nWait = true
    · simp only [hie, if_true]
      exact after False (fun h => h.elim) (fun _ => hie)
    · have hie' : env.eintr s.nWait = false := by simpa using hie
      simp only [hie', Bool.false_eq_true, if_false]
      cases hk : env.kind with
      | child st =>
        simp only
        cases ht : timeout with
        | some τ =>
          simp only
          by_cases he : env.ended (s.now + cost s.nSys) = true
          · simp only [CSt.waited_now, he, if_true]
            refine ⟨fun h => ?_, fun _ _ => ⟨isChild_iff.2 ⟨st, hk⟩, endedBy_of_ended he⟩,
              fun h => absurd h (decode_ne_none st), fun sec p h => absurd h (decode_ne_timeout st sec p)⟩
            have := hB (by simp [ht])
            show s.now + cost s.nSys < _
            linarith
          · have he' : env.ended (s.now + cost s.nSys) = false := by simpa using he
            simp only [CSt.waited_now, he', Bool.false_eq_true, if_false]
            rw [← ht]
            exact after True (fun _ => not_endedBy_of_alive (by simp [hk]) he') (fun h => (h trivial).elim)
        | none =>
          simp only
          cases hx : env.exitAt with
          | some e =>
            simp only
            refine ⟨fun h => (by cases h), fun _ _ => ⟨isChild_iff.2 ⟨st, hk⟩, ?_⟩,
              fun h => absurd h (decode_ne_none st), fun sec p h => absurd h (decode_ne_timeout st sec p)⟩
            right; simp only [hx]; exact le_rmax_right _ _
          | none =>
            simp only
            exact ⟨fun h => (by cases h), fun _ h => (by cases h), fun h => (by cases h),
              fun _ _ h => (by cases h)⟩
      | nonChild =>
        simp only
        have hk' : ∀ st, env.kind ≠ .child st := by intro st h; rw [hk] at h; cases h
        obtain ⟨b, n1, n2, ts⟩ := pollNonChildC_good hg cost δ hc env pid timeout stopAt hk' (n + 1)
          (s.waited cost)
          (fun h => by have := hB h; simp only [CSt.sys_now, CSt.waited_now]; linarith) hi
        exact ⟨b, n1, n2, fun sec p h => by
          obtain ⟨a1, a2, a3, a4⟩ := ts sec p h
          exact ⟨a1, a2, a3, fun _ => a4 (Or.inl rfl)⟩⟩
      | neverExisted =>
        simp only
        have hk' : ∀ st, env.kind ≠ .child st := by intro st h; rw [hk] at h; cases h
        obtain ⟨b, n1, n2, ts⟩ := pollNonChildC_good hg cost δ hc env pid timeout stopAt hk' (n + 1)
          (s.waited cost)
          (fun h => by have := hB h; simp only [CSt.sys_now, CSt.waited_now]; linarith) hi
        exact ⟨b, n1, n2, fun sec p h => by
          obtain ⟨a1, a2, a3, a4⟩ := ts sec p h
          exact ⟨a1, a2, a3, fun _ => a4 (Or.inl rfl)⟩⟩

/-- `wait_pid` with costed system calls -/
theorem waitPidC_good (fuel : Nat) (now : Rat) (nWait nSys : Nat) (hτ : ∀ τ, timeout = some τ → 0 ≤ τ) :
    let r := waitPidC c cost env pid timeout fuel now nWait nSys
    (∀ τ, timeout = some τ → 0 ≤ τ → r.2.now < now + τ + Spec.cap + 5 * δ) ∧
    (∀ cc, r.1 = .code cc → isChild env ∧ endedBy env r.2.now) ∧
    (r.1 = .none → ¬ isChild env ∧ endedBy env r.2.now) ∧
    (∀ sec p, r.1 = .timeout sec p → timeout = some sec ∧ p = pid ∧ now + sec ≤ r.2.now ∧
        (env.eintr (r.2.nWait - 1) = false → ¬ endedBy env (r.2.now - δ))) := by
  have hδ := delta_nonneg cost δ hc
  intro r
  show _ ∧ _ ∧ _ ∧ _
  have hr : r = waitPidC c cost env pid timeout fuel now nWait nSys := rfl
  unfold waitPidC at hr
  by_cases hp : pid = 0
  · simp only [hp, if_true] at hr
    rw [hr]
    refine ⟨fun τ _ h0 => ?_, fun _ h => (by cases h), fun h => (by cases h), fun _ _ h => (by cases h)⟩
    show now < _
    linarith [cap_pos]
  · simp only [hp, if_false] at hr
    cases ht : timeout with
    | some τ =>
      rw [ht] at hr
      simp only at hr
      have h0 := hc nSys
      obtain ⟨b, n1, n2, ts⟩ := waitLoopC_good hg cost δ hc env pid (some τ)
        (((⟨now, c.i0, nWait, nSys, []⟩ : CSt).sys cost).now + τ) fuel ((⟨now, c.i0, nWait, nSys, []⟩ : CSt).sys cost)
        (fun _ => by simp only [CSt.sys_now]; linarith [cap_pos, h0.1, hτ τ ht])
        (by simp only [CSt.sys_interval, hg.i0_eq]; exact i0_le_cap)
      rw [← hr] at b n1 n2 ts
      refine ⟨fun τ' hτ' h0' => ?_, n1, n2, fun sec p h => ?_⟩
      · cases hτ'
        have := b rfl
        simp only [CSt.sys_now, CSt.waited_now] at this
        linarith
      · obtain ⟨a1, a2, a3, a4⟩ := ts sec p h
        cases a1
        refine ⟨rfl, a2, ?_, fun hne => a4 (Or.inr hne)⟩
        simp only [CSt.sys_now, CSt.waited_now] at a3
        linarith
    | none =>
      rw [ht] at hr
      simp only at hr
      obtain ⟨_, n1, n2, ts⟩ := waitLoopC_good hg cost δ hc env pid none now fuel
        (⟨now, c.i0, nWait, nSys, []⟩ : CSt) (fun h => by cases h)
        (by show c.i0 ≤ _; rw [hg.i0_eq]; exact i0_le_cap)
      rw [← hr] at n1 n2 ts
      refine ⟨fun τ' hτ' => (by cases hτ'), n1, n2, fun sec p h => ?_⟩
      obtain ⟨a1, _⟩ := ts sec p h
      cases a1

end

end Psutil.C15
