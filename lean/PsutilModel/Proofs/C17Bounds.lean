/-
  Proofs/C17Bounds.lean — helper lemmas and "good configuration" predicates for the bounds logic
  of C17: PSUTIL_STRNCPY, MAC formatting, the affinity loop, CPU_SET, pid range, ioprio packing,
  interface flag bits, and the /proc/filesystems + mount filter of disk_partitions().
-/
import PsutilModel.Model.C17
import PsutilModel.Spec.C17
namespace Psutil.C17
open Spec

/-! ### configuration predicates (what the translator facts must say) -/

structure PCfg.Good (c : PCfg) : Prop where
  pre : c.nodevPrefix = nodevWord
  kept : c.nodevKept = [zfs]
  idx : c.nodevSplitIdx = 1
  noneDev : c.noneDevice = noneWord
  aliases : c.rootAliases = [devRoot, rootfsWord]
  fdev : c.filterDevice = true
  ftyp : c.filterFstype = true

structure SCfg.Good (c : SCfg) : Prop where
  copy : c.copyMinus = 1
  term : c.termMinus = 1
  has : c.hasTerm = true
  sites : c.sitesSizeofDst = true

structure MCfg.Good (c : MCfg) : Prop where
  buf : c.bufSize = 1025
  step : c.step = 3
  masked : c.masked = true
  lower : c.lowerHex = true
  sep : c.sepChar = 58

structure ACfg.Good (c : ACfg) : Prop where
  init : c.initBits = 64
  guard : c.guard = some 1073741823
  factor : c.factor = 2

structure CCfg.Good (c : CCfg) : Prop where
  bytes : c.setBytes = 128
  checked : c.checkedMacro = true

structure RCfg.Good (c : RCfg) : Prop where
  bits : c.pidBits = 32
  neg : c.negGuard = true

/-- the C entry point refuses every `ioclass` whose shift is not representable -/
def ICfg.CSafe (c : ICfg) : Prop :=
  c.shift = 13 ∧ ∃ lo hi, c.cGuard = some (lo, hi) ∧ 0 ≤ lo ∧ hi ≤ 262143

/-- `ionice_set` refuses them before calling the extension -/
def ICfg.PySafe (c : ICfg) : Prop :=
  c.shift = 13 ∧ ∃ lo hi, c.pyClassGuard = some (lo, hi) ∧ 0 ≤ lo ∧ hi ≤ 262143

/-! ### §3 sequential stores -/

theorem applyWrites_append (d : Bytes) (a b : List (Nat × Nat)) :
    applyWrites d (a ++ b) = applyWrites (applyWrites d a) b := by
  simp [applyWrites, List.foldl_append]

/-- storing the bytes `b` one after the other from index `k` on -/
theorem applyWrites_run (b d : Bytes) (k : Nat) (h : k + b.length ≤ d.length) :
    applyWrites d ((b.zipIdx k).map (fun p => (p.2, p.1))) = d.take k ++ b ++ d.drop (k + b.length) := by
  induction b generalizing d k with
  | nil => simp [applyWrites]
  | cons x b ih =>
    simp only [List.length_cons] at h
    have hk : k < d.length := by omega
    simp only [List.zipIdx_cons, List.map_cons, applyWrites, List.foldl_cons]
    have := ih (d.set k x) (k + 1) (by simp; omega)
    simp only [applyWrites] at this
    rw [this]
    rw [List.set_eq_take_append_cons_drop, if_pos hk]
    have e1 : (List.take k d ++ x :: List.drop (k + 1) d).take (k + 1) = List.take k d ++ [x] := by
      have hl : (List.take k d).length = k := by simp; omega
      have ht : List.take (k + 1) (List.take k d) = List.take k d := by
        rw [List.take_take]; congr 1; omega
      have e : k + 1 - k = 1 := by omega
      rw [List.take_append, hl, ht, e]
      simp
    have e2 : (List.take k d ++ x :: List.drop (k + 1) d).drop (k + 1 + b.length) = d.drop (k + (b.length + 1)) := by
      have hl : (List.take k d).length = k := by simp; omega
      rw [List.drop_append, hl]
      have : List.drop (k + 1 + b.length) (List.take k d) = [] := by
        apply List.drop_eq_nil_of_le; simp; omega
      rw [this]
      have e : k + 1 + b.length - k = (b.length) + 1 := by omega
      rw [e, List.nil_append, List.drop_succ_cons, List.drop_drop]
      congr 1; omega
    rw [e1, e2]
    simp [List.length_cons, List.append_assoc]

theorem strncpyBytes_length (src : Bytes) (k : Nat) : (strncpyBytes src k).length = k := by
  unfold strncpyBytes
  simp only [List.length_append, List.length_replicate, List.length_take]
  omega

theorem takeWhile_append_zero (s z : Bytes) (hs : ∀ c ∈ s, c ≠ 0) (hz : z ≠ [] → z.head? = some 0) :
    (s ++ z).takeWhile (fun c => c != 0) = s := by
  induction s with
  | nil =>
    cases z with
    | nil => rfl
    | cons a z => simp at hz; simp [List.takeWhile, hz]
  | cons a s ih =>
    have ha : (a != 0) = true := by simpa using hs a (by simp)
    simp only [List.cons_append, List.takeWhile, ha]
    rw [ih (fun c hc => hs c (by simp [hc]))]

theorem cut_nonzero (s : Bytes) : ∀ c ∈ cut s, c ≠ 0 := by
  unfold cut
  induction s with
  | nil => simp
  | cons a s ih =>
    intro c hc
    simp only [List.takeWhile] at hc
    by_cases ha : (a != 0) = true
    · simp only [ha, List.mem_cons] at hc
      rcases hc with rfl | hc
      · simpa using ha
      · exact ih c hc
    · have ha' : (a != 0) = false := by simpa using ha
      simp [ha'] at hc

/-! ### §5 the doubling loop: running against a kernel that never accepts is the longest run -/

theorem affLoop_sim (c : ACfg) (need : Option Nat) (fuel : Nat) (n : Int) :
    (∃ k, affLoop c need fuel n = .ok k) ∨ affLoop c need fuel n = affLoop c none fuel n := by
  induction fuel generalizing n with
  | zero => right; rfl
  | succ fuel ih =>
    by_cases hk : kernelOk need n = true
    · left; exact ⟨n, by simp [affLoop, hk]⟩
    · have hk' : kernelOk need n = false := by simpa using hk
      have hn : kernelOk none n = false := rfl
      simp only [affLoop, hk', hn, Bool.false_eq_true, if_false]
      cases hgd : guardHit c.guard n with
      | true => right; rfl
      | false =>
        by_cases hu : n * c.factor > INT_MAX ∨ n * c.factor < INT_MIN
        · right; simp only [hu, if_true]
        · simp only [hu, if_false, Bool.false_eq_true]; exact ih _

/-! ### §6 CPU_SET -/

theorem cpuSetWord_good (c : CCfg) (hg : c.Good) (v : Int) (w : Nat) (h : cpuSetWord c v = some w) :
    8 * w + 8 ≤ c.setBytes := by
  unfold cpuSetWord at h
  rw [hg.checked, hg.bytes] at h
  rw [hg.bytes]
  simp only [if_true] at h
  split at h
  · injection h with h; omega
  · cases h

/-! ### §9 flag bits -/

theorem and_two_pow_ne_zero (x k : Nat) : (x &&& 2 ^ k != 0) = (x / 2 ^ k % 2 == 1) := by
  have ht : x.testBit k = decide (x / 2 ^ k % 2 = 1) := Nat.testBit_eq_decide_div_mod_eq
  by_cases hb : x.testBit k = true
  · have h1 : (x &&& 2 ^ k).testBit k = true := by simp [Nat.testBit_and, hb, Nat.testBit_two_pow]
    have h2 : x &&& 2 ^ k ≠ 0 := by
      intro e; rw [e] at h1; simp at h1
    rw [hb] at ht
    have h3 : x / 2 ^ k % 2 = 1 := by simpa using ht.symm
    simp [h2, h3]
  · have hb' : x.testBit k = false := by simpa using hb
    have h2 : x &&& 2 ^ k = 0 := by
      apply Nat.eq_of_testBit_eq
      intro i
      simp only [Nat.testBit_and, Nat.testBit_two_pow, Nat.zero_testBit]
      by_cases hi : k = i
      · subst hi; simp [hb']
      · simp [hi]
    rw [hb'] at ht
    have h3 : ¬ x / 2 ^ k % 2 = 1 := by simpa using ht.symm
    simp [h2, h3]

end Psutil.C17
