/-
  Proofs/C05Dyn.lean — helper lemmas for the theorems about the richer world (zombies, unreadable
  stat files, a world per step of `parents()`, oneshot) in Props/C05.lean.
-/
import PsutilModel.Proofs.C05
import PsutilModel.Proofs.C05Parent
import PsutilModel.Spec.C05Dyn
namespace Psutil.C05
open Spec

/-! ## children(): when no examined PID is unreadable the extended walk IS the old walk -/

theorem filterX_ok {ex : Nat → Exam} : ∀ {l : List Nat}, (∀ p ∈ l, ex p ≠ .raise) →
    filterX ex l = .ok (l.filter fun p => ex p == .take) := by
  intro l
  induction l with
  | nil => intro _; rfl
  | cons p ps ih =>
    intro h
    have hp := h p (List.mem_cons_self ..)
    have ih' := ih (fun q hq => h q (List.mem_cons_of_mem _ hq))
    unfold filterX
    cases hex : ex p with
    | raise => exact absurd hex hp
    | skip => simp [ih', hex]
    | take => simp [ih', hex]

theorem examOf_take (op : Cmp) (ct : Nat) (w : XWorld) (p : Nat) :
    (examOf op ct w p == .take) = accepted op ct (lookOfW w) p := by
  unfold examOf accepted lookOfW
  cases w p with
  | gone => rfl
  | denied => rfl
  | ok pp s => cases h : op.eval ct s <;> simp [h]

theorem examOf_raise {op : Cmp} {ct : Nat} {w : XWorld} {p : Nat} :
    examOf op ct w p = .raise ↔ w p = .denied := by
  unfold examOf
  cases w p with
  | gone => simp
  | denied => simp
  | ok pp s => cases h : op.eval ct s <;> simp [h]

theorem kidsOf_sub_keys {pm : PpidMap} {pid c : Nat} (h : c ∈ kidsOf pm pid) : c ∈ pm.map (·.1) :=
  List.mem_map.2 ⟨(c, pid), mem_kidsOf.1 h, rfl⟩

theorem walkX_ok {sg : Bool} {ex : Nat → Exam} {pm : PpidMap} (h : ∀ p ∈ pm.map (·.1), ex p ≠ .raise) :
    ∀ (fuel : Nat) (seen stack ret : List Nat),
      walkX sg ex pm fuel seen stack ret
        = (walk sg (fun p => ex p == .take) pm fuel seen stack ret).map .ok := by
  intro fuel
  induction fuel with
  | zero => intro _ _ _; rfl
  | succ fuel ih =>
    intro seen stack ret
    cases stack with
    | nil => rfl
    | cons pid rest =>
      unfold walkX walk
      by_cases hs : (sg && seen.contains pid) = true
      · simp only [hs, if_true]; exact ih _ _ _
      · simp only [hs, if_false]
        rw [filterX_ok (fun p hp => h p (kidsOf_sub_keys hp))]
        exact ih _ _ _

theorem ppidMapX_skip (w : XWorld) : ∀ L : List Nat, ppidMapX true true w L = .ok (linksOf L w) := by
  intro L
  induction L with
  | nil => rfl
  | cons p ps ih =>
    unfold ppidMapX linksOf
    cases hw : w p with
    | gone => simp only [List.filterMap_cons, hw]; exact ih
    | denied => simp only [List.filterMap_cons, hw, if_true]; exact ih
    | ok pp s =>
      simp only [List.filterMap_cons, hw, ih]
      rfl

theorem mem_linksOf {L : List Nat} {w : XWorld} {c p : Nat} :
    (c, p) ∈ linksOf L w ↔ c ∈ L ∧ ∃ s, w c = .ok p s := by
  unfold linksOf
  rw [List.mem_filterMap]
  constructor
  · rintro ⟨a, ha, h⟩
    cases hw : w a with
    | gone => rw [hw] at h; cases h
    | denied => rw [hw] at h; cases h
    | ok pp s =>
      rw [hw] at h
      simp only [Option.some.injEq, Prod.mk.injEq] at h
      obtain ⟨rfl, rfl⟩ := h
      exact ⟨ha, s, hw⟩
  · rintro ⟨hc, s, hs⟩
    exact ⟨c, hc, by rw [hs]⟩

theorem linksOf_keys_sub {L : List Nat} {w : XWorld} : ∀ x ∈ (linksOf L w).map (·.1), x ∈ L := by
  intro x hx
  obtain ⟨e, he, rfl⟩ := List.mem_map.1 hx
  exact (mem_linksOf.1 (show (e.1, e.2) ∈ linksOf L w from he)).1

theorem uniquePids_linksOf {L : List Nat} (w : XWorld) (h : L.Nodup) : UniquePids (linksOf L w) := by
  unfold UniquePids
  induction L with
  | nil => simp [linksOf]
  | cons p ps ih =>
    rw [List.nodup_cons] at h
    have ih' := ih h.2
    unfold linksOf at ih' ⊢
    cases hw : w p with
    | gone => simpa only [List.filterMap_cons, hw] using ih'
    | denied => simpa only [List.filterMap_cons, hw] using ih'
    | ok pp s =>
      simp only [List.filterMap_cons, hw, List.map_cons, List.nodup_cons]
      refine ⟨fun hm => h.1 (linksOf_keys_sub (L := ps) (w := w) p hm), ih'⟩

theorem isRunningX_eq {w : XWorld} {me : Caller} (h : w me.pid ≠ .denied) :
    isRunningX w me = isRunning (lookOfW w) me := by
  unfold isRunningX isRunning lookOfW
  cases hw : w me.pid with
  | gone => rfl
  | denied => exact absurd hw h
  | ok pp s => rfl

theorem raiseX_eq (g : Bool) {w : XWorld} {me : Caller} (h : w me.pid ≠ .denied) :
    raiseIfPidReusedX g w me = raiseIfPidReused g (lookOfW w) me := by
  unfold raiseIfPidReusedX raiseIfPidReused
  rw [isRunningX_eq h]

/-- an unreadable own stat file makes the identity check fail: NoSuchProcess -/
theorem raiseX_denied {w : XWorld} {me : Caller} (h : w me.pid = .denied) :
    (raiseIfPidReusedX true w me).2 = true := by
  unfold raiseIfPidReusedX isRunningX
  cases hr : me.reused with
  | true => simp
  | false =>
    cases hg : me.gone with
    | true => simp [hg]
    | false => simp [hg, h]

/-- **refinement**: with the skip in `ppid_map()`, a caller whose own stat is readable, and no
    unreadable stat among the mapped PIDs when they are examined, `children()` in the rich world is
    `children()` of Model/C05.lean over the visible links -/
theorem childrenX_refines (c : XCfg) (hskip : c.mapSkipsDenied = true ∧ c.mapSkipsGone = true) (me : Caller) (recursive : Bool)
    (L : List Nat) (w0 wl : XWorld) (hme : w0 me.pid ≠ .denied)
    (hwl : ∀ p ∈ (linksOf L w0).map (·.1), wl p ≠ .denied) :
    childrenX c me recursive L w0 wl
      = ((children c.base me recursive (lookOfW w0) (linksOf L w0) (lookOfW wl)).1,
         XOut.ofOut (children c.base me recursive (lookOfW w0) (linksOf L w0) (lookOfW wl)).2) := by
  unfold childrenX children
  rw [hskip.1, hskip.2, ppidMapX_skip, raiseX_eq _ hme]
  have hkeys : ∀ (op : Cmp) (p : Nat), p ∈ (usedMap c.base me.pid (linksOf L w0)).map (·.1) →
      examOf op me.ctime wl p ≠ .raise := by
    intro op p hp
    have hp' : p ∈ (linksOf L w0).map (·.1) := by
      unfold usedMap at hp
      by_cases hs : c.base.skipSelf = true
      · simp only [hs, if_true] at hp
        obtain ⟨e, he, rfl⟩ := List.mem_map.1 hp
        exact List.mem_map.2 ⟨e, (List.mem_filter.1 he).1, rfl⟩
      · simp only [hs, if_false] at hp; exact hp
    intro hr
    exact hwl p hp' (examOf_raise.1 hr)
  by_cases hg : (if c.base.childrenGuarded = true then raiseIfPidReused c.base.goneRaises (lookOfW w0) me
      else (me, false)).2 = true
  · simp only [hg, if_true]; rfl
  · simp only [hg, if_false]
    cases recursive with
    | false =>
      simp only [Bool.not_false, if_true]
      unfold childrenFlat
      rw [filterX_ok (fun p hp => hkeys _ p (kidsOf_sub_keys hp))]
      have : (fun p => examOf c.base.childOp me.ctime wl p == .take)
          = accepted c.base.childOp me.ctime (lookOfW wl) := funext (examOf_take _ _ _)
      rw [this]; rfl
    | true =>
      simp only [Bool.not_true, Bool.false_eq_true, if_false]
      rw [walkX_ok (hkeys c.base.descOp)]
      have : (fun p => examOf c.base.descOp me.ctime wl p == .take)
          = accepted c.base.descOp me.ctime (lookOfW wl) := funext (examOf_take _ _ _)
      rw [this]
      cases walk c.base.seenGuard (accepted c.base.descOp me.ctime (lookOfW wl))
        (usedMap c.base me.pid (linksOf L w0)) (walkFuel (usedMap c.base me.pid (linksOf L w0))) [] [me.pid] [] <;> rfl

/-! ## zombies -/

def unz (r : XRow) : XRow := { r with st := match r.st with | .zombie => .run | s => s }

/-- the state letter Z changes nothing a stat read returns -/
theorem read_unz (T : XTable) : XTable.read (T.map unz) = XTable.read T := by
  funext pid
  unfold XTable.read
  induction T with
  | nil => rfl
  | cons r rs ih =>
    simp only [List.map_cons, List.find?_cons]
    have hp : (unz r).pid = r.pid := rfl
    rw [hp]
    cases hpid : r.pid == pid with
    | false => simpa using ih
    | true =>
      simp only
      cases hst : r.st <;> simp [unz, hst]

theorem pids_unz (T : XTable) : XTable.pids (T.map unz) = XTable.pids T := by
  unfold XTable.pids
  rw [List.map_map]
  rfl

/-! ## parent() / parents() with a world per step -/

def Spec.PRes.toOut : PRes → XOut (Option Row)
  | PRes.none => .ok Option.none
  | PRes.some q => .ok (Option.some q)
  | PRes.nsp p => .nsp p
  | PRes.denied p => .denied p

theorem raiseX_alive (g : Bool) {w : XWorld} {me : Caller} (hr : me.reused = false) (hgone : me.gone = false)
    {pp : Nat} (h : w me.pid = .ok pp me.ctime) : raiseIfPidReusedX g w me = (me, false) := by
  unfold raiseIfPidReusedX isRunningX
  simp [hr, hgone, h]

theorem raiseX_dead {w : XWorld} {me : Caller} (hr : me.reused = false) (hgone : me.gone = false)
    (h : ∀ pp, w me.pid ≠ .ok pp me.ctime) : (raiseIfPidReusedX true w me).2 = true := by
  unfold raiseIfPidReusedX isRunningX
  cases hw : w me.pid with
  | gone => simp [hr, hgone]
  | denied => simp [hr, hgone]
  | ok pp s =>
    have hne : (s == me.ctime) = false := by
      cases hb : s == me.ctime with
      | false => rfl
      | true =>
        have : s = me.ctime := by simpa using hb
        subst this
        exact absurd hw (h pp)
    simp [hr, hgone, hne]

/-- one `parent()` under a good configuration = `parentOfW`, outside a oneshot cache hit -/
theorem parentX_spec (c : Cfg) (hg : c.Good) (ps : Ps) (s : PStep) (me : Caller) (os : Oneshot) (low : Nat)
    (hlow : lowestPidX ps s.listing = (⟨some low⟩, some low))
    (hos : ∀ pp, os ≠ some (some pp)) (hr : me.reused = false) (hgone : me.gone = false) :
    (parentX c ps s me os).1 = ⟨some low⟩
      ∧ (parentX c ps s me os).2.2.2 = (parentOfW c.rootGuarded s low me.pid me.ctime).toOut := by
  unfold parentX
  simp only [hg.lowestStop, if_true, hlow]
  by_cases hroot : me.pid = low
  · cases hrg : c.rootGuarded with
    | false => simp [hroot, parentOfW, PRes.toOut]
    | true =>
      simp only [hroot, beq_self_eq_true, if_true, parentOfW, hg.goneRaises]
      rw [← hroot]
      cases hwi : s.wi me.pid with
      | gone =>
        have := raiseX_dead (w := s.wi) hr hgone (by intro pp; rw [hwi]; simp)
        simp [this, PRes.toOut]
      | denied =>
        have := raiseX_dead (w := s.wi) hr hgone (by intro pp; rw [hwi]; simp)
        simp [this, PRes.toOut]
      | ok pp0 s0 =>
        by_cases hs0 : s0 = me.ctime
        · subst hs0
          rw [raiseX_alive true hr hgone hwi]
          simp [PRes.toOut]
        · have := raiseX_dead (w := s.wi) hr hgone (by
            intro pp; rw [hwi]; intro h; cases h; exact hs0 rfl)
          simp [this, hs0, PRes.toOut]
  · have hbeq : (me.pid == low) = false := by simpa using hroot
    simp only [hbeq, Bool.false_eq_true, if_false, true_and]
    have hos' : ppidX c s me os = ppidFresh c s me os := by
      unfold ppidX
      cases os with
      | none => rfl
      | some o =>
        cases o with
        | none => rfl
        | some pp => exact absurd rfl (hos pp)
    unfold parentCoreX parentOfW
    rw [hos']
    unfold ppidFresh
    simp only [hroot, if_false, hg.ppidGuarded, hg.goneRaises, if_true]
    cases hwi : s.wi me.pid with
    | gone =>
      have := raiseX_dead (w := s.wi) hr hgone (by intro pp; rw [hwi]; simp)
      simp [this, PRes.toOut]
    | denied =>
      have := raiseX_dead (w := s.wi) hr hgone (by intro pp; rw [hwi]; simp)
      simp [this, PRes.toOut]
    | ok pp0 s0 =>
      by_cases hs0 : s0 = me.ctime
      · subst hs0
        rw [raiseX_alive true hr hgone hwi]
        simp only [Bool.false_eq_true, if_false, if_true]
        cases hwo : s.wo me.pid with
        | gone => simp [PRes.toOut]
        | denied => simp [PRes.toOut]
        | ok pp st0 =>
          simp only
          cases hwp : s.wp pp with
          | gone => simp [PRes.toOut]
          | denied => simp [PRes.toOut]
          | ok gp st =>
            by_cases hle : st ≤ me.ctime
            · simp [hg.parentOp, Cmp.eval, hle, PRes.toOut]
            · simp [hg.parentOp, Cmp.eval, hle, PRes.toOut]
      · have := raiseX_dead (w := s.wi) hr hgone (by
          intro pp; rw [hwi]; intro h; cases h; exact hs0 rfl)
        simp [this, hs0, PRes.toOut]

theorem lowestPidX_cached (low : Nat) (L : List Nat) : lowestPidX ⟨some low⟩ L = (⟨some low⟩, some low) := rfl

/-- the loop of `parents()` under a good configuration is `chainDyn` -/
theorem parentsLoopX_spec (c : Cfg) (hg : c.Good) (W : Nat → PStep) (low : Nat) :
    ∀ (fuel i : Nat) (ps : Ps) (seen : List Nat) (cur : Caller) (os : Oneshot) (acc : List Row),
      lowestPidX ps (W i).listing = (⟨some low⟩, some low) → (∀ pp, os ≠ some (some pp)) →
      cur.reused = false → cur.gone = false →
      (parentsLoopX c W fuel i ps seen cur os acc).2 = chainDyn c.rootGuarded W low fuel i seen cur.pid cur.ctime acc := by
  intro fuel
  induction fuel with
  | zero => intro _ _ _ _ _ _ _ _ _ _; rfl
  | succ fuel ih =>
    intro i ps seen cur os acc hlow hos hr hgone
    obtain ⟨h1, h2⟩ := parentX_spec c hg ps (W i) cur os low hlow hos hr hgone
    unfold parentsLoopX chainDyn
    rcases hp : parentX c ps (W i) cur os with ⟨ps', me', os', out⟩
    rw [hp] at h1 h2
    simp only at h1 h2
    subst h1 h2
    cases hpo : parentOfW c.rootGuarded (W i) low cur.pid cur.ctime with
    | none => simp [PRes.toOut]
    | nsp p => simp [PRes.toOut]
    | denied p => simp [PRes.toOut]
    | some q =>
      simp only [PRes.toOut, hg.parentsSeen, Bool.true_and]
      by_cases hs : q.pid ∈ seen
      · simp [hs]
      · simp only [List.contains_iff_mem, hs, if_false]
        exact ih (i + 1) _ _ _ none _ (lowestPidX_cached low _) (by intro pp h; cases h) rfl rfl

theorem parentOfW_some {rg : Bool} {s : PStep} {low pid ct : Nat} {q : Row} (h : parentOfW rg s low pid ct = .some q) :
    SameAt s pid ct ∧ ParentAt s pid ct q := by
  unfold parentOfW at h
  by_cases hroot : pid = low
  · cases rg with
    | false => simp [hroot] at h
    | true =>
      simp only [hroot, if_true] at h
      cases hwi : s.wi low with
      | gone => simp [hwi] at h
      | denied => simp [hwi] at h
      | ok pp0 s0 =>
        simp only [hwi] at h
        by_cases hs0 : s0 = ct
        · simp [hs0] at h
        · simp [hs0] at h
  · simp only [hroot, if_false] at h
    cases hwi : s.wi pid with
    | gone => simp [hwi] at h
    | denied => simp [hwi] at h
    | ok pp0 s0 =>
      simp only [hwi] at h
      by_cases hs0 : s0 = ct
      · subst hs0
        simp only [if_true] at h
        cases hwo : s.wo pid with
        | gone => simp [hwo] at h
        | denied => simp [hwo] at h
        | ok pp st0 =>
          simp only [hwo] at h
          cases hwp : s.wp pp with
          | gone => simp [hwp] at h
          | denied => simp [hwp] at h
          | ok gp st =>
            simp only [hwp] at h
            by_cases hle : st ≤ s0
            · simp only [hle, if_true, PRes.some.injEq] at h
              subst h
              exact ⟨⟨pp0, hwi⟩, ⟨st0, hwo⟩, hwp, hle⟩
            · simp [hle] at h
      · simp [hs0] at h

/-- what `chainDyn` returns is linked step by step, avoids the PIDs already seen, repeats none -/
theorem chainDyn_linked (rg : Bool) (W : Nat → PStep) (low : Nat) :
    ∀ (n i : Nat) (seen : List Nat) (pid ct : Nat) (acc l : List Row),
      chainDyn rg W low n i seen pid ct acc = .ok l →
      ∃ l', l = acc ++ l' ∧ Linked W i pid ct l' ∧ (∀ q ∈ l', q.pid ∉ seen) ∧ (l'.map (·.pid)).Nodup
        ∧ (∀ q ∈ l', q.start ≤ ct) := by
  intro n
  induction n with
  | zero => intro i seen pid ct acc l h; simp [chainDyn] at h
  | succ n ih =>
    intro i seen pid ct acc l h
    unfold chainDyn at h
    cases hpo : parentOfW rg (W i) low pid ct with
    | none =>
      simp only [hpo, XOut.ok.injEq] at h
      exact ⟨[], by simp [h], Linked.nil, by simp, by simp, by simp⟩
    | nsp p => simp [hpo] at h
    | denied p => simp [hpo] at h
    | some q =>
      simp only [hpo] at h
      by_cases hs : seen.contains q.pid = true
      · simp only [hs, if_true, XOut.ok.injEq] at h
        exact ⟨[], by simp [h], Linked.nil, by simp, by simp, by simp⟩
      · simp only [hs, if_false] at h
        obtain ⟨l', hl, hlink, hseen, hnd, hle⟩ := ih _ _ _ _ _ _ h
        obtain ⟨hsame, hpar⟩ := parentOfW_some hpo
        have hqs : q.pid ∉ seen := by simpa using hs
        refine ⟨q :: l', by simp [hl], Linked.cons hsame hpar hlink, ?_, ?_, ?_⟩
        · intro r hr
          rcases List.mem_cons.1 hr with rfl | hr'
          · exact hqs
          · exact fun hm => hseen r hr' (List.mem_cons_of_mem _ hm)
        · rw [List.map_cons, List.nodup_cons]
          refine ⟨?_, hnd⟩
          intro hm
          obtain ⟨r, hr, hrq⟩ := List.mem_map.1 hm
          exact hseen r hr (by rw [hrq]; exact List.mem_cons_self ..)
        · intro r hr
          rcases List.mem_cons.1 hr with rfl | hr'
          · exact hpar.2.2
          · exact Nat.le_trans (hle r hr') hpar.2.2

/-- termination: every iteration adds a PID not seen before, and all of them come from `U` -/
theorem chainDyn_terminates (rg : Bool) (W : Nat → PStep) (low : Nat) (U : List Nat)
    (hU : ∀ i p gp st, (W i).wp p = .ok gp st → p ∈ U) :
    ∀ (n i : Nat) (seen : List Nat) (pid ct : Nat) (acc : List Row),
      unseenCnt U seen < n → chainDyn rg W low n i seen pid ct acc ≠ .diverged := by
  intro n
  induction n with
  | zero => intro _ _ _ _ _ h; omega
  | succ n ih =>
    intro i seen pid ct acc hlt
    unfold chainDyn
    cases hpo : parentOfW rg (W i) low pid ct with
    | none => simp
    | nsp p => simp
    | denied p => simp
    | some q =>
      simp only
      by_cases hs : q.pid ∈ seen
      · simp [hs]
      · simp only [List.contains_iff_mem, hs, if_false]
        have hqs : q.pid ∉ seen := hs
        have hqU : q.pid ∈ U := hU i q.pid q.ppid q.start (parentOfW_some hpo).2.2.1
        have := unseenCnt_lt hqU hqs
        exact ih _ _ _ _ _ (by omega)

end Psutil.C05
