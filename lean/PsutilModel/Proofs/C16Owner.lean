/-
  Proofs/C16Owner.lean — what the candidate repair `cacheOwnerOnly` buys (Model/C16Conc2.lean with
  `ownerOnly = true`: cache_activate tags the dict with the activating thread, the wrapper consults and
  fills the cache only when called by that thread, every other thread calls `fun(self)` directly).

  OInv: a thread only ever holds references to dicts it created itself, and only while it is inside a
  block of its own; the slot it is about to fill is still empty (nobody else writes into its dicts).
  Consequences (Props/C16.lean): a plain caller (a thread outside any block of its own) always
  computes, so the LITERAL cross-thread clause holds; and a dict entry, once written, never changes
  (the owner's first read is stable). Core Lean only.
-/
import PsutilModel.Proofs.C16Nest
namespace Psutil.C16.Conc2

/-- thread `i` may use dict `d`: it created it, and it is inside a block of its own -/
def Own (s : St) (i d : Nat) : Prop := s.creator d = i ∧ d < s.nextId ∧ (s.thr i).ph ≠ .out

def FdO (s : St) (i : Nat) (fd : Option (Nat × Nat × Nat)) : Prop :=
  ∀ f d t, fd = some (f, d, t) → Own s i d ∧ s.ents d (.fn f) = none

def HowO (s : St) (i : Nat) : How → Prop
  | .computed => True
  | .hitP d _ => Own s i d
  | .hitF d _ => Own s i d

def OT (s : St) (i : Nat) : PC → Prop
  | .idle => True
  | .f0 .. => True
  | .f1 _ _ _ d _ => Own s i d
  | .p0 _ _ fd => FdO s i fd
  | .p1 _ _ fd pd _ => FdO s i fd ∧ Own s i pd
  | .p2 g _ fd od => FdO s i fd ∧ ∀ pd t0, od = some (pd, t0) → Own s i pd ∧ s.ents pd (.src g) = none
  | .p4 g _ fd pd _ => FdO s i fd ∧ Own s i pd ∧ s.ents pd (.src g) = none
  | .f4 f _ _ d _ how => Own s i d ∧ s.ents d (.fn f) = none ∧ HowO s i how
  | .ret _ _ _ how => HowO s i how
  | .retErr .. => True

structure OInv (s : St) : Prop where
  thr : ∀ i, OT s i (s.thr i).pc
  attrF : ∀ d, s.attrF = some d → s.lock = some (s.creator d) ∧ d < s.nextId
  attrP : ∀ d, s.attrP = some d → s.lock = some (s.creator d) ∧ d < s.nextId

/-- what a step of thread `tid` leaves alone -/
structure Frame (tid : Nat) (s s' : St) : Prop where
  creator : ∀ d, d < s.nextId → s'.creator d = s.creator d
  next : s.nextId ≤ s'.nextId
  others : ∀ i, i ≠ tid → s'.thr i = s.thr i
  ents : ∀ d k, d < s.nextId → s.creator d ≠ tid → s'.ents d k = s.ents d k

theorem Own_frame {tid : Nat} {s s' : St} (h : Frame tid s s') {i d : Nat} (hi : i ≠ tid) (ho : Own s i d) : Own s' i d := by
  obtain ⟨a, b, c⟩ := ho
  exact ⟨by rw [h.creator d b]; exact a, Nat.lt_of_lt_of_le b h.next, by rw [h.others i hi]; exact c⟩

theorem none_frame {tid : Nat} {s s' : St} (h : Frame tid s s') {i d : Nat} (hi : i ≠ tid) (ho : Own s i d) {k : Key}
    (hn : s.ents d k = none) : s'.ents d k = none := by
  rw [h.ents d k ho.2.1 (by rw [ho.1]; exact hi)]; exact hn

theorem FdO_frame {tid : Nat} {s s' : St} (h : Frame tid s s') {i : Nat} (hi : i ≠ tid) {fd : Option (Nat × Nat × Nat)}
    (ho : FdO s i fd) : FdO s' i fd :=
  fun f d t e => ⟨Own_frame h hi (ho f d t e).1, none_frame h hi (ho f d t e).1 (ho f d t e).2⟩

theorem HowO_frame {tid : Nat} {s s' : St} (h : Frame tid s s') {i : Nat} (hi : i ≠ tid) {how : How}
    (ho : HowO s i how) : HowO s' i how := by
  cases how with
  | computed => trivial
  | hitP d t0 => exact Own_frame h hi ho
  | hitF d t0 => exact Own_frame h hi ho

theorem OT_frame {tid : Nat} {s s' : St} (h : Frame tid s s') {i : Nat} (hi : i ≠ tid) {pc : PC} (ho : OT s i pc) :
    OT s' i pc := by
  cases pc with
  | idle => trivial
  | f0 f g cs => trivial
  | f1 f g cs d t0 => exact Own_frame h hi ho
  | p0 g cs fd => exact FdO_frame h hi ho
  | p1 g cs fd pd t0 => exact ⟨FdO_frame h hi ho.1, Own_frame h hi ho.2⟩
  | p2 g cs fd od =>
    exact ⟨FdO_frame h hi ho.1, fun pd t0 e => ⟨Own_frame h hi (ho.2 pd t0 e).1, none_frame h hi (ho.2 pd t0 e).1 (ho.2 pd t0 e).2⟩⟩
  | p4 g cs fd pd e => exact ⟨FdO_frame h hi ho.1, Own_frame h hi ho.2.1, none_frame h hi ho.2.1 ho.2.2⟩
  | f4 f g cs d e how => exact ⟨Own_frame h hi ho.1, none_frame h hi ho.1 ho.2.1, HowO_frame h hi ho.2.2⟩
  | ret g cs e how => exact HowO_frame h hi ho
  | retErr g cs => trivial

/-- assembling OInv after a step of thread `tid` -/
theorem oinv_upd {tid : Nat} {s s' : St} (hI : OInv s) (h : Frame tid s s') (hnew : OT s' tid (s'.thr tid).pc)
    (hF : ∀ d, s'.attrF = some d → s'.lock = some (s'.creator d) ∧ d < s'.nextId)
    (hP : ∀ d, s'.attrP = some d → s'.lock = some (s'.creator d) ∧ d < s'.nextId) : OInv s' := by
  refine ⟨fun i => ?_, hF, hP⟩
  by_cases hi : i = tid
  · rw [hi]; exact hnew
  · rw [h.others i hi]; exact OT_frame h hi (hI.thr i)

theorem frame_setPc (s : St) (tid : Nat) (pc : PC) : Frame tid s (setPc s tid pc) :=
  ⟨fun _ _ => rfl, Nat.le_refl _, fun i hi => by simp [setPc, hi], fun _ _ _ _ => rfl⟩

/-- a step that only moves thread `tid`'s pc -/
theorem oinv_setPc {s : St} (tid : Nat) (pc : PC) (hI : OInv s) (hnew : OT s tid pc) : OInv (setPc s tid pc) := by
  refine oinv_upd hI (frame_setPc s tid pc) ?_ hI.attrF hI.attrP
  rw [thr_setPc_self]
  -- OT only reads creator / nextId / ents / the thread's ph: all unchanged
  have hph : ((setPc s tid pc).thr tid).ph = (s.thr tid).ph := by simp [setPc]
  have own : ∀ d, Own s tid d → Own (setPc s tid pc) tid d := fun d ho => ⟨ho.1, ho.2.1, by rw [hph]; exact ho.2.2⟩
  have fdo : ∀ fd, FdO s tid fd → FdO (setPc s tid pc) tid fd := fun fd ho f d t e => ⟨own d (ho f d t e).1, (ho f d t e).2⟩
  have howo : ∀ how, HowO s tid how → HowO (setPc s tid pc) tid how := by
    intro how ho; cases how with
    | computed => trivial
    | hitP d t0 => exact own d ho
    | hitF d t0 => exact own d ho
  cases pc with
  | idle => trivial
  | f0 f g cs => trivial
  | f1 f g cs d t0 => exact own d hnew
  | p0 g cs fd => exact fdo fd hnew
  | p1 g cs fd pd t0 => exact ⟨fdo fd hnew.1, own pd hnew.2⟩
  | p2 g cs fd od => exact ⟨fdo fd hnew.1, fun pd t0 e => ⟨own pd (hnew.2 pd t0 e).1, (hnew.2 pd t0 e).2⟩⟩
  | p4 g cs fd pd e => exact ⟨fdo fd hnew.1, own pd hnew.2.1, hnew.2.2⟩
  | f4 f g cs d e how => exact ⟨own d hnew.1, hnew.2.1, howo how hnew.2.2⟩
  | ret g cs e how => exact howo how hnew
  | retErr g cs => trivial

theorem oinv_afterProc {s : St} (tid g cs : Nat) (fd : Option (Nat × Nat × Nat)) (e : Entry) (how : How) (hI : OInv s)
    (hfd : FdO s tid fd) (hh : HowO s tid how) : OInv (afterProc s tid g cs fd e how) := by
  unfold afterProc
  split
  · rename_i f d t
    exact oinv_setPc tid _ hI ⟨(hfd f d t rfl).1, (hfd f d t rfl).2, hh⟩
  · exact oinv_setPc tid _ hI hh

/-- `cache[key] = e` by thread `tid` into a dict of its own, slot `key` -/
theorem oinv_storeM {c : CCfg2} {s : St} (tid d : Nat) (key : Key) (e : Entry) (hI : OInv s) (ho : Own s tid d) :
    Frame tid s (storeM c s d key e) ∧
    (∀ d' k, (d' ≠ d ∨ k ≠ key) → (storeM c s d key e).ents d' k = s.ents d' k) := by
  unfold storeM
  split
  · exact ⟨⟨fun _ _ => rfl, Nat.le_refl _, fun _ _ => rfl, fun _ _ _ _ => rfl⟩, fun _ _ _ => rfl⟩
  · refine ⟨⟨fun _ _ => rfl, Nat.le_refl _, fun _ _ => rfl, fun d' k _ hne => ?_⟩, fun d' k hne => ?_⟩
    · have : d' ≠ d := fun e' => hne (by rw [e']; exact ho.1)
      simp [store, this]
    · show (if d' = d then (fun k => if k = key then some e else s.ents d k) else s.ents d') k = s.ents d' k
      by_cases h1 : d' = d
      · subst h1
        cases hne with
        | inl h => exact absurd rfl h
        | inr h => simp [h]
      · simp [h1]

/-- nothing OInv looks at changed -/
theorem oinv_same {s s' : St} (hI : OInv s) (hcr : s'.creator = s.creator) (hn : s'.nextId = s.nextId)
    (ht : s'.thr = s.thr) (he : s'.ents = s.ents) (hF : s'.attrF = s.attrF) (hP : s'.attrP = s.attrP)
    (hl : s'.lock = s.lock) : OInv s' := by
  refine ⟨fun i => ?_, fun d hd => ?_, fun d hd => ?_⟩
  · have hfr : Frame (i + 1) s s' :=
      ⟨fun d _ => by rw [hcr], by rw [hn]; exact Nat.le_refl _, fun j _ => by rw [ht], fun d k _ _ => by rw [he]⟩
    rw [ht]; exact OT_frame hfr (by omega) (hI.thr i)
  · rw [hF] at hd; rw [hl, hcr, hn]; exact hI.attrF d hd
  · rw [hP] at hd; rw [hl, hcr, hn]; exact hI.attrP d hd

theorem OT_setPc {s : St} (tid : Nat) (pc pc' : PC) (hnew : OT s tid pc') : OT (setPc s tid pc) tid pc' := by
  have hph : ((setPc s tid pc).thr tid).ph = (s.thr tid).ph := by simp [setPc]
  have own : ∀ d, Own s tid d → Own (setPc s tid pc) tid d := fun d ho => ⟨ho.1, ho.2.1, by rw [hph]; exact ho.2.2⟩
  have fdo : ∀ fd, FdO s tid fd → FdO (setPc s tid pc) tid fd := fun fd ho f d t e => ⟨own d (ho f d t e).1, (ho f d t e).2⟩
  have howo : ∀ how, HowO s tid how → HowO (setPc s tid pc) tid how := by
    intro how ho; cases how with
    | computed => trivial
    | hitP d t0 => exact own d ho
    | hitF d t0 => exact own d ho
  cases pc' with
  | idle => trivial
  | f0 f g cs => trivial
  | f1 f g cs d t0 => exact own d hnew
  | p0 g cs fd => exact fdo fd hnew
  | p1 g cs fd pd t0 => exact ⟨fdo fd hnew.1, own pd hnew.2⟩
  | p2 g cs fd od => exact ⟨fdo fd hnew.1, fun pd t0 e => ⟨own pd (hnew.2 pd t0 e).1, (hnew.2 pd t0 e).2⟩⟩
  | p4 g cs fd pd e => exact ⟨fdo fd hnew.1, own pd hnew.2.1, hnew.2.2⟩
  | f4 f g cs d e how => exact ⟨own d hnew.1, hnew.2.1, howo how hnew.2.2⟩
  | ret g cs e how => exact howo how hnew
  | retErr g cs => trivial

theorem storeM_same (c : CCfg2) (s : St) (d : Nat) (key : Key) (e : Entry) :
    (storeM c s d key e).creator = s.creator ∧ (storeM c s d key e).nextId = s.nextId ∧
    (storeM c s d key e).thr = s.thr ∧ (storeM c s d key e).attrF = s.attrF ∧ (storeM c s d key e).attrP = s.attrP ∧
    (storeM c s d key e).lock = s.lock := by
  unfold storeM; split <;> exact ⟨rfl, rfl, rfl, rfl, rfl, rfl⟩

theorem Own_storeM {c : CCfg2} {s : St} {i d' : Nat} (d : Nat) (key : Key) (e : Entry) (ho : Own s i d') :
    Own (storeM c s d key e) i d' := by
  obtain ⟨a, b, c', _, _, _⟩ := storeM_same c s d key e
  exact ⟨by rw [a]; exact ho.1, by rw [b]; exact ho.2.1, by rw [c']; exact ho.2.2⟩

/-- the case-3 store by thread `tid` into its own dict, followed by the move to `pc'` -/
theorem oinv_store_setPc {c : CCfg2} {s : St} (tid d : Nat) (key : Key) (e : Entry) (pc' : PC) (hI : OInv s)
    (ho : Own s tid d) (hnew : OT (storeM c s d key e) tid pc') : OInv (setPc (storeM c s d key e) tid pc') := by
  obtain ⟨hfr, _⟩ := oinv_storeM (c := c) tid d key e hI ho
  obtain ⟨a, b, c', d', e', f'⟩ := storeM_same c s d key e
  have hfr' : Frame tid s (setPc (storeM c s d key e) tid pc') :=
    ⟨hfr.creator, hfr.next, fun i hi => by simp [setPc, hi, c'], fun d0 k h1 h2 => by
      show (storeM c s d key e).ents d0 k = s.ents d0 k
      exact hfr.ents d0 k h1 h2⟩
  refine oinv_upd hI hfr' ?_ ?_ ?_
  · rw [thr_setPc_self]; exact OT_setPc tid _ pc' hnew
  · intro d0 hd
    have hd' : s.attrF = some d0 := by rw [← d']; exact hd
    show (storeM c s d key e).lock = some ((storeM c s d key e).creator d0) ∧ d0 < (storeM c s d key e).nextId
    rw [f', a, b]; exact hI.attrF d0 hd'
  · intro d0 hd
    have hd' : s.attrP = some d0 := by rw [← e']; exact hd
    show (storeM c s d key e).lock = some ((storeM c s d key e).creator d0) ∧ d0 < (storeM c s d key e).nextId
    rw [f', a, b]; exact hI.attrP d0 hd'

/-- a dict found in an attribute whose tag is the calling thread is the caller's own, and the caller is inside a block -/
theorem own_of_attr {c : CCfg2} {s : St} (hL : LInv c s) {tid d : Nat} (hl : s.lock = some (s.creator d)) (hd : d < s.nextId)
    (hc : s.creator d = tid) : Own s tid d := by
  refine ⟨hc, hd, fun hout => ?_⟩
  rw [hc] at hl
  have := hL.owner tid hl
  rw [hout] at this
  exact this

theorem not_bypass {c : CCfg2} (ho : c.ownerOnly = true) {a tid : Nat} (h : ¬ ((c.ownerOnly && a != tid) = true)) : a = tid := by
  rw [ho] at h
  simp at h
  exact h

/-- every bytecode of a public call preserves OInv (owner-only wrapper) -/
theorem cstep_oinv {c : CCfg2} (ho : c.ownerOnly = true) {s s1 : St} (tid : Nat) (hI : OInv s) (hL : LInv c s)
    (h : cstep c s tid (s.thr tid).pc = some s1) : OInv s1 := by
  have hT := hI.thr tid
  generalize (s.thr tid).pc = pc at h hT
  cases pc with
  | idle => simp [cstep] at h
  | f0 f g cs =>
    simp only [cstep] at h
    split at h
    · rename_i d hd
      split at h
      · simp only [Option.some.injEq] at h; subst h
        exact oinv_setPc tid _ hI (fun _ _ _ hh => by cases hh)
      · rename_i hb
        simp only [Option.some.injEq] at h; subst h
        obtain ⟨x, y⟩ := hI.attrF d hd
        exact oinv_setPc tid _ hI (own_of_attr hL x y (not_bypass ho hb))
    · simp only [Option.some.injEq] at h; subst h
      exact oinv_setPc tid _ hI (fun _ _ _ hh => by cases hh)
  | f1 f g cs d t0 =>
    simp only [cstep] at h
    split at h
    · simp only [Option.some.injEq] at h; subst h
      exact oinv_setPc tid _ hI hT
    · rename_i hn
      simp only [Option.some.injEq] at h; subst h
      refine oinv_setPc tid _ hI (fun f' d' t' hh => ?_)
      simp only [Option.some.injEq, Prod.mk.injEq] at hh
      obtain ⟨rfl, rfl, rfl⟩ := hh
      exact ⟨hT, hn⟩
  | p0 g cs fd =>
    simp only [cstep] at h
    split at h
    · split at h
      · rename_i pd hpd
        split at h
        · simp only [Option.some.injEq] at h; subst h
          exact oinv_setPc tid _ hI ⟨hT, fun _ _ hh => by cases hh⟩
        · rename_i hb
          simp only [Option.some.injEq] at h; subst h
          obtain ⟨x, y⟩ := hI.attrP pd hpd
          exact oinv_setPc tid _ hI ⟨hT, own_of_attr hL x y (not_bypass ho hb)⟩
      · simp only [Option.some.injEq] at h; subst h
        exact oinv_setPc tid _ hI ⟨hT, fun _ _ hh => by cases hh⟩
    · simp only [Option.some.injEq] at h; subst h
      exact oinv_setPc tid _ hI ⟨hT, fun _ _ hh => by cases hh⟩
  | p1 g cs fd pd t0 =>
    simp only [cstep] at h
    split at h
    · simp only [Option.some.injEq] at h; subst h
      exact oinv_afterProc tid g cs fd _ _ hI hT.1 hT.2
    · rename_i hn
      simp only [Option.some.injEq] at h; subst h
      refine oinv_setPc tid _ hI ⟨hT.1, fun pd' t' hh => ?_⟩
      simp only [Option.some.injEq, Prod.mk.injEq] at hh
      obtain ⟨rfl, rfl⟩ := hh
      exact ⟨hT.2, hn⟩
  | p2 g cs fd od =>
    simp only [cstep] at h
    split at h
    · simp only [Option.some.injEq] at h; subst h
      exact oinv_setPc tid _ hI trivial
    · split at h
      · rename_i pd t0
        simp only [Option.some.injEq] at h; subst h
        exact oinv_setPc tid _ hI ⟨hT.1, (hT.2 pd t0 rfl).1, (hT.2 pd t0 rfl).2⟩
      · simp only [Option.some.injEq] at h; subst h
        exact oinv_afterProc tid g cs fd _ _ hI hT.1 trivial
  | p4 g cs fd pd e =>
    simp only [cstep, Option.some.injEq] at h; subst h
    obtain ⟨hfd, hown, _⟩ := hT
    obtain ⟨_, hother⟩ := oinv_storeM (c := c) tid pd (.src g) e hI hown
    unfold afterProc
    split
    · rename_i f d t
      refine oinv_store_setPc tid pd _ e _ hI hown ⟨Own_storeM pd _ e (hfd f d t rfl).1, ?_, trivial⟩
      rw [hother d (.fn f) (Or.inr (by simp))]; exact (hfd f d t rfl).2
    · exact oinv_store_setPc tid pd _ e _ hI hown trivial
  | f4 f g cs d e how =>
    simp only [cstep, Option.some.injEq] at h; subst h
    obtain ⟨hown, _, hh⟩ := hT
    refine oinv_store_setPc tid d _ e _ hI hown ?_
    cases how with
    | computed => trivial
    | hitP d' t0 => exact Own_storeM d _ e hh
    | hitF d' t0 => exact Own_storeM d _ e hh
  | ret g cs e how =>
    simp only [cstep, Option.some.injEq] at h; subst h
    exact oinv_setPc tid _ hI trivial
  | retErr g cs =>
    simp only [cstep, Option.some.injEq] at h; subst h
    exact oinv_setPc tid _ hI trivial

/-- a step of thread `tid` that is not inside a call (`pc = idle` before and after) and leaves creator / nextId / ents alone -/
theorem oinv_phase {s s' : St} (tid : Nat) (hI : OInv s) (hcr : s'.creator = s.creator) (hn : s'.nextId = s.nextId)
    (he : s'.ents = s.ents) (hoth : ∀ i, i ≠ tid → s'.thr i = s.thr i) (hpc : (s'.thr tid).pc = .idle)
    (hF : ∀ d, s'.attrF = some d → s'.lock = some (s'.creator d) ∧ d < s'.nextId)
    (hP : ∀ d, s'.attrP = some d → s'.lock = some (s'.creator d) ∧ d < s'.nextId) : OInv s' :=
  oinv_upd hI ⟨fun d _ => by rw [hcr], by rw [hn]; exact Nat.le_refl _, hoth, fun d k _ _ => by rw [he]⟩
    (by rw [hpc]; trivial) hF hP

theorem pc_setPh (s : St) (tid : Nat) (ph : Phase) : ((setPh s tid ph).thr tid).pc = (s.thr tid).pc := by simp [setPh]
theorem oth_setPh (s : St) (tid : Nat) (ph : Phase) (i : Nat) (hi : i ≠ tid) : (setPh s tid ph).thr i = s.thr i := by
  simp [setPh, hi]

/-- every bytecode of oneshot()'s enter/exit preserves OInv -/
theorem ostep_oinv {c : CCfg2} {s s1 : St} (tid : Nat) (hI : OInv s) (hL : LInv c s) (hpc : (s.thr tid).pc = .idle)
    (h : ostep c s tid (s.thr tid).ph = some s1) : OInv s1 := by
  have hown := hL.own tid
  have hownr := hL.owner tid
  generalize hph : (s.thr tid).ph = ph at h hown hownr
  cases ph with
  | out => simp [ostep] at h
  | inBlock => simp [ostep] at h
  | inNoop => simp [ostep] at h
  | oerr => simp [ostep] at h
  | test =>
    simp only [ostep] at h
    split at h <;>
    · simp only [Option.some.injEq] at h; subst h
      exact oinv_phase tid hI rfl rfl rfl (oth_setPh s tid _) (by rw [pc_setPh]; exact hpc) hI.attrF hI.attrP
  | act rest =>
    have hl := hown (by simp)
    cases rest with
    | nil =>
      simp only [ostep, Option.some.injEq] at h; subst h
      exact oinv_phase tid hI rfl rfl rfl (oth_setPh s tid _) (by rw [pc_setPh]; exact hpc) hI.attrF hI.attrP
    | cons l rest =>
      simp only [ostep, Option.some.injEq] at h; subst h
      have hthr : (actSt s tid l).thr = s.thr := by cases l <;> rfl
      have hlk : (actSt s tid l).lock = s.lock := by cases l <;> rfl
      have hnx : (actSt s tid l).nextId = s.nextId + 1 := by cases l <;> rfl
      have hcr : (actSt s tid l).creator = fun d => if d = s.nextId then tid else s.creator d := by cases l <;> rfl
      have hents : (actSt s tid l).ents = fun d => if d = s.nextId then (fun _ => none) else s.ents d := by cases l <;> rfl
      have hfr : Frame tid s (setPh (actSt s tid l) tid (.act rest)) := by
        refine ⟨fun d hd => ?_, ?_, fun i hi => ?_, fun d k hd _ => ?_⟩
        · show (actSt s tid l).creator d = s.creator d
          rw [hcr]; have : d ≠ s.nextId := Nat.ne_of_lt hd; simp [this]
        · show s.nextId ≤ (actSt s tid l).nextId
          rw [hnx]; omega
        · rw [oth_setPh _ _ _ i hi, hthr]
        · show (actSt s tid l).ents d k = s.ents d k
          rw [hents]; have : d ≠ s.nextId := Nat.ne_of_lt hd; simp [this]
      have hat : ∀ d, (d = s.nextId ∨ (s.lock = some (s.creator d) ∧ d < s.nextId)) →
          (actSt s tid l).lock = some ((actSt s tid l).creator d) ∧ d < (actSt s tid l).nextId := by
        intro d hd
        rw [hlk, hcr, hnx]
        cases hd with
        | inl e => subst e; simp; exact hl
        | inr e =>
          have : d ≠ s.nextId := Nat.ne_of_lt e.2
          simp only [this, if_false]; exact ⟨e.1, by omega⟩
      refine oinv_upd hI hfr (by rw [pc_setPh, hthr, hpc]; trivial) (fun d hd => ?_) (fun d hd => ?_)
      · apply hat
        cases l with
        | front => left; have : some s.nextId = some d := hd; simp only [Option.some.injEq] at this; omega
        | proc => right; exact hI.attrF d hd
      · apply hat
        cases l with
        | front => right; exact hI.attrP d hd
        | proc => left; have : some s.nextId = some d := hd; simp only [Option.some.injEq] at this; omega
  | deact rest =>
    cases rest with
    | nil =>
      simp only [ostep, Option.some.injEq] at h; subst h
      exact oinv_phase tid hI rfl rfl rfl (oth_setPh s tid _) (by rw [pc_setPh]; exact hpc) hI.attrF hI.attrP
    | cons l rest =>
      simp only [ostep] at h
      split at h
      · simp only [Option.some.injEq] at h; subst h
        have hthr : (delAttr s l).thr = s.thr := by cases l <;> rfl
        refine oinv_phase tid hI (by cases l <;> rfl) (by cases l <;> rfl) (by cases l <;> rfl)
          (fun i hi => by rw [oth_setPh _ _ _ i hi, hthr]) (by rw [pc_setPh, hthr]; exact hpc) (fun d hd => ?_) (fun d hd => ?_)
        · cases l with
          | front => cases hd
          | proc => exact hI.attrF d hd
        · cases l with
          | front => exact hI.attrP d hd
          | proc => cases hd
      · simp only [Option.some.injEq] at h; subst h
        exact oinv_phase tid hI rfl rfl rfl (oth_setPh s tid _) (by rw [pc_setPh]; exact hpc) hI.attrF hI.attrP
  | release =>
    have hl := hown (by simp)
    have hok := hownr hl
    simp only [ostep] at h
    split at h
    · rename_i hs
      simp only [Option.some.injEq] at h; subst h
      obtain ⟨hF, hP⟩ := hok hs
      refine oinv_phase tid hI rfl rfl rfl (oth_setPh _ tid _) (by rw [pc_setPh]; exact hpc) (fun d hd => ?_) (fun d hd => ?_)
      · have : s.attrF = some d := hd
        rw [hF] at this; cases this
      · have : s.attrP = some d := hd
        rw [hP] at this; cases this
    · simp only [Option.some.injEq] at h; subst h
      exact oinv_phase tid hI rfl rfl rfl (fun i hi => by simp [popTo, hi]) (by simp [popTo, hpc]) hI.attrF hI.attrP

theorem tstep_oinv {c : CCfg2} (ho : c.ownerOnly = true) {s s1 : St} (tid : Nat) (ch : Choice) (hI : OInv s) (hL : LInv c s)
    (h : tstep c s tid ch = some s1) : OInv s1 := by
  cases ch with
  | call ff g =>
    simp only [tstep] at h
    split at h
    · split at h
      · split at h
        · simp only [Option.some.injEq] at h; subst h; exact oinv_setPc tid _ hI trivial
        · cases h
      · simp only [Option.some.injEq] at h; subst h
        exact oinv_setPc tid _ hI (fun _ _ _ hh => by cases hh)
    · cases h
  | acquire =>
    simp only [tstep] at h
    split at h
    · rename_i hcnd
      obtain ⟨hpc, _, hlk⟩ := hcnd
      simp only [Option.some.injEq] at h; subst h
      obtain ⟨hF, hP⟩ := hL.free hlk
      refine oinv_phase tid hI rfl rfl rfl (oth_setPh _ tid _) (by rw [pc_setPh]; exact hpc) (fun d hd => ?_) (fun d hd => ?_)
      · have : s.attrF = some d := hd
        rw [hF] at this; cases this
      · have : s.attrP = some d := hd
        rw [hP] at this; cases this
    · split at h
      · rename_i hcnd
        simp only [Option.some.injEq] at h; subst h
        exact oinv_phase tid hI rfl rfl rfl (fun i hi => by simp [pushTest, hi]) (by simp [pushTest, hcnd.1]) hI.attrF hI.attrP
      · split at h
        · rename_i hcnd
          simp only [Option.some.injEq] at h; subst h
          exact oinv_phase tid hI rfl rfl rfl (fun i hi => by simp [pushTest, hi]) (by simp [pushTest, hcnd.1]) hI.attrF hI.attrP
        · cases h
  | beginExit =>
    simp only [tstep] at h
    split at h
    · rename_i hpc
      split at h
      · simp only [Option.some.injEq] at h; subst h
        exact oinv_phase tid hI rfl rfl rfl (oth_setPh s tid _) (by rw [pc_setPh]; exact hpc) hI.attrF hI.attrP
      · simp only [Option.some.injEq] at h; subst h
        exact oinv_phase tid hI rfl rfl rfl (oth_setPh s tid _) (by rw [pc_setPh]; exact hpc) hI.attrF hI.attrP
      · cases h
    · cases h
  | step =>
    simp only [tstep] at h
    split at h
    · rename_i hpc; exact ostep_oinv tid hI hL hpc h
    · exact cstep_oinv ho tid hI hL h

theorem oinv_init : OInv St.init :=
  ⟨fun _ => trivial, fun d hd => by simp [St.init] at hd, fun d hd => by simp [St.init] at hd⟩

theorem step_oinv {c : CCfg2} (ho : c.ownerOnly = true) (hc : c.Covers) {s s' : St} (a : Action) (hI : OInv s)
    (hV : Inv c s) (h : step c s a = some s') : OInv s' := by
  cases a with
  | thr tid ch =>
    simp only [step, Option.map_eq_some_iff] at h
    obtain ⟨s1, h1, rfl⟩ := h
    exact oinv_same (tstep_oinv ho tid ch hI hV.l h1) rfl rfl rfl rfl rfl rfl rfl
  | setVer g v =>
    simp only [step, Option.some.injEq] at h; subst h
    exact oinv_same hI rfl rfl rfl rfl rfl rfl rfl
  | setDenied g b =>
    simp only [step, Option.some.injEq] at h; subst h
    exact oinv_same hI rfl rfl rfl rfl rfl rfl rfl

theorem reach_oinv {c : CCfg2} (ho : c.ownerOnly = true) (hc : c.Covers) {s : St} (h : Reach c s) : OInv s := by
  induction h with
  | init => exact oinv_init
  | step a hr hs ih => exact step_oinv ho hc a ih (reach_inv hc hr) hs

/- ---- entries are written once ---- -/

theorem ents_afterProc (s : St) (tid g cs : Nat) (fd : Option (Nat × Nat × Nat)) (e : Entry) (how : How) :
    (afterProc s tid g cs fd e how).ents = s.ents := by
  unfold afterProc; split <;> rfl

/-- owner-only wrapper: no step ever changes an entry that is already in a dict -/
theorem tstep_ents_keep {c : CCfg2} {s s1 : St} (tid : Nat) (ch : Choice) (hI : OInv s) (hD : DInv c s)
    (h : tstep c s tid ch = some s1) (d : Nat) (k : Key) (e : Entry) (he : s.ents d k = some e) : s1.ents d k = some e := by
  have hlt : d < s.nextId := (hD.ents d k e he).1
  cases ch with
  | call ff g =>
    simp only [tstep] at h
    split at h
    · split at h
      · split at h
        · simp only [Option.some.injEq] at h; subst h; exact he
        · cases h
      · simp only [Option.some.injEq] at h; subst h; exact he
    · cases h
  | acquire =>
    simp only [tstep] at h
    split at h
    · simp only [Option.some.injEq] at h; subst h; exact he
    · split at h
      · simp only [Option.some.injEq] at h; subst h; exact he
      · split at h
        · simp only [Option.some.injEq] at h; subst h; exact he
        · cases h
  | beginExit =>
    simp only [tstep] at h
    split at h
    · split at h
      · simp only [Option.some.injEq] at h; subst h; exact he
      · simp only [Option.some.injEq] at h; subst h; exact he
      · cases h
    · cases h
  | step =>
    simp only [tstep] at h
    split at h
    · generalize (s.thr tid).ph = ph at h
      cases ph with
      | out => simp [ostep] at h
      | inBlock => simp [ostep] at h
      | inNoop => simp [ostep] at h
      | oerr => simp [ostep] at h
      | test =>
        simp only [ostep] at h
        split at h <;> (simp only [Option.some.injEq] at h; subst h; exact he)
      | act rest =>
        cases rest with
        | nil => simp only [ostep, Option.some.injEq] at h; subst h; exact he
        | cons l rest =>
          simp only [ostep, Option.some.injEq] at h; subst h
          have hents : (actSt s tid l).ents = fun d => if d = s.nextId then (fun _ => none) else s.ents d := by cases l <;> rfl
          show (actSt s tid l).ents d k = some e
          rw [hents]; have : d ≠ s.nextId := Nat.ne_of_lt hlt; simp [this]; exact he
      | deact rest =>
        cases rest with
        | nil => simp only [ostep, Option.some.injEq] at h; subst h; exact he
        | cons l rest =>
          simp only [ostep] at h
          split at h
          · simp only [Option.some.injEq] at h; subst h
            show (delAttr s l).ents d k = some e
            cases l <;> exact he
          · simp only [Option.some.injEq] at h; subst h; exact he
      | release =>
        simp only [ostep] at h
        split at h <;> (simp only [Option.some.injEq] at h; subst h; exact he)
    · have hT := hI.thr tid
      generalize (s.thr tid).pc = pc at h hT
      cases pc with
      | idle => simp [cstep] at h
      | f0 f g cs =>
        simp only [cstep] at h
        split at h
        · split at h <;> (simp only [Option.some.injEq] at h; subst h; exact he)
        · simp only [Option.some.injEq] at h; subst h; exact he
      | f1 f g cs d' t0 =>
        simp only [cstep] at h
        split at h <;> (simp only [Option.some.injEq] at h; subst h; exact he)
      | p0 g cs fd =>
        simp only [cstep] at h
        split at h
        · split at h
          · split at h <;> (simp only [Option.some.injEq] at h; subst h; exact he)
          · simp only [Option.some.injEq] at h; subst h; exact he
        · simp only [Option.some.injEq] at h; subst h; exact he
      | p1 g cs fd pd t0 =>
        simp only [cstep] at h
        split at h
        · simp only [Option.some.injEq] at h; subst h; rw [ents_afterProc]; exact he
        · simp only [Option.some.injEq] at h; subst h; exact he
      | p2 g cs fd od =>
        simp only [cstep] at h
        split at h
        · simp only [Option.some.injEq] at h; subst h; exact he
        · split at h
          · simp only [Option.some.injEq] at h; subst h; exact he
          · simp only [Option.some.injEq] at h; subst h; rw [ents_afterProc]; exact he
      | p4 g cs fd pd e' =>
        simp only [cstep, Option.some.injEq] at h; subst h
        rw [ents_afterProc]
        obtain ⟨_, hown, hnone⟩ := hT
        obtain ⟨_, hother⟩ := oinv_storeM (c := c) tid pd (.src g) e' hI hown
        rw [hother d k ?_]; exact he
        by_cases h1 : d = pd
        · right; intro h2; subst h1; subst h2; rw [hnone] at he; cases he
        · left; exact h1
      | f4 f g cs d' e' how =>
        simp only [cstep, Option.some.injEq] at h; subst h
        obtain ⟨hown, hnone, _⟩ := hT
        obtain ⟨_, hother⟩ := oinv_storeM (c := c) tid d' (.fn f) e' hI hown
        show (storeM c s d' (Key.fn f) e').ents d k = some e
        rw [hother d k ?_]; exact he
        by_cases h1 : d = d'
        · right; intro h2; subst h1; subst h2; rw [hnone] at he; cases he
        · left; exact h1
      | ret g cs e' how => simp only [cstep, Option.some.injEq] at h; subst h; exact he
      | retErr g cs => simp only [cstep, Option.some.injEq] at h; subst h; exact he

theorem step_ents_keep {c : CCfg2} (ho : c.ownerOnly = true) (hc : c.Covers) {s s' : St} (hr : Reach c s) (a : Action)
    (h : step c s a = some s') (d : Nat) (k : Key) (e : Entry) (he : s.ents d k = some e) : s'.ents d k = some e := by
  cases a with
  | thr tid ch =>
    simp only [step, Option.map_eq_some_iff] at h
    obtain ⟨s1, h1, rfl⟩ := h
    exact tstep_ents_keep tid ch (reach_oinv ho hc hr) (reach_inv hc hr).d h1 d k e he
  | setVer g v => simp only [step, Option.some.injEq] at h; subst h; exact he
  | setDenied g b => simp only [step, Option.some.injEq] at h; subst h; exact he

theorem runD_ents_keep {c : CCfg2} (ho : c.ownerOnly = true) (hc : c.Covers) (as : List Action) :
    ∀ {s : St}, Reach c s → ∀ (d : Nat) (k : Key) (e : Entry), s.ents d k = some e → (runD c s as).ents d k = some e := by
  induction as with
  | nil => intro s _ d k e he; exact he
  | cons a as ih =>
    intro s hr d k e he
    simp only [runD]
    cases hs : step c s a with
    | none => exact ih hr d k e he
    | some s' => exact ih (Reach.step a hr hs) d k e (step_ents_keep ho hc hr a hs d k e he)

end Psutil.C16.Conc2
