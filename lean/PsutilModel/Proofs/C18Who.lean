/-
  Proofs/C18Who.lean — lemmas about the addressed step `stepPyW` (Model/C18Who.lean):
  with every form handing `self.pid` to its native call it is `stepPy`, whoever calls and whatever
  pids were remembered; a system call depends on its `who` argument only through the process it
  resolves to, so a short cut taken when `self.pid == os.getpid()` (evaluated in the call) is sound.
-/
import PsutilModel.Proofs.C18Py
import PsutilModel.Model.C18Who
namespace Psutil.C18

theorem stepXW_direct (c : Cfg) (o : Origin) (k : Kernel) (pid : Nat) (x : Ctx) (r : Req) :
    stepXW c Routing.direct o k pid x r = stepX c k pid x r := by
  cases r with
  | nice v => cases v <;> rfl
  | ionice a b => cases a <;> cases b <;> rfl
  | cpuAffinity cpus => cases cpus <;> rfl
  | rlimit res l => cases l <;> rfl

theorem stepPyCoreW_direct (c : Cfg) (o : Origin) (k : Kernel) (pid : Nat) (x : Ctx) (r : PyReq) :
    stepPyCoreW c Routing.direct o k pid x r = stepPyCore c k pid x r := by
  cases r with
  | nice v => exact stepXW_direct c o k pid x _
  | ionice a b => exact stepXW_direct c o k pid x _
  | cpuAffinity cpus =>
    cases cpus with
    | none => exact stepXW_direct c o k pid x (.cpuAffinity none)
    | some p =>
      obtain ⟨f, l⟩ := p
      cases f <;> first | rfl | exact stepXW_direct c o k pid x _
  | rlimit res l =>
    cases l with
    | none => exact stepXW_direct c o k pid x (.rlimit res.val none)
    | some p =>
      obtain ⟨f, l⟩ := p
      cases f <;> first | rfl | exact stepXW_direct c o k pid x _

/-- **the addressed step with direct routing is `stepPy`** — for every caller (`k.self`) and every
    pair of remembered pids -/
theorem stepPyW_direct (c : Cfg) (o : Origin) (k : Kernel) (pid : Nat) (x : Ctx) (r : PyReq) :
    stepPyW c Routing.direct o k pid x r = stepPy c k pid x r := by
  unfold stepPyW stepPy
  rw [stepPyCoreW_direct]

/-! ### a system call depends on `who` only through the process it resolves to -/

section congr
variable {k : Kernel} {w w' : Nat} (h : resolve k w = resolve k w')
include h

theorem sysGetpriority_congr : sysGetpriority k w = sysGetpriority k w' := by simp only [sysGetpriority, h]
theorem sysIoprioGet_congr : sysIoprioGet k w = sysIoprioGet k w' := by simp only [sysIoprioGet, h]
theorem sysSchedGetaffinity_congr : sysSchedGetaffinity k w = sysSchedGetaffinity k w' := by
  simp only [sysSchedGetaffinity, h]
theorem sysSetpriorityP_congr (v : Int) : sysSetpriorityP k w v = sysSetpriorityP k w' v := by
  simp only [sysSetpriorityP, permNice, sysSetpriority, h]
theorem sysIoprioSetP_congr (v : Nat) : sysIoprioSetP k w v = sysIoprioSetP k w' v := by
  simp only [sysIoprioSetP, permIoprio, sysIoprioSet, h]
theorem sysSchedSetaffinityP_congr (m : List Nat) : sysSchedSetaffinityP k w m = sysSchedSetaffinityP k w' m := by
  simp only [sysSchedSetaffinityP, permAffinity, sysSchedSetaffinity, h]
theorem sysPrlimitGetP_congr (r : Nat) : sysPrlimitGetP k w r = sysPrlimitGetP k w' r := by
  simp only [sysPrlimitGetP, permPrlimit, sysPrlimitGet, h]
theorem sysPrlimitSetP_congr (r s hd : Nat) : sysPrlimitSetP k w r s hd = sysPrlimitSetP k w' r s hd := by
  simp only [sysPrlimitSetP, permPrlimit, sysPrlimitSet, h]

theorem affGetLoop_congr (t : ErrTest) (l : AffLoop) (fuel n e : Nat) :
    affGetLoop t l k w fuel n e = affGetLoop t l k w' fuel n e := by
  induction fuel generalizing n e with
  | zero => rfl
  | succ f ih =>
    have hs : ∀ b, sysSchedGetaffinityLen k w b = sysSchedGetaffinityLen k w' b := fun b => by
      simp only [sysSchedGetaffinityLen, sysSchedGetaffinity_congr h]
    unfold affGetLoop
    simp only [hs, ih]

theorem niceGetW_congr (c : Cfg) (pid e : Nat) : niceGetW c k pid w e = niceGetW c k pid w' e := by
  simp only [niceGetW, cextGetpriorityE, sysGetpriority_congr h]
theorem niceSetW_congr (c : Cfg) (pid : Nat) (v : Int) : niceSetW c k pid w v = niceSetW c k pid w' v := by
  simp only [niceSetW, cextSetpriorityP, sysSetpriorityP_congr h]
theorem ioniceGetW_congr (c : Cfg) (pid e : Nat) : ioniceGetW c k pid w e = ioniceGetW c k pid w' e := by
  simp only [ioniceGetW, cextIoprioGetE, sysIoprioGet_congr h]
theorem ioniceSetW_congr (c : Cfg) (pid : Nat) (a : Int) (b : Option Int) :
    ioniceSetW c k pid w a b = ioniceSetW c k pid w' a b := by
  simp only [ioniceSetW, cextIoprioSetP, sysIoprioSetP_congr h]
theorem cpuAffinitySetW_congr (c : Cfg) (el : Option (List Nat)) (pid : Nat) (cpus : List Int) :
    cpuAffinitySetW c el k pid w cpus = cpuAffinitySetW c el k pid w' cpus := by
  simp only [cpuAffinitySetW, cextAffinitySetP, sysSchedSetaffinityP_congr h]
end congr

theorem cpuAffinityW_congr {k : Kernel} {g g' s s' : Nat} (hg : resolve k g = resolve k g')
    (hs : resolve k s = resolve k s') (c : Cfg) (pid : Nat) (x : Ctx) (cpus : Option (List Int)) :
    cpuAffinityW c k pid g s x cpus = cpuAffinityW c k pid g' s' x cpus := by
  cases cpus with
  | none => simp only [cpuAffinityW, cextAffinityGetL, affGetLoop_congr hg]
  | some l => simp only [cpuAffinityW, cpuAffinitySetW_congr hs]

theorem rlimitLW_congr {k : Kernel} {g g' s s' : Nat} (hg : resolve k g = resolve k g')
    (hs : resolve k s = resolve k s') (c : Cfg) (pid : Nat) (res : Int) (l : Option (List Int)) :
    rlimitLW c k pid g s res l = rlimitLW c k pid g' s' res l := by
  cases l with
  | none => simp only [rlimitLW, pyPrlimitGetP, sysPrlimitGetP_congr hg]
  | some l => simp only [rlimitLW, pyPrlimitSetP, sysPrlimitSetP_congr hs]

/-- a routing is SOUND for this caller, these remembered pids and this target when every form's
    system call resolves to the target -/
def Routing.Sound (rt : Routing) (o : Origin) (k : Kernel) (pid : Nat) : Prop :=
  resolve k (rt.niceGet.who o k pid) = resolve k pid ∧ resolve k (rt.niceSet.who o k pid) = resolve k pid ∧
  resolve k (rt.ioniceGet.who o k pid) = resolve k pid ∧ resolve k (rt.ioniceSet.who o k pid) = resolve k pid ∧
  resolve k (rt.affGet.who o k pid) = resolve k pid ∧ resolve k (rt.affSet.who o k pid) = resolve k pid ∧
  resolve k (rt.rlimitGet.who o k pid) = resolve k pid ∧ resolve k (rt.rlimitSet.who o k pid) = resolve k pid

theorem stepXW_sound (c : Cfg) (rt : Routing) (o : Origin) (k : Kernel) (pid : Nat) (x : Ctx) (r : Req)
    (hs : rt.Sound o k pid) : stepXW c rt o k pid x r = stepX c k pid x r := by
  obtain ⟨h1, h2, h3, h4, h5, h6, h7, h8⟩ := hs
  rw [← stepXW_direct c o k pid x r]
  cases r with
  | nice v =>
    cases v with
    | none => exact niceGetW_congr h1 c pid _
    | some v => exact niceSetW_congr h2 c pid v
  | ionice a b =>
    cases a with
    | none =>
      cases b with
      | none => exact ioniceGetW_congr h3 c pid _
      | some b =>
        show (if c.valueWithoutClassRaises then _ else ioniceGetW c k pid _ _) =
          (if c.valueWithoutClassRaises then _ else ioniceGetW c k pid _ _)
        rw [ioniceGetW_congr h3 c pid _]; rfl
    | some a => exact ioniceSetW_congr h4 c pid a b
  | cpuAffinity cpus => exact cpuAffinityW_congr h5 h6 c pid x cpus
  | rlimit res l => exact rlimitLW_congr h7 h8 c pid res l

theorem stepPyW_sound (c : Cfg) (rt : Routing) (o : Origin) (k : Kernel) (pid : Nat) (x : Ctx) (r : PyReq)
    (hs : rt.Sound o k pid) : stepPyW c rt o k pid x r = stepPy c k pid x r := by
  rw [← stepPyW_direct c o k pid x r]
  unfold stepPyW
  congr 1
  have hX := fun q => (stepXW_sound c rt o k pid x q hs).trans (stepXW_direct c o k pid x q).symm
  cases r with
  | nice v => exact hX _
  | ionice a b => exact hX _
  | cpuAffinity cpus =>
    cases cpus with
    | none => exact hX (.cpuAffinity none)
    | some p =>
      obtain ⟨f, l⟩ := p
      cases f with
      | iterator => exact cpuAffinitySetW_congr hs.2.2.2.2.2.1 c _ pid _
      | list => exact hX (.cpuAffinity (some l))
      | tuple => exact hX (.cpuAffinity (some l))
      | set => exact hX (.cpuAffinity (some l))
      | range => exact hX (.cpuAffinity (some l))
  | rlimit res l =>
    cases l with
    | none => exact hX (.rlimit res.val none)
    | some p =>
      obtain ⟨f, l⟩ := p
      cases f with
      | iterator => rfl
      | tuple => exact hX (.rlimit res.val (some l))
      | list => exact hX (.rlimit res.val (some l))

/-- the short cut taken when `self.pid == os.getpid()` evaluated IN THE CALL is sound: `who = 0` is
    then the target itself -/
theorem who_now_sound (o : Origin) (k : Kernel) (pid : Nat) :
    resolve k ((Addr.callerIf .now).who o k pid) = resolve k pid := by
  simp only [Addr.who, PidSrc.eval]
  by_cases hp : pid = k.self
  · subst hp; simp [resolve]
  · simp [hp]

/-- a remembered pid is as good as long as it still is the caller's (no fork since) -/
theorem who_remembered_sound (s : PidSrc) (o : Origin) (k : Kernel) (pid : Nat) (h : s.eval o k = k.self) :
    resolve k ((Addr.callerIf s).who o k pid) = resolve k pid := by
  simp only [Addr.who, h]
  by_cases hp : pid = k.self
  · subst hp; simp [resolve]
  · simp [hp]

end Psutil.C18
