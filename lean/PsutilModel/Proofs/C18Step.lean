/-
  Proofs/C18Step.lean — the PROOF LAYER `step`: the calls in the superseded shape of the code and of
  the world (a caller permitted everything, native wrappers without errno protocol / failure tests /
  sizing loop, `cpu_affinity_set` before aebc260). These statements were the property theorems of
  rounds 1–2; since round 3 they are lemmas: what the driver runs is `stepPy cfg`, and Props/C18.lean
  states the clauses for it (`C18_py_*`), going through `stepX_eq_stepXo` (Proofs/C18Priv.lean) and
  the lemmas below. Nothing here depends on the generated configuration.
-/
import PsutilModel.Proofs.C18Py
namespace Psutil.C18
open Spec

/-! ### refinement: whatever the specification promises, the code does -/

/-- For EVERY kernel state, process, and request: when the specification promises an outcome
    (a get form, a set form with a valid value, one of the listed invalid requests,
    `cpu_affinity([])`), the model returns exactly that result and leaves exactly that kernel
    (same per-process states, same log of changes). The only exclusion is the region of the
    known finding `C18-ineligible-oserror`. -/
theorem step_refines (c : Cfg) (hg : c.Good) (k : Kernel) (pid : Nat) (st : PState) (req : Req)
    (o : Out) (k' : Kernel) (hpid : pid ≠ 0) (hst : k.procs pid = some st) (hwf : WF k st)
    (hreg : ¬ InFindingRegion k st req)
    (hlong : ∀ cpus, req = .cpuAffinity (some cpus) → AllLong cpus)
    (hs : Spec.expect k pid st req = .promised o k') : step c k pid req = (o, k') := by
  cases req with
  | nice v => exact refines_nice c k pid st v o k' hpid hst hs
  | ionice cls v => exact refines_ionice c hg k pid st cls v o k' hpid hst hs
  | cpuAffinity cpus =>
    exact refines_affinity c hg k pid st cpus o k' hpid hst hwf hreg (fun l e => hlong l (by rw [e])) hs
  | rlimit res l => exact refines_rlimit c hg k pid st res l o k' hpid hst hs

/-! ### get reads the kernel -/

theorem step_get_nice (c : Cfg) (k : Kernel) (pid : Nat) (st : PState) (hpid : pid ≠ 0)
    (hst : k.procs pid = some st) : step c k pid (.nice none) = (.ok (.int st.nice), k) :=
  refines_nice c k pid st none _ _ hpid hst rfl

theorem step_get_ionice (c : Cfg) (hg : c.Good) (k : Kernel) (pid : Nat) (st : PState) (hpid : pid ≠ 0)
    (hst : k.procs pid = some st) (hcls : st.ioprio / 8192 ≤ 3) :
    step c k pid (.ionice none none) = (.ok (.ionice (st.ioprio / 8192) (st.ioprio % 8192)), k) :=
  refines_ionice c hg k pid st none none _ _ hpid hst (by simp [Spec.expect, hcls])

theorem step_get_affinity (c : Cfg) (hg : c.Good) (k : Kernel) (pid : Nat) (st : PState) (hpid : pid ≠ 0)
    (hst : k.procs pid = some st) (hwf : WF k st) :
    step c k pid (.cpuAffinity none) = (.ok (.cpus st.affinity), k) := by
  have h := refines_affinity c hg k pid st none _ _ hpid hst hwf (fun h => h) (fun l e => by cases e) rfl
  rwa [show Spec.ascending k st.affinity = st.affinity from
    rangeFilter_contains_self hwf.asc (fun x hx => (hwf.sub x hx).1)] at h

theorem step_get_rlimit (c : Cfg) (hg : c.Good) (k : Kernel) (pid : Nat) (st : PState) (hpid : pid ≠ 0)
    (hst : k.procs pid = some st) (res : Nat) (hres : res < 16) (s h : Int)
    (hs : Spec.limitToPy (st.rlimits res).1 = some s) (hh : Spec.limitToPy (st.rlimits res).2 = some h) :
    step c k pid (.rlimit res none) = (.ok (.limits s h), k) :=
  refines_rlimit c hg k pid st res none _ _ hpid hst (by
    have : (0 : Int) ≤ (res : Int) ∧ (res : Int) < 16 := by omega
    simp only [Spec.expect, this, and_self, if_true, Int.toNat_natCast, hs, hh])

/-! ### set, then get -/

theorem step_set_then_get_nice (c : Cfg) (k : Kernel) (pid : Nat) (st : PState) (v : Int)
    (hpid : pid ≠ 0) (hst : k.procs pid = some st) (hv : -20 ≤ v ∧ v ≤ 19) :
    ∃ k', step c k pid (.nice (some v)) = (.ok .none, k') ∧
      k'.procs pid = some { st with nice := v } ∧
      step c k' pid (.nice none) = (.ok (.int v), k') := by
  refine ⟨Spec.replaced k pid { st with nice := v } (.nice pid v),
    refines_nice c k pid st (some v) _ _ hpid hst (by simp [Spec.expect, hv]), ?_, ?_⟩
  · exact replaced_self _ _ _ _
  · exact step_get_nice c _ pid _ hpid (replaced_self _ _ _ _)

/-- the values `ionice(ioclass, value)` accepts: RT/BE with a level 0..7 (or none = 0),
    NONE/IDLE with no level -/
def ValidIonice (cls : Int) (value : Option Int) : Prop :=
  ((cls = 1 ∨ cls = 2) ∧ 0 ≤ value.getD 0 ∧ value.getD 0 ≤ 7) ∨ ((cls = 0 ∨ cls = 3) ∧ value.getD 0 = 0)

theorem step_set_then_get_ionice (c : Cfg) (hg : c.Good) (k : Kernel) (pid : Nat) (st : PState)
    (cls : Int) (value : Option Int) (hpid : pid ≠ 0) (hst : k.procs pid = some st)
    (hv : ValidIonice cls value) :
    ∃ k', step c k pid (.ionice (some cls) value) = (.ok .none, k') ∧
      k'.procs pid = some { st with ioprio := cls.toNat * 8192 + (value.getD 0).toNat } ∧
      step c k' pid (.ionice none none) = (.ok (.ionice cls.toNat (value.getD 0).toNat), k') := by
  have h1 : 0 ≤ cls ∧ cls ≤ 3 := by unfold ValidIonice at hv; omega
  have h2 : ¬ (value.getD 0 < 0 ∨ value.getD 0 > 7) := by unfold ValidIonice at hv; omega
  have h3 : ¬ ((cls = 0 ∨ cls = 3) ∧ value.getD 0 ≠ 0) := by unfold ValidIonice at hv; omega
  refine ⟨Spec.replaced k pid { st with ioprio := Spec.ioprioValue cls.toNat (value.getD 0).toNat }
        (.ioprio pid (Spec.ioprioValue cls.toNat (value.getD 0).toNat)),
    refines_ionice c hg k pid st (some cls) value _ _ hpid hst
    (by simp only [Spec.expect, h2, if_false, h1, and_self, if_true, h3]), ?_, ?_⟩
  · simp [Spec.replaced, Spec.ioprioValue]
  · have hget := step_get_ionice c hg
      (Spec.replaced k pid { st with ioprio := Spec.ioprioValue cls.toNat (value.getD 0).toNat }
        (.ioprio pid (Spec.ioprioValue cls.toNat (value.getD 0).toNat))) pid
      { st with ioprio := Spec.ioprioValue cls.toNat (value.getD 0).toNat } hpid
      (replaced_self _ _ _ _) (by simp only [Spec.ioprioValue]; omega)
    have e1 : Spec.ioprioValue cls.toNat (value.getD 0).toNat / 8192 = cls.toNat := by
      simp only [Spec.ioprioValue]; omega
    have e2 : Spec.ioprioValue cls.toNat (value.getD 0).toNat % 8192 = (value.getD 0).toNat := by
      simp only [Spec.ioprioValue]; omega
    simp only [e1, e2] at hget
    exact hget

/-- a CPU list every element of which is an eligible CPU of the process -/
def ValidCpus (k : Kernel) (st : PState) (cpus : List Int) : Prop :=
  cpus ≠ [] ∧ ∀ x ∈ cpus, 0 ≤ x ∧ x.toNat < k.ncpu ∧ x.toNat ∈ st.cpuset

theorem step_set_then_get_affinity (c : Cfg) (hg : c.Good) (k : Kernel) (pid : Nat) (st : PState)
    (cpus : List Int) (hpid : pid ≠ 0) (hst : k.procs pid = some st) (hwf : WF k st)
    (hv : ValidCpus k st cpus) :
    ∃ k' a, step c k pid (.cpuAffinity (some cpus)) = (.ok .none, k') ∧
      k'.procs pid = some { st with affinity := a } ∧
      Asc a ∧ (∀ x : Nat, x ∈ a ↔ (x : Int) ∈ cpus) ∧
      step c k' pid (.cpuAffinity none) = (.ok (.cpus a), k') := by
  obtain ⟨hne, hall⟩ := hv
  have hemp : cpus.isEmpty = false := by
    cases cpus with
    | nil => exact absurd rfl hne
    | cons _ _ => rfl
  have hallb : (cpus.all fun x => decide (0 ≤ x) && (Spec.eligible k st).contains x.toNat) = true := by
    rw [List.all_eq_true]
    intro x hx
    obtain ⟨h0, h1, h2⟩ := hall x hx
    simp only [Bool.and_eq_true, decide_eq_true_eq, List.contains_iff_mem]
    exact ⟨h0, (mem_eligible k st _).2 ⟨h1, h2⟩⟩
  have hreg : ¬ InFindingRegion k st (.cpuAffinity (some cpus)) := by
    rintro ⟨_, h, _⟩
    cases hc : cpus with
    | nil => exact hne hc
    | cons y _ => exact (h y (by simp [hc])).2.2 (hall y (by simp [hc])).2.2
  have hmem : ∀ x : Nat, x ∈ Spec.ascending k (cpus.map Int.toNat) ↔ (x : Int) ∈ cpus := by
    intro x
    simp only [Spec.ascending, List.mem_filter, List.mem_range, List.contains_iff_mem, List.mem_map]
    constructor
    · rintro ⟨_, y, hy, rfl⟩
      rw [Int.toNat_of_nonneg (hall y hy).1]; exact hy
    · intro hx
      have := hall _ hx
      exact ⟨by simpa using this.2.1, (x : Int), hx, by simp⟩
  have hwf' : WF (Spec.replaced k pid { st with affinity := Spec.ascending k (cpus.map Int.toNat) }
      (.affinity pid (Spec.ascending k (cpus.map Int.toNat))))
      { st with affinity := Spec.ascending k (cpus.map Int.toNat) } := by
    refine ⟨hwf.ncpu, asc_rangeFilter _ _, ?_, ?_, hwf.ioprio, hwf.rl, hwf.stat⟩
    · intro x hx
      have hx' := (hmem x).1 hx
      have := hall _ hx'
      show x < k.ncpu ∧ x ∈ st.cpuset
      simpa using this.2
    · cases hc : cpus with
      | nil => exact absurd hc hne
      | cons y rest =>
        have hy : y ∈ cpus := by simp [hc]
        have : y.toNat ∈ Spec.ascending k (cpus.map Int.toNat) :=
          (hmem _).2 (by rw [Int.toNat_of_nonneg (hall y hy).1]; exact hy)
        rw [hc] at this
        intro h
        simp only at h
        rw [h] at this; cases this
  refine ⟨Spec.replaced k pid { st with affinity := Spec.ascending k (cpus.map Int.toNat) }
      (.affinity pid (Spec.ascending k (cpus.map Int.toNat))), Spec.ascending k (cpus.map Int.toNat),
    refines_affinity c hg k pid st (some cpus) _ _ hpid hst hwf hreg
    (fun l e => by
      cases e
      intro v hv
      have := hall v hv
      have := hwf.ncpu
      simp only [fitsCLong, decide_eq_true_eq]; omega)
    (by simp only [Spec.expect, hemp, Bool.false_eq_true, if_false, hallb, if_true]), ?_,
    asc_rangeFilter _ _, hmem, ?_⟩
  · exact replaced_self _ _ _ _
  · exact step_get_affinity c hg _ pid _ hpid (replaced_self _ _ _ _) hwf'

/-- limits the statement quantifies over: a pair `soft ≤ hard` of values below 2^63 or
    RLIM_INFINITY (−1), which this caller is allowed to set (`fs.nr_open` for NOFILE; raising
    the hard limit needs CAP_SYS_RESOURCE) -/
def ValidLimits (k : Kernel) (st : PState) (res : Nat) (s h : Int) (s' h' : Nat) : Prop :=
  res < 16 ∧ Spec.limitOfPy s = some s' ∧ Spec.limitOfPy h = some h' ∧ s' ≤ h' ∧
    (res = 7 → h' ≤ k.nrOpen) ∧ (k.capResource = true ∨ h' ≤ (st.rlimits res).2)

theorem step_set_then_get_rlimit (c : Cfg) (hg : c.Good) (k : Kernel) (pid : Nat) (st : PState)
    (res : Nat) (s h : Int) (s' h' : Nat) (hpid : pid ≠ 0) (hst : k.procs pid = some st)
    (hv : ValidLimits k st res s h s' h') :
    ∃ k', step c k pid (.rlimit res (some [s, h])) = (.ok .none, k') ∧
      k'.procs pid = some { st with rlimits := fun r => if r = res then (s', h') else st.rlimits r } ∧
      step c k' pid (.rlimit res none) = (.ok (.limits s h), k') := by
  obtain ⟨hr, hs, hh, hle, hno, hcap⟩ := hv
  have hres : (0 : Int) ≤ (res : Int) ∧ (res : Int) < 16 := by omega
  have hno' : ((res : Int) = 7 → h' ≤ k.nrOpen) := fun e => hno (by omega)
  refine ⟨Spec.replaced k pid { st with rlimits := fun r => if r = res then (s', h') else st.rlimits r }
      (.rlimit pid res s' h'),
    refines_rlimit c hg k pid st res (some [s, h]) _ _ hpid hst
    (by
      simp only [Spec.expect, hres, and_self, if_true, hs, hh, Int.toNat_natCast]
      rw [if_pos ⟨hle, hno', hcap⟩]), ?_, ?_⟩
  · exact replaced_self _ _ _ _
  · refine step_get_rlimit c hg _ pid _ hpid (replaced_self _ _ _ _) res hr s h ?_ ?_
    · simp only [if_true]; exact limitToPy_limitOfPy hs
    · simp only [if_true]; exact limitToPy_limitOfPy hh

/-! ### nothing else changes -/

/-- no call on `Process(pid)` — valid or not, whatever the configuration — changes the state
    of another process or a kernel parameter -/
theorem step_others_unchanged (c : Cfg) (k : Kernel) (pid : Nat) (hpid : pid ≠ 0) (req : Req) :
    (∀ q, q ≠ pid → (step c k pid req).2.procs q = k.procs q) ∧
    (step c k pid req).2.ncpu = k.ncpu ∧ (step c k pid req).2.nrOpen = k.nrOpen ∧
    (step c k pid req).2.capResource = k.capResource ∧ (step c k pid req).2.self = k.self :=
  let f := frame_step c k hpid req
  ⟨f.others, f.ncpu, f.nrOpen, f.cap, f.self⟩

/-- a valid set replaces exactly the requested attribute of that process and logs exactly one
    change (read off the specification, which `step_refines` shows the code meets) -/
theorem step_set_changes_only_that (c : Cfg) (k : Kernel) (pid : Nat) (st : PState)
    (v : Int) (hpid : pid ≠ 0) (hst : k.procs pid = some st) (hv : -20 ≤ v ∧ v ≤ 19) :
    ∀ st', (step c k pid (.nice (some v))).2.procs pid = some st' →
      st'.ioprio = st.ioprio ∧ st'.affinity = st.affinity ∧ st'.cpuset = st.cpuset ∧
      st'.rlimits = st.rlimits ∧ (step c k pid (.nice (some v))).2.log = k.log ++ [.nice pid v] := by
  rw [refines_nice c k pid st (some v) (.ok .none) (Spec.replaced k pid { st with nice := v } (.nice pid v))
    hpid hst (by simp [Spec.expect, hv])]
  intro st' h
  rw [replaced_self] at h
  simp only [Option.some.injEq] at h
  subst h
  exact ⟨rfl, rfl, rfl, rfl, rfl⟩

/-! ### invalid requests: ValueError, nothing changes -/

/-- level outside 0..7; a level for the idle/none class; a level without a class; limits that
    are not a pair: ValueError and the very same kernel (state and effect log untouched) -/
theorem step_invalid_ValueError_no_effect (c : Cfg) (hg : c.Good) (k : Kernel) (pid : Nat) (st : PState)
    (hpid : pid ≠ 0) (hst : k.procs pid = some st) :
    (∀ cls value, (Option.getD value 0 < 0 ∨ Option.getD value 0 > 7) →
      step c k pid (.ionice (some cls) value) = (.exc .valueError, k)) ∧
    (∀ cls value, (cls = 0 ∨ cls = 3) → Option.getD value 0 ≠ 0 →
      step c k pid (.ionice (some cls) value) = (.exc .valueError, k)) ∧
    (∀ value, step c k pid (.ionice none (some value)) = (.exc .valueError, k)) ∧
    (∀ res limits, List.length limits ≠ 2 →
      step c k pid (.rlimit res (some limits)) = (.exc .valueError, k)) := by
  refine ⟨fun cls value h2 => ?_, fun cls value h1 h2 => ?_, fun value => ?_, fun res limits h => ?_⟩
  · exact refines_ionice c hg k pid st (some cls) value _ _ hpid hst
      (by simp only [Spec.expect, h2, if_true])
  · by_cases h3 : Option.getD value 0 < 0 ∨ Option.getD value 0 > 7
    · exact refines_ionice c hg k pid st (some cls) value _ _ hpid hst
        (by
          simp only [Spec.expect, h3, if_true])
    · exact refines_ionice c hg k pid st (some cls) value _ _ hpid hst
        (by
          have : 0 ≤ cls ∧ cls ≤ 3 := by omega
          simp only [Spec.expect, h3, if_false, this, and_self, if_true, h1, h2, ne_eq, not_false_eq_true])
  · exact refines_ionice c hg k pid st none (some value) _ _ hpid hst rfl
  · refine refines_rlimit c hg k pid st res (some limits) _ _ hpid hst ?_
    match limits, h with
    | [], _ => rfl
    | [_], _ => rfl
    | _ :: _ :: _ :: _, _ => rfl

/-- the statement at full strength: such a list raises ValueError and changes nothing -/
def step_invalid_cpus_Full (c : Cfg) : Prop :=
  ∀ (k : Kernel) (pid : Nat) (st : PState) (cpus : List Int), pid ≠ 0 → k.procs pid = some st → WF k st →
    OnlyUnusableCpus k st cpus → step c k pid (.cpuAffinity (some cpus)) = (.exc .valueError, k)

/-- proved part: outside the region of the known finding (i.e. when some listed CPU does not
    exist, or when the status line starts with a range) the statement holds -/
theorem step_invalid_cpus_partial (c : Cfg) (hg : c.Good) (k : Kernel) (pid : Nat) (st : PState)
    (cpus : List Int) (hpid : pid ≠ 0) (hst : k.procs pid = some st) (hwf : WF k st)
    (h : OnlyUnusableCpus k st cpus)
    (hout : (∃ x ∈ cpus, x < 0 ∨ k.ncpu ≤ x.toNat) ∨ statusRange st.affinity ≠ none) :
    step c k pid (.cpuAffinity (some cpus)) = (.exc .valueError, k) := by
  refine refines_affinity c hg k pid st (some cpus) _ _ hpid hst hwf ?_ (fun l e => by cases e; exact fun v hv => (h.2 v hv).1)
    (expect_of_onlyUnusable pid h)
  rintro ⟨_, hall, hsr⟩
  rcases hout with ⟨x, hx, hx'⟩ | hout
  · have := hall x hx; have := hwf.stat; omega
  · exact hout hsr

/-- the "changes nothing" half holds at full strength, also inside the region of the finding:
    such a list never changes the kernel, and the call always raises (ValueError, or the
    kernel's EINVAL passed on as OSError) -/
theorem step_invalid_cpus_no_effect (c : Cfg) (k : Kernel) (pid : Nat) (st : PState)
    (cpus : List Int) (hpid : pid ≠ 0) (hst : k.procs pid = some st) (hn : k.ncpu ≤ 1024)
    (h : OnlyUnusableCpus k st cpus) :
    (step c k pid (.cpuAffinity (some cpus))).2 = k ∧
    ((step c k pid (.cpuAffinity (some cpus))).1 = .exc .valueError ∨
     (step c k pid (.cpuAffinity (some cpus))).1 = .exc (.osError .EINVAL)) := by
  obtain ⟨hne, hall⟩ := h
  have hemp : cpus.isEmpty = false := by
    cases cpus with
    | nil => exact absurd rfl hne
    | cons _ _ => rfl
  simp only [step, cpuAffinity, hemp, Bool.false_eq_true, if_false]
  have hl : AllLong cpus := fun v hv => (hall v hv).1
  have hel : ∃ el, getEligibleCpus k pid = some el := by
    simp only [getEligibleCpus, hst]
    split <;> exact ⟨_, rfl⟩
  obtain ⟨el, hel⟩ := hel
  by_cases hm1 : (-1 : Int) ∈ cpus
  · have := cpuSetOfSeq_minus1 (allLong_dedup c hl) ((mem_dedup c cpus _).2 hm1)
    simp only [cpuAffinitySet, cextAffinitySet, this, hel, true_or, if_true]
    split <;> simp [wrapExc]
  · obtain ⟨m, hm, hmem⟩ := cpuSetOfSeq_ok (allLong_dedup c hl) (fun h => hm1 ((mem_dedup c cpus _).1 h))
    have hmem' : ∀ x : Nat, x ∈ m ↔ (x < 1024 ∧ (x : Int) ∈ cpus) := fun x => by rw [hmem, mem_dedup c]
    have hgr := granted_eq k st m cpus hn hmem'
    have hnil : (List.range k.ncpu).filter
        (fun (x : Nat) => decide ((x : Int) ∈ cpus) && st.cpuset.contains x) = [] := by
      rw [List.filter_eq_nil_iff]
      intro x hx
      have hx' : x < k.ncpu := List.mem_range.1 hx
      simp only [Bool.and_eq_true, decide_eq_true_eq, List.contains_iff_mem]
      rintro ⟨h1, h2⟩
      rcases (hall _ h1).2 with h | h | h
      · omega
      · rw [Int.toNat_natCast] at h; omega
      · rw [Int.toNat_natCast] at h; exact h h2
    rw [hnil] at hgr
    simp only [cpuAffinitySet, cextAffinitySet, hm, sysSchedSetaffinity, resolve_pid k hpid, hst, hgr,
      List.isEmpty_nil, if_true, ofSys, or_true, hel]
    split <;> simp [wrapExc]

/-! ### `cpu_affinity([])` -/

theorem step_empty_selects_all_eligible (c : Cfg) (hg : c.Good) (k : Kernel) (pid : Nat) (st : PState)
    (hpid : pid ≠ 0) (hst : k.procs pid = some st) (hwf : WF k st) :
    ∃ k', step c k pid (.cpuAffinity (some [])) = (.ok .none, k') ∧
      k'.procs pid = some { st with affinity := Spec.eligible k st } ∧
      ∀ x, x ∈ Spec.eligible k st ↔ x < k.ncpu ∧ x ∈ st.cpuset := by
  refine ⟨Spec.replaced k pid { st with affinity := Spec.eligible k st } (.affinity pid (Spec.eligible k st)),
    refines_affinity c hg k pid st (some []) _ _ hpid hst hwf (fun h => h.1 rfl)
      (fun l e => by cases e; exact fun v hv => by cases hv) rfl, ?_,
    mem_eligible k st⟩
  exact replaced_self _ _ _ _

/-! ### duplicates, order, shape of the result -/

/-- two CPU lists naming the same CPUs (duplicates, any order) have the same effect — under
    every configuration, i.e. whether or not the front end de-duplicates first -/
theorem step_dedup (c : Cfg) (k : Kernel) (pid : Nat) (st : PState) (l l' : List Int)
    (hpid : pid ≠ 0) (hst : k.procs pid = some st) (hn : k.ncpu ≤ 1024)
    (hl : AllLong l) (hl' : AllLong l') (hne : l ≠ []) (hne' : l' ≠ [])
    (hsame : ∀ x, x ∈ l ↔ x ∈ l') :
    step c k pid (.cpuAffinity (some l)) = step c k pid (.cpuAffinity (some l')) := by
  have e1 : l.isEmpty = false := by cases l <;> simp_all
  have e2 : l'.isEmpty = false := by cases l' <;> simp_all
  simp only [step, cpuAffinity, e1, e2, Bool.false_eq_true, if_false]
  have hdiag : ∀ el, diagnose (List.range k.statCpus) el (dedup c l) = diagnose (List.range k.statCpus) el (dedup c l') := by
    intro el
    rw [Bool.eq_iff_iff, diagnose_true, diagnose_true]
    constructor
    · rintro ⟨x, hx, h⟩; exact ⟨x, (mem_dedup c _ _).2 ((hsame x).1 ((mem_dedup c _ _).1 hx)), h⟩
    · rintro ⟨x, hx, h⟩; exact ⟨x, (mem_dedup c _ _).2 ((hsame x).2 ((mem_dedup c _ _).1 hx)), h⟩
  by_cases hm : (-1 : Int) ∈ l
  · have hm' : (-1 : Int) ∈ l' := (hsame _).1 hm
    have a := cpuSetOfSeq_minus1 (allLong_dedup c hl) ((mem_dedup c l _).2 hm)
    have b := cpuSetOfSeq_minus1 (allLong_dedup c hl') ((mem_dedup c l' _).2 hm')
    simp only [cpuAffinitySet, cextAffinitySet, a, b, hdiag]
  · have hm' : (-1 : Int) ∉ l' := fun h => hm ((hsame _).2 h)
    obtain ⟨m, a, ha⟩ := cpuSetOfSeq_ok (allLong_dedup c hl) (fun h => hm ((mem_dedup c l _).1 h))
    obtain ⟨m', b, hb⟩ := cpuSetOfSeq_ok (allLong_dedup c hl') (fun h => hm' ((mem_dedup c l' _).1 h))
    have ha' : ∀ x : Nat, x ∈ m ↔ (x < 1024 ∧ (x : Int) ∈ l) := fun x => by rw [ha, mem_dedup c]
    have hb' : ∀ x : Nat, x ∈ m' ↔ (x < 1024 ∧ (x : Int) ∈ l) := fun x => by rw [hb, mem_dedup c, hsame]
    have hg1 := granted_eq k st m l hn ha'
    have hg2 := granted_eq k st m' l hn hb'
    have hsys : sysSchedSetaffinity k pid m = sysSchedSetaffinity k pid m' := by
      simp only [sysSchedSetaffinity, resolve_pid k hpid, hst, hg1, hg2]
    simp only [cpuAffinitySet, cextAffinitySet, a, b, hsys, hdiag]

/-- whatever the native layer reports, the get form returns an ascending duplicate-free list -/
theorem step_get_sorted_unique (c : Cfg) (hg : c.Good) (k k' : Kernel) (pid : Nat) (l : List Nat)
    (h : step c k pid (.cpuAffinity none) = (.ok (.cpus l), k')) : l.Pairwise (· < ·) := by
  simp only [step, cpuAffinity, hg.sorted, if_true] at h
  split at h
  · simp only [Prod.mk.injEq, Out.ok.injEq, Val.cpus.injEq] at h
    rw [← h.1]; exact asc_sortedSet _
  · simp at h

/-! ### PID 0 -/

/-- `rlimit` never reaches the kernel for PID 0 (where `prlimit` would act on the caller) -/
theorem step_rlimit_pid0_refused (c : Cfg) (hg : c.Good) (k : Kernel) (res : Int) (l : Option (List Int)) :
    step c k 0 (.rlimit res l) = (.exc .valueError, k) := by
  simp [step, rlimitL, hg.pid0]

/-! ### rlimit: RLIM_INFINITY, soft > hard, resource out of range -/

/-- Python int ↔ `rlim_t`: −1 is RLIM_INFINITY (2^64−1) in both directions, and the conversion
    round-trips on every 64-bit value -/
theorem step_rlim_conversion :
    toU64 (-1) = 18446744073709551615 ∧ ofU64 18446744073709551615 = -1 ∧
    (∀ n : Nat, n < 18446744073709551616 → toU64 (ofU64 n) = n) ∧
    (∀ v : Int, fitsCLong v = true → ofU64 (toU64 v) = v) := by
  refine ⟨by decide, by decide, fun n hn => ?_, fun v hv => ?_⟩
  · unfold toU64 ofU64; split <;> split <;> omega
  · simp only [fitsCLong, decide_eq_true_eq] at hv
    unfold toU64 ofU64; split <;> split <;> omega

/-- soft > hard (as unsigned 64-bit values, so `(-1, 5)` too): the kernel's EINVAL reaches the
    caller as ValueError and nothing changes -/
theorem step_rlimit_soft_gt_hard (c : Cfg) (hg : c.Good) (k : Kernel) (pid : Nat) (st : PState) (res : Nat)
    (s h : Int) (hpid : pid ≠ 0) (hst : k.procs pid = some st) (hres : res < 16)
    (hs : fitsCLong s = true) (hh : fitsCLong h = true) (hgt : toU64 s > toU64 h) :
    step c k pid (.rlimit res (some [s, h])) = (.exc .valueError, k) := by
  have hfit : fitsCInt (res : Int) = true := by simp [fitsCInt]; omega
  have hr : ¬ ((res : Int) < 0 ∨ (res : Int) ≥ 16) := by omega
  simp [step, rlimitL, hpid, hg.pair, pyPrlimitSet, resourceCheck, hfit, hr, hs, hh, sysPrlimitSet,
    resolve_pid k hpid, hst, hgt, wrapExc]

/-- a resource number outside 0..15: ValueError for the get and the set form, nothing changes -/
theorem step_rlimit_bad_resource (c : Cfg) (k : Kernel) (pid : Nat) (res : Int) (l : Option (List Int))
    (hpid : pid ≠ 0) (hfit : fitsCInt res = true) (hres : res < 0 ∨ res ≥ 16) :
    step c k pid (.rlimit res l) = (.exc .valueError, k) := by
  cases l with
  | none => simp [step, rlimitL, hpid, pyPrlimitGet, resourceCheck, hfit, hres, wrapExc]
  | some l =>
    simp only [step, rlimitL, hpid, false_and, if_false]
    split
    · rfl
    · simp [pyPrlimitSet, resourceCheck, hfit, hres, wrapExc]


end Psutil.C18
