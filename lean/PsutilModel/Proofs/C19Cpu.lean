/- Proofs/C19Cpu.lean — helper lemmas for Props/C19.lean -/
import PsutilModel.Proofs.C19
namespace Psutil.C19
open Spec
end Psutil.C19
