/- Proofs/C19Cpu.lean — helper lemmas for the cpu_freq / cpu_count / cpu_stats / boot_time part of
   Props/C19.lean -/
import PsutilModel.Proofs.C19
namespace Psutil.C19
open Spec

/-! ### cpu_freq -/

theorem foldl_add (f : Freq → Rat) (l : List Freq) (acc : Rat) :
    l.foldl (fun a x => a + f x) acc = acc + (l.map f).sum := by
  induction l generalizing acc with
  | nil => simp
  | cons x xs ih => simp only [List.foldl_cons, List.map_cons, List.sum_cons, ih]; ring

theorem sumBy_eq (f : Freq → Rat) (l : List Freq) : sumBy f l = (l.map f).sum := by
  unfold sumBy
  rw [foldl_add]
  ring

theorem cpuFreqFront_eq (percpu : Bool) (l : List Freq) : cpuFreqFront percpu l = freqFront percpu l := by
  unfold cpuFreqFront freqFront
  cases percpu with
  | true => rfl
  | false =>
    simp only [Bool.false_eq_true, if_false]
    cases l with
    | nil => rfl
    | cons a as =>
      cases as with
      | nil => simp [mean]
      | cons b bs => simp [mean, sumBy_eq]

theorem truncRat_of_den_one (q : Rat) (h : q.den = 1) : ((truncRat q : Int) : Rat) = q := by
  have hq : ((q.num : Int) : Rat) = q := (Rat.den_eq_one_iff q).mp h
  unfold truncRat
  split
  · rw [← hq, Rat.floor_intCast]
  · have : -q = (((-q.num : Int)) : Rat) := by push_cast; rw [hq]
    rw [this, Rat.floor_intCast]
    push_cast
    rw [hq]
    ring

theorem readKhz_kernel (c : Cfg) (hg : c.Good) (f : FileState) (k : Int) (h : fileInt f = some (some k)) :
    readKhz c f = .ok (perMille (k : Rat)) := by
  unfold readKhz perMille
  rw [hg.khz, cast1000]
  unfold fileInt at h
  cases f with
  | absent => simp [FileState.readOpt] at h
  | unreadable => simp [FileState.readOpt] at h
  | content b =>
    simp only [FileState.readOpt, Option.map_some, Option.some.injEq] at h
    simp [FileState.read, h]

theorem offline_eq (online : List (Nat × FileState)) (i : Nat) :
    decide ((cpuOnlineFile online i).readOpt = some bZeroNl) = offline online i := by
  unfold cpuOnlineFile offline
  cases online.lookup i with
  | none => simp [FileState.readOpt]
  | some f =>
    cases f with
    | absent => simp [FileState.readOpt]
    | unreadable => simp [FileState.readOpt]
    | content b => by_cases hb : b = bZeroNl <;> simp [FileState.readOpt, hb]

theorem curr_rel (c : Cfg) (hg : c.Good) (info : Option Rat) (p : Policy) :
    match curOf p info with
    | none => policyCurr c info p = none
    | some none => True
    | some (some q) => ∃ k : Int, policyCurr c info p = some (.ok k) ∧ (k : Rat) / 1000 = q := by
  unfold curOf policyCurr
  rw [hg.khz, cast1000]
  cases info with
  | some mhz =>
    simp only
    by_cases hd : (mhz * 1000).den = 1
    · simp only [hd, if_true]
      refine ⟨_, rfl, ?_⟩
      rw [truncRat_of_den_one _ hd, mul_div_cancel_right₀ mhz (by norm_num : (1000 : Rat) ≠ 0)]
    · simp only [hd, if_false]
  | none =>
    simp only [fileInt]
    cases hsc : p.scalingCur.readOpt with
    | some b =>
      cases hb : pyInt? b with
      | none => simp [hb]
      | some k => simp [hb, ofOpt, perMille]
    | none =>
      cases hcc : p.cpuinfoCur.readOpt with
      | some b =>
        cases hb : pyInt? b with
        | none => simp [hb]
        | some k => simp [hb, ofOpt, perMille]
      | none => simp

/-- one policy directory: what the declarative row promises is what the loop body computes -/
theorem policyFreq_refines (c : Cfg) (hg : c.Good) (online : List (Nat × FileState)) (i : Nat)
    (info : Option Rat) (p : Policy) (fr : Freq)
    (h : policyRow p info (offline online i) = some fr) : policyFreq c online i info p = .ok fr := by
  unfold policyRow at h
  unfold policyFreq
  have hrel := curr_rel c hg info p
  cases hc : curOf p info with
  | none =>
    rw [hc] at h hrel
    simp only at h hrel
    rw [hrel]
    simp only
    rw [← offline_eq] at h
    by_cases ho : (cpuOnlineFile online i).readOpt = some bZeroNl
    · simp only [ho, decide_true, if_true, Option.some.injEq] at h
      simp [ho, h]
    · simp [ho] at h
  | some q' =>
    cases q' with
    | none => rw [hc] at h; simp at h
    | some q =>
      rw [hc] at h hrel
      obtain ⟨k, hk, hkq⟩ := hrel
      rw [hk]
      simp only at h ⊢
      cases hmn : fileInt p.scalingMin with
      | none => simp [hmn] at h
      | some mn' => cases mn' with
        | none => simp [hmn] at h
        | some mn =>
          cases hmx : fileInt p.scalingMax with
          | none => simp [hmn, hmx] at h
          | some mx' => cases mx' with
            | none => simp [hmn, hmx] at h
            | some mx =>
              simp only [hmn, hmx, Option.some.injEq] at h
              rw [readKhz_kernel c hg _ mx hmx, readKhz_kernel c hg _ mn hmn]
              simp only [hg.khz, cast1000, hkq]
              rw [h]

theorem allSome_cons {α : Type} (x : Option α) (xs : List (Option α)) (l : List α)
    (h : allSome (x :: xs) = some l) : ∃ a as, x = some a ∧ allSome xs = some as ∧ l = a :: as := by
  cases x with
  | none => simp [allSome] at h
  | some a =>
    simp only [allSome] at h
    cases hx : allSome xs with
    | none => simp [hx] at h
    | some as => simp [hx] at h; exact ⟨a, as, rfl, rfl, h.symm⟩

/-- where the specification's row (probe by the policy's own number) is determined, it is the row
    with the probe psutil makes — by position `i` (as found) or by the policy's number -/
theorem policyRowAt_imp (online : List (Nat × FileState)) (i j : Nat) (p : Policy) (info : Option Rat) (fr : Freq)
    (hj : j = i ∨ j = p.n)
    (h : policyRowAt online i p info = some fr) : policyRow p info (offline online j) = some fr := by
  unfold policyRowAt at h
  cases hc : curOf p info with
  | none =>
    by_cases hi : i = p.n
    · have : j = p.n := by rcases hj with h' | h'; rw [h', hi]; exact h'
      rw [this]; simpa [hc, hi] using h
    · simp [hc, hi] at h
  | some q =>
    simp only [hc, Option.isNone_some, Bool.false_and, Bool.false_eq_true, if_false] at h
    unfold policyRow at h ⊢
    rw [hc] at h ⊢
    cases q <;> exact h

theorem policyLoop_refines (c : Cfg) (hg : c.Good) (online : List (Nat × FileState))
    (infos : Option (List Rat)) :
    ∀ (ps : List Policy) (i : Nat) (l : List Freq),
      allSome (((List.range' i ps.length).zip ps).map fun ip =>
        policyRowAt online ip.1 ip.2 (infoAt infos ip.1)) = some l →
      policyLoop c online infos i ps = .ok l := by
  intro ps
  induction ps with
  | nil => intro i l h; simp [allSome] at h; simp [policyLoop, h]
  | cons p ps ih =>
    intro i l h
    simp only [List.length_cons, List.range'_succ, List.zip_cons_cons, List.map_cons] at h
    obtain ⟨a, as, h1, h2, h3⟩ := allSome_cons _ _ _ h
    unfold policyLoop
    rw [policyFreq_refines c hg online _ _ p a
      (policyRowAt_imp online i (if c.probeByPosition then i else p.n) p _ a (by split <;> simp) h1),
      ih (i + 1) as h2, h3]

/-- the platform list, given what `_cpu_get_cpuinfo_freq()` returned -/
theorem cpuFreqPlat_refines (c : Cfg) (hg : c.Good) (variant : Bool) (blocks : List CpuBlock) (t : FreqTree)
    (hci : cpuinfoFreqs t.cpuinfo = .ok (blocks.map blockMhz)) (l : List Freq)
    (h : freqList variant blocks t = some l) : cpuFreqPlat c variant t = .ok l := by
  unfold freqList at h
  unfold cpuFreqPlat
  rw [hci]
  cases variant with
  | false => simp at h; simp [h]
  | true =>
    simp only [Bool.not_true, Bool.false_eq_true, if_false, if_true] at h ⊢
    apply policyLoop_refines c hg
    rw [List.range_eq_range'] at h
    by_cases hl : (sortByN (if t.policies.isEmpty = true then t.perCpu else t.policies)).length
        = (List.map blockMhz blocks).length
    · simp only [hl, if_true] at h ⊢
      exact h
    · simp only [hl, if_false] at h ⊢
      simpa only [infoAt] using h

/-! ### fans -/

theorem readFan_refines (c : Cfg) (hg : c.Good) (ch : Chip) (f : Fan) (r : Option FanOut)
    (h : fanRow ch f = some r) : readFan c ch f = .ok r := by
  unfold fanRow fileInt at h
  unfold readFan
  cases hi : f.input with
  | absent => simp [hi, FileState.readOpt] at h; simp [FileState.read, hg.fanOs, h]
  | unreadable => simp [hi, FileState.readOpt] at h; simp [FileState.read, hg.fanOs, h]
  | content b =>
    simp only [hi, FileState.readOpt, Option.map_some] at h
    cases hb : pyInt? b with
    | none => simp [hb] at h
    | some rpm =>
      simp only [hb] at h
      cases hn : ch.name with
      | absent => simp [hn, FileState.readOpt] at h
      | unreadable => simp [hn, FileState.readOpt] at h
      | content nm =>
        simp only [hn, FileState.readOpt, Option.some.injEq] at h
        simp [FileState.read, hb, ofOpt, FileState.readOpt, ← h, fileText]

theorem collect_allSome {α β : Type} (f : α → Res (Option β)) (g : α → Option (Option β)) (l : List α)
    (hfg : ∀ a ∈ l, ∀ r, g a = some r → f a = .ok r) (rs : List (Option β))
    (h : allSome (l.map g) = some rs) : collect f l = .ok (rs.filterMap id) := by
  induction l generalizing rs with
  | nil => simp [allSome] at h; subst h; rfl
  | cons a as ih =>
    simp only [List.map_cons] at h
    obtain ⟨r, rs', h1, h2, h3⟩ := allSome_cons _ _ _ h
    have ha := hfg a (by simp) r h1
    have ih' := ih (fun x hx => hfg x (by simp [hx])) rs' h2
    unfold collect
    rw [ha, ih', h3]
    cases r <;> simp

/-- whatever else the `try` around the reading catches: when the loop body returns normally, it
    reported / skipped the fan as specified, or skipped a fan the property is silent about -/
theorem readFan_ok_join (c : Cfg) (hg : c.Good) (ch : Chip) (f : Fan) (r : Option FanOut)
    (h : readFan c ch f = .ok r) : r = (fanRow ch f).join := by
  cases hr : fanRow ch f with
  | some x => rw [readFan_refines c hg ch f x hr] at h; cases h; rfl
  | none =>
    unfold fanRow fileInt at hr
    unfold readFan at h
    cases hi : f.input with
    | absent => simp [hi, FileState.readOpt] at hr
    | unreadable => simp [hi, FileState.readOpt] at hr
    | content b =>
      simp only [hi, FileState.readOpt, Option.map_some] at hr
      cases hb : pyInt? b with
      | none =>
        simp only [hi, FileState.read, hb, ofOpt] at h
        split at h
        · cases h; rfl
        · cases h
      | some rpm =>
        simp only [hb] at hr
        cases hn : ch.name with
        | content nm => simp [hn, FileState.readOpt] at hr
        | absent => simp [hi, FileState.read, hb, ofOpt, hn] at h
        | unreadable => simp [hi, FileState.read, hb, ofOpt, hn] at h

/-- the loop body fails only on a fan the property is silent about -/
theorem readFan_error_silent (c : Cfg) (hg : c.Good) (ch : Chip) (f : Fan) (e : Exc)
    (h : readFan c ch f = .error e) : fanRow ch f = none := by
  cases hr : fanRow ch f with
  | none => rfl
  | some x => rw [readFan_refines c hg ch f x hr] at h; cases h

/-- the code as found (ValueError not caught around the reading): it fails on every such fan -/
theorem readFan_fails (c : Cfg) (hv : Exc.valueError ∉ c.fanCaught) (ch : Chip) (f : Fan)
    (hr : fanRow ch f = none) : ∃ e, readFan c ch f = .error e := by
  unfold fanRow fileInt at hr
  unfold readFan
  cases hi : f.input with
  | absent => simp [hi, FileState.readOpt] at hr
  | unreadable => simp [hi, FileState.readOpt] at hr
  | content b =>
    simp only [hi, FileState.readOpt, Option.map_some] at hr
    cases hb : pyInt? b with
    | none => exact ⟨.valueError, by simp [FileState.read, hb, ofOpt, hv]⟩
    | some rpm =>
      simp only [hb] at hr
      cases hn : ch.name with
      | content nm => simp [hn, FileState.readOpt] at hr
      | absent => exact ⟨.osError, by simp [FileState.read, hb, ofOpt]⟩
      | unreadable => exact ⟨.osError, by simp [FileState.read, hb, ofOpt]⟩

theorem collect_ok_inv {α β : Type} (f : α → Res (Option β)) (g : α → Option β) (l : List α)
    (hfg : ∀ a ∈ l, ∀ r, f a = .ok r → r = g a) (rs : List β) (h : collect f l = .ok rs) :
    rs = l.filterMap g := by
  induction l generalizing rs with
  | nil => simp [collect] at h; simp [h]
  | cons a as ih =>
    unfold collect at h
    cases hfa : f a with
    | error e => simp [hfa] at h
    | ok r =>
      have hr := hfg a (by simp) r hfa
      rw [hfa] at h
      cases r with
      | none =>
        simp only at h
        have := ih (fun x hx => hfg x (by simp [hx])) rs h
        simp [← hr, this]
      | some b =>
        simp only at h
        cases hc : collect f as with
        | error e => simp [hc] at h
        | ok bs =>
          simp only [hc, Except.ok.injEq] at h
          have := ih (fun x hx => hfg x (by simp [hx])) bs hc
          simp [← hr, ← h, this]

theorem collect_error {α β : Type} (f : α → Res (Option β)) (l : List α) (e : Exc)
    (h : collect f l = .error e) : ∃ a ∈ l, f a = .error e := by
  induction l with
  | nil => simp [collect] at h
  | cons a as ih =>
    unfold collect at h
    cases hfa : f a with
    | error e' => simp only [hfa, Except.error.injEq] at h; exact ⟨a, by simp, by rw [hfa, h]⟩
    | ok r =>
      rw [hfa] at h
      cases r with
      | none =>
        obtain ⟨x, hx, hfx⟩ := ih h
        exact ⟨x, by simp [hx], hfx⟩
      | some b =>
        simp only at h
        cases hc : collect f as with
        | error e' =>
          simp only [hc, Except.error.injEq] at h
          obtain ⟨x, hx, hfx⟩ := ih (by rw [hc, h])
          exact ⟨x, by simp [hx], hfx⟩
        | ok bs => simp [hc] at h

theorem collect_fails {α β : Type} (f : α → Res (Option β)) (l : List α)
    (h : ∃ a ∈ l, ∃ e, f a = .error e) : ∃ e, collect f l = .error e := by
  induction l with
  | nil => obtain ⟨a, ha, _⟩ := h; cases ha
  | cons a as ih =>
    unfold collect
    cases hfa : f a with
    | error e' => exact ⟨e', rfl⟩
    | ok r =>
      have hrest : ∃ x ∈ as, ∃ e, f x = .error e := by
        obtain ⟨x, hx, e, hfx⟩ := h
        simp only [List.mem_cons] at hx
        rcases hx with rfl | hx
        · rw [hfa] at hfx; cases hfx
        · exact ⟨x, hx, e, hfx⟩
      obtain ⟨e, he⟩ := ih hrest
      cases r with
      | none => exact ⟨e, he⟩
      | some b => exact ⟨e, by simp [he]⟩

theorem sensorsFans_eq (c : Cfg) (chips : List Chip) :
    sensorsFans c chips = collect (fun cf => readFan c cf.1 cf.2) (fanListed chips) := rfl

theorem fans_refine (c : Cfg) (hg : c.Good) (chips : List Chip) (l : List FanOut)
    (h : fans chips = some l) : sensorsFans c chips = .ok l := by
  unfold fans at h
  unfold sensorsFans
  simp only [Option.map_eq_some_iff] at h
  obtain ⟨rs, h1, h2⟩ := h
  rw [← h2]
  exact collect_allSome (fun (cf : Chip × Fan) => readFan c cf.1 cf.2) (fun (cf : Chip × Fan) => fanRow cf.1 cf.2) _
    (fun cf _ r hr => readFan_refines c hg cf.1 cf.2 r hr) rs h1

end Psutil.C19
