/-
  Proofs/C17Ext.lean — "good configuration" predicates and helper lemmas for Model/C17Ext.lean
  (net_if_addrs, getmntent loop, sysinfo, getpriority).
-/
import PsutilModel.Proofs.C17Bounds
import PsutilModel.Spec.C17Ext
namespace Psutil.C17
open Spec

/-! ### configuration predicates -/

structure NCfg.Good (c : NCfg) : Prop where
  inet : c.famInet = 2
  inet6 : c.famInet6 = 10
  packet : c.famPacket = 17
  len4 : c.lenInet = 16
  len6 : c.lenInet6 = 28
  host : c.hostlenIsBuf = true
  halen : c.halenOff = 11
  lladdr : c.lladdrOff = 12
  chain : c.ifuChain = [(2, "py_broadcast"), (16, "py_ptp")]
  order : c.tupleOrder = ["ifa_name", "family", "py_address", "py_netmask", "py_broadcast", "py_ptp"]
  mask : c.netmaskSrc = "ifa_netmask"
  fam : c.familySrc = "ifa_addr"

structure DCfg.Good (c : DCfg) : Prop where
  /-- the line buffer in effect is at least the 4096 bytes of libc's own `getmntent` -/
  buf : 4096 ≤ c.effBuf
  order : c.order = ["mnt_fsname", "mnt_dir", "mnt_type", "mnt_opts"]

structure YCfg.Good (c : YCfg) : Prop where
  format : c.format = ['k', 'k', 'k', 'k', 'k', 'k', 'I']
  fields : c.fields = sysinfoOrder
  wide : ∀ f ∈ ["totalram", "freeram", "bufferram", "sharedram", "totalswap", "freeswap"], c.fieldBits.lookup f = some 64
  unit : c.fieldBits.lookup "mem_unit" = some 32

/-! ### §11 -/

theorem bitSet_two_pow (flags k : Nat) : bitSet flags (2 ^ k) = (flags / 2 ^ k % 2 == 1) :=
  and_two_pow_ne_zero flags k

theorem ifuSlot_good (flags : Nat) :
    ifuSlot [(2, "py_broadcast"), (16, "py_ptp")] flags =
      if flags / 2 % 2 = 1 then some "py_broadcast"
      else if flags / 16 % 2 = 1 then some "py_ptp" else none := by
  have h1 : bitSet flags 2 = (flags / 2 % 2 == 1) := bitSet_two_pow flags 1
  have h4 : bitSet flags 16 = (flags / 16 % 2 == 1) := bitSet_two_pow flags 4
  simp only [ifuSlot, List.find?, h1, h4]
  by_cases a : flags / 2 % 2 = 1
  · have a' : (flags / 2 % 2 == 1) = true := by simp [a]
    simp [a', a]
  · have a' : (flags / 2 % 2 == 1) = false := by simp [a]
    by_cases b : flags / 16 % 2 = 1
    · have b' : (flags / 16 % 2 == 1) = true := by simp [b]
      simp [a', b', a, b]
    · have b' : (flags / 16 % 2 == 1) = false := by simp [b]
      simp [a', b', a, b]

/-- for a sockaddr that honours libc's contract, the conversion is the specified text -/
theorem convertIp_good (c : NCfg) (hg : c.Good) (mac : MCfg) (hb : mac.bufSize = 1025) (fam : Nat)
    (o : Option Sock) (hw : optWF fam o) :
    convertIp c mac o fam = sockText (macFormat mac) fam o := by
  cases o with
  | none => rfl
  | some s =>
    have w := hw s rfl
    simp only [convertIp, sockText, hg.inet, hg.inet6, hg.packet, hg.len4, hg.len6, hg.host, hg.halen, hg.lladdr,
      if_true, hb, hwAddr]
    by_cases h : fam = 2 ∨ fam = 10
    · simp only [h, if_true]
      cases ht : s.text with
      | none => simp [gni, ht, optVal]
      | some t =>
        have hl := w.text t ht
        rcases h with h2 | h10
        · have hn := (w.inet h2).2.1
          subst h2
          simp only [gni, ht, hn, optVal, if_true]
          rw [if_neg (by omega), if_neg (by omega)]
        · have hn := (w.inet6 h10).2.1
          subst h10
          have e10 : (if (10 : Nat) = 2 then 16 else 28) = 28 := by decide
          simp only [gni, ht, hn, optVal, e10]
          rw [if_neg (by omega), if_neg (by omega)]
    · simp only [h, if_false]
      by_cases h17 : fam = 17
      · simp only [h17, if_true]
        cases macFormat mac (List.take (s.store.getD 11 0) (List.drop 12 s.store)) <;> rfl
      · simp [h17]

theorem ifRow_good (c : NCfg) (hg : c.Good) (mac : MCfg) (hb : mac.bufSize = 1025) (e : IfEntry) (hw : EntryWF e) :
    C17.ifRow c mac e = Spec.ifRow (macFormat mac) e := by
  unfold C17.ifRow Spec.ifRow
  cases ha : e.addr with
  | none => rfl
  | some a =>
    obtain ⟨wa, wn, wu⟩ := hw.addr a ha
    have hfs : (c.familySrc == "ifa_addr") = true := by rw [hg.fam]; decide
    have hns : (c.netmaskSrc == "ifa_netmask") = true := by rw [hg.mask]; decide
    simp only [hfs, hns, if_true]
    have e1 : convertIp c mac (some a) a.fam = sockText (macFormat mac) a.fam (some a) :=
      convertIp_good c hg mac hb a.fam (some a) (by intro s hs; cases hs; exact wa)
    have e2 := convertIp_good c hg mac hb a.fam e.netmask wn
    have e3 := convertIp_good c hg mac hb a.fam e.ifu wu
    rw [e1, e2, e3, hg.chain, ifuSlot_good, hg.order]
    cases hs : sockText (macFormat mac) a.fam (some a) with
    | none => simp
    | str t =>
      simp only [reduceCtorEq, if_false, List.map_cons, List.map_nil]
      by_cases b : e.flags / 2 % 2 = 1
      · simp [b]
      · by_cases p : e.flags / 16 % 2 = 1
        · have b0 : e.flags / 2 % 2 = 0 := by omega
          simp [b, p, b0]
        · simp [b, p]
    | int i =>
      simp only [reduceCtorEq, if_false, List.map_cons, List.map_nil]
      by_cases b : e.flags / 2 % 2 = 1
      · simp [b]
      · by_cases p : e.flags / 16 % 2 = 1
        · have b0 : e.flags / 2 % 2 = 0 := by omega
          simp [b, p, b0]
        · simp [b, p]

theorem convertReads_good (c : NCfg) (hg : c.Good) (fam : Nat) (s : Sock) (w : SockWF fam s) :
    ∀ r ∈ convertReads c (some s) fam, r ≤ s.store.length := by
  intro r hr
  simp only [convertReads, hg.inet, hg.inet6, hg.packet, hg.len4, hg.len6, hg.halen, hg.lladdr] at hr
  by_cases h : fam = 2 ∨ fam = 10
  · simp only [h, if_true, List.mem_singleton] at hr
    rcases h with h2 | h10
    · have := (w.inet h2).2.2; simp [h2] at hr; omega
    · have := (w.inet6 h10).2.2; simp [h10] at hr; omega
  · simp only [h, if_false] at hr
    by_cases h17 : fam = 17
    · have := (w.link h17).1
      simp only [h17, if_true, List.mem_cons, List.not_mem_nil, or_false] at hr
      rcases hr with rfl | rfl <;> omega
    · simp [h17] at hr

/-! ### §13 mount lines: escape / decode round trip -/

theorem isBlank_escapeByte (c x : Nat) (h : x ∈ escapeByte c) : isBlank x = false := by
  unfold escapeByte at h
  by_cases h32 : c = 32
  · simp [h32] at h; rcases h with rfl | rfl | rfl | rfl <;> decide
  · by_cases h9 : c = 9
    · simp [h9] at h; rcases h with rfl | rfl | rfl | rfl <;> decide
    · by_cases h10 : c = 10
      · simp [h10] at h; rcases h with rfl | rfl | rfl | rfl <;> decide
      · by_cases h92 : c = 92
        · simp [h92] at h; rcases h with rfl | rfl | rfl | rfl <;> decide
        · simp [h32, h9, h10, h92] at h
          subst h
          simp [isBlank, h32, h9]

theorem isBlank_escapeName (b : Bytes) : ∀ x ∈ escapeName b, isBlank x = false := by
  intro x hx
  simp only [escapeName, List.mem_flatMap] at hx
  obtain ⟨c, _, hc⟩ := hx
  exact isBlank_escapeByte c x hc

/-- `fgets` with a buffer that holds the line delivers it -/
theorem fgetsLine_whole (B : Nat) (l : Bytes) (term : Bool) (h : l.length < B) : (fgetsLine B l term).1 = l := by
  unfold fgetsLine
  cases term
  · simp only [Bool.false_eq_true, if_false]
    exact List.take_of_length_le (by omega)
  · by_cases h2 : l.length + 2 ≤ B
    · simp [h2]
    · simp only [if_true, h2, if_false]
      exact List.take_of_length_le (by omega)

/-! ### §14 -/

theorem buildSlot_k (v : Nat) (h : v < 2 ^ 64) : buildSlot 'k' 64 v = .val v := by
  have : v % 18446744073709551616 = v := Nat.mod_eq_of_lt (by simpa using h)
  simp [buildSlot, unitType, this]

theorem buildSlot_I (v : Nat) (h : v < 2 ^ 32) : buildSlot 'I' 32 v = .val v := by
  have : v % 4294967296 = v := Nat.mod_eq_of_lt (by simpa using h)
  simp [buildSlot, unitType, this]

end Psutil.C17
