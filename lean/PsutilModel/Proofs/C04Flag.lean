/-
  Proofs/C04Flag.lean — round 3: what the SHIPPED prologue order (`drainFirst = false`: set differences
  first, `_pids_reused` drained afterwards) does with a PID that `is_running()` flagged as recycled.

  * iteration n (the one that starts while `p` is flagged and cached): `p` is dropped from the private
    map and is NOT on the to-do list — never yielded (known finding C04-flagged-pid-skipped), and the
    map published at the end has no entry for `p`;
  * iteration n+1 (any state in which `_pmap` has no entry for `p` and `p` is listed): `p` is on the
    to-do list as a NEW pid; the object yielded for it is a reference no object had before, and it is
    what the generator's map holds for `p` from then on.
-/
import PsutilModel.Proofs.C04Obj
import PsutilModel.Proofs.C04Whole
namespace Psutil.C04

/-- generator `g`, if suspended, has no entry for `p` in its private map and `p` is not on its to-do list -/
def Lacks (s : St) (g p : Nat) : Prop :=
  ∀ gen pm t l, s.gens[g]? = some gen → gen.st = .running pm t l → pm.get p = none ∧ p ∉ todoPids t

theorem addProc_get_ne {s : St} {pmap : PMap} {pid : Nat} {o : Option Ref} {s1 : St} {pm1 : PMap} {r : Ref}
    (h : addProc s pmap pid o = some (s1, pm1, r)) (q : Nat) (hq : q ≠ pid) : pm1.get q = pmap.get q := by
  cases o with
  | some r0 => simp only [addProc, Option.some.injEq, Prod.mk.injEq] at h; obtain ⟨_, rfl, _⟩ := h; rfl
  | none =>
    simp only [addProc] at h
    split at h
    · cases h
    · simp only [Option.some.injEq, Prod.mk.injEq] at h
      obtain ⟨_, rfl, _⟩ := h
      exact PMap.get_set_ne _ _ _ _ hq

theorem addProc_new {s : St} {pmap : PMap} {pid : Nat} {s1 : St} {pm1 : PMap} {r : Ref}
    (h : addProc s pmap pid none = some (s1, pm1, r)) : r = s.objs.length ∧ pm1.get pid = some r := by
  simp only [addProc] at h
  split at h
  · cases h
  · simp only [Option.some.injEq, Prod.mk.injEq] at h
    obtain ⟨_, rfl, rfl⟩ := h
    exact ⟨rfl, PMap.get_set_self _ _ _⟩

theorem addProc_len {s : St} {pmap : PMap} {pid : Nat} {o : Option Ref} {s1 : St} {pm1 : PMap} {r : Ref}
    (h : addProc s pmap pid o = some (s1, pm1, r)) : s.objs.length ≤ s1.objs.length := by
  cases o with
  | some r0 => simp only [addProc, Option.some.injEq, Prod.mk.injEq] at h; obtain ⟨rfl, _, _⟩ := h; exact Nat.le_refl _
  | none =>
    simp only [addProc] at h
    split at h
    · cases h
    · simp only [Option.some.injEq, Prod.mk.injEq] at h
      obtain ⟨rfl, _, _⟩ := h
      simp

/-! ## iteration n: the prologue of the shipped order -/

/-- **shipped order.** A PID that is flagged when the prologue runs has no entry in the private map the
    loop works on; if it was cached it is not on the to-do list either (it is neither "cached" nor
    "new"): the iteration cannot yield it. -/
theorem prologue_flagged_dropped (c : Cfg) (hd : c.drainFirst = false) (s : St) (p : Nat) (hp : p ∈ s.flagged)
    (pm : PMap) (todo : List (Nat × Option Ref)) (l : List Nat)
    (h : (prologue c s).2 = some (pm, todo, l)) :
    pm.get p = none ∧ ((s.pmap.get p).isSome → p ∉ todoPids todo) := by
  unfold prologue at h
  simp only [hd, Bool.false_eq_true, if_false] at h
  have hc := pidsCall_res s
  cases hpc : pidsCall s with
  | mk s1 res =>
    rw [hpc] at hc h
    obtain ⟨_, _, _, h4, _, _⟩ := hc
    simp only at h4
    cases res with
    | none => simp at h
    | some a =>
      simp only [Option.some.injEq, Prod.mk.injEq] at h
      obtain ⟨rfl, rfl, _⟩ := h
      have hfm : p ∈ s1.flagged := by rw [h4]; exact hp
      have hget : ∀ m : PMap, (removeAll m s1.flagged).get p = none := by
        intro m
        rw [removeAll_eq_filter, get_filter _ (fun q => !s1.flagged.contains q)]
        simp [hfm]
      refine ⟨hget _, ?_⟩
      intro hsome hmem
      rw [mergeTodo_pids, mem_sortNat] at hmem
      rcases List.mem_append.mp hmem with hk | hn
      · have := (PMap.mem_keys_iff _ p).mp hk
        rw [hget] at this
        simp at this
      · have hb : p ∈ s.pmap.keys := (PMap.mem_keys_iff _ p).mpr hsome
        have := (List.mem_filter.mp hn).2
        simp [hb] at this

/-- …and a PID that has NO entry in `_pmap` and is listed is on the to-do list as a new PID (either
    flagged or not: the flag of an uncached PID changes nothing) -/
theorem prologue_uncached_new (c : Cfg) (hd : c.drainFirst = false) (s : St) (p : Nat)
    (hc : s.pmap.get p = none) (hl : p ∈ s.k.listdir)
    (pm : PMap) (todo : List (Nat × Option Ref)) (l : List Nat)
    (h : (prologue c s).2 = some (pm, todo, l)) :
    pm.get p = none ∧ (p, none) ∈ todo ∧ ∀ e ∈ todo, e.1 = p → e.2 = none := by
  unfold prologue at h
  simp only [hd, Bool.false_eq_true, if_false] at h
  have hcr := pidsCall_res s
  cases hpc : pidsCall s with
  | mk s1 res =>
    rw [hpc] at hcr h
    obtain ⟨_, _, _, _, _, h6⟩ := hcr
    cases res with
    | none => simp at h
    | some a =>
      simp only at h6
      simp only [Option.some.injEq, Prod.mk.injEq] at h
      obtain ⟨rfl, rfl, _⟩ := h
      have hget : (removeAll (removeAll s.pmap (s.pmap.keys.filter fun p => !a.contains p)) s1.flagged).get p = none := by
        rw [removeAll_eq_filter, get_filter _ (fun q => !s1.flagged.contains q)]
        rw [removeAll_eq_filter, get_filter _ (fun q => !(s.pmap.keys.filter fun p => !a.contains p).contains q)]
        simp [hc]
      have hnb : p ∉ s.pmap.keys := by
        intro hk
        have := (PMap.mem_keys_iff _ p).mp hk
        rw [hc] at this; simp at this
      have hnew : p ∈ a.filter fun q => !s.pmap.keys.contains q := by
        refine List.mem_filter.mpr ⟨?_, by simpa using hnb⟩
        rw [h6.1, mem_sortNat]; exact hl
      refine ⟨hget, ?_, ?_⟩
      · simp only [mergeTodo]
        rw [mem_sortBy]
        exact List.mem_append.mpr (Or.inr (List.mem_map.mpr ⟨p, hnew, rfl⟩))
      · intro e he hep
        simp only [mergeTodo] at he
        rw [mem_sortBy] at he
        rcases List.mem_append.mp he with hm | hm
        · obtain ⟨x, hx, rfl⟩ := List.mem_map.mp hm
          simp only at hep
          have hk : p ∈ PMap.keys (removeAll (removeAll s.pmap (s.pmap.keys.filter fun p => !a.contains p)) s1.flagged) := by
            rw [← hep]; exact List.mem_map.mpr ⟨x, hx, rfl⟩
          have := (PMap.mem_keys_iff _ p).mp hk
          rw [hget] at this; simp at this
        · obtain ⟨x, _, rfl⟩ := List.mem_map.mp hm
          rfl

/-! ## the loop -/

/-- a run of the loop whose map has no entry for `p` and whose to-do list does not contain `p`: `p` is not
    yielded, the suspended generator still lacks `p`, and if the run ends the generator (StopIteration
    or ValueError: the `finally` publishes) the published `_pmap` has no entry for `p` -/
theorem visit_lacks (c : Cfg) (attrs : Attrs) (g : Nat) (listed : List Nat) (p : Nat) :
    ∀ (todo : List (Nat × Option Ref)) (s : St) (pmap : PMap), pmap.get p = none → p ∉ todoPids todo →
      (∀ r info, (visit c attrs g listed s pmap todo).2 ≠ .yield r p info)
      ∧ Lacks (visit c attrs g listed s pmap todo).1 g p
      ∧ ((∀ r q info, (visit c attrs g listed s pmap todo).2 ≠ .yield r q info) →
          (visit c attrs g listed s pmap todo).1.pmap.get p = none) := by
  intro todo
  induction todo with
  | nil =>
    intro s pmap hg _
    simp only [visit]
    refine ⟨fun r info h => (by cases h), ?_, fun _ => hg⟩
    intro gen pm t l hgen hst
    rw [finish_get_self] at hgen
    cases hsg : s.gens[g]? with
    | none => rw [hsg] at hgen; cases hgen
    | some x => rw [hsg] at hgen; simp only [Option.map_some, Option.some.injEq] at hgen; subst hgen; cases hst
  | cons e rest ih =>
    intro s pmap hg hnot
    obtain ⟨pid, oref⟩ := e
    have hne : p ≠ pid := by
      intro he; apply hnot; simp [todoPids, he]
    have hrest : p ∉ todoPids rest := by
      intro hm; apply hnot; simp only [todoPids, List.map_cons, List.mem_cons]; exact Or.inr hm
    simp only [visit]
    cases ha : addProc s pmap pid oref with
    | none =>
      exact ih s _ (by rw [PMap.get_remove_ne _ _ _ hne]; exact hg) hrest
    | some x =>
      obtain ⟨s1, pm1, r⟩ := x
      have hg1 : pm1.get p = none := by rw [addProc_get_ne ha p hne]; exact hg
      simp only
      cases hfi : fillInfo c attrs r pid s1 with
      | ok s2 info =>
        simp only
        refine ⟨?_, ?_, ?_⟩
        · intro r' info' h
          simp only [Out.yield.injEq] at h
          exact hne h.2.1.symm
        · intro gen pm t l hgen hst
          rw [setGen_get_self] at hgen
          cases hsg : s2.gens[g]? with
          | none => rw [hsg] at hgen; cases hgen
          | some x =>
            rw [hsg] at hgen
            simp only [Option.map_some, Option.some.injEq] at hgen
            subst hgen
            simp only [GSt.running.injEq] at hst
            obtain ⟨rfl, rfl, _⟩ := hst
            exact ⟨hg1, hrest⟩
        · intro hno; exact absurd rfl (hno r pid info)
      | bad =>
        simp only
        refine ⟨fun r' info' h => (by cases h), ?_, fun _ => hg1⟩
        intro gen pm t l hgen hst
        rw [finish_get_self] at hgen
        cases hsg : s1.gens[g]? with
        | none => rw [hsg] at hgen; cases hgen
        | some x => rw [hsg] at hgen; simp only [Option.map_some, Option.some.injEq] at hgen; subst hgen; cases hst
      | nsp s2 =>
        simp only
        exact ih s2 _ (by rw [PMap.get_remove_ne _ _ _ hne]; exact hg1) hrest

/-- a run of the loop on whose to-do list `p` stands (if at all) as a NEW pid: if it yields `p`, the
    object is a reference no object had when the run began (`Process(pid)` was called now), and that
    reference is what the suspended generator's map holds for `p` -/
theorem visit_new_fresh (c : Cfg) (attrs : Attrs) (g : Nat) (listed : List Nat) (p : Nat) :
    ∀ (todo : List (Nat × Option Ref)) (s : St) (pmap : PMap), (∀ e ∈ todo, e.1 = p → e.2 = none) →
      ∀ r info, (visit c attrs g listed s pmap todo).2 = .yield r p info →
        s.objs.length ≤ r
        ∧ ∀ gen pm t l, (visit c attrs g listed s pmap todo).1.gens[g]? = some gen → gen.st = .running pm t l →
            pm.get p = some r := by
  intro todo
  induction todo with
  | nil => intro s pmap _ r info h; simp only [visit] at h; cases h
  | cons e rest ih =>
    intro s pmap hnew r info h
    obtain ⟨pid, oref⟩ := e
    have hnew' : ∀ e ∈ rest, e.1 = p → e.2 = none := fun e he => hnew e (List.mem_cons_of_mem _ he)
    simp only [visit] at h ⊢
    cases ha : addProc s pmap pid oref with
    | none =>
      rw [ha] at h
      simp only at h ⊢
      exact ih s _ hnew' r info h
    | some x =>
      obtain ⟨s1, pm1, r0⟩ := x
      rw [ha] at h
      simp only at h ⊢
      have hl1 := addProc_len ha
      cases hfi : fillInfo c attrs r0 pid s1 with
      | ok s2 info' =>
        rw [hfi] at h
        simp only [Out.yield.injEq] at h ⊢
        obtain ⟨rfl, rfl, _⟩ := h
        have hor : oref = none := hnew (pid, oref) (by simp) rfl
        subst hor
        obtain ⟨hr, hget⟩ := addProc_new ha
        refine ⟨Nat.le_of_eq hr.symm, ?_⟩
        intro gen pm t l hgen hst
        rw [setGen_get_self] at hgen
        cases hsg : s2.gens[g]? with
        | none => rw [hsg] at hgen; cases hgen
        | some x =>
          rw [hsg] at hgen
          simp only [Option.map_some, Option.some.injEq] at hgen
          subst hgen
          simp only [GSt.running.injEq] at hst
          obtain ⟨rfl, _, _⟩ := hst
          exact hget
      | bad => rw [hfi] at h; cases h
      | nsp s2 =>
        rw [hfi] at h
        simp only at h ⊢
        have hl2 := (fillInfo_objsExt_nsp hfi).length_le
        obtain ⟨k1, k2⟩ := ih s2 _ hnew' r info h
        exact ⟨by omega, k2⟩

/-- the to-do list a run of the loop leaves behind is a part of the one it started with -/
theorem visit_todo_sub (c : Cfg) (attrs : Attrs) (g : Nat) (listed : List Nat) :
    ∀ (todo : List (Nat × Option Ref)) (s : St) (pmap : PMap) (gen : Gen) (pm : PMap) (t : List (Nat × Option Ref))
      (l : List Nat), (visit c attrs g listed s pmap todo).1.gens[g]? = some gen → gen.st = .running pm t l →
      ∀ e ∈ t, e ∈ todo := by
  intro todo
  induction todo with
  | nil =>
    intro s pmap gen pm t l hgen hst
    simp only [visit] at hgen
    rw [finish_get_self] at hgen
    cases hsg : s.gens[g]? with
    | none => rw [hsg] at hgen; cases hgen
    | some x => rw [hsg] at hgen; simp only [Option.map_some, Option.some.injEq] at hgen; subst hgen; cases hst
  | cons e rest ih =>
    intro s pmap gen pm t l hgen hst
    obtain ⟨pid, oref⟩ := e
    simp only [visit] at hgen
    cases ha : addProc s pmap pid oref with
    | none =>
      rw [ha] at hgen
      exact fun e he => List.mem_cons_of_mem _ (ih s _ gen pm t l hgen hst e he)
    | some x =>
      obtain ⟨s1, pm1, r⟩ := x
      rw [ha] at hgen
      simp only at hgen
      cases hfi : fillInfo c attrs r pid s1 with
      | ok s2 info =>
        rw [hfi] at hgen
        simp only at hgen
        rw [setGen_get_self] at hgen
        cases hsg : s2.gens[g]? with
        | none => rw [hsg] at hgen; cases hgen
        | some x =>
          rw [hsg] at hgen
          simp only [Option.map_some, Option.some.injEq] at hgen
          subst hgen
          simp only [GSt.running.injEq] at hst
          obtain ⟨_, rfl, _⟩ := hst
          exact fun e he => List.mem_cons_of_mem _ he
      | bad =>
        rw [hfi] at hgen
        simp only at hgen
        rw [finish_get_self] at hgen
        cases hsg : s1.gens[g]? with
        | none => rw [hsg] at hgen; cases hgen
        | some x => rw [hsg] at hgen; simp only [Option.map_some, Option.some.injEq] at hgen; subst hgen; cases hst
      | nsp s2 =>
        rw [hfi] at hgen
        simp only at hgen
        exact fun e he => List.mem_cons_of_mem _ (ih s2 _ gen pm t l hgen hst e he)

/-! ## iteration n as a whole: consumed without another psutil call in between (kernel events anywhere) -/

/-- where the iteration that started while `p` was flagged and cached stands: suspended without `p` in its
    map or on its to-do list, or finished with a published `_pmap` that has no entry for `p` -/
def SkipSt (s : St) (g p : Nat) : Prop :=
  ∃ gen, s.gens[g]? = some gen ∧
    ((∃ pm t l, gen.st = .running pm t l ∧ pm.get p = none ∧ p ∉ todoPids t)
      ∨ (gen.st = .done ∧ s.pmap.get p = none))

theorem visit_skipSt (c : Cfg) (attrs : Attrs) (g : Nat) (listed : List Nat) (p : Nat)
    (todo : List (Nat × Option Ref)) (s : St) (pmap : PMap) (gen0 : Gen) (hg0 : s.gens[g]? = some gen0)
    (hg : pmap.get p = none) (hnot : p ∉ todoPids todo) :
    (∀ r info, (visit c attrs g listed s pmap todo).2 ≠ .yield r p info)
    ∧ SkipSt (visit c attrs g listed s pmap todo).1 g p := by
  obtain ⟨h1, h2, h3⟩ := visit_lacks c attrs g listed p todo s pmap hg hnot
  refine ⟨h1, ?_⟩
  have vr := visit_res c attrs g listed todo s pmap
  rcases vr.outcome with ⟨r, q, info, pm, rest, pre, ho, _, hgen, _⟩ | ⟨ho, hgen, _, _⟩
  · rw [hg0] at hgen
    simp only [Option.map_some] at hgen
    obtain ⟨k1, k2⟩ := h2 _ pm rest listed hgen rfl
    exact ⟨_, hgen, Or.inl ⟨pm, rest, listed, rfl, k1, k2⟩⟩
  · rw [hg0] at hgen
    simp only [Option.map_some] at hgen
    refine ⟨_, hgen, Or.inr ⟨rfl, h3 ?_⟩⟩
    intro r q info hy
    rcases ho with ho | ho <;> rw [ho] at hy <;> cases hy

/-- first `next()` of the iteration that starts while `p` is flagged and cached (shipped order) -/
theorem genNext_flagged_first (c : Cfg) (hd : c.drainFirst = false) (s : St) (hi : Inv s) (g : Nat)
    (mid : List KEv) (gen : Gen) (hg : s.gens[g]? = some gen) (hst : gen.st = .fresh)
    (hne : s.k.listdir ≠ []) (p : Nat) (hp : p ∈ s.flagged) (hc : (s.pmap.get p).isSome) :
    (∀ r info, (genNext c s g mid).2 ≠ .yield r p info) ∧ SkipSt (genNext c s g mid).1 g p := by
  unfold genNext
  rw [hg]
  simp only [hst]
  have pr := prologue_res c s hi.kernel.nodup hi.pmap
  cases hpr : prologue c s with
  | mk s1 res =>
    rw [hpr] at pr
    obtain ⟨p1, _, _, _, p5⟩ := pr
    simp only at p1 p5
    cases res with
    | none => exact absurd p5 hne
    | some x =>
      obtain ⟨pm, todo, listed⟩ := x
      simp only
      have hdrop := prologue_flagged_dropped c hd s p hp pm todo listed (by rw [hpr])
      exact visit_skipSt c gen.attrs g listed p todo (s1.applyMid mid) pm gen
        (by simpa [St.applyMid, p1] using hg) hdrop.1 (hdrop.2 hc)

/-- every later `next()` of that iteration -/
theorem genNext_skipSt (c : Cfg) (s : St) (g : Nat) (mid : List KEv) (p : Nat) (h : SkipSt s g p) :
    (∀ r info, (genNext c s g mid).2 ≠ .yield r p info) ∧ SkipSt (genNext c s g mid).1 g p := by
  obtain ⟨gen, hg, hcase⟩ := h
  unfold genNext
  rw [hg]
  rcases hcase with ⟨pm, t, l, hst, k1, k2⟩ | ⟨hst, hpm⟩
  · simp only [hst]
    exact visit_skipSt c gen.attrs g l p t (s.applyMid mid) pm gen (by simpa [St.applyMid] using hg) k1 k2
  · simp only [hst]
    exact ⟨fun r info h => (by cases h), gen, by simpa [St.applyMid] using hg, Or.inr ⟨hst, by simpa [St.applyMid] using hpm⟩⟩

/-- the operations that consume ONE iteration sequentially: `next(g)` and kernel events -/
def IterOps (g : Nat) (h : List Op) : Prop := ∀ op ∈ h, (∃ mid, op = .next g mid) ∨ (∃ e, op = .kev e)

theorem skipSt_run (c : Cfg) (g p : Nat) :
    ∀ (h : List Op) (s : St), IterOps g h → SkipSt s g p →
      p ∉ yieldsOf c s g h ∧ SkipSt (runAll c s h) g p := by
  intro h
  induction h with
  | nil => intro s _ hs; exact ⟨by simp [yieldsOf], hs⟩
  | cons op ops ih =>
    intro s hops hs
    have hops' : IterOps g ops := fun o ho => hops o (List.mem_cons_of_mem _ ho)
    rw [yieldsOf_cons]
    simp only [runAll]
    rcases hops op (by simp) with ⟨mid, rfl⟩ | ⟨e, rfl⟩
    · obtain ⟨n1, n2⟩ := genNext_skipSt c s g mid p hs
      obtain ⟨i1, i2⟩ := ih (step c s (.next g mid)).1 hops' n2
      refine ⟨?_, i2⟩
      cases hy : yieldOf g (.next g mid, (step c s (.next g mid)).2) with
      | none => exact i1
      | some q =>
        simp only
        intro hm
        rcases List.mem_cons.mp hm with e | hm
        · subst e
          cases hout : (step c s (.next g mid)).2 with
          | yield r p' info =>
            rw [hout] at hy
            simp only [yieldOf, if_true, Option.some.injEq] at hy
            subst hy
            exact n1 r info hout
          | _ => rw [hout] at hy; simp [yieldOf] at hy
        · exact i1 hm
    · have hs' : SkipSt (step c s (.kev e)).1 g p := by
        obtain ⟨gen, hg, hcase⟩ := hs
        exact ⟨gen, hg, hcase⟩
      obtain ⟨i1, i2⟩ := ih _ hops' hs'
      refine ⟨?_, i2⟩
      have : yieldOf g (.kev e, (step c s (.kev e)).2) = none := by simp [yieldOf]
      rw [this]; exact i1

/-- **iteration n, shipped order.** From any reachable state in which `p` is flagged as recycled and still
    cached, the iteration that starts now — consumed by any number of `next(g)` calls with kernel events
    anywhere — never yields `p`; when it has finished, `_pmap` has no entry for `p`. -/
theorem flagged_iteration_skips (c : Cfg) (hd : c.drainFirst = false) (s : St) (hi : Inv s) (g : Nat) (gen : Gen)
    (hg : s.gens[g]? = some gen) (hst : gen.st = .fresh) (hne : s.k.listdir ≠ []) (p : Nat) (hp : p ∈ s.flagged)
    (hc : (s.pmap.get p).isSome) (mid0 : List KEv) (h : List Op) (hops : IterOps g h) :
    p ∉ yieldsOf c s g (.next g mid0 :: h)
    ∧ SkipSt (runAll c s (.next g mid0 :: h)) g p := by
  obtain ⟨n1, n2⟩ := genNext_flagged_first c hd s hi g mid0 gen hg hst hne p hp hc
  obtain ⟨i1, i2⟩ := skipSt_run c g p h (step c s (.next g mid0)).1 hops n2
  rw [yieldsOf_cons]
  simp only [runAll]
  refine ⟨?_, i2⟩
  cases hy : yieldOf g (.next g mid0, (step c s (.next g mid0)).2) with
  | none => exact i1
  | some q =>
    simp only
    intro hm
    rcases List.mem_cons.mp hm with e | hm
    · subst e
      cases hout : (step c s (.next g mid0)).2 with
      | yield r p' info =>
        rw [hout] at hy
        simp only [yieldOf, if_true, Option.some.injEq] at hy
        subst hy
        exact n1 r info hout
      | _ => rw [hout] at hy; simp [yieldOf] at hy
    · exact i1 hm

/-! ## iteration n+1: `p` has no entry in `_pmap` and is listed -/

/-- where the iteration that found `p` uncached stands: suspended with `p` (if still to come) standing on
    the to-do list as a NEW pid, or finished -/
def NewSt (s : St) (g p : Nat) : Prop :=
  ∃ gen, s.gens[g]? = some gen ∧
    ((∃ pm t l, gen.st = .running pm t l ∧ ∀ e ∈ t, e.1 = p → e.2 = none) ∨ gen.st = .done)

theorem genNext_uncached_first (c : Cfg) (hd : c.drainFirst = false) (s : St) (hi : Inv s) (g : Nat)
    (mid : List KEv) (gen : Gen) (hg : s.gens[g]? = some gen) (hst : gen.st = .fresh)
    (p : Nat) (hc : s.pmap.get p = none) (hl : p ∈ s.k.listdir) :
    (∀ r info, (genNext c s g mid).2 = .yield r p info →
        s.objs.length ≤ r ∧ ∀ gen' pm t l, (genNext c s g mid).1.gens[g]? = some gen' → gen'.st = .running pm t l →
          pm.get p = some r)
    ∧ NewSt (genNext c s g mid).1 g p := by
  unfold genNext
  rw [hg]
  simp only [hst]
  have pr := prologue_res c s hi.kernel.nodup hi.pmap
  cases hpr : prologue c s with
  | mk s1 res =>
    rw [hpr] at pr
    obtain ⟨p1, _, _, p4, p5⟩ := pr
    simp only at p1 p4 p5
    cases res with
    | none => rw [p5] at hl; cases hl
    | some x =>
      obtain ⟨pm, todo, listed⟩ := x
      simp only
      have hnew := prologue_uncached_new c hd s p hc hl pm todo listed (by rw [hpr])
      have hg1 : (s1.applyMid mid).gens[g]? = some gen := by simpa [St.applyMid, p1] using hg
      refine ⟨?_, ?_⟩
      · intro r info hy
        have := visit_new_fresh c gen.attrs g listed p todo (s1.applyMid mid) pm hnew.2.2 r info hy
        refine ⟨?_, this.2⟩
        have h0 : (s1.applyMid mid).objs = s.objs := by simp [St.applyMid, p4]
        rw [← h0]; exact this.1
      · have vr := visit_res c gen.attrs g listed todo (s1.applyMid mid) pm
        rcases vr.outcome with ⟨r, q, info, pm', rest, pre, _, _, hgen, _⟩ | ⟨_, hgen, _, _⟩
        · rw [hg1] at hgen
          simp only [Option.map_some] at hgen
          refine ⟨_, hgen, Or.inl ⟨pm', rest, listed, rfl, ?_⟩⟩
          intro e he hep
          exact hnew.2.2 e (visit_todo_sub c gen.attrs g listed todo _ pm _ pm' rest listed hgen rfl e he) hep
        · rw [hg1] at hgen
          simp only [Option.map_some] at hgen
          exact ⟨_, hgen, Or.inr rfl⟩

theorem genNext_newSt (c : Cfg) (s : St) (g : Nat) (mid : List KEv) (p : Nat) (h : NewSt s g p) :
    (∀ r info, (genNext c s g mid).2 = .yield r p info →
        s.objs.length ≤ r ∧ ∀ gen' pm t l, (genNext c s g mid).1.gens[g]? = some gen' → gen'.st = .running pm t l →
          pm.get p = some r)
    ∧ NewSt (genNext c s g mid).1 g p := by
  obtain ⟨gen, hg, hcase⟩ := h
  unfold genNext
  rw [hg]
  rcases hcase with ⟨pm, t, l, hst, hnew⟩ | hst
  · simp only [hst]
    have hg1 : (s.applyMid mid).gens[g]? = some gen := by simpa [St.applyMid] using hg
    refine ⟨?_, ?_⟩
    · intro r info hy
      exact visit_new_fresh c gen.attrs g l p t (s.applyMid mid) pm hnew r info hy
    · have vr := visit_res c gen.attrs g l t (s.applyMid mid) pm
      rcases vr.outcome with ⟨r, q, info, pm', rest, pre, _, _, hgen, _⟩ | ⟨_, hgen, _, _⟩
      · rw [hg1] at hgen
        simp only [Option.map_some] at hgen
        refine ⟨_, hgen, Or.inl ⟨pm', rest, l, rfl, ?_⟩⟩
        intro e he hep
        exact hnew e (visit_todo_sub c gen.attrs g l t _ pm _ pm' rest l hgen rfl e he) hep
      · rw [hg1] at hgen
        simp only [Option.map_some] at hgen
        exact ⟨_, hgen, Or.inr rfl⟩
  · simp only [hst]
    exact ⟨fun r info h => (by cases h), gen, by simpa [St.applyMid] using hg, Or.inr hst⟩

/-- the reference generator `g` yields for PID `p` at one step of a run, if it yields `p` there -/
def yieldRef (g p : Nat) : Op × Out → Option Ref
  | (.next g' _, .yield r q _) => if g' = g ∧ q = p then some r else none
  | _ => none

/-- the references generator `g` yields for PID `p` along history `h` from state `s` -/
def yieldRefsOf (c : Cfg) (s : St) (g p : Nat) (h : List Op) : List Ref :=
  (h.zip (trace c s h)).filterMap (yieldRef g p)

theorem yieldRefsOf_cons (c : Cfg) (s : St) (g p : Nat) (op : Op) (ops : List Op) :
    yieldRefsOf c s g p (op :: ops)
      = match yieldRef g p (op, (step c s op).2) with
        | some r => r :: yieldRefsOf c (step c s op).1 g p ops
        | none => yieldRefsOf c (step c s op).1 g p ops := by
  simp only [yieldRefsOf, trace, List.zip_cons_cons, List.filterMap_cons]
  cases yieldRef g p (op, (step c s op).2) <;> rfl

theorem newSt_run (c : Cfg) (g p base : Nat) :
    ∀ (h : List Op) (s : St), IterOps g h → ObjInv s → NewSt s g p → base ≤ s.objs.length →
      ∀ r ∈ yieldRefsOf c s g p h, base ≤ r := by
  intro h
  induction h with
  | nil => intro s _ _ _ _ r hr; simp [yieldRefsOf] at hr
  | cons op ops ih =>
    intro s hops ho hn hb r hr
    have hops' : IterOps g ops := fun o ho => hops o (List.mem_cons_of_mem _ ho)
    have hlen := step_objs_length_le c s op ho
    have ho' := step_objInv c s op ho
    rw [yieldRefsOf_cons] at hr
    rcases hops op (by simp) with ⟨mid, rfl⟩ | ⟨e, rfl⟩
    · obtain ⟨n1, n2⟩ := genNext_newSt c s g mid p hn
      have ih' := ih (step c s (.next g mid)).1 hops' ho' n2 (by omega)
      cases hy : yieldRef g p (.next g mid, (step c s (.next g mid)).2) with
      | none => rw [hy] at hr; exact ih' r hr
      | some r0 =>
        rw [hy] at hr
        rcases List.mem_cons.mp hr with e | hm
        · subst e
          cases hout : (step c s (.next g mid)).2 with
          | yield r' q info =>
            rw [hout] at hy
            simp only [yieldRef] at hy
            split at hy
            · rename_i hc
              simp only [Option.some.injEq] at hy
              subst hy
              obtain ⟨_, rfl⟩ := hc
              have := (n1 r' info hout).1
              omega
            · cases hy
          | _ => rw [hout] at hy; simp [yieldRef] at hy
        · exact ih' r hm
    · have hn' : NewSt (step c s (.kev e)).1 g p := by
        obtain ⟨gen, hg, hcase⟩ := hn
        exact ⟨gen, hg, hcase⟩
      have ih' := ih _ hops' ho' hn' (by omega)
      have : yieldRef g p (.kev e, (step c s (.kev e)).2) = none := by simp [yieldRef]
      rw [this] at hr
      exact ih' r hr

/-- **iteration n+1, shipped order.** From any reachable state in which `_pmap` has no entry for the listed
    PID `p`, the iteration that starts now — consumed by `next(g)` calls with kernel events anywhere — yields
    for `p` only a reference that no object had when the iteration started: a fresh `Process`. -/
theorem uncached_iteration_fresh (c : Cfg) (hd : c.drainFirst = false) (s : St) (hi : Inv s) (ho : ObjInv s)
    (g : Nat) (gen : Gen) (hg : s.gens[g]? = some gen) (hst : gen.st = .fresh) (p : Nat)
    (hc : s.pmap.get p = none) (hl : p ∈ s.k.listdir) (mid0 : List KEv) (h : List Op) (hops : IterOps g h) :
    ∀ r ∈ yieldRefsOf c s g p (.next g mid0 :: h), s.objs.length ≤ r := by
  intro r hr
  obtain ⟨n1, n2⟩ := genNext_uncached_first c hd s hi g mid0 gen hg hst p hc hl
  have hlen := step_objs_length_le c s (.next g mid0) ho
  have ho' := step_objInv c s (.next g mid0) ho
  have ih' := newSt_run c g p s.objs.length h (step c s (.next g mid0)).1 hops ho' n2 hlen
  rw [yieldRefsOf_cons] at hr
  cases hy : yieldRef g p (.next g mid0, (step c s (.next g mid0)).2) with
  | none => rw [hy] at hr; exact ih' r hr
  | some r0 =>
    rw [hy] at hr
    rcases List.mem_cons.mp hr with e | hm
    · subst e
      cases hout : (step c s (.next g mid0)).2 with
      | yield r' q info =>
        rw [hout] at hy
        simp only [yieldRef] at hy
        split at hy
        · rename_i hc'
          simp only [Option.some.injEq] at hy
          subst hy
          obtain ⟨_, rfl⟩ := hc'
          exact (n1 r' info hout).1
        · cases hy
      | _ => rw [hout] at hy; simp [yieldRef] at hy
    · exact ih' r hm

/-- an idle state (no generator suspended) that satisfies `Inv` is a sequential state -/
theorem seqInv_of_idle {s : St} (hi : Inv s)
    (hidle : ∀ (j : Nat) (gen : Gen), s.gens[j]? = some gen → isRun gen = false) : SeqInv s := by
  refine ⟨hi, ?_, ?_⟩
  · intro i j gi gj h1 _ h3 _
    rw [hidle i gi h1] at h3; cases h3
  · intro i gen pm todo l h1 h2
    have := hidle i gen h1
    simp [isRun, h2] at this

/-- every reference yielded for `p` along a history is, at the end of the history, an object whose `pid` is `p` -/
theorem yieldRef_obj (c : Cfg) (g p : Nat) :
    ∀ (h : List Op) (s : St), ObjInv s → ∀ r ∈ yieldRefsOf c s g p h,
      ∃ o, (runAll c s h).objs[r]? = some o ∧ o.pid = p := by
  intro h
  induction h with
  | nil => intro s _ r hr; simp [yieldRefsOf] at hr
  | cons op ops ih =>
    intro s ho r hr
    have ho' := step_objInv c s op ho
    rw [yieldRefsOf_cons] at hr
    simp only [runAll]
    cases hy : yieldRef g p (op, (step c s op).2) with
    | none => rw [hy] at hr; exact ih _ ho' r hr
    | some r0 =>
      rw [hy] at hr
      rcases List.mem_cons.mp hr with e | hm
      · subst e
        cases op with
        | next g' mid =>
          cases hout : (step c s (.next g' mid)).2 with
          | yield r' q info =>
            rw [hout] at hy
            simp only [yieldRef] at hy
            split at hy
            · rename_i hc
              simp only [Option.some.injEq] at hy
              subst hy
              obtain ⟨_, rfl⟩ := hc
              obtain ⟨o, h1, h2⟩ := next_yield_obj c s ho g' mid r' q info hout
              obtain ⟨o', h3, h4⟩ := runAll_objsExt c ops _ ho' r' o h1
              exact ⟨o', h3, h4.trans h2⟩
            · cases hy
          | _ => rw [hout] at hy; simp [yieldRef] at hy
        | _ => simp [yieldRef] at hy
      · exact ih _ ho' r hm

end Psutil.C04
