/-
  Proofs/C12Shapes.lean — helper lemmas for the second extension round: cmdline files left behind by
  setproctitle()-style title rewriting (NUL padding, leftovers of the old argv), cmdline files cut by
  the kernel, and the entry-by-entry structure of environment blocks (unterminated tail, entries that
  are not assignments).
-/
import PsutilModel.Proofs.C12Front
namespace Psutil.C12
open Spec

/-! ### cmdline shapes -/

theorem fields0_replicate (k : Nat) : fields 0 (List.replicate k 0) = List.replicate (k + 1) [] := by
  rw [fields_eq_splitOn]
  induction k with
  | zero => rfl
  | succ k ih => simp [List.replicate_succ, splitOn, ih]

/-- `x ++ [0]` read as documented, when `x` itself contains a NUL: the NUL-separated pieces of `x` -/
theorem args_nul_terminated (x : Bytes) (h : 0 ∈ x) : args (x ++ [0]) = fields 0 x := by
  unfold args
  simp [h]

/-- a title followed by NUL, leftovers and a final NUL -/
theorem args_title_leftover (t r : Bytes) (ht : 0 ∉ t) :
    args (t ++ 0 :: (r ++ [0])) = t :: fields 0 r := by
  have e : t ++ 0 :: (r ++ [0]) = (t ++ 0 :: r) ++ [0] := by simp
  rw [e, args_nul_terminated _ (by simp), fields0_append t r ht]

/-- a file that does not end in NUL is read as a space-separated title, whatever else it contains -/
theorem args_unterminated (d : Bytes) (h0 : d.getLast? ≠ some 0) :
    args d = fields 32 (if d.getLast? = some 32 then d.dropLast else d) := by
  unfold args
  simp [h0]

/-- **kernel side of setproctitle.** The title `t` written over an argument area of `a` bytes followed by an
    environment area of `e` bytes, the rest NUL-padded: a title shorter than the argument area is exposed
    with the padding up to `arg_end`; a longer one (the final NUL of the area is overwritten) as the C
    string `t NUL`. -/
theorem kernelCmdline_title (t : Bytes) (a e : Nat) (ht0 : 0 ∉ t) (hne : t ≠ []) (ha : 0 < a)
    (hfit : t.length < a + e) :
    kernelCmdline ((titleArea t (a + e)).take a) ((titleArea t (a + e)).drop a)
      = if t.length < a then t ++ List.replicate (a - t.length) 0 else t ++ [0] := by
  unfold kernelCmdline titleArea
  by_cases h : t.length < a
  · have htake : (t ++ List.replicate (a + e - t.length) 0).take a = t ++ List.replicate (a - t.length) 0 := by
      rw [List.take_append, List.take_of_length_le (by omega), List.take_replicate]
      congr 2
      omega
    obtain ⟨k, hk⟩ : ∃ k, a - t.length = k + 1 := ⟨a - t.length - 1, by omega⟩
    have hlast : (t ++ List.replicate (a - t.length) 0).getLast? = some 0 := by
      rw [hk, List.replicate_succ', ← List.append_assoc, List.getLast?_append]
      simp
    rw [htake, if_pos (Or.inr hlast), if_pos h]
  · have hle : a ≤ t.length := by omega
    have htake : (t ++ List.replicate (a + e - t.length) 0).take a = t.take a := by
      rw [List.take_append_of_le_length hle]
    have hnil : t.take a ≠ [] := by
      cases t with
      | nil => exact absurd rfl hne
      | cons x xs =>
        cases a with
        | zero => omega
        | succ a => simp
    have hlast : (t.take a).getLast? ≠ some 0 := by
      intro hl
      exact ht0 (List.mem_of_mem_take (List.mem_of_getLast? hl))
    obtain ⟨m, hm⟩ : ∃ m, a + e - t.length = m + 1 := ⟨a + e - t.length - 1, by omega⟩
    have htw : (t ++ List.replicate (a + e - t.length) 0).takeWhile (· != 0) = t := by
      rw [hm, List.replicate_succ]
      exact takeWhile_ne_append 0 t _ ht0
    rw [htake, if_neg (by simp [hnil, hlast]), if_neg h]
    simp only [← htake, List.take_append_drop, htw]
    have : t.length < (t ++ List.replicate (a + e - t.length) 0).length := by
      simp only [List.length_append, List.length_replicate]; omega
    rw [if_pos this]

/-! ### environment blocks, entry by entry -/

/-- a block that is empty or ends in NUL is empty or starts with a NUL-terminated entry followed by such
    a block -/
theorem nulTerminated_cases (d : Bytes) (h : d = [] ∨ d.getLast? = some 0) :
    d = [] ∨ ∃ e r, d = e ++ 0 :: r ∧ 0 ∉ e ∧ (r = [] ∨ r.getLast? = some 0) := by
  rcases h with h | h
  · exact Or.inl h
  · right
    obtain ⟨e, r, hd, he⟩ := exists_first 0 d (List.mem_of_getLast? h)
    refine ⟨e, r, hd, he, ?_⟩
    cases r with
    | nil => exact Or.inl rfl
    | cons x xs =>
      right
      rw [hd] at h
      simpa [List.getLast?_append, List.getLast?_cons_cons] using h

/-- **unterminated tail.** Bytes after the last NUL never contribute an assignment. -/
theorem assignments_append_tail : ∀ (n : Nat) (d tail : Bytes), d.length ≤ n →
    (d = [] ∨ d.getLast? = some 0) → 0 ∉ tail → assignments (d ++ tail) = assignments d := by
  intro n
  induction n with
  | zero =>
    intro d tail hn _ ht
    have : d = [] := by cases d <;> simp_all
    subst this
    rw [List.nil_append, assignments_noNul tail ht, assignments_noNul [] (by simp)]
  | succ n ih =>
    intro d tail hn hd ht
    rcases nulTerminated_cases d hd with h | ⟨e, r, hde, he, hr⟩
    · subst h
      rw [List.nil_append, assignments_noNul tail ht, assignments_noNul [] (by simp)]
    · subst hde
      have hlen : r.length ≤ n := by
        simp only [List.length_append, List.length_cons] at hn; omega
      rw [List.append_assoc, List.cons_append, assignments_cons e (r ++ tail) he, assignments_cons e r he,
        ih r tail hlen hr ht]

theorem environOf_append_tail (d tail : Bytes) (hd : d = [] ∨ d.getLast? = some 0) (ht : 0 ∉ tail) :
    environOf (d ++ tail) = environOf d := by
  unfold environOf
  rw [assignments_append_tail d.length d tail (Nat.le_refl _) hd ht]

theorem takeWhile_ne_self (c : Nat) (e : Bytes) (h : c ∉ e) : e.takeWhile (· != c) = e := by
  induction e with
  | nil => rfl
  | cons x xs ih =>
    have hx : x ≠ c := fun e => h (by simp [e])
    have hxs : c ∉ xs := fun m => h (by simp [m])
    simp [hx, ih hxs]

/-- an entry is not an assignment iff it has no `=` at all or starts with one (empty NAME) -/
theorem parseEntry_none_iff (e : Bytes) :
    parseEntry e = none ↔ (61 ∉ e ∨ e.head? = some 61 ∨ e = []) := by
  unfold parseEntry
  constructor
  · intro h
    by_cases h61 : 61 ∈ e
    · right
      cases e with
      | nil => exact Or.inr rfl
      | cons x xs =>
        left
        by_cases hx : x = 61
        · simp [hx]
        · exfalso
          have hlt : ((x :: xs).takeWhile (· != 61)).length < (x :: xs).length := by
            obtain ⟨a, b, hab, hna⟩ := exists_first 61 (x :: xs) h61
            rw [hab, takeWhile_ne_append 61 a b hna]
            simp
          have hne : ((x :: xs).takeWhile (· != 61)) ≠ [] := by
            simp [hx]
          have hemp : ((x :: xs).takeWhile (· != 61)).isEmpty = false := by
            cases hh : (x :: xs).takeWhile (· != 61) with
            | nil => exact absurd hh hne
            | cons _ _ => rfl
          have hlen : (((x :: xs).takeWhile (· != 61)).length == (x :: xs).length) = false := by
            simp only [beq_eq_false_iff_ne, ne_eq]; omega
          simp only [hemp, hlen, Bool.or_self, Bool.false_eq_true, if_false] at h
          cases h
    · exact Or.inl h61
  · intro h
    rcases h with h | h | h
    · have : e.takeWhile (· != 61) = e := takeWhile_ne_self 61 e h
      simp [this]
    · cases e with
      | nil => simp
      | cons x xs =>
        have : x = 61 := by simpa using h
        subst this
        simp
    · subst h; simp

/-- **not an assignment: ignored.** An entry without `=` or with an empty NAME, placed anywhere after
    complete entries, changes nothing. -/
theorem assignments_skip_entry : ∀ (n : Nat) (pre e rest : Bytes), pre.length ≤ n →
    (pre = [] ∨ pre.getLast? = some 0) → 0 ∉ e → e ≠ [] → parseEntry e = none →
    assignments (pre ++ (e ++ 0 :: rest)) = assignments (pre ++ rest) := by
  intro n
  induction n with
  | zero =>
    intro pre e rest hn _ he hne hp
    have : pre = [] := by cases pre <;> simp_all
    subst this
    simp only [List.nil_append]
    rw [assignments_cons e rest he, if_neg hne, hp]
    rfl
  | succ n ih =>
    intro pre e rest hn hpre he hne hp
    rcases nulTerminated_cases pre hpre with h | ⟨a, r, hpa, ha, hr⟩
    · subst h
      simp only [List.nil_append]
      rw [assignments_cons e rest he, if_neg hne, hp]
      rfl
    · subst hpa
      have hlen : r.length ≤ n := by
        simp only [List.length_append, List.length_cons] at hn; omega
      rw [List.append_assoc, List.cons_append, assignments_cons a _ ha,
        List.append_assoc, List.cons_append, assignments_cons a _ ha, ih r e rest hlen hr he hne hp]

end Psutil.C12
