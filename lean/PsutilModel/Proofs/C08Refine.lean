/-
  Proofs/C08Refine.lean — the body of virtual_memory()/swap_memory() (model, over the parsed
  dictionary) against the documented formulas (spec, over the abstract map), branch by branch.
-/
import PsutilModel.Proofs.C08Arith
namespace Psutil.C08
open Spec

/-- what the parsed dictionary shows is the abstract map, key by key -/
def Bridge (lk : Bytes → Option Nat) (m : MemInfo) : Prop := ∀ s : String, lk (key s) = m.bytes s

theorem isNone_bytes (m : MemInfo) (s : String) : (m.bytes s).isNone = (m.get (K s)).isNone := by
  simp [MemInfo.bytes]

theorem isSome_bytes (m : MemInfo) (s : String) : (m.bytes s).isSome = (m.get (K s)).isSome := by
  simp [MemInfo.bytes]

section
variable {lk : Bytes → Option Nat} {m : MemInfo} (H : Bridge lk m)
include H

theorem getBuffers_spec :
    getBuffers kernelCfg lk
      = (buffers m, if (m.get (K "Buffers")).isNone then ["buffers"] else []) := by
  unfold getBuffers buffers
  rw [show kernelCfg.kBuffers = key "Buffers" from rfl, H, ← isNone_bytes]
  cases m.bytes "Buffers" <;> rfl

theorem getCached_spec :
    getCached kernelCfg lk
      = (cached m, if (m.get (K "Cached")).isNone then ["cached"] else []) := by
  unfold getCached cached
  rw [show kernelCfg.kCached = key "Cached" from rfl,
    show kernelCfg.kSReclaimable = key "SReclaimable" from rfl, H, H, ← isNone_bytes]
  cases m.bytes "Cached" <;> rfl

theorem getShared_spec :
    getShared kernelCfg lk
      = (shared m, if (m.get (K "Shmem")).isNone && (m.get (K "MemShared")).isNone
                   then ["shared"] else []) := by
  unfold getShared shared
  rw [show kernelCfg.kShmem = key "Shmem" from rfl,
    show kernelCfg.kMemShared = key "MemShared" from rfl, H, H, ← isNone_bytes, ← isNone_bytes]
  cases m.bytes "Shmem" <;> cases m.bytes "MemShared" <;> rfl

theorem getActive_spec :
    getActive kernelCfg lk
      = (active m, if (m.get (K "Active")).isNone then ["active"] else []) := by
  unfold getActive active
  rw [show kernelCfg.kActive = key "Active" from rfl, H, ← isNone_bytes]
  cases m.bytes "Active" <;> rfl

theorem getInactive_spec :
    getInactive kernelCfg lk
      = (inactive m, if (m.get (K "Inactive")).isNone
          && !((m.get (K "Inact_dirty")).isSome && (m.get (K "Inact_clean")).isSome
                && (m.get (K "Inact_laundry")).isSome) then ["inactive"] else []) := by
  unfold getInactive inactive
  rw [show kernelCfg.kInactive = key "Inactive" from rfl,
    show kernelCfg.kInactDirty = key "Inact_dirty" from rfl,
    show kernelCfg.kInactClean = key "Inact_clean" from rfl,
    show kernelCfg.kInactLaundry = key "Inact_laundry" from rfl, H, H, H, H,
    ← isNone_bytes, ← isSome_bytes, ← isSome_bytes, ← isSome_bytes]
  cases m.bytes "Inactive" <;> cases m.bytes "Inact_dirty" <;> cases m.bytes "Inact_clean"
    <;> cases m.bytes "Inact_laundry" <;> rfl

theorem getSlab_spec : getSlab kernelCfg lk = slab m := by
  unfold getSlab slab
  rw [show kernelCfg.kSlab = key "Slab" from rfl, H]

theorem calcAvail_spec (ps free : Nat) (zs : Option (List ZLine)) (hz : ∀ l ∈ zs, ∀ z ∈ l, z.WF)
    (hf : m.bytes "MemFree" = some free) :
    calcAvail kernelCfg ps lk (zs.map renderZoneinfo)
      = .ok (fallbackEstimate m free (zs.map fun l => lowSum l * ps)) := by
  unfold calcAvail fallbackEstimate
  rw [show kernelCfg.caMemFree = key "MemFree" from rfl,
    show kernelCfg.caCached = key "Cached" from rfl,
    show kernelCfg.caActiveFile = key "Active(file)" from rfl,
    show kernelCfg.caInactiveFile = key "Inactive(file)" from rfl,
    show kernelCfg.caSReclaimable = key "SReclaimable" from rfl, H, H, H, H, H, hf]
  cases m.bytes "Active(file)" <;> cases m.bytes "Inactive(file)" <;> cases m.bytes "SReclaimable"
    <;> try rfl
  cases zs with
  | none => rfl
  | some l =>
    simp only [Option.map_some]
    rw [watermarkLow_zoneinfo l (hz l rfl)]
    simp only [calc_trunc]

theorem availRaw_spec (ps free : Nat) (zs : Option (List ZLine)) (hz : ∀ l ∈ zs, ∀ z ∈ l, z.WF)
    (hf : m.bytes "MemFree" = some free) :
    availRaw kernelCfg ps lk (zs.map renderZoneinfo)
      = .ok (Spec.availRaw m free (zs.map fun l => lowSum l * ps)) := by
  unfold availRaw Spec.availRaw
  rw [show kernelCfg.kMemAvailable = key "MemAvailable" from rfl, H]
  cases hm : m.bytes "MemAvailable" with
  | none => exact calcAvail_spec H ps free zs hz hf
  | some a =>
    cases a with
    | zero => simpa [kernelCfg] using calcAvail_spec H ps free zs hz hf
    | succ a => simp [kernelCfg]

end

theorem clampAvail_spec (a : Int) (total free : Nat) :
    clampAvail kernelCfg a total free
      = (clamp a total free, if a < 0 then ["available"] else []) := by
  unfold clampAvail clamp
  simp only [kernelCfg, Bool.true_and, decide_eq_true_eq]
  split
  · rfl
  · split <;> rfl

theorem usedOf_spec (t f c b : Nat) : usedOf kernelCfg t f c b = used t f c b := by
  unfold usedOf used
  simp [kernelCfg]

/-- the record the model returns when the specification promises `s` -/
def toOut (s : Vm) : VmOut :=
  { total := s.total, avail := s.available
    percent := usagePercentScaled 100 ((s.total : Int) - s.available) s.total 1
    used := s.used, free := s.free, active := s.active, inactive := s.inactive
    buffers := s.buffers, cached := s.cached, shared := s.shared, slab := s.slab
    missing := s.warned }

theorem vmCore_spec {lk : Bytes → Option Nat} {m : MemInfo} (H : Bridge lk m) (ps : Nat)
    (zs : Option (List ZLine)) (hz : ∀ l ∈ zs, ∀ z ∈ l, z.WF) (s : Vm)
    (hs : vm m (zs.map fun l => lowSum l * ps) = some s) :
    vmCore kernelCfg ps lk (zs.map renderZoneinfo) = .ok (toOut s) := by
  unfold vm at hs
  cases ht : m.bytes "MemTotal" with
  | none => simp [ht] at hs
  | some total =>
    cases hf : m.bytes "MemFree" with
    | none => simp [ht, hf] at hs
    | some free =>
      simp only [ht, hf, Option.some.injEq] at hs
      subst hs
      unfold vmCore
      rw [show kernelCfg.kMemTotal = key "MemTotal" from rfl,
        show kernelCfg.kMemFree = key "MemFree" from rfl, H, H, ht, hf]
      simp only [getBuffers_spec H, getCached_spec H, getShared_spec H, getActive_spec H,
        getInactive_spec H, getSlab_spec H, availRaw_spec H ps free zs hz hf, usedOf_spec,
        clampAvail_spec]
      simp [toOut, warned, kernelCfg]


/-! ### swap_memory -/

def toSwapOut (s : Swap) : SwapOut :=
  { total := s.total, used := s.used, free := s.free
    percent := usagePercentScaled 100 s.used s.total 1
    sin := s.sin, sout := s.sout, warned := s.warned, usedSysinfo := s.viaSysinfo }

theorem swapCore_specF (f : Nat) {lk : Bytes → Option Nat} {m : MemInfo} (H : Bridge lk m)
    (sys : Sysinfo) (vs : Option (List VLine)) (hv : ∀ l ∈ vs, VWF l) :
    swapCore (cfgF f) lk sys (vs.map renderVmstat)
      = .ok (toSwapOut (swap m (sys.total * sys.unit) (sys.free * sys.unit) f (vs.map vmstatGet))) := by
  unfold swapCore swapTotals swap
  rw [show (cfgF f).kSwapTotal = key "SwapTotal" from rfl,
    show (cfgF f).kSwapFree = key "SwapFree" from rfl, H, H]
  cases vs with
  | none =>
    cases m.bytes "SwapTotal" <;> cases m.bytes "SwapFree" <;> simp [toSwapOut, cfgF, kernelCfg]
  | some l =>
    simp only [Option.map_some]
    rw [vmstatLoop_vmstatF f l (hv l rfl)]
    cases m.bytes "SwapTotal" <;> cases m.bytes "SwapFree" <;>
      cases vmstatGet l (K "pswpin") <;> cases vmstatGet l (K "pswpout") <;>
        simp [toSwapOut, cfgF, kernelCfg, pairUp]

theorem swapCore_spec {lk : Bytes → Option Nat} {m : MemInfo} (H : Bridge lk m) (sys : Sysinfo)
    (vs : Option (List VLine)) (hv : ∀ l ∈ vs, VWF l) :
    swapCore kernelCfg lk sys (vs.map renderVmstat)
      = .ok (toSwapOut (swap m (sys.total * sys.unit) (sys.free * sys.unit) 4096 (vs.map vmstatGet))) :=
  swapCore_specF 4096 H sys vs hv

/-! ### facts about the specification itself -/

theorem clamp_range (a : Int) (total free : Nat) (h : free ≤ total) :
    0 ≤ clamp a total free ∧ clamp a total free ≤ total := by
  unfold clamp
  split
  · omega
  · split <;> omega

theorem ofEntries_isSome (es : List Entry) (k : Bytes) :
    ((MemInfo.ofEntries es).get k).isSome = true ↔ ∃ e ∈ es, e.name = k := by
  simp [MemInfo.ofEntries]

/-- the promise for given totals (what `vm` returns when MemTotal / MemFree are present) -/
def specVm (m : MemInfo) (wm : Option Nat) (total free : Nat) : Vm :=
  let avail := clamp (Spec.availRaw m free wm) total free
  { total := total, available := avail, percentExact := percentExact total avail,
    used := used total free (cached m) (buffers m), free := free, active := active m,
    inactive := inactive m, buffers := buffers m, cached := cached m, shared := shared m,
    slab := slab m, warned := warned m free wm }

theorem vm_eq_specVm (m : MemInfo) (wm : Option Nat) (total free : Nat)
    (ht : m.bytes "MemTotal" = some total) (hf : m.bytes "MemFree" = some free) :
    vm m wm = some (specVm m wm total free) := by
  simp [vm, ht, hf, specVm]

theorem bridge_parsed (es : List Entry) :
    Bridge (fun k => ((es.map (kv 1024)).reverse).lookup k) (MemInfo.ofEntries es) := by
  intro s
  simp only [key, MemInfo.bytes]
  exact lookup_parsed 1024 es (K s)

theorem percentExact_cast (total : Nat) (avail : Int) :
    percentExact total avail
      = if total = 0 then 0 else ((((total : Int) - avail : Int)) : ℚ) / total * 100 := by
  unfold percentExact
  split
  · rfl
  · push_cast; rfl

theorem swapPercentExact_eq (total : Nat) (u : Int) :
    swapPercentExact total u = if total = 0 then 0 else (u : ℚ) / total * 100 := rfl

theorem mem_ite_singleton (a b : String) (c : Prop) [Decidable c] :
    a ∈ (if c then [b] else []) ↔ c ∧ a = b := by
  split <;> simp_all

/-- who is named in the warning, clause by clause -/
theorem warned_mem (m : MemInfo) (free : Nat) (wm : Option Nat) (n : String) :
    n ∈ warned m free wm ↔
      ((m.get (K "Buffers")).isNone = true ∧ n = "buffers")
      ∨ ((m.get (K "Cached")).isNone = true ∧ n = "cached")
      ∨ (((m.get (K "Shmem")).isNone && (m.get (K "MemShared")).isNone) = true ∧ n = "shared")
      ∨ ((m.get (K "Active")).isNone = true ∧ n = "active")
      ∨ (((m.get (K "Inactive")).isNone
            && !((m.get (K "Inact_dirty")).isSome && (m.get (K "Inact_clean")).isSome
                  && (m.get (K "Inact_laundry")).isSome)) = true ∧ n = "inactive")
      ∨ (Spec.availRaw m free wm < 0 ∧ n = "available") := by
  unfold warned
  simp only [List.mem_append, mem_ite_singleton, or_assoc]

end Psutil.C08
