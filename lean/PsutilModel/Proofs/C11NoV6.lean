/-
  Proofs/C11NoV6.lean — a Python that cannot format IPv6 addresses (`inet_ntop(AF_INET6, …)` raises
  ValueError) and whose `supports_ipv6()` is false: `decode_address` raises `_Ipv6UnsupportedError`,
  `process_inet` skips the line. IPv4 and UNIX parsing do not look at the two host flags at all;
  an IPv6 line is skipped exactly when one of its addresses has to be formatted (port ≠ 0).
-/
import PsutilModel.Proofs.C11Rows
set_option linter.unusedSimpArgs false
namespace Psutil.C11
open Spec

/-- the configuration on such a host -/
def Cfg.noV6 (c : Cfg) : Cfg := { c with ntop6Fails := true, supportsV6 := false }

/-! ### IPv4 and UNIX: the host flags are not looked at -/

theorem decodeAddress_noV6_inet (c : Cfg) (addr : Bytes) :
    decodeAddress c.noV6 addr c.afInet = decodeAddress c addr c.afInet := by
  simp [decodeAddress, Cfg.noV6]
  rfl

theorem processInetLine_noV6_inet (c : Cfg) (t : Nat) (inodes : Inodes) (fp : Option Nat) (line : Bytes) :
    processInetLine c.noV6 c.afInet t inodes fp line = processInetLine c c.afInet t inodes fp line := by
  unfold processInetLine
  simp only [decodeAddress_noV6_inet]
  rfl

theorem processInetLines_noV6_inet (c : Cfg) (t : Nat) (inodes : Inodes) (fp : Option Nat) (lines : List Bytes) :
    processInetLines c.noV6 c.afInet t inodes fp lines = processInetLines c c.afInet t inodes fp lines := by
  induction lines with
  | nil => rfl
  | cons l ls ih => simp only [processInetLines, processInetLine_noV6_inet, ih]

theorem processInet_noV6_inet (c : Cfg) (name : String) (content : Option Bytes) (t : Nat) (inodes : Inodes)
    (fp : Option Nat) :
    processInet c.noV6 name content c.afInet t inodes fp = processInet c name content c.afInet t inodes fp := by
  cases content with
  | none => rfl
  | some b => simp only [processInet, processInetLines_noV6_inet]

theorem unixPairs_noV6 (c : Cfg) (line : Bytes) (tokens : List Bytes) (typeTok : Bytes) (fp : Option Nat)
    (pairs : List (Option Nat × Int)) :
    unixPairs c.noV6 line tokens typeTok fp pairs = unixPairs c line tokens typeTok fp pairs := by
  induction pairs with
  | nil => rfl
  | cons a as ih =>
    obtain ⟨pid, fd⟩ := a
    simp only [unixPairs, ih]
    rfl

theorem processUnixLine_noV6 (c : Cfg) (inodes : Inodes) (fp : Option Nat) (line : Bytes) :
    processUnixLine c.noV6 inodes fp line = processUnixLine c inodes fp line := by
  unfold processUnixLine
  simp only [unixPairs_noV6]
  rfl

theorem processUnixLines_noV6 (c : Cfg) (inodes : Inodes) (fp : Option Nat) (lines : List Bytes) :
    processUnixLines c.noV6 inodes fp lines = processUnixLines c inodes fp lines := by
  induction lines with
  | nil => rfl
  | cons l ls ih => simp only [processUnixLines, processUnixLine_noV6, ih]

theorem processUnix_noV6 (c : Cfg) (content : Option Bytes) (inodes : Inodes) (fp : Option Nat) :
    processUnix c.noV6 content inodes fp = processUnix c content inodes fp := by
  cases content with
  | none => rfl
  | some b => simp only [processUnix, processUnixLines_noV6]

/-- every `tmap` entry that is not an AF_INET6 one yields the same tuples, over ANY file content -/
theorem entryRows_noV6_other (c : Cfg) (fs : ProcFs) (inodes : Inodes) (pid : Option Nat) (e : TEntry)
    (h6 : e.2.1 ≠ c.afInet6) : entryRows c.noV6 fs inodes pid e = entryRows c fs inodes pid e := by
  unfold entryRows
  have e1 : (Cfg.noV6 c).afInet = c.afInet := rfl
  have e2 : (Cfg.noV6 c).afInet6 = c.afInet6 := rfl
  rw [e1, e2]
  by_cases h4 : e.2.1 = c.afInet
  · simp only [h4, true_or, if_true]
    cases e.2.2 with
    | none => rfl
    | some t => exact processInet_noV6_inet c e.1 (fs.net e.1) t inodes pid
  · simp only [h4, h6, or_self, if_false]
    exact processUnix_noV6 c (fs.net e.1) inodes pid

theorem getAllInodes_noV6 (c : Cfg) (procs : List (Nat × Option (List FdEntry))) :
    getAllInodes c.noV6 procs = getAllInodes c procs := rfl

/-! ### IPv6 lines -/

/-- `inet_ntop` refusing AF_INET6: `_Ipv6UnsupportedError` when `supports_ipv6()` is false, the
    ValueError itself otherwise; nothing is formatted (and nothing fails) for port 0 -/
theorem decode_v6_ntopFails (c : Cfg) (hg : c.Good) (sup : Bool) (ip : Bytes) (hl : ip.length = 16)
    (hb : ∀ b ∈ ip, b < 256) (port : Nat) (hp : port < 65536) :
    decodeAddress { c with ntop6Fails := true, supportsV6 := sup } (renderEndpoint c.littleEndian ip port) 10
      = if port = 0 then .ok .empty
        else if sup then .error .valueError else .error .ipv6Unsupported := by
  unfold decodeAddress
  rw [splitOn_endpoint]
  simp only [parseHex_hexW4 port hp]
  cases port with
  | zero => simp
  | succ p =>
    have h4 : ip.length = 4 * 4 := by omega
    have e1 : ({ c with ntop6Fails := true, supportsV6 := sup } : Cfg).afInet = 2 := hg.afInet
    simp only [b16decode_renderWords c.littleEndian 4 ip h4 hb, e1]
    have hne : ¬ (10 = 2) := by decide
    try simp only [hne, if_false]
    cases hle : c.littleEndian <;> cases sup <;>
      simp [perWord, swap32_length 4 ip h4, hl, hg.afInet, hg.v6RaiseUnsupported]

theorem decode_v6_noV6 (c : Cfg) (hg : c.Good) (ip : Bytes) (hl : ip.length = 16) (hb : ∀ b ∈ ip, b < 256)
    (port : Nat) (hp : port < 65536) :
    decodeAddress c.noV6 (renderEndpoint c.littleEndian ip port) 10
      = if port = 0 then .ok .empty else .error .ipv6Unsupported := by
  have := decode_v6_ntopFails c hg false ip hl hb port hp
  simpa [Cfg.noV6] using this

/-- one rendered tcp6/udp6 line: skipped when an address would have to be formatted, otherwise
    (both ports 0: both addresses empty) the promised tuple -/
theorem processInetLine_noV6 (c : Cfg) (hg : c.Good) (s : Sock) (h6 : s.fam = .inet6) (hwf : s.WF) (sl : Nat)
    (inodes : Inodes) (fp : Option Nat) :
    processInetLine c.noV6 10 s.typ inodes fp (inetLine c.littleEndian (s.typ == 1) sl s) =
      match pidFd inodes (renderDec s.inode) with
      | .error e => .error e
      | .ok (pid, fd) =>
        if filteredOut fp pid then .ok none
        else if needsV6Text s then .ok none else .ok (some (rowFor s pid fd)) := by
  unfold processInetLine
  rw [splitWs_inetLine]
  have hN : (Cfg.noV6 c).inetN = 10 := hg.inetN
  have hL : (Cfg.noV6 c).iLaddr = 1 := hg.iLaddr
  have hR : (Cfg.noV6 c).iRaddr = 2 := hg.iRaddr
  have hS : (Cfg.noV6 c).iStatus = 3 := hg.iStatus
  have hI : (Cfg.noV6 c).iInode = 9 := hg.iInode
  have hlen : ¬ ((inetFields c.littleEndian (s.typ == 1) sl s).map (·.2)).length < (Cfg.noV6 c).inetN := by
    rw [hN]; cases (s.typ == 1) <;> simp [inetFields]
  have e1 : ((inetFields c.littleEndian (s.typ == 1) sl s).map (·.2))[(Cfg.noV6 c).iLaddr]? =
      some (renderEndpoint c.littleEndian s.lip s.lport) := by rw [hL]; simp [inetFields]
  have e2 : ((inetFields c.littleEndian (s.typ == 1) sl s).map (·.2))[(Cfg.noV6 c).iRaddr]? =
      some (renderEndpoint c.littleEndian s.rip s.rport) := by rw [hR]; simp [inetFields]
  have e3 : ((inetFields c.littleEndian (s.typ == 1) sl s).map (·.2))[(Cfg.noV6 c).iStatus]? =
      some (hexW 2 s.state) := by rw [hS]; simp [inetFields]
  have e4 : ((inetFields c.littleEndian (s.typ == 1) sl s).map (·.2))[(Cfg.noV6 c).iInode]? =
      some (renderDec s.inode) := by rw [hI]; simp [inetFields]
  simp only [hlen, if_false, e1, e2, e3, e4]
  cases hpf : pidFd inodes (renderDec s.inode) with
  | error e => rfl
  | ok pf =>
    obtain ⟨pid, fd⟩ := pf
    simp only []
    cases hfo : filteredOut fp pid with
    | true => simp
    | false =>
      simp only [Bool.false_eq_true, if_false]
      simp only [Sock.WF, h6] at hwf
      obtain ⟨a1, a2, a3, a4, a5, a6, ht, hst⟩ := hwf
      have hl := decode_v6_noV6 c hg _ a1 a3 _ a5
      have hr := decode_v6_noV6 c hg _ a2 a4 _ a6
      have hSS : (Cfg.noV6 c).sockStream = 1 := hg.sockStream
      have hCN : (Cfg.noV6 c).connNone = "NONE" := hg.connNone
      have hTS : (Cfg.noV6 c).tcpStatuses = c.tcpStatuses := rfl
      have hSk : v6Skip (Cfg.noV6 c) = .ok none := by
        have : (Cfg.noV6 c).v6SkipLine = true := hg.v6SkipLine
        simp [v6Skip, this]
      rw [hl, hr, hSS, hCN, hTS, hSk]
      have hbase : baseRow s = ⟨0, 10, s.typ, endpoint s.lip s.lport, endpoint s.rip s.rport,
          (if s.typ = 1 then (stateName s.state).getD "" else "NONE"), none⟩ := by
        simp [baseRow, h6, Fam.num]
      have hneeds : needsV6Text s = (s.lport != 0 || s.rport != 0) := by simp [needsV6Text, h6]
      rcases ht with ht | ht
      · obtain ⟨h1, h2⟩ := hst ht
        obtain ⟨nm, hnm⟩ := stateName_some s.state h1 h2
        by_cases hlp : s.lport = 0
        · by_cases hrp : s.rport = 0
          · simp [ht, hg.status s.state h1 h2, hnm, hlp, hrp, hneeds, rowFor, hbase, endpoint]
          · simp [ht, hg.status s.state h1 h2, hnm, hlp, hrp, hneeds]
        · simp [ht, hg.status s.state h1 h2, hnm, hlp, hneeds]
      · by_cases hlp : s.lport = 0
        · by_cases hrp : s.rport = 0
          · simp [ht, hlp, hrp, hneeds, rowFor, hbase, endpoint]
          · simp [ht, hlp, hrp, hneeds]
        · simp [ht, hlp, hneeds]

theorem processInetLines_noV6 (c : Cfg) (hg : c.Good) (typ : Nat) (inodes : Inodes) (hi : Inv inodes)
    (fp : Option Nat) (socks : List Sock) (hs : ∀ s ∈ socks, s.WF ∧ s.fam = .inet6 ∧ s.typ = typ) :
    ∀ sl, processInetLines c.noV6 10 typ inodes fp (inetLines c.littleEndian (typ == 1) sl socks)
      = .ok ((socks.filter fun s => !needsV6Text s).filterMap (inetRow? inodes fp)) := by
  induction socks with
  | nil => intro sl; rfl
  | cons s ss ih =>
    intro sl
    obtain ⟨h2, h3, h4⟩ := hs s (by simp)
    have ih' := ih (fun x hx => hs x (by simp [hx])) (sl + 1)
    simp only [inetLines, processInetLines]
    have := processInetLine_noV6 c hg s h3 h2 sl inodes fp
    rw [h4] at this
    rw [this, pidFd_of_inv inodes hi, ih']
    cases hn : needsV6Text s
    · simp only [List.filter_cons, hn, Bool.not_false, if_true, List.filterMap_cons, inetRow?]
      cases hf : filteredOut fp (firstOwner inodes (renderDec s.inode)).1 <;> simp [hf]
    · simp only [List.filter_cons, hn, Bool.not_true, Bool.false_eq_true, if_false]
      cases hf : filteredOut fp (firstOwner inodes (renderDec s.inode)).1 <;> simp [hf]

/-! ### whole entries over a rendered world -/

theorem dropV6_filter_comm (w : World) (p : Sock → Bool) :
    w.dropV6.socks.filter p = (w.socks.filter p).filter fun s => !needsV6Text s := by
  simp only [World.dropV6, List.filter_filter]
  apply List.filter_congr
  intro s _
  exact Bool.and_comm _ _

theorem entrySocks_dropV6 (w : World) (e : TEntry) :
    entrySocks w.dropV6 e = (entrySocks w e).filter fun s => !needsV6Text s := by
  rw [entrySocks_eq, entrySocks_eq]
  exact dropV6_filter_comm w (inEntry e)

theorem filter_noV6_of_not_inet6 (l : List Sock) (h : ∀ s ∈ l, s.fam ≠ .inet6) :
    (l.filter fun s => !needsV6Text s) = l := by
  rw [List.filter_eq_self]
  intro s hs
  have := h s hs
  cases hf : s.fam <;> simp_all [needsV6Text]

theorem entryRows_noV6_inet6 (c : Cfg) (hg : c.Good) (w : World) (hw : w.WF) (inodes : Inodes) (hi : Inv inodes)
    (pid : Option Nat) (name : String) (t : Nat) (header : Bytes) (hh : 10 ∉ header)
    (hnet : (renderWorld c.littleEndian w).net name = some (inetFile c.littleEndian w .inet6 t header)) :
    processInet c.noV6 name ((renderWorld c.littleEndian w).net name) 10 t inodes pid
      = .ok (((w.socks.filter (inClass .inet6 t)).filter fun s => !needsV6Text s).flatMap (sockRows inodes pid)) := by
  rw [hnet]
  unfold inetFile processInet
  simp only []
  rw [linesOf_fileOf header _ hh (nl_not_mem_inetLines _ _ _ 0)]
  simp only [List.drop_succ_cons, List.drop_zero]
  have hs : ∀ s ∈ w.socks.filter (inClass .inet6 t), s.WF ∧ s.fam = .inet6 ∧ s.typ = t := by
    intro s hs
    obtain ⟨h1, h2, h3⟩ := inClass_mem hs
    exact ⟨hw.socks s h1, h2, h3⟩
  rw [processInetLines_noV6 c hg t inodes hi pid _ hs 0, filterMap_eq_flatMap_sockRows]
  intro s hs'
  have := (hs s (List.mem_filter.mp hs').1).2.1
  rw [this]; decide

/-- every canonical entry, run by the IPv6-less host over a rendered world, yields the tuples of the
    sockets of its class in `w.dropV6` -/
theorem entryRows_render_noV6 (c : Cfg) (hg : c.Good) (w : World) (hw : w.WF) (inodes : Inodes) (hi : Inv inodes)
    (pid : Option Nat) : ∀ e ∈ canonicalEntries,
      entryRows c.noV6 (renderWorld c.littleEndian w) inodes pid e
        = .ok ((entrySocks w.dropV6 e).flatMap (sockRows inodes pid)) := by
  intro e he
  have hbase := entryRows_render c hg w hw inodes hi pid e he
  rw [entrySocks_dropV6]
  obtain ⟨h1, h2, h3, h4⟩ := headers_nl
  simp only [canonicalEntries, List.mem_cons, List.not_mem_nil, or_false] at he
  have hother : ∀ (e : TEntry), e.2.1 ≠ 10 → (∀ s ∈ entrySocks w e, s.fam ≠ .inet6) →
      entryRows c (renderWorld c.littleEndian w) inodes pid e = .ok ((entrySocks w e).flatMap (sockRows inodes pid)) →
      entryRows c.noV6 (renderWorld c.littleEndian w) inodes pid e
        = .ok (((entrySocks w e).filter fun s => !needsV6Text s).flatMap (sockRows inodes pid)) := by
    intro e h6 hf hb
    rw [entryRows_noV6_other c _ inodes pid e (by rw [hg.afInet6]; exact h6), hb, filter_noV6_of_not_inet6 _ hf]
  rcases he with rfl | rfl | rfl | rfl | rfl
  · refine hother _ (by decide) ?_ hbase
    intro s hs; simp only [entrySocks, if_true] at hs; rw [(inClass_mem hs).2.1]; decide
  · -- tcp6
    cases hv : w.v6 with
    | true =>
      have := entryRows_noV6_inet6 c hg w hw inodes hi pid "tcp6" 1 _ h3 (by simp [renderWorld, hv])
      have e1 : (Cfg.noV6 c).afInet = 2 := hg.afInet
      have e2 : (Cfg.noV6 c).afInet6 = 10 := hg.afInet6
      simpa [entryRows, e1, e2, entrySocks] using this
    | false =>
      have hnone : (renderWorld c.littleEndian w).net "tcp6" = none := by simp [renderWorld, hv]
      have hemp : w.socks.filter (inClass .inet6 1) = [] := by
        rw [List.filter_eq_nil_iff]
        intro s hs
        have := hw.v6 hv s hs
        simp [inClass, this]
      have hlast : "tcp6".toList.getLast? = some '6' := by decide
      have e1 : (Cfg.noV6 c).afInet = 2 := hg.afInet
      have e2 : (Cfg.noV6 c).afInet6 = 10 := hg.afInet6
      simp [entryRows, e1, e2, entrySocks, processInet, hnone, hemp, hlast]
  · refine hother _ (by decide) ?_ hbase
    intro s hs; simp only [entrySocks] at hs; rw [(inClass_mem hs).2.1]; decide
  · -- udp6
    cases hv : w.v6 with
    | true =>
      have := entryRows_noV6_inet6 c hg w hw inodes hi pid "udp6" 2 _ h4 (by simp [renderWorld, hv])
      have e1 : (Cfg.noV6 c).afInet = 2 := hg.afInet
      have e2 : (Cfg.noV6 c).afInet6 = 10 := hg.afInet6
      simpa [entryRows, e1, e2, entrySocks] using this
    | false =>
      have hnone : (renderWorld c.littleEndian w).net "udp6" = none := by simp [renderWorld, hv]
      have hemp : w.socks.filter (inClass .inet6 2) = [] := by
        rw [List.filter_eq_nil_iff]
        intro s hs
        have := hw.v6 hv s hs
        simp [inClass, this]
      have hlast : "udp6".toList.getLast? = some '6' := by decide
      have e1 : (Cfg.noV6 c).afInet = 2 := hg.afInet
      have e2 : (Cfg.noV6 c).afInet6 = 10 := hg.afInet6
      simp [entryRows, e1, e2, entrySocks, processInet, hnone, hemp, hlast]
  · refine hother _ (by decide) ?_ hbase
    intro s hs
    simp only [entrySocks] at hs
    have : s.fam = .unix := by simpa using (List.mem_filter.mp hs).2
    rw [this]; decide

/-- system-wide form on the IPv6-less host: the rows promised for `w.dropV6` -/
theorem netConnections_system_noV6 (c : Cfg) (hg : c.Good) (ht : c.TmapGood) (w : World) (hw : w.WF)
    (kind : String) (hk : kind ∈ kinds) :
    ∃ rows, netConnections c.noV6 (renderWorld c.littleEndian w) kind none = .ok rows
      ∧ Accepts (expects w.dropV6 ⟨kind, none⟩) rows := by
  obtain ⟨es, hl, hc, hsel, hn⟩ := ht.entries hk
  obtain ⟨_, hinv⟩ := getAllInodes_spec c hg.inodesExtend (renderWorld c.littleEndian w).procs
  have ok : OwnersOK w.dropV6 ⟨kind, none⟩ (getAllInodes c (renderWorld c.littleEndian w).procs) :=
    ⟨hinv, (by intro k x _ p hp; cases hp), fun i => owners_system c hg c.littleEndian w hw kind i⟩
  have hws : ∀ s ∈ w.dropV6.socks, s.WF := fun s hs => hw.socks s (List.mem_filter.mp hs).1
  obtain ⟨rows, h1, h2⟩ := entries_accept_of c.noV6 (renderWorld c.littleEndian w) w.dropV6 hws ⟨kind, none⟩ _ ok es
    hc hsel hn (entryRows_render_noV6 c hg w hw _ hinv none)
  refine ⟨rows, ?_, h2⟩
  have hin : ¬ kind ∉ (Cfg.noV6 c).connKinds := fun h => h (kind_in_connKinds ht hk)
  have hl' : (Cfg.noV6 c).tmap.lookup kind = some es := hl
  simp only [netConnections, hin, if_false, retrieve, Option.isSome, Bool.false_and, Bool.false_eq_true, hl',
    getAllInodes_noV6]
  exact h1

end Psutil.C11
