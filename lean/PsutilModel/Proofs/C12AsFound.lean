/-
  Proofs/C12AsFound.lean — where the code as found (universal-newlines `open_text`, `name()`
  testing code points) already behaves like the repaired code: files without a carriage
  return, names made of ASCII bytes. Delimits the two defects exactly.
-/
import PsutilModel.Proofs.C12
namespace Psutil.C12

theorem dropLfAfterCr_noCR (s : Bytes) (h : 13 ∉ s) : dropLfAfterCr false s = s := by
  induction s with
  | nil => rfl
  | cons c cs ih =>
    have hc : c ≠ 13 := fun e => h (by simp [e])
    have hcs : 13 ∉ cs := fun m => h (by simp [m])
    have hb : (c == 13) = false := by simpa using hc
    simp [dropLfAfterCr, hb, ih hcs]

theorem nlTranslate_noCR (s : Bytes) (h : 13 ∉ s) : nlTranslate s = s := by
  unfold nlTranslate
  rw [dropLfAfterCr_noCR s h]
  induction s with
  | nil => rfl
  | cons c cs ih =>
    have hc : c ≠ 13 := fun e => h (by simp [e])
    have hcs : 13 ∉ cs := fun m => h (by simp [m])
    simp [hc, ih hcs]

def Ascii (s : Bytes) : Prop := ∀ b ∈ s, b < 128

theorem charsAux_ascii (s : Bytes) (h : Ascii s) (fuel : Nat) (hf : s.length ≤ fuel) :
    charsAux fuel s = s.map fun b => [b] := by
  induction s generalizing fuel with
  | nil => cases fuel <;> rfl
  | cons b bs ih =>
    cases fuel with
    | zero => simp at hf
    | succ fuel =>
      have hb : b < 128 := h b (by simp)
      have hbs : Ascii bs := fun x hx => h x (by simp [hx])
      have hu : utf8Len (b :: bs) = 1 := by simp [utf8Len, hb]
      simp only [charsAux, hu]
      simp [ih hbs fuel (by simpa using hf)]

theorem chars_ascii (s : Bytes) (h : Ascii s) : chars s = s.map fun b => [b] :=
  charsAux_ascii s h s.length (Nat.le_refl _)

theorem isPrefixOf_map_singleton (s t : Bytes) :
    (s.map fun b => [b]).isPrefixOf (t.map fun b => [b]) = s.isPrefixOf t := by
  induction s generalizing t with
  | nil => simp
  | cons a as ih =>
    cases t with
    | nil => simp
    | cons b bs => simp [List.isPrefixOf, ih]

end Psutil.C12
