/-
  Proofs/C18Py.lean — lemmas about the calls with the arguments as Python objects (`stepPy`):
  a call that raises leaves the kernel exactly as it was; the frame (other processes, kernel
  parameters) holds for `stepX` / `stepPy` in every context and configuration.
-/
import PsutilModel.Proofs.C18Priv
namespace Psutil.C18

/-- "if the call raised, the kernel is the one before the call" -/
def ExcKeeps (k : Kernel) (r : Out × Kernel) : Prop := ∀ e, r.1 = .exc e → r.2 = k

theorem excKeeps_same (k : Kernel) (o : Out) : ExcKeeps k (o, k) := fun _ _ => rfl
theorem excKeeps_ok (k k' : Kernel) (v : Val) : ExcKeeps k (.ok v, k') := fun e h => by cases h

theorem excKeeps_niceGet (k : Kernel) (pid : Nat) : ExcKeeps k (niceGet k pid) := by
  unfold niceGet; split <;> exact excKeeps_same _ _

theorem excKeeps_niceGetX (c : Cfg) (k : Kernel) (pid e : Nat) : ExcKeeps k (niceGetX c k pid e) := by
  unfold niceGetX; split <;> exact excKeeps_same _ _

theorem excKeeps_niceSet (k : Kernel) (pid : Nat) (v : Int) : ExcKeeps k (niceSet k pid v) := by
  unfold niceSet; split
  · exact excKeeps_ok _ _ _
  · exact excKeeps_same _ _

theorem excKeeps_ioniceGet (c : Cfg) (k : Kernel) (pid : Nat) : ExcKeeps k (ioniceGet c k pid) := by
  unfold ioniceGet; split
  · exact excKeeps_same _ _
  · split <;> exact excKeeps_same _ _

theorem excKeeps_ioniceGetX (c : Cfg) (k : Kernel) (pid e : Nat) : ExcKeeps k (ioniceGetX c k pid e) := by
  unfold ioniceGetX; split
  · exact excKeeps_same _ _
  · split <;> exact excKeeps_same _ _

theorem excKeeps_ioniceSet (c : Cfg) (k : Kernel) (pid : Nat) (cls : Int) (v : Option Int) :
    ExcKeeps k (ioniceSet c k pid cls v) := by
  unfold ioniceSet
  simp only
  split
  · exact excKeeps_same _ _
  · split
    · exact excKeeps_same _ _
    · split
      · exact excKeeps_ok _ _ _
      · exact excKeeps_same _ _

theorem excKeeps_cpuAffinitySet (k : Kernel) (pid : Nat) (l : List Int) : ExcKeeps k (cpuAffinitySet k pid l) := by
  unfold cpuAffinitySet
  split
  · exact excKeeps_ok _ _ _
  · split
    · split
      · exact excKeeps_same _ _
      · split <;> exact excKeeps_same _ _
    · exact excKeeps_same _ _

theorem excKeeps_cpuAffinitySetWith (b : Bool) (el : Option (List Nat)) (k : Kernel) (pid : Nat) (l : List Int) :
    ExcKeeps k (cpuAffinitySetWith b el k pid l) := by
  unfold cpuAffinitySetWith
  split
  · exact excKeeps_ok _ _ _
  · split
    · split
      · exact excKeeps_same _ _
      · split
        · exact excKeeps_same _ _
        · split <;> exact excKeeps_same _ _
    · exact excKeeps_same _ _

theorem excKeeps_rlimitL (c : Cfg) (k : Kernel) (pid : Nat) (res : Int) (l : Option (List Int)) :
    ExcKeeps k (rlimitL c k pid res l) := by
  unfold rlimitL
  split
  · exact excKeeps_same _ _
  · split
    · split <;> exact excKeeps_same _ _
    · split
      · exact excKeeps_same _ _
      · split
        · exact excKeeps_ok _ _ _
        · exact excKeeps_same _ _

theorem excKeeps_cpuAffinitySetP (c : Cfg) (el : Option (List Nat)) (k : Kernel) (pid : Nat) (l : List Int) :
    ExcKeeps k (cpuAffinitySetP c el k pid l) := by
  unfold cpuAffinitySetP
  split
  · exact excKeeps_ok _ _ _
  · split
    · split
      · exact excKeeps_same _ _
      · split
        · exact excKeeps_same _ _
        · split <;> exact excKeeps_same _ _
    · exact excKeeps_same _ _

theorem excKeeps_niceSetX (c : Cfg) (k : Kernel) (pid : Nat) (v : Int) : ExcKeeps k (niceSetX c k pid v) := by
  unfold niceSetX; split
  · exact excKeeps_ok _ _ _
  · exact excKeeps_same _ _

theorem excKeeps_ioniceSetX (c : Cfg) (k : Kernel) (pid : Nat) (cls : Int) (v : Option Int) :
    ExcKeeps k (ioniceSetX c k pid cls v) := by
  unfold ioniceSetX
  simp only
  split
  · exact excKeeps_same _ _
  · split
    · exact excKeeps_same _ _
    · split
      · exact excKeeps_ok _ _ _
      · exact excKeeps_same _ _

theorem excKeeps_rlimitLX (c : Cfg) (k : Kernel) (pid : Nat) (res : Int) (l : Option (List Int)) :
    ExcKeeps k (rlimitLX c k pid res l) := by
  unfold rlimitLX
  split
  · exact excKeeps_same _ _
  · split
    · split <;> exact excKeeps_same _ _
    · split
      · exact excKeeps_same _ _
      · split
        · exact excKeeps_ok _ _ _
        · exact excKeeps_same _ _

theorem excKeeps_cpuAffinityX (c : Cfg) (k : Kernel) (pid : Nat) (x : Ctx) (cpus : Option (List Int)) :
    ExcKeeps k (cpuAffinityX c k pid x cpus) := by
  cases cpus with
  | none => simp only [cpuAffinityX]; split <;> exact excKeeps_same _ _
  | some l =>
    simp only [cpuAffinityX]
    split
    · split
      · exact excKeeps_cpuAffinitySetP _ _ _ _ _
      · split
        · exact excKeeps_cpuAffinitySetP _ _ _ _ _
        · split
          · exact excKeeps_same _ _
          · exact excKeeps_cpuAffinitySetP _ _ _ _ _
    · exact excKeeps_cpuAffinitySetP _ _ _ _ _

theorem excKeeps_stepX (c : Cfg) (k : Kernel) (pid : Nat) (x : Ctx) (req : Req) : ExcKeeps k (stepX c k pid x req) := by
  cases req with
  | nice v =>
    cases v with
    | none => exact excKeeps_niceGetX c k pid _
    | some v => exact excKeeps_niceSetX c k pid v
  | ionice cls v =>
    cases cls with
    | none =>
      cases v with
      | none => exact excKeeps_ioniceGetX c k pid _
      | some v =>
        simp only [stepX]
        split
        · exact excKeeps_same _ _
        · exact excKeeps_ioniceGetX c k pid _
    | some cls => exact excKeeps_ioniceSetX c k pid cls v
  | cpuAffinity cpus => exact excKeeps_cpuAffinityX c k pid x cpus
  | rlimit res l => exact excKeeps_rlimitLX c k pid res l

theorem excKeeps_stepPy (c : Cfg) (k : Kernel) (pid : Nat) (x : Ctx) (r : PyReq) : ExcKeeps k (stepPy c k pid x r) := by
  unfold stepPy
  split
  · exact excKeeps_same _ _
  · unfold stepPyCore
    split
    · exact excKeeps_cpuAffinitySetP _ _ _ _ _
    · split <;> exact excKeeps_same _ _
    · exact excKeeps_stepX c k pid x _

/-! #### frame in every context -/

theorem frame_cpuAffinitySetWith (b : Bool) (el : Option (List Nat)) (k : Kernel) {pid : Nat} (h : pid ≠ 0)
    (cpus : List Int) : Frame pid k (cpuAffinitySetWith b el k pid cpus).2 := by
  unfold cpuAffinitySetWith
  split
  · rename_i k' hk
    unfold cextAffinitySet at hk
    split at hk
    · cases hk
    · exact frame_sysSchedSetaffinity h (frame_ofSys hk)
  · split
    · split
      · exact Frame.refl _ _
      · split
        · exact Frame.refl _ _
        · split <;> exact Frame.refl _ _
    · exact Frame.refl _ _

theorem sysSetpriorityP_ok {k k' : Kernel} {pid : Nat} {v : Int} (h : sysSetpriorityP k pid v = .ok k') :
    sysSetpriority k pid v = .ok k' := by
  unfold sysSetpriorityP at h; split at h
  · cases h
  · exact h

theorem sysIoprioSetP_ok {k k' : Kernel} {pid v : Nat} (h : sysIoprioSetP k pid v = .ok k') :
    sysIoprioSet k pid v = .ok k' := by
  unfold sysIoprioSetP at h; split at h
  · cases h
  · exact h

theorem sysSchedSetaffinityP_ok {k k' : Kernel} {pid : Nat} {m : List Nat} (h : sysSchedSetaffinityP k pid m = .ok k') :
    sysSchedSetaffinity k pid m = .ok k' := by
  unfold sysSchedSetaffinityP at h; split at h
  · cases h
  · exact h

theorem sysPrlimitSetP_ok {k k' : Kernel} {pid r s hd : Nat} (h : sysPrlimitSetP k pid r s hd = .ok k') :
    sysPrlimitSet k pid r s hd = .ok k' := by
  unfold sysPrlimitSetP at h; split at h
  · cases h
  · exact h

theorem frame_checkedCall {checks : Bool} {k k' : Kernel} {pid : Nat} {r : Except Errno Kernel}
    (hr : ∀ k'', r = .ok k'' → Frame pid k k'') (h : checkedCall checks k r = .ok k') : Frame pid k k' := by
  cases r with
  | ok k2 => simp only [checkedCall, Except.ok.injEq] at h; subst h; exact hr _ rfl
  | error e =>
    simp only [checkedCall] at h
    split at h
    · cases h
    · cases h; exact Frame.refl _ _

theorem frame_cpuAffinitySetP (c : Cfg) (el : Option (List Nat)) (k : Kernel) {pid : Nat} (h : pid ≠ 0)
    (cpus : List Int) : Frame pid k (cpuAffinitySetP c el k pid cpus).2 := by
  unfold cpuAffinitySetP
  split
  · rename_i k' hk
    unfold cextAffinitySetP at hk
    split at hk
    · cases hk
    · exact frame_checkedCall (fun k'' e => frame_sysSchedSetaffinity h (sysSchedSetaffinityP_ok e)) hk
  · split
    · split
      · exact Frame.refl _ _
      · split
        · exact Frame.refl _ _
        · split <;> exact Frame.refl _ _
    · exact Frame.refl _ _

theorem frame_niceSetX (c : Cfg) (k : Kernel) {pid : Nat} (h : pid ≠ 0) (v : Int) :
    Frame pid k (niceSetX c k pid v).2 := by
  unfold niceSetX
  split
  · rename_i k' hk
    unfold cextSetpriorityP at hk
    split at hk
    · exact frame_checkedCall (fun k'' e => frame_sysSetpriority h (sysSetpriorityP_ok e)) hk
    · cases hk
  · exact Frame.refl _ _

theorem frame_ioniceSetX (c : Cfg) (k : Kernel) {pid : Nat} (h : pid ≠ 0) (cls : Int) (v : Option Int) :
    Frame pid k (ioniceSetX c k pid cls v).2 := by
  unfold ioniceSetX
  simp only
  split
  · exact Frame.refl _ _
  · split
    · exact Frame.refl _ _
    · split
      · rename_i k' hk
        unfold cextIoprioSetP at hk
        split at hk
        · cases hk
        · split at hk
          · cases hk
          · split at hk
            · cases hk
            · simp only at hk
              split at hk
              · exact frame_checkedCall (fun k'' e => frame_sysIoprioSet h (sysIoprioSetP_ok e)) hk
              · cases hk
      · exact Frame.refl _ _

theorem frame_rlimitLX (c : Cfg) (k : Kernel) {pid : Nat} (h : pid ≠ 0) (res : Int) (l : Option (List Int)) :
    Frame pid k (rlimitLX c k pid res l).2 := by
  unfold rlimitLX
  split
  · exact Frame.refl _ _
  · split
    · split <;> exact Frame.refl _ _
    · split
      · exact Frame.refl _ _
      · split
        · rename_i k' hk
          unfold pyPrlimitSetP at hk
          split at hk
          · cases hk
          · split at hk
            · split at hk
              · cases hk
              · split at hk
                · rename_i k2 hk2
                  cases hk
                  exact frame_sysPrlimitSet h (sysPrlimitSetP_ok hk2)
                · cases hk
                · cases hk
            · cases hk
        · exact Frame.refl _ _

theorem frame_cpuAffinityX (c : Cfg) (k : Kernel) {pid : Nat} (h : pid ≠ 0) (x : Ctx) (cpus : Option (List Int)) :
    Frame pid k (cpuAffinityX c k pid x cpus).2 := by
  cases cpus with
  | none => simp only [cpuAffinityX]; split <;> exact Frame.refl _ _
  | some l =>
    simp only [cpuAffinityX]
    split
    · split
      · exact frame_cpuAffinitySetP _ _ k h _
      · split
        · exact frame_cpuAffinitySetP _ _ k h _
        · split
          · exact Frame.refl _ _
          · exact frame_cpuAffinitySetP _ _ k h _
    · exact frame_cpuAffinitySetP _ _ k h _

theorem frame_stepX (c : Cfg) (k : Kernel) {pid : Nat} (h : pid ≠ 0) (x : Ctx) (req : Req) :
    Frame pid k (stepX c k pid x req).2 := by
  cases req with
  | nice v =>
    cases v with
    | none => simp only [stepX, niceGetX]; split <;> exact Frame.refl _ _
    | some v => exact frame_niceSetX c k h v
  | ionice cls v =>
    cases cls with
    | none =>
      cases v with
      | none => simp only [stepX, ioniceGetX]; split <;> (try split) <;> exact Frame.refl _ _
      | some v => simp only [stepX, ioniceGetX]; split <;> (try split) <;> (try split) <;> exact Frame.refl _ _
    | some cls => exact frame_ioniceSetX c k h cls v
  | cpuAffinity cpus => exact frame_cpuAffinityX c k h x cpus
  | rlimit res l => exact frame_rlimitLX c k h res l

theorem frame_stepPy (c : Cfg) (k : Kernel) {pid : Nat} (h : pid ≠ 0) (x : Ctx) (r : PyReq) :
    Frame pid k (stepPy c k pid x r).2 := by
  unfold stepPy
  split
  · exact Frame.refl _ _
  · unfold stepPyCore
    split
    · exact frame_cpuAffinitySetP _ _ k h _
    · split <;> exact Frame.refl _ _
    · exact frame_stepX c k h x _

/-! #### forms -/

theorem stepPyCore_sized (c : Cfg) (k : Kernel) (pid : Nat) (x : Ctx) (r : PyReq) (h : r.Sized) :
    stepPyCore c k pid x r = stepX c k pid x r.erase := by
  unfold stepPyCore
  split
  · exact absurd rfl h
  · exact absurd rfl h
  · rfl

theorem stepPyCore_iterator_nonempty (c : Cfg) (k : Kernel) (pid : Nat) (x : Ctx) (l : List Int) (h : l ≠ []) :
    stepPyCore c k pid x (.cpuAffinity (some (.iterator, l))) = stepX c k pid x (.cpuAffinity (some l)) := by
  have hemp : l.isEmpty = false := by cases l <;> simp_all
  simp only [stepPyCore, stepX, cpuAffinityX, hemp, Bool.false_eq_true, if_false]

/-- the guard never fires for a process the kernel knows -/
theorem goneGuard_alive {k : Kernel} {pid : Nat} {st : PState} (hst : k.procs pid = some st) (r : PyReq) :
    goneGuard k pid r = false := by
  simp [goneGuard, hst]

theorem stepPy_alive (c : Cfg) {k : Kernel} {pid : Nat} {st : PState} (hst : k.procs pid = some st) (x : Ctx)
    (r : PyReq) : stepPy c k pid x r = stepPyCore c k pid x r := by
  simp [stepPy, goneGuard_alive hst]

/-- the guard looks at the values only: requests with the same values are guarded alike -/
theorem isSet_erase {r r' : PyReq} (h : r.erase = r'.erase) : r.isSet = r'.isSet := by
  cases r with
  | nice v => cases r' with
    | nice v' => cases v <;> cases v' <;> simp_all [PyReq.erase, PyReq.isSet]
    | ionice a b => cases h
    | cpuAffinity cp => cases cp with
      | none => cases h
      | some p => cases h
    | rlimit a b => cases b with
      | none => cases h
      | some p => cases h
  | ionice a b => cases r' with
    | nice v' => cases h
    | ionice a' b' => cases a <;> cases a' <;> simp_all [PyReq.erase, PyReq.isSet]
    | cpuAffinity cp => cases cp with
      | none => cases h
      | some p => cases h
    | rlimit a' b' => cases b' with
      | none => cases h
      | some p => cases h
  | cpuAffinity cp => cases r' with
    | nice v' => cases cp with
      | none => cases h
      | some p => cases h
    | ionice a b => cases cp with
      | none => cases h
      | some p => cases h
    | cpuAffinity cp' => cases cp <;> cases cp' <;> simp_all [PyReq.erase, PyReq.isSet]
    | rlimit a' b' => cases cp with
      | none => cases b' with
        | none => cases h
        | some p => cases h
      | some p => cases b' with
        | none => cases h
        | some p => cases h
  | rlimit a b => cases r' with
    | nice v' => cases b with
      | none => cases h
      | some p => cases h
    | ionice a' b' => cases b with
      | none => cases h
      | some p => cases h
    | cpuAffinity cp => cases b with
      | none => cases cp with
        | none => cases h
        | some p => cases h
      | some p => cases cp with
        | none => cases h
        | some p => cases h
    | rlimit a' b' => cases b <;> cases b' <;> simp_all [PyReq.erase, PyReq.isSet]

/-- the native layer refuses an empty CPU list with the kernel's EINVAL -/
theorem cextAffinitySet_nil (k : Kernel) (pid : Nat) (st : PState) (hpid : pid ≠ 0) (hst : k.procs pid = some st) :
    cextAffinitySet k pid [] = .error (.os .EINVAL) := by
  have hnil : grantedCpus k st [] = [] := by
    simp [grantedCpus]
  simp [cextAffinitySet, cpuSetOfSeq, sysSchedSetaffinity, resolve_pid k hpid, hst, hnil, ofSys]

theorem dedup_nil (c : Cfg) : dedup c [] = [] := by
  unfold dedup pySet; split <;> rfl

end Psutil.C18
