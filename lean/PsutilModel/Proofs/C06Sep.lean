/- Proofs/C06Sep.lean — the status-regex matcher with the separator taken from the source
   coincides with the tab-only matcher when the separator is exactly one tab. -/
import PsutilModel.Model.C06
namespace Psutil.C06

theorem dropSep_tabOne_nil : dropSep Sep.tabOne [] = none := by
  simp [dropSep, Sep.tabOne, takeExact]

theorem dropSep_tabOne_cons (c : Nat) (cs : Bytes) :
    dropSep Sep.tabOne (c :: cs) = if c = 9 then some cs else none := by
  by_cases h : c = 9 <;> simp [dropSep, Sep.tabOne, takeExact, Sep.isSep, h]

theorem matchGroupsS_tabOne : ∀ (n : Nat) (s : Bytes), matchGroupsS Sep.tabOne n s = matchGroups n s := by
  intro n
  induction n with
  | zero => intro s; rfl
  | succ n ih =>
    intro s
    cases s with
    | nil => simp [matchGroupsS, matchGroups, dropSep_tabOne_nil]
    | cons c cs =>
      by_cases hc : c = 9
      · subst hc
        simp [matchGroupsS, matchGroups, dropSep_tabOne_cons, ih]
      · have h1 : matchGroups (n + 1) (c :: cs) = none := by
          unfold matchGroups
          split
          · rename_i heq; simp at heq
          · rename_i heq; simp only [List.cons.injEq] at heq; exact absurd heq.1 hc
          · rfl
        rw [h1]
        simp [matchGroupsS, dropSep_tabOne_cons, hc]

theorem matchAtS_tabOne (key : Bytes) (n : Nat) (s : Bytes) : matchAtS key Sep.tabOne n s = matchAt key n s := by
  simp [matchAtS, matchAt, matchGroupsS_tabOne]

theorem findAllGoS_tabOne (anch : Bool) (key : Bytes) (n : Nat) : ∀ (s : Bytes) (skip : Nat) (atStart : Bool),
    findAllGoS anch key Sep.tabOne n skip atStart s = findAllGo anch key n skip atStart s := by
  intro s
  induction s with
  | nil => intro skip atStart; cases skip <;> simp [findAllGoS, findAllGo]
  | cons c cs ih =>
    intro skip atStart
    cases skip with
    | succ k => simp [findAllGoS, findAllGo, ih]
    | zero => simp [findAllGoS, findAllGo, ih, matchAtS_tabOne]

theorem findAllS_tabOne (anch : Bool) (key : Bytes) (n : Nat) (s : Bytes) :
    findAllS anch key Sep.tabOne n s = findAll anch key n s := findAllGoS_tabOne anch key n s 0 true

end Psutil.C06
