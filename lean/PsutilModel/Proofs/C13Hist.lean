/-
  Proofs/C13Hist.lean — the bridge between the spec-side history `specHist` (Spec/C13.lean: over
  the RECORDS of /proc/meminfo, with `specPercent` and `memTotal`) and the model's `runP` over the
  rendered texts.
-/
import PsutilModel.Proofs.C13Pct
namespace Psutil.C13
open Psutil Psutil.C13.Spec

def SOp.toP : SOp → POp
  | .setMeminfo ls => .setMeminfo (renderMeminfo ls)
  | .vm => .vm
  | .pct mt => .pct mt

def SOut.toP : SOut → POut
  | .none => .none
  | .total t => .total (.ok t)
  | .pct r => .pct (.ok r)
  | .valueError => .pct (.error .valueError)

theorem lookup_zip_none (ks : List String) (vs : List Nat) (k : String) (hlen : ks.length ≤ vs.length)
    (h : (ks.zip vs).lookup k = none) : k ∉ ks := by
  induction ks generalizing vs with
  | nil => simp
  | cons a t ih =>
    cases vs with
    | nil => simp at hlen
    | cons b vs' =>
      simp only [List.zip_cons_cons, List.lookup] at h
      cases hk : (k == a) with
      | true => simp [hk] at h
      | false =>
        simp only [hk] at h
        have hne : k ≠ a := by simpa using hk
        simp only [List.mem_cons, not_or]
        exact ⟨hne, ih vs' (by simpa using hlen) h⟩

theorem runP_specHist (c : Cfg) (hg : c.Good) (pc : PCfg) (hp : pc.Good) (vals : List Nat) (u p s : Nat)
    (hlen : vals.length = 7) (ops : List SOp)
    (hops : ∀ ls, SOp.setMeminfo ls ∈ ops → wfMeminfo ls = true) (cur : List KV)
    (hcur : wfMeminfo cur = true) (last : Option Nat) :
    runP c pc (.ok vals) (.ok (vals ++ [u, p, s])) (ops.map SOp.toP) (renderMeminfo cur) ⟨last⟩
      = (specHist (fun mt => (pfullmemNames.zip (vals ++ [u, p, s])).lookup mt) ops cur last).map SOut.toP := by
  induction ops generalizing cur last with
  | nil => rfl
  | cons op ops ih =>
    have hops' : ∀ ls, SOp.setMeminfo ls ∈ ops → wfMeminfo ls = true :=
      fun ls h => hops ls (List.mem_cons_of_mem _ h)
    have hT := vmTotal_rendered pc hp cur hcur
    cases op with
    | setMeminfo ls =>
      simp only [List.map_cons, SOp.toP, runP, specHist, SOut.toP]
      rw [ih hops' ls (hops ls (by simp)) last]
    | vm =>
      simp only [List.map_cons, SOp.toP, runP, specHist, SOut.toP, virtualMemory, hT, hp.vmStoresTotal, if_true]
      rw [ih hops' cur hcur (some (memTotal cur))]
    | pct mt =>
      simp only [List.map_cons, SOp.toP, runP, specHist]
      cases hv : (pfullmemNames.zip (vals ++ [u, p, s])).lookup mt with
      | none =>
        have hbad : mt ∉ pfullmemNames :=
          lookup_zip_none _ _ _ (by simp [pfullmemNames, pmemNames, hlen]) hv
        rw [pct_value_error c pc mt _ _ _ _ _ (pctValue_bad c hg mt _ _ hbad)]
        simp only [List.map_cons, SOut.toP]
        rw [ih hops' cur hcur last]
      | some v =>
        have hval := pctValue_ok c hg mt vals u p s hlen v hv
        simp only [List.map_cons]
        by_cases hl : last = none ∨ last = some 0
        · rw [pct_fresh c pc hp mt _ _ _ ⟨last⟩ hl (memTotal cur) hT v hval]
          have ht : totalInUse last (memTotal cur) = memTotal cur := by
            rcases hl with h | h <;> simp [h, totalInUse]
          rw [ht]
          rw [ih hops' cur hcur (some (memTotal cur))]
          congr 1
          by_cases h0 : 0 < memTotal cur
          · rw [pctOf_pos v _ h0, if_pos h0]; rfl
          · have : memTotal cur = 0 := by omega
            rw [this, pctOf_zero]; rfl
        · cases last with
          | none => exact absurd (Or.inl rfl) hl
          | some t =>
            have ht0 : t ≠ 0 := fun e => hl (Or.inr (by rw [e]))
            rw [pct_cache_wins c pc hp mt _ _ _ t ht0, hval]
            have ht : totalInUse (some t) (memTotal cur) = t := by simp [totalInUse, ht0]
            simp only [answer]
            rw [ht]
            rw [ih hops' cur hcur (some t)]
            congr 1
            have hpos : 0 < t := Nat.pos_of_ne_zero ht0
            rw [pctOf_pos v _ hpos, if_pos hpos]; rfl

end Psutil.C13
