/- Proofs/C03CauseU.lean — "the class matches the cause", exhaustive runs over the enumerated property plans
   (`decide +kernel`), source WITHOUT the is_running() repair. Statements: Proofs/C03Tables.lean / Props/C03.lean. -/
import PsutilModel.Proofs.C03Tables
namespace Psutil.C03
open Spec

set_option maxRecDepth 100000 in
theorem cause_plain_u (r : Bool) : ∀ nm ∈ causePlain, CauseHolds ⟨r, false⟩ w0 nm 12 := by
  cases r <;> decide +kernel

set_option maxRecDepth 100000 in
theorem cause_probe_u (r : Bool) : ∀ x ∈ causeProbe, CauseBut ⟨r, false⟩ w0 x.1 12 x.2 ∧ CauseBut ⟨r, false⟩ wc x.1 16 x.2 := by
  cases r <;> decide +kernel

set_option maxRecDepth 100000 in
/-- the witness: ppid() of the alive, readable 105 under ONE refusal (access 0, the probe's open of /proc/105/stat) -/
theorem cause_witness_u (r : Bool) :
    runK ⟨r, false⟩ w0 "ppid" ⟨w0, alwaysAlive, denyAt 0 .EACCES⟩ = some (.error (.nsp 105), 1) ∧
    runK ⟨r, false⟩ w0 "children" ⟨w0, alwaysAlive, denyAt 0 .EACCES⟩ = some (.error (.nsp 105), 1) ∧
    runK ⟨r, false⟩ w0 "parent" ⟨w0, alwaysAlive, denyAt 1 .EACCES⟩ = some (.error (.nsp 105), 2) := by
  cases r <;> decide +kernel


set_option maxRecDepth 100000 in
/-- parents() of 105 on 50 ← 101 ← 105 with access 9 refused (the ancestor's own ppid() read): AccessDenied(101), in all
    four configurations -/
theorem parents_ad_witness (b : Host) :
    (Fe.parents (goodCfg b) w1.obj ⟨w1, alwaysAlive, denyAt 9 .EACCES⟩ {}).1 = .error (.ad 101) := by
  rcases b with ⟨_ | _, _ | _⟩ <;> decide +kernel

end Psutil.C03
