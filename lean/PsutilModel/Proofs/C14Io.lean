/-
  Proofs/C14Io.lean — helper lemmas for the io_counters theorems over ARBITRARY file content
  (Model/C14Io.lean against Spec/C14Io.lean).
-/
import PsutilModel.Proofs.C14
import PsutilModel.Spec.C14Io
namespace Psutil.C14
open Spec

/-! ### `int()` on what the kernel prints -/

theorem pyDigits_digits (s : Bytes) (h : ∀ c ∈ s, isDigit c = true) :
    ∀ (pd : Bool) (acc : Nat), (s ≠ [] ∨ pd = true) → pyDigits s pd acc = parseRadixAux decimal s acc := by
  induction s with
  | nil =>
    intro pd acc hne
    rcases hne with hne | hne
    · exact absurd rfl hne
    · simp [pyDigits, parseRadixAux, hne]
  | cons c cs ih =>
    intro pd acc _
    have hc : isDigit c = true := h c (by simp)
    have hv : decimal.val c = some (c - 48) := by
      simp only [isDigit, Bool.and_eq_true, decide_eq_true_eq] at hc
      show (if 48 ≤ c ∧ c ≤ 57 then some (c - 48) else none) = some (c - 48)
      simp [hc]
    simp only [pyDigits, hc, if_true, parseRadixAux, hv]
    exact ih (fun x hx => h x (by simp [hx])) true _ (Or.inr rfl)

theorem pyIntZ_dec (n : Nat) : pyIntZ (renderDec n) = some (n : Int) := by
  unfold pyIntZ
  rw [stripWs_noWs _ (renderDec_noWs n)]
  have hd := renderDec_isDigit n
  have hp := parseDec_renderDec n
  cases h : renderDec n with
  | nil => exact absurd h (renderDec_ne_nil n)
  | cons c cs =>
    rw [h] at hd hp
    have hc : isDigit c = true := hd c (by simp)
    have h43 : c ≠ 43 := by
      intro e; subst e; revert hc; decide
    have h45 : c ≠ 45 := by
      intro e; subst e; revert hc; decide
    have key : pyDigits (c :: cs) false 0 = some n := by
      rw [pyDigits_digits (c :: cs) hd false 0 (Or.inl (by simp))]
      simpa [parseDec?, parseRadix?] using hp
    split
    · rename_i r heq; cases heq; exact absurd rfl h43
    · rename_i r heq; cases heq; exact absurd rfl h45
    · simp [key]

/-! ### `split(b': ')` against "first occurrence of the separator" -/

theorem sep_prefix_iff (c : Nat) (cs : Bytes) :
    List.isPrefixOf sepText (c :: cs) = true ↔ c = 58 ∧ ∃ rest, cs = 32 :: rest := by
  constructor
  · intro h
    cases cs with
    | nil => simp [sepText, List.isPrefixOf] at h
    | cons d ds =>
      simp only [sepText, List.isPrefixOf, Bool.and_eq_true, beq_iff_eq, Bool.and_true] at h
      exact ⟨h.1.symm, ds, by rw [← h.2]⟩
  · rintro ⟨rfl, rest, rfl⟩
    rfl

theorem splitSeqGo_cut (s : Bytes) : ∀ cur, splitSeqGo sepText s 0 cur =
    match cutSep s with
    | none => [cur.reverse ++ s]
    | some (a, rest) => (cur.reverse ++ a) :: splitSeqGo sepText rest 0 [] := by
  induction s with
  | nil => intro cur; simp [splitSeqGo, cutSep]
  | cons c cs ih =>
    intro cur
    cases hp : List.isPrefixOf sepText (c :: cs) with
    | true =>
      obtain ⟨rfl, rest, rfl⟩ := (sep_prefix_iff c cs).mp hp
      simp [splitSeqGo, cutSep, sepText, List.isPrefixOf]
    | false =>
      simp only [splitSeqGo, cutSep, hp, Bool.false_eq_true, if_false]
      rw [ih (c :: cur)]
      cases cutSep cs with
      | none => simp
      | some p => simp

theorem splitSeqGo_ne_nil (s cur : Bytes) : splitSeqGo sepText s 0 cur ≠ [] := by
  rw [splitSeqGo_cut]
  cases cutSep s <;> simp

/-! ### one line -/

def stepOf : Option (Bytes × Int) → Pio.LineStep
  | none => .skip
  | some (n, v) => .set n v

theorem counterOf_nil : counterOf [] = none := rfl

theorem pio_ioLine (c : Cfg) (hg : c.GoodIo) (hgd : c.ioIntGuarded = true) (line : Bytes) :
    Pio.ioLine c line = stepOf (counterOf line) := by
  unfold Pio.ioLine counterOf
  generalize stripWs line = l
  cases l with
  | nil => simp [cutSep, stepOf]
  | cons x xs =>
    simp only [List.isEmpty_cons, Bool.false_eq_true, if_false, hg.ioSep, splitSeq]
    rw [splitSeqGo_cut]
    cases cutSep (x :: xs) with
    | none => simp [stepOf]
    | some p =>
      obtain ⟨a, rest⟩ := p
      simp only [List.reverse_nil, List.nil_append]
      rw [splitSeqGo_cut rest []]
      cases h2 : cutSep rest with
      | none =>
        simp only [List.reverse_nil, List.nil_append, Option.isSome_none, Bool.false_eq_true, if_false]
        cases pyIntZ rest <;> simp [stepOf, hgd]
      | some q =>
        obtain ⟨b, r2⟩ := q
        simp only [List.reverse_nil, List.nil_append, Option.isSome_some, if_true]
        have hne := splitSeqGo_ne_nil r2 []
        cases h3 : splitSeqGo sepText r2 0 [] with
        | nil => exact absurd h3 hne
        | cons y ys => simp [stepOf]

theorem pio_ioFields (c : Cfg) (hg : c.GoodIo) (hgd : c.ioIntGuarded = true) (ls : List Bytes) :
    ∀ acc, Pio.ioFields c ls acc = .ok ((ls.filterMap counterOf).reverse ++ acc) := by
  induction ls with
  | nil => intro acc; rfl
  | cons l ls ih =>
    intro acc
    simp only [Pio.ioFields, pio_ioLine c hg hgd l]
    cases h : counterOf l with
    | none => simp [stepOf, h, ih]
    | some p => obtain ⟨n, v⟩ := p; simp [stepOf, h, ih]

/-! ### lines -/

theorem filterMap_linesOf (s : Bytes) :
    (linesOf s).filterMap counterOf = (splitOn 10 s).filterMap counterOf := by
  unfold linesOf
  have hrr : splitOn 10 s = (splitOn 10 s).reverse.reverse := (List.reverse_reverse _).symm
  rw [hrr]
  generalize (splitOn 10 s).reverse = r
  rw [List.reverse_reverse]
  cases r with
  | nil => rfl
  | cons x rest =>
    cases x with
    | nil => simp [counterOf_nil]
    | cons y ys => simp

theorem splitOn_fileOf (ls : List Bytes) (h : ∀ l ∈ ls, 10 ∉ l) :
    splitOn 10 (fileOf ls) = ls ++ [[]] := by
  induction ls with
  | nil => rfl
  | cons l ls ih =>
    simp only [fileOf, List.cons_append]
    rw [splitOn_append 10 _ _ (h l (by simp)), ih (fun x hx => h x (by simp [hx]))]

theorem contentKvs_fileOf (ls : List Bytes) (h : ∀ l ∈ ls, 10 ∉ l) :
    contentKvs (fileOf ls) = ls.filterMap counterOf := by
  unfold contentKvs
  rw [splitOn_fileOf ls h]
  simp [counterOf_nil]

/-! ### the dict: a later binding overrides an earlier one -/

theorem lookup_reverse_last (l : List (Bytes × Int)) (k : Bytes) :
    l.reverse.lookup k = lastValue k l := by
  induction l with
  | nil => rfl
  | cons a as ih =>
    obtain ⟨n, v⟩ := a
    rw [List.reverse_cons, List.lookup_append, ih]
    simp only [lastValue]
    cases lastValue k as with
    | some w => simp
    | none =>
      cases hk : (k == n) <;> simp [List.lookup, hk]

theorem lookupAll_eq_pickLast (l : List (Bytes × Int)) (ks : List Bytes) :
    Pio.lookupAll l.reverse ks = pickLast l ks := by
  induction ks with
  | nil => rfl
  | cons k ks ih =>
    simp only [Pio.lookupAll, pickLast, lookup_reverse_last l k, ih]
    cases lastValue k l <;> cases pickLast l ks <;> rfl

/-! ### the whole call -/

theorem pio_ioCounters_content (c : Cfg) (hg : c.GoodIo) (hgd : c.ioIntGuarded = true)
    (alive zombie : Bool) (content : Bytes) :
    Pio.ioCounters c alive (.ok content) zombie = expectedIoContent content := by
  unfold Pio.ioCounters Pio.ioCountersBody expectedIoContent contentKvs
  simp only [pio_ioFields c hg hgd (linesOf content) [], List.append_nil, List.isEmpty_reverse,
    filterMap_linesOf, hg.ioKeys, lookupAll_eq_pickLast]
  cases hk : ((splitOn 10 content).filterMap counterOf).isEmpty with
  | true => rfl
  | false =>
    simp only [Bool.false_eq_true, if_false]
    cases pickLast ((splitOn 10 content).filterMap counterOf) documentedKeys <;> rfl

/-! ### dropping lines that are not counter lines / counters nobody asks for -/

theorem lastValue_append (k : Bytes) (a b : List (Bytes × Int)) :
    lastValue k (a ++ b) = (lastValue k b).or (lastValue k a) := by
  induction a with
  | nil => simp only [List.nil_append, lastValue]; cases lastValue k b <;> rfl
  | cons x xs ih =>
    obtain ⟨n, v⟩ := x
    simp only [List.cons_append, lastValue, ih]
    cases lastValue k b <;> cases lastValue k xs <;> simp

theorem lastValue_insert_other (k : Bytes) (a b : List (Bytes × Int)) (n : Bytes) (v : Int)
    (h : (k == n) = false) : lastValue k (a ++ (n, v) :: b) = lastValue k (a ++ b) := by
  rw [lastValue_append, lastValue_append]
  simp only [lastValue, h]
  cases lastValue k b <;> simp

theorem pickLast_insert_other (ks : List Bytes) (a b : List (Bytes × Int)) (n : Bytes) (v : Int)
    (h : n ∉ ks) : pickLast (a ++ (n, v) :: b) ks = pickLast (a ++ b) ks := by
  induction ks with
  | nil => rfl
  | cons k ks ih =>
    have hk : (k == n) = false := by
      simp only [List.mem_cons, not_or] at h
      simpa using fun e : k = n => h.1 e.symm
    simp only [pickLast, lastValue_insert_other k a b n v hk, ih (fun m => h (by simp [m]))]

/-! ### well-formed item lists (round 1 theorems, now over the signed model) -/

/-- what one line of a well-formed file does to `fields` -/
def itemStep (guarded : Bool) : Item → Pio.LineStep
  | .kv n v => .set n v
  | .blank _ => .skip
  | .junk _ => .skip
  | .badval _ _ => if guarded then .skip else .raise .valueError

theorem kv_text_no_nl (name : Bytes) (hn : NoWs name) (val : Nat) : 10 ∉ name ++ sepText ++ renderDec val := by
  simp only [List.mem_append, not_or]
  refine ⟨⟨?_, by decide⟩, renderDec_not_mem val 10 (by decide)⟩
  intro hm
  have := hn 10 hm
  simp [isWs] at this

theorem item_text_no_nl (it : Item) (h : WFItem it) : 10 ∉ it.text := by
  cases it with
  | kv name val => exact kv_text_no_nl name h.2.2 val
  | blank ws => exact h.2
  | junk s => exact h.1
  | badval name val =>
    obtain ⟨⟨_, _, hn⟩, _, _, hv, _⟩ := h
    simp only [Item.text, List.mem_append, not_or]
    refine ⟨⟨?_, by decide⟩, ?_⟩
    · intro hm; have := hn 10 hm; simp [isWs] at this
    · intro hm; have := hv 10 hm; simp [isWs] at this

/-- `ioLine` after the `strip()` -/
def ioLineCore (c : Cfg) (l : Bytes) : Pio.LineStep :=
  if l.isEmpty then .skip
  else
    match splitSeq c.ioSep l with
    | [name, value] =>
      match pyIntZ value with
      | some v => .set name v
      | none => if c.ioIntGuarded then .skip else .raise .valueError
    | _ => .skip

theorem ioLine_core (c : Cfg) (line : Bytes) : Pio.ioLine c line = ioLineCore c (stripWs line) := rfl

theorem ioLine_item (c : Cfg) (hg : c.GoodIo) (it : Item) (h : WFItem it) :
    Pio.ioLine c it.text = itemStep c.ioIntGuarded it := by
  rw [ioLine_core]
  cases it with
  | kv name val =>
    obtain ⟨hne, hcol, hn⟩ := h
    simp only [Item.text, itemStep]
    rw [stripWs_ends name sepText (renderDec val) hne hn (renderDec_ne_nil val) (renderDec_noWs val)]
    have hnonempty : (name ++ sepText ++ renderDec val).isEmpty = false := by
      cases name with
      | nil => exact absurd rfl hne
      | cons x xs => rfl
    unfold ioLineCore
    rw [hnonempty, hg.ioSep, splitSeq_one name (renderDec val) hcol (renderDec_not_mem val 58 (by decide))]
    simp [pyIntZ_dec]
  | blank ws =>
    simp only [Item.text, itemStep, stripWs_allWs ws h.1]
    rfl
  | junk s =>
    simp only [Item.text, itemStep]
    have hs := containsSeq_strip s h.2
    unfold ioLineCore
    rw [hg.ioSep]
    cases hl : stripWs s with
    | nil => rfl
    | cons x xs =>
      rw [hl] at hs
      have := splitSeqGo_none (x :: xs) [] hs
      simp only [List.reverse_nil, List.nil_append] at this
      simp [splitSeq, this]
  | badval name val =>
    obtain ⟨⟨hne, hcol, hn⟩, hvne, hvcol, hvn, hbad⟩ := h
    simp only [Item.text, itemStep]
    rw [stripWs_ends name sepText val hne hn hvne hvn]
    have hnonempty : (name ++ sepText ++ val).isEmpty = false := by
      cases name with
      | nil => exact absurd rfl hne
      | cons x xs => rfl
    unfold ioLineCore
    rw [hnonempty, hg.ioSep, splitSeq_one name val hcol hvcol]
    simp [hbad]

theorem ioFields_items (c : Cfg) (hg : c.GoodIo) (hgd : c.ioIntGuarded = true) (its : List Item)
    (h : ∀ it ∈ its, WFItem it) :
    ∀ acc, Pio.ioFields c (its.map Item.text) acc = .ok ((kvs its).reverse ++ acc) := by
  induction its with
  | nil => intro acc; rfl
  | cons it its ih =>
    intro acc
    have hi := ioLine_item c hg it (h it (by simp))
    have ih' := ih (fun x hx => h x (by simp [hx]))
    simp only [List.map_cons, Pio.ioFields, hi, hgd]
    cases it <;> simp [itemStep, kvs, ih']

theorem lookup_none_of_not_mem (l : List (Bytes × Int)) (k : Bytes) (h : k ∉ l.map (·.1)) :
    l.lookup k = none := by
  induction l with
  | nil => rfl
  | cons a as ih =>
    simp only [List.map_cons, List.mem_cons, not_or] at h
    have : (k == a.1) = false := by simpa using h.1
    simp [List.lookup, this, ih h.2]

theorem lookup_reverse_nodup (l : List (Bytes × Int)) (k : Bytes) (h : (l.map (·.1)).Nodup) :
    l.reverse.lookup k = l.lookup k := by
  induction l with
  | nil => rfl
  | cons a as ih =>
    simp only [List.map_cons, List.nodup_cons] at h
    rw [List.reverse_cons, List.lookup_append, ih h.2]
    cases hk : (k == a.1) with
    | true =>
      have e : k = a.1 := by simpa using hk
      have hn := lookup_none_of_not_mem as k (by rw [e]; exact h.1)
      simp [List.lookup, hk, hn]
    | false =>
      simp [List.lookup, hk]

theorem lookupAll_eq_pick (l : List (Bytes × Int)) (h : (l.map (·.1)).Nodup) (ks : List Bytes) :
    Pio.lookupAll l.reverse ks = pick l ks := by
  induction ks with
  | nil => rfl
  | cons k ks ih =>
    simp only [Pio.lookupAll, pick, lookup_reverse_nodup l k h, ih]
    cases List.lookup k l <;> cases pick l ks <;> rfl

theorem ioCounters_items (c : Cfg) (hg : c.GoodIo) (hgd : c.ioIntGuarded = true) (its : List Item)
    (h : ∀ it ∈ its, WFItem it) (hd : DistinctKeys its) :
    Pio.ioCounters c true (.ok (renderItems its)) = expectedIo its := by
  unfold Pio.ioCounters Pio.ioCountersBody expectedIo
  simp only [linesOf_renderItems its (fun it hi => item_text_no_nl it (h it hi)),
    ioFields_items c hg hgd its h [], List.append_nil, List.isEmpty_reverse, hg.ioKeys,
    lookupAll_eq_pick _ hd]
  cases hk : (kvs its).isEmpty with
  | true => rfl
  | false =>
    simp only [Bool.false_eq_true, if_false]
    cases pick (kvs its) documentedKeys <;> rfl

theorem kvs_filter (its : List Item) : kvs (its.filter Item.isKv) = kvs its := by
  induction its with
  | nil => rfl
  | cons it its ih => cases it <;> simp [List.filter_cons, Item.isKv, kvs, ih]

/-! ### counting: listed + unlisted = all -/

theorem length_filterMap_add {α β : Type} (f : α → Option β) (l : List α) :
    (l.filterMap f).length + (l.filter fun a => (f a).isNone).length = l.length := by
  induction l with
  | nil => rfl
  | cons a as ih =>
    cases h : f a <;> simp [List.filterMap_cons, List.filter_cons, h] <;> omega

end Psutil.C14
