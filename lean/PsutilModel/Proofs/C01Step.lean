/-
  Proofs/C01Step.lean — every event of a history keeps the invariant; what a signal / setter call
  can append to the effect log.  Shared by Props/C01.lean and Props/C02.lean.
-/
import PsutilModel.Proofs.C01Inv
namespace Psutil.C01
open Spec

/-! ### shape of `step` on method calls -/

theorem method_some (c : Cfg) (k : Kernel) (ps : Ps) (o : PObj) {call : Call} {i : Nat}
    (ht : call.target = some i) : ∃ r, method c k ps o call = some r := by
  cases call <;> simp [Call.target] at ht <;> exact ⟨_, rfl⟩

theorem step_no_target (c : Cfg) (s : St) {call : Call} (ht : call.target = none) :
    (step c s (.c call)).1.log = s.log ∧ (step c s (.c call)).1.kern = s.kern := by
  cases call <;> simp [Call.target] at ht <;> simp only [step] <;> (repeat' split) <;>
    first | exact ⟨rfl, rfl⟩ | simp

theorem step_bad_index (c : Cfg) (s : St) {call : Call} {i : Nat} (ht : call.target = some i)
    (ho : s.ps.objs[i]? = none) : step c s (.c call) = (s, .exc .badCall) := by
  cases call <;> simp [Call.target] at ht <;> subst ht <;> simp [step, Call.target, ho]

theorem step_method (c : Cfg) (s : St) {call : Call} {i : Nat} {o : PObj} {r : MRes}
    (ht : call.target = some i) (ho : s.ps.objs[i]? = some o) (hm : method c s.kern s.ps o call = some r) :
    step c s (.c call) =
      (⟨s.kern, setObj r.ps i r.o, pushEff i s.log r.eff⟩, r.out) := by
  cases call <;> simp [Call.target] at ht <;> subst ht <;> simp [step, Call.target, ho, hm]

/-! ### the invariant -/

structure Inv (clk : Nat) (s : St) : Prop where
  kern : KInv s.kern
  ps : PInv clk s.kern s.ps

def Ev.OK : Ev → Prop
  | .k e => e.OK
  | .c _ => True

theorem PInv.congr {clk : Nat} {k : Kernel} {ps ps' : Ps} (h : PInv clk k ps)
    (hb : ps'.bootTime = ps.bootTime) (ho : ps'.objs = ps.objs) : PInv clk k ps' :=
  ⟨fun B hB => h.boot_nz B (hb ▸ hB), fun o hm => by
    rw [ho] at hm; rw [hb]; exact h.objs o hm⟩

theorem PInv.objs_nil_of_none {clk : Nat} {k : Kernel} {ps : Ps} (h : PInv clk k ps)
    (hb : ps.bootTime = none) : ps.objs = [] := by
  cases ho : ps.objs with
  | nil => rfl
  | cons a as =>
    obtain ⟨B, hB, _⟩ := h.objs a (by rw [ho]; exact List.mem_cons_self)
    rw [hb] at hB; cases hB

/-- initialising `BOOT_TIME` while no object exists keeps the invariant -/
theorem PInv.setBoot {clk : Nat} {k : Kernel} {ps : Ps} (h : PInv clk k ps)
    (hb : ps.bootTime = none) {b : Nat} (hnz : b ≠ 0) : PInv clk k { ps with bootTime := some b } :=
  ⟨fun B hB => by cases hB; exact hnz, fun o hm => by
    have : ps.objs = [] := h.objs_nil_of_none hb
    simp only [this] at hm; cases hm⟩

theorem bootForCreate_inv {c : Cfg} (hc : c.BootGood) {k : Kernel} {ps : Ps} (hk : k.btime ≠ 0)
    (h : PInv c.clk k ps) :
    PInv c.clk k (bootForCreate c k ps).1 ∧ (bootForCreate c k ps).1.objs = ps.objs
      ∧ (bootForCreate c k ps).1.bootTime = some (bootForCreate c k ps).2 ∧ (bootForCreate c k ps).2 ≠ 0
      ∧ (∀ B, ps.bootTime = some B → (bootForCreate c k ps).1.bootTime = some B) := by
  cases hb : ps.bootTime with
  | none =>
    rw [bootForCreate_none hc hb]
    exact ⟨h.setBoot hb hk, rfl, rfl, hk, fun B hB => by cases hB⟩
  | some B =>
    rw [bootForCreate_some hc hb (h.boot_nz B hb)]
    exact ⟨h, rfl, hb, h.boot_nz B hb, fun B' hB' => by cases hB'; exact hb⟩

theorem bootTimeCall_inv {c : Cfg} (hc : c.BootGood) {k : Kernel} {ps : Ps} (hk : k.btime ≠ 0)
    (h : PInv c.clk k ps) :
    PInv c.clk k (bootTimeCall c k ps).1 ∧ (bootTimeCall c k ps).1.objs = ps.objs := by
  cases hb : ps.bootTime with
  | none => rw [bootTimeCall_none hb]; exact ⟨h.setBoot hb hk, rfl⟩
  | some B => rw [bootTimeCall_some hc hb]; exact ⟨h, rfl⟩

theorem PInv.setObj {clk : Nat} {k : Kernel} {ps ps' : Ps} {B : Nat} {o' : PObj} (h : PInv clk k ps)
    (hs : PsSame ps ps') (hb : ps.bootTime = some B) (ho : ObjOK clk k B o') (i : Nat) :
    PInv clk k (setObj ps' i o') :=
  ⟨fun B' hB' => h.boot_nz B' (by simpa [C01.setObj, hs.boot] using hB'), fun o hm => by
    simp only [C01.setObj] at hm ⊢
    rcases List.mem_or_eq_of_mem_set hm with hm | rfl
    · rw [hs.objs] at hm; rw [hs.boot]; exact h.objs o hm
    · exact ⟨B, by rw [hs.boot]; exact hb, ho⟩⟩

theorem mkObj_inv {c : Cfg} (hc : c.BootGood) {k : Kernel} {ps : Ps} (hk : KInv k) (h : PInv c.clk k ps)
    (pid : Nat) :
    match mkObj c k ps pid with
    | (ps', none) => ps' = ps ∧ k.find pid = none
    | (ps', some o) => PInv c.clk k { ps' with objs := ps'.objs ++ [o] } ∧ ps'.objs = ps.objs
        ∧ o.pid = pid ∧ k.owner pid = some o.ghost ∧ o.gone = false ∧ o.reused = false := by
  unfold mkObj
  cases hf : k.find pid with
  | none => exact ⟨rfl, rfl⟩
  | some x =>
    obtain ⟨hp, hobjs, hbt, hnz, _⟩ := bootForCreate_inv hc hk.btime h
    refine ⟨⟨hp.boot_nz, ?_⟩, hobjs, rfl, by simp [Kernel.owner, hf], rfl, rfl⟩
    intro o hm
    rcases List.mem_append.1 hm with hm | hm
    · exact hp.objs o hm
    · simp only [List.mem_singleton] at hm
      subst hm
      exact ⟨_, hbt, ⟨hk.find_lt hf, rfl, fun hd => by simp at hd⟩⟩

theorem processIter_inv {c : Cfg} (hc : c.BootGood) {k : Kernel} {ps : Ps} (hk : k.btime ≠ 0)
    (h : PInv c.clk k ps) :
    PInv c.clk k (processIter c k ps).1 ∧ (processIter c k ps).1.objs = ps.objs := by
  obtain ⟨hp, hobjs, _⟩ := bootForCreate_inv hc hk h
  unfold processIter
  dsimp only
  split
  · exact ⟨h.congr rfl rfl, rfl⟩
  · exact ⟨hp.congr rfl rfl, hobjs⟩

theorem method_inv {c : Cfg} (hc : c.BootGood) {s : St} (h : Inv c.clk s) {call : Call} {i : Nat} {o : PObj}
    {r : MRes} (ho : s.ps.objs[i]? = some o) (hm : method c s.kern s.ps o call = some r) :
    PInv c.clk s.kern (setObj r.ps i r.o) ∧ Evolves o r.o ∧ r.ps.objs = s.ps.objs := by
  obtain ⟨B, hb, hok⟩ := h.ps.objs o (List.mem_of_getElem? ho)
  have hk := method_keeps hc hb (h.ps.boot_nz B hb) hok hm
  exact ⟨h.ps.setObj hk.same hb hk.ok i, hk.evo, hk.same.objs⟩

theorem step_inv {c : Cfg} (hc : c.BootGood) (s : St) (ev : Ev) (hev : ev.OK) (h : Inv c.clk s) :
    Inv c.clk (step c s ev).1 := by
  cases ev with
  | k e => exact ⟨h.kern.apply e hev, h.ps.apply e⟩
  | c call =>
    cases htg : call.target with
    | some i =>
      cases ho : s.ps.objs[i]? with
      | none => rw [step_bad_index c s htg ho]; exact h
      | some o =>
        obtain ⟨r, hm⟩ := method_some c s.kern s.ps o htg
        rw [step_method c s htg ho hm]
        exact ⟨h.kern, (method_inv hc h ho hm).1⟩
    | none =>
      cases call <;> simp [Call.target] at htg <;> simp only [step]
      · -- newObj
        rename_i pid
        split
        · split <;> exact h
        · have := mkObj_inv hc h.kern h.ps pid.toNat
          split
          · rename_i ps' heq; rw [heq] at this; rw [this.1]; exact h
          · rename_i ps' o heq; rw [heq] at this; exact ⟨h.kern, this.1⟩
      · exact ⟨h.kern, (bootTimeCall_inv hc h.kern.btime h.ps).1⟩
      · split <;> exact h
      · exact ⟨h.kern, (processIter_inv hc h.kern.btime h.ps).1⟩

def HistOK (h : List Ev) : Prop := ∀ e ∈ h, e.OK

theorem run_inv {c : Cfg} (hc : c.BootGood) (h : List Ev) : ∀ (s : St), HistOK h → Inv c.clk s →
    Inv c.clk (run c s h) := by
  induction h with
  | nil => intro s _ hi; exact hi
  | cons e es ih =>
    intro s hok hi
    exact ih _ (fun x hx => hok x (List.mem_cons_of_mem _ hx)) (step_inv hc s e (hok e List.mem_cons_self) hi)

theorem init_inv (clk : Nat) {b : Nat} (hb : b ≠ 0) : Inv clk (St.init b) :=
  ⟨⟨by simp [St.init], fun x hx => by simp [St.init] at hx, hb⟩,
   ⟨fun B hB => by simp [St.init] at hB, fun o ho => by simp [St.init] at ho⟩⟩

end Psutil.C01
