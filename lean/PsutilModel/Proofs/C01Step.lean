/-
  Proofs/C01Step.lean — every event of a history keeps the invariant; what a signal / setter call
  can append to the effect log.  Shared by Props/C01.lean and Props/C02.lean.
-/
import PsutilModel.Proofs.C01Inv
namespace Psutil.C01
variable {nt : Bool}
open Spec

/-! ### shape of `step` on method calls -/

theorem method_some (c : Cfg) (k : Kernel) (ps : Ps) (o : PObj) {call : Call} {i : Nat}
    (ht : call.target = some i) : ∃ r, method c k ps o call = some r := by
  cases call <;> simp [Call.target] at ht <;> exact ⟨_, rfl⟩

theorem step_no_target (c : Cfg) (s : St) {call : Call} (ht : call.target = none) :
    (step c s (.c call)).1.log = s.log ∧ (step c s (.c call)).1.kern = s.kern := by
  cases call <;> simp [Call.target] at ht <;> simp only [step] <;> (repeat' split) <;>
    first | exact ⟨rfl, rfl⟩ | simp

theorem step_bad_index (c : Cfg) (s : St) {call : Call} {i : Nat} (ht : call.target = some i)
    (ho : s.ps.objs[i]? = none) : step c s (.c call) = (s, .exc .badCall) := by
  cases call <;> simp [Call.target] at ht <;> subst ht <;> simp [step, Call.target, ho]

theorem step_method (c : Cfg) (s : St) {call : Call} {i : Nat} {o : PObj} {r : MRes}
    (ht : call.target = some i) (ho : s.ps.objs[i]? = some o) (hm : method c s.kern s.ps o call = some r) :
    step c s (.c call) =
      (⟨s.kern, setObj r.ps i r.o, pushEff i s.log r.eff⟩, r.out) := by
  cases call <;> simp [Call.target] at ht <;> subst ht <;> simp [step, Call.target, ho, hm]

/-! ### the invariant -/

structure Inv (nt : Bool) (clk : Nat) (s : St) : Prop where
  kern : KInv nt s.kern
  ps : PInv nt clk s.kern s.ps

def Ev.OK (ev : Ev) (nt : Bool) : Prop :=
  match ev with
  | .k e => e.OK nt
  | .c _ => True

theorem PInv.congr {clk : Nat} {k : Kernel} {ps ps' : Ps} (h : PInv nt clk k ps)
    (hb : ps'.bootTime = ps.bootTime) (ho : ps'.objs = ps.objs)
    (hp : ∀ e ∈ ps'.pmap, ∃ o, ps.objs[e.2]? = some o ∧ o.pid = e.1) : PInv nt clk k ps' :=
  ⟨fun B hB => h.boot_nz B (hb ▸ hB), fun o hm => by
    rw [ho] at hm; rw [hb]; exact h.objs o hm, fun e he => by rw [ho]; exact hp e he⟩

theorem PInv.objs_nil_of_none {clk : Nat} {k : Kernel} {ps : Ps} (h : PInv nt clk k ps)
    (hb : ps.bootTime = none) : ps.objs = [] := by
  cases ho : ps.objs with
  | nil => rfl
  | cons a as =>
    obtain ⟨B, hB, _⟩ := h.objs a (by rw [ho]; exact List.mem_cons_self)
    rw [hb] at hB; cases hB

/-- initialising `BOOT_TIME` while no object exists keeps the invariant -/
theorem PInv.setBoot {clk : Nat} {k : Kernel} {ps : Ps} (h : PInv nt clk k ps)
    (hb : ps.bootTime = none) {b : Nat} (hnz : BtOK nt b) : PInv nt clk k { ps with bootTime := some b } :=
  ⟨fun B hB => by cases hB; exact hnz, fun o hm => by
    (have : ps.objs = [] := h.objs_nil_of_none hb
     simp only [this] at hm; cases hm), h.pmap⟩

theorem bootTimeCall_pmap (c : Cfg) (k : Kernel) (ps : Ps) :
    (bootTimeCall c k ps).1.pmap = ps.pmap ∧ (bootTimeCall c k ps).1.objs = ps.objs := by
  unfold bootTimeCall; split <;> exact ⟨rfl, rfl⟩

theorem bootForCreate_pmap (c : Cfg) (k : Kernel) (ps : Ps) :
    (bootForCreate c k ps).1.pmap = ps.pmap ∧ (bootForCreate c k ps).1.objs = ps.objs := by
  unfold bootForCreate
  split
  · split
    · split
      · exact ⟨rfl, rfl⟩
      · exact bootTimeCall_pmap c k ps
    · exact bootTimeCall_pmap c k ps
  · exact bootTimeCall_pmap c k ps

theorem bootForCreate_inv {c : Cfg} (hc : c.BootGood) {k : Kernel} {ps : Ps} (hk : BtOK c.createNoneTest k.btime)
    (h : PInv c.createNoneTest c.clk k ps) :
    PInv c.createNoneTest c.clk k (bootForCreate c k ps).1 ∧ (bootForCreate c k ps).1.objs = ps.objs
      ∧ (bootForCreate c k ps).1.bootTime = some (bootForCreate c k ps).2 ∧ BtOK c.createNoneTest (bootForCreate c k ps).2
      ∧ (∀ B, ps.bootTime = some B → (bootForCreate c k ps).1.bootTime = some B) := by
  cases hb : ps.bootTime with
  | none =>
    rw [bootForCreate_none hc hb]
    exact ⟨h.setBoot hb hk, rfl, rfl, hk, fun B hB => by cases hB⟩
  | some B =>
    rw [bootForCreate_some hc hb (h.boot_nz B hb)]
    exact ⟨h, rfl, hb, h.boot_nz B hb, fun B' hB' => by cases hB'; exact hb⟩

theorem bootTimeCall_inv {c : Cfg} (hc : c.BootGood) {k : Kernel} {ps : Ps} (hk : BtOK c.createNoneTest k.btime)
    (h : PInv c.createNoneTest c.clk k ps) :
    PInv c.createNoneTest c.clk k (bootTimeCall c k ps).1 ∧ (bootTimeCall c k ps).1.objs = ps.objs := by
  cases hb : ps.bootTime with
  | none => rw [bootTimeCall_none hb]; exact ⟨h.setBoot hb hk, rfl⟩
  | some B => rw [bootTimeCall_some hc hb]; exact ⟨h, rfl⟩

theorem PInv.setObj {clk : Nat} {k : Kernel} {ps ps' : Ps} {B : Nat} {o o' : PObj} (h : PInv nt clk k ps)
    (hs : PsSame ps ps') (hb : ps.bootTime = some B) (ho : ObjOK clk k B o') {i : Nat}
    (hi : ps.objs[i]? = some o) (hpid : o'.pid = o.pid) :
    PInv nt clk k (setObj ps' i o') :=
  ⟨fun B' hB' => h.boot_nz B' (by simpa [C01.setObj, hs.boot] using hB'), fun o hm => by
    simp only [C01.setObj] at hm ⊢
    rcases List.mem_or_eq_of_mem_set hm with hm | rfl
    · rw [hs.objs] at hm; rw [hs.boot]; exact h.objs o hm
    · exact ⟨B, by rw [hs.boot]; exact hb, ho⟩, fun e he => by
    simp only [C01.setObj, hs.pmap, hs.objs] at he ⊢
    obtain ⟨x, hx, hxp⟩ := h.pmap e he
    by_cases hij : i = e.2
    · subst hij
      rw [hi] at hx; cases hx
      have hlt : e.2 < ps.objs.length := by
        rcases Nat.lt_or_ge e.2 ps.objs.length with h' | h'
        · exact h'
        · rw [List.getElem?_eq_none h'] at hi; cases hi
      exact ⟨o', List.getElem?_set_self hlt, hpid.trans hxp⟩
    · exact ⟨x, by rw [List.getElem?_set_ne hij]; exact hx, hxp⟩⟩

theorem mkObj_inv {c : Cfg} (hc : c.BootGood) {k : Kernel} {ps : Ps} (hk : KInv c.createNoneTest k) (h : PInv c.createNoneTest c.clk k ps)
    (pid : Nat) :
    match mkObj c k ps pid with
    | (ps', none) => ps' = ps ∧ k.find pid = none
    | (ps', some o) => PInv c.createNoneTest c.clk k { ps' with objs := ps'.objs ++ [o] } ∧ ps'.objs = ps.objs
        ∧ o.pid = pid ∧ k.owner pid = some o.ghost ∧ o.gone = false ∧ o.reused = false
        ∧ ps'.pmap = ps.pmap ∧ (∀ B, ps.bootTime = some B → ps'.bootTime = some B) := by
  unfold mkObj
  cases hf : k.find pid with
  | none => exact ⟨rfl, rfl⟩
  | some x =>
    dsimp only
    rw [if_neg (by simp [isHidden_false hk.nohide])]
    obtain ⟨hp, hobjs, hbt, hnz, hkeep⟩ := bootForCreate_inv hc hk.btime h
    refine ⟨⟨hp.boot_nz, ?_, ?_⟩, hobjs, rfl, by simp [Kernel.owner, hf], rfl, rfl,
      (bootForCreate_pmap c k ps).1, hkeep⟩
    · intro o hm
      rcases List.mem_append.1 hm with hm | hm
      · exact hp.objs o hm
      · simp only [List.mem_singleton] at hm
        subst hm
        exact ⟨_, hbt, ⟨hk.find_lt hf, by simp only [hk.stamp x (List.mem_of_find?_eq_some hf)], rfl,
          fun hd => by simp at hd, hk.nohide, hk.stamp⟩⟩
    · intro e he
      obtain ⟨x', hx', hxp⟩ := hp.pmap e he
      have hlt : e.2 < (bootForCreate c k ps).1.objs.length := by
        rcases Nat.lt_or_ge e.2 (bootForCreate c k ps).1.objs.length with h' | h'
        · exact h'
        · rw [List.getElem?_eq_none h'] at hx'; cases hx'
      exact ⟨x', by simp only; rw [List.getElem?_append_left hlt]; exact hx', hxp⟩

/-! ### `process_iter()` -/

theorem getElem?_lt_of_some {α : Type} {l : List α} {i : Nat} {x : α} (h : l[i]? = some x) : i < l.length := by
  rcases Nat.lt_or_ge i l.length with h' | h'
  · exact h'
  · rw [List.getElem?_eq_none h'] at h; cases h

theorem getElem?_append_of_some {α : Type} {l : List α} {i : Nat} {x : α} (h : l[i]? = some x) (t : List α) :
    (l ++ t)[i]? = some x := by
  rw [List.getElem?_append_left (getElem?_lt_of_some h)]; exact h

theorem pmLookup_mem {pm : List (Nat × Nat)} {p i : Nat} (h : pmLookup pm p = some i) : (p, i) ∈ pm := by
  unfold pmLookup at h
  cases hf : pm.find? (·.1 == p) with
  | none => simp [hf] at h
  | some x =>
    simp only [hf, Option.map_some, Option.some.injEq] at h
    have hm := List.mem_of_find?_eq_some hf
    have hp : x.1 = p := by simpa using List.find?_some hf
    have : x = (p, i) := by cases x; simp_all
    exact this ▸ hm

/-- `Process(pid)` in any state and configuration: nothing but `BOOT_TIME` moves; a new object is built for
    whoever owns the PID now, without sticky flags -/
theorem mkObj_shape (c : Cfg) (k : Kernel) (ps : Ps) (pid : Nat) :
    match mkObj c k ps pid with
    | (ps', none) => ps'.objs = ps.objs ∧ ps'.pmap = ps.pmap
    | (ps', some o) => ps'.objs = ps.objs ∧ ps'.pmap = ps.pmap ∧ o.pid = pid
        ∧ k.owner pid = some o.ghost ∧ o.gone = false ∧ o.reused = false := by
  unfold mkObj
  cases hf : k.find pid with
  | none => exact ⟨rfl, rfl⟩
  | some x =>
    dsimp only
    by_cases hh : k.isHidden pid = true
    · rw [if_pos hh]; exact ⟨rfl, rfl, rfl, by simp [Kernel.owner, hf], rfl, rfl⟩
    · rw [if_neg hh]
      exact ⟨(bootForCreate_pmap c k ps).2, (bootForCreate_pmap c k ps).1, rfl, by simp [Kernel.owner, hf], rfl, rfl⟩

theorem iterLoop_cons (c : Cfg) (k : Kernel) (kept : List (Nat × Nat)) (evicted : List Nat) (ps : Ps)
    (p : Nat) (rest : List Nat) :
    iterLoop c k kept evicted ps (p :: rest) =
      match pmLookup kept p with
      | some i => ((iterLoop c k kept evicted ps rest).1, (p, i) :: (iterLoop c k kept evicted ps rest).2)
      | none =>
        if evicted.contains p then iterLoop c k kept evicted ps rest
        else
          match mkObj c k ps p with
          | (ps', none) => iterLoop c k kept evicted ps' rest
          | (ps', some o) =>
            ((iterLoop c k kept evicted { ps' with objs := ps'.objs ++ [o] } rest).1,
             (p, ps'.objs.length) :: (iterLoop c k kept evicted { ps' with objs := ps'.objs ++ [o] } rest).2) := by
  rw [iterLoop]; rfl

/-- a handle yielded by `process_iter()` that was not in the cache: a new object, appended behind the
    existing ones, built for the current owner of the PID, no sticky flag -/
def FreshHandle (k : Kernel) (n : Nat) (objs : List PObj) (e : Nat × Nat) : Prop :=
  n ≤ e.2 ∧ ∃ o, objs[e.2]? = some o ∧ o.pid = e.1 ∧ k.owner e.1 = some o.ghost ∧ o.gone = false ∧ o.reused = false

/-- shape of the loop in any state and configuration: existing objects are untouched (new ones are
    appended), the cache is not written, every yielded handle is a kept cache entry or a fresh object -/
theorem iterLoop_shape (c : Cfg) (k : Kernel) (kept : List (Nat × Nat)) (evicted : List Nat) :
    ∀ (l : List Nat) (ps : Ps),
      (∃ t, (iterLoop c k kept evicted ps l).1.objs = ps.objs ++ t)
      ∧ (iterLoop c k kept evicted ps l).1.pmap = ps.pmap
      ∧ (∀ e ∈ (iterLoop c k kept evicted ps l).2,
          e ∈ kept ∨ FreshHandle k ps.objs.length (iterLoop c k kept evicted ps l).1.objs e) := by
  intro l
  induction l with
  | nil => intro ps; exact ⟨⟨[], by simp [iterLoop]⟩, rfl, fun e he => by simp [iterLoop] at he⟩
  | cons p rest ih =>
    intro ps
    rw [iterLoop_cons]
    cases hl : pmLookup kept p with
    | some i =>
      obtain ⟨hpre, hpm, hy⟩ := ih ps
      refine ⟨hpre, hpm, ?_⟩
      intro e he
      rcases List.mem_cons.1 he with rfl | he
      · exact Or.inl (pmLookup_mem hl)
      · exact hy e he
    | none =>
      simp only
      split
      · exact ih ps
      · have hm := mkObj_shape c k ps p
        cases hmk : mkObj c k ps p with
        | mk ps' oo =>
          rw [hmk] at hm
          cases oo with
          | none =>
            simp only at hm ⊢
            obtain ⟨hpre, hpm, hy⟩ := ih ps'
            rw [hm.1] at hpre hy; rw [hm.2] at hpm
            exact ⟨hpre, hpm, hy⟩
          | some o =>
            simp only at hm ⊢
            obtain ⟨hobjs, hpmap, hpid, hown, hg, hr⟩ := hm
            obtain ⟨⟨t, ht⟩, hpm, hy⟩ := ih { ps' with objs := ps'.objs ++ [o] }
            simp only [hobjs] at ht hy hpm ⊢
            refine ⟨⟨[o] ++ t, by rw [ht, List.append_assoc]⟩, hpm.trans hpmap, ?_⟩
            intro e he
            rcases List.mem_cons.1 he with rfl | he
            · refine Or.inr ⟨Nat.le_refl _, o, ?_, hpid, hown, hg, hr⟩
              rw [ht, List.append_assoc]
              simp
            · rcases hy e he with hk | ⟨hle, hrest⟩
              · exact Or.inl hk
              · refine Or.inr ⟨?_, hrest⟩
                simp only [List.length_append, List.length_singleton] at hle
                omega

theorem iterLoop_inv {c : Cfg} (hc : c.BootGood) {k : Kernel} (hk : KInv c.createNoneTest k) (kept : List (Nat × Nat))
    (evicted : List Nat) : ∀ (l : List Nat) (ps : Ps), PInv c.createNoneTest c.clk k ps →
      PInv c.createNoneTest c.clk k (iterLoop c k kept evicted ps l).1 := by
  intro l
  induction l with
  | nil => intro ps h; exact h
  | cons p rest ih =>
    intro ps h
    rw [iterLoop_cons]
    cases hl : pmLookup kept p with
    | some i => exact ih ps h
    | none =>
      simp only
      split
      · exact ih ps h
      · have hm := mkObj_inv hc hk h p
        cases hmk : mkObj c k ps p with
        | mk ps' oo =>
          rw [hmk] at hm
          cases oo with
          | none => simp only at hm ⊢; rw [hm.1]; exact ih ps h
          | some o => simp only at hm ⊢; exact ih _ hm.1

/-- `process_iter()` in any state and configuration: objects are only appended, the new cache is what
    was yielded, and every yielded handle was cached before or is fresh -/
theorem processIter_shape (c : Cfg) (k : Kernel) (ps : Ps) :
    (∃ t, (processIter c k ps).1.objs = ps.objs ++ t)
    ∧ (processIter c k ps).1.pmap = (processIter c k ps).2
    ∧ (∀ e ∈ (processIter c k ps).2,
        e ∈ ps.pmap ∨ FreshHandle k ps.objs.length (processIter c k ps).1.objs e) := by
  unfold processIter
  dsimp only
  obtain ⟨hpre, _, hy⟩ := iterLoop_shape c k
    ((ps.pmap.filter fun e => (sortPids (k.procs.map (·.pid))).contains e.1).filter
      fun e => !ps.pidsReused.contains e.1)
    (((ps.pmap.filter fun e => (sortPids (k.procs.map (·.pid))).contains e.1).filter
      fun e => ps.pidsReused.contains e.1).map (·.1))
    (sortPids (k.procs.map (·.pid))) ps
  refine ⟨hpre, rfl, ?_⟩
  intro e he
  rcases hy e he with hk | hf
  · exact Or.inl (List.mem_filter.1 (List.mem_filter.1 hk).1).1
  · exact Or.inr hf

theorem processIter_inv {c : Cfg} (hc : c.BootGood) {k : Kernel} {ps : Ps} (hk : KInv c.createNoneTest k)
    (h : PInv c.createNoneTest c.clk k ps) : PInv c.createNoneTest c.clk k (processIter c k ps).1 := by
  obtain ⟨⟨t, ht⟩, hpm, hy⟩ := processIter_shape c k ps
  have hinv : PInv c.createNoneTest c.clk k (iterLoop c k
      ((ps.pmap.filter fun e => (sortPids (k.procs.map (·.pid))).contains e.1).filter
        fun e => !ps.pidsReused.contains e.1)
      (((ps.pmap.filter fun e => (sortPids (k.procs.map (·.pid))).contains e.1).filter
        fun e => ps.pidsReused.contains e.1).map (·.1))
      ps (sortPids (k.procs.map (·.pid)))).1 := iterLoop_inv hc hk _ _ _ ps h
  refine ⟨hinv.boot_nz, hinv.objs, ?_⟩
  intro e he
  rw [hpm] at he
  rcases hy e he with hk | ⟨_, o, ho, hp, _⟩
  · obtain ⟨o, ho, hp⟩ := h.pmap e hk
    exact ⟨o, by rw [ht]; exact getElem?_append_of_some ho t, hp⟩
  · exact ⟨o, ho, hp⟩

theorem method_inv {c : Cfg} (hc : c.BootGood) {s : St} (h : Inv c.createNoneTest c.clk s) {call : Call} {i : Nat} {o : PObj}
    {r : MRes} (ho : s.ps.objs[i]? = some o) (hm : method c s.kern s.ps o call = some r) :
    PInv c.createNoneTest c.clk s.kern (setObj r.ps i r.o) ∧ Evolves o r.o ∧ r.ps.objs = s.ps.objs := by
  obtain ⟨B, hb, hok⟩ := h.ps.objs o (List.mem_of_getElem? ho)
  have hk := method_keeps hc hb (h.ps.boot_nz B hb) hok hm
  exact ⟨h.ps.setObj hk.same hb hk.ok ho hk.evo.pid, hk.evo, hk.same.objs⟩

theorem step_inv {c : Cfg} (hc : c.BootGood) (s : St) (ev : Ev) (hev : ev.OK c.createNoneTest) (h : Inv c.createNoneTest c.clk s) :
    Inv c.createNoneTest c.clk (step c s ev).1 := by
  cases ev with
  | k e => exact ⟨h.kern.apply e hev, h.ps.apply e hev⟩
  | c call =>
    cases htg : call.target with
    | some i =>
      cases ho : s.ps.objs[i]? with
      | none => rw [step_bad_index c s htg ho]; exact h
      | some o =>
        obtain ⟨r, hm⟩ := method_some c s.kern s.ps o htg
        rw [step_method c s htg ho hm]
        exact ⟨h.kern, (method_inv hc h ho hm).1⟩
    | none =>
      cases call <;> simp [Call.target] at htg <;> simp only [step]
      · -- newObj
        rename_i pid
        split
        · split <;> exact h
        · have := mkObj_inv hc h.kern h.ps pid.toNat
          split
          · rename_i ps' heq; rw [heq] at this; rw [this.1]; exact h
          · rename_i ps' o heq; rw [heq] at this; exact ⟨h.kern, this.1⟩
      · exact ⟨h.kern, (bootTimeCall_inv hc h.kern.btime h.ps).1⟩
      · split <;> exact h
      · exact ⟨h.kern, processIter_inv hc h.kern h.ps⟩
      · exact h
      · split <;> exact h

def HistOK (nt : Bool) (h : List Ev) : Prop := ∀ e ∈ h, e.OK nt

theorem run_inv {c : Cfg} (hc : c.BootGood) (h : List Ev) : ∀ (s : St), HistOK c.createNoneTest h → Inv c.createNoneTest c.clk s →
    Inv c.createNoneTest c.clk (run c s h) := by
  induction h with
  | nil => intro s _ hi; exact hi
  | cons e es ih =>
    intro s hok hi
    exact ih _ (fun x hx => hok x (List.mem_cons_of_mem _ hx)) (step_inv hc s e (hok e List.mem_cons_self) hi)

theorem init_inv (clk : Nat) {b : Nat} (hb : BtOK nt b) : Inv nt clk (St.init b) :=
  ⟨⟨by simp [St.init], fun x hx => by simp [St.init] at hx, hb, rfl, fun x hx => by simp [St.init] at hx⟩,
   ⟨fun B hB => by simp [St.init] at hB, fun o ho => by simp [St.init] at ho,
    fun e he => by simp [St.init] at he⟩⟩

end Psutil.C01
