/-
  Proofs/C03Tables.lean — the concrete worlds and the decidable table predicates used by the bounded / witness
  statements of Props/C03.lean (the heavy `decide +kernel` runs live in C03TablesU.lean — source without the
  is_running() repair — and C03TablesR.lean — with it — so that they build in parallel).
-/
import PsutilModel.Proofs.C03
namespace Psutil.C03
open Spec

deriving instance DecidableEq for Except

/-- witnesses live on this world: PIDs 101 and 105 (child of 101), the object is 105 -/
def w0 : World :=
  { target := 105
    procs := [⟨101, 1, 50, false, false, [(101, false)], [], false, [.file, .anon]⟩,
              ⟨105, 101, 100, false, false, [(105, false)], [], false, [.file, .anon]⟩] }

/-- two refused accesses (indices i and j, EACCES) of a call on a process that is `life` throughout -/
def twoDeny (w : World) (life : WS) (i j : Nat) : Ctx :=
  ⟨w, fun _ => life, fun k => if k = i ∨ k = j then some .EACCES else none⟩

/-- outcome of the named call on the world's object under a context (none: not modelled) -/
def runOf (b : Host) (w : World) (nm : String) (c : Ctx) : Option (Except PyExc Val) :=
  (Fe.method (goodCfg b) w.obj nm).map (fun m => (m c {}).1)

def OKopt (pid : Nat) : Option (Except PyExc Val) → Prop
  | some r => OK pid r
  | none => False

instance (pid : Nat) (r : Option (Except PyExc Val)) : Decidable (OKopt pid r) := by
  unfold OKopt; split <;> infer_instance

/-- PIDs 50 ← 101 ← 105; the object is 101 (it has the child 105) -/
def wc : World :=
  { target := 101
    procs := [⟨50, 0, 10, false, false, [(50, false)], [], false, [.file, .anon]⟩,
              ⟨101, 50, 50, false, false, [(101, false)], [], false, [.file, .anon]⟩,
              ⟨105, 101, 100, false, false, [(105, false)], [], false, [.file, .anon]⟩] }

/-- (method, world, state of the process, the two refused access indices, what leaks) -/
def twoDenialLeaks : List (String × World × WS × Nat × Nat × PyExc) :=
  [("exe", w0, .zombie, 1, 2, .fnf),            -- lexists(/proc/pid) and the zombie probe refused: bare FileNotFoundError
   ("cwd", w0, .zombie, 1, 2, .fnf),
   ("parent", w0, .alive, 5, 6, .ad 101),       -- Process(ppid) swallows one refusal, parent.create_time() is refused again
   ("parents", w0, .alive, 5, 6, .ad 101),
   ("children", wc, .alive, 9, 11, .ad 105),    -- the same on a child: AccessDenied(child) is not in the except tuple
   ("children_recursive", wc, .alive, 9, 11, .ad 105)]

/-- the modelled queries for which no pair of refusals leaks on `w0` (bounded, exhaustive) -/
def twoDenialBounded : List String :=
  ["pid", "ppid", "name", "cmdline", "status", "username", "create_time", "nice", "uids", "gids", "terminal", "num_fds",
   "io_counters", "ionice", "cpu_affinity", "cpu_num", "environ", "num_ctx_switches", "num_threads", "threads",
   "cpu_times", "cpu_percent", "memory_info", "memory_full_info", "memory_percent", "memory_maps", "open_files",
   "net_connections", "connections", "is_running", "rlimit"]

def LeakHolds (b : Host) (x : String × World × WS × Nat × Nat × PyExc) : Prop :=
  runOf b x.2.1 x.1 (twoDeny x.2.1 x.2.2.1 x.2.2.2.1 x.2.2.2.2.1) = some (.error x.2.2.2.2.2) ∧
    ¬ OK x.2.1.target (.error x.2.2.2.2.2 : Except PyExc Val)

def BoundedSafe (b : Host) (w : World) (nm : String) (B : Nat) : Prop :=
  ∀ life ∈ [WS.alive, WS.zombie], ∀ i < B, ∀ j < B, OKopt w.target (runOf b w nm (twoDeny w life i j))

instance (b : Host) (x : String × World × WS × Nat × Nat × PyExc) : Decidable (LeakHolds b x) := by
  unfold LeakHolds; infer_instance
instance (b : Host) (w : World) (nm : String) (B : Nat) : Decidable (BoundedSafe b w nm B) := by
  unfold BoundedSafe; infer_instance

/-- PIDs 50 ← 101 ← 105; the object is 105 -/
def w1 : World :=
  { target := 105
    procs := [⟨50, 0, 10, false, false, [(50, false)], [], false, [.file, .anon]⟩,
              ⟨101, 50, 50, false, false, [(101, false)], [], false, [.file, .anon]⟩,
              ⟨105, 101, 100, false, false, [(105, false)], [], false, [.file, .anon]⟩] }


/-! ### "the class matches the cause" (`Spec.Cause`), enumerated -/

/-- the property's four plan shapes with every index below `B` (`plansUpTo_property`: each is a `PropertyPlan`) -/
def plansUpTo (B : Nat) : List ((Nat → WS) × (Nat → Option Errno)) :=
  (List.range B).map (fun k => (vanishAt k, noDeny)) ++
  (List.range B).map (fun k => (zombieFrom k, noDeny)) ++
  (List.range B).flatMap (fun i => [(alwaysAlive, denyAt i .EACCES), (alwaysAlive, denyAt i .EPERM)]) ++
  (List.range B).flatMap (fun j => (List.range j).flatMap (fun i =>
    [(vanishAt j, denyAt i .EACCES), (vanishAt j, denyAt i .EPERM)]))

/-- outcome and number of accesses of the named call on the world's object, from the initial state -/
def runK (b : Host) (w : World) (nm : String) (c : Ctx) : Option (Except PyExc Val × Nat) :=
  (Fe.method (goodCfg b) w.obj nm).map (fun m => let r := m c {}; (r.1, r.2.k))

/-- value or psutil error for the object's pid, AND the class matches the cause -/
def OKC (w : World) (c : Ctx) : Option (Except PyExc Val × Nat) → Prop
  | some (r, k1) => OK w.target r ∧ Cause c.ws c.deny 0 k1 r
  | none => False

instance (w : World) (c : Ctx) (r : Option (Except PyExc Val × Nat)) : Decidable (OKC w c r) := by
  unfold OKC; split <;> infer_instance

/-- the cause clause alone (for parents(), whose pid clause is the other finding) -/
def CauseOpt (c : Ctx) : Option (Except PyExc Val × Nat) → Prop
  | some (r, k1) => Cause c.ws c.deny 0 k1 r
  | none => False

instance (c : Ctx) (r : Option (Except PyExc Val × Nat)) : Decidable (CauseOpt c r) := by
  unfold CauseOpt; split <;> infer_instance

/-- every enumerated plan: `OK` and `Cause` -/
def CauseHolds (b : Host) (w : World) (nm : String) (B : Nat) : Prop :=
  ∀ p ∈ plansUpTo B, OKC w ⟨w, p.1, p.2⟩ (runK b w nm ⟨w, p.1, p.2⟩)

def CauseOnlyHolds (b : Host) (w : World) (nm : String) (B : Nat) : Prop :=
  ∀ p ∈ plansUpTo B, CauseOpt ⟨w, p.1, p.2⟩ (runK b w nm ⟨w, p.1, p.2⟩)

/-- every enumerated plan: `OK` and `Cause`, EXCEPT that a refusal of one of the accesses `probe` (the open / the read
    of /proc/<pid>/stat inside the identity probe of is_running()) gives NoSuchProcess(pid) -/
def CauseBut (b : Host) (w : World) (nm : String) (B : Nat) (probe : List Nat) : Prop :=
  ∀ p ∈ plansUpTo B, OKC w ⟨w, p.1, p.2⟩ (runK b w nm ⟨w, p.1, p.2⟩) ∨
    ((runK b w nm ⟨w, p.1, p.2⟩).map (·.1) = some (.error (.nsp w.target)) ∧ ∃ i ∈ probe, (p.2 i).isSome = true)

instance (b : Host) (w : World) (nm : String) (B : Nat) : Decidable (CauseHolds b w nm B) := by
  unfold CauseHolds; infer_instance
instance (b : Host) (w : World) (nm : String) (B : Nat) : Decidable (CauseOnlyHolds b w nm B) := by
  unfold CauseOnlyHolds; infer_instance
instance (b : Host) (w : World) (nm : String) (B : Nat) (pr : List Nat) : Decidable (CauseBut b w nm B pr) := by
  unfold CauseBut; infer_instance

/-- the modelled queries that never go through `_raise_if_pid_reused()` -/
def causePlain : List String :=
  ["pid", "name", "exe", "cmdline", "status", "username", "create_time", "cwd", "nice", "uids", "gids", "terminal",
   "num_fds", "io_counters", "ionice", "cpu_affinity", "cpu_num", "environ", "num_ctx_switches", "num_threads", "threads",
   "cpu_times", "cpu_percent", "memory_info", "memory_full_info", "memory_percent", "memory_maps", "open_files",
   "net_connections", "connections", "is_running", "rlimit"]

/-- … and those that do, with the access indices of the identity probe in their trace -/
def causeProbe : List (String × List Nat) :=
  [("ppid", [0, 1]), ("children", [0, 1]), ("children_recursive", [0, 1]), ("parent", [1, 2])]

end Psutil.C03
