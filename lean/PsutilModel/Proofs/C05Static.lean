/-
  Proofs/C05Static.lean — on a table that does not change during the call and whose stat files can all
  be read, the rich model of `parent()` / `parents()` (Model/C05Dyn.lean: a world per look-up) IS the
  plain model (Model/C05.lean: one table). Until round 3 this equality was only tested by the driver
  (flag `old_agrees`); it is proved here for EVERY configuration, table, caller, `_LOWEST_PID` state and
  fuel, so the theorems about `parent`/`parents` (C05_parent_spec, C05_parents_chain, …) are theorems
  about `parentX`/`parentsX` on constant readable worlds, and the flag is gone from the driver.
-/
import PsutilModel.Proofs.C05Dyn
namespace Psutil.C05
open Spec

/-- an extended table without its state column -/
def XTable.plain (T : XTable) : Table := T.map fun r => ⟨r.pid, r.ppid, r.start⟩

/-- every stat file of the table can be read (running or zombie) -/
def XTable.Readable (T : XTable) : Prop := ∀ r ∈ T, r.st ≠ .denied

theorem read_plain {T : XTable} (h : T.Readable) (pid : Nat) :
    T.read pid = (match T.plain.find pid with
      | none => Rd.gone
      | some r => Rd.ok r.ppid r.start) := by
  unfold XTable.read XTable.plain Table.find
  induction T with
  | nil => rfl
  | cons r rs ih =>
    have hr := h r (List.mem_cons_self ..)
    have ih' := ih (fun q hq => h q (List.mem_cons_of_mem _ hq))
    simp only [List.map_cons, List.find?_cons]
    cases hp : r.pid == pid with
    | true =>
      cases hst : r.st with
      | run => simp [hst]
      | zombie => simp [hst]
      | denied => exact absurd hst hr
    | false => simpa using ih'

theorem read_ne_denied {T : XTable} (h : T.Readable) (pid : Nat) : T.read pid ≠ .denied := by
  rw [read_plain h]
  cases T.plain.find pid <;> simp

theorem lookOfW_plain {T : XTable} (h : T.Readable) : lookOfW T.read = lookOf T.plain := by
  funext pid
  unfold lookOfW lookOf
  rw [read_plain h]
  cases T.plain.find pid <;> rfl

theorem pids_plain (T : XTable) : T.plain.pids = T.pids := by
  unfold XTable.plain Table.pids XTable.pids
  rw [List.map_map]
  rfl

theorem lowestPidX_plain (ps : Ps) (T : XTable) : lowestPidX ps T.pids = lowestPid ps T.plain := by
  cases ps with
  | mk l => cases l <;> simp [lowestPidX, lowestPid, minPid?, pids_plain] <;> cases T.pids.min? <;> rfl

theorem toX_readable (T : Table) : (Table.toX T).Readable := by
  intro r hr
  obtain ⟨q, _, rfl⟩ := List.mem_map.1 hr
  simp

theorem toX_plain (T : Table) : (Table.toX T).plain = T := by
  unfold Table.toX XTable.plain
  rw [List.map_map]
  induction T with
  | nil => rfl
  | cons r rs ih => rw [List.map_cons, ih]; rfl

theorem raiseX_plain (g : Bool) {T : XTable} (h : T.Readable) (me : Caller) :
    raiseIfPidReusedX g T.read me = raiseIfPidReused g (lookOf T.plain) me := by
  rw [raiseX_eq g (read_ne_denied h me.pid), lookOfW_plain h]

/-- `parent()` after the lowest-PID stop: rich = plain on a constant readable table -/
theorem parentCoreX_static (c : Cfg) {T : XTable} (h : T.Readable) (me : Caller) (os : Oneshot)
    (hos : ∀ pp, os ≠ some (some pp)) :
    (parentCoreX c (stepOfX T) me os).1 = (parentCore c T.plain me).1
      ∧ (parentCoreX c (stepOfX T) me os).2.2 = XOut.ofOut (parentCore c T.plain me).2 := by
  have hos' : ppidX c (stepOfX T) me os = ppidFresh c (stepOfX T) me os := by
    unfold ppidX
    cases os with
    | none => rfl
    | some o =>
      cases o with
      | none => rfl
      | some pp => exact absurd rfl (hos pp)
  unfold parentCoreX parentCore
  rw [hos']
  unfold ppidFresh stepOfX
  simp only
  rw [raiseX_plain _ h]
  cases hg : (if c.ppidGuarded = true then raiseIfPidReused c.goneRaises (lookOf T.plain) me else (me, false)).2 with
  | true => simp [XOut.ofOut]
  | false =>
    simp only [Bool.false_eq_true, if_false]
    rw [read_plain h me.pid]
    cases hf : T.plain.find me.pid with
    | none => simp [XOut.ofOut]
    | some r =>
      simp only
      rw [read_plain h r.ppid]
      cases hq : T.plain.find r.ppid with
      | none => simp [XOut.ofOut]
      | some q =>
        have hqp : q.pid = r.ppid := (find_some hq).1
        simp only
        cases ht : c.parentOp.eval q.start me.ctime with
        | true =>
          simp only [if_true, XOut.ofOut, true_and]
          congr 2
          cases q
          simp_all
        | false => simp [XOut.ofOut]

/-- **one `parent()` call**: rich model = plain model on a constant readable table (any configuration) -/
theorem parentX_static (c : Cfg) (ps : Ps) {T : XTable} (h : T.Readable) (me : Caller) (os : Oneshot)
    (hos : ∀ pp, os ≠ some (some pp)) :
    (parentX c ps (stepOfX T) me os).1 = (parent c ps T.plain me).1
      ∧ (parentX c ps (stepOfX T) me os).2.1 = (parent c ps T.plain me).2.1
      ∧ (parentX c ps (stepOfX T) me os).2.2.2 = XOut.ofOut (parent c ps T.plain me).2.2 := by
  obtain ⟨h1, h2⟩ := parentCoreX_static c h me os hos
  unfold parentX parent
  have hl : (stepOfX T).listing = T.pids := rfl
  rw [hl, lowestPidX_plain]
  cases hs : c.lowestStop with
  | true =>
    simp only [if_true]
    rcases hlow : lowestPid ps T.plain with ⟨ps', _ | lowest⟩
    · simp [XOut.ofOut]
    · simp only
      cases hm : (me.pid == lowest) with
      | true =>
        have hwi : (stepOfX T).wi = T.read := rfl
        rw [hwi, raiseX_plain c.goneRaises h me]
        cases c.rootGuarded with
        | false => simp [XOut.ofOut]
        | true =>
          cases (raiseIfPidReused c.goneRaises (lookOf T.plain) me).2 <;> simp [XOut.ofOut]
      | false =>
        simp only [Bool.false_eq_true, if_false]
        exact ⟨trivial, h1, h2⟩
  | false =>
    simp only [Bool.false_eq_true, if_false]
    exact ⟨trivial, h1, h2⟩

/-- **the loop of `parents()`**: rich model = plain model on a constant readable table, for every fuel,
    every `seen`/accumulator state and every configuration -/
theorem parentsLoopX_static (c : Cfg) {T : XTable} (h : T.Readable) :
    ∀ (fuel i : Nat) (ps : Ps) (seen : List Nat) (cur : Caller) (os : Oneshot) (acc : List Row),
      (∀ pp, os ≠ some (some pp)) →
      (parentsLoopX c (fun _ => stepOfX T) fuel i ps seen cur os acc).1 = (parentsLoop c T.plain fuel ps seen cur acc).1
        ∧ (parentsLoopX c (fun _ => stepOfX T) fuel i ps seen cur os acc).2
            = XOut.ofOut (parentsLoop c T.plain fuel ps seen cur acc).2 := by
  intro fuel
  induction fuel with
  | zero => intro _ _ _ _ _ _ _; exact ⟨rfl, rfl⟩
  | succ fuel ih =>
    intro i ps seen cur os acc hos
    obtain ⟨h1, _, h3⟩ := parentX_static c ps h cur os hos
    unfold parentsLoopX parentsLoop
    rcases hp : parentX c ps (stepOfX T) cur os with ⟨ps', me', os', out⟩
    rcases hq : parent c ps T.plain cur with ⟨qs', me'', out'⟩
    rw [hp, hq] at h1 h3
    simp only at h1 h3
    subst h1 h3
    cases out' with
    | ok v =>
      cases v with
      | none => exact ⟨rfl, rfl⟩
      | some q =>
        simp only [XOut.ofOut]
        cases hs : (c.parentsSeen && seen.contains q.pid) with
        | true => simp [XOut.ofOut]
        | false =>
          simp only [Bool.false_eq_true, if_false]
          exact ih (i + 1) _ _ _ none _ (by intro pp hh; cases hh)
    | nsp p => exact ⟨rfl, rfl⟩
    | indexError => exact ⟨rfl, rfl⟩
    | diverged => exact ⟨rfl, rfl⟩

end Psutil.C05
