/-
  Proofs/C03Front.lean — the front end `psutil.Process`: getters, as_dict, is_running,
  children, parent, process_iter.
-/
import PsutilModel.Proofs.C03Methods
namespace Psutil.C03
open Spec

variable (r : Host)

/-- only NoSuchProcess(p) -/
def NspOnly (p : Nat) : Ctx → Nat → PyExc → Prop := fun _ _ e => e = .nsp p

theorem nspOnly_psOnly {p : Nat} {c : Ctx} {k : Nat} {e : PyExc} (h : NspOnly p c k e) : PsOnly p c k e :=
  Or.inl h

/-- `psutil.Process(q)` raises NoSuchProcess(q) or nothing -/
theorem mkProcess_safe (q : Nat) : Tri (NspOnly q) (Fe.mkProcess (goodCfg r) q) (fun o => o.pid = q) := by
  unfold Fe.mkProcess
  refine tri_tryCatch (E' := PsOnly q)
    (tri_bind (tri_fresh (createTime_safe r q)) (fun _ _ => tri_pure rfl))
    (fun e h c k he => ?_) (fun e m' h he => ?_)
  · rcases he with he | he | he <;> subst he <;>
      simp [Fe.clauseOf, goodCfg, catches, PyExc.bases] at h
  · obtain ⟨c, k, he⟩ := he
    rcases he with he | he | he <;> subst he <;>
      simp [Fe.clauseOf, goodCfg, catches, PyExc.bases] at h <;> subst h
    · exact tri_throw (fun _ _ => rfl)
    · exact tri_pure rfl
    · exact tri_pure rfl

theorem fe_createTime_safe (o : Obj) : Tri (PsOnly o.pid) (Fe.createTime (goodCfg r) o) (fun _ => True) := by
  unfold Fe.createTime
  split
  · exact tri_pure trivial
  · exact tri_fresh (createTime_safe r o.pid)

/-- is_running() never raises -/
theorem isRunning_safe (o : Obj) : Tri NoExc (Fe.isRunning (goodCfg r) o) (fun _ => True) := by
  unfold Fe.isRunning
  refine tri_bind (Q := fun _ => True) ?_ (fun x _ => ?_)
  · refine tri_tryCatch (E' := NspOnly o.pid)
      (tri_bind (mkProcess_safe r o.pid) (fun _ _ => tri_pure trivial))
      (fun e h c k he => ?_) (fun e m' h he => ?_)
    · have : e = .nsp o.pid := he
      subst this
      simp [Fe.clauseOf, goodCfg, catches, PyExc.bases] at h
    · obtain ⟨c, k, he⟩ := he
      have : e = .nsp o.pid := he
      subst this
      simp [Fe.clauseOf, goodCfg, catches, PyExc.bases] at h
      subst h
      exact tri_pure trivial
  · split
    · exact tri_pure trivial
    · exact tri_pure trivial
    · split
      · exact tri_pure trivial
      · split <;> exact tri_pure trivial

theorem raiseIfPidReused_safe (o : Obj) :
    Tri (NspOnly o.pid) (Fe.raiseIfPidReused (goodCfg r) o) (fun _ => True) := by
  unfold Fe.raiseIfPidReused
  refine tri_bind (tri_exc (isRunning_safe r o) (fun _ _ _ h => h.elim)) (fun x _ => ?_)
  obtain ⟨a, b⟩ := x
  dsimp only
  split
  · exact tri_throw (fun _ _ => rfl)
  · split
    · exact tri_throw (fun _ _ => rfl)
    · exact tri_pure trivial

theorem cacheInv_fe {k : Cache} (f : Cache → Cache) (hf : ∀ k, (f k).status = k.status) (h : CacheInv k) :
    CacheInv (f k) := by
  intro x hx; rw [hf] at hx; exact h x hx

/-- the lowest-PID stop of parent() (guarded since /repo d7107b4): the identity probe is one more access that can fail —
    NoSuchProcess(pid) or nothing leaves it -/
theorem rootStop_safe (o : Obj) :
    Tri (NspOnly o.pid) (Fe.rootStop (goodCfg r) o) (fun _ => True) := by
  unfold Fe.rootStop
  rw [if_pos (show (goodCfg r).parentRootGuard = true from rfl)]
  exact raiseIfPidReused_safe r o

theorem fe_ppid_safe (o : Obj) : Tri (PsOnly o.pid) (Fe.ppid (goodCfg r) o) (fun _ => True) := by
  unfold Fe.ppid
  refine tri_memoIf _ _ _ _ (fun _ _ _ _ => trivial) (fun k v hk _ => cacheInv_fe _ (fun _ => rfl) hk) ?_
  exact tri_bind (tri_exc (raiseIfPidReused_safe r o) (fun _ _ _ h => nspOnly_psOnly h))
    (fun _ _ => ppid_safe r o.pid)

theorem feMemoB_safe (p : Nat) (name : String) (get : Cache → Bool) (set : Cache → Cache)
    (hset : ∀ k, (set k).status = k.status) {body : M Unit} (hb : Tri (PsOnly p) body (fun _ => True)) :
    Tri (PsOnly p) (Fe.feMemoB (goodCfg r) name get set p body) (fun _ => True) := by
  unfold Fe.feMemoB
  exact tri_memoIf _ _ _ _ (fun _ _ _ _ => trivial) (fun k v hk _ => cacheInv_fe _ hset hk) hb

theorem fe_cpuTimes_safe (o : Obj) : Tri (PsOnly o.pid) (Fe.cpuTimes (goodCfg r) o) (fun _ => True) := by
  unfold Fe.cpuTimes; exact feMemoB_safe r _ _ _ _ (by intro k; rfl) (cpuTimes_safe r o.pid)

theorem fe_memoryInfo_safe (o : Obj) : Tri (PsOnly o.pid) (Fe.memoryInfo (goodCfg r) o) (fun _ => True) := by
  unfold Fe.memoryInfo; exact feMemoB_safe r _ _ _ _ (by intro k; rfl) (memoryInfo_safe r o.pid)

theorem fe_uids_safe (o : Obj) : Tri (PsOnly o.pid) (Fe.uids (goodCfg r) o) (fun _ => True) := by
  unfold Fe.uids; exact feMemoB_safe r _ _ _ _ (by intro k; rfl) (uids_safe r o.pid)

theorem fe_cmdline_safe (o : Obj) : Tri (PsOnly o.pid) (Fe.cmdline (goodCfg r) o) (fun _ => True) := by
  unfold Fe.cmdline; exact cmdline_safe r o.pid

theorem fe_name_safe (o : Obj) : Tri (PsOnly o.pid) (Fe.name (goodCfg r) o) (fun _ => True) := by
  unfold Fe.name
  refine tri_bind (name_safe r o.pid) (fun long _ => ?_)
  cases long
  · exact tri_pure trivial
  · refine tri_bind (Q := fun _ => True) ?_ (fun _ _ => tri_pure trivial)
    exact tri_tryCatch_same (tri_bind (fe_cmdline_safe r o) (fun _ _ => tri_pure trivial)) (tri_pure trivial)

/-- a try whose handler list matches nothing is its body -/
theorem tryCatch_no_handler {α : Type} (m : M α) (h : PyExc → Option (M α)) (hh : ∀ e, h e = none) :
    tryCatch m h = m := by
  funext c s
  unfold tryCatch
  rcases hr : m c s with ⟨res, s'⟩
  cases res with
  | ok a => rfl
  | error e => simp only [hh]

/-- guess_it of the source as it is: no handler around `self.cmdline()` (`guessClauses = []`), the tail re-raises the
    AccessDenied instance (`guessTailRaises`) -/
theorem guessIt_good (o : Obj) (fb : Option Val) :
    Fe.guessIt (goodCfg r) o fb = (do
      let (n, g) ← Fe.cmdline (goodCfg r) o
      if n > 0 && g then pure Val.str
      else match fb with
        | none => throw (.ad o.pid)
        | some v => pure v) := by
  unfold Fe.guessIt
  dsimp only
  rw [tryCatch_no_handler _ _ (fun e => by simp [Fe.clauseOf, goodCfg])]
  funext c s
  simp only [bind_eq, M.bind, pure_eq, M.pure]
  rcases hr : Fe.cmdline (goodCfg r) o c s with ⟨res, s'⟩
  cases res with
  | error e => rfl
  | ok x =>
    obtain ⟨n, g⟩ := x
    simp only [goodCfg, if_true]
    rfl

theorem guessIt_safe (o : Obj) (fb : Option Val) : Tri (PsOnly o.pid) (Fe.guessIt (goodCfg r) o fb) (fun _ => True) := by
  rw [guessIt_good]
  refine tri_bind (fe_cmdline_safe r o) (fun x _ => ?_)
  obtain ⟨n, g⟩ := x
  dsimp only
  split
  · exact tri_pure trivial
  · split
    · exact tri_throw (fun _ _ => Or.inr (Or.inr rfl))
    · exact tri_pure trivial

theorem fe_exe_safe (o : Obj) : Tri (PsOnly o.pid) (Fe.exe (goodCfg r) o) (fun _ => True) := by
  unfold Fe.exe
  refine tri_tryCatch_same ?_ (guessIt_safe r o none)
  refine tri_bind (exe_safe r o.pid) (fun ne _ => ?_)
  cases ne
  · exact tri_tryCatch_same (guessIt_safe r o _) (tri_pure trivial)
  · exact tri_pure trivial

theorem fe_status_safe (o : Obj) : Tri (PsOnly o.pid) (Fe.status (goodCfg r) o) (fun _ => True) := by
  unfold Fe.status
  exact tri_tryCatch_same (tri_bind (status_safe r o.pid) (fun _ _ => tri_pure trivial)) (tri_pure trivial)

/-! ### every modelled public getter (one lemma per name; generated text) -/

/-- the getter `nm` is modelled and raises only psutil errors for the object's pid -/
def GetterOK (o : Obj) (nm : String) : Prop :=
  ∃ m, Fe.getter (goodCfg r) o nm = some m ∧ Tri (PsOnly o.pid) m (fun _ => True)

/-- the names `Fe.getter` knows -/
def getterNames : List String :=
  ["pid", "ppid", "name", "exe", "cmdline", "status", "username", "create_time", "cwd", "nice", "uids", "gids", "terminal", "num_fds", "io_counters", "ionice", "cpu_affinity", "cpu_num", "environ", "num_ctx_switches", "num_threads", "threads", "cpu_times", "cpu_percent", "memory_info", "memory_full_info", "memory_percent", "memory_maps", "open_files", "net_connections"]

theorem getter_pid (o : Obj) : GetterOK r o "pid" := ⟨_, rfl, tri_pure trivial⟩
theorem getter_ppid (o : Obj) : GetterOK r o "ppid" := ⟨_, rfl, tri_bind (fe_ppid_safe r o) (fun _ _ => tri_pure trivial)⟩
theorem getter_name (o : Obj) : GetterOK r o "name" := ⟨_, rfl, fe_name_safe r o⟩
theorem getter_exe (o : Obj) : GetterOK r o "exe" := ⟨_, rfl, fe_exe_safe r o⟩
theorem getter_cmdline (o : Obj) : GetterOK r o "cmdline" := ⟨_, rfl, tri_bind (fe_cmdline_safe r o) (fun x _ => by cases x; exact tri_pure trivial)⟩
theorem getter_status (o : Obj) : GetterOK r o "status" := ⟨_, rfl, fe_status_safe r o⟩
theorem getter_username (o : Obj) : GetterOK r o "username" := ⟨_, rfl, tri_bind (fe_uids_safe r o) (fun _ _ => tri_pure trivial)⟩
theorem getter_create_time (o : Obj) : GetterOK r o "create_time" := ⟨_, rfl, tri_bind (fe_createTime_safe r o) (fun _ _ => tri_pure trivial)⟩
theorem getter_cwd (o : Obj) : GetterOK r o "cwd" := ⟨_, rfl, tri_bind (cwd_safe r o.pid) (fun _ _ => tri_pure trivial)⟩
theorem getter_nice (o : Obj) : GetterOK r o "nice" := ⟨_, rfl, tri_bind (niceGet_safe r o.pid) (fun _ _ => tri_pure trivial)⟩
theorem getter_uids (o : Obj) : GetterOK r o "uids" := ⟨_, rfl, tri_bind (fe_uids_safe r o) (fun _ _ => tri_pure trivial)⟩
theorem getter_gids (o : Obj) : GetterOK r o "gids" := ⟨_, rfl, tri_bind (gids_safe r o.pid) (fun _ _ => tri_pure trivial)⟩
theorem getter_terminal (o : Obj) : GetterOK r o "terminal" := ⟨_, rfl, tri_bind (terminal_safe r o.pid) (fun _ _ => tri_pure trivial)⟩
theorem getter_num_fds (o : Obj) : GetterOK r o "num_fds" := ⟨_, rfl, tri_bind (numFds_safe r o.pid) (fun _ _ => tri_pure trivial)⟩
theorem getter_io_counters (o : Obj) : GetterOK r o "io_counters" := ⟨_, rfl, tri_bind (ioCounters_safe r o.pid) (fun _ _ => tri_pure trivial)⟩
theorem getter_ionice (o : Obj) : GetterOK r o "ionice" := ⟨_, rfl, tri_bind (ioniceGet_safe r o.pid) (fun _ _ => tri_pure trivial)⟩
theorem getter_cpu_affinity (o : Obj) : GetterOK r o "cpu_affinity" := ⟨_, rfl, tri_bind (cpuAffinityGet_safe r o.pid) (fun _ _ => tri_pure trivial)⟩
theorem getter_cpu_num (o : Obj) : GetterOK r o "cpu_num" := ⟨_, rfl, tri_bind (cpuNum_safe r o.pid) (fun _ _ => tri_pure trivial)⟩
theorem getter_environ (o : Obj) : GetterOK r o "environ" := ⟨_, rfl, tri_bind (environ_safe r o.pid) (fun _ _ => tri_pure trivial)⟩
theorem getter_num_ctx_switches (o : Obj) : GetterOK r o "num_ctx_switches" := ⟨_, rfl, tri_bind (numCtxSwitches_safe r o.pid) (fun _ _ => tri_pure trivial)⟩
theorem getter_num_threads (o : Obj) : GetterOK r o "num_threads" := ⟨_, rfl, tri_bind (numThreads_safe r o.pid) (fun _ _ => tri_pure trivial)⟩
theorem getter_threads (o : Obj) : GetterOK r o "threads" := ⟨_, rfl, tri_bind (threads_safe r o.pid) (fun _ _ => tri_pure trivial)⟩
theorem getter_cpu_times (o : Obj) : GetterOK r o "cpu_times" := ⟨_, rfl, tri_bind (fe_cpuTimes_safe r o) (fun _ _ => tri_pure trivial)⟩
theorem getter_cpu_percent (o : Obj) : GetterOK r o "cpu_percent" := ⟨_, rfl, tri_bind (cpuTimes_safe r o.pid) (fun _ _ => tri_pure trivial)⟩
theorem getter_memory_info (o : Obj) : GetterOK r o "memory_info" := ⟨_, rfl, tri_bind (fe_memoryInfo_safe r o) (fun _ _ => tri_pure trivial)⟩
theorem getter_memory_full_info (o : Obj) : GetterOK r o "memory_full_info" := ⟨_, rfl, tri_bind (memoryFullInfo_safe r o.pid) (fun _ _ => tri_pure trivial)⟩
theorem getter_memory_percent (o : Obj) : GetterOK r o "memory_percent" := ⟨_, rfl, tri_bind (fe_memoryInfo_safe r o) (fun _ _ => tri_pure trivial)⟩
theorem getter_memory_maps (o : Obj) : GetterOK r o "memory_maps" := ⟨_, rfl, tri_bind (memoryMaps_safe r o.pid) (fun _ _ => tri_pure trivial)⟩
theorem getter_open_files (o : Obj) : GetterOK r o "open_files" := ⟨_, rfl, tri_bind (openFiles_safe r o.pid) (fun _ _ => tri_pure trivial)⟩
theorem getter_net_connections (o : Obj) : GetterOK r o "net_connections" := ⟨_, rfl, tri_bind (netConnections_safe r o.pid) (fun _ _ => tri_pure trivial)⟩

theorem getter_ok (o : Obj) : ∀ nm ∈ getterNames, GetterOK r o nm :=
  show ∀ nm ∈ ["pid", "ppid", "name", "exe", "cmdline", "status", "username", "create_time", "cwd", "nice", "uids", "gids", "terminal", "num_fds", "io_counters", "ionice", "cpu_affinity", "cpu_num", "environ", "num_ctx_switches", "num_threads", "threads", "cpu_times", "cpu_percent", "memory_info", "memory_full_info", "memory_percent", "memory_maps", "open_files", "net_connections"], GetterOK r o nm from
  List.forall_mem_cons.2 ⟨getter_pid r o,
    List.forall_mem_cons.2 ⟨getter_ppid r o,
    List.forall_mem_cons.2 ⟨getter_name r o,
    List.forall_mem_cons.2 ⟨getter_exe r o,
    List.forall_mem_cons.2 ⟨getter_cmdline r o,
    List.forall_mem_cons.2 ⟨getter_status r o,
    List.forall_mem_cons.2 ⟨getter_username r o,
    List.forall_mem_cons.2 ⟨getter_create_time r o,
    List.forall_mem_cons.2 ⟨getter_cwd r o,
    List.forall_mem_cons.2 ⟨getter_nice r o,
    List.forall_mem_cons.2 ⟨getter_uids r o,
    List.forall_mem_cons.2 ⟨getter_gids r o,
    List.forall_mem_cons.2 ⟨getter_terminal r o,
    List.forall_mem_cons.2 ⟨getter_num_fds r o,
    List.forall_mem_cons.2 ⟨getter_io_counters r o,
    List.forall_mem_cons.2 ⟨getter_ionice r o,
    List.forall_mem_cons.2 ⟨getter_cpu_affinity r o,
    List.forall_mem_cons.2 ⟨getter_cpu_num r o,
    List.forall_mem_cons.2 ⟨getter_environ r o,
    List.forall_mem_cons.2 ⟨getter_num_ctx_switches r o,
    List.forall_mem_cons.2 ⟨getter_num_threads r o,
    List.forall_mem_cons.2 ⟨getter_threads r o,
    List.forall_mem_cons.2 ⟨getter_cpu_times r o,
    List.forall_mem_cons.2 ⟨getter_cpu_percent r o,
    List.forall_mem_cons.2 ⟨getter_memory_info r o,
    List.forall_mem_cons.2 ⟨getter_memory_full_info r o,
    List.forall_mem_cons.2 ⟨getter_memory_percent r o,
    List.forall_mem_cons.2 ⟨getter_memory_maps r o,
    List.forall_mem_cons.2 ⟨getter_open_files r o,
    List.forall_mem_cons.2 ⟨getter_net_connections r o,
    (fun _ h => nomatch h)⟩⟩⟩⟩⟩⟩⟩⟩⟩⟩⟩⟩⟩⟩⟩⟩⟩⟩⟩⟩⟩⟩⟩⟩⟩⟩⟩⟩⟩⟩

/-! ### as_dict(): AccessDenied / ZombieProcess become ad_value, only NoSuchProcess escapes -/

theorem asDictLoop_safe (o : Obj) (explicit : Bool) : ∀ (attrs : List String) (n : Nat) (ad bad : List String),
    (∀ nm ∈ attrs, nm ∈ getterNames) →
    Tri (NspOnly o.pid) (Fe.asDictLoop (goodCfg r) o explicit attrs n ad bad) (fun _ => True) := by
  intro attrs
  induction attrs with
  | nil => intro n ad bad _; unfold Fe.asDictLoop; exact tri_pure trivial
  | cons nm rest ih =>
    intro n ad bad hall
    have hrest : ∀ nm ∈ rest, nm ∈ getterNames :=
      fun x hx => hall x (List.mem_cons_of_mem _ hx)
    obtain ⟨g, hg, hsafe⟩ := getter_ok r o nm (hall nm (List.mem_cons_self ..))
    unfold Fe.asDictLoop
    rw [hg]
    · simp only
      refine tri_bind (Q := fun _ => True) ?_ (fun x _ => ?_)
      · refine tri_tryCatch (E' := PsOnly o.pid)
          (tri_bind hsafe (fun _ _ => tri_pure trivial))
          (fun e h c k he => ?_) (fun e m' h he => ?_)
        · rcases he with he | he | he <;> subst he <;>
            simp [goodCfg, catches, PyExc.bases] at h
          rfl
        · obtain ⟨c, k, he⟩ := he
          rcases he with he | he | he <;> subst he <;>
            simp [goodCfg, catches, PyExc.bases] at h <;> subst h <;> exact tri_pure trivial
      · split
        · exact ih _ _ _ hrest
        · exact ih _ _ _ hrest
        · exact ih _ _ _ hrest

theorem cacheInv_new (p : Nat) : CacheInv { owner := p, active := true } := by intro x h; cases h

theorem asDictOf_safe (o : Obj) (explicit : Bool) (attrs : List String)
    (hall : ∀ nm ∈ attrs, nm ∈ getterNames) :
    Tri (NspOnly o.pid) (Fe.asDictOf (goodCfg r) o explicit attrs) (fun _ => True) := by
  unfold Fe.asDictOf
  refine tri_bind (Q := fun _ => True) ?_ (fun entered _ => ?_)
  · unfold Fe.oneshotEnter
    refine tri_bind tri_getCache (fun k _ => ?_)
    split
    · exact tri_pure trivial
    · exact tri_bind (tri_modifyCache (fun _ _ => cacheInv_new o.pid)) (fun _ _ => tri_pure trivial)
  · refine tri_bind (Q := fun x => match x with
        | .ok _ => True
        | .error e => e = PyExc.nsp o.pid) ?_ (fun x hx => ?_)
    · refine tri_tryCatch (E' := NspOnly o.pid)
        (tri_bind (asDictLoop_safe r o explicit attrs 0 [] [] hall) (fun _ _ => tri_pure trivial))
        (fun e h => by cases h) (fun e m' h he => ?_)
      cases h
      obtain ⟨_, _, he⟩ := he
      exact tri_pure he
    · refine tri_bind (Q := fun _ => True) ?_ (fun _ _ => ?_)
      · unfold Fe.oneshotExit
        split
        · exact tri_modifyCache (fun _ _ => cacheInv_empty)
        · exact tri_pure trivial
      · cases x with
        | ok v => exact tri_pure trivial
        | error e => exact tri_throw (fun _ _ => hx)

theorem asDict_safe (o : Obj) (attrs : List String)
    (hall : ∀ nm ∈ attrs, nm ∈ getterNames) :
    Tri (NspOnly o.pid) (Fe.asDict (goodCfg r) o attrs) (fun _ => True) := asDictOf_safe r o true attrs hall

/-- as_dict() / as_dict(attrs=None): the same policy over every name of `_as_dict_attrnames` -/
theorem asDictAll_safe (o : Obj) (names : List String)
    (hall : ∀ nm ∈ names, nm ∈ getterNames) :
    Tri (NspOnly o.pid) (Fe.asDictAll (goodCfg r) o names) (fun _ => True) := asDictOf_safe r o false names hall

/-! ### process_iter(attrs): nothing escapes -/

theorem iterLoop_noexc (attrs : List String)
    (hall : ∀ nm ∈ attrs, nm ∈ getterNames) :
    ∀ qs : List Nat, Tri NoExc (Fe.iterLoop (goodCfg r) attrs qs) (fun _ => True) := by
  intro qs
  induction qs with
  | nil => unfold Fe.iterLoop; exact tri_pure trivial
  | cons q qs ih =>
    unfold Fe.iterLoop
    refine tri_bind (Q := fun _ => True) ?_ (fun x _ => tri_bind ih (fun _ _ => by split <;> exact tri_pure trivial))
    refine tri_tryCatch (E' := NspOnly q) ?_ (fun e h c k he => ?_) (fun e m' h he => ?_)
    · refine tri_bind (mkProcess_safe r q) (fun pr hpr => ?_)
      have := asDict_safe r pr attrs hall
      rw [hpr] at this
      exact tri_bind this (fun x _ => by obtain ⟨a, b, c⟩ := x; exact tri_pure trivial)
    · have : e = .nsp q := he
      subst this
      simp [goodCfg, catches, PyExc.bases] at h
    · obtain ⟨_, _, he⟩ := he
      have : e = .nsp q := he
      subst this
      simp [goodCfg, catches, PyExc.bases] at h
      subst h
      exact tri_pure trivial

theorem processIter_safe (attrs : List String)
    (hall : ∀ nm ∈ attrs, nm ∈ getterNames) :
    Tri NoExc (Fe.processIter (goodCfg r) attrs) (fun _ => True) := by
  unfold Fe.processIter
  refine tri_bind (Q := fun _ => True) ?_ (fun pids _ => ?_)
  · exact tri_access_never _ _ _ rfl (fun _ _ => ⟨_, rfl, trivial⟩)
  · exact tri_bind (iterLoop_noexc r attrs hall _) (fun _ _ => tri_pure trivial)

/-! ### children(), parent() -/

/-- a psutil error for `p`, or AccessDenied carrying the pid of another process the call looked at -/
def OrAd (p : Nat) : Ctx → Nat → PyExc → Prop := fun c k e => PsOnly p c k e ∨ ∃ q, e = .ad q

theorem childrenLoop_safe (o : Obj) : ∀ (pm : List (Nat × Nat)),
    Tri (OrAd o.pid) (Fe.childrenLoop (goodCfg r) o pm) (fun _ => True) := by
  intro pm
  induction pm with
  | nil => unfold Fe.childrenLoop; exact tri_pure trivial
  | cons x rest ih =>
    obtain ⟨q, pp⟩ := x
    unfold Fe.childrenLoop
    split
    · refine tri_bind (Q := fun _ => True) ?_
        (fun res _ => tri_bind ih (fun _ _ => by split <;> exact tri_pure trivial))
      refine tri_tryCatch (E' := fun c k e => PsOnly q c k e ∨ PsOnly o.pid c k e) ?_
        (fun e h c k he => ?_) (fun e m' h he => ?_)
      · refine tri_bind (tri_exc (mkProcess_safe r q) (fun _ _ _ h => Or.inl (nspOnly_psOnly h))) (fun ch hch => ?_)
        refine tri_bind (tri_exc (fe_createTime_safe r o) (fun _ _ _ h => Or.inr h)) (fun _ _ => ?_)
        have := fe_createTime_safe r ch
        rw [hch] at this
        exact tri_bind (tri_exc this (fun _ _ _ h => Or.inl h)) (fun _ _ => tri_pure trivial)
      · rcases he with he | he <;> rcases he with he | he | he <;> subst he <;>
          simp [goodCfg, catches, PyExc.bases] at h
        · exact Or.inr ⟨_, rfl⟩
        · exact Or.inr ⟨_, rfl⟩
      · obtain ⟨_, _, he⟩ := he
        rcases he with he | he <;> rcases he with he | he | he <;> subst he <;>
          simp [goodCfg, catches, PyExc.bases] at h <;> subst h <;> exact tri_pure trivial
    · exact ih

theorem children_partial_safe (o : Obj) : Tri (OrAd o.pid) (Fe.children (goodCfg r) o) (fun _ => True) := by
  unfold Fe.children
  refine tri_bind (tri_exc (raiseIfPidReused_safe r o) (fun _ _ _ h => Or.inl (nspOnly_psOnly h))) (fun _ _ => ?_)
  refine tri_bind (tri_exc (ppidMap_safe r) (fun _ _ _ h => h.elim)) (fun pm _ => ?_)
  exact tri_bind (childrenLoop_safe r o _) (fun _ _ => tri_pure trivial)

/-- the /proc listing is never empty (admissible worlds list a process besides the target) -/
theorem tri_listdir_root {E : Ctx → Nat → PyExc → Prop} : Tri E (accListdir .root) (fun l => l ≠ []) := by
  intro c s ha hi
  obtain ⟨res, s', h, hk, hc, hr⟩ :=
    access_spec (.fs .listdir .root) (fun w st => tblListdir w st .root) c s ha
  unfold accListdir
  rw [h]
  cases res with
  | ok l =>
    refine ⟨?_, by rw [hc]; exact hi⟩
    have hl := hr.1
    simp only [tblListdir] at hl
    injection hl with hl
    obtain ⟨i, hi1, hi2⟩ := ha.others
    intro hnil
    rw [hnil] at hl
    have : i.pid ∈ List.filterMap (fun i : ProcInfo =>
        if (i.pid == c.w.target && c.ws s.k == WS.gone) = true then none else some i.pid) c.w.procs := by
      refine List.mem_filterMap.2 ⟨i, hi1, ?_⟩
      have : (i.pid == c.w.target) = false := by simp [hi2]
      simp [this]
    rw [hl] at this
    cases this
  | error e =>
    rcases hr with ⟨_, ho, _⟩ | ⟨en, ht, _, _⟩
    · cases ho
    · simp [tblListdir] at ht

theorem foldl_min_none (l : List Nat) (a : Option Nat)
    (h : l.foldl (fun (m : Option Nat) x => match m with | none => some x | some y => some (min x y)) a = none) :
    l = [] ∧ a = none := by
  induction l generalizing a with
  | nil => exact ⟨rfl, h⟩
  | cons x xs ih =>
    simp only [List.foldl_cons] at h
    have := (ih _ h).2
    cases a <;> simp at this

theorem parent_partial_safe (o : Obj) : Tri (OrAd o.pid) (Fe.parent (goodCfg r) o) (fun _ => True) := by
  unfold Fe.parent
  refine tri_bind tri_listdir_root (fun pids hne => ?_)
  split
  · rename_i hnone
    exact absurd (foldl_min_none _ _ hnone).1 hne
  · split
    · exact tri_bind (tri_exc (rootStop_safe r o) (fun _ _ _ h => Or.inl (nspOnly_psOnly h))) (fun _ _ => tri_pure trivial)
    · refine tri_bind (tri_exc (fe_ppid_safe r o) (fun _ _ _ h => Or.inl h)) (fun pp _ => ?_)
      refine tri_bind (tri_exc (fe_createTime_safe r o) (fun _ _ _ h => Or.inl h)) (fun ct _ => ?_)
      refine tri_tryCatch (E' := fun c k e => PsOnly pp c k e) ?_ (fun e h c k he => ?_) (fun e m' h he => ?_)
      · refine tri_bind (tri_exc (mkProcess_safe r pp) (fun _ _ _ h => nspOnly_psOnly h)) (fun par hpar => ?_)
        have := fe_createTime_safe r par
        rw [hpar] at this
        exact tri_bind this (fun _ _ => by split <;> exact tri_pure trivial)
      · rcases he with he | he | he <;> subst he <;> simp [goodCfg, catches, PyExc.bases] at h
        exact Or.inr ⟨_, rfl⟩
      · obtain ⟨_, _, he⟩ := he
        rcases he with he | he | he <;> subst he <;>
          simp [goodCfg, catches, PyExc.bases] at h <;> subst h <;> exact tri_pure trivial

end Psutil.C03
