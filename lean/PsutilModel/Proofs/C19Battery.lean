/- Proofs/C19Battery.lean — helper lemmas for the battery part of Props/C19.lean -/
import PsutilModel.Proofs.C19
namespace Psutil.C19
open Spec

/-! ### lexicographic order on names, `min()` -/

theorem lexLe_refl (a : Bytes) : lexLe a a = true := by
  induction a with
  | nil => rfl
  | cons x xs ih => simp [lexLe, ih]

theorem lexLe_total (a b : Bytes) : lexLe a b = true ∨ lexLe b a = true := by
  induction a generalizing b with
  | nil => left; cases b <;> rfl
  | cons x xs ih =>
    cases b with
    | nil => right; rfl
    | cons y ys =>
      by_cases h1 : x < y
      · left; simp [lexLe, h1]
      · by_cases h2 : y < x
        · right; simp [lexLe, h2]
        · have : x = y := by omega
          subst this
          simp only [lexLe, Nat.lt_irrefl, if_false]
          exact ih ys

theorem lexLe_trans (a b c : Bytes) (h1 : lexLe a b = true) (h2 : lexLe b c = true) : lexLe a c = true := by
  induction a generalizing b c with
  | nil => cases c <;> rfl
  | cons x xs ih =>
    cases b with
    | nil => simp [lexLe] at h1
    | cons y ys =>
      cases c with
      | nil => simp [lexLe] at h2
      | cons z zs =>
        simp only [lexLe] at h1 h2 ⊢
        by_cases hxy : x < y
        · by_cases hyz : y < z
          · have : x < z := by omega
            simp [this]
          · by_cases hzy : z < y
            · simp [hyz, hzy] at h2
            · have : y = z := by omega
              subst this
              simp [hxy]
        · by_cases hyx : y < x
          · simp [hxy, hyx] at h1
          · have : x = y := by omega
            subst this
            simp only [hxy, if_false] at h1
            by_cases hxz : x < z
            · simp [hxz]
            · by_cases hzx : z < x
              · simp [hxz, hzx] at h2
              · simp only [hxz, hzx, if_false] at h2 ⊢
                exact ih ys zs h1 h2

theorem lexLe_antisymm (a b : Bytes) (h1 : lexLe a b = true) (h2 : lexLe b a = true) : a = b := by
  induction a generalizing b with
  | nil => cases b with
    | nil => rfl
    | cons y ys => simp [lexLe] at h2
  | cons x xs ih =>
    cases b with
    | nil => simp [lexLe] at h1
    | cons y ys =>
      simp only [lexLe] at h1 h2
      by_cases hxy : x < y
      · have : ¬ y < x := by omega
        simp [hxy, this] at h2
      · by_cases hyx : y < x
        · simp [hxy, hyx] at h1
        · have : x = y := by omega
          subst this
          simp only [hxy, if_false] at h1 h2
          rw [ih ys h1 h2]

theorem lexMin_mem (m : Bytes) (l : List Bytes) : lexMin m l ∈ m :: l := by
  induction l generalizing m with
  | nil => simp [lexMin]
  | cons x xs ih =>
    unfold lexMin
    split
    · have := ih m
      simp only [List.mem_cons] at this ⊢
      rcases this with h | h
      · exact Or.inl h
      · exact Or.inr (Or.inr h)
    · have := ih x
      simp only [List.mem_cons] at this ⊢
      rcases this with h | h
      · exact Or.inr (Or.inl h)
      · exact Or.inr (Or.inr h)

theorem lexMin_le_start (m : Bytes) (l : List Bytes) : lexLe (lexMin m l) m = true := by
  induction l generalizing m with
  | nil => exact lexLe_refl m
  | cons x xs ih =>
    unfold lexMin
    split
    · exact ih m
    · rename_i h
      have hx : lexLe x m = true := by
        rcases lexLe_total m x with h' | h'
        · exact absurd h' h
        · exact h'
      exact lexLe_trans _ _ _ (ih x) hx

theorem lexMin_le (m : Bytes) (l : List Bytes) : ∀ y ∈ m :: l, lexLe (lexMin m l) y = true := by
  induction l generalizing m with
  | nil => intro y hy; simp at hy; subst hy; exact lexLe_refl _
  | cons x xs ih =>
    intro y hy
    unfold lexMin
    split
    · rename_i h
      simp only [List.mem_cons] at hy
      rcases hy with rfl | rfl | hy
      · exact ih y y (by simp)
      · exact lexLe_trans _ _ _ (lexMin_le_start m xs) h
      · exact ih m y (by simp [hy])
    · rename_i h
      have hx : lexLe x m = true := by
        rcases lexLe_total m x with h' | h'
        · exact absurd h' h
        · exact h'
      simp only [List.mem_cons] at hy
      rcases hy with rfl | rfl | hy
      · exact lexLe_trans _ _ _ (lexMin_le_start x xs) hx
      · exact ih y y (by simp)
      · exact ih x y (by simp [hy])

/-! ### which battery -/

theorem find?_congr' {α : Type} (l : List α) (p q : α → Bool) (h : ∀ a ∈ l, p a = q a) :
    l.find? p = l.find? q := by
  induction l with
  | nil => rfl
  | cons a as ih =>
    simp only [List.find?_cons, h a (by simp)]
    rw [ih (fun x hx => h x (by simp [hx]))]

theorem ite_ok {ε α : Type} (c : Prop) [Decidable c] (a b : α) :
    (if c then (Except.ok a : Except ε α) else Except.ok b) = Except.ok (if c then a else b) := by
  split <;> rfl

theorem isBattery_eq (c : Cfg) (hg : c.Good) (n : Bytes) : isBattery c n = isBatteryName n := by
  unfold isBattery isBatteryName
  rw [hg.batPrefix, hg.batInfix]

/-- the battery the code picks (`min()` of the filtered names, then the directory of that name) is
    the specification's "battery whose name is the lexicographic minimum" -/
theorem first_battery (c : Cfg) (hg : c.Good) (ss : List Supply) (n : Bytes) (ns : List Bytes)
    (h : (ss.map (·.name)).filter (isBattery c) = n :: ns) :
    findSupply ss (lexMin n ns) = firstBattery ss := by
  have hfun : isBattery c = isBatteryName := funext (isBattery_eq c hg)
  rw [hfun] at h
  unfold firstBattery findSupply
  simp only
  rw [List.find?_filter]
  have hnames : ∀ x, x ∈ n :: ns ↔ ∃ s ∈ ss, isBatteryName s.name = true ∧ s.name = x := by
    intro x
    rw [← h]
    simp only [List.mem_filter, List.mem_map]
    constructor
    · rintro ⟨⟨s, hs, rfl⟩, hb⟩; exact ⟨s, hs, hb, rfl⟩
    · rintro ⟨s, hs, hb, rfl⟩; exact ⟨⟨s, hs, rfl⟩, hb⟩
  apply find?_congr'
  intro s hs
  have hmin_mem := (hnames _).mp (lexMin_mem n ns)
  rw [Bool.eq_iff_iff]
  simp only [decide_eq_true_eq, beq_iff_eq, List.all_eq_true, List.mem_filter]
  constructor
  · intro he
    obtain ⟨m, hm, hmb, hme⟩ := hmin_mem
    refine ⟨?_, fun b' hb' => ?_⟩
    · rw [he, ← hme]; exact hmb
    · rw [he]
      exact lexMin_le n ns _ ((hnames _).mpr ⟨b', hb'.1, hb'.2, rfl⟩)
  · rintro ⟨hb, hall⟩
    obtain ⟨m, hm, hmb, hme⟩ := hmin_mem
    have h1 := hall m ⟨hm, hmb⟩
    rw [hme] at h1
    have h2 := lexMin_le n ns s.name ((hnames _).mpr ⟨s, hs, hb, rfl⟩)
    exact lexLe_antisymm _ _ h1 h2

theorem no_battery (c : Cfg) (hg : c.Good) (ss : List Supply)
    (h : (ss.map (·.name)).filter (isBattery c) = []) : firstBattery ss = none := by
  have hfun : isBattery c = isBatteryName := funext (isBattery_eq c hg)
  rw [hfun, List.filter_map] at h
  have : ss.filter (fun s => isBatteryName s.name) = [] := by
    simpa [Function.comp_def] using h
  unfold firstBattery
  simp only [this, List.find?_nil]

/-! ### `multi_bcat` -/

def mvOf : Option MVal → Option (Option Int)
  | none => none
  | some (.int i) => some (some i)
  | some (.raw _) => some none

theorem mvOf_multi1 (a : FileState) : mvOf (multiBcat [a]) = fileInt a := by
  cases a with
  | absent => rfl
  | unreadable => rfl
  | content b => cases h : pyInt? b <;> simp [multiBcat, FileState.readOpt, fileInt, h, mvOf]

theorem mvOf_multi2 (a b : FileState) : mvOf (multiBcat [a, b]) = altInt a b := by
  cases a with
  | absent => simpa [multiBcat, FileState.readOpt, altInt, fileInt] using mvOf_multi1 b
  | unreadable => simpa [multiBcat, FileState.readOpt, altInt, fileInt] using mvOf_multi1 b
  | content x => cases h : pyInt? x <;> simp [multiBcat, FileState.readOpt, altInt, fileInt, h, mvOf]

theorem mval_beq_one (v : Int) : (MVal.int v == MVal.int 1) = (v == 1) := by
  by_cases h : v = 1 <;> simp [h]

/-! ### plugged / secsleft / percent -/

theorem plugged_eq (c : Cfg) (hg : c.Good) (ss : List Supply) (b : Supply) :
    pluggedOf ss b = batPlugged c ss b := by
  unfold pluggedOf batPlugged acOnline
  simp only [hg.ac0First, pair, if_true, findSupply]
  rw [← mvOf_multi2]
  generalize multiBcat _ = m
  cases m with
  | none =>
    simp only [mvOf, fileText]
    by_cases h1 : lower (stripWs (b.status.readOpt.getD [])) = bDischarging
    · simp [h1]
    · by_cases h2 : lower (stripWs (b.status.readOpt.getD [])) = bCharging ∨ lower (stripWs (b.status.readOpt.getD [])) = bFull
      · simp only [h1, if_false, h2, if_true]
      · simp only [h1, if_false, h2]
  | some v =>
    cases v with
    | int i => simp [mvOf, mval_beq_one]
    | raw r => simp [mvOf, ite_ok]

theorem secsleft_eq (c : Cfg) (hg : c.Good) (pl : Option Bool) (now pw tte : Option MVal)
    (h1 : mvOf now ≠ some none) (h2 : mvOf pw ≠ some none) (h3 : mvOf tte ≠ some none) :
    batSecsleft c pl now pw tte = .ok (secsleftOf pl (mvOf now).join (mvOf pw).join (mvOf tte).join) := by
  unfold batSecsleft secsleftOf
  rw [hg.unknown, hg.unlimited, hg.hourSecs, hg.minSecs]
  by_cases hp : pl = some true
  · simp [hp]
  · simp only [hp, if_false]
    cases now with
    | none =>
      cases tte with
      | none => cases pw <;> simp [mvOf, ite_ok]
      | some t => cases t with
        | int i => cases pw <;> simp [mvOf, ite_ok]
        | raw r => simp [mvOf] at h3
    | some n => cases n with
      | raw r => simp [mvOf] at h1
      | int n =>
        cases pw with
        | none =>
          cases tte with
          | none => simp [mvOf, ite_ok]
          | some t => cases t with
            | int i => simp [mvOf, ite_ok]
            | raw r => simp [mvOf] at h3
        | some p => cases p with
          | raw r => simp [mvOf] at h2
          | int p => by_cases hz : p = 0 <;> simp [mvOf, hz]

theorem findSupply_some (c : Cfg) (ss : List Supply) (n : Bytes) (ns : List Bytes)
    (h : (ss.map (·.name)).filter (isBattery c) = n :: ns) : ∃ b, findSupply ss (lexMin n ns) = some b := by
  have hm : lexMin n ns ∈ (ss.map (·.name)).filter (isBattery c) := by rw [h]; exact lexMin_mem n ns
  rw [List.mem_filter, List.mem_map] at hm
  obtain ⟨⟨s, hs, he⟩, _⟩ := hm
  cases hf : findSupply ss (lexMin n ns) with
  | some b => exact ⟨b, rfl⟩
  | none =>
    unfold findSupply at hf
    rw [List.find?_eq_none] at hf
    have := hf s hs
    simp [he] at this

def resOpt {α : Type} : Res α → Option α
  | .ok a => some a
  | .error _ => none

theorem capacity_eq (b : Supply) : capacityPercent b.capacity = resOpt (batCapacity b) := by
  unfold capacityPercent fileInt batCapacity
  cases hr : b.capacity.readOpt with
  | none => rfl
  | some cb =>
    cases hi : pyInt? cb with
    | none => simp [hi, resOpt]
    | some i => by_cases h1 : i = -1 <;> simp [hi, h1, resOpt]

theorem percent_eq (c : Cfg) (hg : c.Good) (b : Supply) (now full : Option MVal)
    (h1 : mvOf now ≠ some none) (h2 : mvOf full ≠ some none) :
    percentOf (mvOf now).join (mvOf full).join b.capacity = resOpt (batPercent c b now full) := by
  unfold batPercent percentOf
  rw [hg.pct]
  cases now with
  | none => cases full <;> simpa [mvOf] using capacity_eq b
  | some n => cases n with
    | raw r => simp [mvOf] at h1
    | int n =>
      cases full with
      | none => simpa [mvOf] using capacity_eq b
      | some f => cases f with
        | raw r => simp [mvOf] at h2
        | int f => by_cases hz : f = 0 <;> simp [mvOf, hz, resOpt]

/-- **the battery function refines its specification** -/
theorem battery_refines (c : Cfg) (hg : c.Good) (p : PowerTree) (v : Option BatOut)
    (hdir : c.noDirNone = true ∨ p.dirExists = true)
    (h : battery p = some v) : sensorsBattery c p = .ok v := by
  unfold battery at h
  unfold sensorsBattery
  cases hd : p.dirExists with
  | false =>
    have hn : c.noDirNone = true := by
      rcases hdir with h' | h'
      · exact h'
      · rw [hd] at h'; cases h'
    simp only [hd, Bool.not_false, if_true, Option.some.injEq] at h
    simp [hn, ← h]
  | true =>
    simp only [hd, Bool.not_true, Bool.false_eq_true, if_false] at h ⊢
    cases hn : (p.supplies.map (·.name)).filter (isBattery c) with
    | nil =>
      rw [no_battery c hg _ hn] at h
      simp only at h ⊢
      rw [← Option.some.inj h]
    | cons n ns =>
      obtain ⟨b, hb⟩ := findSupply_some c p.supplies n ns hn
      have hfb := first_battery c hg p.supplies n ns hn
      rw [hb] at hfb
      rw [← hfb] at h
      simp only [hb]
      simp only [hg.energyNowFirst, hg.powerNowFirst, hg.energyFullFirst, pair, if_true]
      simp only [← mvOf_multi2, ← mvOf_multi1] at h
      generalize multiBcat [b.energyNow, b.chargeNow] = x1 at h ⊢
      generalize multiBcat [b.powerNow, b.currentNow] = x2 at h ⊢
      generalize multiBcat [b.energyFull, b.chargeFull] = x3 at h ⊢
      generalize multiBcat [b.timeToEmpty] = x4 at h ⊢
      by_cases hgar : mvOf x1 = some none ∨ mvOf x2 = some none ∨ mvOf x3 = some none ∨ mvOf x4 = some none
      · simp [hgar] at h
      · simp only [hgar, if_false] at h
        have g1 : mvOf x1 ≠ some none := fun e => hgar (Or.inl e)
        have g2 : mvOf x2 ≠ some none := fun e => hgar (Or.inr (Or.inl e))
        have g3 : mvOf x3 ≠ some none := fun e => hgar (Or.inr (Or.inr (Or.inl e)))
        have g4 : mvOf x4 ≠ some none := fun e => hgar (Or.inr (Or.inr (Or.inr e)))
        rw [percent_eq c hg b x1 x3 g1 g3] at h
        cases hp : batPercent c b x1 x3 with
        | error e => simp [hp, resOpt] at h
        | ok r =>
          rw [hp] at h
          cases r with
          | none => simp only [resOpt] at h; simp only; rw [← Option.some.inj h]
          | some pc =>
            simp only [resOpt] at h
            by_cases hac : acOnline p.supplies = some none
            · simp [hac] at h
            simp only [hac, if_false] at h
            simp only
            rw [secsleft_eq c hg _ x1 x2 x4 g1 g2 g4]
            simp only
            rw [← plugged_eq c hg]
            rw [← Option.some.inj h]

end Psutil.C19
