/-
  Proofs/C20FaultsFixed.lean — the table behind `C20_method_faults_within_spec` (repaired configuration).
-/
import PsutilModel.Proofs.C20Faults
namespace Psutil.C20

theorem faults_table_repaired :
    ∀ p ∈ Platform.all, ∀ row ∈ tracesOf p,
      traceRowOKc (variantCfg true) (variantMethod true) (fun _ _ _ => false) p row = true := by
  decide +kernel

end Psutil.C20
