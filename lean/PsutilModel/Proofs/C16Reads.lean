/-
  Proofs/C16Reads.lean — which opens of /proc/<pid>/stat go through the block cache and which do
  not. `reads` counts the successful reads of this object's cached read routines
  (`_parse_stat_file`, …), `probes` the reads of `stat` that bypass the cache by design:
    * identity probe — `_raise_if_pid_reused()` → `is_running()` → a FRESH `Process(pid)` reads
      `stat` for the start time (methods with `guard`: ppid). C01 requires this read to be fresh
      (a cached answer lets signals reach a recycled PID: seeded change C01-1);
    * zombie probe — `_is_zombie()` after an empty smaps/cmdline (methods with `zprobe`).
  Here: the exact number of probes of one call, and the frame "no guard, no zprobe ⇒ no probe".
-/
import PsutilModel.Proofs.C16Seq
namespace Psutil.C16

theorem helper_probes (c : Cfg) (st : St) (w : World) (s : Src) :
    (helper c st w s).1.probes = st.probes := by
  unfold helper rawRead
  cases hw : w.read s <;> simp only <;> (repeat' split) <;> rfl

theorem readAll_probes (c : Cfg) (w : World) (l : List Src) (st : St) :
    (readAll c w st l).1.probes = st.probes := by
  induction l generalizing st with
  | nil => rfl
  | cons s rest ih =>
    unfold readAll
    have h1 := helper_probes c st w s
    rcases hm : helper c st w s with ⟨st1, r1⟩
    rw [hm] at h1
    cases r1 with
    | error e => exact h1
    | ok c0 =>
      simp only
      have h2 := ih st1
      rcases hm2 : readAll c w st1 rest with ⟨st2, r2⟩
      rw [hm2] at h2
      cases r2 <;> simp_all

/-- the zombie probe runs iff the method checks for it, its first source came back empty and the
    directory still exists -/
def zprobeRuns (c : Cfg) (m : Meth) (st : St) (w : World) : Bool :=
  match readAll c w st (m.eff w) with
  | (_, .ok cs) => m.zprobe && cs.head? == some Content.empty && !(w.st == PState.gone)
  | _ => false

theorem platCall_probes (c : Cfg) (m : Meth) (st : St) (w : World) :
    (platCall c m st w).1.probes = st.probes + (if zprobeRuns c m st w then 1 else 0) := by
  unfold platCall zprobeRuns
  have h1 := readAll_probes c w (m.eff w) st
  rcases hm : readAll c w st (m.eff w) with ⟨st1, r1⟩
  rw [hm] at h1
  cases r1 with
  | error e => simpa using h1
  | ok cs =>
    simp only
    split
    · rename_i hz
      unfold zombieProbe
      cases hw : w.st <;> simp_all
    · rename_i hz
      simp only [Bool.not_eq_true] at hz
      have h1' : st1.probes = st.probes := h1
      simp [hz, h1']

theorem zprobeRuns_zprobe (c : Cfg) (m : Meth) (st : St) (w : World) (h : zprobeRuns c m st w = true) :
    m.zprobe = true := by
  unfold zprobeRuns at h
  split at h
  · simp only [Bool.and_eq_true] at h; exact h.1.1
  · cases h

theorem zprobeRuns_le (c : Cfg) (m : Meth) (st : St) (w : World) :
    (if zprobeRuns c m st w = true then 1 else 0) ≤ (if m.zprobe = true then 1 else 0) := by
  cases h : zprobeRuns c m st w
  · simp
  · simp [zprobeRuns_zprobe c m st w h]

/-- the identity probe runs iff the front-end method calls `_raise_if_pid_reused()` and the
    directory still exists -/
def guardRuns (m : Meth) (w : World) : Bool := m.guard && !(w.st == PState.gone)

theorem guardProbe_probes (st : St) (w : World) :
    (guardProbe st w).probes = st.probes + (if w.st == PState.gone then 0 else 1) := by
  unfold guardProbe
  cases w.st <;> rfl

theorem frontGuarded_probes (c : Cfg) (m : Meth) (st : St) (w : World) :
    (frontGuarded c m st w).1.probes ≤ st.probes + (if guardRuns m w then 1 else 0) + (if m.zprobe then 1 else 0) ∧
    st.probes + (if guardRuns m w then 1 else 0) ≤ (frontGuarded c m st w).1.probes + (if m.goneCheck && w.st == PState.gone then 1 else 0) := by
  unfold frontGuarded guardRuns
  split
  · rename_i hgc
    simp only [Bool.and_eq_true, beq_iff_eq] at hgc
    simp [hgc.2]
  · rename_i hgc
    unfold frontBody
    rw [platCall_probes]
    cases hgd : m.guard
    · have hz := zprobeRuns_le c m st w
      simp only [Bool.false_and, Bool.false_eq_true, if_false, Nat.add_zero] at hz ⊢
      constructor <;> omega
    · have hz := zprobeRuns_le c m (guardProbe st w) w
      simp only [if_true, Bool.true_and] at hz ⊢
      rw [guardProbe_probes]
      cases hw : w.st <;> simp_all <;> omega

/-- a method that neither re-validates the PID nor checks for a zombie never probes -/
theorem call_probes_clean (c : Cfg) (m : Meth) (st : St) (w : World) (hg : m.guard = false)
    (hz : m.zprobe = false) : (call c m st w).1.probes = st.probes := by
  have hfg : ∀ st, (frontGuarded c m st w).1.probes = st.probes := by
    intro st
    have := frontGuarded_probes c m st w
    simp only [guardRuns, hg, hz, Bool.false_and, Bool.false_eq_true, if_false, Nat.add_zero] at this
    have h2 : (if (m.goneCheck && w.st == PState.gone) = true then 1 else 0) ≤ 1 := by split <;> omega
    unfold frontGuarded at this ⊢
    split
    · rfl
    · rename_i hgc
      simp only [hgc, Bool.false_eq_true, if_false, Nat.add_zero] at this
      omega
  unfold call
  split
  · exact hfg st
  · split
    · split
      · exact hfg st
      · split
        · rfl
        · have := hfg st
          rcases hm : frontGuarded c m st w with ⟨st', r⟩
          rw [hm] at this
          cases r <;> simpa using this
    · exact hfg st

/-- a front-end cache HIT does nothing at all: no read, no probe -/
theorem call_hit_noop (c : Cfg) (m : Meth) (st : St) (w : World) (f : FFun) (d : List (FFun × Val)) (v : Val)
    (hf : m.front = some f) (hm : c.memoFront.contains f = true) (hc : st.cache = some d)
    (hl : d.lookup f = some v) : call c m st w = (st, .ok v) := by
  have hm' : f ∈ c.memoFront := by simpa using hm
  unfold call
  simp [hf, hm', hc, hl]

theorem activate_probes (c : Cfg) (st : St) : (activate c st).probes = st.probes := by
  unfold activate
  have h1 : ∀ (l : List FFun) (st : St), (l.foldl (fun st _ => { st with cache := some [] }) st).probes = st.probes := by
    intro l; induction l with
    | nil => intro st; rfl
    | cons _ _ ih => intro st; simp only [List.foldl_cons]; rw [ih]
  have h2 : ∀ (l : List Src) (st : St), (l.foldl (fun st _ => { st with pcache := some [] }) st).probes = st.probes := by
    intro l; induction l with
    | nil => intro st; rfl
    | cons _ _ ih => intro st; simp only [List.foldl_cons]; rw [ih]
  simp only
  rw [h2, h1]

theorem deactivate_probes (c : Cfg) (st : St) : (deactivate c st).1.probes = st.probes := by
  unfold deactivate
  have h1 : ∀ (l : List FFun) (a : St × Bool), (l.foldl (fun a _ => delFront c a) a).1.probes = a.1.probes := by
    intro l; induction l with
    | nil => intro a; rfl
    | cons _ _ ih =>
      intro a; simp only [List.foldl_cons]; rw [ih]
      unfold delFront; split <;> rfl
  have h2 : ∀ (l : List Src) (a : St × Bool), (l.foldl (fun a _ => delProc c a) a).1.probes = a.1.probes := by
    intro l; induction l with
    | nil => intro a; rfl
    | cons _ _ ih =>
      intro a; simp only [List.foldl_cons]; rw [ih]
      unfold delProc; split <;> rfl
  simp only
  rw [h2, h1]

theorem enter_probes (c : Cfg) (st : St) : (enter c st).probes = st.probes := by
  unfold enter
  split
  · rfl
  · exact activate_probes c st

theorem exit_probes (c : Cfg) (st : St) (b : Bool) : (exit c st b).1.probes = st.probes := by
  unfold exit
  split
  · rfl
  · rfl
  · split
    · rfl
    · have := deactivate_probes c st
      rcases hd : deactivate c st with ⟨st', ok⟩
      rw [hd] at this
      exact this

/-- the names a history may touch without leaving the probe-free region -/
def cleanName (c : Cfg) (n : String) : Bool :=
  match findMeth c n with
  | some m => !m.guard && !m.zprobe
  | none => true

def cleanOp (c : Cfg) : Op → Bool
  | .call i => match c.meths[i]? with
    | some m => !m.guard && !m.zprobe
    | none => true
  | .asDict a => a.attrs.all (cleanName c) && a.allOrder.all (cleanName c)
  | _ => true

theorem evalName_probes_clean (c : Cfg) (env : List (String × EnvOut)) (st : St) (w : World) (n : String)
    (h : cleanName c n = true) : (evalName c env st w n).1.probes = st.probes := by
  unfold evalName
  split
  · rfl
  · unfold cleanName at h
    split
    · rename_i m hm
      rw [hm] at h
      simp only [Bool.and_eq_true, Bool.not_eq_eq_eq_not, Bool.not_true] at h
      have := call_probes_clean c m st w h.1 h.2
      rcases hc : call c m st w with ⟨st', r⟩
      rw [hc] at this
      cases r <;> simpa using this
    · rfl

theorem asDictLoop_probes_clean (c : Cfg) (env : List (String × EnvOut)) (explicit : Bool) (w : World)
    (l : List String) (st : St) (acc : List (String × DVal)) (h : l.all (cleanName c) = true) :
    (asDictLoop c env explicit w st l acc).1.probes = st.probes := by
  induction l generalizing st acc with
  | nil => rfl
  | cons n rest ih =>
    simp only [List.all_cons, Bool.and_eq_true] at h
    unfold asDictLoop
    have h1 := evalName_probes_clean c env st w n h.1
    rcases he : evalName c env st w n with ⟨st1, r⟩
    rw [he] at h1
    cases r with
    | ok v => simp only; rw [ih st1 _ h.2]; exact h1
    | error e =>
      simp only
      split
      · rw [ih st1 _ h.2]; exact h1
      · split
        · rw [ih st1 _ h.2]; exact h1
        · exact h1

theorem asDictBody_probes_clean (c : Cfg) (a : AsDictArg) (st : St) (w : World)
    (h1 : a.attrs.all (cleanName c) = true) (h2 : a.allOrder.all (cleanName c) = true) :
    (asDictBody c a st w).1.probes = st.probes := by
  unfold asDictBody
  simp only
  have hl : (if (decide (a.kind = AttrsKind.names) && !(c.emptyMeansAll && a.attrs.isEmpty)) = true then a.attrs
      else a.allOrder).all (cleanName c) = true := by split <;> assumption
  have h3 := asDictLoop_probes_clean c a.env (decide (a.kind = AttrsKind.names) && !a.attrs.isEmpty) w _
    (enter c st) [] hl
  rcases hloop : asDictLoop c a.env (decide (a.kind = AttrsKind.names) && !a.attrs.isEmpty) w (enter c st)
      (if (decide (a.kind = AttrsKind.names) && !(c.emptyMeansAll && a.attrs.isEmpty)) = true then a.attrs
        else a.allOrder) [] with ⟨st2, out⟩
  rw [hloop] at h3
  simp only
  rw [exit_probes, h3, enter_probes]

theorem step_probes_clean (c : Cfg) (hv : c.validatesFirst = true) (y : Sys) (op : Op) (h : cleanOp c op = true) :
    (step c y op).1.st.probes = y.st.probes := by
  cases op with
  | enter => exact enter_probes c y.st
  | exit b =>
    have := exit_probes c y.st b
    simp only [step]
    rcases he : exit c y.st b with ⟨st', ok⟩
    rw [he] at this
    exact this
  | call i =>
    simp only [step]
    simp only [cleanOp] at h
    cases hm : c.meths[i]? with
    | none => rfl
    | some m =>
      rw [hm] at h
      simp only [Bool.and_eq_true, Bool.not_eq_eq_eq_not, Bool.not_true] at h
      have := call_probes_clean c m y.st y.w h.1 h.2
      simp only
      rcases hc : call c m y.st y.w with ⟨st', r⟩
      rw [hc] at this
      exact this
  | asDict a =>
    simp only [cleanOp, Bool.and_eq_true] at h
    simp only [step]
    have hb := asDictBody_probes_clean c a y.st y.w h.1 h.2
    have : (asDict c a y.st y.w).1.probes = y.st.probes := by
      unfold asDict
      rw [hv]
      simp only [if_true]
      cases a.kind with
      | nonCollection => rfl
      | none => exact hb
      | names =>
        simp only
        split
        · rfl
        · exact hb
    rcases hc : asDict c a y.st y.w with ⟨st', d⟩
    rw [hc] at this
    exact this
  | setVer s v => rfl
  | setDenied s b => rfl
  | setState p => rfl
  | setAbsent s b => rfl

theorem runAll_probes_clean (c : Cfg) (hv : c.validatesFirst = true) (ops : List Op) (y : Sys)
    (h : ops.all (cleanOp c) = true) : (runAll c y ops).st.probes = y.st.probes := by
  induction ops generalizing y with
  | nil => rfl
  | cons op rest ih =>
    simp only [List.all_cons, Bool.and_eq_true] at h
    unfold runAll
    rw [ih _ h.2, step_probes_clean c hv y op h.1]

end Psutil.C16
