/- Proofs/C06Status.lean — lemmas about the status-file regexes (work in progress). -/
import PsutilModel.Proofs.C06
namespace Psutil.C06
end Psutil.C06
