/- Proofs/C06Status.lean — lemmas about the status-file regexes of C06. -/
import PsutilModel.Proofs.C06
import PsutilModel.Proofs.C06Sep
namespace Psutil.C06
open Spec

/-! ### digit runs and groups -/

theorem spanDigits_append (d rest : Bytes) (hd : ∀ c ∈ d, isDigit c = true)
    (hr : ∀ c, rest.head? = some c → isDigit c = false) : spanDigits (d ++ rest) = (d, rest) := by
  induction d with
  | nil =>
    cases rest with
    | nil => rfl
    | cons c cs => simp [spanDigits, hr c rfl]
  | cons x xs ih =>
    have hx : isDigit x = true := hd x (by simp)
    have ih' := ih (fun c hc => hd c (by simp [hc]))
    simp [spanDigits, hx, ih']

/-- one `\t(\d+)` group over a kernel-printed number followed by a non-digit -/
theorem matchGroups_succ_dec (n v : Nat) (rest : Bytes)
    (hr : ∀ c, rest.head? = some c → isDigit c = false) :
    matchGroups (n + 1) (9 :: (renderDec v ++ rest))
      = (match matchGroups n rest with
         | some (ds, r) => some (renderDec v :: ds, r)
         | none => none) := by
  have hs := spanDigits_append (renderDec v) rest (renderDec_isDigit v) hr
  have hne : (renderDec v).isEmpty = false := by
    cases h : renderDec v with
    | nil => exact absurd h (renderDec_ne_nil v)
    | cons _ _ => rfl
  simp [matchGroups, hs, hne]
  rfl

/-! ### literal prefixes -/

theorem dropPrefix?_append (k rest : Bytes) : dropPrefix? k (k ++ rest) = some rest := by
  induction k with
  | nil => cases rest <;> rfl
  | cons x xs ih => simp [dropPrefix?, ih]

theorem dropPrefix?_eq_some {k s r : Bytes} (h : dropPrefix? k s = some r) : s = k ++ r := by
  induction k generalizing s with
  | nil => cases s <;> simp [dropPrefix?] at h <;> simp [h]
  | cons x xs ih =>
    cases s with
    | nil => simp [dropPrefix?] at h
    | cons c cs =>
      by_cases hxc : x = c
      · subst hxc
        simp only [dropPrefix?, if_true] at h
        rw [ih h]; rfl
      · simp [dropPrefix?, hxc] at h

/-- a line with another key never matches `KEY:` at its start -/
theorem dropPrefix?_other_key (k1 k2 more : Bytes) (hne : k2 ≠ k1) (h1 : 58 ∉ k1) (h2 : 58 ∉ k2) :
    dropPrefix? (k1 ++ [58]) (k2 ++ 58 :: more) = none := by
  induction k1 generalizing k2 with
  | nil =>
    cases k2 with
    | nil => exact absurd rfl hne
    | cons c cs =>
      have hc : (58 : Nat) ≠ c := fun e => h2 (by simp [e])
      simp [dropPrefix?, hc]
  | cons x xs ih =>
    cases k2 with
    | nil =>
      have hx : x ≠ 58 := fun e => h1 (by simp [e])
      simp [dropPrefix?, hx]
    | cons c cs =>
      by_cases hxc : x = c
      · subst hxc
        have : cs ≠ xs := fun e => hne (by rw [e])
        simp only [List.cons_append, dropPrefix?, if_true]
        exact ih cs this (fun m => h1 (by simp [m])) (fun m => h2 (by simp [m]))
      · simp [dropPrefix?, hxc]

/-! ### anchored search: only line starts are tried -/

theorem findAllGo_anch_rest_of_line (key : Bytes) (n : Nat) (l rest : Bytes) (hl : 10 ∉ l) :
    findAllGo true key n 0 false (l ++ 10 :: rest) = findAllGo true key n 0 true rest := by
  induction l with
  | nil => simp [findAllGo]
  | cons c cs ih =>
    have hc : (c == 10) = false := by
      have : c ≠ 10 := fun e => hl (by simp [e])
      simp [this]
    simp only [List.cons_append, findAllGo, Bool.not_false, Bool.and_self, if_true, hc]
    exact ih (fun m => hl (by simp [m]))

theorem findAllGo_anch_skip_line (key : Bytes) (n : Nat) (l rest : Bytes) (hl : 10 ∉ l)
    (hm : matchAt key n (l ++ 10 :: rest) = none) :
    findAllGo true key n 0 true (l ++ 10 :: rest) = findAllGo true key n 0 true rest := by
  cases l with
  | nil =>
    simp only [List.nil_append] at hm ⊢
    simp [findAllGo, hm]
  | cons c cs =>
    have hc : (c == 10) = false := by
      have : c ≠ 10 := fun e => hl (by simp [e])
      simp [this]
    simp only [List.cons_append] at hm ⊢
    simp only [findAllGo, Bool.not_true, Bool.and_false, Bool.false_eq_true, if_false, hm, hc]
    exact findAllGo_anch_rest_of_line key n cs rest (fun m => hl (by simp [m]))

theorem findAllGo_anch_hit (key : Bytes) (n : Nat) (c : Nat) (cs : Bytes) (gs : List Bytes) (r : Bytes)
    (hm : matchAt key n (c :: cs) = some (gs, r)) :
    ∃ tl, findAllGo true key n 0 true (c :: cs) = gs :: tl := by
  refine ⟨findAllGo true key n (cs.length - r.length) (c == 10) cs, ?_⟩
  simp [findAllGo, hm]

/-! ### whole status files, anchored patterns -/

/-- a line the anchored pattern `^K:` skips: another key, one line -/
def Skippable (K : Bytes) (kv : Bytes × Bytes) : Prop :=
  kv.1 ≠ K ∧ 58 ∉ kv.1 ∧ 10 ∉ kv.1 ∧ 10 ∉ kv.2

theorem renderLines_append (a b : List (Bytes × Bytes)) :
    renderLines (a ++ b) = renderLines a ++ renderLines b := by
  simp [renderLines]

theorem renderLines_cons (kv : Bytes × Bytes) (b : List (Bytes × Bytes)) :
    renderLines (kv :: b) = statusLine kv ++ renderLines b := by
  simp [renderLines]

theorem statusLine_shape (kv : Bytes × Bytes) (rest : Bytes) :
    statusLine kv ++ rest = (kv.1 ++ [58, 9] ++ kv.2) ++ 10 :: rest := by
  simp [statusLine]

theorem skip_lines (K : Bytes) (hK : 58 ∉ K) (n : Nat) (ls : List (Bytes × Bytes)) (rest : Bytes)
    (h : ∀ kv ∈ ls, Skippable K kv) :
    findAllGo true (K ++ [58]) n 0 true (renderLines ls ++ rest)
      = findAllGo true (K ++ [58]) n 0 true rest := by
  induction ls with
  | nil => simp [renderLines]
  | cons kv ls ih =>
    obtain ⟨hne, h58, h10k, h10v⟩ := h kv (by simp)
    rw [renderLines_cons, List.append_assoc, statusLine_shape]
    rw [findAllGo_anch_skip_line]
    · exact ih (fun x hx => h x (by simp [hx]))
    · intro hm
      simp only [List.mem_append, List.mem_cons, List.not_mem_nil, or_false] at hm
      rcases hm with (h | h | h) | h
      · exact h10k h
      · omega
      · omega
      · exact h10v h
    · unfold matchAt
      have : (kv.1 ++ [58, 9] ++ kv.2) ++ 10 :: (renderLines ls ++ rest)
          = kv.1 ++ 58 :: (9 :: kv.2 ++ 10 :: (renderLines ls ++ rest)) := by simp
      rw [this, dropPrefix?_other_key K kv.1 _ hne hK h58]

theorem escName_no_nl (c : Bytes) : 10 ∉ escName c := by
  induction c using escName.induct with
  | case1 => simp [escName]
  | case2 cs ih => simp [escName, ih]
  | case3 cs ih => simp [escName, ih]
  | case4 c cs h1 h2 ih =>
    rw [escName]
    · intro hm
      rcases List.mem_cons.mp hm with h | h
      · exact h1 h.symm
      · exact ih h
    · exact h1
    · exact h2

theorem tabbed_chars (ns : List Nat) : ∀ c ∈ tabbed ns, c = 9 ∨ isDigit c = true := by
  intro c hc
  rcases mem_joinWith hc with h | ⟨f, hf, hcf⟩
  · left; simpa using h
  · right
    obtain ⟨n, _, rfl⟩ := List.mem_map.mp hf
    exact renderDec_isDigit n c hcf

theorem tabbed_no_nl (ns : List Nat) : 10 ∉ tabbed ns := by
  intro h
  rcases tabbed_chars ns 10 h with h | h
  · omega
  · simp [isDigit] at h

theorem key_facts :
    58 ∉ keyUid ∧ 58 ∉ keyGid ∧ 58 ∉ keyThreads ∧ 58 ∉ keyName ∧ 10 ∉ keyName ∧ 10 ∉ keyUid ∧ 10 ∉ keyGid
    ∧ keyName ≠ keyUid ∧ keyName ≠ keyGid ∧ keyName ≠ keyThreads ∧ keyUid ≠ keyGid
    ∧ keyUid ≠ keyThreads ∧ keyGid ≠ keyThreads := by decide

theorem skippable_name (K : Bytes) (hK : keyName ≠ K) (comm : Bytes) :
    Skippable K (keyName, escName comm) :=
  ⟨hK, key_facts.2.2.2.1, key_facts.2.2.2.2.1, escName_no_nl comm⟩

theorem skippable_idLine (K k : Bytes) (v : Nat × Nat × Nat × Nat) (hK : k ≠ K) (h58 : 58 ∉ k)
    (h10 : 10 ∉ k) : Skippable K (idLine k v) :=
  ⟨hK, h58, h10, tabbed_no_nl _⟩

theorem skippable_other (K : Bytes) (kv : Bytes × Bytes) (hK : kv.1 ≠ K) (h : OtherLine kv) :
    Skippable K kv := ⟨hK, h.2.2.2.1, h.2.2.2.2.1, h.2.2.2.2.2⟩

/-- the id line itself: `K:\ta\tb\tc\td\n` gives the first three numbers -/
theorem matchAt_idLine (k : Bytes) (v : Nat × Nat × Nat × Nat) (rest : Bytes) :
    ∃ r, matchAt (k ++ [58]) 3 (statusLine (idLine k v) ++ rest)
      = some ([renderDec v.1, renderDec v.2.1, renderDec v.2.2.1], r) := by
  obtain ⟨a, b, c, d⟩ := v
  have hshape : statusLine (idLine k (a, b, c, d)) ++ rest
      = (k ++ [58]) ++ (9 :: (renderDec a ++ (9 :: (renderDec b ++ (9 :: (renderDec c
          ++ (9 :: (renderDec d ++ 10 :: rest)))))))) := by
    simp [statusLine, idLine, tabbed, joinWith]
  refine ⟨9 :: (renderDec d ++ 10 :: rest), ?_⟩
  unfold matchAt
  rw [hshape, dropPrefix?_append]
  dsimp only
  have h9 : ∀ (t : Bytes) (c : Nat), (9 :: t).head? = some c → isDigit c = false := by
    intro t c h; simp at h; subst h; decide
  rw [matchGroups_succ_dec 2 a _ (h9 _), matchGroups_succ_dec 1 b _ (h9 _),
    matchGroups_succ_dec 0 c _ (h9 _)]
  simp [matchGroups]

theorem matchAt_numLine (k : Bytes) (v : Nat) (rest : Bytes) :
    matchAt (k ++ [58]) 1 (statusLine (k, renderDec v) ++ rest) = some ([renderDec v], 10 :: rest) := by
  have hshape : statusLine (k, renderDec v) ++ rest = (k ++ [58]) ++ (9 :: (renderDec v ++ 10 :: rest)) := by
    simp [statusLine]
  unfold matchAt
  rw [hshape, dropPrefix?_append]
  dsimp only
  rw [matchGroups_succ_dec 0 v _ (by intro c h; simp at h; subst h; decide)]
  simp [matchGroups]

theorem statusLine_cons (kv : Bytes × Bytes) (rest : Bytes) (hk : kv.1 ≠ []) :
    ∃ c cs, statusLine kv ++ rest = c :: cs := by
  cases h : kv.1 with
  | nil => exact absurd h hk
  | cons c cs => exact ⟨c, cs ++ [58, 9] ++ kv.2 ++ [10] ++ rest, by simp [statusLine, h]⟩

/-- general shape: skippable lines, then the line with key `K` -/
theorem findAll_anch_lines (K : Bytes) (hK : 58 ∉ K) (hKne : K ≠ []) (n : Nat) (L1 : List (Bytes × Bytes))
    (v : Bytes) (rest : Bytes) (gs : List Bytes) (r : Bytes)
    (hskip : ∀ kv ∈ L1, Skippable K kv)
    (hm : matchAt (K ++ [58]) n (statusLine (K, v) ++ rest) = some (gs, r)) :
    ∃ tl, findAll true (K ++ [58]) n (renderLines L1 ++ (statusLine (K, v) ++ rest)) = gs :: tl := by
  unfold findAll
  rw [skip_lines K hK n L1 _ hskip]
  obtain ⟨c, cs, hc⟩ := statusLine_cons (K, v) rest hKne
  rw [hc] at hm ⊢
  exact findAllGo_anch_hit _ n c cs gs r hm

/-! ### uids / gids / num_threads on a kernel-rendered status file -/

theorem decOf_renderDec (n : Nat) : decOf (renderDec n) = .ok n := by
  simp [decOf, parseDec_renderDec]

theorem readStatus_good (c : Cfg) (hg : c.Good) (f : Bytes) : readStatus c f = f := by
  simp [readStatus, hg.statusBinary]

theorem ids3_of_head (anch : Bool) (key data : Bytes) (a b c : Nat) (tl : List (List Bytes))
    (h : findAll anch key 3 data = [renderDec a, renderDec b, renderDec c] :: tl) :
    ids3 anch key Sep.tabOne data = .ok (a, b, c) := by
  simp [ids3, findAllS_tabOne, h, decOf_renderDec, bind, Except.bind, pure, Except.pure]

theorem other_lines (r : StatusRec) (hwf : r.WF) :
    (∀ kv ∈ r.pre, OtherLine kv) ∧ (∀ kv ∈ r.mid1, OtherLine kv) ∧ (∀ kv ∈ r.mid2, OtherLine kv) :=
  ⟨fun kv h => hwf kv (by simp [h]), fun kv h => hwf kv (by simp [h]), fun kv h => hwf kv (by simp [h])⟩

theorem uids_extract (c : Cfg) (hg : c.Good) (r : StatusRec) (hwf : r.WF) :
    uids c (renderStatus r) = .ok (Spec.uids r) := by
  obtain ⟨hpre, _, _⟩ := other_lines r hwf
  unfold uids
  rw [readStatus_good c hg, hg.uidAnchored, hg.uidKey, hg.uidSep]
  have hshape : renderStatus r = renderLines ((keyName, escName r.comm) :: r.pre)
      ++ (statusLine (keyUid, (idLine keyUid r.uid).2)
        ++ renderLines ([idLine keyGid r.gid] ++ r.mid1 ++ [(keyThreads, renderDec r.threads)] ++ r.mid2
            ++ [(keyVol, renderDec r.vol), (keyNonvol, renderDec r.nonvol)])) := by
    simp [renderStatus, statusLines, renderLines, idLine]
  obtain ⟨rr, hm⟩ := matchAt_idLine keyUid r.uid (renderLines ([idLine keyGid r.gid] ++ r.mid1
    ++ [(keyThreads, renderDec r.threads)] ++ r.mid2
    ++ [(keyVol, renderDec r.vol), (keyNonvol, renderDec r.nonvol)]))
  obtain ⟨tl, htl⟩ := findAll_anch_lines keyUid key_facts.1 (by decide) 3
    ((keyName, escName r.comm) :: r.pre) _ _ _ rr
    (by
      intro kv hkv
      rcases List.mem_cons.mp hkv with h | h
      · subst h; exact skippable_name keyUid key_facts.2.2.2.2.2.2.2.1 r.comm
      · exact skippable_other keyUid kv (hpre kv h).1 (hpre kv h))
    hm
  rw [hshape]
  exact ids3_of_head _ _ _ _ _ _ tl htl

theorem gids_extract (c : Cfg) (hg : c.Good) (r : StatusRec) (hwf : r.WF) :
    gids c (renderStatus r) = .ok (Spec.gids r) := by
  obtain ⟨hpre, _, _⟩ := other_lines r hwf
  unfold gids
  rw [readStatus_good c hg, hg.gidAnchored, hg.gidKey, hg.gidSep]
  have hshape : renderStatus r = renderLines ((keyName, escName r.comm) :: r.pre ++ [idLine keyUid r.uid])
      ++ (statusLine (keyGid, (idLine keyGid r.gid).2)
        ++ renderLines (r.mid1 ++ [(keyThreads, renderDec r.threads)] ++ r.mid2
            ++ [(keyVol, renderDec r.vol), (keyNonvol, renderDec r.nonvol)])) := by
    simp [renderStatus, statusLines, renderLines, idLine]
  obtain ⟨rr, hm⟩ := matchAt_idLine keyGid r.gid (renderLines (r.mid1
    ++ [(keyThreads, renderDec r.threads)] ++ r.mid2
    ++ [(keyVol, renderDec r.vol), (keyNonvol, renderDec r.nonvol)]))
  obtain ⟨tl, htl⟩ := findAll_anch_lines keyGid key_facts.2.1 (by decide) 3
    ((keyName, escName r.comm) :: r.pre ++ [idLine keyUid r.uid]) _ _ _ rr
    (by
      intro kv hkv
      simp only [List.cons_append, List.mem_cons, List.mem_append, List.not_mem_nil, or_false] at hkv
      rcases hkv with h | h | h
      · subst h; exact skippable_name keyGid key_facts.2.2.2.2.2.2.2.2.1 r.comm
      · exact skippable_other keyGid kv (hpre kv h).2.1 (hpre kv h)
      · subst h
        exact skippable_idLine keyGid keyUid r.uid key_facts.2.2.2.2.2.2.2.2.2.2.1 key_facts.1
          key_facts.2.2.2.2.2.1)
    hm
  rw [hshape]
  exact ids3_of_head _ _ _ _ _ _ tl htl

theorem numThreads_extract (c : Cfg) (hg : c.Good) (r : StatusRec) (hwf : r.WF) :
    numThreads c (renderStatus r) = .ok (Spec.numThreads r) := by
  obtain ⟨hpre, hmid1, _⟩ := other_lines r hwf
  unfold numThreads
  rw [readStatus_good c hg, hg.thrAnchored, hg.thrKey, hg.thrSep, findAllS_tabOne]
  have hshape : renderStatus r
      = renderLines ((keyName, escName r.comm) :: r.pre ++ [idLine keyUid r.uid, idLine keyGid r.gid] ++ r.mid1)
      ++ (statusLine (keyThreads, renderDec r.threads)
        ++ renderLines (r.mid2 ++ [(keyVol, renderDec r.vol), (keyNonvol, renderDec r.nonvol)])) := by
    simp [renderStatus, statusLines, renderLines]
  obtain ⟨tl, htl⟩ := findAll_anch_lines keyThreads key_facts.2.2.1 (by decide) 1
    ((keyName, escName r.comm) :: r.pre ++ [idLine keyUid r.uid, idLine keyGid r.gid] ++ r.mid1) _ _ _ _
    (by
      intro kv hkv
      simp only [List.cons_append, List.mem_cons, List.mem_append, List.not_mem_nil, or_false] at hkv
      rcases hkv with h | (h | h | h) | h
      · subst h; exact skippable_name keyThreads key_facts.2.2.2.2.2.2.2.2.2.1 r.comm
      · exact skippable_other keyThreads kv (hpre kv h).2.2.1 (hpre kv h)
      · subst h
        exact skippable_idLine keyThreads keyUid r.uid key_facts.2.2.2.2.2.2.2.2.2.2.2.1 key_facts.1
          key_facts.2.2.2.2.2.1
      · subst h
        exact skippable_idLine keyThreads keyGid r.gid key_facts.2.2.2.2.2.2.2.2.2.2.2.2 key_facts.2.1
          key_facts.2.2.2.2.2.2.1
      · exact skippable_other keyThreads kv (hmid1 kv h).2.2.1 (hmid1 kv h))
    (matchAt_numLine keyThreads r.threads _)
  rw [hshape, htl]
  simp [decOf_renderDec, Spec.numThreads]

end Psutil.C06
