/-
  Proofs/C13Bind.lean — the reads of a call follow the object, not PROCFS_PATH, when every read
  site takes its root from `self._procfs_path` (BCfg.Good).
-/
import PsutilModel.Spec.C13Bind
namespace Psutil.C13
open Psutil Psutil.C13.Spec

theorem memoryFullInfoR_ok (c : Cfg) (h : Bool) (p : Nat) (r : FileRes) (sm st : Bytes) :
    memoryFullInfoR c h p r (.ok sm) (.ok st) = memoryFullInfo c h p r sm st := rfl

theorem memoryInfoR_ok (c : Cfg) (p : Nat) (st : Bytes) : memoryInfoR c p (.ok st) = memoryInfo c p st := rfl

theorem memoryMapsR_ok (c : Cfg) (probe : Bytes → Probe) (z : Bool) (sm : Bytes) :
    memoryMapsR c probe z (.ok sm) = memoryMaps c probe z sm := rfl

/-- with every read site bound to the object, a call sees exactly the files of the tree the object
    was created under — `cur` (PROCFS_PATH at the time of the call) does not occur on the right -/
theorem viewB_good (b : BCfg) (hb : b.Good) (w : World) (o cur : Nat) (t : Tree)
    (ht : treeAt w o = some t) : viewB b w o cur = t.view := by
  simp [viewB, readSite, siteTree, rootOf, hb.statmSrc, hb.smapsSrc, hb.rollupSrc, ht, Tree.view]

/-- every object of the state was created under a tree that has the pid -/
def ObjsPresent (w : World) (objs : List Nat) : Prop := ∀ o ∈ objs, ∃ t, treeAt w o = some t

theorem objsPresent_append {w : World} {objs : List Nat} {o : Nat} {t : Tree}
    (h : ObjsPresent w objs) (ht : treeAt w o = some t) : ObjsPresent w (objs ++ [o]) := by
  intro x hx
  rcases List.mem_append.mp hx with hx | hx
  · exact h x hx
  · simp at hx
    subst hx
    exact ⟨t, ht⟩

theorem treeAt_eq (w : World) (i : Nat) : treeAt w i = treeAtG w i := rfl

theorem runB_eq_spec (c : Cfg) (b : BCfg) (hb : b.Good) (e : Env) (w : World) :
    ∀ (steps : List BStep) (s : BState), ObjsPresent w s.objs →
      runB c b e w steps s = specRunB (fun t m => answerView c e t.view m) w steps s.cur s.objs := by
  intro steps
  induction steps with
  | nil => intro s _; rfl
  | cons st rest ih =>
    intro s hp
    cases st with
    | point r =>
      simp only [runB, stepB, specRunB, specStepB]
      rw [ih ⟨r, s.objs⟩ hp]
    | new =>
      simp only [runB, stepB, specRunB, specStepB]
      rw [← treeAt_eq]
      cases ht : treeAt w s.cur with
      | none =>
        simp only []
        rw [ih s hp]
      | some t =>
        simp only []
        rw [ih ⟨s.cur, s.objs ++ [s.cur]⟩ (objsPresent_append hp ht)]
    | call k m =>
      simp only [runB, stepB, specRunB, specStepB]
      cases hk : s.objs[k]? with
      | none =>
        simp only []
        rw [ih s hp]
      | some o =>
        obtain ⟨t, ht⟩ := hp o (List.mem_of_getElem? hk)
        have ht' : treeAtG w o = some t := ht
        simp only [ht']
        rw [viewB_good b hb w o s.cur t ht, ih s hp]
    | enter k =>
      simp only [runB, stepB, specRunB, specStepB]
      rw [ih s hp]
    | exit k =>
      simp only [runB, stepB, specRunB, specStepB]
      rw [ih s hp]

theorem treeAtG_map {τ σ : Type} (f : τ → σ) (w : List (Option τ)) (i : Nat) :
    treeAtG (w.map (Option.map f)) i = (treeAtG w i).map f := by
  unfold treeAtG
  rw [List.getElem?_map]
  cases w[i]? with
  | none => rfl
  | some x => cases x <;> rfl

/-- a world of file contents rendered from records: the promised run may be read off the records -/
theorem specRunB_map {τ σ : Type} (f : τ → σ) (ans : σ → Meth → Ans) (w : List (Option τ)) :
    ∀ (steps : List BStep) (cur : Nat) (objs : List Nat),
      specRunB ans (w.map (Option.map f)) steps cur objs = specRunB (fun t m => ans (f t) m) w steps cur objs := by
  intro steps
  induction steps with
  | nil => intro _ _; rfl
  | cons st rest ih =>
    intro cur objs
    cases st with
    | point r => simp only [specRunB, specStepB]; rw [ih]
    | new =>
      simp only [specRunB, specStepB, treeAtG_map]
      cases ht : treeAtG w cur with
      | none => simp only [Option.map]; rw [ih]
      | some t => simp only [Option.map]; rw [ih]
    | call k m =>
      simp only [specRunB, specStepB, treeAtG_map]
      cases objs[k]? with
      | none => simp only []; rw [ih]
      | some o =>
        cases ht : treeAtG w o with
        | none => simp only [ht, Option.map]; rw [ih]
        | some t => simp only [ht, Option.map]; rw [ih]
    | enter k => simp only [specRunB, specStepB]; rw [ih]
    | exit k => simp only [specRunB, specStepB]; rw [ih]

/-- two promise functions that agree on every process of the world give the same run -/
theorem specRunB_congr {τ : Type} (a1 a2 : τ → Meth → Ans) (w : List (Option τ))
    (h : ∀ i t, treeAtG w i = some t → ∀ m, a1 t m = a2 t m) :
    ∀ (steps : List BStep) (cur : Nat) (objs : List Nat),
      specRunB a1 w steps cur objs = specRunB a2 w steps cur objs := by
  intro steps
  induction steps with
  | nil => intro _ _; rfl
  | cons st rest ih =>
    intro cur objs
    cases st with
    | point r => simp only [specRunB, specStepB]; rw [ih]
    | new =>
      simp only [specRunB, specStepB]
      cases ht : treeAtG w cur with
      | none => simp only []; rw [ih]
      | some t => simp only []; rw [ih]
    | call k m =>
      simp only [specRunB, specStepB]
      cases objs[k]? with
      | none => simp only []; rw [ih]
      | some o =>
        cases ht : treeAtG w o with
        | none => simp only [ht]; rw [ih]
        | some t => simp only [ht]; rw [ih, h o t ht m]
    | enter k => simp only [specRunB, specStepB]; rw [ih]
    | exit k => simp only [specRunB, specStepB]; rw [ih]

theorem treeAtG_mem {τ : Type} (w : List (Option τ)) (i : Nat) (t : τ) (h : treeAtG w i = some t) : some t ∈ w := by
  unfold treeAtG at h
  cases hi : w[i]? with
  | none => rw [hi] at h; cases h
  | some x =>
    rw [hi] at h
    cases x with
    | none => cases h
    | some y =>
      have : y = t := by simpa using h
      subst this
      exact List.mem_of_getElem? hi

end Psutil.C13
