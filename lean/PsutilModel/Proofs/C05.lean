/-
  Proofs/C05.lean — helper lemmas for Props/C05.lean: the invariant of the recursive walk of
  `children(recursive=True)`, its fuel bound, and the link between the walk's reachability and
  the specification's `Desc`.
-/
import PsutilModel.Model.C05
import PsutilModel.Spec.C05
namespace Psutil.C05
open Spec

/-- the configuration under which the full statements hold -/
structure Cfg.Good (c : Cfg) : Prop where
  childOp : c.childOp = .le
  descOp : c.descOp = .le
  parentOp : c.parentOp = .le
  seenGuard : c.seenGuard = true
  skipSelf : c.skipSelf = true
  parentsSeen : c.parentsSeen = true
  childrenGuarded : c.childrenGuarded = true
  ppidGuarded : c.ppidGuarded = true
  lowestStop : c.lowestStop = true
  goneRaises : c.goneRaises = true

/-! ## Small facts about the building blocks -/

theorem mem_kidsOf {pm : PpidMap} {p c : Nat} : c ∈ kidsOf pm p ↔ (c, p) ∈ pm := by
  unfold kidsOf
  constructor
  · intro h
    obtain ⟨e, he, rfl⟩ := List.mem_map.1 h
    obtain ⟨hm, hp⟩ := List.mem_filter.1 he
    have : e.2 = p := by simpa using hp
    rw [← this]; exact hm
  · intro h
    exact List.mem_map.2 ⟨(c, p), List.mem_filter.2 ⟨h, by simp⟩, rfl⟩

theorem accepted_le_iff {ct : Nat} {look : Look} {c : Nat} :
    accepted .le ct look c = true ↔ ∃ s, look c = some s ∧ ct ≤ s := by
  unfold accepted
  cases look c <;> simp [Cmp.eval]

theorem kidsOf_length_le (pm : PpidMap) (p : Nat) : (kidsOf pm p).length ≤ pm.length := by
  unfold kidsOf
  rw [List.length_map]
  exact List.length_filter_le _ _

theorem unique_parent {pm : PpidMap} (hu : UniquePids pm) {c p p' : Nat}
    (h1 : (c, p) ∈ pm) (h2 : (c, p') ∈ pm) : p = p' := by
  unfold UniquePids at hu
  induction pm with
  | nil => cases h1
  | cons e es ih =>
    rw [List.map_cons, List.nodup_cons] at hu
    rcases List.mem_cons.1 h1 with rfl | h1' <;> rcases List.mem_cons.1 h2 with h2' | h2'
    · exact (Prod.mk.inj h2').2.symm ▸ rfl
    · exact absurd (List.mem_map.2 ⟨(c, p'), h2', rfl⟩) hu.1
    · subst h2'
      exact absurd (List.mem_map.2 ⟨(c, p), h1', rfl⟩) hu.1
    · exact ih hu.2 h1' h2'

theorem kidsOf_nodup {pm : PpidMap} (hu : UniquePids pm) (p : Nat) : (kidsOf pm p).Nodup := by
  unfold kidsOf
  exact List.Nodup.sublist (List.Sublist.map _ List.filter_sublist) hu

theorem uniquePids_filter {pm : PpidMap} (hu : UniquePids pm) (f : Nat × Nat → Bool) :
    UniquePids (pm.filter f) :=
  List.Nodup.sublist (List.Sublist.map _ List.filter_sublist) hu

theorem nodup_reverse' {l : List Nat} (h : l.Nodup) : l.reverse.Nodup := by
  unfold List.Nodup at *
  rw [List.pairwise_reverse]
  exact h.imp (fun h => h.symm)

theorem nodup_flatMap_of {l : List Nat} {f : Nat → List Nat} (hl : l.Nodup)
    (hf : ∀ x ∈ l, (f x).Nodup)
    (hd : ∀ x ∈ l, ∀ y ∈ l, x ≠ y → ∀ c, c ∈ f x → c ∉ f y) : (l.flatMap f).Nodup := by
  induction l with
  | nil => simp
  | cons a as ih =>
    rw [List.nodup_cons] at hl
    rw [List.flatMap_cons, List.nodup_append]
    refine ⟨hf a (by simp), ih hl.2 (fun x hx => hf x (by simp [hx]))
      (fun x hx y hy => hd x (by simp [hx]) y (by simp [hy])), ?_⟩
    intro c hc b hb hcb
    subst hcb
    obtain ⟨y, hy, hcy⟩ := List.mem_flatMap.1 hb
    have hne : a ≠ y := fun e => hl.1 (e ▸ hy)
    exact hd a (by simp) y (by simp [hy]) hne c hc hcy

/-! ## The recursive walk -/

section Walk
variable (ok : Nat → Bool) (pm : PpidMap)

/-- accepted children of `p` (what the loop body appends for `p`) -/
def kids (p : Nat) : List Nat := (kidsOf pm p).filter ok

/-- what the walk can reach from `root` -/
inductive Reach (root : Nat) : Nat → Prop where
  | root : Reach root root
  | step {p c : Nat} : Reach root p → c ∈ kids ok pm p → Reach root c

theorem walk_spec (root : Nat) : ∀ (fuel : Nat) (seen stack ret r : List Nat),
    walk true ok pm fuel seen stack ret = some r →
    (∀ s ∈ seen, ∀ k ∈ kids ok pm s, k ∈ seen ∨ k ∈ stack) →
    (∀ x, x ∈ seen ∨ x ∈ stack → Reach ok pm root x) →
    (root ∈ seen ∨ root ∈ stack) →
    ret = seen.reverse.flatMap (kids ok pm) →
    seen.Nodup →
    ∃ seen' : List Nat, r = seen'.reverse.flatMap (kids ok pm) ∧ seen'.Nodup ∧ ∀ x, x ∈ seen' ↔ Reach ok pm root x := by
  intro fuel
  induction fuel with
  | zero => intro seen stack ret r h; simp [walk] at h
  | succ fuel ih =>
    intro seen stack ret r h ha hb hc hd he
    cases stack with
    | nil =>
      simp only [walk, Option.some.injEq] at h
      subst h
      refine ⟨seen, hd, he, fun x => ⟨fun hx => hb x (Or.inl hx), fun hx => ?_⟩⟩
      induction hx with
      | root => rcases hc with hc | hc
                · exact hc
                · cases hc
      | step _ hk ihp =>
        rcases ha _ ihp _ hk with h' | h'
        · exact h'
        · cases h'
    | cons pid rest =>
      by_cases hs : pid ∈ seen
      · have hcont : seen.contains pid = true := by simpa using hs
        simp only [walk, hcont, Bool.and_self, if_true] at h
        refine ih seen rest ret r h ?_ ?_ ?_ hd he
        · intro s hs' k hk
          rcases ha s hs' k hk with h' | h'
          · exact Or.inl h'
          · rcases List.mem_cons.1 h' with rfl | h''
            · exact Or.inl hs
            · exact Or.inr h''
        · intro x hx
          rcases hx with hx | hx
          · exact hb x (Or.inl hx)
          · exact hb x (Or.inr (List.mem_cons_of_mem _ hx))
        · rcases hc with hc | hc
          · exact Or.inl hc
          · rcases List.mem_cons.1 hc with rfl | h''
            · exact Or.inl hs
            · exact Or.inr h''
      · have hcont : seen.contains pid = false := by simpa using hs
        simp only [walk, hcont, Bool.and_false, Bool.false_eq_true, if_false] at h
        have hrp : Reach ok pm root pid := hb pid (Or.inr (by simp))
        refine ih (pid :: seen) _ _ r h ?_ ?_ ?_ ?_ ?_
        · intro s hs' k hk
          rcases List.mem_cons.1 hs' with rfl | hs''
          · right
            exact List.mem_append_left _ (List.mem_reverse.2 hk)
          · rcases ha s hs'' k hk with h' | h'
            · exact Or.inl (List.mem_cons_of_mem _ h')
            · rcases List.mem_cons.1 h' with rfl | h''
              · exact Or.inl (by simp)
              · exact Or.inr (List.mem_append_right _ h'')
        · intro x hx
          rcases hx with hx | hx
          · rcases List.mem_cons.1 hx with rfl | hx'
            · exact hrp
            · exact hb x (Or.inl hx')
          · rcases List.mem_append.1 hx with hx' | hx'
            · exact Reach.step hrp (List.mem_reverse.1 hx')
            · exact hb x (Or.inr (List.mem_cons_of_mem _ hx'))
        · rcases hc with hc | hc
          · exact Or.inl (List.mem_cons_of_mem _ hc)
          · rcases List.mem_cons.1 hc with rfl | h''
            · exact Or.inl (by simp)
            · exact Or.inr (List.mem_append_right _ h'')
        · rw [hd]
          simp [kids]
        · exact List.nodup_cons.2 ⟨hs, he⟩

/-! ### Fuel bound -/

/-- how many PIDs of the universe `U` are not yet in `seen` -/
def unseenCnt (U seen : List Nat) : Nat := (U.filter fun u => !seen.contains u).length

theorem unseenCnt_mono (U seen : List Nat) (pid : Nat) :
    unseenCnt U (pid :: seen) ≤ unseenCnt U seen := by
  unfold unseenCnt
  induction U with
  | nil => simp
  | cons u us ih =>
    simp only [List.filter_cons]
    by_cases h1 : (pid :: seen).contains u = true
    · by_cases h2 : seen.contains u = true
      · simp only [h1, h2, Bool.not_true, Bool.false_eq_true, if_false]; exact ih
      · simp only [h1, h2, Bool.not_true, Bool.not_false, Bool.false_eq_true, if_false, if_true,
          List.length_cons]; omega
    · have h2 : seen.contains u = false := by
        have : u ∉ pid :: seen := by simpa using h1
        have : u ∉ seen := fun m => this (List.mem_cons_of_mem _ m)
        simpa using this
      have h1' : (pid :: seen).contains u = false := by simpa using h1
      simp only [h1', h2, Bool.not_false, if_true, List.length_cons]; omega

theorem unseenCnt_lt {U seen : List Nat} {pid : Nat} (hU : pid ∈ U) (hs : pid ∉ seen) :
    unseenCnt U (pid :: seen) + 1 ≤ unseenCnt U seen := by
  induction U with
  | nil => cases hU
  | cons u us ih =>
    by_cases hup : u = pid
    · subst hup
      have h1 : (u :: seen).contains u = true := by simp
      have h2 : seen.contains u = false := by simpa using hs
      have := unseenCnt_mono us seen u
      unfold unseenCnt at this ⊢
      simp only [List.filter_cons, h1, h2, Bool.not_true, Bool.not_false, Bool.false_eq_true,
        if_false, if_true, List.length_cons]
      omega
    · have hU' : pid ∈ us := by
        rcases List.mem_cons.1 hU with h | h
        · exact absurd h.symm hup
        · exact h
      have := ih hU'
      have hiff : (pid :: seen).contains u = seen.contains u := by
        simp [hup]
      unfold unseenCnt at this ⊢
      simp only [List.filter_cons, hiff]
      split
      · simp only [List.length_cons]; omega
      · omega

/-- the universe of the walk: the root and every listed PID -/
def univ (root : Nat) : List Nat := root :: pm.map (·.1)

theorem kids_sub_univ (root p : Nat) : ∀ c ∈ kids ok pm p, c ∈ univ pm root := by
  intro c hc
  have h1 : c ∈ kidsOf pm p := (List.mem_filter.1 hc).1
  have h2 := mem_kidsOf.1 h1
  exact List.mem_cons_of_mem _ (List.mem_map.2 ⟨(c, p), h2, rfl⟩)

theorem kids_length_le (p : Nat) : (kids ok pm p).length ≤ pm.length :=
  Nat.le_trans (List.length_filter_le _ _) (kidsOf_length_le pm p)

theorem walk_isSome (root : Nat) : ∀ (fuel : Nat) (seen stack ret : List Nat),
    (∀ x ∈ stack, x ∈ univ pm root) →
    stack.length + unseenCnt (univ pm root) seen * (pm.length + 1) < fuel →
    (walk true ok pm fuel seen stack ret).isSome = true := by
  intro fuel
  induction fuel with
  | zero => intro seen stack ret _ h; omega
  | succ fuel ih =>
    intro seen stack ret hst hlt
    cases stack with
    | nil => simp [walk]
    | cons pid rest =>
      by_cases hs : pid ∈ seen
      · have hcont : seen.contains pid = true := by simpa using hs
        simp only [walk, hcont, Bool.and_self, if_true]
        apply ih
        · intro x hx; exact hst x (List.mem_cons_of_mem _ hx)
        · simp only [List.length_cons] at hlt; omega
      · have hcont : seen.contains pid = false := by simpa using hs
        simp only [walk, hcont, Bool.and_false, Bool.false_eq_true, if_false]
        apply ih
        · intro x hx
          rcases List.mem_append.1 hx with hx' | hx'
          · exact kids_sub_univ ok pm root pid x (List.mem_reverse.1 hx')
          · exact hst x (List.mem_cons_of_mem _ hx')
        · have hU : pid ∈ univ pm root := hst pid (by simp)
          have h1 := unseenCnt_lt hU hs
          have h2 : unseenCnt (univ pm root) (pid :: seen) * (pm.length + 1) + (pm.length + 1)
              ≤ unseenCnt (univ pm root) seen * (pm.length + 1) := by
            have := Nat.mul_le_mul_right (pm.length + 1) h1
            rw [Nat.add_mul, Nat.one_mul] at this
            exact this
          have h3 := kids_length_le ok pm pid
          simp only [List.length_cons] at hlt
          simp only [List.length_append, List.length_reverse]
          show ((kidsOf pm pid).filter ok).length + rest.length
            + unseenCnt (univ pm root) (pid :: seen) * (pm.length + 1) < fuel
          unfold kids at h3
          omega

theorem walkFuel_enough (root : Nat) :
    [root].length + unseenCnt (univ pm root) [] * (pm.length + 1) < walkFuel pm := by
  have h1 : unseenCnt (univ pm root) [] ≤ pm.length + 1 := by
    unfold unseenCnt univ
    refine Nat.le_trans (List.length_filter_le _ _) ?_
    simp
  have h2 := Nat.mul_le_mul_right (pm.length + 1) h1
  unfold walkFuel
  simp only [List.length_cons, List.length_nil]
  omega

end Walk

/-! ## Reachability of the walk = descendants of the specification -/

theorem mem_kids_iff {pm : PpidMap} {look : Look} {ct p c : Nat} :
    c ∈ kids (accepted .le ct look) pm p ↔ Child pm look ct p c := by
  unfold kids Child
  rw [List.mem_filter, mem_kidsOf, accepted_le_iff]

theorem reach_kids_iff_desc {pm : PpidMap} {look : Look} {ct root c : Nat} :
    (∃ p, Reach (accepted .le ct look) pm root p ∧ c ∈ kids (accepted .le ct look) pm p)
      ↔ Desc pm look ct root c := by
  constructor
  · rintro ⟨p, hp, hc⟩
    induction hp generalizing c with
    | root => exact Desc.base (mem_kids_iff.1 hc)
    | step _ hk ih => exact Desc.step (ih hk) (mem_kids_iff.1 hc)
  · intro h
    induction h with
    | base hc => exact ⟨root, Reach.root, mem_kids_iff.2 hc⟩
    | step _ hc ih =>
      obtain ⟨p, hp, hd⟩ := ih
      exact ⟨_, Reach.step hp hd, mem_kids_iff.2 hc⟩

theorem desc_mono {pm pm' : PpidMap} (hsub : ∀ e, e ∈ pm' → e ∈ pm) {look : Look} {ct root c : Nat}
    (h : Desc pm' look ct root c) : Desc pm look ct root c := by
  induction h with
  | base hc => exact Desc.base ⟨hsub _ hc.1, hc.2⟩
  | step _ hc ih => exact Desc.step ih ⟨hsub _ hc.1, hc.2⟩

/-- dropping the caller's own entry from the map removes exactly the caller from its descendants -/
theorem desc_filter_self {pm : PpidMap} {look : Look} {ct root c : Nat} :
    Desc (pm.filter fun e => e.1 != root) look ct root c ↔ Desc pm look ct root c ∧ c ≠ root := by
  constructor
  · intro h
    refine ⟨desc_mono (fun e he => (List.mem_filter.1 he).1) h, ?_⟩
    have hkey : ∃ p, (c, p) ∈ pm.filter fun e => e.1 != root := by
      cases h with
      | base hc => exact ⟨_, hc.1⟩
      | step _ hc => exact ⟨_, hc.1⟩
    obtain ⟨p, hp⟩ := hkey
    have := (List.mem_filter.1 hp).2
    simpa using this
  · rintro ⟨h, hne⟩
    induction h with
    | base hc =>
      exact Desc.base ⟨List.mem_filter.2 ⟨hc.1, by simpa using hne⟩, hc.2⟩
    | @step d c hd hc ih =>
      have hmem : (c, d) ∈ pm.filter fun e => e.1 != root :=
        List.mem_filter.2 ⟨hc.1, by simpa using hne⟩
      by_cases hdr : d = root
      · subst hdr
        exact Desc.base ⟨hmem, hc.2⟩
      · exact Desc.step (ih hdr) ⟨hmem, hc.2⟩

/-! ## The identity pre-check -/

theorem raise_false (g : Bool) {look0 : Look} {me : Caller} (hr : me.reused = false)
    (hgone : me.gone = false) (ha : Alive look0 me) :
    (raiseIfPidReused g look0 me).2 = false := by
  unfold Alive at ha
  simp [raiseIfPidReused, isRunning, hr, hgone, ha]

/-- with the `_gone` test: anything but a live, unflagged incarnation raises -/
theorem raise_true_of_dead {look0 : Look} {me : Caller}
    (h : ¬ Alive look0 me ∨ me.gone = true ∨ me.reused = true) :
    (raiseIfPidReused true look0 me).2 = true := by
  unfold Alive at h
  unfold raiseIfPidReused isRunning
  cases hre : me.reused with
  | true => simp
  | false =>
    cases hgone : me.gone with
    | true => simp [hre, hgone]
    | false =>
      cases hl : look0 me.pid with
      | none => simp
      | some s =>
        by_cases hs : s = me.ctime
        · subst hs
          rcases h with h | h | h
          · exact absurd hl h
          · rw [hgone] at h; cases h
          · rw [hre] at h; cases h
        · simp [hs]

/-- without the `_gone` test a recycled PID is still noticed, but only by an object that has not
    been seen gone before -/
theorem raise_true (g : Bool) {look0 : Look} {me : Caller} (hg : me.gone = false ∨ me.reused = true)
    (h : Recycled look0 me) : (raiseIfPidReused g look0 me).2 = true := by
  obtain ⟨s, hl, hs⟩ := h
  unfold raiseIfPidReused isRunning
  cases hre : me.reused with
  | true => simp
  | false =>
    have hgone : me.gone = false := by
      rcases hg with h | h
      · exact h
      · rw [hre] at h; cases h
    simp [hgone, hl, hs]

theorem not_alive_of_recycled {look0 : Look} {me : Caller} (h : Recycled look0 me) : ¬ Alive look0 me := by
  obtain ⟨s, hl, hs⟩ := h
  intro ha
  unfold Alive at ha
  rw [ha] at hl
  exact hs (Option.some.inj hl).symm

/-! ## children() under a good configuration -/

/-- the map the walkers use under a good configuration -/
def goodMap (root : Nat) (pm : PpidMap) : PpidMap := pm.filter fun e => e.1 != root

theorem children_flat_good (c : Cfg) (hg : c.Good) (me : Caller) (look0 : Look) (pm : PpidMap)
    (look : Look) (hraise : (raiseIfPidReused true look0 me).2 = false) :
    (children c me false look0 pm look).2
      = .ok (kids (accepted .le me.ctime look) (goodMap me.pid pm) me.pid) := by
  simp [children, hg.childrenGuarded, hg.goneRaises, hraise, usedMap, hg.skipSelf, hg.childOp, childrenFlat, kids,
    goodMap]

theorem children_rec_good (c : Cfg) (hg : c.Good) (me : Caller) (look0 : Look) (pm : PpidMap)
    (look : Look) (hraise : (raiseIfPidReused true look0 me).2 = false) :
    ∃ seen' : List Nat,
      (children c me true look0 pm look).2
        = .ok (seen'.reverse.flatMap (kids (accepted .le me.ctime look) (goodMap me.pid pm)))
      ∧ seen'.Nodup
      ∧ ∀ x, x ∈ seen' ↔ Reach (accepted .le me.ctime look) (goodMap me.pid pm) me.pid x := by
  have hsome := walk_isSome (accepted .le me.ctime look) (goodMap me.pid pm) me.pid
    (walkFuel (goodMap me.pid pm)) [] [me.pid] []
    (by intro x hx; rcases List.mem_singleton.1 hx with rfl; simp [univ])
    (walkFuel_enough (goodMap me.pid pm) me.pid)
  cases hw : walk true (accepted .le me.ctime look) (goodMap me.pid pm)
      (walkFuel (goodMap me.pid pm)) [] [me.pid] [] with
  | none => rw [hw] at hsome; cases hsome
  | some r =>
    obtain ⟨seen', hr, hnd, hmem⟩ := walk_spec (accepted .le me.ctime look) (goodMap me.pid pm) me.pid
      _ [] [me.pid] [] r hw (by intro s hs; cases hs)
      (by intro x hx
          rcases hx with hx | hx
          · cases hx
          · rcases List.mem_singleton.1 hx with rfl; exact Reach.root)
      (Or.inr (by simp)) (by simp) List.nodup_nil
    refine ⟨seen', ?_, hnd, hmem⟩
    have hw' := hw
    unfold goodMap at hw'
    simp [children, hg.childrenGuarded, hg.goneRaises, hraise, usedMap, hg.skipSelf, hg.descOp, hg.seenGuard, hw', hr,
      goodMap]

theorem child_goodMap_iff {pm : PpidMap} {look : Look} {ct root p c : Nat} :
    Child (goodMap root pm) look ct p c ↔ Child pm look ct p c ∧ c ≠ root := by
  unfold Child goodMap
  rw [List.mem_filter]
  constructor
  · rintro ⟨⟨h1, h2⟩, h3⟩
    exact ⟨⟨h1, h3⟩, by simpa using h2⟩
  · rintro ⟨⟨h1, h3⟩, h2⟩
    exact ⟨⟨h1, by simpa using h2⟩, h3⟩

theorem kids_nodup {pm : PpidMap} (hu : UniquePids pm) (ok : Nat → Bool) (p : Nat) :
    (kids ok pm p).Nodup :=
  List.Nodup.sublist List.filter_sublist (kidsOf_nodup hu p)

theorem kids_disjoint {pm : PpidMap} (hu : UniquePids pm) (ok : Nat → Bool) {x y c : Nat}
    (hne : x ≠ y) (hx : c ∈ kids ok pm x) : c ∉ kids ok pm y := by
  intro hy
  have h1 := mem_kidsOf.1 (List.mem_filter.1 hx).1
  have h2 := mem_kidsOf.1 (List.mem_filter.1 hy).1
  exact hne (unique_parent hu h1 h2)

/-- the result list of the recursive branch, as a set -/
theorem flatMap_kids_isSetOf {pm : PpidMap} (hu : UniquePids pm) {look : Look} {ct root : Nat}
    {seen' : List Nat} (hnd : seen'.Nodup)
    (hmem : ∀ x, x ∈ seen' ↔ Reach (accepted .le ct look) (goodMap root pm) root x) :
    IsSetOf (seen'.reverse.flatMap (kids (accepted .le ct look) (goodMap root pm)))
      (fun c => Desc pm look ct root c ∧ c ≠ root) := by
  have hu' : UniquePids (goodMap root pm) := uniquePids_filter hu _
  constructor
  · apply nodup_flatMap_of (nodup_reverse' hnd)
    · intro x _; exact kids_nodup hu' _ x
    · intro x _ y _ hne c hc; exact kids_disjoint hu' _ hne hc
  · intro c
    rw [List.mem_flatMap]
    constructor
    · rintro ⟨p, hp, hc⟩
      have hr := (hmem p).1 (List.mem_reverse.1 hp)
      have := reach_kids_iff_desc.1 ⟨p, hr, hc⟩
      unfold goodMap at this
      exact desc_filter_self.1 this
    · intro h
      have := desc_filter_self.2 h
      obtain ⟨p, hp, hc⟩ := reach_kids_iff_desc.2 this
      exact ⟨p, List.mem_reverse.2 ((hmem p).2 hp), hc⟩

end Psutil.C05
