/-
  Proofs/C05.lean — helper lemmas for Props/C05.lean.
-/
import PsutilModel.Model.C05
import PsutilModel.Spec.C05
import PsutilModel.Spec.C05Stat
namespace Psutil.C05
open Spec

/-- the configuration under which the full statements hold -/
structure Cfg.Good (c : Cfg) : Prop where
  childOp : c.childOp = .le
  descOp : c.descOp = .le
  parentOp : c.parentOp = .le
  seenGuard : c.seenGuard = true
  skipSelf : c.skipSelf = true
  parentsSeen : c.parentsSeen = true
  childrenGuarded : c.childrenGuarded = true
  ppidGuarded : c.ppidGuarded = true
  lowestStop : c.lowestStop = true

end Psutil.C05
