/-
  Proofs/C09Order.lean — `/sys/block` presented in ANY listing order (Spec/C09Listing.lean): the
  `stat` entries `read_sysfs` collects from such a tree are a permutation of those of the canonical
  rendering, hence the raw dict is the canonical one for the same devices in another order.
-/
import PsutilModel.Proofs.C09Sysfs
import PsutilModel.Spec.C09Listing
namespace Psutil.C09
open Spec

/-! ### generic list facts -/

theorem walkList_flatMap (l : List SysDir) : walkList l = l.flatMap SysDir.walk := by
  induction l with
  | nil => simp [walkList_nil]
  | cons d r ih => simp [walkList_cons, ih]

/-- a permutation of a mapped list is the map of a permutation -/
theorem perm_map_inv {α β : Type} (f : α → β) {l' : List β} {m : List β} (h : l'.Perm m) :
    ∀ l : List α, m = l.map f → ∃ l₀ : List α, l₀.Perm l ∧ l' = l₀.map f := by
  induction h with
  | nil =>
    intro l hl
    cases l with
    | nil => exact ⟨[], List.Perm.refl _, rfl⟩
    | cons a r => simp at hl
  | cons x _ ih =>
    intro l hl
    cases l with
    | nil => simp at hl
    | cons a r =>
      simp only [List.map_cons, List.cons.injEq] at hl
      obtain ⟨l₀, hp, he⟩ := ih r hl.2
      exact ⟨a :: l₀, List.Perm.cons a hp, by simp [hl.1, he]⟩
  | swap x y t =>
    intro l hl
    cases l with
    | nil => simp at hl
    | cons a r =>
      cases r with
      | nil => simp at hl
      | cons b r2 =>
        simp only [List.map_cons, List.cons.injEq] at hl
        exact ⟨b :: a :: r2, List.Perm.swap a b r2, by simp [hl.1, hl.2.1, hl.2.2]⟩
  | trans _ _ ih1 ih2 =>
    intro l hl
    obtain ⟨l₂, hp2, he2⟩ := ih2 l hl
    obtain ⟨l₁, hp1, he1⟩ := ih1 l₂ he2
    exact ⟨l₁, hp1.trans hp2, he1⟩

/-- the value of a key that occurs with one value only -/
theorem lookup_of_unique (l : List (Bytes × Bytes)) (k v : Bytes) (hm : (k, v) ∈ l)
    (hu : ∀ kv ∈ l, kv.1 = k → kv.2 = v) : l.lookup k = some v := by
  induction l with
  | nil => cases hm
  | cons x r ih =>
    obtain ⟨a, b⟩ := x
    by_cases hk : a = k
    · have hb : b = v := hu (a, b) (by simp) hk
      simp [List.lookup, hk, hb]
    · have hne : (k == a) = false := by simpa using fun e => hk e.symm
      simp only [List.lookup, hne]
      apply ih
      · rcases List.mem_cons.mp hm with h | h
        · exact absurd (congrArg Prod.fst h).symm hk
        · exact h
      · intro kv hkv; exact hu kv (by simp [hkv])

theorem lookup_perm_stat (fs others : List (Bytes × Bytes)) (c : Bytes)
    (hp : fs.Perm (others ++ [(statName, c)])) (ho : others.lookup statName = none) :
    fs.lookup statName = some c := by
  apply lookup_of_unique
  · exact hp.mem_iff.mpr (by simp)
  · intro kv hkv hk
    have := hp.mem_iff.mp hkv
    rcases List.mem_append.mp this with h | h
    · have hn := (List.lookup_eq_none_iff.mp ho) kv h
      rw [hk] at hn
      simp at hn
    · simp only [List.mem_singleton] at h
      rw [h]

theorem noStat_perm (a b : List SysDir) (hp : a.Perm b) (h : NoStat b) : NoStat a := by
  intro e he
  apply h e
  rw [walkList_flatMap] at he ⊢
  exact (List.Perm.flatMap_right SysDir.walk hp).mem_iff.mp he

/-! ### the entries collected from a tree listed in some order -/

theorem entries_partsListing (nr : Option (Nat × Nat)) (pdirs : List SysDir) (parts : List SysPart)
    (hl : PartsListing pdirs parts)
    (hf : ∀ p ∈ parts, p.others.lookup statName = none) (ha : ∀ p ∈ parts, NoStat p.attrs) :
    (walkList pdirs).filterMap (statEntry nr)
      = parts.map fun p => (mapName nr (sysName p.name), renderStat p.s p.ext) := by
  induction hl with
  | nil => simp [walkList_nil]
  | cons p fs subs pdirs ps hfs hsubs _ ih =>
    rw [walkList_cons, walk_node, List.cons_append, List.filterMap_cons, List.filterMap_append,
      ih (fun q hq => hf q (by simp [hq])) (fun q hq => ha q (by simp [hq])),
      entries_noStat nr subs (noStat_perm _ _ hsubs (ha p (by simp)))]
    have : statEntry nr (sysName p.name, fs) = some (mapName nr (sysName p.name), renderStat p.s p.ext) := by
      simp [statEntry, statName_cfg, lookup_perm_stat fs p.others _ hfs (hf p (by simp))]
    rw [this]
    rfl

theorem entries_disksListing (nr : Option (Nat × Nat)) (dirs : List SysDir) (disks : List SysDisk)
    (hl : DisksListing dirs disks) (wf : ∀ d ∈ disks, SysDiskWF d) :
    ((walkList dirs).filterMap (statEntry nr)).Perm (disks.flatMap (diskEntries nr)) := by
  induction hl with
  | nil => simp [walkList_nil]
  | cons d fs subs pdirs dirs ds hfs hparts hsubs _ ih =>
    have wd := wf d (by simp)
    rw [walkList_cons, walk_node, List.cons_append, List.filterMap_cons, List.filterMap_append, List.flatMap_cons]
    have hs : statEntry nr (sysName d.name, fs) = some (mapName nr (sysName d.name), renderStat d.s d.ext) := by
      simp [statEntry, statName_cfg, lookup_perm_stat fs d.others _ hfs wd.files]
    rw [hs]
    have hsub : ((walkList subs).filterMap (statEntry nr)).Perm
        (d.parts.map fun p => (mapName nr (sysName p.name), renderStat p.s p.ext)) := by
      have h1 : (walkList subs).Perm (walkList (pdirs ++ d.attrs)) := by
        rw [walkList_flatMap, walkList_flatMap]
        exact List.Perm.flatMap_right SysDir.walk hsubs
      have h2 := List.Perm.filterMap (statEntry nr) h1
      rw [walkList_append, List.filterMap_append, entries_partsListing nr pdirs d.parts hparts wd.partFiles wd.partAttrs,
        entries_noStat nr d.attrs wd.attrs, List.append_nil] at h2
      exact h2
    simp only [diskEntries, List.cons_append]
    exact List.Perm.cons _ (List.Perm.append hsub (ih (fun x hx => wf x (by simp [hx]))))

theorem names_disksListing (dirs : List SysDir) (disks : List SysDisk) (hl : DisksListing dirs disks) :
    dirs.map (·.name) = (renderSysfs disks).map (·.name) := by
  induction hl with
  | nil => rfl
  | cons d fs subs pdirs dirs ds _ _ _ _ ih =>
    simp only [List.map_cons, renderSysfs, diskDir, SysDir.name] at ih ⊢
    rw [ih]

/-- the canonical rendering is a listing -/
theorem partsListing_render (parts : List SysPart) : PartsListing (parts.map partDir) parts := by
  induction parts with
  | nil => exact .nil
  | cons p r ih => exact .cons p _ _ _ _ (List.Perm.refl _) (List.Perm.refl _) ih

theorem sysListing_render (disks : List SysDisk) : SysListing (renderSysfs disks) disks := by
  refine ⟨renderSysfs disks, ?_, List.Perm.refl _⟩
  induction disks with
  | nil => exact .nil
  | cons d r ih =>
    exact .cons d _ _ (d.parts.map partDir) _ _ (List.Perm.refl _) (partsListing_render d.parts) (List.Perm.refl _) ih

/-! ### `is_storage_device` and the name conditions do not depend on the order -/

theorem isStorage_perm (a b : List Bytes) (hp : a.Perm b) :
    isStorageDevice diskCfg a = isStorageDevice diskCfg b := by
  funext n
  unfold isStorageDevice
  simp only [hp.contains_eq]

theorem sysBlock_perm (a b : List Dev) (hp : a.Perm b) : (sysBlock a).Perm (sysBlock b) := by
  unfold sysBlock
  exact List.Perm.map _ (List.Perm.filter _ hp)

theorem namesWF_perm (a b : List Dev) (hp : a.Perm b) (wf : NamesWF b) : NamesWF a := by
  refine ⟨?_, ?_⟩
  · exact (List.Perm.map (fun d : Dev => sysName d.name) hp).nodup_iff.mpr wf.nodup
  · intro d hd; exact wf.notDot d (hp.mem_iff.mp hd)

/-- **`read_sysfs` + aggregation loop over a tree in any listing order**: the raw dict is the
    canonical one for the same devices in some order -/
theorem sysfsPlatform_any_order (nr : Option (Nat × Nat)) (hn : NameOk nr) (disks : List SysDisk)
    (wf : SysWF disks) (tree : List SysDir) (hl : SysListing tree disks) (per : Bool) :
    ∃ devs' : List Dev, devs'.Perm (namedBy nr (sysDevs disks)) ∧
      diskPlatformW diskCfg (sysfsCfgWith nr) ⟨none, some tree⟩ per diskSourceOrder
        = .ok ((if per then devs' else wholeDisks devs').map fun d => (d.name, vals9 d.stat)) := by
  obtain ⟨dirs, hdl, htp⟩ := hl
  -- the entries collected, up to order
  have hE : (sysfsEntries (sysfsCfgWith nr) tree).Perm
      ((namedBy nr (sysDevs disks)).map fun d => (d.name, statText d.stat)) := by
    rw [← diskEntries_devs]
    show ((walkList tree).filterMap (statEntry nr)).Perm _
    have h1 : (walkList tree).Perm (walkList dirs) := by
      rw [walkList_flatMap, walkList_flatMap]
      exact List.Perm.flatMap_right SysDir.walk htp
    exact (List.Perm.filterMap (statEntry nr) h1).trans (entries_disksListing nr dirs disks hdl wf.dirs)
  obtain ⟨devs', hp, he⟩ := perm_map_inv (fun d : Dev => (d.name, statText d.stat)) hE _ rfl
  refine ⟨devs', hp, ?_⟩
  -- the names `os.listdir` returns, up to order
  have hnames : (tree.map (·.name)).Perm (sysBlock devs') := by
    have h1 : (tree.map (·.name)).Perm (dirs.map (·.name)) := List.Perm.map _ htp
    rw [names_disksListing dirs disks hdl, sysBlock_render, ← sysBlock_namedBy nr hn] at h1
    exact h1.trans (sysBlock_perm _ _ hp).symm
  have hst : storageW diskCfg ⟨none, some tree⟩ = isStorageDevice diskCfg (sysBlock devs') := by
    funext n
    simp only [storageW]
    rw [isStorage_perm _ _ hnames]
  have hsrc : diskSourceOrder = ["read_procfs", "read_sysfs"] := by decide
  have hfull : ∀ x ∈ devs', ∃ s ext, x.stat = .full s ext :=
    fun x hx => sysDevs_full nr disks x (hp.mem_iff.mp hx)
  rw [hsrc]
  simp only [diskPlatformW, if_true, String.reduceEq, if_false, hst]
  rw [he, sysfsFold_map nr devs' _ per hfull [],
    fold_result devs' (namesWF_perm _ _ hp (namesWF_namedBy nr hn _ wf.names)) per]

/-! ### what is promised does not depend on the order either -/

theorem wholeDisks_perm (a b : List Dev) (hp : a.Perm b) : (wholeDisks a).Perm (wholeDisks b) :=
  List.Perm.filter _ hp

theorem sumFields_perm (names : List String) (a b : List (List (String × Nat))) (hp : a.Perm b) :
    sumFields names a = sumFields names b := by
  unfold sumFields
  apply List.map_congr_left
  intro f _
  rw [(List.Perm.map (fun r : List (String × Nat) => (r.lookup f).getD 0) hp).sum_nat]

/-- the promised answer for the same devices listed in another order is the same `dict` / the same total -/
theorem expectDisk_perm (per : Bool) (a b : List Dev) (hp : a.Perm b) :
    (expectDisk per a).same (expectDisk per b) := by
  cases per with
  | true =>
    simp only [expectDisk, if_true]
    rw [hp.isEmpty_eq]
    cases hb : b.isEmpty with
    | true => simp [Expect.same]
    | false =>
      simp only [Bool.false_eq_true, if_false, Expect.same]
      exact List.Perm.map _ hp
  | false =>
    simp only [expectDisk, Bool.false_eq_true, if_false]
    have hw := wholeDisks_perm a b hp
    rw [hw.isEmpty_eq]
    cases hb : (wholeDisks b).isEmpty with
    | true => simp [Expect.same]
    | false =>
      simp only [Bool.false_eq_true, if_false, Expect.same]
      exact sumFields_perm _ _ _ (List.Perm.map _ hw)

theorem expectDisk_total_perm (a b : List Dev) (hp : a.Perm b) : expectDisk false a = expectDisk false b := by
  simp only [expectDisk, Bool.false_eq_true, if_false]
  have hw := wholeDisks_perm a b hp
  rw [hw.isEmpty_eq, sumFields_perm _ _ _ (List.Perm.map (fun d : Dev => documented9 d.stat) hw)]

end Psutil.C09
