/-
  Proofs/C11Count.lean — multiplicity: what `Accepts` implies about the NUMBER of rows. When no
  two selected sockets can yield the same row, the clauses `covered`, `nodup` and `bound` force
  exactly one row per selected socket (× holders for UNIX) — also when sockets share an inode.
-/
import PsutilModel.Spec.C11
import Batteries.Data.List.Perm
namespace Psutil.C11
open Spec

theorem row_inj (e : Expect) {o o' : Option Nat × Int} (h : e.row o = e.row o') : o = o' := by
  have h1 := congrArg Row.pid h
  have h2 := congrArg Row.fd h
  simp only [Expect.row] at h1 h2
  exact Prod.ext h1 h2

/-- a duplicate-free sub-list of `rows` with one element per promised row -/
theorem witness_list (rows : List Row) : ∀ es : List Expect,
    es.Pairwise (fun a b => ∀ oa ∈ a.owners, ∀ ob ∈ b.owners, a.row oa ≠ b.row ob) →
    (∀ e ∈ es, e.all = true → e.owners.Nodup) →
    (∀ e ∈ es, if e.all then ∀ o ∈ e.owners, e.row o ∈ rows else ∃ o ∈ e.owners, e.row o ∈ rows) →
    ∃ L : List Row, L.Nodup ∧ (∀ r ∈ L, r ∈ rows) ∧ L.length = (es.map Expect.count).sum
      ∧ ∀ r ∈ L, ∃ e ∈ es, ∃ o ∈ e.owners, r = e.row o := by
  intro es
  induction es with
  | nil => intro _ _ _; exact ⟨[], List.nodup_nil, (by simp), rfl, (by simp)⟩
  | cons e es ih =>
    intro hp hn hc
    obtain ⟨hpe, hpes⟩ := List.pairwise_cons.mp hp
    obtain ⟨L', l1, l2, l3, l4⟩ := ih hpes (fun x hx => hn x (by simp [hx])) (fun x hx => hc x (by simp [hx]))
    have hce := hc e (by simp)
    -- the rows of `e` itself
    have hLe : ∃ Le : List Row, Le.Nodup ∧ (∀ r ∈ Le, r ∈ rows) ∧ Le.length = e.count
        ∧ ∀ r ∈ Le, ∃ o ∈ e.owners, r = e.row o := by
      cases ha : e.all with
      | true =>
        simp only [ha, if_true] at hce
        refine ⟨e.owners.map e.row, ?_, ?_, by simp [Expect.count, ha], ?_⟩
        · exact List.Pairwise.map e.row (fun a b hab h => hab (row_inj e h)) (hn e (by simp) ha)
        · intro r hr
          obtain ⟨o, ho, rfl⟩ := List.mem_map.mp hr
          exact hce o ho
        · intro r hr
          obtain ⟨o, ho, rfl⟩ := List.mem_map.mp hr
          exact ⟨o, ho, rfl⟩
      | false =>
        simp only [ha, Bool.false_eq_true, if_false] at hce
        obtain ⟨o, ho, hr⟩ := hce
        refine ⟨[e.row o], by simp, ?_, by simp [Expect.count, ha], ?_⟩
        · intro r hr'; simp at hr'; rw [hr']; exact hr
        · intro r hr'; simp at hr'; exact ⟨o, ho, hr'⟩
    obtain ⟨Le, e1, e2, e3, e4⟩ := hLe
    refine ⟨Le ++ L', ?_, ?_, ?_, ?_⟩
    · rw [List.nodup_append]
      refine ⟨e1, l1, ?_⟩
      intro a ha b hb hab
      obtain ⟨o, ho, rfl⟩ := e4 a ha
      obtain ⟨e', he', o', ho', rfl⟩ := l4 b hb
      exact hpe e' he' o ho o' ho' hab
    · intro r hr
      rcases List.mem_append.mp hr with h | h
      · exact e2 r h
      · exact l2 r h
    · simp [e3, l3]
    · intro r hr
      rcases List.mem_append.mp hr with h | h
      · obtain ⟨o, ho, rfl⟩ := e4 r h
        exact ⟨e, by simp, o, ho, rfl⟩
      · obtain ⟨e', he', o', ho', rfl⟩ := l4 r h
        exact ⟨e', by simp [he'], o', ho', rfl⟩

/-- **accepted rows of distinguishable sockets are counted exactly** -/
theorem Accepts.length_eq {es : List Expect} {rows : List Row} (h : Accepts es rows) (hd : Distinct es) :
    rows.length = (es.map Expect.count).sum := by
  obtain ⟨L, hn, hsub, hlen, _⟩ := witness_list rows es hd.1 hd.2 h.covered
  have h1 : L.length ≤ rows.length := (List.subperm_of_subset hn hsub).length_le
  have h2 := h.bound
  omega

end Psutil.C11
