/-
  Proofs/C13Pct.lean — the total of `memory_percent`: `/proc/meminfo` round trip, the module
  cache `_TOTAL_PHYMEM`, histories.
-/
import PsutilModel.Proofs.C13Full
import PsutilModel.Model.C13Pct
namespace Psutil.C13
open Psutil Psutil.C13.Spec

structure PCfg.Good (pc : PCfg) : Prop where
  meminfoFactor : pc.meminfoFactor = 1024
  totalKey : pc.totalKey = bMemTotal ++ [58]
  freeKey : pc.freeKey = bMemFree ++ [58]
  pctUsesCache : pc.pctUsesCache = true
  vmStoresTotal : pc.vmStoresTotal = true

/-! ### /proc/meminfo -/

theorem meminfoLoop_kvs (pc : PCfg) (kvs : List KV) (d : Dict) (hk : ∀ e ∈ kvs, wfKey e.key = true) :
    meminfoLoop pc (kvs.map kvLine) d = .ok (dictOf pc.meminfoFactor kvs d) := by
  induction kvs generalizing d with
  | nil => rfl
  | cons e t ih =>
    obtain ⟨rest, hs⟩ := splitWs_kvLine e (hk e (by simp))
    simp only [List.map_cons, meminfoLoop, hs, parseDec_renderDec, dictOf, List.foldl_cons]
    exact ih _ (fun x hx => hk x (by simp [hx]))

theorem lookup_dictOf_nil (f : Nat) (kvs : List KV) (k : Bytes) (hnd : (kvs.map (·.key)).Nodup) :
    (dictOf f kvs []).lookup (k ++ [58]) = (kvGet kvs k).map (· * f) := by
  rw [lookup_dictOf f kvs [] k hnd]
  unfold kvGet
  cases kvs.find? (fun e => e.key == k) <;> rfl

theorem vmTotal_rendered (pc : PCfg) (hp : pc.Good) (ls : List KV) (hw : wfMeminfo ls = true) :
    vmTotal pc (renderMeminfo ls) = .ok (memTotal ls) := by
  unfold wfMeminfo at hw
  simp only [Bool.and_eq_true, List.all_eq_true, decide_eq_true_eq] at hw
  obtain ⟨⟨⟨hkeys, hnd⟩, ht⟩, hf⟩ := hw
  have hnl : ∀ l ∈ ls.map kvLine, 10 ∉ l := by
    intro l hl
    obtain ⟨e, he, rfl⟩ := List.mem_map.mp hl
    exact (lineOK_kvLine e (hkeys e he)).1
  unfold vmTotal renderMeminfo
  rw [linesOf_unlines _ hnl, meminfoLoop_kvs pc ls [] hkeys]
  simp only [hp.totalKey, hp.freeKey, hp.meminfoFactor, lookup_dictOf_nil 1024 ls _ hnd]
  unfold memTotal
  cases h1 : kvGet ls bMemTotal with
  | none => simp [h1] at ht
  | some t =>
    cases h2 : kvGet ls bMemFree with
    | none => simp [h2] at hf
    | some fr => simp [Nat.mul_comm]

/-! ### the value part -/

theorem pctValue_ok (c : Cfg) (hg : c.Good) (memtype : String) (vals : List Nat) (u p s : Nat)
    (hlen : vals.length = 7) (v : Nat)
    (hv : (pfullmemNames.zip (vals ++ [u, p, s])).lookup memtype = some v) :
    pctValue c memtype (.ok vals) (.ok (vals ++ [u, p, s])) = .ok v := by
  have hmem : pfullmemNames.contains memtype = true :=
    List.contains_iff_mem.mpr (lookup_zip_mem _ _ _ _ hv)
  unfold pctValue
  rw [hg.pfullmemFields, hg.pmemFields]
  simp only [hmem, Bool.not_true, Bool.false_eq_true, if_false]
  by_cases hp : pmemNames.contains memtype = true
  · have hv' : (pmemNames.zip vals).lookup memtype = some v := by
      rw [← lookup_zip_prefix pmemNames ["uss", "pss", "swap"] vals [u, p, s] memtype
        (by simpa [pmemNames] using hlen) (List.contains_iff_mem.mp hp)]
      exact hv
    simp only [hp, if_true, hv']
  · simp only [hp, Bool.false_eq_true, if_false, hv]

theorem pctValue_bad (c : Cfg) (hg : c.Good) (memtype : String) (info full : Res (List Nat))
    (h : memtype ∉ pfullmemNames) : pctValue c memtype info full = .error .valueError := by
  unfold pctValue
  rw [hg.pfullmemFields]
  have : pfullmemNames.contains memtype = false := by
    cases hc : pfullmemNames.contains memtype with
    | false => rfl
    | true => exact absurd (List.contains_iff_mem.mp hc) h
  simp only [this, Bool.not_false, if_true]

theorem pctOf_pos (v : Nat) (t : Nat) (ht : 0 < t) : pctOf v (t : Int) = .ok (specPercent v (t : Int)) := by
  unfold pctOf
  rw [specPercent_eq]
  have : (t : Int) > 0 := by exact_mod_cast ht
  exact if_pos this

theorem pctOf_zero (v : Nat) : pctOf v ((0 : Nat) : Int) = .error .valueError := by
  unfold pctOf
  simp

/-! ### one call -/

/-- what `memory_percent` answers once the value is known and the total is `t` -/
def answer (r : Res Nat) (t : Nat) : Res Rat :=
  match r with
  | .error e => .error e
  | .ok v => pctOf v (t : Int)

/-- a truthy cache wins: `/proc/meminfo` is not even read, the state is unchanged -/
theorem pct_cache_wins (c : Cfg) (pc : PCfg) (hp : pc.Good) (mt : String) (info full : Res (List Nat))
    (meminfo : Bytes) (t : Nat) (ht : t ≠ 0) :
    memoryPercentS c pc mt info full meminfo ⟨some t⟩ = (answer (pctValue c mt info full) t, ⟨some t⟩) := by
  unfold memoryPercentS answer
  cases pctValue c mt info full with
  | error e => rfl
  | ok v => simp [hp.pctUsesCache, truthy, ht]

/-- an empty (or zero) cache: the total is read from `/proc/meminfo` and stored -/
theorem pct_fresh (c : Cfg) (pc : PCfg) (hp : pc.Good) (mt : String) (info full : Res (List Nat))
    (meminfo : Bytes) (s : PState) (hs : s.cache = none ∨ s.cache = some 0) (t : Nat)
    (hm : vmTotal pc meminfo = .ok t) (v : Nat) (hv : pctValue c mt info full = .ok v) :
    memoryPercentS c pc mt info full meminfo s = (pctOf v (t : Int), ⟨some t⟩) := by
  unfold memoryPercentS
  have htr : truthy (if pc.pctUsesCache then s.cache else none) = none := by
    rcases hs with h | h <;> simp [hp.pctUsesCache, h, truthy]
  simp only [hv, htr, virtualMemory, hm, hp.vmStoresTotal, if_true]

/-- an error before the total is needed leaves the state alone -/
theorem pct_value_error (c : Cfg) (pc : PCfg) (mt : String) (info full : Res (List Nat))
    (meminfo : Bytes) (s : PState) (e : Exc) (hv : pctValue c mt info full = .error e) :
    memoryPercentS c pc mt info full meminfo s = (.error e, s) := by
  unfold memoryPercentS
  simp only [hv]

/-! ### histories -/

/-- the answers when the kernel's total is `T` throughout -/
def runFixed (c : Cfg) (info full : Res (List Nat)) (T : Nat) : List POp → List POut
  | [] => []
  | .setMeminfo _ :: ops => .none :: runFixed c info full T ops
  | .vm :: ops => .total (.ok T) :: runFixed c info full T ops
  | .pct mt :: ops => .pct (answer (pctValue c mt info full) T) :: runFixed c info full T ops

theorem runP_fixed (c : Cfg) (pc : PCfg) (hp : pc.Good) (info full : Res (List Nat)) (T : Nat)
    (ops : List POp) (mi : Bytes) (s : PState)
    (hmi : vmTotal pc mi = .ok T) (hops : ∀ b, POp.setMeminfo b ∈ ops → vmTotal pc b = .ok T)
    (hs : s.cache = none ∨ s.cache = some T) :
    runP c pc info full ops mi s = runFixed c info full T ops := by
  induction ops generalizing mi s with
  | nil => rfl
  | cons op ops ih =>
    have hops' : ∀ b, POp.setMeminfo b ∈ ops → vmTotal pc b = .ok T :=
      fun b hb => hops b (List.mem_cons_of_mem _ hb)
    cases op with
    | setMeminfo b =>
      simp only [runP, runFixed]
      rw [ih b s (hops b (by simp)) hops' hs]
    | vm =>
      simp only [runP, runFixed, virtualMemory, hmi, hp.vmStoresTotal, if_true]
      rw [ih mi ⟨some T⟩ hmi hops' (Or.inr rfl)]
    | pct mt =>
      simp only [runP, runFixed]
      cases hv : pctValue c mt info full with
      | error e =>
        rw [pct_value_error c pc mt info full mi s e hv]
        simp only [answer]
        rw [ih mi s hmi hops' hs]
      | ok v =>
        by_cases hT : T = 0
        · -- a zero total is never truthy: re-read on every call
          have hs' : s.cache = none ∨ s.cache = some 0 := by rw [hT] at hs; exact hs
          rw [pct_fresh c pc hp mt info full mi s hs' T hmi v hv]
          simp only [answer]
          rw [ih mi ⟨some T⟩ hmi hops' (Or.inr rfl)]
        · rcases hs with h | h
          · rw [pct_fresh c pc hp mt info full mi s (Or.inl h) T hmi v hv]
            simp only [answer]
            rw [ih mi ⟨some T⟩ hmi hops' (Or.inr rfl)]
          · have : s = ⟨some T⟩ := by cases s; simp_all
            rw [this, pct_cache_wins c pc hp mt info full mi T hT, hv]
            simp only [answer]
            rw [ih mi ⟨some T⟩ hmi hops' (Or.inr rfl)]

/-- the answers a reader of the CURRENT `/proc/meminfo` would give -/
def runCurrent (c : Cfg) (pc : PCfg) (info full : Res (List Nat)) : List POp → Bytes → List POut
  | [], _ => []
  | .setMeminfo b :: ops, _ => .none :: runCurrent c pc info full ops b
  | .vm :: ops, mi => .total (vmTotal pc mi) :: runCurrent c pc info full ops mi
  | .pct mt :: ops, mi =>
    .pct (match pctValue c mt info full with
          | .error e => .error e
          | .ok v => match vmTotal pc mi with
            | .error e => .error e
            | .ok t => pctOf v (t : Int)) :: runCurrent c pc info full ops mi

theorem runCurrent_fixed (c : Cfg) (pc : PCfg) (info full : Res (List Nat)) (T : Nat)
    (ops : List POp) (mi : Bytes) (hmi : vmTotal pc mi = .ok T)
    (hops : ∀ b, POp.setMeminfo b ∈ ops → vmTotal pc b = .ok T) :
    runCurrent c pc info full ops mi = runFixed c info full T ops := by
  induction ops generalizing mi with
  | nil => rfl
  | cons op ops ih =>
    have hops' : ∀ b, POp.setMeminfo b ∈ ops → vmTotal pc b = .ok T :=
      fun b hb => hops b (List.mem_cons_of_mem _ hb)
    cases op with
    | setMeminfo b => simp only [runCurrent, runFixed, ih b (hops b (by simp)) hops']
    | vm => simp only [runCurrent, runFixed, hmi, ih mi hmi hops']
    | pct mt =>
      simp only [runCurrent, runFixed, hmi, ih mi hmi hops', answer]

/-- successful percentages of a history (`none` for everything else) -/
def pctVals : List POut → List (Option Rat)
  | [] => []
  | .pct (.ok r) :: l => some r :: pctVals l
  | _ :: l => none :: pctVals l

/-! ### the reading of the property in the presence of the cache: percent of the total physical
    memory psutil LAST READ (by the latest `virtual_memory()`, or by the first `memory_percent()`
    when none was made) — written without reference to the configuration flags -/

/-- `last`: the total psutil read last (`none`: nothing read yet) -/
def runLastRead (c : Cfg) (total : Bytes → Res Nat) (info full : Res (List Nat)) :
    List POp → Bytes → Option Nat → List POut
  | [], _, _ => []
  | .setMeminfo b :: ops, _, last => .none :: runLastRead c total info full ops b last
  | .vm :: ops, mi, last =>
    match total mi with
    | .ok t => .total (.ok t) :: runLastRead c total info full ops mi (some t)
    | .error e => .total (.error e) :: runLastRead c total info full ops mi last
  | .pct mt :: ops, mi, last =>
    match pctValue c mt info full with
    | .error e => .pct (.error e) :: runLastRead c total info full ops mi last
    | .ok v =>
      match truthy last with
      | some t => .pct (pctOf v (t : Int)) :: runLastRead c total info full ops mi last
      | none =>
        match total mi with
        | .ok t => .pct (pctOf v (t : Int)) :: runLastRead c total info full ops mi (some t)
        | .error e => .pct (.error e) :: runLastRead c total info full ops mi last

theorem runP_lastRead (c : Cfg) (pc : PCfg) (hp : pc.Good) (info full : Res (List Nat))
    (ops : List POp) (mi : Bytes) (s : PState) :
    runP c pc info full ops mi s = runLastRead c (vmTotal pc) info full ops mi s.cache := by
  induction ops generalizing mi s with
  | nil => rfl
  | cons op ops ih =>
    cases op with
    | setMeminfo b => simp only [runP, runLastRead, ih]
    | vm =>
      simp only [runP, runLastRead, virtualMemory]
      cases hm : vmTotal pc mi with
      | error e => simp only [ih]
      | ok t => simp only [hp.vmStoresTotal, if_true, ih]
    | pct mt =>
      simp only [runP, runLastRead, memoryPercentS]
      cases hv : pctValue c mt info full with
      | error e => simp only [ih]
      | ok v =>
        simp only [hp.pctUsesCache, if_true]
        cases ht : truthy s.cache with
        | some t => simp only [ih]
        | none =>
          simp only [virtualMemory]
          cases hm : vmTotal pc mi with
          | error e => simp only [ih]
          | ok t => simp only [hp.vmStoresTotal, if_true, ih]

end Psutil.C13
