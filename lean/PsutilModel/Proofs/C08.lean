/-
  Proofs/C08.lean — helper lemmas for C08: the reference configuration (what the source must
  say for the theorems to apply), text lemmas for the three renderers, arithmetic lemmas.
-/
import PsutilModel.Model.C08
import PsutilModel.Spec.C08
namespace Psutil.C08
open Spec

/-- meminfo key as psutil spells it: the kernel's name plus the colon -/
def key (s : String) : Bytes := K s ++ [58]

/-- the configuration under which the theorems are proved; `cfg_good` (Props) shows that the
    configuration extracted from the current source IS this one -/
def kernelCfg : Cfg :=
  { vmParse := ⟨0, 1, 1024⟩
    kMemTotal := key "MemTotal", kMemFree := key "MemFree", kBuffers := key "Buffers"
    kCached := key "Cached", kSReclaimable := key "SReclaimable", kShmem := key "Shmem"
    kMemShared := key "MemShared", kActive := key "Active", kInactive := key "Inactive"
    kInactDirty := key "Inact_dirty", kInactClean := key "Inact_clean"
    kInactLaundry := key "Inact_laundry", kSlab := key "Slab", kMemAvailable := key "MemAvailable"
    nBuffers := "buffers", nCached := "cached", nShared := "shared", nActive := "active"
    nInactive := "inactive", nAvailable := "available"
    usedClamp := true, zeroAvailFallsBack := true, availClampLow := true, availClampHigh := true
    vmRound := 1
    caMemFree := key "MemFree", caCached := key "Cached", caActiveFile := key "Active(file)"
    caInactiveFile := key "Inactive(file)", caSReclaimable := key "SReclaimable"
    lowPrefix := K "low", lowIdx := 1
    swParse := ⟨0, 1, 1024⟩
    kSwapTotal := key "SwapTotal", kSwapFree := key "SwapFree", swRound := 1
    sinPrefix := K "pswpin", sinIdx := 1, sinFactor := 4096
    soutPrefix := K "pswpout", soutIdx := 1, soutFactor := 4096
    pctScale := 100
    svmemLayout := [("total", "total"), ("available", "avail"), ("percent", "percent"),
      ("used", "used"), ("free", "free"), ("active", "active"), ("inactive", "inactive"),
      ("buffers", "buffers"), ("cached", "cached"), ("shared", "shared"), ("slab", "slab")]
    sswapLayout := [("total", "total"), ("used", "used"), ("free", "free"),
      ("percent", "percent"), ("sin", "sin"), ("sout", "sout")] }

end Psutil.C08
