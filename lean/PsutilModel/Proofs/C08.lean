/-
  Proofs/C08.lean — helper lemmas for C08: the reference configuration (what the source must
  say for the theorems to apply), text lemmas for the three renderers, arithmetic lemmas.
-/
import PsutilModel.Model.C08
import PsutilModel.Spec.C08
namespace Psutil.C08
open Spec

/-- meminfo key as psutil spells it: the kernel's name plus the colon -/
def key (s : String) : Bytes := K s ++ [58]

/-- the configuration under which the theorems are proved; `cfg_good` (Props) shows that the
    configuration extracted from the current source IS this one -/
def kernelCfg : Cfg :=
  { vmParse := ⟨0, 1, 1024⟩
    kMemTotal := key "MemTotal", kMemFree := key "MemFree", kBuffers := key "Buffers"
    kCached := key "Cached", kSReclaimable := key "SReclaimable", kShmem := key "Shmem"
    kMemShared := key "MemShared", kActive := key "Active", kInactive := key "Inactive"
    kInactDirty := key "Inact_dirty", kInactClean := key "Inact_clean"
    kInactLaundry := key "Inact_laundry", kSlab := key "Slab", kMemAvailable := key "MemAvailable"
    nBuffers := "buffers", nCached := "cached", nShared := "shared", nActive := "active"
    nInactive := "inactive", nAvailable := "available"
    usedClamp := true, zeroAvailFallsBack := true, availClampLow := true, availClampHigh := true
    vmRound := 1
    caMemFree := key "MemFree", caCached := key "Cached", caActiveFile := key "Active(file)"
    caInactiveFile := key "Inactive(file)", caSReclaimable := key "SReclaimable"
    lowPrefix := K "low", lowIdx := 1
    swParse := ⟨0, 1, 1024⟩
    kSwapTotal := key "SwapTotal", kSwapFree := key "SwapFree", swRound := 1
    sinPrefix := K "pswpin", sinIdx := 1, sinFactor := 4096
    soutPrefix := K "pswpout", soutIdx := 1, soutFactor := 4096
    pctScale := 100
    svmemLayout := [("total", "total"), ("available", "avail"), ("percent", "percent"),
      ("used", "used"), ("free", "free"), ("active", "active"), ("inactive", "inactive"),
      ("buffers", "buffers"), ("cached", "cached"), ("shared", "shared"), ("slab", "slab")]
    sswapLayout := [("total", "total"), ("used", "used"), ("free", "free"),
      ("percent", "percent"), ("sin", "sin"), ("sout", "sout")]
    sysCOrder := ["totalram", "freeram", "bufferram", "sharedram", "totalswap", "freeswap", "mem_unit"]
    sysUnpack := ["_", "_", "_", "_", "total", "free", "unit_multiplier"]
    sysTotalTimesUnit := true, sysFreeTimesUnit := true
    primesTotalPhymem := true, phymemField := "total", memPercentUsesCache := true }

/-- the same configuration with the two /proc/vmstat page counters multiplied by `f` bytes per
    page: `f = 4096` is the code as found (`* 4 * 1024`), `f = PAGESIZE` the repaired one -/
def cfgF (f : Nat) : Cfg := { kernelCfg with sinFactor := f, soutFactor := f }

theorem kernelCfg_eq_cfgF : kernelCfg = cfgF 4096 := rfl


/-! ## Text lemmas: the three renderers against the parsers -/

theorem splitOn_lines (ls : List Bytes) (h : ∀ l ∈ ls, 10 ∉ l) :
    splitOn 10 ((ls.map fun l => l ++ [10]).flatten) = ls ++ [[]] := by
  induction ls with
  | nil => simp [splitOn]
  | cons l ls ih =>
    have ih' := ih (fun x hx => h x (by simp [hx]))
    simp only [List.map_cons, List.flatten_cons, List.append_assoc, List.singleton_append]
    rw [splitOn_append 10 l _ (h l (by simp)), ih']
    simp

theorem linesOf_lines (ls : List Bytes) (h : ∀ l ∈ ls, 10 ∉ l) :
    linesOf ((ls.map fun l => l ++ [10]).flatten) = ls := by
  unfold linesOf
  rw [splitOn_lines ls h]
  simp

theorem splitWsGo_spaces (n : Nat) (rest : Bytes) :
    splitWsGo (spaces n ++ rest) [] = splitWsGo rest [] := by
  induction n with
  | zero => simp [spaces]
  | succ n ih =>
    have : spaces (n + 1) = 32 :: spaces n := by simp [spaces, List.replicate_succ]
    rw [this]
    simp only [List.cons_append, splitWsGo]
    simp [isWs, ih]

theorem splitWs_tok (t : Bytes) (n : Nat) (rest : Bytes) (ht : NoWs t) (hne : t ≠ []) :
    splitWs (t ++ spaces (n + 1) ++ rest) = t :: splitWs rest := by
  unfold splitWs
  rw [List.append_assoc, splitWsGo_token t _ [] ht]
  have : spaces (n + 1) = 32 :: spaces n := by simp [spaces, List.replicate_succ]
  rw [this, List.cons_append, splitWsGo_ws 32 _ _ (by decide) (by simpa using hne)]
  simp [splitWsGo_spaces]

theorem splitWs_single (t : Bytes) (ht : NoWs t) (hne : t ≠ []) : splitWs t = [t] := by
  unfold splitWs
  have := splitWsGo_token t [] [] ht
  simp only [List.append_nil] at this
  rw [this]
  cases hr : t.reverse with
  | nil => simp at hr; exact absurd hr hne
  | cons a as =>
    have : t = (a :: as).reverse := by rw [← hr]; simp
    simp [splitWsGo, this]


theorem noWs_append {a b : Bytes} (ha : NoWs a) (hb : NoWs b) : NoWs (a ++ b) := by
  intro c hc
  rcases List.mem_append.mp hc with h | h
  · exact ha c h
  · exact hb c h

theorem noWs_not_mem {a : Bytes} (ha : NoWs a) (c : Nat) (hc : isWs c = true) : c ∉ a := by
  intro hm
  have := ha c hm
  simp [this] at hc

theorem not_mem_spaces (n c : Nat) (hc : c ≠ 32) : c ∉ spaces n := by
  simp [spaces, List.mem_replicate]
  intro _ h; exact hc h

theorem lstripWs_spaces (n : Nat) (s : Bytes) : lstripWs (spaces n ++ s) = lstripWs s := by
  induction n with
  | zero => simp [spaces]
  | succ n ih =>
    have : spaces (n + 1) = 32 :: spaces n := by simp [spaces, List.replicate_succ]
    rw [this]
    simp only [List.cons_append, lstripWs]
    simp [isWs, ih]

theorem lstripWs_cons (c : Nat) (s : Bytes) (hc : isWs c = false) : lstripWs (c :: s) = c :: s := by
  simp [lstripWs, hc]

theorem rstripWs_append_noWs (x y : Bytes) (hy : y ≠ []) (hn : NoWs y) :
    rstripWs (x ++ y) = x ++ y := by
  unfold rstripWs
  rw [List.reverse_append]
  cases hr : y.reverse with
  | nil => simp at hr; exact absurd hr hy
  | cons c r =>
    have hc : isWs c = false := hn c (by
      have : c ∈ y.reverse := by rw [hr]; simp
      simpa using this)
    rw [List.cons_append, lstripWs_cons _ _ hc, ← List.cons_append, ← hr, ← List.reverse_append]
    simp

theorem stripWs_spaces (n : Nat) (s : Bytes) : stripWs (spaces n ++ s) = stripWs s := by
  unfold stripWs
  rw [lstripWs_spaces]

theorem stripWs_noWs (s : Bytes) (h : NoWs s) : stripWs s = s := by
  cases s with
  | nil => simp [stripWs, rstripWs, lstripWs]
  | cons c r =>
    unfold stripWs
    rw [lstripWs_cons _ _ (h c (by simp))]
    have := rstripWs_append_noWs [] (c :: r) (by simp) h
    simpa using this


/-! ### `int()` on what the kernel prints -/

theorem litGo_digits (s : Bytes) (h : ∀ c ∈ s, isDigit c = true) (st : LitSt) (acc : Nat)
    (hne : s ≠ [] ∨ st = .digit) : litGo s st acc = parseRadixAux decimal s acc := by
  induction s generalizing st acc with
  | nil =>
    rcases hne with h0 | h0
    · exact absurd rfl h0
    · subst h0; rfl
  | cons c cs ih =>
    have hc := h c (by simp)
    have hv : decimal.val c = some (c - 48) := by
      have : 48 ≤ c ∧ c ≤ 57 := by simpa [isDigit] using hc
      simp [decimal, this]
    simp only [litGo, hc, if_true, parseRadixAux, hv]
    exact ih (fun x hx => h x (by simp [hx])) .digit _ (Or.inr rfl)

/-- `int(b"<decimal rendering of n>") = n` -/
theorem pyIntLit_renderDec (n : Nat) : pyIntLit (renderDec n) = .nat n := by
  unfold pyIntLit
  rw [stripWs_noWs _ (renderDec_noWs n)]
  have hd := renderDec_isDigit n
  have hp := parseDec_renderDec n
  cases hr : renderDec n with
  | nil => exact absurd hr (renderDec_ne_nil n)
  | cons c cs =>
    rw [hr] at hd hp
    have hc := hd c (by simp)
    have h45 : c ≠ 45 := by intro e; subst e; simp [isDigit] at hc
    have h43 : c ≠ 43 := by intro e; subst e; simp [isDigit] at hc
    have hsb : signSplit (c :: cs) = (false, c :: cs) := by
      unfold signSplit
      split
      · next r he => cases he; exact absurd rfl h45
      · next r he => cases he; exact absurd rfl h43
      · rfl
    simp only [hsb]
    rw [litGo_digits (c :: cs) hd .start 0 (Or.inl (by simp))]
    have : parseRadixAux decimal (c :: cs) 0 = some n := by
      simpa [parseDec?, parseRadix?] using hp
    simp [this]

/-- the key psutil sees: name plus colon -/
def kv (f : Nat) (e : Entry) : Bytes × Nat := (e.name ++ [58], e.val * f)

theorem noWs_key (e : Entry) (h : e.WF) : NoWs (e.name ++ [58]) :=
  noWs_append h.2 (by intro c hc; simp at hc; subst hc; decide)

theorem splitWs_entry (e : Entry) (h : e.WF) :
    ∃ tl, splitWs (renderEntry e) = (e.name ++ [58]) :: renderDec e.val :: tl := by
  unfold renderEntry
  have hk := noWs_key e h
  have hkne : e.name ++ [58] ≠ [] := by simp
  have hd := renderDec_noWs e.val
  have hdne := renderDec_ne_nil e.val
  cases hu : e.unit with
  | false =>
    simp only [Bool.false_eq_true, if_false, List.append_nil]
    rw [splitWs_tok _ _ _ hk hkne, splitWs_single _ hd hdne]
    exact ⟨[], rfl⟩
  | true =>
    simp only [if_true]
    have hkb : K " kB" = spaces (0 + 1) ++ [107, 66] := by decide
    rw [hkb, List.append_assoc, splitWs_tok _ _ _ hk hkne, ← List.append_assoc,
      splitWs_tok _ _ _ hd hdne]
    exact ⟨_, rfl⟩

theorem parseLine_entry (f : Nat) (e : Entry) (h : e.WF) :
    parseLine ⟨0, 1, f⟩ (renderEntry e) = .ok (kv f e) := by
  obtain ⟨tl, htl⟩ := splitWs_entry e h
  unfold parseLine
  simp only [htl]
  simp [pyIntLit_renderDec, kv]

theorem parseLines_entries (f : Nat) (es : List Entry) (h : ∀ e ∈ es, e.WF) (acc : Mems) :
    parseLines ⟨0, 1, f⟩ (es.map renderEntry) acc = .ok ((es.map (kv f)).reverse ++ acc) := by
  induction es generalizing acc with
  | nil => simp [parseLines]
  | cons e es ih =>
    simp only [List.map_cons, parseLines, parseLine_entry f e (h e (by simp))]
    rw [ih (fun x hx => h x (by simp [hx]))]
    simp

theorem nl_not_mem_entry (e : Entry) (h : e.WF) : 10 ∉ renderEntry e := by
  unfold renderEntry
  have h1 := noWs_not_mem h.2 10 (by decide)
  have h2 := not_mem_spaces (e.pad + 1) 10 (by decide)
  have h3 := renderDec_not_mem e.val 10 (by decide)
  have h4 : 10 ∉ (if e.unit then K " kB" else []) := by
    cases e.unit <;> decide
  simp only [List.mem_append, not_or]
  refine ⟨⟨⟨⟨h1, by decide⟩, h2⟩, h3⟩, h4⟩

theorem parseMeminfo_render (f : Nat) (es : List Entry) (h : ∀ e ∈ es, e.WF) :
    parseMeminfo ⟨0, 1, f⟩ (renderMeminfo es) = .ok ((es.map (kv f)).reverse) := by
  unfold parseMeminfo renderMeminfo
  have : (es.map fun e => renderEntry e ++ [10]) = (es.map renderEntry).map fun l => l ++ [10] := by
    simp
  rw [this, linesOf_lines _ (by
    intro l hl
    obtain ⟨e, he, rfl⟩ := List.mem_map.mp hl
    exact nl_not_mem_entry e (h e he))]
  rw [parseLines_entries f es h]
  simp

theorem lookup_kv (f : Nat) (l : List Entry) (k : Bytes) :
    (l.map (kv f)).lookup (k ++ [58]) = (l.find? (fun e => e.name == k)).map (fun e => e.val * f) := by
  induction l with
  | nil => simp
  | cons e l ih =>
    by_cases hk : e.name = k
    · subst hk; simp [kv]
    · have h1 : (k ++ [58] == e.name ++ [58]) = false := by
        simp only [beq_eq_false_iff_ne, ne_eq]
        intro he; exact hk (List.append_cancel_right he).symm
      have h2 : (e.name == k) = false := by simpa using hk
      simp only [List.map_cons, kv, List.lookup, h1, List.find?_cons, h2]
      exact ih

/-- the bridge: what `mems.get(key)` sees after parsing the rendered file is the abstract map -/
theorem lookup_parsed (f : Nat) (es : List Entry) (k : Bytes) :
    ((es.map (kv f)).reverse).lookup (k ++ [58])
      = ((MemInfo.ofEntries es).get k).map (· * f) := by
  rw [← List.map_reverse, lookup_kv]
  simp [MemInfo.ofEntries, Option.map_map, Function.comp_def]


/-! ### /proc/zoneinfo -/

theorem stripWs_low (i p v : Nat) :
    stripWs (renderZLine (.low i p v)) = K "low" ++ spaces (p + 1) ++ renderDec v := by
  show stripWs (spaces i ++ K "low" ++ spaces (p + 1) ++ renderDec v) = _
  rw [List.append_assoc, List.append_assoc, List.append_assoc, stripWs_spaces]
  unfold stripWs
  have : K "low" ++ (spaces (p + 1) ++ renderDec v) = 108 :: ([111, 119] ++ (spaces (p + 1) ++ renderDec v)) := by
    simp [K]
  rw [this, lstripWs_cons _ _ (by decide), ← this, ← List.append_assoc]
  exact rstripWs_append_noWs _ _ (renderDec_ne_nil v) (renderDec_noWs v)

theorem noWs_low : NoWs (K "low") := by
  intro c hc
  have : c = 108 ∨ c = 111 ∨ c = 119 := by simpa [K] using hc
  rcases this with h | h | h <;> subst h <;> decide

theorem watermarkLow_render (zs : List ZLine) (h : ∀ z ∈ zs, z.WF) :
    watermarkLow kernelCfg (zs.map renderZLine) = .ok (lowSum zs) := by
  induction zs with
  | nil => simp [watermarkLow, lowSum]
  | cons z zs ih =>
    have ih' := ih (fun x hx => h x (by simp [hx]))
    cases z with
    | other i b =>
      have hw := (h (.other i b) (by simp)).2
      simp only [List.map_cons, watermarkLow, lowSum]
      have hs : stripWs (renderZLine (.other i b)) = stripWs b := by
        simp [renderZLine, stripWs_spaces]
      have hp : kernelCfg.lowPrefix = K "low" := rfl
      rw [hs, hp, hw]
      simpa using ih'
    | low i p v =>
      simp only [List.map_cons, watermarkLow, lowSum]
      rw [stripWs_low]
      have hp : kernelCfg.lowPrefix = K "low" := rfl
      have hi : kernelCfg.lowIdx = 1 := rfl
      have hsw : startsWith (K "low") (K "low" ++ spaces (p + 1) ++ renderDec v) = true := by
        simp [startsWith, K]
      have hsp : splitWs (K "low" ++ spaces (p + 1) ++ renderDec v) = [K "low", renderDec v] := by
        rw [splitWs_tok _ _ _ noWs_low (by decide),
          splitWs_single _ (renderDec_noWs v) (renderDec_ne_nil v)]
      rw [hp, hi, hsw, hsp]
      simp [pyIntLit_renderDec, ih']

theorem nl_not_mem_zline (z : ZLine) (h : z.WF) : 10 ∉ renderZLine z := by
  cases z with
  | other i b =>
    simp only [renderZLine, List.mem_append, not_or]
    exact ⟨not_mem_spaces i 10 (by decide), h.1⟩
  | low i p v =>
    simp only [renderZLine, List.mem_append, not_or]
    exact ⟨⟨⟨not_mem_spaces i 10 (by decide), by decide⟩, not_mem_spaces _ 10 (by decide)⟩,
      renderDec_not_mem v 10 (by decide)⟩

theorem watermarkLow_zoneinfo (zs : List ZLine) (h : ∀ z ∈ zs, z.WF) :
    watermarkLow kernelCfg (linesOf (renderZoneinfo zs)) = .ok (lowSum zs) := by
  unfold renderZoneinfo
  have : (zs.map fun z => renderZLine z ++ [10]) = (zs.map renderZLine).map fun l => l ++ [10] := by
    simp
  rw [this, linesOf_lines _ (by
    intro l hl
    obtain ⟨z, hz, rfl⟩ := List.mem_map.mp hl
    exact nl_not_mem_zline z (h z hz))]
  exact watermarkLow_render zs h


/-! ### /proc/vmstat -/

theorem isPrefixOf_sep (P n rest : Bytes) (c : Nat) (hc : c ∉ P)
    (h : P.isPrefixOf (n ++ c :: rest) = true) : P.isPrefixOf n = true := by
  induction P generalizing n with
  | nil => simp
  | cons a P ih =>
    cases n with
    | nil =>
      simp only [List.nil_append, List.isPrefixOf, Bool.and_eq_true, beq_iff_eq] at h
      exact absurd h.1 (fun e => hc (by simp [e]))
    | cons b n =>
      simp only [List.cons_append, List.isPrefixOf, Bool.and_eq_true, beq_iff_eq] at h ⊢
      exact ⟨h.1, ih n (fun m => hc (by simp [m])) h.2⟩

theorem isPrefixOf_self_append (P rest : Bytes) : P.isPrefixOf (P ++ rest) = true := by
  induction P with
  | nil => simp
  | cons a P ih => simp [ih]

structure VWF (vs : List VLine) : Prop where
  names : ∀ l ∈ vs, l.name ≠ [] ∧ NoWs l.name
  /-- no other counter's name begins with `pswpin` / `pswpout` -/
  noClash : ∀ l ∈ vs, (startsWith (K "pswpin") l.name = true → l.name = K "pswpin")
                    ∧ (startsWith (K "pswpout") l.name = true → l.name = K "pswpout")
  nodup : (vs.map (·.name)).Nodup

theorem VWF.tail {l : VLine} {vs : List VLine} (h : VWF (l :: vs)) : VWF vs :=
  ⟨fun x hx => h.names x (by simp [hx]), fun x hx => h.noClash x (by simp [hx]),
   (List.nodup_cons.mp h.nodup).2⟩

theorem vmstatField_render (l : VLine) (h : NoWs l.name) (f : Nat) :
    vmstatField 1 f (renderVLine l) = .ok (l.val * f) := by
  unfold vmstatField renderVLine
  have h32 : 32 ∉ l.name := noWs_not_mem h 32 (by decide)
  rw [List.append_assoc, List.singleton_append, splitOn_append 32 _ _ h32,
    splitOn_noSep 32 _ (renderDec_not_mem l.val 32 (by decide))]
  simp [pyIntLit_renderDec]

theorem startsWith_line (P : Bytes) (l : VLine) (h32 : 32 ∉ P) :
    startsWith P (renderVLine l) = startsWith P l.name := by
  unfold startsWith renderVLine
  cases hp : P.isPrefixOf l.name with
  | true =>
    obtain ⟨t, ht⟩ := List.isPrefixOf_iff_prefix.mp hp
    rw [← ht, List.append_assoc, List.append_assoc]
    exact isPrefixOf_self_append P _
  | false =>
    cases hq : P.isPrefixOf (l.name ++ [32] ++ renderDec l.val) with
    | false => rfl
    | true =>
      rw [List.append_assoc, List.singleton_append] at hq
      rw [isPrefixOf_sep P _ _ 32 h32 hq] at hp
      exact absurd hp (by simp)

def pairUp : Option Nat → Option Nat → Option (Nat × Nat)
  | some a, some b => some (a, b)
  | _, _ => none

theorem vmstatLoop_render (f : Nat) (vs : List VLine) (hw : VWF vs) (sin sout : Option Nat)
    (h0 : ¬ (sin.isSome = true ∧ sout.isSome = true))
    (h1 : sin.isSome = true → K "pswpin" ∉ vs.map (·.name))
    (h2 : sout.isSome = true → K "pswpout" ∉ vs.map (·.name)) :
    vmstatLoop (cfgF f) (vs.map renderVLine) sin sout =
      .ok (pairUp (sin <|> (vmstatGet vs (K "pswpin")).map (· * f))
                  (sout <|> (vmstatGet vs (K "pswpout")).map (· * f))) := by
  induction vs generalizing sin sout with
  | nil =>
    cases sin <;> cases sout <;> simp_all [vmstatLoop, vmstatGet, pairUp]
  | cons l vs ih =>
    have hn := (hw.names l (by simp)).2
    have hcl := hw.noClash l (by simp)
    have hnd := List.nodup_cons.mp hw.nodup
    have hsin : startsWith (cfgF f).sinPrefix (renderVLine l) = startsWith (K "pswpin") l.name :=
      startsWith_line (K "pswpin") l (by decide)
    have hsout : startsWith (cfgF f).soutPrefix (renderVLine l) = startsWith (K "pswpout") l.name :=
      startsWith_line (K "pswpout") l (by decide)
    have hfi : vmstatField (cfgF f).sinIdx (cfgF f).sinFactor (renderVLine l) = .ok (l.val * f) :=
      vmstatField_render l hn f
    have hfo : vmstatField (cfgF f).soutIdx (cfgF f).soutFactor (renderVLine l) = .ok (l.val * f) :=
      vmstatField_render l hn f
    simp only [List.map_cons, vmstatLoop, hsin, hsout, hfi, hfo]
    by_cases hin : l.name = K "pswpin"
    · -- the pswpin line
      have hs : startsWith (K "pswpin") l.name = true := by rw [hin]; decide
      have hsinNone : sin = none := by
        cases sin with
        | none => rfl
        | some a => exact absurd (by simp [hin]) (h1 rfl)
      subst hsinNone
      have hgi : vmstatGet (l :: vs) (K "pswpin") = some l.val := by simp [vmstatGet, hin]
      have hgo : vmstatGet (l :: vs) (K "pswpout") = vmstatGet vs (K "pswpout") := by
        have : (l.name == K "pswpout") = false := by rw [hin]; decide
        simp [vmstatGet, this]
      simp only [hs, if_true, hgi, hgo]
      cases sout with
      | some b => simp [pairUp]
      | none =>
        have hnot : K "pswpin" ∉ vs.map (·.name) := by rw [← hin]; exact hnd.1
        have := ih hw.tail (some (l.val * f)) none (by simp) (fun _ => hnot) (by simp)
        simp only [this]
        have hg : vmstatGet vs (K "pswpin") = none := by
          simp only [vmstatGet, Option.map_eq_none_iff, List.find?_eq_none]
          intro x hx hxe
          exact hnot (by simp only [List.mem_map]; exact ⟨x, hx, by simpa using hxe⟩)
        simp
    · have hs : startsWith (K "pswpin") l.name = false := by
        cases h : startsWith (K "pswpin") l.name with
        | false => rfl
        | true => exact absurd (hcl.1 h) hin
      have hgi : vmstatGet (l :: vs) (K "pswpin") = vmstatGet vs (K "pswpin") := by
        have : (l.name == K "pswpin") = false := by simpa using hin
        simp [vmstatGet, this]
      by_cases hout : l.name = K "pswpout"
      · have hso : startsWith (K "pswpout") l.name = true := by rw [hout]; decide
        have hsoutNone : sout = none := by
          cases sout with
          | none => rfl
          | some a => exact absurd (by simp [hout]) (h2 rfl)
        subst hsoutNone
        have hgo : vmstatGet (l :: vs) (K "pswpout") = some l.val := by simp [vmstatGet, hout]
        simp only [hs, hso, if_true, hgi, hgo, Bool.false_eq_true, if_false]
        cases sin with
        | some a => simp [pairUp]
        | none =>
          have hnot : K "pswpout" ∉ vs.map (·.name) := by rw [← hout]; exact hnd.1
          have := ih hw.tail none (some (l.val * f)) (by simp) (by simp) (fun _ => hnot)
          simp only [this]
          simp
      · have hso : startsWith (K "pswpout") l.name = false := by
          cases h : startsWith (K "pswpout") l.name with
          | false => rfl
          | true => exact absurd (hcl.2 h) hout
        have hgo : vmstatGet (l :: vs) (K "pswpout") = vmstatGet vs (K "pswpout") := by
          have : (l.name == K "pswpout") = false := by simpa using hout
          simp [vmstatGet, this]
        simp only [hs, hso, hgi, hgo, Bool.false_eq_true, if_false]
        have := ih hw.tail sin sout h0 (fun h => fun m => h1 h (by simp [m]))
          (fun h => fun m => h2 h (by simp [m]))
        cases sin <;> cases sout <;> simp_all

theorem nl_not_mem_vline (l : VLine) (h : NoWs l.name) : 10 ∉ renderVLine l := by
  simp only [renderVLine, List.mem_append, not_or]
  exact ⟨⟨noWs_not_mem h 10 (by decide), by decide⟩, renderDec_not_mem l.val 10 (by decide)⟩

theorem vmstatLoop_vmstatF (f : Nat) (vs : List VLine) (hw : VWF vs) :
    vmstatLoop (cfgF f) (linesOf (renderVmstat vs)) none none =
      .ok (pairUp ((vmstatGet vs (K "pswpin")).map (· * f))
                  ((vmstatGet vs (K "pswpout")).map (· * f))) := by
  unfold renderVmstat
  have : (vs.map fun l => renderVLine l ++ [10]) = (vs.map renderVLine).map fun l => l ++ [10] := by
    simp
  rw [this, linesOf_lines _ (by
    intro l hl
    obtain ⟨z, hz, rfl⟩ := List.mem_map.mp hl
    exact nl_not_mem_vline z (hw.names z hz).2)]
  have := vmstatLoop_render f vs hw none none (by simp) (by simp) (by simp)
  simpa using this


theorem vmstatLoop_vmstat (vs : List VLine) (hw : VWF vs) :
    vmstatLoop kernelCfg (linesOf (renderVmstat vs)) none none =
      .ok (pairUp ((vmstatGet vs (K "pswpin")).map (· * 4096))
                  ((vmstatGet vs (K "pswpout")).map (· * 4096))) :=
  vmstatLoop_vmstatF 4096 vs hw

end Psutil.C08
