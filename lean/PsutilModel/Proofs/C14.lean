/-
  Proofs/C14.lean — helper definitions and lemmas for Props/C14.lean.
-/
import Mathlib.Data.Nat.Bitwise
import PsutilModel.Model.C14
import PsutilModel.Spec.C14
namespace Psutil.C14
open Spec

/-! ### configurations under which the statements hold (proof obligations on Generated facts) -/

/-- the documented mode string as a function of (access mode, O_APPEND) -/
def modeOf (acc : Nat) (append : Bool) : Bytes :=
  match acc with
  | 0 => mR
  | 1 => if append then mA else mW
  | _ => if append then mAp else mRp

theorem mode_eq (flags : Nat) : Spec.mode flags = modeOf (flags % 4) (appendSet flags) := by
  unfold Spec.mode modeOf
  rfl

/-- the masks are the Linux ones and the three standard access modes map as documented -/
structure Cfg.GoodMode (c : Cfg) : Prop where
  accMask : c.accMask = 3
  appendBit : c.appendBit = 1024
  table : ∀ ap : Bool, modeCore c 0 ap = some (modeOf 0 ap) ∧ modeCore c 1 ap = some (modeOf 1 ap)
    ∧ modeCore c 2 ap = some (modeOf 2 ap)

/-- … and Linux's access mode 3 is mapped too (like O_RDWR) -/
structure Cfg.GoodMode3 (c : Cfg) : Prop extends Cfg.GoodMode c where
  three : ∀ ap : Bool, modeCore c 3 ap = some (modeOf 3 ap)

theorem and_1024 (n : Nat) : (n &&& 1024 != 0) = (n / 1024 % 2 == 1) := by
  have h := Nat.and_two_pow n 10
  have h2 := @Nat.testBit_eq_decide_div_mod_eq 10 n
  have e : (2:Nat)^10 = 1024 := by decide
  rw [e] at h h2
  rw [h]
  cases hb : n.testBit 10
  · rw [hb] at h2
    have : ¬ (n / 1024 % 2 = 1) := by simpa using h2.symm
    simp [this]
  · rw [hb] at h2
    have : (n / 1024 % 2 = 1) := by simpa using h2.symm
    simp [this]

theorem and_3 (n : Nat) : n &&& 3 = n % 4 := Nat.and_two_pow_sub_one_eq_mod n 2

/-- `file_flags_to_mode` looks at the flag word only through `flags mod 4` and bit 10 -/
theorem fileFlagsToMode_factor (c : Cfg) (h : c.GoodMode) (flags : Nat) :
    fileFlagsToMode c flags = modeCore c (flags % 4) (appendSet flags) := by
  unfold fileFlagsToMode appendSet
  rw [h.accMask, h.appendBit, and_3, and_1024]

/-! ### byte-string helpers -/

theorem lstripWs_of_head {c : Nat} {cs : Bytes} (h : isWs c = false) : lstripWs (c :: cs) = c :: cs := by
  simp [lstripWs, h]

theorem lstripWs_noWs (s : Bytes) (h : NoWs s) : lstripWs s = s := by
  cases s with
  | nil => rfl
  | cons c cs => exact lstripWs_of_head (h c (by simp))

theorem stripWs_noWs (s : Bytes) (h : NoWs s) : stripWs s = s := by
  unfold stripWs rstripWs
  rw [lstripWs_noWs s h]
  have hr : NoWs s.reverse := fun c hc => h c (by simpa using hc)
  rw [lstripWs_noWs _ hr, List.reverse_reverse]

theorem noWs_append {a b : Bytes} (ha : NoWs a) (hb : NoWs b) : NoWs (a ++ b) := by
  intro c hc
  rcases List.mem_append.mp hc with h | h
  · exact ha c h
  · exact hb c h

theorem renderOct_isDigit (n : Nat) : ∀ c ∈ renderRadix octal n, isDigit c = true := by
  apply renderRadix_chars octal n (fun c => isDigit c = true)
  intro d hd
  have hd' : d < 8 := hd
  show isDigit (48 + d) = true
  simp only [isDigit, Bool.and_eq_true, decide_eq_true_eq]
  omega

theorem renderOct_noWs (n : Nat) : NoWs (renderRadix octal n) :=
  fun c hc => isDigit_not_ws c (renderOct_isDigit n c hc)

theorem renderOct_not_mem (n c : Nat) (h : isDigit c = false) : c ∉ renderRadix octal n := by
  intro hm
  have := renderOct_isDigit n c hm
  simp [this] at h

theorem parseOct_zero_render (n : Nat) : parseRadix? octal (48 :: renderRadix octal n) = some n := by
  have key := parse_render octal n
  cases h : renderRadix octal n with
  | nil => exact absurd h (renderRadixAux_ne_nil octal n [])
  | cons c cs =>
    rw [h] at key
    simp only [parseRadix?] at key ⊢
    simp only [parseRadixAux]
    have : octal.val 48 = some 0 := by decide
    simp only [this, Nat.zero_mul, Nat.add_zero]
    simpa [parseRadixAux] using key

theorem pyInt_dec (n : Nat) : pyInt 10 (renderDec n) = some n := by
  unfold pyInt
  rw [stripWs_noWs _ (renderDec_noWs n)]
  have : radixOf 10 = decimal := by simp [radixOf]
  rw [this]
  exact parseDec_renderDec n

theorem pyInt_oct (n : Nat) : pyInt 8 (48 :: renderRadix octal n) = some n := by
  unfold pyInt
  have hn : NoWs (48 :: renderRadix octal n) := by
    intro c hc
    rcases List.mem_cons.mp hc with h | h
    · subst h; decide
    · exact renderOct_noWs n c h
  rw [stripWs_noWs _ hn]
  have : radixOf 8 = octal := by simp [radixOf]
  rw [this]
  exact parseOct_zero_render n

/-! ### fdinfo: `pos:` decimal and `flags:` octal round trip -/

structure Cfg.GoodScan (c : Cfg) : Prop where
  posBase : c.posBase = 10
  posIdx : c.posIdx = 1
  flagsBase : c.flagsBase = 8
  flagsIdx : c.flagsIdx = 1
  delSuffix : c.delSuffix = delText
  delCut : c.delCut = 10
  absPrefix : c.absPrefix = [47]
  filterExact : c.filterExact = true
  linkGoneEnoent : c.linkGoneEnoent = true
  linkGoneEsrch : c.linkGoneEsrch = true
  infoGoneEnoent : c.infoGoneEnoent = true
  infoGoneEsrch : c.infoGoneEsrch = true
  infoReadGoneEnoent : c.infoReadGoneEnoent = true
  infoReadGoneEsrch : c.infoReadGoneEsrch = true
  finalAliveCheck : c.finalAliveCheck = true
  /-- round 3: the `startswith` conjunct short-circuits the stat; the loop runs over every name
      `os.listdir(<pid>/fd)` returned; the `except OSError` handler skips exactly EINVAL (22) and
      ENAMETOOLONG (36); no handler names a further class -/
  absFirst : c.absFirst = true
  scanLimit : c.scanLimit = none
  loopOverListdir : c.loopOverListdir = true
  fdPathsExact : c.fdPathsExact = true
  linkSkipErrnos : c.linkSkipErrnos = [22, 36]
  linkGoneExtra : c.linkGoneExtra = []
  linkSkipClasses : c.linkSkipClasses = []
  infoGoneExtra : c.infoGoneExtra = []

/-- `num_fds` is the length of the very same directory listing, uncapped -/
structure Cfg.GoodCount (c : Cfg) : Prop where
  numFdsLenListdir : c.numFdsLenListdir = true
  numFdsCap : c.numFdsCap = none

/-- permission: the strict stat helpers and the loop let PermissionError through, nothing in the
    loop swallows it as "gone", `wrap_exceptions` turns it into AccessDenied and asks
    `_raise_if_zombie()` first for ENOENT / ESRCH -/
structure Cfg.GoodAccess (c : Cfg) : Prop where
  isfileDeniedRaises : c.isfileDeniedRaises = true
  existsDeniedRaises : c.existsDeniedRaises = true
  linkGoneDenied : c.linkGoneDenied = false
  linkDeniedRaises : c.linkDeniedRaises = true
  infoGoneDenied : c.infoGoneDenied = false
  wrapPermAD : c.wrapPermAD = true
  wrapZombieFirst : c.wrapZombieFirst = true
  /-- seeded round 5: in both strict helpers EVERY `os.stat` failure other than PermissionError
      (ENOENT, ENOTDIR, ELOOP, ENAMETOOLONG, ESTALE, EIO, …: whatever class CPython raises) is answered
      `False`, and the clause list agrees with the two `…DeniedRaises` facts about PermissionError -/
  isfileOthersFalse : allOthersFalse c.isfileHandlers = true
  existsOthersFalse : allOthersFalse c.existsHandlers = true
  isfilePermCoherent : statFalse c.isfileHandlers clsPermissionError = false
  existsPermCoherent : statFalse c.existsHandlers clsPermissionError = false

/-! ### the strict stat helpers: every failure other than PermissionError is answered `False` -/

theorem allOthersFalse_spec (hs : List (List Bytes × Bool)) (h : allOthersFalse hs = true)
    (cls : Bytes) (hc : cls ≠ clsPermissionError) : statAnswer hs cls = some true := by
  induction hs with
  | nil => simp [allOthersFalse] at h
  | cons x hs ih =>
    obtain ⟨cs, a⟩ := x
    unfold allOthersFalse at h
    unfold statAnswer
    by_cases hall : (cs.any fun c => catchAll.contains c) = true
    · simp only [hall, if_true] at h
      have : catches cs cls = true := by
        unfold catches
        rw [hall, Bool.or_true]
      simp [this, h]
    · simp only [hall, Bool.false_eq_true, if_false, Bool.and_eq_true, Bool.or_eq_true] at h
      by_cases hcat : catches cs cls = true
      · have hmem : cs.contains cls = true := by
          simp only [catches, Bool.or_eq_true] at hcat
          rcases hcat with h1 | h1
          · exact h1
          · exact absurd h1 hall
        rcases h.1 with ha | hperm
        · simp [hcat, ha]
        · exfalso
          have hm : cls ∈ cs := by simpa using hmem
          have := List.all_eq_true.mp hperm cls hm
          exact hc (by simpa using this)
      · simp only [hcat, Bool.false_eq_true, if_false]
        exact ih h.2

theorem statEscapes_good (hs : List (List Bytes × Bool)) (h : allOthersFalse hs = true) (fs : FS) (p : Bytes) :
    statEscapes hs fs p = none := by
  unfold statEscapes
  have hfnf : statFalse hs clsFileNotFoundError = true := by
    simp [statFalse, allOthersFalse_spec hs h clsFileNotFoundError (by decide)]
  cases hse : fs.statErr p with
  | none => simp [hfnf]
  | some f => simp [statFalse, allOthersFalse_spec hs h f.cls f.notPerm]

theorem pyReadlinkEscapes_good (c : Cfg) (ha : c.GoodAccess) (fs : FS) (raw : Bytes) :
    pyReadlinkEscapes c fs raw = none := by
  unfold pyReadlinkEscapes
  simp [statEscapes_good _ ha.existsOthersFalse]

theorem isfileEscapes_good (c : Cfg) (ha : c.GoodAccess) (fs : FS) (path : Bytes) :
    isfileEscapes c fs path = none := by
  unfold isfileEscapes
  simp [statEscapes_good _ ha.isfileOthersFalse]

def posLine (pos : Nat) : Bytes := [112, 111, 115, 58] ++ [9] ++ renderDec pos
def flagsLine (flags : Nat) : Bytes := [102, 108, 97, 103, 115, 58] ++ [9] ++ (48 :: renderRadix octal flags)

theorem posLine_no_nl (pos : Nat) : 10 ∉ posLine pos := by
  unfold posLine
  simp only [List.mem_append, not_or]
  exact ⟨⟨by decide, by decide⟩, renderDec_not_mem pos 10 (by decide)⟩

theorem flagsLine_no_nl (flags : Nat) : 10 ∉ flagsLine flags := by
  unfold flagsLine
  simp only [List.mem_append, List.mem_cons, not_or]
  exact ⟨⟨by decide, by decide⟩, by decide, renderOct_not_mem flags 10 (by decide)⟩

theorem splitWs_posLine (pos : Nat) : splitWs (posLine pos) = [[112, 111, 115, 58], renderDec pos] := by
  have h := splitWs_join 9 (by decide) [[112, 111, 115, 58], renderDec pos] (by
    intro f hf
    simp only [List.mem_cons, List.not_mem_nil, or_false] at hf
    rcases hf with h | h
    · subst h; exact ⟨by decide, by unfold NoWs; decide⟩
    · subst h; exact ⟨renderDec_ne_nil pos, renderDec_noWs pos⟩)
  simpa [joinWith, posLine] using h

theorem splitWs_flagsLine (flags : Nat) :
    splitWs (flagsLine flags) = [[102, 108, 97, 103, 115, 58], 48 :: renderRadix octal flags] := by
  have h := splitWs_join 9 (by decide) [[102, 108, 97, 103, 115, 58], 48 :: renderRadix octal flags] (by
    intro f hf
    simp only [List.mem_cons, List.not_mem_nil, or_false] at hf
    rcases hf with h | h
    · subst h; exact ⟨by decide, by unfold NoWs; decide⟩
    · subst h
      refine ⟨by simp, ?_⟩
      intro c hc
      rcases List.mem_cons.mp hc with h | h
      · subst h; decide
      · exact renderOct_noWs flags c h)
  simpa [joinWith, flagsLine] using h

theorem fdinfoText_eq (d : Fd) :
    fdinfoText d = posLine d.pos ++ 10 :: (flagsLine d.flags ++ 10 :: d.tail) := rfl

theorem intField_posLine (c : Cfg) (hg : c.GoodScan) (pos : Nat) :
    intField c.posIdx c.posBase (posLine pos) = .ok pos := by
  simp [intField, hg.posIdx, hg.posBase, splitWs_posLine, pyInt_dec]

theorem intField_flagsLine (c : Cfg) (hg : c.GoodScan) (flags : Nat) :
    intField c.flagsIdx c.flagsBase (flagsLine flags) = .ok flags := by
  simp [intField, hg.flagsIdx, hg.flagsBase, splitWs_flagsLine, pyInt_oct]

theorem parseFdinfo_render (c : Cfg) (hg : c.GoodScan) (d : Fd) :
    parseFdinfo c (fdinfoText d) = .ok (d.pos, d.flags) := by
  unfold parseFdinfo
  rw [fdinfoText_eq, splitOn_append 10 _ _ (posLine_no_nl d.pos),
    splitOn_append 10 _ _ (flagsLine_no_nl d.flags)]
  simp only [List.getD_cons_zero, List.getD_cons_succ, intField_posLine c hg, intField_flagsLine c hg]

/-- reading the rendered fdinfo: all reads succeed → the record; a failing first or second
    read → "gone at read" (the first line parses, so nothing else is raised before) -/
theorem readFdinfo_render (c : Cfg) (hg : c.GoodScan) (d : Fd) :
    readFdinfo c (.ok (fdinfoText d)) = .ok d.pos d.flags ∧
    ∀ second e, readFdinfo c (.readErr (fdinfoText d) second e) = .goneAtRead e := by
  refine ⟨by simp [readFdinfo, parseFdinfo_render c hg d], ?_⟩
  intro second e
  cases second with
  | false => rfl
  | true =>
    simp only [readFdinfo]
    rw [fdinfoText_eq, splitOn_append 10 _ _ (posLine_no_nl d.pos)]
    simp only [List.getD_cons_zero, intField_posLine c hg]

/-! ### `readlink()`: NUL cut and the ' (deleted)' rule -/

theorem takeWhile_no_nul (s : Bytes) (h : 0 ∉ s) : s.takeWhile (· != 0) = s := by
  induction s with
  | nil => rfl
  | cons c cs ih =>
    have hc : c ≠ 0 := fun e => h (by simp [e])
    have hcs : 0 ∉ cs := fun m => h (by simp [m])
    have hb : (c != 0) = true := by simpa using hc
    simp [List.takeWhile, hb, ih hcs]

theorem endsWith_append (a p : Bytes) : endsWith p (a ++ p) = true := by
  unfold endsWith
  rw [List.reverse_append, List.isPrefixOf_iff_prefix]
  exact List.prefix_append _ _

theorem take_sub_suffix (a p : Bytes) : (a ++ p).take ((a ++ p).length - p.length) = a := by
  have : (a ++ p).length - p.length = a.length := by simp
  rw [this, List.take_left']
  rfl

theorem startsWith_slash {s : Bytes} (h : s.head? = some 47) : startsWith [47] s = true := by
  cases s with
  | nil => simp at h
  | cons c cs =>
    simp only [List.head?_cons, Option.some.injEq] at h
    subst h
    simp [startsWith, List.isPrefixOf]

theorem head_of_startsWith {s : Bytes} (h : startsWith [47] s = true) : s.head? = some 47 := by
  cases s with
  | nil => simp [startsWith, List.isPrefixOf] at h
  | cons c cs =>
    simp only [startsWith, List.isPrefixOf, Bool.and_true, beq_iff_eq] at h
    simp [h]

theorem head_takeWhile {p : Nat → Bool} {s : Bytes} {x : Nat} (h : (s.takeWhile p).head? = some x) :
    s.head? = some x := by
  cases s with
  | nil => simp at h
  | cons c cs =>
    simp only [List.takeWhile] at h
    split at h
    · simpa using h
    · simp at h

theorem head_take {n : Nat} {s : Bytes} {x : Nat} (h : (s.take n).head? = some x) : s.head? = some x := by
  cases n with
  | zero => simp at h
  | succ n =>
    cases s with
    | nil => simp at h
    | cons c cs => simpa using h

/-- whatever `readlink()` does to a link text, it never invents a leading `/` -/
theorem pyReadlink_head (c : Cfg) (fs : FS) (raw : Bytes) (h : (pyReadlink c fs raw).head? = some 47) :
    raw.head? = some 47 := by
  unfold pyReadlink at h
  simp only at h
  split at h
  · exact head_takeWhile (head_take h)
  · exact head_takeWhile h

theorem not_abs_of_head (c : Cfg) (hg : c.GoodScan) (fs : FS) (raw : Bytes) (h : raw.head? ≠ some 47) :
    startsWith c.absPrefix (pyReadlink c fs raw) = false := by
  rw [hg.absPrefix]
  cases hs : startsWith [47] (pyReadlink c fs raw) with
  | false => rfl
  | true => exact absurd (pyReadlink_head c fs raw (head_of_startsWith hs)) h

theorem delText_no_nul : 0 ∉ delText := by decide

theorem pyReadlink_regular (c : Cfg) (hg : c.GoodScan) (fs : FS) (path : Bytes) (del : Bool)
    (hwf : WFKind fs (.regular path del)) : pyReadlink c fs (linkText (.regular path del)) = path := by
  obtain ⟨_, hnul, hamb⟩ := hwf
  unfold pyReadlink
  cases del with
  | true =>
    have h0 : 0 ∉ path ++ delText := by
      simp only [List.mem_append, not_or]; exact ⟨hnul, delText_no_nul⟩
    simp only [linkText, if_true, takeWhile_no_nul _ h0, hg.delSuffix, hg.delCut, endsWith_append]
    simp only [if_true] at hamb
    simp only [hamb, Bool.not_false, Bool.and_self, if_true]
    exact take_sub_suffix path delText
  | false =>
    simp only [linkText, Bool.false_eq_true, if_false, takeWhile_no_nul _ hnul, hg.delSuffix]
    simp only [Bool.false_eq_true, if_false] at hamb
    cases he : endsWith delText path with
    | false => simp
    | true => simp [hamb he]

theorem pyReadlink_device (c : Cfg) (hg : c.GoodScan) (fs : FS) (path : Bytes)
    (hwf : WFKind fs (.device path)) : fs.isFile (pyReadlink c fs (linkText (.device path))) = false := by
  obtain ⟨_, hnul, h1, h2, _⟩ := hwf
  unfold pyReadlink
  simp only [linkText, takeWhile_no_nul _ hnul, hg.delSuffix, hg.delCut]
  unfold stripDel at h2
  cases he : endsWith delText path with
  | false => simpa using h1
  | true =>
    simp only [he, if_true] at h2
    cases hx : fs.pathExists path with
    | true => simpa using h1
    | false => simpa using h2

/-- does the scan reach the fdinfo stage for this descriptor, and under which path -/
def target (fs : FS) : FdKind → Option Bytes
  | .regular path _ => if fs.isFile path then some path else none
  | _ => none

theorem link_cond (c : Cfg) (hg : c.GoodScan) (fs : FS) (k : FdKind) (hwf : WFKind fs k) :
    (startsWith c.absPrefix (pyReadlink c fs (linkText k)) && fs.isFile (pyReadlink c fs (linkText k)))
      = (target fs k).isSome ∧ ∀ q, target fs k = some q → pyReadlink c fs (linkText k) = q := by
  cases k with
  | regular path del =>
    rw [pyReadlink_regular c hg fs path del hwf, hg.absPrefix, startsWith_slash hwf.1]
    simp only [target, Bool.true_and]
    cases hf : fs.isFile path <;> simp
  | socket ino =>
    rw [not_abs_of_head c hg fs _ (by simp [linkText])]; simp [target]
  | pipe ino =>
    rw [not_abs_of_head c hg fs _ (by simp [linkText])]; simp [target]
  | anon name =>
    rw [not_abs_of_head c hg fs _ (by simp [linkText])]; simp [target]
  | device path =>
    rw [pyReadlink_device c hg fs path hwf]; simp [target]
  | relative t =>
    rw [not_abs_of_head c hg fs _ (show (linkText (.relative t)).head? ≠ some 47 from hwf)]; simp [target]

theorem reachesFdinfo_eq (fs : FS) (k : FdKind) : reachesFdinfo fs k = (target fs k).isSome := by
  cases k <;> simp [reachesFdinfo, target]
  rename_i path _
  cases fs.isFile path <;> rfl

/-- the two `os.stat` calls that may be refused (`path_exists_strict` inside `readlink()`, then
    `isfile_strict`) are refused exactly when the specification says the target cannot be
    stat'ed -/
theorem endsWith_cons_ne (p : Bytes) (a : Bytes) (x y : Nat) (h : x ≠ y) :
    endsWith (p ++ [x]) (a ++ [y]) = false := by
  unfold endsWith
  simp only [List.reverse_append, List.reverse_cons, List.reverse_nil, List.nil_append, List.cons_append,
    List.isPrefixOf]
  simp [h]

theorem socket_text (ino : Nat) :
    textStatDenied fs (linkText (.socket ino)) = false ∧ textStatDenied fs (linkText (.pipe ino)) = false := by
  have hd : delText = [32, 40, 100, 101, 108, 101, 116, 101, 100] ++ [41] := rfl
  constructor
  · unfold textStatDenied linkText
    have h0 : 0 ∉ [115, 111, 99, 107, 101, 116, 58, 91] ++ renderDec ino ++ [93] := by
      simp only [List.mem_append, not_or]
      exact ⟨⟨by decide, renderDec_not_mem ino 0 (by decide)⟩, by decide⟩
    simp only [takeWhile_no_nul _ h0]
    rw [hd, endsWith_cons_ne _ _ 41 93 (by decide)]
    rfl
  · unfold textStatDenied linkText
    have h0 : 0 ∉ [112, 105, 112, 101, 58, 91] ++ renderDec ino ++ [93] := by
      simp only [List.mem_append, not_or]
      exact ⟨⟨by decide, renderDec_not_mem ino 0 (by decide)⟩, by decide⟩
    simp only [takeWhile_no_nul _ h0]
    rw [hd, endsWith_cons_ne _ _ 41 93 (by decide)]
    rfl

/-- the two `os.stat` calls that may be refused (`path_exists_strict` inside `readlink()`, then
    `isfile_strict`) are refused exactly when the specification says the target cannot be
    stat'ed -/
theorem denied_cond (c : Cfg) (hg : c.GoodScan) (ha : c.GoodAccess) (fs : FS) (k : FdKind) (hwf : WFKind fs k) :
    (pyReadlinkDenied c fs (linkText k) ||
      ((startsWith c.absPrefix (pyReadlink c fs (linkText k)) || !c.absFirst) &&
        (c.isfileDeniedRaises && fs.denied (pyReadlink c fs (linkText k))))) = statDenied fs k := by
  rw [hg.absFirst]
  simp only [Bool.not_true, Bool.or_false]
  have nonpath : ∀ k' : FdKind, (linkText k').head? ≠ some 47 →
      (pyReadlinkDenied c fs (linkText k') ||
        (startsWith c.absPrefix (pyReadlink c fs (linkText k')) &&
          (c.isfileDeniedRaises && fs.denied (pyReadlink c fs (linkText k'))))) = textStatDenied fs (linkText k') := by
    intro k' hh
    rw [not_abs_of_head c hg fs _ hh]
    simp [pyReadlinkDenied, textStatDenied, ha.existsDeniedRaises, hg.delSuffix]
  cases k with
  | regular path del =>
    have hp := pyReadlink_regular c hg fs path del hwf
    obtain ⟨hhead, hnul, _⟩ := hwf
    rw [hp, hg.absPrefix, startsWith_slash hhead, ha.isfileDeniedRaises]
    unfold pyReadlinkDenied
    cases del with
    | false =>
      simp only [linkText, Bool.false_eq_true, if_false, takeWhile_no_nul _ hnul, statDenied,
        ha.existsDeniedRaises, Bool.true_and, Bool.false_and, Bool.or_false]
      cases endsWith c.delSuffix path <;> cases fs.denied path <;> rfl
    | true =>
      have h0 : 0 ∉ path ++ delText := by
        simp only [List.mem_append, not_or]; exact ⟨hnul, delText_no_nul⟩
      simp only [linkText, if_true, takeWhile_no_nul _ h0, statDenied, ha.existsDeniedRaises, hg.delSuffix,
        endsWith_append, Bool.true_and]
      exact Bool.or_comm _ _
  | socket ino => rw [nonpath _ (by simp [linkText])]; exact (socket_text ino).1
  | pipe ino => rw [nonpath _ (by simp [linkText])]; exact (socket_text ino).2
  | anon name => rw [nonpath _ (by simp [linkText])]; rfl
  | relative t =>
    have h : t.head? ≠ some 47 := hwf
    rw [nonpath _ (by simpa [linkText] using h)]; rfl
  | device path =>
    obtain ⟨hhead, hnul, _, _, himp⟩ := hwf
    unfold pyReadlinkDenied pyReadlink
    simp only [linkText, takeWhile_no_nul _ hnul, hg.delSuffix, hg.delCut, hg.absPrefix,
      ha.existsDeniedRaises, ha.isfileDeniedRaises, Bool.true_and, statDenied]
    unfold stripDel at himp
    cases he : endsWith delText path with
    | false => simp [startsWith_slash hhead]
    | true =>
      simp only [he, if_true] at himp
      cases hx : fs.pathExists path with
      | true => simp [startsWith_slash hhead]
      | false =>
        cases hd : fs.denied path with
        | true => simp
        | false =>
          have : fs.denied (List.take (path.length - 10) path) = false := by
            cases h : fs.denied (List.take (path.length - 10) path) with
            | false => rfl
            | true => rw [himp h] at hd; cases hd
          simp [this]

/-! ### one loop iteration over a rendered descriptor -/

/-- the descriptor makes the scan set `hit_enoent` -/
def hits (fs : FS) (d : Fd) : Bool :=
  match d.closesAt with
  | some (.beforeReadlink _) => true
  | some (.beforeFdinfo _) => (target fs d.kind).isSome
  | some (.duringFdinfo _ _) => (target fs d.kind).isSome
  | none => false

theorem listed_eq (fs : FS) (d : Fd) :
    listed fs d = match d.closesAt with
      | none => (target fs d.kind).map fun p => ⟨p, d.n, d.pos, Spec.mode d.flags, d.flags⟩
      | some _ => none := by
  unfold listed target
  cases d.kind <;> cases d.closesAt <;> simp

theorem hits_listed (fs : FS) (d : Fd) (h : hits fs d = true) : listed fs d = none := by
  rw [listed_eq]
  unfold hits at h
  cases hc : d.closesAt with
  | none => simp [hc] at h
  | some s => rfl

theorem scanOne_render (c : Cfg) (hg : c.GoodScan) (ha : c.GoodAccess)
    (hm : ∀ flags, fileFlagsToMode c flags = some (Spec.mode flags))
    (fs : FS) (d : Fd) (hwf : WFFd fs d) :
    scanOne c fs (renderFd d) =
      if deniedFd fs d then .raise .permissionError
      else if hits fs d then .hit else match listed fs d with
        | some f => .item f
        | none => .skip := by
  obtain ⟨hcond, hpath⟩ := link_cond c hg fs d.kind hwf
  have hden := denied_cond c hg ha fs d.kind hwf
  have hdl : deniedLinkStep c = .raise .permissionError := by
    simp [deniedLinkStep, ha.linkGoneDenied, ha.linkDeniedRaises]
  rw [listed_eq]
  -- the part of `scanOne` after a successful `os.readlink`
  have hok : ∀ info : InfoRes, scanOne c fs ⟨renderDec d.n, .ok (linkText d.kind), info⟩ =
      if statDenied fs d.kind then .raise .permissionError
      else if (target fs d.kind).isSome then
        scanFile c ⟨renderDec d.n, .ok (linkText d.kind), info⟩ (pyReadlink c fs (linkText d.kind))
      else .skip := by
    intro info
    unfold scanOne
    simp only [pyReadlinkEscapes_good c ha, isfileEscapes_good c ha]
    rw [← hden, ← hcond, hdl]
    cases pyReadlinkDenied c fs (linkText d.kind) <;>
      cases ((startsWith c.absPrefix (pyReadlink c fs (linkText d.kind)) || !c.absFirst) &&
        (c.isfileDeniedRaises && fs.denied (pyReadlink c fs (linkText d.kind)))) <;> simp
  have hrf := reachesFdinfo_eq fs d.kind
  unfold hits deniedFd renderFd
  cases hc : d.closesAt with
  | some st =>
    cases st with
    | beforeReadlink e =>
      cases e <;> simp [scanOne, linkErrStep, linkErrOf, hg.linkGoneEnoent, hg.linkGoneEsrch]
    | beforeFdinfo e =>
      by_cases hdr : d.deniedAt = some .readlink
      · simp [scanOne, hdr, linkErrStep, hdl]
      · simp only [hdr, if_false, hok]
        have hb : (d.deniedAt == some DenyAt.readlink) = false := by simpa using hdr
        simp only [hb, Bool.false_or]
        cases hsd : statDenied fs d.kind with
        | true => simp
        | false =>
          cases ht : target fs d.kind with
          | none => simp
          | some q => cases e <;> simp [scanFile, readFdinfo, infoErrStep, hg.infoGoneEnoent, hg.infoGoneEsrch]
    | duringFdinfo second e =>
      by_cases hdr : d.deniedAt = some .readlink
      · simp [scanOne, hdr, linkErrStep, hdl]
      · simp only [hdr, if_false, hok]
        have hb : (d.deniedAt == some DenyAt.readlink) = false := by simpa using hdr
        simp only [hb, Bool.false_or, hrf]
        cases hsd : statDenied fs d.kind with
        | true => simp
        | false =>
          cases ht : target fs d.kind with
          | none => simp
          | some q =>
            by_cases hdf : d.deniedAt = some .fdinfo
            · simp [hdf, scanFile, readFdinfo, ha.infoGoneDenied]
            · have hb2 : (d.deniedAt == some DenyAt.fdinfo) = false := by simpa using hdf
              cases e <;> simp [hdf, hb2, scanFile, (readFdinfo_render c hg d).2, infoReadErrStep,
                hg.infoReadGoneEnoent, hg.infoReadGoneEsrch]
  | none =>
    by_cases hdr : d.deniedAt = some .readlink
    · simp [scanOne, hdr, linkErrStep, hdl]
    · simp only [hdr, if_false, hok]
      have hb : (d.deniedAt == some DenyAt.readlink) = false := by simpa using hdr
      simp only [hb, Bool.false_or, hrf]
      cases hsd : statDenied fs d.kind with
      | true => simp
      | false =>
        cases ht : target fs d.kind with
        | none => simp
        | some q =>
          by_cases hdf : d.deniedAt = some .fdinfo
          · simp [hdf, scanFile, readFdinfo, ha.infoGoneDenied]
          · have hb2 : (d.deniedAt == some DenyAt.fdinfo) = false := by simpa using hdf
            simp [hdf, hb2, scanFile, (readFdinfo_render c hg d).1, hm, pyInt_dec, hpath q ht]

/-- the whole loop over a rendered table: PermissionError at the first descriptor the monitor
    may not inspect, else the list and `hit_enoent` -/
theorem scan_render (c : Cfg) (hg : c.GoodScan) (ha : c.GoodAccess)
    (hm : ∀ flags, fileFlagsToMode c flags = some (Spec.mode flags))
    (fs : FS) (t : List Fd) (hwf : ∀ d ∈ t, WFFd fs d) :
    scan c fs (t.map renderFd) =
      if t.any (deniedFd fs) then .error .permissionError
      else .ok (t.filterMap (listed fs), t.any (hits fs)) := by
  induction t with
  | nil => rfl
  | cons d ds ih =>
    have ih' := ih (fun x hx => hwf x (by simp [hx]))
    have h1 := scanOne_render c hg ha hm fs d (hwf d (by simp))
    simp only [List.map_cons, scan, List.any_cons]
    rw [h1, ih']
    rcases Bool.eq_false_or_eq_true (deniedFd fs d) with hdn | hdn
    · simp [hdn]
    · rcases Bool.eq_false_or_eq_true (List.any ds (deniedFd fs)) with hds | hds
      · rcases Bool.eq_false_or_eq_true (hits fs d) with hh | hh
        · simp [hdn, hds, hh, Except.map]
        · cases hl : listed fs d <;> simp [hdn, hds, hh, hl, Except.map]
      · rcases Bool.eq_false_or_eq_true (hits fs d) with hh | hh
        · simp [hdn, hds, hh, hits_listed fs d hh, Except.map]
        · cases hl : listed fs d <;> simp [hdn, hds, hh, hl, Except.map]

/-! ### a process dying during the scan -/

theorem killFrom_length (k : Nat) (t : List Fd) : (killFrom k t).length = t.length := by
  induction t generalizing k with
  | nil => cases k <;> rfl
  | cons d ds ih => cases k <;> simp [killFrom, ih]

theorem killFrom_ge (k : Nat) (t : List Fd) (h : t.length ≤ k) : killFrom k t = t := by
  induction t generalizing k with
  | nil => cases k <;> rfl
  | cons d ds ih =>
    cases k with
    | zero => simp at h
    | succ k => simp [killFrom, ih k (by simpa using h)]

theorem killFrom_wf (fs : FS) (k : Nat) (t : List Fd) (h : ∀ d ∈ t, WFFd fs d) :
    ∀ d ∈ killFrom k t, WFFd fs d := by
  induction t generalizing k with
  | nil => cases k <;> simp [killFrom]
  | cons d ds ih =>
    have hd := h d (by simp)
    have hds : ∀ x ∈ ds, WFFd fs x := fun x hx => h x (by simp [hx])
    cases k with
    | zero =>
      intro x hx
      simp only [killFrom, List.mem_cons] at hx
      rcases hx with e | hx
      · subst e; exact hd
      · exact ih 0 hds x hx
    | succ k =>
      intro x hx
      simp only [killFrom, List.mem_cons] at hx
      rcases hx with e | hx
      · subst e; exact hd
      · exact ih k hds x hx

theorem killFrom_hits (fs : FS) (k : Nat) (t : List Fd) (h : k < t.length) :
    (killFrom k t).any (hits fs) = true := by
  induction t generalizing k with
  | nil => simp at h
  | cons d ds ih =>
    cases k with
    | zero => simp [killFrom, hits]
    | succ k =>
      simp only [killFrom, List.any_cons, ih k (by simpa using h), Bool.or_true]

theorem killFrom_open (k : Nat) (t : List Fd) :
    (killFrom k t).filter (fun d => d.closesAt.isNone) = (t.take k).filter (fun d => d.closesAt.isNone) := by
  induction t generalizing k with
  | nil => cases k <;> rfl
  | cons d ds ih =>
    cases k with
    | zero =>
      have := ih 0
      simp only [List.take_zero, List.filter_nil] at this
      simp [killFrom, this]
    | succ k => simp [killFrom, ih k, List.filter_cons]

theorem killFrom_not_denied (fs : FS) (k : Nat) (t : List Fd) (h : ∀ d ∈ t, deniedFd fs d = false) :
    (killFrom k t).any (deniedFd fs) = false := by
  induction t generalizing k with
  | nil => cases k <;> rfl
  | cons d ds ih =>
    have hd := h d (by simp)
    have hds : ∀ x ∈ ds, deniedFd fs x = false := fun x hx => h x (by simp [hx])
    cases k with
    | zero => simp [killFrom, deniedFd, ih 0 hds]
    | succ k => simp [killFrom, hd, ih k hds]

/-! ### round 3: the process dies right after the link of descriptor `k` was read -/

theorem failsGone_eq_hits (fs : FS) (d : Fd) : failsGone fs d = hits fs d := by
  unfold failsGone hits
  rw [reachesFdinfo_eq]
  cases d.closesAt with
  | none => rfl
  | some st => cases st <;> rfl

theorem any_failsGone (fs : FS) (t : List Fd) : t.any (failsGone fs) = t.any (hits fs) := by
  congr 1
  funext d
  exact failsGone_eq_hits fs d

theorem afterLink_kind (d : Fd) : (afterLink d).kind = d.kind := by
  unfold afterLink
  cases d.closesAt with
  | none => rfl
  | some st => cases st <;> rfl

theorem killAfter_length (k : Nat) (t : List Fd) : (killAfter k t).length = t.length := by
  induction t generalizing k with
  | nil => cases k <;> rfl
  | cons d ds ih => cases k <;> simp [killAfter, ih, killFrom_length]

theorem killAfter_ge (k : Nat) (t : List Fd) (h : t.length ≤ k) : killAfter k t = t := by
  induction t generalizing k with
  | nil => cases k <;> rfl
  | cons d ds ih =>
    cases k with
    | zero => simp at h
    | succ k => simp [killAfter, ih k (by simpa using h)]

theorem killAfter_wf (fs : FS) (k : Nat) (t : List Fd) (h : ∀ d ∈ t, WFFd fs d) :
    ∀ d ∈ killAfter k t, WFFd fs d := by
  induction t generalizing k with
  | nil => cases k <;> simp [killAfter]
  | cons d ds ih =>
    have hd := h d (by simp)
    have hds : ∀ x ∈ ds, WFFd fs x := fun x hx => h x (by simp [hx])
    cases k with
    | zero =>
      intro x hx
      simp only [killAfter, List.mem_cons] at hx
      rcases hx with e | hx
      · subst e
        unfold WFFd at hd ⊢
        rw [afterLink_kind]
        exact hd
      · exact killFrom_wf fs 0 ds hds x hx
    | succ k =>
      intro x hx
      simp only [killAfter, List.mem_cons] at hx
      rcases hx with e | hx
      · subst e; exact hd
      · exact ih k hds x hx

/-- no access failed although the process died after the link of descriptor `k`: then `k` was the
    last descriptor and nothing of it is listed — the report is the one of the untouched table -/
theorem killAfter_listed_of_no_hits (fs : FS) (k : Nat) (t : List Fd)
    (h : (killAfter k t).any (hits fs) = false) :
    (killAfter k t).filterMap (listed fs) = t.filterMap (listed fs) := by
  induction t generalizing k with
  | nil => cases k <;> rfl
  | cons d ds ih =>
    cases k with
    | succ k =>
      simp only [killAfter, List.any_cons, Bool.or_eq_false_iff] at h
      simp only [killAfter, List.filterMap_cons, ih k h.2]
    | zero =>
      simp only [killAfter, List.any_cons, Bool.or_eq_false_iff] at h
      have hds : ds = [] := by
        cases ds with
        | nil => rfl
        | cons x xs =>
          have := killFrom_hits fs 0 (x :: xs) (by simp)
          rw [this] at h
          exact absurd h.2 (by simp)
      subst hds
      have h1 := h.1
      simp only [killAfter, killFrom, List.filterMap_cons, List.filterMap_nil]
      have e : listed fs (afterLink d) = none ∧ listed fs d = none := by
        rw [listed_eq, listed_eq]
        unfold afterLink hits at *
        cases hc : d.closesAt with
        | none =>
          simp only [hc] at h1 ⊢
          cases ht : target fs d.kind with
          | none => simp
          | some q => rw [ht] at h1; simp at h1
        | some st =>
          cases st with
          | beforeReadlink e => simp [hc] at h1
          | beforeFdinfo e => simp
          | duringFdinfo b e => simp
      rw [e.1, e.2]

theorem killAfter_hits_succ (fs : FS) (k : Nat) (t : List Fd) (h : k + 1 < t.length) :
    (killAfter k t).any (hits fs) = true := by
  induction t generalizing k with
  | nil => simp at h
  | cons d ds ih =>
    cases k with
    | zero =>
      simp only [killAfter, List.any_cons]
      rw [killFrom_hits fs 0 ds (by simpa using h), Bool.or_true]
    | succ k =>
      simp only [killAfter, List.any_cons, ih k (by simpa using h), Bool.or_true]

theorem seen_wf (w : World) (h : ∀ d ∈ w.fds, WFFd w.fs d) : ∀ d ∈ w.seen, WFFd w.fs d := by
  unfold World.seen
  cases w.diesAt with
  | none => exact h
  | some k =>
    cases w.diesAfterLink with
    | false => exact killFrom_wf w.fs k w.fds h
    | true => exact killAfter_wf w.fs k w.fds h

theorem seen_length (w : World) : w.seen.length = w.fds.length := by
  unfold World.seen
  cases w.diesAt with
  | none => rfl
  | some k => cases w.diesAfterLink <;> simp [killFrom_length, killAfter_length]

theorem seen_of_not_died (w : World) (h : w.died = false) : w.seen = w.fds := by
  unfold World.died at h
  unfold World.seen
  cases hda : w.diesAt with
  | none => rfl
  | some k =>
    rw [hda] at h
    have hk : w.fds.length ≤ k := by simpa using h
    cases w.diesAfterLink
    · exact killFrom_ge k w.fds hk
    · exact killAfter_ge k w.fds hk

theorem seen_listed_of_no_hits (w : World) (h : w.seen.any (hits w.fs) = false) :
    w.seen.filterMap (listed w.fs) = w.fds.filterMap (listed w.fs) := by
  unfold World.seen at h ⊢
  cases hda : w.diesAt with
  | none => rfl
  | some k =>
    rw [hda] at h
    cases hal : w.diesAfterLink with
    | true =>
      rw [hal] at h
      exact killAfter_listed_of_no_hits w.fs k w.fds h
    | false =>
      rw [hal] at h
      simp only [Bool.false_eq_true, if_false] at h ⊢
      by_cases hk : k < w.fds.length
      · rw [killFrom_hits w.fs k w.fds hk] at h; cases h
      · rw [killFrom_ge k w.fds (by omega)]

theorem died_of_diesAt_none (w : World) (h : w.diesAt = none) : w.died = false := by
  simp [World.died, h]

theorem killAfter_hits_at (fs : FS) (k : Nat) (t : List Fd) (d : Fd) (h : t[k]? = some d)
    (hr : reachesFdinfo fs d.kind = true) : (killAfter k t).any (hits fs) = true := by
  induction t generalizing k with
  | nil => simp at h
  | cons x xs ih =>
    cases k with
    | zero =>
      simp only [List.getElem?_cons_zero, Option.some.injEq] at h
      subst h
      rw [reachesFdinfo_eq] at hr
      have : hits fs (afterLink x) = true := by
        unfold afterLink hits
        cases hc : x.closesAt with
        | none => simpa using hr
        | some st => cases st <;> simp [hc, hr]
      simp [killAfter, this]
    | succ k =>
      simp only [List.getElem?_cons_succ] at h
      simp only [killAfter, List.any_cons, ih k h, Bool.or_true]

/-- descriptors that close do not disturb the report about the others -/
theorem listed_filter_open (fs : FS) (t : List Fd) :
    t.filterMap (listed fs) = (t.filter fun d => d.closesAt.isNone).filterMap (listed fs) := by
  induction t with
  | nil => rfl
  | cons d ds ih =>
    cases hc : d.closesAt with
    | none =>
      simp only [List.filter_cons, hc, Option.isNone_none, if_true, List.filterMap_cons, ih]
    | some st =>
      have : listed fs d = none := by rw [listed_eq, hc]
      simp [hc, this, ih]

/-- descriptors whose target cannot be stat'ed do not disturb the report about the others -/
theorem listed_filter_statable (fs : FS) (hco : StatCoherent fs) (t : List Fd) :
    t.filterMap (listed fs) = (t.filter fun d => !targetUnstatable fs d).filterMap (listed fs) := by
  induction t with
  | nil => rfl
  | cons d ds ih =>
    cases hu : targetUnstatable fs d with
    | false => simp only [List.filter_cons, hu, Bool.not_false, if_true, List.filterMap_cons, ih]
    | true =>
      have : listed fs d = none := by
        unfold targetUnstatable at hu
        unfold listed
        cases hk : d.kind with
        | regular path del =>
          rw [hk] at hu
          simp only at hu
          cases d.closesAt <;> simp [(hco path hu).1]
        | socket i => cases d.closesAt <;> rfl
        | pipe i => cases d.closesAt <;> rfl
        | anon n => cases d.closesAt <;> rfl
        | device q => cases d.closesAt <;> rfl
        | relative q => cases d.closesAt <;> rfl
      simp [hu, this, ih]

/-! ### the errno of a failing `os.stat` never matters (seeded round 5) -/

theorem scanOne_statErr (c : Cfg) (ha : c.GoodAccess) (fs : FS) (se : Bytes → Option StatFail) (e : Entry) :
    scanOne c { fs with statErr := se } e = scanOne c fs e := by
  unfold scanOne
  simp only [pyReadlinkEscapes_good c ha, isfileEscapes_good c ha]
  rfl

theorem scan_statErr (c : Cfg) (ha : c.GoodAccess) (fs : FS) (se : Bytes → Option StatFail) (es : List Entry) :
    scan c { fs with statErr := se } es = scan c fs es := by
  induction es with
  | nil => rfl
  | cons e es ih => simp only [scan, scanOne_statErr c ha fs se e, ih]

/-! ### /proc/<pid>/io -/

structure Cfg.GoodIo (c : Cfg) : Prop where
  ioSep : c.ioSep = sepText
  ioKeys : c.ioKeys = documentedKeys
  pioFields : c.pioFields = documentedFields

theorem splitOn_renderItems (its : List Item) (h : ∀ it ∈ its, 10 ∉ it.text) :
    splitOn 10 (renderItems its) = its.map Item.text ++ [[]] := by
  induction its with
  | nil => rfl
  | cons it its ih =>
    simp only [renderItems, List.map_cons, List.cons_append]
    rw [splitOn_append 10 _ _ (h it (by simp)), ih (fun x hx => h x (by simp [hx]))]

theorem linesOf_renderItems (its : List Item) (h : ∀ it ∈ its, 10 ∉ it.text) :
    linesOf (renderItems its) = its.map Item.text := by
  unfold linesOf
  rw [splitOn_renderItems its h]
  simp

theorem stripWs_ends (a m b : Bytes) (ha : a ≠ []) (hna : NoWs a) (hb : b ≠ []) (hnb : NoWs b) :
    stripWs (a ++ m ++ b) = a ++ m ++ b := by
  unfold stripWs rstripWs
  have h1 : lstripWs (a ++ m ++ b) = a ++ m ++ b := by
    cases a with
    | nil => exact absurd rfl ha
    | cons x xs => exact lstripWs_of_head (hna x (by simp))
  rw [h1]
  have h2 : lstripWs (a ++ m ++ b).reverse = (a ++ m ++ b).reverse := by
    rw [List.reverse_append]
    cases hr : b.reverse with
    | nil => exact absurd (by simpa using hr) hb
    | cons y ys =>
      have hy : y ∈ b := by
        have : y ∈ b.reverse := by rw [hr]; simp
        simpa using this
      exact lstripWs_of_head (hnb y hy)
  rw [h2, List.reverse_reverse]

theorem lstripWs_allWs (s : Bytes) (h : allWs s = true) : lstripWs s = [] := by
  induction s with
  | nil => rfl
  | cons c cs ih =>
    simp only [allWs, List.all_cons, Bool.and_eq_true] at h
    simp only [lstripWs, h.1, if_true]
    exact ih (by simpa [allWs] using h.2)

theorem stripWs_allWs (s : Bytes) (h : allWs s = true) : stripWs s = [] := by
  unfold stripWs
  rw [lstripWs_allWs s h]
  rfl

theorem isPrefix_sep_false {c : Nat} (cs : Bytes) (h : c ≠ 58) : List.isPrefixOf sepText (c :: cs) = false := by
  have : (58 == c) = false := by simpa using (fun e : 58 = c => h e.symm)
  simp [sepText, List.isPrefixOf, this]

theorem containsSeq_of_not_mem (s : Bytes) (h : 58 ∉ s) : containsSeq sepText s = false := by
  induction s with
  | nil => rfl
  | cons c cs ih =>
    have hc : c ≠ 58 := fun e => h (by simp [e])
    simp [containsSeq, isPrefix_sep_false cs hc, ih (fun m => h (by simp [m]))]

/-- no occurrence of the separator: `split` returns the whole line -/
theorem splitSeqGo_none (s cur : Bytes) (h : containsSeq sepText s = false) :
    splitSeqGo sepText s 0 cur = [cur.reverse ++ s] := by
  induction s generalizing cur with
  | nil => simp [splitSeqGo]
  | cons c cs ih =>
    simp only [containsSeq, Bool.or_eq_false_iff] at h
    simp only [splitSeqGo, h.1, Bool.false_eq_true, if_false]
    rw [ih _ h.2]
    simp

theorem splitSeq_one (a b : Bytes) (ha : 58 ∉ a) (hb : 58 ∉ b) :
    splitSeq sepText (a ++ sepText ++ b) = [a, b] := by
  unfold splitSeq
  suffices h : ∀ cur, splitSeqGo sepText (a ++ sepText ++ b) 0 cur = [cur.reverse ++ a, b] by
    simpa using h []
  induction a with
  | nil =>
    intro cur
    have hb' := splitSeqGo_none b [] (containsSeq_of_not_mem b hb)
    simp only [List.reverse_nil, List.nil_append] at hb'
    simp [sepText, splitSeqGo, List.isPrefixOf]
    simpa [sepText] using hb'
  | cons c cs ih =>
    intro cur
    have hc : c ≠ 58 := fun e => ha (by simp [e])
    have hcs : 58 ∉ cs := fun m => ha (by simp [m])
    simp only [List.cons_append, splitSeqGo, isPrefix_sep_false _ hc, Bool.false_eq_true, if_false]
    rw [ih hcs]
    simp

theorem containsSeq_lstrip (s : Bytes) (h : containsSeq sepText s = false) :
    containsSeq sepText (lstripWs s) = false := by
  induction s with
  | nil => exact h
  | cons c cs ih =>
    have h2 : containsSeq sepText cs = false := by
      simp only [containsSeq, Bool.or_eq_false_iff] at h; exact h.2
    simp only [lstripWs]
    split
    · exact ih h2
    · exact h

theorem lstripWs_suffix (s : Bytes) : ∃ pre, s = pre ++ lstripWs s := by
  induction s with
  | nil => exact ⟨[], rfl⟩
  | cons c cs ih =>
    simp only [lstripWs]
    split
    · obtain ⟨pre, hp⟩ := ih
      exact ⟨c :: pre, by simp [← hp]⟩
    · exact ⟨[], rfl⟩

theorem containsSeq_prefix (p q : Bytes) (h : containsSeq sepText (p ++ q) = false) :
    containsSeq sepText p = false := by
  induction p with
  | nil => rfl
  | cons c cs ih =>
    simp only [List.cons_append, containsSeq, Bool.or_eq_false_iff] at h ⊢
    refine ⟨?_, ih h.2⟩
    cases hp : List.isPrefixOf sepText (c :: cs) with
    | false => rfl
    | true =>
      have h1 : sepText <+: c :: cs := List.isPrefixOf_iff_prefix.mp hp
      have h2 : sepText <+: c :: (cs ++ q) := by
        have := h1.trans (List.prefix_append (c :: cs) q)
        simpa using this
      have := List.isPrefixOf_iff_prefix.mpr h2
      rw [this] at h
      exact absurd h.1 (by simp)

theorem containsSeq_strip (s : Bytes) (h : containsSeq sepText s = false) :
    containsSeq sepText (stripWs s) = false := by
  unfold stripWs rstripWs
  have h1 := containsSeq_lstrip s h
  obtain ⟨pre, hp⟩ := lstripWs_suffix (lstripWs s).reverse
  have h2 : lstripWs s = (lstripWs (lstripWs s).reverse).reverse ++ pre.reverse := by
    have := congrArg List.reverse hp
    simpa using this
  rw [h2] at h1
  exact containsSeq_prefix _ _ h1

theorem parseRadixAux_none (r : Radix) (s : Bytes) (h : ∃ c ∈ s, r.val c = none) :
    ∀ acc, parseRadixAux r s acc = none := by
  induction s with
  | nil => obtain ⟨c, hc, _⟩ := h; cases hc
  | cons x xs ih =>
    intro acc
    simp only [parseRadixAux]
    cases hv : r.val x with
    | none => rfl
    | some d =>
      obtain ⟨c, hc, hcv⟩ := h
      rcases List.mem_cons.mp hc with e | hm
      · subst e; rw [hv] at hcv; cases hcv
      · exact ih ⟨c, hm, hcv⟩ _

/- the item-level io lemmas (`ioLine_item` … `ioCounters_items`) live in Proofs/C14Io.lean -/

end Psutil.C14
