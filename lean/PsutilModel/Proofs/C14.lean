/-
  Proofs/C14.lean — helper definitions and lemmas for Props/C14.lean.
-/
import Mathlib.Data.Nat.Bitwise
import PsutilModel.Model.C14
import PsutilModel.Spec.C14
namespace Psutil.C14
open Spec

/-! ### configurations under which the statements hold (proof obligations on Generated facts) -/

/-- the documented mode string as a function of (access mode, O_APPEND) -/
def modeOf (acc : Nat) (append : Bool) : Bytes :=
  match acc with
  | 0 => mR
  | 1 => if append then mA else mW
  | _ => if append then mAp else mRp

theorem mode_eq (flags : Nat) : Spec.mode flags = modeOf (flags % 4) (appendSet flags) := by
  unfold Spec.mode modeOf
  rfl

/-- the masks are the Linux ones and the three standard access modes map as documented -/
structure Cfg.GoodMode (c : Cfg) : Prop where
  accMask : c.accMask = 3
  appendBit : c.appendBit = 1024
  table : ∀ ap : Bool, modeCore c 0 ap = some (modeOf 0 ap) ∧ modeCore c 1 ap = some (modeOf 1 ap)
    ∧ modeCore c 2 ap = some (modeOf 2 ap)

/-- … and Linux's access mode 3 is mapped too (like O_RDWR) -/
structure Cfg.GoodMode3 (c : Cfg) : Prop extends Cfg.GoodMode c where
  three : ∀ ap : Bool, modeCore c 3 ap = some (modeOf 3 ap)

theorem and_1024 (n : Nat) : (n &&& 1024 != 0) = (n / 1024 % 2 == 1) := by
  have h := Nat.and_two_pow n 10
  have h2 := @Nat.testBit_eq_decide_div_mod_eq 10 n
  have e : (2:Nat)^10 = 1024 := by decide
  rw [e] at h h2
  rw [h]
  cases hb : n.testBit 10
  · rw [hb] at h2
    have : ¬ (n / 1024 % 2 = 1) := by simpa using h2.symm
    simp [this]
  · rw [hb] at h2
    have : (n / 1024 % 2 = 1) := by simpa using h2.symm
    simp [this]

theorem and_3 (n : Nat) : n &&& 3 = n % 4 := Nat.and_two_pow_sub_one_eq_mod n 2

/-- `file_flags_to_mode` looks at the flag word only through `flags mod 4` and bit 10 -/
theorem fileFlagsToMode_factor (c : Cfg) (h : c.GoodMode) (flags : Nat) :
    fileFlagsToMode c flags = modeCore c (flags % 4) (appendSet flags) := by
  unfold fileFlagsToMode appendSet
  rw [h.accMask, h.appendBit, and_3, and_1024]

end Psutil.C14
