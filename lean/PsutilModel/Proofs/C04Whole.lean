/-
  Proofs/C04Whole.lean — one WHOLE iteration as a single sentence (round 2): along any history the
  PIDs a generator yields, the PIDs it found vanished and the PIDs it has still to visit account
  for every PID of the listing it took. Built from the per-`next()` lemmas of C04Step/C04Safety.
-/
import PsutilModel.Proofs.C04Aux
namespace Psutil.C04

/-- the names of `attrs` are all valid `as_dict` names (otherwise `next()` raises ValueError) -/
def ValidAttrs (c : Cfg) : Attrs → Prop
  | .none => True
  | .names l => l.all c.validNames.contains = true

/-- generator `g` exists, was created with `attrs = a`, and has entered its body -/
def Started (s : St) (g : Nat) (a : Attrs) : Prop :=
  ∃ gen, s.gens[g]? = some gen ∧ gen.attrs = a ∧ gen.st ≠ .fresh

/-- along the run of `h` from `s`, some `next(g)` saw a process table (the state before the call
    with the call's own table changes applied) in which `/proc/q` does not exist -/
def VanishedAt (c : Cfg) (g q : Nat) : St → List Op → Prop
  | _, [] => False
  | s, op :: ops =>
    (∃ mid, op = .next g mid ∧ (s.k.applyAll mid).statStart q = none) ∨ VanishedAt c g q (step c s op).1 ops

theorem remaining_congr {s s' : St} {g : Nat} {a : Attrs} (hs : Started s g a)
    (h : s'.gens[g]? = s.gens[g]?) : remaining s' g = remaining s g := by
  obtain ⟨gen, hg, _, hst⟩ := hs
  simp only [remaining, h, hg]
  cases hs' : gen.st with
  | fresh => exact absurd hs' hst
  | running pm todo l => rfl
  | done => rfl

/-- an operation that is neither `next(g)` nor `close(g)` leaves generator `g` as it is -/
theorem step_other_gen (c : Cfg) (s : St) (hi : Inv s) (g : Nat) (hlt : g < s.gens.length) (op : Op)
    (hn : ∀ mid, op ≠ .next g mid) (hc : op ≠ .close g) :
    (step c s op).1.gens[g]? = s.gens[g]? := by
  cases op with
  | kev e => rfl
  | pids =>
    have hc' := pidsCall_res s
    simp only [step]
    cases hp : pidsCall s with
    | mk s' res =>
      rw [hp] at hc'
      cases res <;> simp only <;> rw [hc'.1]
  | pidExists n =>
    simp only [step, pidExists]
    split
    · rfl
    · split
      · have hc' := pidsCall_res s
        cases hp : pidsCall s with
        | mk s' res =>
          rw [hp] at hc'
          cases res <;> simp only <;> rw [hc'.1]
      · split <;> rfl
  | iter a =>
    simp only [step]
    exact List.getElem?_append_left hlt
  | next g' mid =>
    have hne : g ≠ g' := fun e => hn mid (by rw [e])
    exact (genNext_step c s g' mid hi).2.1 g hne
  | close g' =>
    have hne : g ≠ g' := fun e => hc (by rw [e])
    simp only [step, genClose]
    cases hg : s.gens[g']? with
    | none => rfl
    | some gen =>
      simp only
      cases gen.st with
      | fresh => simp only; exact setGen_get_ne _ _ _ _ hne
      | running pm todo l => simp only [finish]; exact setGen_get_ne _ _ _ _ hne
      | done => rfl
  | cacheClear => rfl
  | isRunning r =>
    simp only [step]
    cases ho : s.objs[r]? with
    | none => rfl
    | some o => simp only; rw [(isRunningObj_frame s r o).1]

theorem yieldOf_other (g : Nat) (op : Op) (out : Out) (hn : ∀ mid, op ≠ .next g mid) :
    yieldOf g (op, out) = none := by
  cases op with
  | next g' mid =>
    cases out with
    | yield r p info =>
      simp only [yieldOf]
      split
      · rename_i e; exact absurd (by rw [e]) (hn mid)
      · rfl
    | _ => rfl
  | _ => rfl

/-- after `next(g)` the generator exists with the same `attrs` and has entered its body -/
theorem genNext_started (c : Cfg) (s : St) (hi : Inv s) (g : Nat) (mid : List KEv) (gen : Gen)
    (hg : s.gens[g]? = some gen) : Started (genNext c s g mid).1 g gen.attrs := by
  unfold genNext
  rw [hg]
  simp only
  cases hst : gen.st with
  | done =>
    simp only
    exact ⟨gen, by simpa [St.applyMid] using hg, rfl, by rw [hst]; intro h; cases h⟩
  | running pm todo listed =>
    simp only
    have vr := visit_res c gen.attrs g listed todo (s.applyMid mid) pm
    have hg' : (s.applyMid mid).gens[g]? = some gen := by simpa [St.applyMid] using hg
    rcases vr.outcome with ⟨r, p, info, pm', rest, pre, _, _, h3, _⟩ | ⟨_, h2, _⟩
    · rw [hg'] at h3
      exact ⟨_, h3, rfl, by intro h; cases h⟩
    · rw [hg'] at h2
      exact ⟨_, h2, rfl, by intro h; cases h⟩
  | fresh =>
    simp only
    have pr := prologue_res c s hi.kernel.nodup hi.pmap
    cases hp : prologue c s with
    | mk s1 res =>
      rw [hp] at pr
      simp only at pr
      obtain ⟨p1, _, _, _, _⟩ := pr
      cases res with
      | none =>
        simp only
        refine ⟨{ gen with st := .done }, ?_, rfl, by intro h; cases h⟩
        simp only [St.applyMid]
        rw [setGen_get_self, p1, hg]; rfl
      | some x =>
        obtain ⟨pm, todo, listed⟩ := x
        simp only
        have vr := visit_res c gen.attrs g listed todo (s1.applyMid mid) pm
        have hg' : (s1.applyMid mid).gens[g]? = some gen := by simpa [St.applyMid, p1] using hg
        rcases vr.outcome with ⟨r, p, info, pm', rest, pre, _, _, h3, _⟩ | ⟨_, h2, _⟩
        · rw [hg'] at h3
          exact ⟨_, h3, rfl, by intro h; cases h⟩
        · rw [hg'] at h2
          exact ⟨_, h2, rfl, by intro h; cases h⟩

/-- `genNext_complete` for a generator that has already entered its body: the order in which the
    prologue drains `_pids_reused` no longer matters -/
theorem genNext_complete_started (cfg : Cfg) (s : St) (g : Nat) (mid : List KEv)
    (hi : Inv s) (gen : Gen) (hg : s.gens[g]? = some gen) (hfr : gen.st ≠ .fresh) (hnr : NoReuse cfg gen.attrs)
    (l : List Nat) (hl : remaining s g = some l) :
    (∀ r p info, (genNext cfg s g mid).2 = .yield r p info →
      ∃ pre rest, l = pre ++ p :: rest ∧ remaining (genNext cfg s g mid).1 g = some rest
        ∧ ∀ q ∈ pre, (s.k.applyAll mid).statStart q = none)
    ∧ ((genNext cfg s g mid).2 = .stop →
        remaining (genNext cfg s g mid).1 g = some [] ∧ ∀ q ∈ l, (s.k.applyAll mid).statStart q = none) := by
  unfold genNext
  rw [hg]
  simp only
  have hok := hi.gens g gen hg
  cases hst : gen.st with
  | fresh => exact absurd hst hfr
  | done =>
    simp only
    simp only [remaining, hg, hst, Option.some.injEq] at hl
    subst hl
    refine ⟨fun r p info h => (by cases h), fun _ => ⟨by simp [remaining, St.applyMid, hg, hst], by intro q hq; cases hq⟩⟩
  | running pm todo listed =>
    simp only
    simp only [GenOK, hst] at hok
    simp only [remaining, hg, hst, Option.some.injEq] at hl
    subst hl
    have him := hi.applyMid mid
    have vs := visit_step cfg gen.attrs g listed todo (s.applyMid mid) pm gen him.kernel him.pmap
      (fun i gen' _ h => him.gens i gen' h) (by simpa [St.applyMid] using hg) hok.1 hok.2.1 hok.2.2
    obtain ⟨_, _, _, _, _, v6, v7, _⟩ := vs
    refine ⟨?_, ?_⟩
    · intro r p info ho
      obtain ⟨pm', rest, pre, h1, h2, _, _, h5⟩ := v6 r p info ho
      exact ⟨pre, todoPids rest, h2, by simp [remaining, h1], h5 hnr⟩
    · intro ho
      obtain ⟨h1, h2⟩ := v7 ho
      exact ⟨by simp [remaining, h1], h2 hnr⟩

/-- with valid `attrs`, `next(g)` of an existing generator whose listing `l` is not empty can only
    yield or stop -/
theorem genNext_out (c : Cfg) (s : St) (hi : Inv s) (g : Nat) (mid : List KEv) (gen : Gen)
    (hg : s.gens[g]? = some gen) (hv : ValidAttrs c gen.attrs) :
    (genNext c s g mid).2 = .stop ∨ (genNext c s g mid).2 = .exc "IndexError"
      ∨ ∃ r p info, (genNext c s g mid).2 = .yield r p info := by
  rcases (genNext_step c s g mid hi).2.2.2.2.2 with h | ⟨_, gen', l, hg', ha, hl⟩ | h | ⟨_, h⟩ | h
  · exact Or.inl h
  · exfalso
    rw [hg] at hg'
    simp only [Option.some.injEq] at hg'
    subst hg'
    rw [ha] at hv
    simp only [ValidAttrs] at hv
    rw [hv] at hl
    cases hl
  · exact Or.inr (Or.inl h.1)
  · rw [hg] at h; cases h
  · exact Or.inr (Or.inr h)

/-- IndexError comes out of `next(g)` only when the prologue of a generator that had not started
    finds an empty process table; the generator is finished then -/
theorem genNext_indexError (c : Cfg) (s : St) (hi : Inv s) (g : Nat) (mid : List KEv) (gen : Gen)
    (hg : s.gens[g]? = some gen) (h : (genNext c s g mid).2 = .exc "IndexError") :
    gen.st = .fresh ∧ s.k.listdir = [] ∧ remaining (genNext c s g mid).1 g = some [] := by
  have hne1 : Out.stop ≠ Out.exc "IndexError" := by decide
  have hne2 : Out.exc "ValueError" ≠ Out.exc "IndexError" := by decide
  unfold genNext at h ⊢
  rw [hg] at h ⊢
  simp only at h ⊢
  cases hst : gen.st with
  | done => rw [hst] at h; exact absurd h hne1
  | running pm todo listed =>
    rw [hst] at h
    simp only at h
    have vr := visit_res c gen.attrs g listed todo (s.applyMid mid) pm
    rcases vr.outcome with ⟨r, p, info, pm', rest, pre, ho, _⟩ | ⟨ho, _⟩
    · rw [ho] at h; cases h
    · rcases ho with ho | ho
      · rw [ho] at h; exact absurd h hne1
      · rw [ho] at h; exact absurd h hne2
  | fresh =>
    rw [hst] at h
    simp only at h ⊢
    have pr := prologue_res c s hi.kernel.nodup hi.pmap
    cases hp : prologue c s with
    | mk s1 res =>
      rw [hp] at pr h
      simp only at pr h
      obtain ⟨p1, _, _, _, p5⟩ := pr
      cases res with
      | none =>
        simp only at p5 ⊢
        refine ⟨trivial, p5, ?_⟩
        have : ((s1.setGen g GSt.done).applyMid mid).gens[g]? = some { gen with st := .done } := by
          simp only [St.applyMid]
          rw [setGen_get_self, p1, hg]; rfl
        simp [remaining, this]
      | some x =>
        obtain ⟨pm, todo, listed⟩ := x
        simp only at h
        have vr := visit_res c gen.attrs g listed todo (s1.applyMid mid) pm
        rcases vr.outcome with ⟨r, p, info, pm', rest, pre, ho, _⟩ | ⟨ho, _⟩
        · rw [ho] at h; cases h
        · rcases ho with ho | ho
          · rw [ho] at h; exact absurd h hne1
          · rw [ho] at h; exact absurd h hne2

/-- the accounting of one step, shared by the first `next(g)` (which may run the prologue) and the
    later ones -/
theorem whole_cons_next (c : Cfg) (g : Nat) (s : St) (mid : List KEv) (ops : List Op) (l : List Nat)
    (hout : (genNext c s g mid).2 = .stop
      ∨ ((genNext c s g mid).2 = .exc "IndexError" ∧ l = [] ∧ remaining (genNext c s g mid).1 g = some [])
      ∨ ∃ r p info, (genNext c s g mid).2 = .yield r p info)
    (hcomp : (∀ r p info, (genNext c s g mid).2 = .yield r p info →
      ∃ pre rest, l = pre ++ p :: rest ∧ remaining (genNext c s g mid).1 g = some rest
        ∧ ∀ q ∈ pre, (s.k.applyAll mid).statStart q = none)
      ∧ ((genNext c s g mid).2 = .stop →
        remaining (genNext c s g mid).1 g = some [] ∧ ∀ q ∈ l, (s.k.applyAll mid).statStart q = none))
    (ih : ∀ l', remaining (genNext c s g mid).1 g = some l' →
      (yieldsOf c (genNext c s g mid).1 g ops).Sublist l'
      ∧ ∀ q ∈ l', q ∈ yieldsOf c (genNext c s g mid).1 g ops ∨ VanishedAt c g q (genNext c s g mid).1 ops
          ∨ ∃ l'', remaining (runAll c (genNext c s g mid).1 ops) g = some l'' ∧ q ∈ l'') :
    (yieldsOf c s g (.next g mid :: ops)).Sublist l
    ∧ ∀ q ∈ l, q ∈ yieldsOf c s g (.next g mid :: ops) ∨ VanishedAt c g q s (.next g mid :: ops)
        ∨ ∃ l'', remaining (runAll c s (.next g mid :: ops)) g = some l'' ∧ q ∈ l'' := by
  have hstep : step c s (.next g mid) = genNext c s g mid := rfl
  rw [yieldsOf_cons]
  simp only [runAll, VanishedAt, hstep]
  rcases hout with ho | ⟨ho, hl, hr⟩ | ⟨r, p, info, ho⟩
  · obtain ⟨h1, h2⟩ := hcomp.2 ho
    have ih' := ih [] h1
    have hnil : yieldsOf c (genNext c s g mid).1 g ops = [] := List.sublist_nil.mp ih'.1
    rw [ho]
    simp only [yieldOf, hnil]
    exact ⟨List.nil_sublist l, fun q hq => Or.inr (Or.inl (Or.inl ⟨mid, rfl, h2 q hq⟩))⟩
  · subst hl
    have ih' := ih [] hr
    have hnil : yieldsOf c (genNext c s g mid).1 g ops = [] := List.sublist_nil.mp ih'.1
    rw [ho]
    simp only [yieldOf, hnil]
    exact ⟨List.nil_sublist [], fun q hq => by cases hq⟩
  · obtain ⟨pre, rest, h1, h2, h3⟩ := hcomp.1 r p info ho
    have ih' := ih rest h2
    rw [ho]
    simp only [yieldOf, if_true]
    subst h1
    refine ⟨(List.Sublist.cons_cons p ih'.1).trans (List.sublist_append_right pre _), ?_⟩
    intro q hq
    rcases List.mem_append.mp hq with hpre | hrest
    · exact Or.inr (Or.inl (Or.inl ⟨mid, rfl, h3 q hpre⟩))
    · rcases List.mem_cons.mp hrest with e | hr
      · exact Or.inl (by rw [e]; exact List.mem_cons_self)
      · rcases ih'.2 q hr with h | h | h
        · exact Or.inl (List.mem_cons_of_mem _ h)
        · exact Or.inr (Or.inl (Or.inr h))
        · exact Or.inr (Or.inr h)

/-- the accounting sentence for a generator that has entered its body, over ANY continuation -/
theorem whole_started (c : Cfg) (g : Nat) (a : Attrs) (hv : ValidAttrs c a) (hnr : NoReuse c a) :
    ∀ (h : List Op) (s : St) (l : List Nat), Inv s → Started s g a → remaining s g = some l → Op.close g ∉ h →
      (yieldsOf c s g h).Sublist l
      ∧ ∀ q ∈ l, q ∈ yieldsOf c s g h ∨ VanishedAt c g q s h
          ∨ ∃ l', remaining (runAll c s h) g = some l' ∧ q ∈ l' := by
  intro h
  induction h with
  | nil =>
    intro s l _ _ hl _
    exact ⟨by simp [yieldsOf], fun q hq => Or.inr (Or.inr ⟨l, hl, hq⟩)⟩
  | cons op ops ih =>
    intro s l hi hs hl hnc
    have hnc' : Op.close g ∉ ops := fun hm => hnc (List.mem_cons_of_mem _ hm)
    have hi' := (step_inv c s op hi).1
    obtain ⟨gen, hg, ha, hfr⟩ := hs
    by_cases hnext : ∃ mid, op = .next g mid
    · obtain ⟨mid, rfl⟩ := hnext
      have hst' : Started (genNext c s g mid).1 g a := by
        have := genNext_started c s hi g mid gen hg
        rw [ha] at this; exact this
      have hcomp := genNext_complete_started c s g mid hi gen hg hfr (by rw [ha]; exact hnr) l hl
      have hout : (genNext c s g mid).2 = .stop
          ∨ ((genNext c s g mid).2 = .exc "IndexError" ∧ l = [] ∧ remaining (genNext c s g mid).1 g = some [])
          ∨ ∃ r p info, (genNext c s g mid).2 = .yield r p info := by
        rcases genNext_out c s hi g mid gen hg (by rw [ha]; exact hv) with h | h | h
        · exact Or.inl h
        · exact absurd (genNext_indexError c s hi g mid gen hg h).1 hfr
        · exact Or.inr (Or.inr h)
      exact whole_cons_next c g s mid ops l hout hcomp
        (fun l' hl' => ih (genNext c s g mid).1 l' hi' hst' hl' hnc')
    · have hn : ∀ mid, op ≠ .next g mid := fun mid e => hnext ⟨mid, e⟩
      have hc : op ≠ .close g := fun e => hnc (by rw [e]; exact List.mem_cons_self)
      have hlt : g < s.gens.length := (List.getElem?_eq_some_iff.mp hg).1
      have hfrm := step_other_gen c s hi g hlt op hn hc
      have hst' : Started (step c s op).1 g a := ⟨gen, by rw [hfrm]; exact hg, ha, hfr⟩
      have hl' : remaining (step c s op).1 g = some l := by
        rw [remaining_congr ⟨gen, hg, ha, hfr⟩ hfrm]; exact hl
      have ih' := ih (step c s op).1 l hi' hst' hl' hnc'
      rw [yieldsOf_cons, yieldOf_other g op _ hn]
      simp only [runAll, VanishedAt]
      refine ⟨ih'.1, fun q hq => ?_⟩
      rcases ih'.2 q hq with h | h | h
      · exact Or.inl h
      · exact Or.inr (Or.inl (Or.inr h))
      · exact Or.inr (Or.inr h)

/-- …and from the call that may run the prologue: `l` is then the ascending listing of the table at
    that moment (`remaining`), provided the prologue drains `_pids_reused` first or nothing is
    flagged (lead L19 otherwise) -/
theorem whole_iteration (c : Cfg) (s : St) (hi : Inv s) (g : Nat) (gen : Gen) (hg : s.gens[g]? = some gen)
    (hd : gen.st = .fresh → c.drainFirst = true ∨ s.flagged = [])
    (hv : ValidAttrs c gen.attrs) (hnr : NoReuse c gen.attrs) (l : List Nat) (hl : remaining s g = some l)
    (mid0 : List KEv) (h : List Op) (hnc : Op.close g ∉ h) :
    (yieldsOf c s g (.next g mid0 :: h)).Sublist l
    ∧ ∀ q ∈ l, q ∈ yieldsOf c s g (.next g mid0 :: h) ∨ VanishedAt c g q s (.next g mid0 :: h)
        ∨ ∃ l', remaining (runAll c s (.next g mid0 :: h)) g = some l' ∧ q ∈ l' := by
  have hi' : Inv (genNext c s g mid0).1 := (genNext_step c s g mid0 hi).1
  have hst' := genNext_started c s hi g mid0 gen hg
  have hcomp : (∀ r p info, (genNext c s g mid0).2 = .yield r p info →
      ∃ pre rest, l = pre ++ p :: rest ∧ remaining (genNext c s g mid0).1 g = some rest
        ∧ ∀ q ∈ pre, (s.k.applyAll mid0).statStart q = none)
      ∧ ((genNext c s g mid0).2 = .stop →
        remaining (genNext c s g mid0).1 g = some [] ∧ ∀ q ∈ l, (s.k.applyAll mid0).statStart q = none) := by
    by_cases hfr : gen.st = .fresh
    · exact genNext_complete c s (hd hfr) g mid0 hi gen hg hnr l hl
    · exact genNext_complete_started c s g mid0 hi gen hg hfr hnr l hl
  have hout : (genNext c s g mid0).2 = .stop
      ∨ ((genNext c s g mid0).2 = .exc "IndexError" ∧ l = [] ∧ remaining (genNext c s g mid0).1 g = some [])
      ∨ ∃ r p info, (genNext c s g mid0).2 = .yield r p info := by
    rcases genNext_out c s hi g mid0 gen hg hv with h | h | h
    · exact Or.inl h
    · obtain ⟨h1, h2, h3⟩ := genNext_indexError c s hi g mid0 gen hg h
      refine Or.inr (Or.inl ⟨h, ?_, h3⟩)
      simp only [remaining, hg, h1, Option.some.injEq] at hl
      rw [← hl, h2]; rfl
    · exact Or.inr (Or.inr h)
  exact whole_cons_next c g s mid0 h l hout hcomp
    (fun l' hl' => whole_started c g gen.attrs hv hnr h (genNext c s g mid0).1 l' hi' hst' hl' hnc)

end Psutil.C04
