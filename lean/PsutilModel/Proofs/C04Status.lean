/-
  Proofs/C04Status.lean — the byte-level scan of `/proc/<n>/status` (Model/C04Status) on the text
  the kernel prints (Spec/C04Status): the `Tgid:` line is found whatever surrounds it and the
  field is compared AS A NUMBER.
-/
import PsutilModel.Model.C04Status
import PsutilModel.Spec.C04Status
namespace Psutil.C04
open Psutil Spec

theorem tgidKey_eq_label : tgidKey = tgidLabel := rfl

/-- iterating the file gives back the lines that were printed -/
theorem linesOf_render (ls : List Bytes) (h : ∀ l ∈ ls, 10 ∉ l) :
    linesOf (joinWith [10] (ls ++ [[]])) = ls := by
  have hj : splitOn 10 (joinWith [10] (ls ++ [[]])) = ls ++ [[]] := by
    apply splitOn_join
    · simp
    · intro f hf
      rcases List.mem_append.mp hf with hf | hf
      · exact h f hf
      · have : f = [] := by simpa using hf
        simp [this]
  unfold linesOf
  rw [hj]
  simp

theorem tgidLine_noLf (t : Nat) : 10 ∉ tgidLine t := by
  unfold tgidLine tgidLabel
  intro h
  rcases List.mem_append.mp h with h | h
  · revert h; decide
  · exact renderDec_not_mem t 10 (by decide) h

theorem startsWith_tgidLine (t : Nat) : startsWith tgidKey (tgidLine t) = true := by
  simp [startsWith, tgidKey, tgidLine, tgidLabel]

theorem splitWs_tgidLine (t : Nat) : splitWs (tgidLine t) = [tgidLabel, renderDec t] := by
  have := splitWs_join 9 (by decide) [tgidLabel, renderDec t] (by
    intro f hf
    rcases List.mem_cons.mp hf with hf | hf
    · subst hf
      exact ⟨by decide, by intro c hc; revert c; decide⟩
    · have : f = renderDec t := by simpa using hf
      subst this
      exact ⟨renderDec_ne_nil t, renderDec_noWs t⟩)
  simpa [joinWith, tgidLine] using this

/-- the loop on the printed lines: lines before the `Tgid:` line are passed over, the field is
    read as the number that was printed -/
theorem scanTgid_lines (before after : List Bytes) (t pid : Nat)
    (hk : ∀ l ∈ before, tgidLabel.isPrefixOf l = false) :
    scanTgid pid (before ++ tgidLine t :: after) = .eq (t == pid) := by
  induction before with
  | nil =>
    simp only [List.nil_append, scanTgid, startsWith_tgidLine, if_true, splitWs_tgidLine]
    simp [pyInt?, parseDec_renderDec]
  | cons l ls ih =>
    have hl : startsWith tgidKey l = false := by
      simpa [startsWith, tgidKey_eq_label] using hk l (by simp)
    simp only [List.cons_append, scanTgid, hl, Bool.false_eq_true, if_false]
    exact ih (fun x hx => hk x (by simp [hx]))

/-- **the field is compared as a number**: on any well-formed status text, for ANY id asked about
    and ANY thread-group id printed -/
theorem scanStatus_render (t : StatusText) (hwf : t.WF) (pid : Nat) :
    scanStatus t.render pid = .eq (t.tgid == pid) := by
  unfold scanStatus StatusText.render
  rw [linesOf_render]
  · exact scanTgid_lines t.before t.after t.tgid pid hwf.ownKey
  · intro l hl
    unfold StatusText.lines at hl
    rcases List.mem_append.mp hl with hl | hl
    · exact hwf.noLf l (by simp [hl])
    · rcases List.mem_cons.mp hl with hl | hl
      · subst hl; exact tgidLine_noLf t.tgid
      · exact hwf.noLf l (by simp [hl])

/-- a file without any `Tgid:` line: ValueError (→ the listing) -/
theorem scanTgid_none (ls : List Bytes) (pid : Nat) (h : ∀ l ∈ ls, startsWith tgidKey l = false) :
    scanTgid pid ls = .valueError := by
  induction ls with
  | nil => rfl
  | cons l ls ih =>
    simp only [scanTgid, h l (by simp), Bool.false_eq_true, if_false]
    exact ih (fun x hx => h x (by simp [hx]))

theorem StatusText.wfb_iff (t : StatusText) : t.wfb = true ↔ t.WF := by
  unfold StatusText.wfb
  constructor
  · intro h
    simp only [Bool.and_eq_true, List.all_eq_true, Bool.not_eq_true'] at h
    refine ⟨fun l hl => ?_, fun l hl => h.2 l hl⟩
    have := h.1 l hl
    simpa using this
  · intro h
    simp only [Bool.and_eq_true, List.all_eq_true, Bool.not_eq_true']
    refine ⟨fun l hl => ?_, fun l hl => h.ownKey l hl⟩
    have := h.noLf l hl
    simpa using this

end Psutil.C04
