/-
  Proofs/C08Text.lean — the text layer on ARBITRARY bytes: exactly when the parsing loops of
  virtual_memory() / calculate_avail_vmem() / swap_memory() raise, and which exception.
  The vocabulary (`lineFail`, `lowFail`, `vmFail`, …) says, per line, why the Python statement
  does not complete; "the first failing line decides" is `(lines.filterMap fail).head?`.
-/
import PsutilModel.Proofs.C08
namespace Psutil.C08
open Spec

/-! ### /proc/meminfo: `fields = line.split(); mems[fields[0]] = int(fields[1]) * 1024` -/

/-- why the statement does not complete on this line (`none`: it does): fewer than two
    blank-separated fields → IndexError; second field not an `int()` literal → ValueError
    (a negative literal: outside the model, explicit) -/
def lineFail (l : Bytes) : Option Err :=
  if (splitWs l).length < 2 then some .indexError
  else
    match pyIntLit ((splitWs l).getD 1 []) with
    | .invalid => some .valueError
    | .neg _ => some .negLiteral
    | .nat _ => none

/-- the assignment a well-formed line performs: `mems[key] = value * f` -/
def lineKV (f : Nat) (l : Bytes) : Option (Bytes × Nat) :=
  match splitWs l with
  | k :: v :: _ =>
    match pyIntLit v with
    | .nat n => some (k, n * f)
    | _ => none
  | _ => none

theorem parseLine_fail (f : Nat) (l : Bytes) (e : Err) (h : lineFail l = some e) :
    parseLine ⟨0, 1, f⟩ l = .error e := by
  unfold lineFail at h
  unfold parseLine
  cases hs : splitWs l with
  | nil => simp [hs] at h ⊢; exact h
  | cons a t =>
    cases t with
    | nil => simp [hs] at h ⊢; exact h
    | cons b t =>
      simp only [hs, List.length_cons] at h ⊢
      have : ¬ (t.length + 1 + 1 < 2) := by omega
      simp only [this, if_false, List.getD_cons_succ, List.getD_cons_zero] at h
      simp only [List.getElem?_cons_succ, List.getElem?_cons_zero]
      cases hv : pyIntLit b with
      | invalid => simp [hv] at h ⊢; exact h
      | neg n => simp [hv] at h ⊢; exact h
      | nat n => simp [hv] at h

theorem parseLine_good (f : Nat) (l : Bytes) (h : lineFail l = none) :
    ∃ kv, lineKV f l = some kv ∧ parseLine ⟨0, 1, f⟩ l = .ok kv := by
  unfold lineFail at h
  unfold parseLine lineKV
  cases hs : splitWs l with
  | nil => simp [hs] at h
  | cons a t =>
    cases t with
    | nil => simp [hs] at h
    | cons b t =>
      simp only [hs, List.length_cons] at h ⊢
      have : ¬ (t.length + 1 + 1 < 2) := by omega
      simp only [this, if_false, List.getD_cons_succ, List.getD_cons_zero] at h
      simp only [List.getElem?_cons_succ, List.getElem?_cons_zero]
      cases hv : pyIntLit b with
      | invalid => simp [hv] at h
      | neg n => simp [hv] at h
      | nat n => exact ⟨_, rfl, rfl⟩

theorem parseLines_char (f : Nat) (ls : List Bytes) (acc : Mems) :
    (∀ e, (ls.filterMap lineFail).head? = some e → parseLines ⟨0, 1, f⟩ ls acc = .error e)
    ∧ ((ls.filterMap lineFail).head? = none →
        parseLines ⟨0, 1, f⟩ ls acc = .ok ((ls.filterMap (lineKV f)).reverse ++ acc)) := by
  induction ls generalizing acc with
  | nil => simp [parseLines]
  | cons l ls ih =>
    cases hl : lineFail l with
    | some e0 =>
      have hp := parseLine_fail f l e0 hl
      simp [List.filterMap_cons, hl, parseLines, hp]
    | none =>
      obtain ⟨kv, hkv, hp⟩ := parseLine_good f l hl
      simp only [List.filterMap_cons, hl, hkv, parseLines, hp]
      obtain ⟨ih1, ih2⟩ := ih (kv :: acc)
      refine ⟨ih1, fun h => ?_⟩
      rw [ih2 h]
      simp

/-- the dictionary `mems` after the loop (newest assignment first) -/
def memsOf (f : Nat) (content : Bytes) : Mems := ((linesOf content).filterMap (lineKV f)).reverse

/-- the first failing line of the file, if any -/
def meminfoFail (content : Bytes) : Option Err := ((linesOf content).filterMap lineFail).head?

theorem parseMeminfo_char (f : Nat) (content : Bytes) :
    (∀ e, meminfoFail content = some e → parseMeminfo ⟨0, 1, f⟩ content = .error e)
    ∧ (meminfoFail content = none → parseMeminfo ⟨0, 1, f⟩ content = .ok (memsOf f content)) := by
  have := parseLines_char f (linesOf content) []
  simpa [parseMeminfo, meminfoFail, memsOf] using this

theorem meminfoFail_none_iff (content : Bytes) :
    meminfoFail content = none ↔ ∀ l ∈ linesOf content, lineFail l = none := by
  unfold meminfoFail
  rw [List.head?_eq_none_iff, List.filterMap_eq_nil_iff]

/-! ### /proc/zoneinfo: `line = line.strip(); if line.startswith(b'low'): … int(line.split()[1])` -/

def lowFail (l : Bytes) : Option Err :=
  let s := stripWs l
  if startsWith (K "low") s then
    if (splitWs s).length < 2 then some .indexError
    else
      match pyIntLit ((splitWs s).getD 1 []) with
      | .invalid => some .valueError
      | .neg _ => some .negLiteral
      | .nat _ => none
  else none

def zoneinfoFail (content : Bytes) : Option Err := ((linesOf content).filterMap lowFail).head?

theorem watermarkLow_char (ls : List Bytes) :
    (∀ e, (ls.filterMap lowFail).head? = some e → watermarkLow kernelCfg ls = .error e)
    ∧ ((ls.filterMap lowFail).head? = none → ∃ n, watermarkLow kernelCfg ls = .ok n) := by
  induction ls with
  | nil => simp [watermarkLow]
  | cons l ls ih =>
    obtain ⟨ih1, ih2⟩ := ih
    have hp : kernelCfg.lowPrefix = K "low" := rfl
    have hi : kernelCfg.lowIdx = 1 := rfl
    unfold watermarkLow
    simp only [hp, hi]
    by_cases hsw : startsWith (K "low") (stripWs l) = true
    · cases hs : splitWs (stripWs l) with
      | nil => simp [lowFail, hsw, hs, List.filterMap_cons]
      | cons a t =>
        cases t with
        | nil => simp [lowFail, hsw, hs, List.filterMap_cons]
        | cons b t =>
          have hlen : ¬ (t.length + 1 + 1 < 2) := by omega
          cases hv : pyIntLit b with
          | invalid => simp [lowFail, hsw, hs, hv, hlen, List.filterMap_cons]
          | neg n => simp [lowFail, hsw, hs, hv, hlen, List.filterMap_cons]
          | nat n =>
            have hlf : lowFail l = none := by simp [lowFail, hsw, hs, hv, hlen]
            simp only [List.filterMap_cons, hlf, hsw, if_true, hs, List.getElem?_cons_succ,
              List.getElem?_cons_zero, hv]
            refine ⟨fun e he => ?_, fun hn => ?_⟩
            · rw [ih1 e he]
            · obtain ⟨m, hm⟩ := ih2 hn
              exact ⟨n + m, by rw [hm]⟩
    · have hsw' : startsWith (K "low") (stripWs l) = false := by simpa using hsw
      have hlf : lowFail l = none := by simp [lowFail, hsw']
      simp only [List.filterMap_cons, hlf, hsw', Bool.false_eq_true, if_false]
      exact ⟨ih1, ih2⟩

/-! ### virtual_memory() as a whole -/

/-- `mems.get(key)` after the loop -/
def dictOf (content : Bytes) (k : Bytes) : Option Nat := (memsOf 1024 content).lookup k

/-- MemAvailable absent or zero: the estimate of calculate_avail_vmem() is needed -/
def needsEstimate (d : Bytes → Option Nat) : Bool :=
  match d (key "MemAvailable") with
  | none => true
  | some a => a == 0

/-- the estimate opens /proc/zoneinfo only when its three meminfo inputs are listed -/
def estimateReadsZoneinfo (d : Bytes → Option Nat) : Bool :=
  (d (key "Active(file)")).isSome && (d (key "Inactive(file)")).isSome
    && (d (key "SReclaimable")).isSome

/-- exactly why (and whether) `virtual_memory()` raises on these file contents, in the order the
    statements run: first failing /proc/meminfo line; `mems[b'MemTotal:']`; `mems[b'MemFree:']`;
    first failing `low` line of /proc/zoneinfo — consulted only when the estimate is needed, its
    inputs are listed and the file can be opened -/
def vmFail (meminfo : Bytes) (zoneinfo : Option Bytes) : Option Err :=
  match meminfoFail meminfo with
  | some e => some e
  | none =>
    let d := dictOf meminfo
    if (d (key "MemTotal")).isNone then some (.keyError (key "MemTotal"))
    else if (d (key "MemFree")).isNone then some (.keyError (key "MemFree"))
    else if needsEstimate d && estimateReadsZoneinfo d then
      match zoneinfo with
      | none => none
      | some z => zoneinfoFail z
    else none

theorem calcAvail_char (ps : Nat) (lk : Bytes → Option Nat) (zi : Option Bytes) (free : Nat)
    (hf : lk (key "MemFree") = some free) :
    (estimateReadsZoneinfo lk = false → ∃ a, calcAvail kernelCfg ps lk zi = .ok a)
    ∧ (estimateReadsZoneinfo lk = true →
        match zi with
        | none => ∃ a, calcAvail kernelCfg ps lk zi = .ok a
        | some z => (∀ e, zoneinfoFail z = some e → calcAvail kernelCfg ps lk zi = .error e)
                    ∧ (zoneinfoFail z = none → ∃ a, calcAvail kernelCfg ps lk zi = .ok a)) := by
  unfold calcAvail estimateReadsZoneinfo
  rw [show kernelCfg.caMemFree = key "MemFree" from rfl,
    show kernelCfg.caCached = key "Cached" from rfl,
    show kernelCfg.caActiveFile = key "Active(file)" from rfl,
    show kernelCfg.caInactiveFile = key "Inactive(file)" from rfl,
    show kernelCfg.caSReclaimable = key "SReclaimable" from rfl, hf]
  cases lk (key "Active(file)") <;> cases lk (key "Inactive(file)")
    <;> cases lk (key "SReclaimable") <;> simp
  cases zi with
  | none => simp
  | some z =>
    obtain ⟨h1, h2⟩ := watermarkLow_char (linesOf z)
    refine ⟨fun e he => ?_, fun hn => ?_⟩
    · simp [h1 e he]
    · obtain ⟨n, hn'⟩ := h2 hn
      simp [hn']

theorem vmCore_of_availRaw (ps : Nat) (lk : Bytes → Option Nat) (zi : Option Bytes)
    (total free : Nat) (ht : lk (key "MemTotal") = some total) (hf : lk (key "MemFree") = some free) :
    (∀ e, availRaw kernelCfg ps lk zi = .error e → vmCore kernelCfg ps lk zi = .error e)
    ∧ (∀ a, availRaw kernelCfg ps lk zi = .ok a → ∃ o, vmCore kernelCfg ps lk zi = .ok o) := by
  unfold vmCore
  rw [show kernelCfg.kMemTotal = key "MemTotal" from rfl,
    show kernelCfg.kMemFree = key "MemFree" from rfl, ht, hf]
  refine ⟨fun e he => ?_, fun a ha => ?_⟩
  · simp [he]
  · simp [ha]

theorem availRaw_unfold (ps : Nat) (lk : Bytes → Option Nat) (zi : Option Bytes) :
    availRaw kernelCfg ps lk zi =
      if needsEstimate lk then calcAvail kernelCfg ps lk zi
      else .ok (((lk (key "MemAvailable")).getD 0 : Nat) : Int) := by
  unfold availRaw needsEstimate
  rw [show kernelCfg.kMemAvailable = key "MemAvailable" from rfl]
  cases lk (key "MemAvailable") with
  | none => simp
  | some a => by_cases h : a = 0 <;> simp [kernelCfg, h]

/-- the outcome of `virtual_memory()` on arbitrary file contents is decided by `vmFail` -/
theorem virtualMemory_char (ps : Nat) (mi : Bytes) (zi : Option Bytes) :
    (∀ e, vmFail mi zi = some e → virtualMemory kernelCfg ps mi zi = .error e)
    ∧ (vmFail mi zi = none → ∃ o, virtualMemory kernelCfg ps mi zi = .ok o) := by
  unfold vmFail virtualMemory
  obtain ⟨hp1, hp2⟩ := parseMeminfo_char 1024 mi
  rw [show kernelCfg.vmParse = ⟨0, 1, 1024⟩ from rfl]
  cases hm : meminfoFail mi with
  | some e0 => simp [hp1 e0 hm]
  | none =>
    rw [hp2 hm]
    simp only
    have hd : (fun k => (memsOf 1024 mi).lookup k) = dictOf mi := rfl
    rw [hd]
    cases ht : dictOf mi (key "MemTotal") with
    | none =>
      simp [vmCore, show kernelCfg.kMemTotal = key "MemTotal" from rfl, ht]
    | some total =>
      cases hf : dictOf mi (key "MemFree") with
      | none =>
        simp [vmCore, show kernelCfg.kMemTotal = key "MemTotal" from rfl,
          show kernelCfg.kMemFree = key "MemFree" from rfl, ht, hf]
      | some free =>
        obtain ⟨hv1, hv2⟩ := vmCore_of_availRaw ps (dictOf mi) zi total free ht hf
        obtain ⟨hc1, hc2⟩ := calcAvail_char ps (dictOf mi) zi free hf
        simp only [Option.isNone_some, Bool.false_eq_true, if_false]
        have hu := availRaw_unfold ps (dictOf mi) zi
        cases hne : needsEstimate (dictOf mi) with
        | false =>
          simp only [Bool.false_and, Bool.false_eq_true, if_false]
          rw [hne] at hu
          simp only [Bool.false_eq_true, if_false] at hu
          exact ⟨fun e he => (by cases he), fun _ => hv2 _ hu⟩
        | true =>
          rw [hne] at hu
          simp only [if_true] at hu
          cases hz : estimateReadsZoneinfo (dictOf mi) with
          | false =>
            simp only [Bool.and_false, Bool.false_eq_true, if_false]
            obtain ⟨a, ha⟩ := hc1 hz
            exact ⟨fun e he => (by cases he), fun _ => hv2 a (by rw [hu, ha])⟩
          | true =>
            simp only [Bool.and_self, if_true]
            have hc := hc2 hz
            cases zi with
            | none =>
              obtain ⟨a, ha⟩ := hc
              exact ⟨fun e he => (by cases he), fun _ => hv2 a (by rw [hu, ha])⟩
            | some z =>
              obtain ⟨hz1, hz2⟩ := hc
              refine ⟨fun e he => hv1 e (by rw [hu, hz1 e he]), fun hn => ?_⟩
              obtain ⟨a, ha⟩ := hz2 hn
              exact hv2 a (by rw [hu, ha])

end Psutil.C08

namespace Psutil.C08
open Spec

/-! ### /proc/vmstat: the `for … else` loop with prefix tests, on arbitrary lines

    `if line.startswith(b'pswpin'): sin = …  elif line.startswith(b'pswpout'): sout = …`
    `if sin is not None and sout is not None: break` — a later matching line OVERWRITES an
    earlier one until the line that completes the pair; nothing after that line is read. -/

def isIn (l : Bytes) : Bool := startsWith (K "pswpin") l
def isOut (l : Bytes) : Bool := startsWith (K "pswpout") l

/-- `int(line.split(b' ')[1]) * 4 * 1024` -/
def swapField (l : Bytes) : Except Err Nat := vmstatField 1 4096 l

theorem isPrefixOf_take (P s : Bytes) (h : P.isPrefixOf s = true) : s.take P.length = P := by
  obtain ⟨t, rfl⟩ := List.isPrefixOf_iff_prefix.mp h
  simp

/-- no line begins with both prefixes (they differ in their fifth byte) -/
theorem isIn_isOut (l : Bytes) (h : isIn l = true) : isOut l = false := by
  cases ho : isOut l with
  | false => rfl
  | true =>
    have h1 := isPrefixOf_take _ _ h
    have h2 := isPrefixOf_take _ _ ho
    have h3 : (l.take 7).take 6 = l.take 6 := by simp [List.take_take]
    have e1 : (K "pswpin").length = 6 := by decide
    have e2 : (K "pswpout").length = 7 := by decide
    rw [e1] at h1
    rw [e2] at h2
    rw [h2, h1] at h3
    revert h3
    decide

/-- value carried by the LAST line of `pre` satisfying `p` (`init` if there is none) -/
def lastVal (p : Bytes → Bool) (pre : List Bytes) (init : Option Nat) : Option Nat :=
  match pre.reverse.find? p with
  | some l => (swapField l).toOption
  | none => init

theorem lastVal_cons (p : Bytes → Bool) (l : Bytes) (pre : List Bytes) (init : Option Nat) :
    lastVal p (l :: pre) init
      = lastVal p pre (if p l then (swapField l).toOption else init) := by
  unfold lastVal
  rw [List.reverse_cons, List.find?_append]
  cases pre.reverse.find? p with
  | some x => simp
  | none =>
    by_cases hp : p l = true
    · simp [hp]
    · have : p l = false := by simpa using hp
      simp [this]

theorem loop_step_in (l : Bytes) (rest : List Bytes) (sin sout : Option Nat) (h : isIn l = true) :
    vmstatLoop kernelCfg (l :: rest) sin sout =
      match swapField l with
      | .error e => .error e
      | .ok v =>
        match sout with
        | some b => .ok (some (v, b))
        | none => vmstatLoop kernelCfg rest (some v) none := by
  have hp : startsWith kernelCfg.sinPrefix l = true := h
  conv => lhs; unfold vmstatLoop
  simp only [hp, if_true]
  have hf : vmstatField kernelCfg.sinIdx kernelCfg.sinFactor l = swapField l := rfl
  rw [hf]
  cases swapField l with
  | error e => rfl
  | ok v => cases sout <;> rfl

theorem loop_step_out (l : Bytes) (rest : List Bytes) (sin sout : Option Nat)
    (hi : isIn l = false) (h : isOut l = true) :
    vmstatLoop kernelCfg (l :: rest) sin sout =
      match swapField l with
      | .error e => .error e
      | .ok v =>
        match sin with
        | some a => .ok (some (a, v))
        | none => vmstatLoop kernelCfg rest none (some v) := by
  have hp : startsWith kernelCfg.sinPrefix l = false := hi
  have hq : startsWith kernelCfg.soutPrefix l = true := h
  conv => lhs; unfold vmstatLoop
  simp only [hp, hq, if_true, Bool.false_eq_true, if_false]
  have hf : vmstatField kernelCfg.soutIdx kernelCfg.soutFactor l = swapField l := rfl
  rw [hf]
  cases swapField l with
  | error e => rfl
  | ok v => cases sin <;> rfl

theorem loop_step_other (l : Bytes) (rest : List Bytes) (sin sout : Option Nat)
    (hi : isIn l = false) (ho : isOut l = false) (h0 : ¬ (sin.isSome = true ∧ sout.isSome = true)) :
    vmstatLoop kernelCfg (l :: rest) sin sout = vmstatLoop kernelCfg rest sin sout := by
  have hp : startsWith kernelCfg.sinPrefix l = false := hi
  have hq : startsWith kernelCfg.soutPrefix l = false := ho
  conv => lhs; unfold vmstatLoop
  simp only [hp, hq, Bool.false_eq_true, if_false]
  cases sin <;> cases sout <;> simp_all

/-- a prefix without `pswpout` lines: the loop runs through it, `sin` ends as the last `pswpin`
    line's value -/
theorem loop_skip_noOut (pre rest : List Bytes) (sin : Option Nat)
    (hno : ∀ l ∈ pre, isOut l = false)
    (hgood : ∀ l ∈ pre, isIn l = true → ∃ v, swapField l = .ok v) :
    vmstatLoop kernelCfg (pre ++ rest) sin none = vmstatLoop kernelCfg rest (lastVal isIn pre sin) none := by
  induction pre generalizing sin with
  | nil => simp [lastVal]
  | cons l pre ih =>
    have ih' := fun s => ih s (fun x hx => hno x (by simp [hx])) (fun x hx => hgood x (by simp [hx]))
    rw [lastVal_cons, List.cons_append]
    by_cases hi : isIn l = true
    · obtain ⟨v, hv⟩ := hgood l (by simp) hi
      rw [loop_step_in l _ sin none hi, hv]
      simp only [hi, if_true, Except.toOption]
      exact ih' (some v)
    · have hi' : isIn l = false := by simpa using hi
      rw [loop_step_other l _ sin none hi' (hno l (by simp)) (by simp)]
      simp only [hi', Bool.false_eq_true, if_false]
      exact ih' sin

theorem loop_skip_noIn (pre rest : List Bytes) (sout : Option Nat)
    (hno : ∀ l ∈ pre, isIn l = false)
    (hgood : ∀ l ∈ pre, isOut l = true → ∃ v, swapField l = .ok v) :
    vmstatLoop kernelCfg (pre ++ rest) none sout = vmstatLoop kernelCfg rest none (lastVal isOut pre sout) := by
  induction pre generalizing sout with
  | nil => simp [lastVal]
  | cons l pre ih =>
    have ih' := fun s => ih s (fun x hx => hno x (by simp [hx])) (fun x hx => hgood x (by simp [hx]))
    rw [lastVal_cons, List.cons_append]
    have hi := hno l (by simp)
    by_cases ho : isOut l = true
    · obtain ⟨v, hv⟩ := hgood l (by simp) ho
      rw [loop_step_out l _ none sout hi ho, hv]
      simp only [ho, if_true, Except.toOption]
      exact ih' (some v)
    · have ho' : isOut l = false := by simpa using ho
      rw [loop_step_other l _ none sout hi ho' (by simp)]
      simp only [ho', Bool.false_eq_true, if_false]
      exact ih' sout

theorem lastVal_isSome (p : Bytes → Bool) (pre : List Bytes)
    (hex : ∃ l ∈ pre, p l = true) (hgood : ∀ l ∈ pre, p l = true → ∃ v, swapField l = .ok v) :
    ∃ a, lastVal p pre none = some a := by
  unfold lastVal
  cases hf : pre.reverse.find? p with
  | none =>
    obtain ⟨l, hl, hpl⟩ := hex
    have := List.find?_eq_none.mp hf l (by simpa using hl)
    simp [hpl] at this
  | some x =>
    have hx : x ∈ pre := by simpa using List.mem_of_find?_eq_some hf
    obtain ⟨v, hv⟩ := hgood x hx (List.find?_some hf)
    exact ⟨v, by simp [hv, Except.toOption]⟩

theorem head?_filterMap_mem {α β : Type} (f : α → Option β) (l : List α) (b : β)
    (h : (l.filterMap f).head? = some b) : ∃ a ∈ l, f a = some b := by
  have : b ∈ l.filterMap f := List.mem_of_mem_head? (by simp [h])
  simpa [List.mem_filterMap] using this

theorem vmstatField_err_range (i f : Nat) (l : Bytes) (e : Err) (h : vmstatField i f l = .error e) :
    e = .indexError ∨ e = .valueError ∨ e = .negLiteral := by
  unfold vmstatField at h
  split at h
  · cases h; simp
  · split at h <;> cases h <;> simp

theorem vmstatLoop_err_range (c : Cfg) (ls : List Bytes) (s t : Option Nat) (e : Err)
    (h : vmstatLoop c ls s t = .error e) :
    e = .indexError ∨ e = .valueError ∨ e = .negLiteral := by
  induction ls generalizing s t with
  | nil => simp [vmstatLoop] at h
  | cons l ls ih =>
    unfold vmstatLoop at h
    simp only at h
    split at h
    · next e' he =>
      cases h
      split at he
      · split at he
        · next e2 hf => cases he; exact vmstatField_err_range _ _ _ _ hf
        · cases he
      · split at he
        · split at he
          · next e2 hf => cases he; exact vmstatField_err_range _ _ _ _ hf
          · cases he
        · cases he
    · cases h
    · exact ih _ _ h

end Psutil.C08
