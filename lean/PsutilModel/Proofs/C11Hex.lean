/-
  Proofs/C11Hex.lean — fixed-width hexadecimal (`%0wX`) against `base64.b16decode` / `int(s, 16)`,
  and the per-word byte order of the kernel's address rendering.
-/
import PsutilModel.Model.C11
import PsutilModel.Spec.C11
set_option linter.unusedSimpArgs false
namespace Psutil.C11
open Spec

theorem hexChr_eq (d : Nat) : hexChr d = hexUpper.chr d := rfl

theorem b16val_hexChr (d : Nat) (h : d < 16) : b16val (hexChr d) = some d := by
  unfold b16val hexChr
  by_cases hd : d < 10
  · have h1 : 48 ≤ 48 + d ∧ 48 + d ≤ 57 := by omega
    simp only [hd, if_true, h1, and_self]
    congr 1; omega
  · have h1 : ¬ (48 ≤ 55 + d ∧ 55 + d ≤ 57) := by omega
    have h2 : 65 ≤ 55 + d ∧ 55 + d ≤ 70 := by omega
    simp only [hd, if_false, h1, h2, and_self, if_true]
    congr 1; omega

theorem hexW_length (w n : Nat) : (hexW w n).length = w := by
  induction w generalizing n with
  | zero => rfl
  | succ w ih => simp [hexW, ih]

/-- two hex digits of a byte -/
def hex2 (b : Nat) : Bytes := [hexChr (b / 16), hexChr (b % 16)]

theorem b16decode_hex2 (b : Nat) (hb : b < 256) (rest : Bytes) :
    b16decode (hex2 b ++ rest) = (b16decode rest).map (b :: ·) := by
  have h1 : b / 16 < 16 := by omega
  have h2 : b % 16 < 16 := by omega
  simp only [hex2, List.cons_append, List.nil_append, b16decode, b16val_hexChr _ h1, b16val_hexChr _ h2]
  have : b / 16 * 16 + b % 16 = b := by omega
  cases b16decode rest <;> simp [this]

theorem hexW8 (n : Nat) :
    hexW 8 n = hex2 (n / 16777216 % 256) ++ hex2 (n / 65536 % 256) ++ hex2 (n / 256 % 256) ++ hex2 (n % 256) := by
  simp only [hexW, hex2, List.nil_append, List.cons_append, Nat.div_div_eq_div_mul]
  have h7 : n / (16 * 16 * 16 * 16 * 16 * 16 * 16) % 16 = n / 16777216 % 256 / 16 := by omega
  have h6 : n / (16 * 16 * 16 * 16 * 16 * 16) % 16 = n / 16777216 % 256 % 16 := by omega
  have h5 : n / (16 * 16 * 16 * 16 * 16) % 16 = n / 65536 % 256 / 16 := by omega
  have h4 : n / (16 * 16 * 16 * 16) % 16 = n / 65536 % 256 % 16 := by omega
  have h3 : n / (16 * 16 * 16) % 16 = n / 256 % 256 / 16 := by omega
  have h2 : n / (16 * 16) % 16 = n / 256 % 256 % 16 := by omega
  have h1 : n / 16 % 16 = n % 256 / 16 := by omega
  have h0 : n % 16 = n % 256 % 16 := by omega
  rw [h7, h6, h5, h4, h3, h2, h1, h0]

/-- the bytes of a word, most significant first, as `%08X` shows them -/
def msb (le : Bool) (b0 b1 b2 b3 : Nat) : Bytes := if le then [b3, b2, b1, b0] else [b0, b1, b2, b3]

theorem b16decode_word (le : Bool) (b0 b1 b2 b3 : Nat) (h0 : b0 < 256) (h1 : b1 < 256) (h2 : b2 < 256)
    (h3 : b3 < 256) (rest : Bytes) :
    b16decode (hexW 8 (word le b0 b1 b2 b3) ++ rest) = (b16decode rest).map (msb le b0 b1 b2 b3 ++ ·) := by
  rw [hexW8]
  cases le
  · have e3 : word false b0 b1 b2 b3 / 16777216 % 256 = b0 := by simp only [word, Bool.false_eq_true, if_false, if_true]; omega
    have e2 : word false b0 b1 b2 b3 / 65536 % 256 = b1 := by simp only [word, Bool.false_eq_true, if_false, if_true]; omega
    have e1 : word false b0 b1 b2 b3 / 256 % 256 = b2 := by simp only [word, Bool.false_eq_true, if_false, if_true]; omega
    have e0 : word false b0 b1 b2 b3 % 256 = b3 := by simp only [word, Bool.false_eq_true, if_false, if_true]; omega
    rw [e3, e2, e1, e0]
    simp only [List.append_assoc]
    rw [b16decode_hex2 _ h0, b16decode_hex2 _ h1, b16decode_hex2 _ h2, b16decode_hex2 _ h3]
    cases b16decode rest <;> simp [msb]
  · have e3 : word true b0 b1 b2 b3 / 16777216 % 256 = b3 := by simp only [word, Bool.false_eq_true, if_false, if_true]; omega
    have e2 : word true b0 b1 b2 b3 / 65536 % 256 = b2 := by simp only [word, Bool.false_eq_true, if_false, if_true]; omega
    have e1 : word true b0 b1 b2 b3 / 256 % 256 = b1 := by simp only [word, Bool.false_eq_true, if_false, if_true]; omega
    have e0 : word true b0 b1 b2 b3 % 256 = b0 := by simp only [word, Bool.false_eq_true, if_false, if_true]; omega
    rw [e3, e2, e1, e0]
    simp only [List.append_assoc]
    rw [b16decode_hex2 _ h3, b16decode_hex2 _ h2, b16decode_hex2 _ h1, b16decode_hex2 _ h0]
    cases b16decode rest <;> simp [msb]

/-- what `b16decode` makes of the kernel's rendering: each 4-byte group most significant first -/
def perWord (le : Bool) (l : Bytes) : Bytes := if le then swap32 l else l

theorem b16decode_renderWords (le : Bool) : ∀ (k : Nat) (l : Bytes), l.length = 4 * k →
    (∀ b ∈ l, b < 256) → b16decode (renderWords le l) = some (perWord le l) := by
  intro k
  induction k with
  | zero =>
    intro l hl _
    have : l = [] := List.eq_nil_of_length_eq_zero (by omega)
    subst this
    cases le <;> simp [renderWords, b16decode, perWord, swap32]
  | succ k ih =>
    intro l hl hb
    match l, hl with
    | b0 :: b1 :: b2 :: b3 :: rest, hl =>
      have hr : rest.length = 4 * k := by simp at hl; omega
      have ihr := ih rest hr (fun b hm => hb b (by simp [hm]))
      simp only [renderWords]
      rw [b16decode_word le b0 b1 b2 b3 (hb _ (by simp)) (hb _ (by simp)) (hb _ (by simp)) (hb _ (by simp)),
        ihr]
      cases le <;> simp [perWord, msb, swap32]

theorem swap32_swap32 : ∀ (k : Nat) (l : Bytes), l.length = 4 * k → swap32 (swap32 l) = l := by
  intro k
  induction k with
  | zero =>
    intro l hl
    have : l = [] := List.eq_nil_of_length_eq_zero (by omega)
    subst this; rfl
  | succ k ih =>
    intro l hl
    match l, hl with
    | b0 :: b1 :: b2 :: b3 :: rest, hl =>
      have hr : rest.length = 4 * k := by simp at hl; omega
      simp [swap32, ih rest hr]

theorem swap32_length : ∀ (k : Nat) (l : Bytes), l.length = 4 * k → (swap32 l).length = l.length := by
  intro k
  induction k with
  | zero =>
    intro l hl
    have : l = [] := List.eq_nil_of_length_eq_zero (by omega)
    subst this; rfl
  | succ k ih =>
    intro l hl
    match l, hl with
    | b0 :: b1 :: b2 :: b3 :: rest, hl =>
      have hr : rest.length = 4 * k := by simp at hl; omega
      simp [swap32, ih rest hr]

/-! ### characters of the renderings -/

def IsHexChr (c : Nat) : Prop := (48 ≤ c ∧ c ≤ 57) ∨ (65 ≤ c ∧ c ≤ 70)

theorem hexChr_isHex (d : Nat) (h : d < 16) : IsHexChr (hexChr d) := by
  unfold IsHexChr hexChr
  by_cases hd : d < 10 <;> simp only [hd, if_true, if_false] <;> omega

theorem hexW_isHex (w n : Nat) : ∀ c ∈ hexW w n, IsHexChr c := by
  induction w generalizing n with
  | zero => intro c hc; cases hc
  | succ w ih =>
    intro c hc
    simp only [hexW, List.mem_append, List.mem_singleton] at hc
    cases hc with
    | inl h => exact ih _ c h
    | inr h => rw [h]; exact hexChr_isHex _ (Nat.mod_lt _ (by decide))

theorem renderWords_isHex (le : Bool) : ∀ (n : Nat) (l : Bytes), l.length ≤ n → ∀ c ∈ renderWords le l, IsHexChr c := by
  intro n
  induction n using Nat.strongRecOn with
  | _ n ih =>
    intro l hl c hc
    match l, hl with
    | [], _ => simp [renderWords] at hc
    | [_], _ => simp [renderWords] at hc
    | [_, _], _ => simp [renderWords] at hc
    | [_, _, _], _ => simp [renderWords] at hc
    | b0 :: b1 :: b2 :: b3 :: rest, hl =>
      simp only [renderWords, List.mem_append] at hc
      cases hc with
      | inl h => exact hexW_isHex _ _ c h
      | inr h =>
        simp only [List.length_cons] at hl
        exact ih rest.length (by omega) rest (Nat.le_refl _) c h

theorem isHex_ne_colon {c : Nat} (h : IsHexChr c) : c ≠ 58 := by unfold IsHexChr at h; omega
theorem isHex_notWs {c : Nat} (h : IsHexChr c) : isWs c = false := by
  unfold IsHexChr at h
  simp only [isWs, Bool.or_eq_false_iff, beq_eq_false_iff_ne, Bool.and_eq_false_iff, decide_eq_false_iff_not]
  omega

/-! ### `int(port, 16)` of `%04X` -/

theorem parseHex_hexW4 (p : Nat) (hp : p < 65536) : parseHex? (hexW 4 p) = some p := by
  have v : ∀ d, d < 16 → hexUpper.val (hexChr d) = some d := fun d h => hexUpper.val_chr d h
  simp only [hexW, List.nil_append, List.cons_append, parseHex?, parseRadix?, parseRadixAux,
    v _ (Nat.mod_lt _ (by decide : 0 < 16)), Nat.div_div_eq_div_mul]
  congr 1
  show (((0 * 16 + p / (16 * 16 * 16) % 16) * 16 + p / (16 * 16) % 16) * 16 + p / 16 % 16) * 16 + p % 16 = p
  omega

/-! ### the endpoint token splits at its colon -/

theorem splitOn_endpoint (le : Bool) (ip : Bytes) (port : Nat) :
    splitOn 58 (renderEndpoint le ip port) = [renderWords le ip, hexW 4 port] := by
  unfold renderEndpoint
  have h1 : 58 ∉ renderWords le ip := fun hm =>
    isHex_ne_colon (renderWords_isHex le _ ip (Nat.le_refl _) 58 hm) rfl
  have h2 : 58 ∉ hexW 4 port := fun hm => isHex_ne_colon (hexW_isHex 4 port 58 hm) rfl
  rw [splitOn_append 58 _ _ h1, splitOn_noSep 58 _ h2]

end Psutil.C11
