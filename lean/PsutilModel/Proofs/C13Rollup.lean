/-
  Proofs/C13Rollup.lean — `_parse_smaps_rollup` on ANY roll-up record (pseudo header + arbitrary
  key lines), and the arithmetic of the kernel's sub-kB PSS accumulation.
-/
import PsutilModel.Proofs.C13Full
namespace Psutil.C13
open Psutil Psutil.C13.Spec

theorem sum_filter_ite (kvs : List KV) (p : KV → Bool) :
    (kvs.map fun e => if p e then e.val else 0).sum = ((kvs.filter p).map (·.val)).sum := by
  induction kvs with
  | nil => rfl
  | cons e t ih =>
    simp only [List.map_cons, List.sum_cons, List.filter_cons, ih]
    cases p e <;> simp

theorem rollup_record_parse (c : Cfg) (hg : c.Good) (lo hi : Nat) (kvs : List KV)
    (hkeys : ∀ e ∈ kvs, wfKey e.key = true) :
    parseSmapsRollup c (renderRollupRec lo hi kvs) = .ok (kvs.foldl rstep ⟨0, 0, 0⟩) := by
  have hnl : ∀ l ∈ rollupHeader lo hi :: kvs.map kvLine, 10 ∉ l := by
    intro l hl
    rcases List.mem_cons.mp hl with h | h
    · rw [h]; exact rollupHeader_noNL lo hi
    · obtain ⟨e, he, rfl⟩ := List.mem_map.mp h
      exact (lineOK_kvLine e (hkeys e he)).1
  unfold parseSmapsRollup renderRollupRec
  rw [linesOf_unlines _ hnl]
  show (match rollupStep c ⟨0, 0, 0⟩ (rollupHeader lo hi) with
    | .ok acc' => rollupLoop c (kvs.map kvLine) acc'
    | .error e => .error e) = _
  rw [rollupStep_header c hg]
  exact rollupLoop_kvs c hg _ _ hkeys

theorem rollup_record (c : Cfg) (hg : c.Good) (lo hi : Nat) (kvs : List KV)
    (hw : wfRollupRec kvs = true) :
    parseSmapsRollup c (renderRollupRec lo hi kvs) = .ok (specFullRollup kvs) := by
  unfold wfRollupRec at hw
  simp only [Bool.and_eq_true, List.all_eq_true, decide_eq_true_eq] at hw
  obtain ⟨hkeys, hnd⟩ := hw
  rw [rollup_record_parse c hg lo hi kvs hkeys]
  congr 1
  apply full_ext
  · rw [fold_uss, sum_filter_ite]
    simp only [specFullRollup, Nat.zero_add]
    rfl
  · rw [fold_pss _ _ hnd]
    simp only [specFullRollup, kvGet]
    cases kvs.find? (fun e => e.key == bPss) with
    | none => rfl
    | some e => simp [Nat.mul_comm]
  · rw [fold_swap _ _ hnd]
    simp only [specFullRollup, kvGet]
    cases kvs.find? (fun e => e.key == bSwap) with
    | none => rfl
    | some e => simp [Nat.mul_comm]

/-! ### truncating once vs truncating every summand -/

theorem pss_listed_le_rolled (fine : List Nat) : pssListed fine ≤ pssRolled fine := by
  unfold pssListed pssRolled pssUnit
  induction fine with
  | nil => simp
  | cons a t ih =>
    simp only [List.map_cons, List.sum_cons]
    omega

theorem pss_rolled_lt (fine : List Nat) : pssRolled fine ≤ pssListed fine + (fine.length - 1) := by
  unfold pssListed pssRolled pssUnit
  induction fine with
  | nil => simp
  | cons a t ih =>
    simp only [List.map_cons, List.sum_cons, List.length_cons]
    cases t with
    | nil => simp
    | cons b t' =>
      simp only [List.map_cons, List.sum_cons, List.length_cons] at ih ⊢
      omega

end Psutil.C13
