/-
  Proofs/C10Conc.lean — invariant of the small-step concurrency model (Model/C10Conc.lean):
  when every body is guarded by the lock, the shared state and the return values are those of
  the serial execution of the logged bodies in lock-acquisition order.
-/
import PsutilModel.Proofs.C10
import PsutilModel.Model.C10Conc
namespace Psutil.C10

/-- configuration under which every body runs under `_wn.lock` -/
def Cfg.GoodConc (c : Cfg) : Prop := c.lockedRun = true ∧ c.lockedClear = true

theorem guarded_good (c : Cfg) (hg : c.GoodConc) (op : Op) : guarded c op = true := by
  cases op <;> simp [guarded, hg.1, hg.2]

theorem serial_snoc (c : Cfg) (l : List (Nat × Op)) (t : Nat) (op : Op) : ∀ s : St,
    serial c s (l ++ [(t, op)])
      = ((step c (serial c s l).1 op).1, (serial c s l).2 ++ [(t, (step c (serial c s l).1 op).2)]) := by
  induction l with
  | nil => intro s; simp [serial]
  | cons x xs ih =>
    intro s
    obtain ⟨u, o⟩ := x
    simp only [List.cons_append, serial, ih]

theorem serial_state (c : Cfg) (l : List (Nat × Op)) : ∀ s : St,
    (serial c s l).1 = runAll c s (l.map (·.2)) := by
  induction l with
  | nil => intro s; rfl
  | cons x xs ih => intro s; obtain ⟨u, o⟩ := x; simp [serial, runAll, ih]

theorem serial_append (c : Cfg) (a b : List (Nat × Op)) : ∀ s : St,
    serial c s (a ++ b) = ((serial c (serial c s a).1 b).1, (serial c s a).2 ++ (serial c (serial c s a).1 b).2) := by
  induction a with
  | nil => intro s; simp [serial]
  | cons x xs ih => intro s; obtain ⟨u, o⟩ := x; simp [serial, ih]

def quiet : PC → Prop
  | .idle => True
  | .want _ => True
  | _ => False

/-- what may be said about the thread that holds the lock -/
inductive HolderOk (c : Cfg) (log : List (Nat × Op)) (st : St) (outs : List (Nat × Out)) (t : Nat) :
    PC → Prop
  | held (op : Op) (done : List (Nat × Op)) : log = done ++ [(t, op)] →
      serial c St.init done = (st, outs) → HolderOk c log st outs t (.held op)
  | loaded (op : Op) (done : List (Nat × Op)) : log = done ++ [(t, op)] →
      serial c St.init done = (st, outs) → HolderOk c log st outs t (.loaded op st true)
  | stored : serial c St.init log = (st, outs) → HolderOk c log st outs t (.stored true)

structure InvC (c : Cfg) (s : Sys) : Prop where
  others : ∀ u, s.lock ≠ some u → quiet (s.pc u)
  free : s.lock = none → serial c St.init s.log = (s.st, s.outs)
  holder : ∀ t, s.lock = some t → HolderOk c s.log s.st s.outs t (s.pc t)

theorem invC_init (c : Cfg) : InvC c Sys.init :=
  ⟨fun _ _ => trivial, fun _ => rfl, fun _ h => by cases h⟩

theorem setPc_same (pc : Nat → PC) (t : Nat) (v : PC) : setPc pc t v t = v := by simp [setPc]
theorem setPc_other (pc : Nat → PC) (t u : Nat) (v : PC) (h : u ≠ t) : setPc pc t v u = pc u := by
  simp [setPc, h]

/-- a thread whose pc is quiet does not hold the lock -/
theorem not_holder_of_quiet {c : Cfg} {s : Sys} (hi : InvC c s) {t : Nat} (hq : quiet (s.pc t)) :
    s.lock ≠ some t := by
  intro hl
  have hh := hi.holder t hl
  generalize s.pc t = p at hh hq
  cases hh <;> exact hq

theorem holder_of_not_quiet {c : Cfg} {s : Sys} (hi : InvC c s) {t : Nat} (h : ¬ quiet (s.pc t)) :
    s.lock = some t :=
  Decidable.byContradiction fun hne => h (hi.others t hne)

theorem stepC_inv (c : Cfg) (hg : c.GoodConc) (s s' : Sys) (a : Act) (hi : InvC c s)
    (h : stepC c s a = some s') : InvC c s' := by
  cases a with
  | sample t n raw =>
    simp only [stepC] at h
    split at h
    · rename_i hp
      split at h
      · cases h
      simp only [Option.some.injEq] at h; subst h
      have hnh : s.lock ≠ some t := not_holder_of_quiet hi (by rw [hp]; trivial)
      refine ⟨fun u hu => ?_, hi.free, fun u hu => ?_⟩
      · by_cases e : u = t
        · subst e; simp only [setPc_same]; trivial
        · simp only [setPc_other _ _ _ _ e]; exact hi.others u hu
      · have e : u ≠ t := fun e => hnh (e ▸ hu)
        simp only [setPc_other _ _ _ _ e]; exact hi.holder u hu
    · cases h
  | wantClear t n =>
    simp only [stepC] at h
    split at h
    · rename_i hp
      simp only [Option.some.injEq] at h; subst h
      have hnh : s.lock ≠ some t := not_holder_of_quiet hi (by rw [hp]; trivial)
      refine ⟨fun u hu => ?_, hi.free, fun u hu => ?_⟩
      · by_cases e : u = t
        · subst e; simp only [setPc_same]; trivial
        · simp only [setPc_other _ _ _ _ e]; exact hi.others u hu
      · have e : u ≠ t := fun e => hnh (e ▸ hu)
        simp only [setPc_other _ _ _ _ e]; exact hi.holder u hu
    · cases h
  | acquire t =>
    simp only [stepC] at h
    split at h
    · rename_i op hp hl
      simp only [guarded_good c hg, if_true, Option.some.injEq] at h; subst h
      refine ⟨fun u hu => ?_, (fun hn => by cases hn), fun u hu => ?_⟩
      · have e : u ≠ t := fun e => hu (by simp [e])
        simp only [setPc_other _ _ _ _ e]
        exact hi.others u (by simp [hl])
      · simp only [Option.some.injEq] at hu; subst hu
        simp only [setPc_same]
        exact HolderOk.held op s.log rfl (hi.free hl)
    · cases h
  | load t =>
    simp only [stepC] at h
    split at h
    · rename_i op hp
      simp only [Option.some.injEq] at h; subst h
      have hl : s.lock = some t := holder_of_not_quiet hi (by rw [hp]; exact id)
      refine ⟨fun u hu => ?_, (fun hn => by simp [hl] at hn), fun u hu => ?_⟩
      · have e : u ≠ t := fun e => hu (by simp [e, hl])
        simp only [setPc_other _ _ _ _ e]; exact hi.others u hu
      · have e : u = t := by simpa [hl] using hu.symm
        subst e
        simp only [setPc_same]
        have := hi.holder u hl
        rw [hp] at this
        cases this with
        | held _ done h1 h2 => exact HolderOk.loaded op done h1 h2
    · simp only [guarded_good c hg, if_true] at h; cases h
    · cases h
  | store t =>
    simp only [stepC] at h
    split at h
    · rename_i op seen locked hp
      simp only [Option.some.injEq] at h; subst h
      have hl : s.lock = some t := holder_of_not_quiet hi (by rw [hp]; exact id)
      have hh := hi.holder t hl
      rw [hp] at hh
      cases hh with
      | loaded _ done h1 h2 =>
        refine ⟨fun u hu => ?_, (fun hn => by simp [hl] at hn), fun u hu => ?_⟩
        · have e : u ≠ t := fun e => hu (by simp [e, hl])
          simp only [setPc_other _ _ _ _ e]; exact hi.others u hu
        · have e : u = t := by simpa [hl] using hu.symm
          subst e
          simp only [setPc_same]
          apply HolderOk.stored
          rw [h1, serial_snoc, h2]
    · cases h
  | release t =>
    simp only [stepC] at h
    split at h
    · rename_i hp
      simp only [Option.some.injEq] at h; subst h
      have hl : s.lock = some t := holder_of_not_quiet hi (by rw [hp]; exact id)
      have hh := hi.holder t hl
      rw [hp] at hh
      cases hh with
      | stored h1 =>
        refine ⟨fun u _ => ?_, fun _ => h1, fun u hu => by cases hu⟩
        by_cases e : u = t
        · subst e; simp only [setPc_same]; trivial
        · simp only [setPc_other _ _ _ _ e]
          exact hi.others u (fun hu => e (by simpa [hl] using hu.symm))
    · rename_i hp
      exfalso
      have hl : s.lock = some t := holder_of_not_quiet hi (by rw [hp]; exact id)
      have hh := hi.holder t hl
      rw [hp] at hh
      cases hh
    · cases h

theorem runC_inv (c : Cfg) (hg : c.GoodConc) (acts : List Act) : ∀ s s' : Sys, InvC c s →
    runC c s acts = some s' → InvC c s' := by
  induction acts with
  | nil => intro s s' hi h; simp only [runC, Option.some.injEq] at h; exact h ▸ hi
  | cons a as ih =>
    intro s s' hi h
    simp only [runC] at h
    split at h
    · cases h
    · rename_i s1 h1
      exact ih s1 s' (stepC_inv c hg s s1 a hi h1) h

/-- the committed prefix of the log: everything, except the body that holds the lock and has
    not finished yet -/
theorem invC_committed (c : Cfg) (s : Sys) (hi : InvC c s) :
    ∃ done, (s.log = done ∨ ∃ x, s.log = done ++ [x]) ∧ serial c St.init done = (s.st, s.outs) := by
  cases hl : s.lock with
  | none => exact ⟨s.log, Or.inl rfl, hi.free hl⟩
  | some t =>
    have hh := hi.holder t hl
    generalize s.pc t = p at hh
    cases hh with
    | held op done h1 h2 => exact ⟨done, Or.inr ⟨_, h1⟩, h2⟩
    | loaded op done h1 h2 => exact ⟨done, Or.inr ⟨_, h1⟩, h2⟩
    | stored h1 => exact ⟨s.log, Or.inl rfl, h1⟩

/-- the return value of one logged body is the one of the sequential model after the bodies
    logged before it -/
theorem serial_out_at (c : Cfg) (pre post : List (Nat × Op)) (t : Nat) (op : Op) :
    (serial c St.init (pre ++ (t, op) :: post)).2
      = (serial c St.init pre).2
        ++ (t, (step c (runAll c St.init (pre.map (·.2))) op).2)
          :: (serial c (step c (runAll c St.init (pre.map (·.2))) op).1 post).2 := by
  rw [serial_append]
  simp only [serial, serial_state]

end Psutil.C10
