/-
  Proofs/C05Soft.lean — helper lemmas for the round-3 theorems of Props/C05.lean:

    * `children()` when processes turn unreadable while the tree is walked (NO hypothesis on the
      look-up world): whatever value the call returns is the value it would have returned had the
      unreadable processes vanished instead (`soften`: an `AccessDenied` look-up read as a
      `NoSuchProcess` one), and the only exception that can escape is `AccessDenied(c)` for a PID `c`
      that has a visible link and is unreadable when examined;
    * the identity check in the rich world: a dead caller (gone, another start time, unreadable, or
      flagged) is refused whatever else is unreadable.
-/
import PsutilModel.Proofs.C05Dyn
namespace Psutil.C05
open Spec

/-! ## an unreadable look-up read as a vanished one -/

/-- the same examination with `AccessDenied` turned into `NoSuchProcess` (skip) -/
def soften (ex : Nat → Exam) : Nat → Exam := fun p =>
  match ex p with
  | .raise => .skip
  | e => e

/-- the same world with every unreadable stat file gone -/
def undeny (w : XWorld) : XWorld := fun p =>
  match w p with
  | .denied => .gone
  | r => r

theorem undeny_ne_denied (w : XWorld) (p : Nat) : undeny w p ≠ .denied := by
  unfold undeny
  cases h : w p <;> simp

theorem lookOfW_undeny (w : XWorld) : lookOfW (undeny w) = lookOfW w := by
  funext p
  unfold lookOfW undeny
  cases h : w p <;> rfl

theorem examOf_undeny (op : Cmp) (ct : Nat) (w : XWorld) :
    examOf op ct (undeny w) = soften (examOf op ct w) := by
  funext p
  simp only [examOf, undeny, soften]
  cases h : w p with
  | gone => simp
  | denied => simp
  | ok pp s => cases he : op.eval ct s <;> simp [he]

theorem filterX_soften {ex : Nat → Exam} : ∀ {l r : List Nat}, filterX ex l = .ok r →
    filterX (soften ex) l = .ok r := by
  intro l
  induction l with
  | nil => intro r h; exact h
  | cons p ps ih =>
    intro r h
    unfold filterX at h ⊢
    unfold soften
    cases hex : ex p with
    | raise => rw [hex] at h; cases h
    | skip =>
      rw [hex] at h
      simp only at h ⊢
      exact ih h
    | take =>
      rw [hex] at h
      simp only at h ⊢
      cases hf : filterX ex ps with
      | error q => rw [hf] at h; cases h
      | ok l' =>
        rw [hf] at h
        have := ih hf
        unfold soften at this
        rw [this]
        exact h

theorem filterX_error {ex : Nat → Exam} : ∀ {l : List Nat} {p : Nat}, filterX ex l = .error p →
    p ∈ l ∧ ex p = .raise := by
  intro l
  induction l with
  | nil => intro p h; cases h
  | cons q qs ih =>
    intro p h
    unfold filterX at h
    cases hex : ex q with
    | raise =>
      rw [hex] at h
      simp only [Except.error.injEq] at h
      subst h
      exact ⟨List.mem_cons_self .., hex⟩
    | skip =>
      rw [hex] at h
      obtain ⟨h1, h2⟩ := ih h
      exact ⟨List.mem_cons_of_mem _ h1, h2⟩
    | take =>
      rw [hex] at h
      simp only at h
      cases hf : filterX ex qs with
      | error q' =>
        rw [hf] at h
        simp only [Except.error.injEq] at h
        subst h
        obtain ⟨h1, h2⟩ := ih hf
        exact ⟨List.mem_cons_of_mem _ h1, h2⟩
      | ok l' => rw [hf] at h; cases h

theorem walkX_soften {sg : Bool} {ex : Nat → Exam} {pm : PpidMap} :
    ∀ (fuel : Nat) (seen stack ret r : List Nat), walkX sg ex pm fuel seen stack ret = some (.ok r) →
      walkX sg (soften ex) pm fuel seen stack ret = some (.ok r) := by
  intro fuel
  induction fuel with
  | zero => intro _ _ _ _ h; cases h
  | succ fuel ih =>
    intro seen stack ret r h
    cases stack with
    | nil => exact h
    | cons pid rest =>
      unfold walkX at h ⊢
      cases hs : (sg && seen.contains pid) with
      | true =>
        rw [hs] at h
        simp only [if_true] at h ⊢
        exact ih _ _ _ _ h
      | false =>
        rw [hs] at h
        simp only [Bool.false_eq_true, if_false] at h ⊢
        cases hf : filterX ex (kidsOf pm pid) with
        | error q => rw [hf] at h; cases h
        | ok acc =>
          rw [hf] at h
          rw [filterX_soften hf]
          exact ih _ _ _ _ h

theorem walkX_error {sg : Bool} {ex : Nat → Exam} {pm : PpidMap} :
    ∀ (fuel : Nat) (seen stack ret : List Nat) (p : Nat), walkX sg ex pm fuel seen stack ret = some (.error p) →
      p ∈ pm.map (·.1) ∧ ex p = .raise := by
  intro fuel
  induction fuel with
  | zero => intro _ _ _ _ h; cases h
  | succ fuel ih =>
    intro seen stack ret p h
    cases stack with
    | nil => unfold walkX at h; cases h
    | cons pid rest =>
      unfold walkX at h
      cases hs : (sg && seen.contains pid) with
      | true =>
        rw [hs] at h
        simp only [if_true] at h
        exact ih _ _ _ _ h
      | false =>
        rw [hs] at h
        simp only [Bool.false_eq_true, if_false] at h
        cases hf : filterX ex (kidsOf pm pid) with
        | error q =>
          rw [hf] at h
          simp only [Option.some.injEq, Except.error.injEq] at h
          subst h
          obtain ⟨h1, h2⟩ := filterX_error hf
          exact ⟨kidsOf_sub_keys h1, h2⟩
        | ok acc =>
          rw [hf] at h
          exact ih _ _ _ _ h

theorem usedMap_keys_sub (c : Cfg) (root : Nat) (pm : PpidMap) :
    ∀ p ∈ (usedMap c root pm).map (·.1), p ∈ pm.map (·.1) := by
  intro p hp
  unfold usedMap at hp
  cases hs : c.skipSelf with
  | true =>
    rw [hs] at hp
    simp only [if_true] at hp
    obtain ⟨e, he, rfl⟩ := List.mem_map.1 hp
    exact List.mem_map.2 ⟨e, (List.mem_filter.1 he).1, rfl⟩
  | false =>
    rw [hs] at hp
    simpa using hp

theorem walkX_soften_none {sg : Bool} {ex : Nat → Exam} {pm : PpidMap} :
    ∀ (fuel : Nat) (seen stack ret : List Nat), walkX sg ex pm fuel seen stack ret = none →
      walkX sg (soften ex) pm fuel seen stack ret = none := by
  intro fuel
  induction fuel with
  | zero => intro _ _ _ _; rfl
  | succ fuel ih =>
    intro seen stack ret h
    cases stack with
    | nil => unfold walkX at h; cases h
    | cons pid rest =>
      unfold walkX at h ⊢
      cases hs : (sg && seen.contains pid) with
      | true =>
        rw [hs] at h
        simp only [if_true] at h ⊢
        exact ih _ _ _ h
      | false =>
        rw [hs] at h
        simp only [Bool.false_eq_true, if_false] at h ⊢
        cases hf : filterX ex (kidsOf pm pid) with
        | error q => rw [hf] at h; cases h
        | ok acc =>
          rw [hf] at h
          rw [filterX_soften hf]
          exact ih _ _ _ h

/-- unless `AccessDenied` escapes, the outcome in world `wl` is the outcome when the unreadable processes
    have vanished instead -/
theorem childrenX_undeny (c : XCfg) (me : Caller) (recursive : Bool) (L : List Nat) (w0 wl : XWorld)
    (h : ∀ p, (childrenX c me recursive L w0 wl).2 ≠ .denied p) :
    (childrenX c me recursive L w0 (undeny wl)).2 = (childrenX c me recursive L w0 wl).2 := by
  unfold childrenX at h ⊢
  dsimp only at h ⊢
  cases hg : (if c.base.childrenGuarded = true then raiseIfPidReusedX c.base.goneRaises w0 me else (me, false)).2 with
  | true => simp
  | false =>
    rw [hg] at h
    simp only [Bool.false_eq_true, if_false] at h ⊢
    cases hm : ppidMapX c.mapSkipsDenied c.mapSkipsGone w0 L with
    | error e => cases e <;> rfl
    | ok pm =>
      rw [hm] at h
      simp only at h ⊢
      cases recursive with
      | false =>
        simp only [Bool.not_false, if_true] at h ⊢
        rw [examOf_undeny]
        cases hf : filterX (examOf c.base.childOp me.ctime wl) (kidsOf (usedMap c.base me.pid pm) me.pid) with
        | error q => rw [hf] at h; exact absurd rfl (h q)
        | ok l' => rw [filterX_soften hf]
      | true =>
        simp only [Bool.not_true, Bool.false_eq_true, if_false] at h ⊢
        rw [examOf_undeny]
        cases hw : walkX c.base.seenGuard (examOf c.base.descOp me.ctime wl) (usedMap c.base me.pid pm)
            (walkFuel (usedMap c.base me.pid pm)) [] [me.pid] [] with
        | none => rw [walkX_soften_none _ _ _ _ hw]
        | some e =>
          cases e with
          | error q => rw [hw] at h; exact absurd rfl (h q)
          | ok l' => rw [walkX_soften _ _ _ _ _ hw]

/-- the only `AccessDenied` that can escape names a PID with a visible link that is unreadable when examined -/
theorem childrenX_denied (c : XCfg) (hskip : c.mapSkipsDenied = true ∧ c.mapSkipsGone = true) (me : Caller) (recursive : Bool)
    (L : List Nat) (w0 wl : XWorld) (p : Nat) (h : (childrenX c me recursive L w0 wl).2 = .denied p) :
    p ∈ (linksOf L w0).map (·.1) ∧ wl p = .denied := by
  unfold childrenX at h
  dsimp only at h
  cases hg : (if c.base.childrenGuarded = true then raiseIfPidReusedX c.base.goneRaises w0 me else (me, false)).2 with
  | true => rw [hg] at h; simp at h
  | false =>
    rw [hg, hskip.1, hskip.2, ppidMapX_skip] at h
    simp only [Bool.false_eq_true, if_false] at h
    cases recursive with
    | false =>
      simp only [Bool.not_false, if_true] at h
      cases hf : filterX (examOf c.base.childOp me.ctime wl) (kidsOf (usedMap c.base me.pid (linksOf L w0)) me.pid) with
      | error q =>
        rw [hf] at h
        simp only [XOut.denied.injEq] at h
        subst h
        obtain ⟨h1, h2⟩ := filterX_error hf
        exact ⟨usedMap_keys_sub _ _ _ _ (kidsOf_sub_keys h1), examOf_raise.1 h2⟩
      | ok l' => rw [hf] at h; simp at h
    | true =>
      simp only [Bool.not_true, Bool.false_eq_true, if_false] at h
      cases hw : walkX c.base.seenGuard (examOf c.base.descOp me.ctime wl) (usedMap c.base me.pid (linksOf L w0))
          (walkFuel (usedMap c.base me.pid (linksOf L w0))) [] [me.pid] [] with
      | none => rw [hw] at h; simp at h
      | some e =>
        cases e with
        | error q =>
          rw [hw] at h
          simp only [XOut.denied.injEq] at h
          subst h
          obtain ⟨h1, h2⟩ := walkX_error _ _ _ _ _ hw
          exact ⟨usedMap_keys_sub _ _ _ _ h1, examOf_raise.1 h2⟩
        | ok l' => rw [hw] at h; simp at h

/-! ## the identity check in the rich world -/

/-- anything but a live, readable, unflagged incarnation is refused -/
theorem raiseX_true_of_dead {w : XWorld} {me : Caller}
    (h : (¬ ∃ pp, w me.pid = .ok pp me.ctime) ∨ me.gone = true ∨ me.reused = true) :
    (raiseIfPidReusedX true w me).2 = true := by
  cases hre : me.reused with
  | true => simp [raiseIfPidReusedX, hre]
  | false =>
    cases hgone : me.gone with
    | true => simp [raiseIfPidReusedX, isRunningX, hre, hgone]
    | false =>
      refine raiseX_dead hre hgone ?_
      intro pp hpp
      rcases h with h | h | h
      · exact h ⟨pp, hpp⟩
      · rw [hgone] at h; cases h
      · rw [hre] at h; cases h

/-- a dead caller gets NoSuchProcess — off the lowest PID, or everywhere once the stop is guarded -/
theorem parentOfW_dead {rg : Bool} {s : PStep} {low pid ct : Nat} (hroot : pid ≠ low ∨ rg = true)
    (hdead : ¬ SameAt s pid ct) : parentOfW rg s low pid ct = .nsp pid := by
  unfold parentOfW
  by_cases hlow : pid = low
  · have hrg : rg = true := by
      rcases hroot with h | h
      · exact absurd hlow h
      · exact h
    simp only [hlow, if_true, hrg]
    cases hwi : s.wi low with
    | gone => rfl
    | denied => rfl
    | ok pp s0 =>
      by_cases hs0 : s0 = ct
      · exact absurd ⟨pp, by rw [hlow, hwi, hs0]⟩ hdead
      · simp [hs0]
  · simp only [hlow, if_false]
    cases hwi : s.wi pid with
    | gone => rfl
    | denied => rfl
    | ok pp s0 =>
      by_cases hs0 : s0 = ct
      · exact absurd ⟨pp, by rw [hwi, hs0]⟩ hdead
      · simp [hs0]

/-- what `parentOfW` = none means -/
theorem parentOfW_none {rg : Bool} {s : PStep} {low pid ct : Nat} (h : parentOfW rg s low pid ct = .none) :
    pid = low ∨ (SameAt s pid ct ∧ ∃ pp st0, s.wo pid = .ok pp st0 ∧
      (s.wp pp = .gone ∨ ∃ gp st, s.wp pp = .ok gp st ∧ ct < st)) := by
  unfold parentOfW at h
  by_cases hroot : pid = low
  · exact Or.inl hroot
  · right
    simp only [hroot, if_false] at h
    cases hwi : s.wi pid with
    | gone => simp [hwi] at h
    | denied => simp [hwi] at h
    | ok pp0 s0 =>
      simp only [hwi] at h
      by_cases hs0 : s0 = ct
      · subst hs0
        simp only [if_true] at h
        refine ⟨⟨pp0, hwi⟩, ?_⟩
        cases hwo : s.wo pid with
        | gone => simp [hwo] at h
        | denied => simp [hwo] at h
        | ok pp st0 =>
          simp only [hwo] at h
          refine ⟨pp, st0, rfl, ?_⟩
          cases hwp : s.wp pp with
          | gone => exact Or.inl rfl
          | denied => simp [hwp] at h
          | ok gp st =>
            simp only [hwp] at h
            by_cases hle : st ≤ s0
            · simp [hle] at h
            · exact Or.inr ⟨gp, st, rfl, by omega⟩
      · simp [hs0] at h

end Psutil.C05
