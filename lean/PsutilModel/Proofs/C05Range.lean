/-
  Proofs/C05Range.lean — the range gate of `Process(pid)` (Model/C05Range.lean) is TRANSPARENT on every world
  whose PIDs lie below the gate's limit: the gated walkers ARE the walkers of Model/C05.lean / Model/C05Dyn.lean,
  so every theorem about those speaks about the gated ones for process tables of the kernel's whole PID range —
  provided the limit is not below PID_MAX_LIMIT (obligation `rcfg_good` in Props/C05.lean).
-/
import PsutilModel.Model.C05Range
import PsutilModel.Spec.C05Range
import PsutilModel.Proofs.C05Static
namespace Psutil.C05
open Spec

theorem childrenX_eq_G (c : XCfg) (me : Caller) (recursive : Bool) (L : List Nat) (w0 wl : XWorld) :
    childrenX c me recursive L w0 wl = childrenXG c me recursive L w0 w0 wl := rfl

/-- the gate refuses nothing the kernel can hand out, and the translator has read ALL of it -/
structure RCfg.Good (rc : RCfg) : Prop where
  shape : rc.cShapeKnown = true
  initOnlyC : rc.initOnlyC = true
  limit : pidMaxLimit ≤ rc.limit

/-! ## worlds in range -/

theorem InRangeL.mono {lim lim' : Nat} {look : Look} (h : InRangeL lim look) (hle : lim ≤ lim') : InRangeL lim' look :=
  fun p hp => h p (Nat.le_trans hle hp)

theorem InRangeW.mono {lim lim' : Nat} {w : XWorld} (h : InRangeW lim w) (hle : lim ≤ lim') : InRangeW lim' w :=
  fun p hp => h p (Nat.le_trans hle hp)

theorem InRangeS.mono {lim lim' : Nat} {s : PStep} (h : InRangeS lim s) (hle : lim ≤ lim') : InRangeS lim' s :=
  ⟨InRangeW.mono h.1 hle, InRangeW.mono h.2 hle⟩

theorem find_none_of_bound {T : Table} {lim p : Nat} (h : ∀ r ∈ T, r.pid < lim) (hp : lim ≤ p) : T.find p = none := by
  unfold Table.find
  rw [List.find?_eq_none]
  intro r hr hrp
  have h1 := h r hr
  have h2 : r.pid = p := by simpa using hrp
  omega

/-- a table whose PIDs are below `lim` shows nothing from `lim` on -/
theorem inRangeL_lookOf {T : Table} {lim : Nat} (h : ∀ r ∈ T, r.pid < lim) : InRangeL lim (lookOf T) := by
  intro p hp
  unfold lookOf
  rw [find_none_of_bound h hp]
  rfl

theorem inRangeW_read {T : XTable} {lim : Nat} (h : ∀ r ∈ T, r.pid < lim) : InRangeW lim T.read := by
  intro p hp
  unfold XTable.read
  have : List.find? (fun r => r.pid == p) T = none := by
    rw [List.find?_eq_none]
    intro r hr hrp
    have h1 := h r hr
    have h2 : r.pid = p := by simpa using hrp
    omega
  rw [this]

theorem inRangeS_stepOfX {T : XTable} {lim : Nat} (h : ∀ r ∈ T, r.pid < lim) : InRangeS lim (stepOfX T) :=
  ⟨inRangeW_read h, inRangeW_read h⟩

theorem toX_bound {T : Table} {lim : Nat} (h : ∀ r ∈ T, r.pid < lim) : ∀ r ∈ Table.toX T, r.pid < lim := by
  intro r hr
  obtain ⟨q, hq, rfl⟩ := List.mem_map.1 hr
  exact h q hq

/-! ## the gate is transparent in range -/

theorem ctorLook_eq {rc : RCfg} {look : Look} (h : InRangeL rc.limit look) : ctorLook rc look = look := by
  funext p
  unfold ctorLook
  by_cases hp : p < rc.limit
  · simp [hp]
  · simp [hp, h p (Nat.le_of_not_lt hp)]

theorem ctorW_eq {rc : RCfg} {w : XWorld} (h : InRangeW rc.limit w) : ctorW rc w = w := by
  funext p
  unfold ctorW
  by_cases hp : p < rc.limit
  · simp [hp]
  · simp [hp, h p (Nat.le_of_not_lt hp)]

theorem gated_eq {rc : RCfg} {s : PStep} (h : InRangeS rc.limit s) : s.gated rc = s := by
  unfold PStep.gated
  rw [ctorW_eq h.1, ctorW_eq h.2]

/-- a PID the gate refuses cannot be opened, whatever `/proc` shows -/
theorem mkProcessR_refused (rc : RCfg) (look : Look) (pid : Nat) (h : rc.limit ≤ pid) :
    mkProcessR rc look pid = .nsp pid := by
  unfold mkProcessR mkProcess ctorLook
  simp [Nat.not_lt.2 h]

theorem mkProcessR_eq {rc : RCfg} {look : Look} (h : InRangeL rc.limit look) (pid : Nat) :
    mkProcessR rc look pid = mkProcess look pid := by
  unfold mkProcessR
  rw [ctorLook_eq h]

theorem childrenR_eq {rc : RCfg} {look0 look : Look} (h0 : InRangeL rc.limit look0) (h : InRangeL rc.limit look)
    (c : Cfg) (me : Caller) (recursive : Bool) (pm : PpidMap) :
    childrenR rc c me recursive look0 pm look = children c me recursive look0 pm look := by
  unfold childrenR
  rw [ctorLook_eq h0, ctorLook_eq h]

theorem childrenXR_eq {rc : RCfg} {w0 wl : XWorld} (h0 : InRangeW rc.limit w0) (h : InRangeW rc.limit wl)
    (c : XCfg) (me : Caller) (recursive : Bool) (L : List Nat) :
    childrenXR rc c me recursive L w0 wl = childrenX c me recursive L w0 wl := by
  unfold childrenXR
  rw [ctorW_eq h0, ctorW_eq h, childrenX_eq_G]

theorem parentXR_eq {rc : RCfg} {s : PStep} (h : InRangeS rc.limit s) (c : Cfg) (ps : Ps) (me : Caller) (os : Oneshot) :
    parentXR rc c ps s me os = parentX c ps s me os := by
  unfold parentXR
  rw [gated_eq h]

theorem parentsXR_eq {rc : RCfg} {W : Nat → PStep} (h : ∀ i, InRangeS rc.limit (W i)) (c : Cfg) (fuel : Nat) (ps : Ps)
    (me : Caller) (os : Oneshot) :
    parentsXR rc c fuel ps W me os = parentsX c fuel ps W me os := by
  unfold parentsXR
  have : (fun i => (W i).gated rc) = W := by
    funext i
    exact gated_eq (h i)
  rw [this]

/-- a listed process of a table with unique PIDs can be looked up -/
theorem lookOf_listed {T : Table} (hT : T.pids.Nodup) {r : Row} (hr : r ∈ T) : lookOf T r.pid = some r.start := by
  unfold lookOf Table.find
  induction T with
  | nil => cases hr
  | cons q qs ih =>
    simp only [Table.pids, List.map_cons, List.nodup_cons] at hT
    rw [List.find?_cons]
    rcases List.mem_cons.1 hr with rfl | hmem
    · simp
    · have hne : q.pid ≠ r.pid := by
        intro he
        exact hT.1 (he ▸ List.mem_map.2 ⟨r, hmem, rfl⟩)
      have : (q.pid == r.pid) = false := by simpa using hne
      rw [this]
      exact ih hT.2 hmem

end Psutil.C05
